
type __ = Obj.t

(** val xorb : bool -> bool -> bool **)

let xorb b1 b2 =
  if b1 then if b2 then false else true else b2

(** val negb : bool -> bool **)

let negb = function
| true -> false
| false -> true

type nat =
| O
| S of nat

(** val fst : ('a1 * 'a2) -> 'a1 **)

let fst = function
| (x, _) -> x

(** val snd : ('a1 * 'a2) -> 'a2 **)

let snd = function
| (_, y) -> y

(** val length : 'a1 list -> nat **)

let rec length = function
| [] -> O
| _ :: l' -> S (length l')

(** val app : 'a1 list -> 'a1 list -> 'a1 list **)

let rec app l m =
  match l with
  | [] -> m
  | a :: l1 -> a :: (app l1 m)

type comparison =
| Eq
| Lt
| Gt

(** val compOpp : comparison -> comparison **)

let compOpp = function
| Eq -> Eq
| Lt -> Gt
| Gt -> Lt

(** val id : __ -> __ **)

let id x =
  x

module Coq__1 = struct
 (** val add : nat -> nat -> nat **)
 let rec add n0 m =
   match n0 with
   | O -> m
   | S p -> S (add p m)
end
include Coq__1

module Nat =
 struct
  (** val eqb : nat -> nat -> bool **)

  let rec eqb n0 m =
    match n0 with
    | O -> (match m with
            | O -> true
            | S _ -> false)
    | S n' -> (match m with
               | O -> false
               | S m' -> eqb n' m')
 end

(** val hd : 'a1 -> 'a1 list -> 'a1 **)

let hd default = function
| [] -> default
| x :: _ -> x

(** val hd_error : 'a1 list -> 'a1 option **)

let hd_error = function
| [] -> None
| x :: _ -> Some x

(** val nth : nat -> 'a1 list -> 'a1 -> 'a1 **)

let rec nth n0 l default =
  match n0 with
  | O -> (match l with
          | [] -> default
          | x :: _ -> x)
  | S m -> (match l with
            | [] -> default
            | _ :: t -> nth m t default)

(** val nth_error : 'a1 list -> nat -> 'a1 option **)

let rec nth_error l = function
| O -> (match l with
        | [] -> None
        | x :: _ -> Some x)
| S n1 -> (match l with
           | [] -> None
           | _ :: l0 -> nth_error l0 n1)

(** val last : 'a1 list -> 'a1 -> 'a1 **)

let rec last l d =
  match l with
  | [] -> d
  | a :: l0 -> (match l0 with
                | [] -> a
                | _ :: _ -> last l0 d)

(** val rev : 'a1 list -> 'a1 list **)

let rec rev = function
| [] -> []
| x :: l' -> app (rev l') (x :: [])

(** val concat : 'a1 list list -> 'a1 list **)

let rec concat = function
| [] -> []
| x :: l0 -> app x (concat l0)

(** val list_eq_dec : ('a1 -> 'a1 -> bool) -> 'a1 list -> 'a1 list -> bool **)

let rec list_eq_dec eq_dec0 l l' =
  match l with
  | [] -> (match l' with
           | [] -> true
           | _ :: _ -> false)
  | y :: l0 ->
    (match l' with
     | [] -> false
     | a :: l1 -> if eq_dec0 y a then list_eq_dec eq_dec0 l0 l1 else false)

(** val map : ('a1 -> 'a2) -> 'a1 list -> 'a2 list **)

let rec map f = function
| [] -> []
| a :: t -> (f a) :: (map f t)

(** val flat_map : ('a1 -> 'a2 list) -> 'a1 list -> 'a2 list **)

let rec flat_map f = function
| [] -> []
| x :: t -> app (f x) (flat_map f t)

(** val fold_left : ('a1 -> 'a2 -> 'a1) -> 'a2 list -> 'a1 -> 'a1 **)

let rec fold_left f l a0 =
  match l with
  | [] -> a0
  | b0 :: t -> fold_left f t (f a0 b0)

(** val fold_right : ('a2 -> 'a1 -> 'a1) -> 'a1 -> 'a2 list -> 'a1 **)

let rec fold_right f a0 = function
| [] -> a0
| b0 :: t -> f b0 (fold_right f a0 t)

(** val existsb : ('a1 -> bool) -> 'a1 list -> bool **)

let rec existsb f = function
| [] -> false
| a :: l0 -> (||) (f a) (existsb f l0)

(** val forallb : ('a1 -> bool) -> 'a1 list -> bool **)

let rec forallb f = function
| [] -> true
| a :: l0 -> (&&) (f a) (forallb f l0)

(** val filter : ('a1 -> bool) -> 'a1 list -> 'a1 list **)

let rec filter f = function
| [] -> []
| x :: l0 -> if f x then x :: (filter f l0) else filter f l0

(** val find : ('a1 -> bool) -> 'a1 list -> 'a1 option **)

let rec find f = function
| [] -> None
| x :: tl -> if f x then Some x else find f tl

(** val combine : 'a1 list -> 'a2 list -> ('a1 * 'a2) list **)

let rec combine l l' =
  match l with
  | [] -> []
  | x :: tl ->
    (match l' with
     | [] -> []
     | y :: tl' -> (x, y) :: (combine tl tl'))

(** val firstn : nat -> 'a1 list -> 'a1 list **)

let rec firstn n0 l =
  match n0 with
  | O -> []
  | S n1 -> (match l with
             | [] -> []
             | a :: l0 -> a :: (firstn n1 l0))

(** val skipn : nat -> 'a1 list -> 'a1 list **)

let rec skipn n0 l =
  match n0 with
  | O -> l
  | S n1 -> (match l with
             | [] -> []
             | _ :: l0 -> skipn n1 l0)

(** val seq : nat -> nat -> nat list **)

let rec seq start = function
| O -> []
| S len0 -> start :: (seq (S start) len0)

(** val repeat : 'a1 -> nat -> 'a1 list **)

let rec repeat x = function
| O -> []
| S k -> x :: (repeat x k)

type positive =
| XI of positive
| XO of positive
| XH

type n =
| N0
| Npos of positive

type z =
| Z0
| Zpos of positive
| Zneg of positive

module Pos =
 struct
  type mask =
  | IsNul
  | IsPos of positive
  | IsNeg
 end

module Coq_Pos =
 struct
  (** val succ : positive -> positive **)

  let rec succ = function
  | XI p -> XO (succ p)
  | XO p -> XI p
  | XH -> XO XH

  (** val add : positive -> positive -> positive **)

  let rec add x y =
    match x with
    | XI p ->
      (match y with
       | XI q -> XO (add_carry p q)
       | XO q -> XI (add p q)
       | XH -> XO (succ p))
    | XO p ->
      (match y with
       | XI q -> XI (add p q)
       | XO q -> XO (add p q)
       | XH -> XI p)
    | XH -> (match y with
             | XI q -> XO (succ q)
             | XO q -> XI q
             | XH -> XO XH)

  (** val add_carry : positive -> positive -> positive **)

  and add_carry x y =
    match x with
    | XI p ->
      (match y with
       | XI q -> XI (add_carry p q)
       | XO q -> XO (add_carry p q)
       | XH -> XI (succ p))
    | XO p ->
      (match y with
       | XI q -> XO (add_carry p q)
       | XO q -> XI (add p q)
       | XH -> XO (succ p))
    | XH ->
      (match y with
       | XI q -> XI (succ q)
       | XO q -> XO (succ q)
       | XH -> XI XH)

  (** val pred_double : positive -> positive **)

  let rec pred_double = function
  | XI p -> XI (XO p)
  | XO p -> XI (pred_double p)
  | XH -> XH

  type mask = Pos.mask =
  | IsNul
  | IsPos of positive
  | IsNeg

  (** val succ_double_mask : mask -> mask **)

  let succ_double_mask = function
  | IsNul -> IsPos XH
  | IsPos p -> IsPos (XI p)
  | IsNeg -> IsNeg

  (** val double_mask : mask -> mask **)

  let double_mask = function
  | IsPos p -> IsPos (XO p)
  | x0 -> x0

  (** val double_pred_mask : positive -> mask **)

  let double_pred_mask = function
  | XI p -> IsPos (XO (XO p))
  | XO p -> IsPos (XO (pred_double p))
  | XH -> IsNul

  (** val sub_mask : positive -> positive -> mask **)

  let rec sub_mask x y =
    match x with
    | XI p ->
      (match y with
       | XI q -> double_mask (sub_mask p q)
       | XO q -> succ_double_mask (sub_mask p q)
       | XH -> IsPos (XO p))
    | XO p ->
      (match y with
       | XI q -> succ_double_mask (sub_mask_carry p q)
       | XO q -> double_mask (sub_mask p q)
       | XH -> IsPos (pred_double p))
    | XH -> (match y with
             | XH -> IsNul
             | _ -> IsNeg)

  (** val sub_mask_carry : positive -> positive -> mask **)

  and sub_mask_carry x y =
    match x with
    | XI p ->
      (match y with
       | XI q -> succ_double_mask (sub_mask_carry p q)
       | XO q -> double_mask (sub_mask p q)
       | XH -> IsPos (pred_double p))
    | XO p ->
      (match y with
       | XI q -> double_mask (sub_mask_carry p q)
       | XO q -> succ_double_mask (sub_mask_carry p q)
       | XH -> double_pred_mask p)
    | XH -> IsNeg

  (** val mul : positive -> positive -> positive **)

  let rec mul x y =
    match x with
    | XI p -> add y (XO (mul p y))
    | XO p -> XO (mul p y)
    | XH -> y

  (** val iter : ('a1 -> 'a1) -> 'a1 -> positive -> 'a1 **)

  let rec iter f x = function
  | XI n' -> f (iter f (iter f x n') n')
  | XO n' -> iter f (iter f x n') n'
  | XH -> f x

  (** val size_nat : positive -> nat **)

  let rec size_nat = function
  | XI p0 -> S (size_nat p0)
  | XO p0 -> S (size_nat p0)
  | XH -> S O

  (** val size : positive -> positive **)

  let rec size = function
  | XI p0 -> succ (size p0)
  | XO p0 -> succ (size p0)
  | XH -> XH

  (** val compare_cont : comparison -> positive -> positive -> comparison **)

  let rec compare_cont r x y =
    match x with
    | XI p ->
      (match y with
       | XI q -> compare_cont r p q
       | XO q -> compare_cont Gt p q
       | XH -> Gt)
    | XO p ->
      (match y with
       | XI q -> compare_cont Lt p q
       | XO q -> compare_cont r p q
       | XH -> Gt)
    | XH -> (match y with
             | XH -> r
             | _ -> Lt)

  (** val compare : positive -> positive -> comparison **)

  let compare =
    compare_cont Eq

  (** val eqb : positive -> positive -> bool **)

  let rec eqb p q =
    match p with
    | XI p0 -> (match q with
                | XI q0 -> eqb p0 q0
                | _ -> false)
    | XO p0 -> (match q with
                | XO q0 -> eqb p0 q0
                | _ -> false)
    | XH -> (match q with
             | XH -> true
             | _ -> false)

  (** val coq_Nsucc_double : n -> n **)

  let coq_Nsucc_double = function
  | N0 -> Npos XH
  | Npos p -> Npos (XI p)

  (** val coq_Ndouble : n -> n **)

  let coq_Ndouble = function
  | N0 -> N0
  | Npos p -> Npos (XO p)

  (** val coq_lor : positive -> positive -> positive **)

  let rec coq_lor p q =
    match p with
    | XI p0 ->
      (match q with
       | XI q0 -> XI (coq_lor p0 q0)
       | XO q0 -> XI (coq_lor p0 q0)
       | XH -> p)
    | XO p0 ->
      (match q with
       | XI q0 -> XI (coq_lor p0 q0)
       | XO q0 -> XO (coq_lor p0 q0)
       | XH -> XI p0)
    | XH -> (match q with
             | XO q0 -> XI q0
             | _ -> q)

  (** val coq_land : positive -> positive -> n **)

  let rec coq_land p q =
    match p with
    | XI p0 ->
      (match q with
       | XI q0 -> coq_Nsucc_double (coq_land p0 q0)
       | XO q0 -> coq_Ndouble (coq_land p0 q0)
       | XH -> Npos XH)
    | XO p0 ->
      (match q with
       | XI q0 -> coq_Ndouble (coq_land p0 q0)
       | XO q0 -> coq_Ndouble (coq_land p0 q0)
       | XH -> N0)
    | XH -> (match q with
             | XO _ -> N0
             | _ -> Npos XH)

  (** val coq_lxor : positive -> positive -> n **)

  let rec coq_lxor p q =
    match p with
    | XI p0 ->
      (match q with
       | XI q0 -> coq_Ndouble (coq_lxor p0 q0)
       | XO q0 -> coq_Nsucc_double (coq_lxor p0 q0)
       | XH -> Npos (XO p0))
    | XO p0 ->
      (match q with
       | XI q0 -> coq_Nsucc_double (coq_lxor p0 q0)
       | XO q0 -> coq_Ndouble (coq_lxor p0 q0)
       | XH -> Npos (XI p0))
    | XH ->
      (match q with
       | XI q0 -> Npos (XO q0)
       | XO q0 -> Npos (XI q0)
       | XH -> N0)

  (** val shiftl : positive -> n -> positive **)

  let shiftl p = function
  | N0 -> p
  | Npos n1 -> iter (fun x -> XO x) p n1

  (** val iter_op : ('a1 -> 'a1 -> 'a1) -> positive -> 'a1 -> 'a1 **)

  let rec iter_op op p a =
    match p with
    | XI p0 -> op a (iter_op op p0 (op a a))
    | XO p0 -> iter_op op p0 (op a a)
    | XH -> a

  (** val to_nat : positive -> nat **)

  let to_nat x =
    iter_op Coq__1.add x (S O)

  (** val of_succ_nat : nat -> positive **)

  let rec of_succ_nat = function
  | O -> XH
  | S x -> succ (of_succ_nat x)

  (** val eq_dec : positive -> positive -> bool **)

  let rec eq_dec p x0 =
    match p with
    | XI p0 -> (match x0 with
                | XI p1 -> eq_dec p0 p1
                | _ -> false)
    | XO p0 -> (match x0 with
                | XO p1 -> eq_dec p0 p1
                | _ -> false)
    | XH -> (match x0 with
             | XH -> true
             | _ -> false)
 end

module N =
 struct
  (** val succ_double : n -> n **)

  let succ_double = function
  | N0 -> Npos XH
  | Npos p -> Npos (XI p)

  (** val double : n -> n **)

  let double = function
  | N0 -> N0
  | Npos p -> Npos (XO p)

  (** val succ : n -> n **)

  let succ = function
  | N0 -> Npos XH
  | Npos p -> Npos (Coq_Pos.succ p)

  (** val add : n -> n -> n **)

  let add n0 m =
    match n0 with
    | N0 -> m
    | Npos p -> (match m with
                 | N0 -> n0
                 | Npos q -> Npos (Coq_Pos.add p q))

  (** val sub : n -> n -> n **)

  let sub n0 m =
    match n0 with
    | N0 -> N0
    | Npos n' ->
      (match m with
       | N0 -> n0
       | Npos m' ->
         (match Coq_Pos.sub_mask n' m' with
          | Coq_Pos.IsPos p -> Npos p
          | _ -> N0))

  (** val mul : n -> n -> n **)

  let mul n0 m =
    match n0 with
    | N0 -> N0
    | Npos p -> (match m with
                 | N0 -> N0
                 | Npos q -> Npos (Coq_Pos.mul p q))

  (** val compare : n -> n -> comparison **)

  let compare n0 m =
    match n0 with
    | N0 -> (match m with
             | N0 -> Eq
             | Npos _ -> Lt)
    | Npos n' -> (match m with
                  | N0 -> Gt
                  | Npos m' -> Coq_Pos.compare n' m')

  (** val eqb : n -> n -> bool **)

  let eqb n0 m =
    match n0 with
    | N0 -> (match m with
             | N0 -> true
             | Npos _ -> false)
    | Npos p -> (match m with
                 | N0 -> false
                 | Npos q -> Coq_Pos.eqb p q)

  (** val leb : n -> n -> bool **)

  let leb x y =
    match compare x y with
    | Gt -> false
    | _ -> true

  (** val ltb : n -> n -> bool **)

  let ltb x y =
    match compare x y with
    | Lt -> true
    | _ -> false

  (** val div2 : n -> n **)

  let div2 = function
  | N0 -> N0
  | Npos p0 -> (match p0 with
                | XI p -> Npos p
                | XO p -> Npos p
                | XH -> N0)

  (** val log2 : n -> n **)

  let log2 = function
  | N0 -> N0
  | Npos p0 ->
    (match p0 with
     | XI p -> Npos (Coq_Pos.size p)
     | XO p -> Npos (Coq_Pos.size p)
     | XH -> N0)

  (** val size_nat : n -> nat **)

  let size_nat = function
  | N0 -> O
  | Npos p -> Coq_Pos.size_nat p

  (** val pos_div_eucl : positive -> n -> n * n **)

  let rec pos_div_eucl a b0 =
    match a with
    | XI a' ->
      let (q, r) = pos_div_eucl a' b0 in
      let r' = succ_double r in
      if leb b0 r' then ((succ_double q), (sub r' b0)) else ((double q), r')
    | XO a' ->
      let (q, r) = pos_div_eucl a' b0 in
      let r' = double r in
      if leb b0 r' then ((succ_double q), (sub r' b0)) else ((double q), r')
    | XH ->
      (match b0 with
       | N0 -> (N0, (Npos XH))
       | Npos p -> (match p with
                    | XH -> ((Npos XH), N0)
                    | _ -> (N0, (Npos XH))))

  (** val div_eucl : n -> n -> n * n **)

  let div_eucl a b0 =
    match a with
    | N0 -> (N0, N0)
    | Npos na -> (match b0 with
                  | N0 -> (N0, a)
                  | Npos _ -> pos_div_eucl na b0)

  (** val div : n -> n -> n **)

  let div a b0 =
    fst (div_eucl a b0)

  (** val modulo : n -> n -> n **)

  let modulo a b0 =
    snd (div_eucl a b0)

  (** val coq_lor : n -> n -> n **)

  let coq_lor n0 m =
    match n0 with
    | N0 -> m
    | Npos p -> (match m with
                 | N0 -> n0
                 | Npos q -> Npos (Coq_Pos.coq_lor p q))

  (** val coq_land : n -> n -> n **)

  let coq_land n0 m =
    match n0 with
    | N0 -> N0
    | Npos p -> (match m with
                 | N0 -> N0
                 | Npos q -> Coq_Pos.coq_land p q)

  (** val coq_lxor : n -> n -> n **)

  let coq_lxor n0 m =
    match n0 with
    | N0 -> m
    | Npos p -> (match m with
                 | N0 -> n0
                 | Npos q -> Coq_Pos.coq_lxor p q)

  (** val shiftl : n -> n -> n **)

  let shiftl a n0 =
    match a with
    | N0 -> N0
    | Npos a0 -> Npos (Coq_Pos.shiftl a0 n0)

  (** val shiftr : n -> n -> n **)

  let shiftr a = function
  | N0 -> a
  | Npos p -> Coq_Pos.iter div2 a p

  (** val to_nat : n -> nat **)

  let to_nat = function
  | N0 -> O
  | Npos p -> Coq_Pos.to_nat p

  (** val of_nat : nat -> n **)

  let of_nat = function
  | O -> N0
  | S n' -> Npos (Coq_Pos.of_succ_nat n')

  (** val eq_dec : n -> n -> bool **)

  let eq_dec n0 m =
    match n0 with
    | N0 -> (match m with
             | N0 -> true
             | Npos _ -> false)
    | Npos p -> (match m with
                 | N0 -> false
                 | Npos p0 -> Coq_Pos.eq_dec p p0)
 end

type ascii =
| Ascii of bool * bool * bool * bool * bool * bool * bool * bool

(** val n_of_digits : bool list -> n **)

let rec n_of_digits = function
| [] -> N0
| b0 :: l' ->
  N.add (if b0 then Npos XH else N0) (N.mul (Npos (XO XH)) (n_of_digits l'))

(** val n_of_ascii : ascii -> n **)

let n_of_ascii = function
| Ascii (a0, a1, a2, a3, a4, a5, a6, a7) ->
  n_of_digits
    (a0 :: (a1 :: (a2 :: (a3 :: (a4 :: (a5 :: (a6 :: (a7 :: []))))))))

module Z =
 struct
  (** val double : z -> z **)

  let double = function
  | Z0 -> Z0
  | Zpos p -> Zpos (XO p)
  | Zneg p -> Zneg (XO p)

  (** val succ_double : z -> z **)

  let succ_double = function
  | Z0 -> Zpos XH
  | Zpos p -> Zpos (XI p)
  | Zneg p -> Zneg (Coq_Pos.pred_double p)

  (** val pred_double : z -> z **)

  let pred_double = function
  | Z0 -> Zneg XH
  | Zpos p -> Zpos (Coq_Pos.pred_double p)
  | Zneg p -> Zneg (XI p)

  (** val pos_sub : positive -> positive -> z **)

  let rec pos_sub x y =
    match x with
    | XI p ->
      (match y with
       | XI q -> double (pos_sub p q)
       | XO q -> succ_double (pos_sub p q)
       | XH -> Zpos (XO p))
    | XO p ->
      (match y with
       | XI q -> pred_double (pos_sub p q)
       | XO q -> double (pos_sub p q)
       | XH -> Zpos (Coq_Pos.pred_double p))
    | XH ->
      (match y with
       | XI q -> Zneg (XO q)
       | XO q -> Zneg (Coq_Pos.pred_double q)
       | XH -> Z0)

  (** val add : z -> z -> z **)

  let add x y =
    match x with
    | Z0 -> y
    | Zpos x' ->
      (match y with
       | Z0 -> x
       | Zpos y' -> Zpos (Coq_Pos.add x' y')
       | Zneg y' -> pos_sub x' y')
    | Zneg x' ->
      (match y with
       | Z0 -> x
       | Zpos y' -> pos_sub y' x'
       | Zneg y' -> Zneg (Coq_Pos.add x' y'))

  (** val mul : z -> z -> z **)

  let mul x y =
    match x with
    | Z0 -> Z0
    | Zpos x' ->
      (match y with
       | Z0 -> Z0
       | Zpos y' -> Zpos (Coq_Pos.mul x' y')
       | Zneg y' -> Zneg (Coq_Pos.mul x' y'))
    | Zneg x' ->
      (match y with
       | Z0 -> Z0
       | Zpos y' -> Zneg (Coq_Pos.mul x' y')
       | Zneg y' -> Zpos (Coq_Pos.mul x' y'))

  (** val compare : z -> z -> comparison **)

  let compare x y =
    match x with
    | Z0 -> (match y with
             | Z0 -> Eq
             | Zpos _ -> Lt
             | Zneg _ -> Gt)
    | Zpos x' -> (match y with
                  | Zpos y' -> Coq_Pos.compare x' y'
                  | _ -> Gt)
    | Zneg x' ->
      (match y with
       | Zneg y' -> compOpp (Coq_Pos.compare x' y')
       | _ -> Lt)

  (** val leb : z -> z -> bool **)

  let leb x y =
    match compare x y with
    | Gt -> false
    | _ -> true

  (** val ltb : z -> z -> bool **)

  let ltb x y =
    match compare x y with
    | Lt -> true
    | _ -> false

  (** val to_N : z -> n **)

  let to_N = function
  | Zpos p -> Npos p
  | _ -> N0

  (** val of_N : n -> z **)

  let of_N = function
  | N0 -> Z0
  | Npos p -> Zpos p
 end

type string =
| EmptyString
| String of ascii * string

(** val list_ascii_of_string : string -> ascii list **)

let rec list_ascii_of_string = function
| EmptyString -> []
| String (ch, s0) -> ch :: (list_ascii_of_string s0)

type err =
| EIllegalMove
| EIllegalAction
| EFinished
| EWrongMoveNumber
| EFen
| EOverlap
| ESelfConsistency
| EKings
| EOppCheck
| EEnPassant
| ECastling
| EMoveRepr
| EPromoPiece
| ESquareRepr
| EFileName
| ERankName
| EPieceRepr
| EIndex
| ENeg
| EPgn

type 'a res =
| Ok of 'a
| Err of err
| Panic

(** val bind : 'a1 res -> ('a1 -> 'a2 res) -> 'a2 res **)

let bind r f =
  match r with
  | Ok a -> f a
  | Err e -> Err e
  | Panic -> Panic

(** val unwrap : 'a1 res -> 'a1 res **)

let unwrap r = match r with
| Err _ -> Panic
| _ -> r

(** val unwrap_o : 'a1 option -> 'a1 res **)

let unwrap_o = function
| Some x -> Ok x
| None -> Panic

type color =
| White
| Black

type ptype =
| Pawn
| Knight
| Bishop
| Rook
| Queen
| King

type piece = ptype * color

type square = n

(** val opp : color -> color **)

let opp = function
| White -> Black
| Black -> White

(** val color_eqb : color -> color -> bool **)

let color_eqb a b0 =
  match a with
  | White -> (match b0 with
              | White -> true
              | Black -> false)
  | Black -> (match b0 with
              | White -> false
              | Black -> true)

(** val ptype_eqb : ptype -> ptype -> bool **)

let ptype_eqb a b0 =
  match a with
  | Pawn -> (match b0 with
             | Pawn -> true
             | _ -> false)
  | Knight -> (match b0 with
               | Knight -> true
               | _ -> false)
  | Bishop -> (match b0 with
               | Bishop -> true
               | _ -> false)
  | Rook -> (match b0 with
             | Rook -> true
             | _ -> false)
  | Queen -> (match b0 with
              | Queen -> true
              | _ -> false)
  | King -> (match b0 with
             | King -> true
             | _ -> false)

(** val piece_eqb : piece -> piece -> bool **)

let piece_eqb a b0 =
  (&&) (ptype_eqb (fst a) (fst b0)) (color_eqb (snd a) (snd b0))

(** val opiece_eqb : piece option -> piece option -> bool **)

let opiece_eqb a b0 =
  match a with
  | Some x -> (match b0 with
               | Some y -> piece_eqb x y
               | None -> false)
  | None -> (match b0 with
             | Some _ -> false
             | None -> true)

(** val osq_eqb : square option -> square option -> bool **)

let osq_eqb a b0 =
  match a with
  | Some x -> (match b0 with
               | Some y -> N.eqb x y
               | None -> false)
  | None -> (match b0 with
             | Some _ -> false
             | None -> true)

(** val optype_eqb : ptype option -> ptype option -> bool **)

let optype_eqb a b0 =
  match a with
  | Some x -> (match b0 with
               | Some y -> ptype_eqb x y
               | None -> false)
  | None -> (match b0 with
             | Some _ -> false
             | None -> true)

(** val all_types : ptype list **)

let all_types =
  Pawn :: (Knight :: (Bishop :: (Rook :: (Queen :: (King :: [])))))

(** val color_of_index : n -> color res **)

let color_of_index = function
| N0 -> Ok White
| Npos p -> (match p with
             | XH -> Ok Black
             | _ -> Err EIndex)

(** val ptype_index : ptype -> n **)

let ptype_index = function
| Pawn -> N0
| Knight -> Npos XH
| Bishop -> Npos (XO XH)
| Rook -> Npos (XI XH)
| Queen -> Npos (XO (XO XH))
| King -> Npos (XI (XO XH))

(** val ptype_of_index : n -> ptype res **)

let ptype_of_index = function
| N0 -> Ok Pawn
| Npos p ->
  (match p with
   | XI p0 ->
     (match p0 with
      | XI _ -> Err EIndex
      | XO p1 -> (match p1 with
                  | XH -> Ok King
                  | _ -> Err EIndex)
      | XH -> Ok Rook)
   | XO p0 ->
     (match p0 with
      | XI _ -> Err EIndex
      | XO p1 -> (match p1 with
                  | XH -> Ok Queen
                  | _ -> Err EIndex)
      | XH -> Ok Bishop)
   | XH -> Ok Knight)

(** val back_rank : color -> n **)

let back_rank = function
| White -> N0
| Black -> Npos (XI (XI XH))

(** val promotion_rank : color -> n **)

let promotion_rank = function
| White -> Npos (XI (XI XH))
| Black -> N0

(** val idx8_of : n -> n res **)

let idx8_of n0 =
  if N.ltb n0 (Npos (XO (XO (XO XH)))) then Ok n0 else Err EIndex

(** val idx_up : n -> n res **)

let idx_up i =
  idx8_of (N.add i (Npos XH))

(** val idx_down : n -> n res **)

let idx_down i =
  if N.eqb i N0 then Err ENeg else idx8_of (N.sub i (Npos XH))

(** val sq_new : n -> square res **)

let sq_new n0 =
  if N.ltb n0 (Npos (XO (XO (XO (XO (XO (XO XH)))))))
  then Ok n0
  else Err EIndex

(** val rank : square -> n **)

let rank s =
  N.shiftr s (Npos (XI XH))

(** val file : square -> n **)

let file s =
  N.coq_land s (Npos (XI (XI XH)))

(** val mk_sq : n -> n -> square **)

let mk_sq r f =
  N.coq_lxor (N.shiftl r (Npos (XI XH))) f

(** val sq_up : square -> square res **)

let sq_up s =
  bind (idx_up (rank s)) (fun r -> Ok (mk_sq r (file s)))

(** val sq_down : square -> square res **)

let sq_down s =
  bind (idx_down (rank s)) (fun r -> Ok (mk_sq r (file s)))

(** val sq_right : square -> square res **)

let sq_right s =
  bind (idx_up (file s)) (fun f -> Ok (mk_sq (rank s) f))

(** val sq_left : square -> square res **)

let sq_left s =
  bind (idx_down (file s)) (fun f -> Ok (mk_sq (rank s) f))

(** val is_light : square -> bool **)

let is_light s =
  negb (N.eqb (N.modulo (N.add (rank s) (file s)) (Npos (XO XH))) N0)

(** val squares : square list **)

let squares =
  map N.of_nat
    (seq O (S (S (S (S (S (S (S (S (S (S (S (S (S (S (S (S (S (S (S (S (S (S
      (S (S (S (S (S (S (S (S (S (S (S (S (S (S (S (S (S (S (S (S (S (S (S (S
      (S (S (S (S (S (S (S (S (S (S (S (S (S (S (S (S (S (S
      O)))))))))))))))))))))))))))))))))))))))))))))))))))))))))))))))))

(** val idx8 : n list **)

let idx8 =
  N0 :: ((Npos XH) :: ((Npos (XO XH)) :: ((Npos (XI XH)) :: ((Npos (XO (XO
    XH))) :: ((Npos (XI (XO XH))) :: ((Npos (XO (XI XH))) :: ((Npos (XI (XI
    XH))) :: [])))))))

type cr =
| Neither
| QueenSide
| KingSide
| BothSides

(** val cr_eqb : cr -> cr -> bool **)

let cr_eqb a b0 =
  match a with
  | Neither -> (match b0 with
                | Neither -> true
                | _ -> false)
  | QueenSide -> (match b0 with
                  | QueenSide -> true
                  | _ -> false)
  | KingSide -> (match b0 with
                 | KingSide -> true
                 | _ -> false)
  | BothSides -> (match b0 with
                  | BothSides -> true
                  | _ -> false)

(** val has_kingside : cr -> bool **)

let has_kingside = function
| Neither -> false
| QueenSide -> false
| _ -> true

(** val has_queenside : cr -> bool **)

let has_queenside = function
| Neither -> false
| KingSide -> false
| _ -> true

(** val cr_of_bits : bool -> bool -> cr **)

let cr_of_bits k q =
  if k
  then if q then BothSides else KingSide
  else if q then QueenSide else Neither

(** val cr_add : cr -> cr -> cr **)

let cr_add a b0 =
  cr_of_bits ((||) (has_kingside a) (has_kingside b0))
    ((||) (has_queenside a) (has_queenside b0))

(** val cr_sub : cr -> cr -> cr **)

let cr_sub a b0 =
  cr_of_bits ((&&) (has_kingside a) (negb (has_kingside b0)))
    ((&&) (has_queenside a) (negb (has_queenside b0)))

(** val cr_index : cr -> n **)

let cr_index = function
| Neither -> N0
| QueenSide -> Npos XH
| KingSide -> Npos (XO XH)
| BothSides -> Npos (XI XH)

(** val cr_of_index : n -> cr res **)

let cr_of_index = function
| N0 -> Ok Neither
| Npos p ->
  (match p with
   | XI p0 -> (match p0 with
               | XH -> Ok BothSides
               | _ -> Err EIndex)
   | XO p0 -> (match p0 with
               | XH -> Ok KingSide
               | _ -> Err EIndex)
   | XH -> Ok QueenSide)

type bb = n

(** val ones64 : n **)

let ones64 =
  Npos (XI (XI (XI (XI (XI (XI (XI (XI (XI (XI (XI (XI (XI (XI (XI (XI (XI
    (XI (XI (XI (XI (XI (XI (XI (XI (XI (XI (XI (XI (XI (XI (XI (XI (XI (XI
    (XI (XI (XI (XI (XI (XI (XI (XI (XI (XI (XI (XI (XI (XI (XI (XI (XI (XI
    (XI (XI (XI (XI (XI (XI (XI (XI (XI (XI
    XH)))))))))))))))))))))))))))))))))))))))))))))))))))))))))))))))

(** val bnot : bb -> bb **)

let bnot x =
  N.coq_lxor x ones64

(** val bit : square -> bb **)

let bit s =
  N.shiftl (Npos XH) s

(** val is_blank : bb -> bool **)

let is_blank x =
  N.eqb x N0

(** val ctz_pos : positive -> n **)

let rec ctz_pos = function
| XO q -> N.succ (ctz_pos q)
| _ -> N0

(** val ctz : bb -> n **)

let ctz = function
| N0 -> Npos (XO (XO (XO (XO (XO (XO XH))))))
| Npos p -> ctz_pos p

(** val to_square : bb -> square res **)

let to_square b0 =
  unwrap (sq_new (ctz b0))

(** val last_bit_square : bb -> square option **)

let last_bit_square = function
| N0 -> None
| Npos p -> Some (ctz_pos p)

(** val first_bit_square : bb -> square option **)

let first_bit_square b0 = match b0 with
| N0 -> None
| Npos _ -> Some (N.log2 b0)

(** val popc_pos : positive -> n **)

let rec popc_pos = function
| XI q -> N.succ (popc_pos q)
| XO q -> popc_pos q
| XH -> Npos XH

(** val popcount : bb -> n **)

let popcount = function
| N0 -> N0
| Npos p -> popc_pos p

(** val iter_fuel : nat -> bb -> square list **)

let rec iter_fuel fuel b0 =
  match fuel with
  | O -> []
  | S f ->
    (match last_bit_square b0 with
     | Some t -> t :: (iter_fuel f (N.coq_lxor b0 (bit t)))
     | None -> [])

(** val bits : bb -> square list **)

let bits b0 =
  iter_fuel (S (S (S (S (S (S (S (S (S (S (S (S (S (S (S (S (S (S (S (S (S (S
    (S (S (S (S (S (S (S (S (S (S (S (S (S (S (S (S (S (S (S (S (S (S (S (S
    (S (S (S (S (S (S (S (S (S (S (S (S (S (S (S (S (S (S
    O)))))))))))))))))))))))))))))))))))))))))))))))))))))))))))))))) b0

(** val bb_from_file : n -> bb **)

let bb_from_file f =
  fold_left (fun acc r -> N.coq_lxor acc (bit (mk_sq r f))) idx8 N0

(** val bb_from_rank : n -> bb **)

let bb_from_rank r =
  fold_left (fun acc f -> N.coq_lxor acc (bit (mk_sq r f))) idx8 N0

type pmove = { pm_type : ptype; pm_from : square; pm_to : square;
               pm_promo : ptype option }

type bmove =
| MovePiece of pmove
| CastleK
| CastleQ

(** val pmove_new : ptype -> square -> square -> ptype option -> pmove res **)

let pmove_new t a b0 pr = match pr with
| Some y ->
  (match y with
   | Pawn -> Err EPromoPiece
   | _ -> Ok { pm_type = t; pm_from = a; pm_to = b0; pm_promo = pr })
| None -> Ok { pm_type = t; pm_from = a; pm_to = b0; pm_promo = pr }

(** val pmove_eqb : pmove -> pmove -> bool **)

let pmove_eqb a b0 =
  (&&)
    ((&&)
      ((&&) (ptype_eqb a.pm_type b0.pm_type) (N.eqb a.pm_from b0.pm_from))
      (N.eqb a.pm_to b0.pm_to)) (optype_eqb a.pm_promo b0.pm_promo)

(** val bmove_eqb : bmove -> bmove -> bool **)

let bmove_eqb a b0 =
  match a with
  | MovePiece x -> (match b0 with
                    | MovePiece y -> pmove_eqb x y
                    | _ -> false)
  | CastleK -> (match b0 with
                | CastleK -> true
                | _ -> false)
  | CastleQ -> (match b0 with
                | CastleQ -> true
                | _ -> false)

(** val mem : square -> square list -> bool **)

let mem s l =
  existsb (N.eqb s) l

(** val set_nth : nat -> 'a1 -> 'a1 list -> 'a1 list **)

let rec set_nth n0 x = function
| [] -> []
| y :: r -> (match n0 with
             | O -> x :: r
             | S k -> y :: (set_nth k x r))

(** val look : bb list -> square -> bb **)

let look t s =
  nth (N.to_nat s) t N0

(** val kNIGHT_T : bb list **)

let kNIGHT_T =
  (Npos (XO (XO (XO (XO (XO (XO (XO (XO (XO (XO (XI (XO (XO (XO (XO (XO (XO
    XH)))))))))))))))))) :: ((Npos (XO (XO (XO (XO (XO (XO (XO (XO (XO (XO
    (XO (XI (XO (XO (XO (XO (XI (XO XH))))))))))))))))))) :: ((Npos (XO (XO
    (XO (XO (XO (XO (XO (XO (XI (XO (XO (XO (XI (XO (XO (XO (XO (XI (XO
    XH)))))))))))))))))))) :: ((Npos (XO (XO (XO (XO (XO (XO (XO (XO (XO (XI
    (XO (XO (XO (XI (XO (XO (XO (XO (XI (XO XH))))))))))))))))))))) :: ((Npos
    (XO (XO (XO (XO (XO (XO (XO (XO (XO (XO (XI (XO (XO (XO (XI (XO (XO (XO
    (XO (XI (XO XH)))))))))))))))))))))) :: ((Npos (XO (XO (XO (XO (XO (XO
    (XO (XO (XO (XO (XO (XI (XO (XO (XO (XI (XO (XO (XO (XO (XI (XO
    XH))))))))))))))))))))))) :: ((Npos (XO (XO (XO (XO (XO (XO (XO (XO (XO
    (XO (XO (XO (XI (XO (XO (XO (XO (XO (XO (XO (XO (XI (XO
    XH)))))))))))))))))))))))) :: ((Npos (XO (XO (XO (XO (XO (XO (XO (XO (XO
    (XO (XO (XO (XO (XI (XO (XO (XO (XO (XO (XO (XO (XO
    XH))))))))))))))))))))))) :: ((Npos (XO (XO (XI (XO (XO (XO (XO (XO (XO
    (XO (XO (XO (XO (XO (XO (XO (XO (XO (XI (XO (XO (XO (XO (XO (XO
    XH)))))))))))))))))))))))))) :: ((Npos (XO (XO (XO (XI (XO (XO (XO (XO
    (XO (XO (XO (XO (XO (XO (XO (XO (XO (XO (XO (XI (XO (XO (XO (XO (XI (XO
    XH))))))))))))))))))))))))))) :: ((Npos (XI (XO (XO (XO (XI (XO (XO (XO
    (XO (XO (XO (XO (XO (XO (XO (XO (XI (XO (XO (XO (XI (XO (XO (XO (XO (XI
    (XO XH)))))))))))))))))))))))))))) :: ((Npos (XO (XI (XO (XO (XO (XI (XO
    (XO (XO (XO (XO (XO (XO (XO (XO (XO (XO (XI (XO (XO (XO (XI (XO (XO (XO
    (XO (XI (XO XH))))))))))))))))))))))))))))) :: ((Npos (XO (XO (XI (XO (XO
    (XO (XI (XO (XO (XO (XO (XO (XO (XO (XO (XO (XO (XO (XI (XO (XO (XO (XI
    (XO (XO (XO (XO (XI (XO XH)))))))))))))))))))))))))))))) :: ((Npos (XO
    (XO (XO (XI (XO (XO (XO (XI (XO (XO (XO (XO (XO (XO (XO (XO (XO (XO (XO
    (XI (XO (XO (XO (XI (XO (XO (XO (XO (XI (XO
    XH))))))))))))))))))))))))))))))) :: ((Npos (XO (XO (XO (XO (XI (XO (XO
    (XO (XO (XO (XO (XO (XO (XO (XO (XO (XO (XO (XO (XO (XI (XO (XO (XO (XO
    (XO (XO (XO (XO (XI (XO XH)))))))))))))))))))))))))))))))) :: ((Npos (XO
    (XO (XO (XO (XO (XI (XO (XO (XO (XO (XO (XO (XO (XO (XO (XO (XO (XO (XO
    (XO (XO (XI (XO (XO (XO (XO (XO (XO (XO (XO
    XH))))))))))))))))))))))))))))))) :: ((Npos (XO (XI (XO (XO (XO (XO (XO
    (XO (XO (XO (XI (XO (XO (XO (XO (XO (XO (XO (XO (XO (XO (XO (XO (XO (XO
    (XO (XI (XO (XO (XO (XO (XO (XO
    XH)))))))))))))))))))))))))))))))))) :: ((Npos (XI (XO (XI (XO (XO (XO
    (XO (XO (XO (XO (XO (XI (XO (XO (XO (XO (XO (XO (XO (XO (XO (XO (XO (XO
    (XO (XO (XO (XI (XO (XO (XO (XO (XI (XO
    XH))))))))))))))))))))))))))))))))))) :: ((Npos (XO (XI (XO (XI (XO (XO
    (XO (XO (XI (XO (XO (XO (XI (XO (XO (XO (XO (XO (XO (XO (XO (XO (XO (XO
    (XI (XO (XO (XO (XI (XO (XO (XO (XO (XI (XO
    XH)))))))))))))))))))))))))))))))))))) :: ((Npos (XO (XO (XI (XO (XI (XO
    (XO (XO (XO (XI (XO (XO (XO (XI (XO (XO (XO (XO (XO (XO (XO (XO (XO (XO
    (XO (XI (XO (XO (XO (XI (XO (XO (XO (XO (XI (XO
    XH))))))))))))))))))))))))))))))))))))) :: ((Npos (XO (XO (XO (XI (XO (XI
    (XO (XO (XO (XO (XI (XO (XO (XO (XI (XO (XO (XO (XO (XO (XO (XO (XO (XO
    (XO (XO (XI (XO (XO (XO (XI (XO (XO (XO (XO (XI (XO
    XH)))))))))))))))))))))))))))))))))))))) :: ((Npos (XO (XO (XO (XO (XI
    (XO (XI (XO (XO (XO (XO (XI (XO (XO (XO (XI (XO (XO (XO (XO (XO (XO (XO
    (XO (XO (XO (XO (XI (XO (XO (XO (XI (XO (XO (XO (XO (XI (XO
    XH))))))))))))))))))))))))))))))))))))))) :: ((Npos (XO (XO (XO (XO (XO
    (XI (XO (XI (XO (XO (XO (XO (XI (XO (XO (XO (XO (XO (XO (XO (XO (XO (XO
    (XO (XO (XO (XO (XO (XI (XO (XO (XO (XO (XO (XO (XO (XO (XI (XO
    XH)))))))))))))))))))))))))))))))))))))))) :: ((Npos (XO (XO (XO (XO (XO
    (XO (XI (XO (XO (XO (XO (XO (XO (XI (XO (XO (XO (XO (XO (XO (XO (XO (XO
    (XO (XO (XO (XO (XO (XO (XI (XO (XO (XO (XO (XO (XO (XO (XO
    XH))))))))))))))))))))))))))))))))))))))) :: ((Npos (XO (XO (XO (XO (XO
    (XO (XO (XO (XO (XI (XO (XO (XO (XO (XO (XO (XO (XO (XI (XO (XO (XO (XO
    (XO (XO (XO (XO (XO (XO (XO (XO (XO (XO (XO (XI (XO (XO (XO (XO (XO (XO
    XH)))))))))))))))))))))))))))))))))))))))))) :: ((Npos (XO (XO (XO (XO
    (XO (XO (XO (XO (XI (XO (XI (XO (XO (XO (XO (XO (XO (XO (XO (XI (XO (XO
    (XO (XO (XO (XO (XO (XO (XO (XO (XO (XO (XO (XO (XO (XI (XO (XO (XO (XO
    (XI (XO XH))))))))))))))))))))))))))))))))))))))))))) :: ((Npos (XO (XO
    (XO (XO (XO (XO (XO (XO (XO (XI (XO (XI (XO (XO (XO (XO (XI (XO (XO (XO
    (XI (XO (XO (XO (XO (XO (XO (XO (XO (XO (XO (XO (XI (XO (XO (XO (XI (XO
    (XO (XO (XO (XI (XO
    XH)))))))))))))))))))))))))))))))))))))))))))) :: ((Npos (XO (XO (XO (XO
    (XO (XO (XO (XO (XO (XO (XI (XO (XI (XO (XO (XO (XO (XI (XO (XO (XO (XI
    (XO (XO (XO (XO (XO (XO (XO (XO (XO (XO (XO (XI (XO (XO (XO (XI (XO (XO
    (XO (XO (XI (XO XH))))))))))))))))))))))))))))))))))))))))))))) :: ((Npos
    (XO (XO (XO (XO (XO (XO (XO (XO (XO (XO (XO (XI (XO (XI (XO (XO (XO (XO
    (XI (XO (XO (XO (XI (XO (XO (XO (XO (XO (XO (XO (XO (XO (XO (XO (XI (XO
    (XO (XO (XI (XO (XO (XO (XO (XI (XO
    XH)))))))))))))))))))))))))))))))))))))))))))))) :: ((Npos (XO (XO (XO
    (XO (XO (XO (XO (XO (XO (XO (XO (XO (XI (XO (XI (XO (XO (XO (XO (XI (XO
    (XO (XO (XI (XO (XO (XO (XO (XO (XO (XO (XO (XO (XO (XO (XI (XO (XO (XO
    (XI (XO (XO (XO (XO (XI (XO
    XH))))))))))))))))))))))))))))))))))))))))))))))) :: ((Npos (XO (XO (XO
    (XO (XO (XO (XO (XO (XO (XO (XO (XO (XO (XI (XO (XI (XO (XO (XO (XO (XI
    (XO (XO (XO (XO (XO (XO (XO (XO (XO (XO (XO (XO (XO (XO (XO (XI (XO (XO
    (XO (XO (XO (XO (XO (XO (XI (XO
    XH)))))))))))))))))))))))))))))))))))))))))))))))) :: ((Npos (XO (XO (XO
    (XO (XO (XO (XO (XO (XO (XO (XO (XO (XO (XO (XI (XO (XO (XO (XO (XO (XO
    (XI (XO (XO (XO (XO (XO (XO (XO (XO (XO (XO (XO (XO (XO (XO (XO (XI (XO
    (XO (XO (XO (XO (XO (XO (XO
    XH))))))))))))))))))))))))))))))))))))))))))))))) :: ((Npos (XO (XO (XO
    (XO (XO (XO (XO (XO (XO (XO (XO (XO (XO (XO (XO (XO (XO (XI (XO (XO (XO
    (XO (XO (XO (XO (XO (XI (XO (XO (XO (XO (XO (XO (XO (XO (XO (XO (XO (XO
    (XO (XO (XO (XI (XO (XO (XO (XO (XO (XO
    XH)))))))))))))))))))))))))))))))))))))))))))))))))) :: ((Npos (XO (XO
    (XO (XO (XO (XO (XO (XO (XO (XO (XO (XO (XO (XO (XO (XO (XI (XO (XI (XO
    (XO (XO (XO (XO (XO (XO (XO (XI (XO (XO (XO (XO (XO (XO (XO (XO (XO (XO
    (XO (XO (XO (XO (XO (XI (XO (XO (XO (XO (XI (XO
    XH))))))))))))))))))))))))))))))))))))))))))))))))))) :: ((Npos (XO (XO
    (XO (XO (XO (XO (XO (XO (XO (XO (XO (XO (XO (XO (XO (XO (XO (XI (XO (XI
    (XO (XO (XO (XO (XI (XO (XO (XO (XI (XO (XO (XO (XO (XO (XO (XO (XO (XO
    (XO (XO (XI (XO (XO (XO (XI (XO (XO (XO (XO (XI (XO
    XH)))))))))))))))))))))))))))))))))))))))))))))))))))) :: ((Npos (XO (XO
    (XO (XO (XO (XO (XO (XO (XO (XO (XO (XO (XO (XO (XO (XO (XO (XO (XI (XO
    (XI (XO (XO (XO (XO (XI (XO (XO (XO (XI (XO (XO (XO (XO (XO (XO (XO (XO
    (XO (XO (XO (XI (XO (XO (XO (XI (XO (XO (XO (XO (XI (XO
    XH))))))))))))))))))))))))))))))))))))))))))))))))))))) :: ((Npos (XO (XO
    (XO (XO (XO (XO (XO (XO (XO (XO (XO (XO (XO (XO (XO (XO (XO (XO (XO (XI
    (XO (XI (XO (XO (XO (XO (XI (XO (XO (XO (XI (XO (XO (XO (XO (XO (XO (XO
    (XO (XO (XO (XO (XI (XO (XO (XO (XI (XO (XO (XO (XO (XI (XO
    XH)))))))))))))))))))))))))))))))))))))))))))))))))))))) :: ((Npos (XO
    (XO (XO (XO (XO (XO (XO (XO (XO (XO (XO (XO (XO (XO (XO (XO (XO (XO (XO
    (XO (XI (XO (XI (XO (XO (XO (XO (XI (XO (XO (XO (XI (XO (XO (XO (XO (XO
    (XO (XO (XO (XO (XO (XO (XI (XO (XO (XO (XI (XO (XO (XO (XO (XI (XO
    XH))))))))))))))))))))))))))))))))))))))))))))))))))))))) :: ((Npos (XO
    (XO (XO (XO (XO (XO (XO (XO (XO (XO (XO (XO (XO (XO (XO (XO (XO (XO (XO
    (XO (XO (XI (XO (XI (XO (XO (XO (XO (XI (XO (XO (XO (XO (XO (XO (XO (XO
    (XO (XO (XO (XO (XO (XO (XO (XI (XO (XO (XO (XO (XO (XO (XO (XO (XI (XO
    XH)))))))))))))))))))))))))))))))))))))))))))))))))))))))) :: ((Npos (XO
    (XO (XO (XO (XO (XO (XO (XO (XO (XO (XO (XO (XO (XO (XO (XO (XO (XO (XO
    (XO (XO (XO (XI (XO (XO (XO (XO (XO (XO (XI (XO (XO (XO (XO (XO (XO (XO
    (XO (XO (XO (XO (XO (XO (XO (XO (XI (XO (XO (XO (XO (XO (XO (XO (XO
    XH))))))))))))))))))))))))))))))))))))))))))))))))))))))) :: ((Npos (XO
    (XO (XO (XO (XO (XO (XO (XO (XO (XO (XO (XO (XO (XO (XO (XO (XO (XO (XO
    (XO (XO (XO (XO (XO (XO (XI (XO (XO (XO (XO (XO (XO (XO (XO (XI (XO (XO
    (XO (XO (XO (XO (XO (XO (XO (XO (XO (XO (XO (XO (XO (XI (XO (XO (XO (XO
    (XO (XO
    XH)))))))))))))))))))))))))))))))))))))))))))))))))))))))))) :: ((Npos
    (XO (XO (XO (XO (XO (XO (XO (XO (XO (XO (XO (XO (XO (XO (XO (XO (XO (XO
    (XO (XO (XO (XO (XO (XO (XI (XO (XI (XO (XO (XO (XO (XO (XO (XO (XO (XI
    (XO (XO (XO (XO (XO (XO (XO (XO (XO (XO (XO (XO (XO (XO (XO (XI (XO (XO
    (XO (XO (XI (XO
    XH))))))))))))))))))))))))))))))))))))))))))))))))))))))))))) :: ((Npos
    (XO (XO (XO (XO (XO (XO (XO (XO (XO (XO (XO (XO (XO (XO (XO (XO (XO (XO
    (XO (XO (XO (XO (XO (XO (XO (XI (XO (XI (XO (XO (XO (XO (XI (XO (XO (XO
    (XI (XO (XO (XO (XO (XO (XO (XO (XO (XO (XO (XO (XI (XO (XO (XO (XI (XO
    (XO (XO (XO (XI (XO
    XH)))))))))))))))))))))))))))))))))))))))))))))))))))))))))))) :: ((Npos
    (XO (XO (XO (XO (XO (XO (XO (XO (XO (XO (XO (XO (XO (XO (XO (XO (XO (XO
    (XO (XO (XO (XO (XO (XO (XO (XO (XI (XO (XI (XO (XO (XO (XO (XI (XO (XO
    (XO (XI (XO (XO (XO (XO (XO (XO (XO (XO (XO (XO (XO (XI (XO (XO (XO (XI
    (XO (XO (XO (XO (XI (XO
    XH))))))))))))))))))))))))))))))))))))))))))))))))))))))))))))) :: ((Npos
    (XO (XO (XO (XO (XO (XO (XO (XO (XO (XO (XO (XO (XO (XO (XO (XO (XO (XO
    (XO (XO (XO (XO (XO (XO (XO (XO (XO (XI (XO (XI (XO (XO (XO (XO (XI (XO
    (XO (XO (XI (XO (XO (XO (XO (XO (XO (XO (XO (XO (XO (XO (XI (XO (XO (XO
    (XI (XO (XO (XO (XO (XI (XO
    XH)))))))))))))))))))))))))))))))))))))))))))))))))))))))))))))) :: ((Npos
    (XO (XO (XO (XO (XO (XO (XO (XO (XO (XO (XO (XO (XO (XO (XO (XO (XO (XO
    (XO (XO (XO (XO (XO (XO (XO (XO (XO (XO (XI (XO (XI (XO (XO (XO (XO (XI
    (XO (XO (XO (XI (XO (XO (XO (XO (XO (XO (XO (XO (XO (XO (XO (XI (XO (XO
    (XO (XI (XO (XO (XO (XO (XI (XO
    XH))))))))))))))))))))))))))))))))))))))))))))))))))))))))))))))) :: ((Npos
    (XO (XO (XO (XO (XO (XO (XO (XO (XO (XO (XO (XO (XO (XO (XO (XO (XO (XO
    (XO (XO (XO (XO (XO (XO (XO (XO (XO (XO (XO (XI (XO (XI (XO (XO (XO (XO
    (XI (XO (XO (XO (XO (XO (XO (XO (XO (XO (XO (XO (XO (XO (XO (XO (XI (XO
    (XO (XO (XO (XO (XO (XO (XO (XI (XO
    XH)))))))))))))))))))))))))))))))))))))))))))))))))))))))))))))))) :: ((Npos
    (XO (XO (XO (XO (XO (XO (XO (XO (XO (XO (XO (XO (XO (XO (XO (XO (XO (XO
    (XO (XO (XO (XO (XO (XO (XO (XO (XO (XO (XO (XO (XI (XO (XO (XO (XO (XO
    (XO (XI (XO (XO (XO (XO (XO (XO (XO (XO (XO (XO (XO (XO (XO (XO (XO (XI
    (XO (XO (XO (XO (XO (XO (XO (XO
    XH))))))))))))))))))))))))))))))))))))))))))))))))))))))))))))))) :: ((Npos
    (XO (XO (XO (XO (XO (XO (XO (XO (XO (XO (XO (XO (XO (XO (XO (XO (XO (XO
    (XO (XO (XO (XO (XO (XO (XO (XO (XO (XO (XO (XO (XO (XO (XO (XI (XO (XO
    (XO (XO (XO (XO (XO (XO (XI (XO (XO (XO (XO (XO (XO (XO (XO (XO (XO (XO
    (XO (XO (XO (XO
    XH))))))))))))))))))))))))))))))))))))))))))))))))))))))))))) :: ((Npos
    (XO (XO (XO (XO (XO (XO (XO (XO (XO (XO (XO (XO (XO (XO (XO (XO (XO (XO
    (XO (XO (XO (XO (XO (XO (XO (XO (XO (XO (XO (XO (XO (XO (XI (XO (XI (XO
    (XO (XO (XO (XO (XO (XO (XO (XI (XO (XO (XO (XO (XO (XO (XO (XO (XO (XO
    (XO (XO (XO (XO (XO
    XH)))))))))))))))))))))))))))))))))))))))))))))))))))))))))))) :: ((Npos
    (XO (XO (XO (XO (XO (XO (XO (XO (XO (XO (XO (XO (XO (XO (XO (XO (XO (XO
    (XO (XO (XO (XO (XO (XO (XO (XO (XO (XO (XO (XO (XO (XO (XO (XI (XO (XI
    (XO (XO (XO (XO (XI (XO (XO (XO (XI (XO (XO (XO (XO (XO (XO (XO (XO (XO
    (XO (XO (XI (XO (XO (XO
    XH))))))))))))))))))))))))))))))))))))))))))))))))))))))))))))) :: ((Npos
    (XO (XO (XO (XO (XO (XO (XO (XO (XO (XO (XO (XO (XO (XO (XO (XO (XO (XO
    (XO (XO (XO (XO (XO (XO (XO (XO (XO (XO (XO (XO (XO (XO (XO (XO (XI (XO
    (XI (XO (XO (XO (XO (XI (XO (XO (XO (XI (XO (XO (XO (XO (XO (XO (XO (XO
    (XO (XO (XO (XI (XO (XO (XO
    XH)))))))))))))))))))))))))))))))))))))))))))))))))))))))))))))) :: ((Npos
    (XO (XO (XO (XO (XO (XO (XO (XO (XO (XO (XO (XO (XO (XO (XO (XO (XO (XO
    (XO (XO (XO (XO (XO (XO (XO (XO (XO (XO (XO (XO (XO (XO (XO (XO (XO (XI
    (XO (XI (XO (XO (XO (XO (XI (XO (XO (XO (XI (XO (XO (XO (XO (XO (XO (XO
    (XO (XO (XO (XO (XI (XO (XO (XO
    XH))))))))))))))))))))))))))))))))))))))))))))))))))))))))))))))) :: ((Npos
    (XO (XO (XO (XO (XO (XO (XO (XO (XO (XO (XO (XO (XO (XO (XO (XO (XO (XO
    (XO (XO (XO (XO (XO (XO (XO (XO (XO (XO (XO (XO (XO (XO (XO (XO (XO (XO
    (XI (XO (XI (XO (XO (XO (XO (XI (XO (XO (XO (XI (XO (XO (XO (XO (XO (XO
    (XO (XO (XO (XO (XO (XI (XO (XO (XO
    XH)))))))))))))))))))))))))))))))))))))))))))))))))))))))))))))))) :: ((Npos
    (XO (XO (XO (XO (XO (XO (XO (XO (XO (XO (XO (XO (XO (XO (XO (XO (XO (XO
    (XO (XO (XO (XO (XO (XO (XO (XO (XO (XO (XO (XO (XO (XO (XO (XO (XO (XO
    (XO (XI (XO (XI (XO (XO (XO (XO (XI (XO (XO (XO (XO (XO (XO (XO (XO (XO
    (XO (XO (XO (XO (XO (XO
    XH))))))))))))))))))))))))))))))))))))))))))))))))))))))))))))) :: ((Npos
    (XO (XO (XO (XO (XO (XO (XO (XO (XO (XO (XO (XO (XO (XO (XO (XO (XO (XO
    (XO (XO (XO (XO (XO (XO (XO (XO (XO (XO (XO (XO (XO (XO (XO (XO (XO (XO
    (XO (XO (XI (XO (XO (XO (XO (XO (XO (XI (XO (XO (XO (XO (XO (XO (XO (XO
    (XO (XO (XO (XO (XO (XO (XO
    XH)))))))))))))))))))))))))))))))))))))))))))))))))))))))))))))) :: ((Npos
    (XO (XO (XO (XO (XO (XO (XO (XO (XO (XO (XO (XO (XO (XO (XO (XO (XO (XO
    (XO (XO (XO (XO (XO (XO (XO (XO (XO (XO (XO (XO (XO (XO (XO (XO (XO (XO
    (XO (XO (XO (XO (XO (XI (XO (XO (XO (XO (XO (XO (XO (XO
    XH))))))))))))))))))))))))))))))))))))))))))))))))))) :: ((Npos (XO (XO
    (XO (XO (XO (XO (XO (XO (XO (XO (XO (XO (XO (XO (XO (XO (XO (XO (XO (XO
    (XO (XO (XO (XO (XO (XO (XO (XO (XO (XO (XO (XO (XO (XO (XO (XO (XO (XO
    (XO (XO (XI (XO (XI (XO (XO (XO (XO (XO (XO (XO (XO
    XH)))))))))))))))))))))))))))))))))))))))))))))))))))) :: ((Npos (XO (XO
    (XO (XO (XO (XO (XO (XO (XO (XO (XO (XO (XO (XO (XO (XO (XO (XO (XO (XO
    (XO (XO (XO (XO (XO (XO (XO (XO (XO (XO (XO (XO (XO (XO (XO (XO (XO (XO
    (XO (XO (XO (XI (XO (XI (XO (XO (XO (XO (XI (XO (XO (XO
    XH))))))))))))))))))))))))))))))))))))))))))))))))))))) :: ((Npos (XO (XO
    (XO (XO (XO (XO (XO (XO (XO (XO (XO (XO (XO (XO (XO (XO (XO (XO (XO (XO
    (XO (XO (XO (XO (XO (XO (XO (XO (XO (XO (XO (XO (XO (XO (XO (XO (XO (XO
    (XO (XO (XO (XO (XI (XO (XI (XO (XO (XO (XO (XI (XO (XO (XO
    XH)))))))))))))))))))))))))))))))))))))))))))))))))))))) :: ((Npos (XO
    (XO (XO (XO (XO (XO (XO (XO (XO (XO (XO (XO (XO (XO (XO (XO (XO (XO (XO
    (XO (XO (XO (XO (XO (XO (XO (XO (XO (XO (XO (XO (XO (XO (XO (XO (XO (XO
    (XO (XO (XO (XO (XO (XO (XI (XO (XI (XO (XO (XO (XO (XI (XO (XO (XO
    XH))))))))))))))))))))))))))))))))))))))))))))))))))))))) :: ((Npos (XO
    (XO (XO (XO (XO (XO (XO (XO (XO (XO (XO (XO (XO (XO (XO (XO (XO (XO (XO
    (XO (XO (XO (XO (XO (XO (XO (XO (XO (XO (XO (XO (XO (XO (XO (XO (XO (XO
    (XO (XO (XO (XO (XO (XO (XO (XI (XO (XI (XO (XO (XO (XO (XI (XO (XO (XO
    XH)))))))))))))))))))))))))))))))))))))))))))))))))))))))) :: ((Npos (XO
    (XO (XO (XO (XO (XO (XO (XO (XO (XO (XO (XO (XO (XO (XO (XO (XO (XO (XO
    (XO (XO (XO (XO (XO (XO (XO (XO (XO (XO (XO (XO (XO (XO (XO (XO (XO (XO
    (XO (XO (XO (XO (XO (XO (XO (XO (XI (XO (XI (XO (XO (XO (XO
    XH))))))))))))))))))))))))))))))))))))))))))))))))))))) :: ((Npos (XO (XO
    (XO (XO (XO (XO (XO (XO (XO (XO (XO (XO (XO (XO (XO (XO (XO (XO (XO (XO
    (XO (XO (XO (XO (XO (XO (XO (XO (XO (XO (XO (XO (XO (XO (XO (XO (XO (XO
    (XO (XO (XO (XO (XO (XO (XO (XO (XI (XO (XO (XO (XO (XO (XO
    XH)))))))))))))))))))))))))))))))))))))))))))))))))))))) :: [])))))))))))))))))))))))))))))))))))))))))))))))))))))))))))))))

(** val kING_T : bb list **)

let kING_T =
  (Npos (XO (XI (XO (XO (XO (XO (XO (XO (XI XH)))))))))) :: ((Npos (XI (XO
    (XI (XO (XO (XO (XO (XO (XI (XI XH))))))))))) :: ((Npos (XO (XI (XO (XI
    (XO (XO (XO (XO (XO (XI (XI XH)))))))))))) :: ((Npos (XO (XO (XI (XO (XI
    (XO (XO (XO (XO (XO (XI (XI XH))))))))))))) :: ((Npos (XO (XO (XO (XI (XO
    (XI (XO (XO (XO (XO (XO (XI (XI XH)))))))))))))) :: ((Npos (XO (XO (XO
    (XO (XI (XO (XI (XO (XO (XO (XO (XO (XI (XI XH))))))))))))))) :: ((Npos
    (XO (XO (XO (XO (XO (XI (XO (XI (XO (XO (XO (XO (XO (XI (XI
    XH)))))))))))))))) :: ((Npos (XO (XO (XO (XO (XO (XO (XI (XO (XO (XO (XO
    (XO (XO (XO (XI XH)))))))))))))))) :: ((Npos (XI (XI (XO (XO (XO (XO (XO
    (XO (XO (XI (XO (XO (XO (XO (XO (XO (XI XH)))))))))))))))))) :: ((Npos
    (XI (XI (XI (XO (XO (XO (XO (XO (XI (XO (XI (XO (XO (XO (XO (XO (XI (XI
    XH))))))))))))))))))) :: ((Npos (XO (XI (XI (XI (XO (XO (XO (XO (XO (XI
    (XO (XI (XO (XO (XO (XO (XO (XI (XI XH)))))))))))))))))))) :: ((Npos (XO
    (XO (XI (XI (XI (XO (XO (XO (XO (XO (XI (XO (XI (XO (XO (XO (XO (XO (XI
    (XI XH))))))))))))))))))))) :: ((Npos (XO (XO (XO (XI (XI (XI (XO (XO (XO
    (XO (XO (XI (XO (XI (XO (XO (XO (XO (XO (XI (XI
    XH)))))))))))))))))))))) :: ((Npos (XO (XO (XO (XO (XI (XI (XI (XO (XO
    (XO (XO (XO (XI (XO (XI (XO (XO (XO (XO (XO (XI (XI
    XH))))))))))))))))))))))) :: ((Npos (XO (XO (XO (XO (XO (XI (XI (XI (XO
    (XO (XO (XO (XO (XI (XO (XI (XO (XO (XO (XO (XO (XI (XI
    XH)))))))))))))))))))))))) :: ((Npos (XO (XO (XO (XO (XO (XO (XI (XI (XO
    (XO (XO (XO (XO (XO (XI (XO (XO (XO (XO (XO (XO (XO (XI
    XH)))))))))))))))))))))))) :: ((Npos (XO (XO (XO (XO (XO (XO (XO (XO (XI
    (XI (XO (XO (XO (XO (XO (XO (XO (XI (XO (XO (XO (XO (XO (XO (XI
    XH)))))))))))))))))))))))))) :: ((Npos (XO (XO (XO (XO (XO (XO (XO (XO
    (XI (XI (XI (XO (XO (XO (XO (XO (XI (XO (XI (XO (XO (XO (XO (XO (XI (XI
    XH))))))))))))))))))))))))))) :: ((Npos (XO (XO (XO (XO (XO (XO (XO (XO
    (XO (XI (XI (XI (XO (XO (XO (XO (XO (XI (XO (XI (XO (XO (XO (XO (XO (XI
    (XI XH)))))))))))))))))))))))))))) :: ((Npos (XO (XO (XO (XO (XO (XO (XO
    (XO (XO (XO (XI (XI (XI (XO (XO (XO (XO (XO (XI (XO (XI (XO (XO (XO (XO
    (XO (XI (XI XH))))))))))))))))))))))))))))) :: ((Npos (XO (XO (XO (XO (XO
    (XO (XO (XO (XO (XO (XO (XI (XI (XI (XO (XO (XO (XO (XO (XI (XO (XI (XO
    (XO (XO (XO (XO (XI (XI XH)))))))))))))))))))))))))))))) :: ((Npos (XO
    (XO (XO (XO (XO (XO (XO (XO (XO (XO (XO (XO (XI (XI (XI (XO (XO (XO (XO
    (XO (XI (XO (XI (XO (XO (XO (XO (XO (XI (XI
    XH))))))))))))))))))))))))))))))) :: ((Npos (XO (XO (XO (XO (XO (XO (XO
    (XO (XO (XO (XO (XO (XO (XI (XI (XI (XO (XO (XO (XO (XO (XI (XO (XI (XO
    (XO (XO (XO (XO (XI (XI XH)))))))))))))))))))))))))))))))) :: ((Npos (XO
    (XO (XO (XO (XO (XO (XO (XO (XO (XO (XO (XO (XO (XO (XI (XI (XO (XO (XO
    (XO (XO (XO (XI (XO (XO (XO (XO (XO (XO (XO (XI
    XH)))))))))))))))))))))))))))))))) :: ((Npos (XO (XO (XO (XO (XO (XO (XO
    (XO (XO (XO (XO (XO (XO (XO (XO (XO (XI (XI (XO (XO (XO (XO (XO (XO (XO
    (XI (XO (XO (XO (XO (XO (XO (XI
    XH)))))))))))))))))))))))))))))))))) :: ((Npos (XO (XO (XO (XO (XO (XO
    (XO (XO (XO (XO (XO (XO (XO (XO (XO (XO (XI (XI (XI (XO (XO (XO (XO (XO
    (XI (XO (XI (XO (XO (XO (XO (XO (XI (XI
    XH))))))))))))))))))))))))))))))))))) :: ((Npos (XO (XO (XO (XO (XO (XO
    (XO (XO (XO (XO (XO (XO (XO (XO (XO (XO (XO (XI (XI (XI (XO (XO (XO (XO
    (XO (XI (XO (XI (XO (XO (XO (XO (XO (XI (XI
    XH)))))))))))))))))))))))))))))))))))) :: ((Npos (XO (XO (XO (XO (XO (XO
    (XO (XO (XO (XO (XO (XO (XO (XO (XO (XO (XO (XO (XI (XI (XI (XO (XO (XO
    (XO (XO (XI (XO (XI (XO (XO (XO (XO (XO (XI (XI
    XH))))))))))))))))))))))))))))))))))))) :: ((Npos (XO (XO (XO (XO (XO (XO
    (XO (XO (XO (XO (XO (XO (XO (XO (XO (XO (XO (XO (XO (XI (XI (XI (XO (XO
    (XO (XO (XO (XI (XO (XI (XO (XO (XO (XO (XO (XI (XI
    XH)))))))))))))))))))))))))))))))))))))) :: ((Npos (XO (XO (XO (XO (XO
    (XO (XO (XO (XO (XO (XO (XO (XO (XO (XO (XO (XO (XO (XO (XO (XI (XI (XI
    (XO (XO (XO (XO (XO (XI (XO (XI (XO (XO (XO (XO (XO (XI (XI
    XH))))))))))))))))))))))))))))))))))))))) :: ((Npos (XO (XO (XO (XO (XO
    (XO (XO (XO (XO (XO (XO (XO (XO (XO (XO (XO (XO (XO (XO (XO (XO (XI (XI
    (XI (XO (XO (XO (XO (XO (XI (XO (XI (XO (XO (XO (XO (XO (XI (XI
    XH)))))))))))))))))))))))))))))))))))))))) :: ((Npos (XO (XO (XO (XO (XO
    (XO (XO (XO (XO (XO (XO (XO (XO (XO (XO (XO (XO (XO (XO (XO (XO (XO (XI
    (XI (XO (XO (XO (XO (XO (XO (XI (XO (XO (XO (XO (XO (XO (XO (XI
    XH)))))))))))))))))))))))))))))))))))))))) :: ((Npos (XO (XO (XO (XO (XO
    (XO (XO (XO (XO (XO (XO (XO (XO (XO (XO (XO (XO (XO (XO (XO (XO (XO (XO
    (XO (XI (XI (XO (XO (XO (XO (XO (XO (XO (XI (XO (XO (XO (XO (XO (XO (XI
    XH)))))))))))))))))))))))))))))))))))))))))) :: ((Npos (XO (XO (XO (XO
    (XO (XO (XO (XO (XO (XO (XO (XO (XO (XO (XO (XO (XO (XO (XO (XO (XO (XO
    (XO (XO (XI (XI (XI (XO (XO (XO (XO (XO (XI (XO (XI (XO (XO (XO (XO (XO
    (XI (XI XH))))))))))))))))))))))))))))))))))))))))))) :: ((Npos (XO (XO
    (XO (XO (XO (XO (XO (XO (XO (XO (XO (XO (XO (XO (XO (XO (XO (XO (XO (XO
    (XO (XO (XO (XO (XO (XI (XI (XI (XO (XO (XO (XO (XO (XI (XO (XI (XO (XO
    (XO (XO (XO (XI (XI
    XH)))))))))))))))))))))))))))))))))))))))))))) :: ((Npos (XO (XO (XO (XO
    (XO (XO (XO (XO (XO (XO (XO (XO (XO (XO (XO (XO (XO (XO (XO (XO (XO (XO
    (XO (XO (XO (XO (XI (XI (XI (XO (XO (XO (XO (XO (XI (XO (XI (XO (XO (XO
    (XO (XO (XI (XI XH))))))))))))))))))))))))))))))))))))))))))))) :: ((Npos
    (XO (XO (XO (XO (XO (XO (XO (XO (XO (XO (XO (XO (XO (XO (XO (XO (XO (XO
    (XO (XO (XO (XO (XO (XO (XO (XO (XO (XI (XI (XI (XO (XO (XO (XO (XO (XI
    (XO (XI (XO (XO (XO (XO (XO (XI (XI
    XH)))))))))))))))))))))))))))))))))))))))))))))) :: ((Npos (XO (XO (XO
    (XO (XO (XO (XO (XO (XO (XO (XO (XO (XO (XO (XO (XO (XO (XO (XO (XO (XO
    (XO (XO (XO (XO (XO (XO (XO (XI (XI (XI (XO (XO (XO (XO (XO (XI (XO (XI
    (XO (XO (XO (XO (XO (XI (XI
    XH))))))))))))))))))))))))))))))))))))))))))))))) :: ((Npos (XO (XO (XO
    (XO (XO (XO (XO (XO (XO (XO (XO (XO (XO (XO (XO (XO (XO (XO (XO (XO (XO
    (XO (XO (XO (XO (XO (XO (XO (XO (XI (XI (XI (XO (XO (XO (XO (XO (XI (XO
    (XI (XO (XO (XO (XO (XO (XI (XI
    XH)))))))))))))))))))))))))))))))))))))))))))))))) :: ((Npos (XO (XO (XO
    (XO (XO (XO (XO (XO (XO (XO (XO (XO (XO (XO (XO (XO (XO (XO (XO (XO (XO
    (XO (XO (XO (XO (XO (XO (XO (XO (XO (XI (XI (XO (XO (XO (XO (XO (XO (XI
    (XO (XO (XO (XO (XO (XO (XO (XI
    XH)))))))))))))))))))))))))))))))))))))))))))))))) :: ((Npos (XO (XO (XO
    (XO (XO (XO (XO (XO (XO (XO (XO (XO (XO (XO (XO (XO (XO (XO (XO (XO (XO
    (XO (XO (XO (XO (XO (XO (XO (XO (XO (XO (XO (XI (XI (XO (XO (XO (XO (XO
    (XO (XO (XI (XO (XO (XO (XO (XO (XO (XI
    XH)))))))))))))))))))))))))))))))))))))))))))))))))) :: ((Npos (XO (XO
    (XO (XO (XO (XO (XO (XO (XO (XO (XO (XO (XO (XO (XO (XO (XO (XO (XO (XO
    (XO (XO (XO (XO (XO (XO (XO (XO (XO (XO (XO (XO (XI (XI (XI (XO (XO (XO
    (XO (XO (XI (XO (XI (XO (XO (XO (XO (XO (XI (XI
    XH))))))))))))))))))))))))))))))))))))))))))))))))))) :: ((Npos (XO (XO
    (XO (XO (XO (XO (XO (XO (XO (XO (XO (XO (XO (XO (XO (XO (XO (XO (XO (XO
    (XO (XO (XO (XO (XO (XO (XO (XO (XO (XO (XO (XO (XO (XI (XI (XI (XO (XO
    (XO (XO (XO (XI (XO (XI (XO (XO (XO (XO (XO (XI (XI
    XH)))))))))))))))))))))))))))))))))))))))))))))))))))) :: ((Npos (XO (XO
    (XO (XO (XO (XO (XO (XO (XO (XO (XO (XO (XO (XO (XO (XO (XO (XO (XO (XO
    (XO (XO (XO (XO (XO (XO (XO (XO (XO (XO (XO (XO (XO (XO (XI (XI (XI (XO
    (XO (XO (XO (XO (XI (XO (XI (XO (XO (XO (XO (XO (XI (XI
    XH))))))))))))))))))))))))))))))))))))))))))))))))))))) :: ((Npos (XO (XO
    (XO (XO (XO (XO (XO (XO (XO (XO (XO (XO (XO (XO (XO (XO (XO (XO (XO (XO
    (XO (XO (XO (XO (XO (XO (XO (XO (XO (XO (XO (XO (XO (XO (XO (XI (XI (XI
    (XO (XO (XO (XO (XO (XI (XO (XI (XO (XO (XO (XO (XO (XI (XI
    XH)))))))))))))))))))))))))))))))))))))))))))))))))))))) :: ((Npos (XO
    (XO (XO (XO (XO (XO (XO (XO (XO (XO (XO (XO (XO (XO (XO (XO (XO (XO (XO
    (XO (XO (XO (XO (XO (XO (XO (XO (XO (XO (XO (XO (XO (XO (XO (XO (XO (XI
    (XI (XI (XO (XO (XO (XO (XO (XI (XO (XI (XO (XO (XO (XO (XO (XI (XI
    XH))))))))))))))))))))))))))))))))))))))))))))))))))))))) :: ((Npos (XO
    (XO (XO (XO (XO (XO (XO (XO (XO (XO (XO (XO (XO (XO (XO (XO (XO (XO (XO
    (XO (XO (XO (XO (XO (XO (XO (XO (XO (XO (XO (XO (XO (XO (XO (XO (XO (XO
    (XI (XI (XI (XO (XO (XO (XO (XO (XI (XO (XI (XO (XO (XO (XO (XO (XI (XI
    XH)))))))))))))))))))))))))))))))))))))))))))))))))))))))) :: ((Npos (XO
    (XO (XO (XO (XO (XO (XO (XO (XO (XO (XO (XO (XO (XO (XO (XO (XO (XO (XO
    (XO (XO (XO (XO (XO (XO (XO (XO (XO (XO (XO (XO (XO (XO (XO (XO (XO (XO
    (XO (XI (XI (XO (XO (XO (XO (XO (XO (XI (XO (XO (XO (XO (XO (XO (XO (XI
    XH)))))))))))))))))))))))))))))))))))))))))))))))))))))))) :: ((Npos (XO
    (XO (XO (XO (XO (XO (XO (XO (XO (XO (XO (XO (XO (XO (XO (XO (XO (XO (XO
    (XO (XO (XO (XO (XO (XO (XO (XO (XO (XO (XO (XO (XO (XO (XO (XO (XO (XO
    (XO (XO (XO (XI (XI (XO (XO (XO (XO (XO (XO (XO (XI (XO (XO (XO (XO (XO
    (XO (XI
    XH)))))))))))))))))))))))))))))))))))))))))))))))))))))))))) :: ((Npos
    (XO (XO (XO (XO (XO (XO (XO (XO (XO (XO (XO (XO (XO (XO (XO (XO (XO (XO
    (XO (XO (XO (XO (XO (XO (XO (XO (XO (XO (XO (XO (XO (XO (XO (XO (XO (XO
    (XO (XO (XO (XO (XI (XI (XI (XO (XO (XO (XO (XO (XI (XO (XI (XO (XO (XO
    (XO (XO (XI (XI
    XH))))))))))))))))))))))))))))))))))))))))))))))))))))))))))) :: ((Npos
    (XO (XO (XO (XO (XO (XO (XO (XO (XO (XO (XO (XO (XO (XO (XO (XO (XO (XO
    (XO (XO (XO (XO (XO (XO (XO (XO (XO (XO (XO (XO (XO (XO (XO (XO (XO (XO
    (XO (XO (XO (XO (XO (XI (XI (XI (XO (XO (XO (XO (XO (XI (XO (XI (XO (XO
    (XO (XO (XO (XI (XI
    XH)))))))))))))))))))))))))))))))))))))))))))))))))))))))))))) :: ((Npos
    (XO (XO (XO (XO (XO (XO (XO (XO (XO (XO (XO (XO (XO (XO (XO (XO (XO (XO
    (XO (XO (XO (XO (XO (XO (XO (XO (XO (XO (XO (XO (XO (XO (XO (XO (XO (XO
    (XO (XO (XO (XO (XO (XO (XI (XI (XI (XO (XO (XO (XO (XO (XI (XO (XI (XO
    (XO (XO (XO (XO (XI (XI
    XH))))))))))))))))))))))))))))))))))))))))))))))))))))))))))))) :: ((Npos
    (XO (XO (XO (XO (XO (XO (XO (XO (XO (XO (XO (XO (XO (XO (XO (XO (XO (XO
    (XO (XO (XO (XO (XO (XO (XO (XO (XO (XO (XO (XO (XO (XO (XO (XO (XO (XO
    (XO (XO (XO (XO (XO (XO (XO (XI (XI (XI (XO (XO (XO (XO (XO (XI (XO (XI
    (XO (XO (XO (XO (XO (XI (XI
    XH)))))))))))))))))))))))))))))))))))))))))))))))))))))))))))))) :: ((Npos
    (XO (XO (XO (XO (XO (XO (XO (XO (XO (XO (XO (XO (XO (XO (XO (XO (XO (XO
    (XO (XO (XO (XO (XO (XO (XO (XO (XO (XO (XO (XO (XO (XO (XO (XO (XO (XO
    (XO (XO (XO (XO (XO (XO (XO (XO (XI (XI (XI (XO (XO (XO (XO (XO (XI (XO
    (XI (XO (XO (XO (XO (XO (XI (XI
    XH))))))))))))))))))))))))))))))))))))))))))))))))))))))))))))))) :: ((Npos
    (XO (XO (XO (XO (XO (XO (XO (XO (XO (XO (XO (XO (XO (XO (XO (XO (XO (XO
    (XO (XO (XO (XO (XO (XO (XO (XO (XO (XO (XO (XO (XO (XO (XO (XO (XO (XO
    (XO (XO (XO (XO (XO (XO (XO (XO (XO (XI (XI (XI (XO (XO (XO (XO (XO (XI
    (XO (XI (XO (XO (XO (XO (XO (XI (XI
    XH)))))))))))))))))))))))))))))))))))))))))))))))))))))))))))))))) :: ((Npos
    (XO (XO (XO (XO (XO (XO (XO (XO (XO (XO (XO (XO (XO (XO (XO (XO (XO (XO
    (XO (XO (XO (XO (XO (XO (XO (XO (XO (XO (XO (XO (XO (XO (XO (XO (XO (XO
    (XO (XO (XO (XO (XO (XO (XO (XO (XO (XO (XI (XI (XO (XO (XO (XO (XO (XO
    (XI (XO (XO (XO (XO (XO (XO (XO (XI
    XH)))))))))))))))))))))))))))))))))))))))))))))))))))))))))))))))) :: ((Npos
    (XO (XO (XO (XO (XO (XO (XO (XO (XO (XO (XO (XO (XO (XO (XO (XO (XO (XO
    (XO (XO (XO (XO (XO (XO (XO (XO (XO (XO (XO (XO (XO (XO (XO (XO (XO (XO
    (XO (XO (XO (XO (XO (XO (XO (XO (XO (XO (XO (XO (XI (XI (XO (XO (XO (XO
    (XO (XO (XO
    XH)))))))))))))))))))))))))))))))))))))))))))))))))))))))))) :: ((Npos
    (XO (XO (XO (XO (XO (XO (XO (XO (XO (XO (XO (XO (XO (XO (XO (XO (XO (XO
    (XO (XO (XO (XO (XO (XO (XO (XO (XO (XO (XO (XO (XO (XO (XO (XO (XO (XO
    (XO (XO (XO (XO (XO (XO (XO (XO (XO (XO (XO (XO (XI (XI (XI (XO (XO (XO
    (XO (XO (XI (XO
    XH))))))))))))))))))))))))))))))))))))))))))))))))))))))))))) :: ((Npos
    (XO (XO (XO (XO (XO (XO (XO (XO (XO (XO (XO (XO (XO (XO (XO (XO (XO (XO
    (XO (XO (XO (XO (XO (XO (XO (XO (XO (XO (XO (XO (XO (XO (XO (XO (XO (XO
    (XO (XO (XO (XO (XO (XO (XO (XO (XO (XO (XO (XO (XO (XI (XI (XI (XO (XO
    (XO (XO (XO (XI (XO
    XH)))))))))))))))))))))))))))))))))))))))))))))))))))))))))))) :: ((Npos
    (XO (XO (XO (XO (XO (XO (XO (XO (XO (XO (XO (XO (XO (XO (XO (XO (XO (XO
    (XO (XO (XO (XO (XO (XO (XO (XO (XO (XO (XO (XO (XO (XO (XO (XO (XO (XO
    (XO (XO (XO (XO (XO (XO (XO (XO (XO (XO (XO (XO (XO (XO (XI (XI (XI (XO
    (XO (XO (XO (XO (XI (XO
    XH))))))))))))))))))))))))))))))))))))))))))))))))))))))))))))) :: ((Npos
    (XO (XO (XO (XO (XO (XO (XO (XO (XO (XO (XO (XO (XO (XO (XO (XO (XO (XO
    (XO (XO (XO (XO (XO (XO (XO (XO (XO (XO (XO (XO (XO (XO (XO (XO (XO (XO
    (XO (XO (XO (XO (XO (XO (XO (XO (XO (XO (XO (XO (XO (XO (XO (XI (XI (XI
    (XO (XO (XO (XO (XO (XI (XO
    XH)))))))))))))))))))))))))))))))))))))))))))))))))))))))))))))) :: ((Npos
    (XO (XO (XO (XO (XO (XO (XO (XO (XO (XO (XO (XO (XO (XO (XO (XO (XO (XO
    (XO (XO (XO (XO (XO (XO (XO (XO (XO (XO (XO (XO (XO (XO (XO (XO (XO (XO
    (XO (XO (XO (XO (XO (XO (XO (XO (XO (XO (XO (XO (XO (XO (XO (XO (XI (XI
    (XI (XO (XO (XO (XO (XO (XI (XO
    XH))))))))))))))))))))))))))))))))))))))))))))))))))))))))))))))) :: ((Npos
    (XO (XO (XO (XO (XO (XO (XO (XO (XO (XO (XO (XO (XO (XO (XO (XO (XO (XO
    (XO (XO (XO (XO (XO (XO (XO (XO (XO (XO (XO (XO (XO (XO (XO (XO (XO (XO
    (XO (XO (XO (XO (XO (XO (XO (XO (XO (XO (XO (XO (XO (XO (XO (XO (XO (XI
    (XI (XI (XO (XO (XO (XO (XO (XI (XO
    XH)))))))))))))))))))))))))))))))))))))))))))))))))))))))))))))))) :: ((Npos
    (XO (XO (XO (XO (XO (XO (XO (XO (XO (XO (XO (XO (XO (XO (XO (XO (XO (XO
    (XO (XO (XO (XO (XO (XO (XO (XO (XO (XO (XO (XO (XO (XO (XO (XO (XO (XO
    (XO (XO (XO (XO (XO (XO (XO (XO (XO (XO (XO (XO (XO (XO (XO (XO (XO (XO
    (XI (XI (XO (XO (XO (XO (XO (XO
    XH))))))))))))))))))))))))))))))))))))))))))))))))))))))))))))))) :: [])))))))))))))))))))))))))))))))))))))))))))))))))))))))))))))))

(** val rAYS_T : bb list list **)

let rAYS_T =
  ((Npos (XO (XO (XO (XO (XO (XO (XO (XO (XI (XO (XO (XO (XO (XO (XO (XO (XI
    (XO (XO (XO (XO (XO (XO (XO (XI (XO (XO (XO (XO (XO (XO (XO (XI (XO (XO
    (XO (XO (XO (XO (XO (XI (XO (XO (XO (XO (XO (XO (XO (XI (XO (XO (XO (XO
    (XO (XO (XO
    XH))))))))))))))))))))))))))))))))))))))))))))))))))))))))) :: (N0 :: ((Npos
    (XO (XI (XI (XI (XI (XI (XI XH)))))))) :: (N0 :: ((Npos (XO (XO (XO (XO
    (XO (XO (XO (XO (XO (XI (XO (XO (XO (XO (XO (XO (XO (XO (XI (XO (XO (XO
    (XO (XO (XO (XO (XO (XI (XO (XO (XO (XO (XO (XO (XO (XO (XI (XO (XO (XO
    (XO (XO (XO (XO (XO (XI (XO (XO (XO (XO (XO (XO (XO (XO (XI (XO (XO (XO
    (XO (XO (XO (XO (XO
    XH)))))))))))))))))))))))))))))))))))))))))))))))))))))))))))))))) :: (N0 :: (N0 :: (N0 :: [])))))))) :: (((Npos
    (XO (XO (XO (XO (XO (XO (XO (XO (XO (XI (XO (XO (XO (XO (XO (XO (XO (XI
    (XO (XO (XO (XO (XO (XO (XO (XI (XO (XO (XO (XO (XO (XO (XO (XI (XO (XO
    (XO (XO (XO (XO (XO (XI (XO (XO (XO (XO (XO (XO (XO (XI (XO (XO (XO (XO
    (XO (XO (XO
    XH)))))))))))))))))))))))))))))))))))))))))))))))))))))))))) :: (N0 :: ((Npos
    (XO (XO (XI (XI (XI (XI (XI XH)))))))) :: ((Npos XH) :: ((Npos (XO (XO
    (XO (XO (XO (XO (XO (XO (XO (XO (XI (XO (XO (XO (XO (XO (XO (XO (XO (XI
    (XO (XO (XO (XO (XO (XO (XO (XO (XI (XO (XO (XO (XO (XO (XO (XO (XO (XI
    (XO (XO (XO (XO (XO (XO (XO (XO (XI (XO (XO (XO (XO (XO (XO (XO (XO
    XH)))))))))))))))))))))))))))))))))))))))))))))))))))))))) :: ((Npos (XO
    (XO (XO (XO (XO (XO (XO (XO
    XH))))))))) :: (N0 :: (N0 :: [])))))))) :: (((Npos (XO (XO (XO (XO (XO
    (XO (XO (XO (XO (XO (XI (XO (XO (XO (XO (XO (XO (XO (XI (XO (XO (XO (XO
    (XO (XO (XO (XI (XO (XO (XO (XO (XO (XO (XO (XI (XO (XO (XO (XO (XO (XO
    (XO (XI (XO (XO (XO (XO (XO (XO (XO (XI (XO (XO (XO (XO (XO (XO (XO
    XH))))))))))))))))))))))))))))))))))))))))))))))))))))))))))) :: (N0 :: ((Npos
    (XO (XO (XO (XI (XI (XI (XI XH)))))))) :: ((Npos (XI XH)) :: ((Npos (XO
    (XO (XO (XO (XO (XO (XO (XO (XO (XO (XO (XI (XO (XO (XO (XO (XO (XO (XO
    (XO (XI (XO (XO (XO (XO (XO (XO (XO (XO (XI (XO (XO (XO (XO (XO (XO (XO
    (XO (XI (XO (XO (XO (XO (XO (XO (XO (XO
    XH)))))))))))))))))))))))))))))))))))))))))))))))) :: ((Npos (XO (XO (XO
    (XO (XO (XO (XO (XO (XO (XI (XO (XO (XO (XO (XO (XO
    XH))))))))))))))))) :: (N0 :: (N0 :: [])))))))) :: (((Npos (XO (XO (XO
    (XO (XO (XO (XO (XO (XO (XO (XO (XI (XO (XO (XO (XO (XO (XO (XO (XI (XO
    (XO (XO (XO (XO (XO (XO (XI (XO (XO (XO (XO (XO (XO (XO (XI (XO (XO (XO
    (XO (XO (XO (XO (XI (XO (XO (XO (XO (XO (XO (XO (XI (XO (XO (XO (XO (XO
    (XO (XO
    XH)))))))))))))))))))))))))))))))))))))))))))))))))))))))))))) :: (N0 :: ((Npos
    (XO (XO (XO (XO (XI (XI (XI XH)))))))) :: ((Npos (XI (XI XH))) :: ((Npos
    (XO (XO (XO (XO (XO (XO (XO (XO (XO (XO (XO (XO (XI (XO (XO (XO (XO (XO
    (XO (XO (XO (XI (XO (XO (XO (XO (XO (XO (XO (XO (XI (XO (XO (XO (XO (XO
    (XO (XO (XO XH)))))))))))))))))))))))))))))))))))))))) :: ((Npos (XO (XO
    (XO (XO (XO (XO (XO (XO (XO (XO (XI (XO (XO (XO (XO (XO (XO (XI (XO (XO
    (XO (XO (XO (XO
    XH))))))))))))))))))))))))) :: (N0 :: (N0 :: [])))))))) :: (((Npos (XO
    (XO (XO (XO (XO (XO (XO (XO (XO (XO (XO (XO (XI (XO (XO (XO (XO (XO (XO
    (XO (XI (XO (XO (XO (XO (XO (XO (XO (XI (XO (XO (XO (XO (XO (XO (XO (XI
    (XO (XO (XO (XO (XO (XO (XO (XI (XO (XO (XO (XO (XO (XO (XO (XI (XO (XO
    (XO (XO (XO (XO (XO
    XH))))))))))))))))))))))))))))))))))))))))))))))))))))))))))))) :: (N0 :: ((Npos
    (XO (XO (XO (XO (XO (XI (XI XH)))))))) :: ((Npos (XI (XI (XI
    XH)))) :: ((Npos (XO (XO (XO (XO (XO (XO (XO (XO (XO (XO (XO (XO (XO (XI
    (XO (XO (XO (XO (XO (XO (XO (XO (XI (XO (XO (XO (XO (XO (XO (XO (XO
    XH)))))))))))))))))))))))))))))))) :: ((Npos (XO (XO (XO (XO (XO (XO (XO
    (XO (XO (XO (XO (XI (XO (XO (XO (XO (XO (XO (XI (XO (XO (XO (XO (XO (XO
    (XI (XO (XO (XO (XO (XO (XO
    XH))))))))))))))))))))))))))))))))) :: (N0 :: (N0 :: [])))))))) :: (((Npos
    (XO (XO (XO (XO (XO (XO (XO (XO (XO (XO (XO (XO (XO (XI (XO (XO (XO (XO
    (XO (XO (XO (XI (XO (XO (XO (XO (XO (XO (XO (XI (XO (XO (XO (XO (XO (XO
    (XO (XI (XO (XO (XO (XO (XO (XO (XO (XI (XO (XO (XO (XO (XO (XO (XO (XI
    (XO (XO (XO (XO (XO (XO (XO
    XH)))))))))))))))))))))))))))))))))))))))))))))))))))))))))))))) :: (N0 :: ((Npos
    (XO (XO (XO (XO (XO (XO (XI XH)))))))) :: ((Npos (XI (XI (XI (XI
    XH))))) :: ((Npos (XO (XO (XO (XO (XO (XO (XO (XO (XO (XO (XO (XO (XO (XO
    (XI (XO (XO (XO (XO (XO (XO (XO (XO XH)))))))))))))))))))))))) :: ((Npos
    (XO (XO (XO (XO (XO (XO (XO (XO (XO (XO (XO (XO (XI (XO (XO (XO (XO (XO
    (XO (XI (XO (XO (XO (XO (XO (XO (XI (XO (XO (XO (XO (XO (XO (XI (XO (XO
    (XO (XO (XO (XO
    XH))))))))))))))))))))))))))))))))))))))))) :: (N0 :: (N0 :: [])))))))) :: (((Npos
    (XO (XO (XO (XO (XO (XO (XO (XO (XO (XO (XO (XO (XO (XO (XI (XO (XO (XO
    (XO (XO (XO (XO (XI (XO (XO (XO (XO (XO (XO (XO (XI (XO (XO (XO (XO (XO
    (XO (XO (XI (XO (XO (XO (XO (XO (XO (XO (XI (XO (XO (XO (XO (XO (XO (XO
    (XI (XO (XO (XO (XO (XO (XO (XO
    XH))))))))))))))))))))))))))))))))))))))))))))))))))))))))))))))) :: (N0 :: ((Npos
    (XO (XO (XO (XO (XO (XO (XO XH)))))))) :: ((Npos (XI (XI (XI (XI (XI
    XH)))))) :: ((Npos (XO (XO (XO (XO (XO (XO (XO (XO (XO (XO (XO (XO (XO
    (XO (XO XH)))))))))))))))) :: ((Npos (XO (XO (XO (XO (XO (XO (XO (XO (XO
    (XO (XO (XO (XO (XI (XO (XO (XO (XO (XO (XO (XI (XO (XO (XO (XO (XO (XO
    (XI (XO (XO (XO (XO (XO (XO (XI (XO (XO (XO (XO (XO (XO (XI (XO (XO (XO
    (XO (XO (XO
    XH))))))))))))))))))))))))))))))))))))))))))))))))) :: (N0 :: (N0 :: [])))))))) :: (((Npos
    (XO (XO (XO (XO (XO (XO (XO (XO (XO (XO (XO (XO (XO (XO (XO (XI (XO (XO
    (XO (XO (XO (XO (XO (XI (XO (XO (XO (XO (XO (XO (XO (XI (XO (XO (XO (XO
    (XO (XO (XO (XI (XO (XO (XO (XO (XO (XO (XO (XI (XO (XO (XO (XO (XO (XO
    (XO (XI (XO (XO (XO (XO (XO (XO (XO
    XH)))))))))))))))))))))))))))))))))))))))))))))))))))))))))))))))) :: (N0 :: (N0 :: ((Npos
    (XI (XI (XI (XI (XI (XI XH))))))) :: (N0 :: ((Npos (XO (XO (XO (XO (XO
    (XO (XO (XO (XO (XO (XO (XO (XO (XO (XI (XO (XO (XO (XO (XO (XO (XI (XO
    (XO (XO (XO (XO (XO (XI (XO (XO (XO (XO (XO (XO (XI (XO (XO (XO (XO (XO
    (XO (XI (XO (XO (XO (XO (XO (XO (XI (XO (XO (XO (XO (XO (XO
    XH))))))))))))))))))))))))))))))))))))))))))))))))))))))))) :: (N0 :: (N0 :: [])))))))) :: (((Npos
    (XO (XO (XO (XO (XO (XO (XO (XO (XO (XO (XO (XO (XO (XO (XO (XO (XI (XO
    (XO (XO (XO (XO (XO (XO (XI (XO (XO (XO (XO (XO (XO (XO (XI (XO (XO (XO
    (XO (XO (XO (XO (XI (XO (XO (XO (XO (XO (XO (XO (XI (XO (XO (XO (XO (XO
    (XO (XO
    XH))))))))))))))))))))))))))))))))))))))))))))))))))))))))) :: ((Npos
    XH) :: ((Npos (XO (XO (XO (XO (XO (XO (XO (XO (XO (XI (XI (XI (XI (XI (XI
    XH)))))))))))))))) :: (N0 :: ((Npos (XO (XO (XO (XO (XO (XO (XO (XO (XO
    (XO (XO (XO (XO (XO (XO (XO (XO (XI (XO (XO (XO (XO (XO (XO (XO (XO (XI
    (XO (XO (XO (XO (XO (XO (XO (XO (XI (XO (XO (XO (XO (XO (XO (XO (XO (XI
    (XO (XO (XO (XO (XO (XO (XO (XO (XI (XO (XO (XO (XO (XO (XO (XO (XO
    XH))))))))))))))))))))))))))))))))))))))))))))))))))))))))))))))) :: (N0 :: ((Npos
    (XO XH)) :: (N0 :: [])))))))) :: (((Npos (XO (XO (XO (XO (XO (XO (XO (XO
    (XO (XO (XO (XO (XO (XO (XO (XO (XO (XI (XO (XO (XO (XO (XO (XO (XO (XI
    (XO (XO (XO (XO (XO (XO (XO (XI (XO (XO (XO (XO (XO (XO (XO (XI (XO (XO
    (XO (XO (XO (XO (XO (XI (XO (XO (XO (XO (XO (XO (XO
    XH)))))))))))))))))))))))))))))))))))))))))))))))))))))))))) :: ((Npos
    (XO XH)) :: ((Npos (XO (XO (XO (XO (XO (XO (XO (XO (XO (XO (XI (XI (XI
    (XI (XI XH)))))))))))))))) :: ((Npos (XO (XO (XO (XO (XO (XO (XO (XO
    XH))))))))) :: ((Npos (XO (XO (XO (XO (XO (XO (XO (XO (XO (XO (XO (XO (XO
    (XO (XO (XO (XO (XO (XI (XO (XO (XO (XO (XO (XO (XO (XO (XI (XO (XO (XO
    (XO (XO (XO (XO (XO (XI (XO (XO (XO (XO (XO (XO (XO (XO (XI (XO (XO (XO
    (XO (XO (XO (XO (XO (XI (XO (XO (XO (XO (XO (XO (XO (XO
    XH)))))))))))))))))))))))))))))))))))))))))))))))))))))))))))))))) :: ((Npos
    (XO (XO (XO (XO (XO (XO (XO (XO (XO (XO (XO (XO (XO (XO (XO (XO
    XH))))))))))))))))) :: ((Npos (XO (XO XH))) :: ((Npos
    XH) :: [])))))))) :: (((Npos (XO (XO (XO (XO (XO (XO (XO (XO (XO (XO (XO
    (XO (XO (XO (XO (XO (XO (XO (XI (XO (XO (XO (XO (XO (XO (XO (XI (XO (XO
    (XO (XO (XO (XO (XO (XI (XO (XO (XO (XO (XO (XO (XO (XI (XO (XO (XO (XO
    (XO (XO (XO (XI (XO (XO (XO (XO (XO (XO (XO
    XH))))))))))))))))))))))))))))))))))))))))))))))))))))))))))) :: ((Npos
    (XO (XO XH))) :: ((Npos (XO (XO (XO (XO (XO (XO (XO (XO (XO (XO (XO (XI
    (XI (XI (XI XH)))))))))))))))) :: ((Npos (XO (XO (XO (XO (XO (XO (XO (XO
    (XI XH)))))))))) :: ((Npos (XO (XO (XO (XO (XO (XO (XO (XO (XO (XO (XO
    (XO (XO (XO (XO (XO (XO (XO (XO (XI (XO (XO (XO (XO (XO (XO (XO (XO (XI
    (XO (XO (XO (XO (XO (XO (XO (XO (XI (XO (XO (XO (XO (XO (XO (XO (XO (XI
    (XO (XO (XO (XO (XO (XO (XO (XO
    XH)))))))))))))))))))))))))))))))))))))))))))))))))))))))) :: ((Npos (XO
    (XO (XO (XO (XO (XO (XO (XO (XO (XO (XO (XO (XO (XO (XO (XO (XO (XI (XO
    (XO (XO (XO (XO (XO XH))))))))))))))))))))))))) :: ((Npos (XO (XO (XO
    XH)))) :: ((Npos (XO XH)) :: [])))))))) :: (((Npos (XO (XO (XO (XO (XO
    (XO (XO (XO (XO (XO (XO (XO (XO (XO (XO (XO (XO (XO (XO (XI (XO (XO (XO
    (XO (XO (XO (XO (XI (XO (XO (XO (XO (XO (XO (XO (XI (XO (XO (XO (XO (XO
    (XO (XO (XI (XO (XO (XO (XO (XO (XO (XO (XI (XO (XO (XO (XO (XO (XO (XO
    XH)))))))))))))))))))))))))))))))))))))))))))))))))))))))))))) :: ((Npos
    (XO (XO (XO XH)))) :: ((Npos (XO (XO (XO (XO (XO (XO (XO (XO (XO (XO (XO
    (XO (XI (XI (XI XH)))))))))))))))) :: ((Npos (XO (XO (XO (XO (XO (XO (XO
    (XO (XI (XI XH))))))))))) :: ((Npos (XO (XO (XO (XO (XO (XO (XO (XO (XO
    (XO (XO (XO (XO (XO (XO (XO (XO (XO (XO (XO (XI (XO (XO (XO (XO (XO (XO
    (XO (XO (XI (XO (XO (XO (XO (XO (XO (XO (XO (XI (XO (XO (XO (XO (XO (XO
    (XO (XO XH)))))))))))))))))))))))))))))))))))))))))))))))) :: ((Npos (XO
    (XO (XO (XO (XO (XO (XO (XO (XO (XO (XO (XO (XO (XO (XO (XO (XO (XO (XI
    (XO (XO (XO (XO (XO (XO (XI (XO (XO (XO (XO (XO (XO
    XH))))))))))))))))))))))))))))))))) :: ((Npos (XO (XO (XO (XO
    XH))))) :: ((Npos (XO (XO XH))) :: [])))))))) :: (((Npos (XO (XO (XO (XO
    (XO (XO (XO (XO (XO (XO (XO (XO (XO (XO (XO (XO (XO (XO (XO (XO (XI (XO
    (XO (XO (XO (XO (XO (XO (XI (XO (XO (XO (XO (XO (XO (XO (XI (XO (XO (XO
    (XO (XO (XO (XO (XI (XO (XO (XO (XO (XO (XO (XO (XI (XO (XO (XO (XO (XO
    (XO (XO
    XH))))))))))))))))))))))))))))))))))))))))))))))))))))))))))))) :: ((Npos
    (XO (XO (XO (XO XH))))) :: ((Npos (XO (XO (XO (XO (XO (XO (XO (XO (XO (XO
    (XO (XO (XO (XI (XI XH)))))))))))))))) :: ((Npos (XO (XO (XO (XO (XO (XO
    (XO (XO (XI (XI (XI XH)))))))))))) :: ((Npos (XO (XO (XO (XO (XO (XO (XO
    (XO (XO (XO (XO (XO (XO (XO (XO (XO (XO (XO (XO (XO (XO (XI (XO (XO (XO
    (XO (XO (XO (XO (XO (XI (XO (XO (XO (XO (XO (XO (XO (XO
    XH)))))))))))))))))))))))))))))))))))))))) :: ((Npos (XO (XO (XO (XO (XO
    (XO (XO (XO (XO (XO (XO (XO (XO (XO (XO (XO (XO (XO (XO (XI (XO (XO (XO
    (XO (XO (XO (XI (XO (XO (XO (XO (XO (XO (XI (XO (XO (XO (XO (XO (XO
    XH))))))))))))))))))))))))))))))))))))))))) :: ((Npos (XO (XO (XO (XO (XO
    XH)))))) :: ((Npos (XO (XO (XO XH)))) :: [])))))))) :: (((Npos (XO (XO
    (XO (XO (XO (XO (XO (XO (XO (XO (XO (XO (XO (XO (XO (XO (XO (XO (XO (XO
    (XO (XI (XO (XO (XO (XO (XO (XO (XO (XI (XO (XO (XO (XO (XO (XO (XO (XI
    (XO (XO (XO (XO (XO (XO (XO (XI (XO (XO (XO (XO (XO (XO (XO (XI (XO (XO
    (XO (XO (XO (XO (XO
    XH)))))))))))))))))))))))))))))))))))))))))))))))))))))))))))))) :: ((Npos
    (XO (XO (XO (XO (XO XH)))))) :: ((Npos (XO (XO (XO (XO (XO (XO (XO (XO
    (XO (XO (XO (XO (XO (XO (XI XH)))))))))))))))) :: ((Npos (XO (XO (XO (XO
    (XO (XO (XO (XO (XI (XI (XI (XI XH))))))))))))) :: ((Npos (XO (XO (XO (XO
    (XO (XO (XO (XO (XO (XO (XO (XO (XO (XO (XO (XO (XO (XO (XO (XO (XO (XO
    (XI (XO (XO (XO (XO (XO (XO (XO (XO
    XH)))))))))))))))))))))))))))))))) :: ((Npos (XO (XO (XO (XO (XO (XO (XO
    (XO (XO (XO (XO (XO (XO (XO (XO (XO (XO (XO (XO (XO (XI (XO (XO (XO (XO
    (XO (XO (XI (XO (XO (XO (XO (XO (XO (XI (XO (XO (XO (XO (XO (XO (XI (XO
    (XO (XO (XO (XO (XO
    XH))))))))))))))))))))))))))))))))))))))))))))))))) :: ((Npos (XO (XO (XO
    (XO (XO (XO XH))))))) :: ((Npos (XO (XO (XO (XO
    XH))))) :: [])))))))) :: (((Npos (XO (XO (XO (XO (XO (XO (XO (XO (XO (XO
    (XO (XO (XO (XO (XO (XO (XO (XO (XO (XO (XO (XO (XI (XO (XO (XO (XO (XO
    (XO (XO (XI (XO (XO (XO (XO (XO (XO (XO (XI (XO (XO (XO (XO (XO (XO (XO
    (XI (XO (XO (XO (XO (XO (XO (XO (XI (XO (XO (XO (XO (XO (XO (XO
    XH))))))))))))))))))))))))))))))))))))))))))))))))))))))))))))))) :: ((Npos
    (XO (XO (XO (XO (XO (XO XH))))))) :: ((Npos (XO (XO (XO (XO (XO (XO (XO
    (XO (XO (XO (XO (XO (XO (XO (XO XH)))))))))))))))) :: ((Npos (XO (XO (XO
    (XO (XO (XO (XO (XO (XI (XI (XI (XI (XI XH)))))))))))))) :: ((Npos (XO
    (XO (XO (XO (XO (XO (XO (XO (XO (XO (XO (XO (XO (XO (XO (XO (XO (XO (XO
    (XO (XO (XO (XO XH)))))))))))))))))))))))) :: ((Npos (XO (XO (XO (XO (XO
    (XO (XO (XO (XO (XO (XO (XO (XO (XO (XO (XO (XO (XO (XO (XO (XO (XI (XO
    (XO (XO (XO (XO (XO (XI (XO (XO (XO (XO (XO (XO (XI (XO (XO (XO (XO (XO
    (XO (XI (XO (XO (XO (XO (XO (XO (XI (XO (XO (XO (XO (XO (XO
    XH))))))))))))))))))))))))))))))))))))))))))))))))))))))))) :: ((Npos (XO
    (XO (XO (XO (XO (XO (XO XH)))))))) :: ((Npos (XO (XO (XO (XO (XO
    XH)))))) :: [])))))))) :: (((Npos (XO (XO (XO (XO (XO (XO (XO (XO (XO (XO
    (XO (XO (XO (XO (XO (XO (XO (XO (XO (XO (XO (XO (XO (XI (XO (XO (XO (XO
    (XO (XO (XO (XI (XO (XO (XO (XO (XO (XO (XO (XI (XO (XO (XO (XO (XO (XO
    (XO (XI (XO (XO (XO (XO (XO (XO (XO (XI (XO (XO (XO (XO (XO (XO (XO
    XH)))))))))))))))))))))))))))))))))))))))))))))))))))))))))))))))) :: ((Npos
    (XO (XO (XO (XO (XO (XO (XO XH)))))))) :: (N0 :: ((Npos (XO (XO (XO (XO
    (XO (XO (XO (XO (XI (XI (XI (XI (XI (XI
    XH))))))))))))))) :: (N0 :: ((Npos (XO (XO (XO (XO (XO (XO (XO (XO (XO
    (XO (XO (XO (XO (XO (XO (XO (XO (XO (XO (XO (XO (XO (XI (XO (XO (XO (XO
    (XO (XO (XI (XO (XO (XO (XO (XO (XO (XI (XO (XO (XO (XO (XO (XO (XI (XO
    (XO (XO (XO (XO (XO (XI (XO (XO (XO (XO (XO (XO
    XH)))))))))))))))))))))))))))))))))))))))))))))))))))))))))) :: (N0 :: ((Npos
    (XO (XO (XO (XO (XO (XO XH))))))) :: [])))))))) :: (((Npos (XO (XO (XO
    (XO (XO (XO (XO (XO (XO (XO (XO (XO (XO (XO (XO (XO (XO (XO (XO (XO (XO
    (XO (XO (XO (XI (XO (XO (XO (XO (XO (XO (XO (XI (XO (XO (XO (XO (XO (XO
    (XO (XI (XO (XO (XO (XO (XO (XO (XO (XI (XO (XO (XO (XO (XO (XO (XO
    XH))))))))))))))))))))))))))))))))))))))))))))))))))))))))) :: ((Npos (XI
    (XO (XO (XO (XO (XO (XO (XO XH))))))))) :: ((Npos (XO (XO (XO (XO (XO (XO
    (XO (XO (XO (XO (XO (XO (XO (XO (XO (XO (XO (XI (XI (XI (XI (XI (XI
    XH)))))))))))))))))))))))) :: (N0 :: ((Npos (XO (XO (XO (XO (XO (XO (XO
    (XO (XO (XO (XO (XO (XO (XO (XO (XO (XO (XO (XO (XO (XO (XO (XO (XO (XO
    (XI (XO (XO (XO (XO (XO (XO (XO (XO (XI (XO (XO (XO (XO (XO (XO (XO (XO
    (XI (XO (XO (XO (XO (XO (XO (XO (XO (XI (XO (XO (XO (XO (XO (XO (XO (XO
    XH)))))))))))))))))))))))))))))))))))))))))))))))))))))))))))))) :: (N0 :: ((Npos
    (XO (XO (XI (XO (XO (XO (XO (XO (XO
    XH)))))))))) :: (N0 :: [])))))))) :: (((Npos (XO (XO (XO (XO (XO (XO (XO
    (XO (XO (XO (XO (XO (XO (XO (XO (XO (XO (XO (XO (XO (XO (XO (XO (XO (XO
    (XI (XO (XO (XO (XO (XO (XO (XO (XI (XO (XO (XO (XO (XO (XO (XO (XI (XO
    (XO (XO (XO (XO (XO (XO (XI (XO (XO (XO (XO (XO (XO (XO
    XH)))))))))))))))))))))))))))))))))))))))))))))))))))))))))) :: ((Npos
    (XO (XI (XO (XO (XO (XO (XO (XO (XO XH)))))))))) :: ((Npos (XO (XO (XO
    (XO (XO (XO (XO (XO (XO (XO (XO (XO (XO (XO (XO (XO (XO (XO (XI (XI (XI
    (XI (XI XH)))))))))))))))))))))))) :: ((Npos (XO (XO (XO (XO (XO (XO (XO
    (XO (XO (XO (XO (XO (XO (XO (XO (XO XH))))))))))))))))) :: ((Npos (XO (XO
    (XO (XO (XO (XO (XO (XO (XO (XO (XO (XO (XO (XO (XO (XO (XO (XO (XO (XO
    (XO (XO (XO (XO (XO (XO (XI (XO (XO (XO (XO (XO (XO (XO (XO (XI (XO (XO
    (XO (XO (XO (XO (XO (XO (XI (XO (XO (XO (XO (XO (XO (XO (XO (XI (XO (XO
    (XO (XO (XO (XO (XO (XO
    XH))))))))))))))))))))))))))))))))))))))))))))))))))))))))))))))) :: ((Npos
    (XO (XO (XO (XO (XO (XO (XO (XO (XO (XO (XO (XO (XO (XO (XO (XO (XO (XO
    (XO (XO (XO (XO (XO (XO XH))))))))))))))))))))))))) :: ((Npos (XO (XO (XO
    (XI (XO (XO (XO (XO (XO (XO XH))))))))))) :: ((Npos (XO (XO (XO (XO (XO
    (XO (XO (XO XH))))))))) :: [])))))))) :: (((Npos (XO (XO (XO (XO (XO (XO
    (XO (XO (XO (XO (XO (XO (XO (XO (XO (XO (XO (XO (XO (XO (XO (XO (XO (XO
    (XO (XO (XI (XO (XO (XO (XO (XO (XO (XO (XI (XO (XO (XO (XO (XO (XO (XO
    (XI (XO (XO (XO (XO (XO (XO (XO (XI (XO (XO (XO (XO (XO (XO (XO
    XH))))))))))))))))))))))))))))))))))))))))))))))))))))))))))) :: ((Npos
    (XO (XO (XI (XO (XO (XO (XO (XO (XO (XO XH))))))))))) :: ((Npos (XO (XO
    (XO (XO (XO (XO (XO (XO (XO (XO (XO (XO (XO (XO (XO (XO (XO (XO (XO (XI
    (XI (XI (XI XH)))))))))))))))))))))))) :: ((Npos (XO (XO (XO (XO (XO (XO
    (XO (XO (XO (XO (XO (XO (XO (XO (XO (XO (XI
    XH)))))))))))))))))) :: ((Npos (XO (XO (XO (XO (XO (XO (XO (XO (XO (XO
    (XO (XO (XO (XO (XO (XO (XO (XO (XO (XO (XO (XO (XO (XO (XO (XO (XO (XI
    (XO (XO (XO (XO (XO (XO (XO (XO (XI (XO (XO (XO (XO (XO (XO (XO (XO (XI
    (XO (XO (XO (XO (XO (XO (XO (XO (XI (XO (XO (XO (XO (XO (XO (XO (XO
    XH)))))))))))))))))))))))))))))))))))))))))))))))))))))))))))))))) :: ((Npos
    (XO (XO (XO (XO (XO (XO (XO (XO (XO (XO (XO (XO (XO (XO (XO (XO (XO (XO
    (XO (XO (XO (XO (XO (XO (XO (XI (XO (XO (XO (XO (XO (XO
    XH))))))))))))))))))))))))))))))))) :: ((Npos (XO (XO (XO (XO (XI (XO (XO
    (XO (XO (XO (XO XH)))))))))))) :: ((Npos (XI (XO (XO (XO (XO (XO (XO (XO
    (XO XH)))))))))) :: [])))))))) :: (((Npos (XO (XO (XO (XO (XO (XO (XO (XO
    (XO (XO (XO (XO (XO (XO (XO (XO (XO (XO (XO (XO (XO (XO (XO (XO (XO (XO
    (XO (XI (XO (XO (XO (XO (XO (XO (XO (XI (XO (XO (XO (XO (XO (XO (XO (XI
    (XO (XO (XO (XO (XO (XO (XO (XI (XO (XO (XO (XO (XO (XO (XO
    XH)))))))))))))))))))))))))))))))))))))))))))))))))))))))))))) :: ((Npos
    (XO (XO (XO (XI (XO (XO (XO (XO (XO (XO (XO XH)))))))))))) :: ((Npos (XO
    (XO (XO (XO (XO (XO (XO (XO (XO (XO (XO (XO (XO (XO (XO (XO (XO (XO (XO
    (XO (XI (XI (XI XH)))))))))))))))))))))))) :: ((Npos (XO (XO (XO (XO (XO
    (XO (XO (XO (XO (XO (XO (XO (XO (XO (XO (XO (XI (XI
    XH))))))))))))))))))) :: ((Npos (XO (XO (XO (XO (XO (XO (XO (XO (XO (XO
    (XO (XO (XO (XO (XO (XO (XO (XO (XO (XO (XO (XO (XO (XO (XO (XO (XO (XO
    (XI (XO (XO (XO (XO (XO (XO (XO (XO (XI (XO (XO (XO (XO (XO (XO (XO (XO
    (XI (XO (XO (XO (XO (XO (XO (XO (XO
    XH)))))))))))))))))))))))))))))))))))))))))))))))))))))))) :: ((Npos (XO
    (XO (XO (XO (XO (XO (XO (XO (XO (XO (XO (XO (XO (XO (XO (XO (XO (XO (XO
    (XO (XO (XO (XO (XO (XO (XO (XI (XO (XO (XO (XO (XO (XO (XI (XO (XO (XO
    (XO (XO (XO XH))))))))))))))))))))))))))))))))))))))))) :: ((Npos (XO (XO
    (XO (XO (XO (XI (XO (XO (XO (XO (XO (XO XH))))))))))))) :: ((Npos (XO (XI
    (XO (XO (XO (XO (XO (XO (XO (XO XH))))))))))) :: [])))))))) :: (((Npos
    (XO (XO (XO (XO (XO (XO (XO (XO (XO (XO (XO (XO (XO (XO (XO (XO (XO (XO
    (XO (XO (XO (XO (XO (XO (XO (XO (XO (XO (XI (XO (XO (XO (XO (XO (XO (XO
    (XI (XO (XO (XO (XO (XO (XO (XO (XI (XO (XO (XO (XO (XO (XO (XO (XI (XO
    (XO (XO (XO (XO (XO (XO
    XH))))))))))))))))))))))))))))))))))))))))))))))))))))))))))))) :: ((Npos
    (XO (XO (XO (XO (XI (XO (XO (XO (XO (XO (XO (XO XH))))))))))))) :: ((Npos
    (XO (XO (XO (XO (XO (XO (XO (XO (XO (XO (XO (XO (XO (XO (XO (XO (XO (XO
    (XO (XO (XO (XI (XI XH)))))))))))))))))))))))) :: ((Npos (XO (XO (XO (XO
    (XO (XO (XO (XO (XO (XO (XO (XO (XO (XO (XO (XO (XI (XI (XI
    XH)))))))))))))))))))) :: ((Npos (XO (XO (XO (XO (XO (XO (XO (XO (XO (XO
    (XO (XO (XO (XO (XO (XO (XO (XO (XO (XO (XO (XO (XO (XO (XO (XO (XO (XO
    (XO (XI (XO (XO (XO (XO (XO (XO (XO (XO (XI (XO (XO (XO (XO (XO (XO (XO
    (XO XH)))))))))))))))))))))))))))))))))))))))))))))))) :: ((Npos (XO (XO
    (XO (XO (XO (XO (XO (XO (XO (XO (XO (XO (XO (XO (XO (XO (XO (XO (XO (XO
    (XO (XO (XO (XO (XO (XO (XO (XI (XO (XO (XO (XO (XO (XO (XI (XO (XO (XO
    (XO (XO (XO (XI (XO (XO (XO (XO (XO (XO
    XH))))))))))))))))))))))))))))))))))))))))))))))))) :: ((Npos (XO (XO (XO
    (XO (XO (XO (XI (XO (XO (XO (XO (XO (XO XH)))))))))))))) :: ((Npos (XO
    (XO (XI (XO (XO (XO (XO (XO (XO (XO (XO
    XH)))))))))))) :: [])))))))) :: (((Npos (XO (XO (XO (XO (XO (XO (XO (XO
    (XO (XO (XO (XO (XO (XO (XO (XO (XO (XO (XO (XO (XO (XO (XO (XO (XO (XO
    (XO (XO (XO (XI (XO (XO (XO (XO (XO (XO (XO (XI (XO (XO (XO (XO (XO (XO
    (XO (XI (XO (XO (XO (XO (XO (XO (XO (XI (XO (XO (XO (XO (XO (XO (XO
    XH)))))))))))))))))))))))))))))))))))))))))))))))))))))))))))))) :: ((Npos
    (XO (XO (XO (XO (XO (XI (XO (XO (XO (XO (XO (XO (XO
    XH)))))))))))))) :: ((Npos (XO (XO (XO (XO (XO (XO (XO (XO (XO (XO (XO
    (XO (XO (XO (XO (XO (XO (XO (XO (XO (XO (XO (XI
    XH)))))))))))))))))))))))) :: ((Npos (XO (XO (XO (XO (XO (XO (XO (XO (XO
    (XO (XO (XO (XO (XO (XO (XO (XI (XI (XI (XI
    XH))))))))))))))))))))) :: ((Npos (XO (XO (XO (XO (XO (XO (XO (XO (XO (XO
    (XO (XO (XO (XO (XO (XO (XO (XO (XO (XO (XO (XO (XO (XO (XO (XO (XO (XO
    (XO (XO (XI (XO (XO (XO (XO (XO (XO (XO (XO
    XH)))))))))))))))))))))))))))))))))))))))) :: ((Npos (XO (XO (XO (XO (XO
    (XO (XO (XO (XO (XO (XO (XO (XO (XO (XO (XO (XO (XO (XO (XO (XO (XO (XO
    (XO (XO (XO (XO (XO (XI (XO (XO (XO (XO (XO (XO (XI (XO (XO (XO (XO (XO
    (XO (XI (XO (XO (XO (XO (XO (XO (XI (XO (XO (XO (XO (XO (XO
    XH))))))))))))))))))))))))))))))))))))))))))))))))))))))))) :: ((Npos (XO
    (XO (XO (XO (XO (XO (XO (XI (XO (XO (XO (XO (XO (XO
    XH))))))))))))))) :: ((Npos (XO (XO (XO (XI (XO (XO (XO (XO (XO (XO (XO
    (XO XH))))))))))))) :: [])))))))) :: (((Npos (XO (XO (XO (XO (XO (XO (XO
    (XO (XO (XO (XO (XO (XO (XO (XO (XO (XO (XO (XO (XO (XO (XO (XO (XO (XO
    (XO (XO (XO (XO (XO (XI (XO (XO (XO (XO (XO (XO (XO (XI (XO (XO (XO (XO
    (XO (XO (XO (XI (XO (XO (XO (XO (XO (XO (XO (XI (XO (XO (XO (XO (XO (XO
    (XO
    XH))))))))))))))))))))))))))))))))))))))))))))))))))))))))))))))) :: ((Npos
    (XO (XO (XO (XO (XO (XO (XI (XO (XO (XO (XO (XO (XO (XO
    XH))))))))))))))) :: ((Npos (XO (XO (XO (XO (XO (XO (XO (XO (XO (XO (XO
    (XO (XO (XO (XO (XO (XO (XO (XO (XO (XO (XO (XO
    XH)))))))))))))))))))))))) :: ((Npos (XO (XO (XO (XO (XO (XO (XO (XO (XO
    (XO (XO (XO (XO (XO (XO (XO (XI (XI (XI (XI (XI
    XH)))))))))))))))))))))) :: ((Npos (XO (XO (XO (XO (XO (XO (XO (XO (XO
    (XO (XO (XO (XO (XO (XO (XO (XO (XO (XO (XO (XO (XO (XO (XO (XO (XO (XO
    (XO (XO (XO (XO XH)))))))))))))))))))))))))))))))) :: ((Npos (XO (XO (XO
    (XO (XO (XO (XO (XO (XO (XO (XO (XO (XO (XO (XO (XO (XO (XO (XO (XO (XO
    (XO (XO (XO (XO (XO (XO (XO (XO (XI (XO (XO (XO (XO (XO (XO (XI (XO (XO
    (XO (XO (XO (XO (XI (XO (XO (XO (XO (XO (XO (XI (XO (XO (XO (XO (XO (XO
    XH)))))))))))))))))))))))))))))))))))))))))))))))))))))))))) :: ((Npos
    (XO (XO (XO (XO (XO (XO (XO (XO (XO (XO (XO (XO (XO (XO (XO
    XH)))))))))))))))) :: ((Npos (XO (XO (XO (XO (XI (XO (XO (XO (XO (XO (XO
    (XO (XO XH)))))))))))))) :: [])))))))) :: (((Npos (XO (XO (XO (XO (XO (XO
    (XO (XO (XO (XO (XO (XO (XO (XO (XO (XO (XO (XO (XO (XO (XO (XO (XO (XO
    (XO (XO (XO (XO (XO (XO (XO (XI (XO (XO (XO (XO (XO (XO (XO (XI (XO (XO
    (XO (XO (XO (XO (XO (XI (XO (XO (XO (XO (XO (XO (XO (XI (XO (XO (XO (XO
    (XO (XO (XO
    XH)))))))))))))))))))))))))))))))))))))))))))))))))))))))))))))))) :: ((Npos
    (XO (XO (XO (XO (XO (XO (XO (XI (XO (XO (XO (XO (XO (XO (XO
    XH)))))))))))))))) :: (N0 :: ((Npos (XO (XO (XO (XO (XO (XO (XO (XO (XO
    (XO (XO (XO (XO (XO (XO (XO (XI (XI (XI (XI (XI (XI
    XH))))))))))))))))))))))) :: (N0 :: ((Npos (XO (XO (XO (XO (XO (XO (XO
    (XO (XO (XO (XO (XO (XO (XO (XO (XO (XO (XO (XO (XO (XO (XO (XO (XO (XO
    (XO (XO (XO (XO (XO (XI (XO (XO (XO (XO (XO (XO (XI (XO (XO (XO (XO (XO
    (XO (XI (XO (XO (XO (XO (XO (XO (XI (XO (XO (XO (XO (XO (XO
    XH))))))))))))))))))))))))))))))))))))))))))))))))))))))))))) :: (N0 :: ((Npos
    (XO (XO (XO (XO (XO (XI (XO (XO (XO (XO (XO (XO (XO (XO
    XH))))))))))))))) :: [])))))))) :: (((Npos (XO (XO (XO (XO (XO (XO (XO
    (XO (XO (XO (XO (XO (XO (XO (XO (XO (XO (XO (XO (XO (XO (XO (XO (XO (XO
    (XO (XO (XO (XO (XO (XO (XO (XI (XO (XO (XO (XO (XO (XO (XO (XI (XO (XO
    (XO (XO (XO (XO (XO (XI (XO (XO (XO (XO (XO (XO (XO
    XH))))))))))))))))))))))))))))))))))))))))))))))))))))))))) :: ((Npos (XI
    (XO (XO (XO (XO (XO (XO (XO (XI (XO (XO (XO (XO (XO (XO (XO
    XH))))))))))))))))) :: ((Npos (XO (XO (XO (XO (XO (XO (XO (XO (XO (XO (XO
    (XO (XO (XO (XO (XO (XO (XO (XO (XO (XO (XO (XO (XO (XO (XI (XI (XI (XI
    (XI (XI XH)))))))))))))))))))))))))))))))) :: (N0 :: ((Npos (XO (XO (XO
    (XO (XO (XO (XO (XO (XO (XO (XO (XO (XO (XO (XO (XO (XO (XO (XO (XO (XO
    (XO (XO (XO (XO (XO (XO (XO (XO (XO (XO (XO (XO (XI (XO (XO (XO (XO (XO
    (XO (XO (XO (XI (XO (XO (XO (XO (XO (XO (XO (XO (XI (XO (XO (XO (XO (XO
    (XO (XO (XO
    XH))))))))))))))))))))))))))))))))))))))))))))))))))))))))))))) :: (N0 :: ((Npos
    (XO (XO (XO (XI (XO (XO (XO (XO (XO (XO (XI (XO (XO (XO (XO (XO (XO
    XH)))))))))))))))))) :: (N0 :: [])))))))) :: (((Npos (XO (XO (XO (XO (XO
    (XO (XO (XO (XO (XO (XO (XO (XO (XO (XO (XO (XO (XO (XO (XO (XO (XO (XO
    (XO (XO (XO (XO (XO (XO (XO (XO (XO (XO (XI (XO (XO (XO (XO (XO (XO (XO
    (XI (XO (XO (XO (XO (XO (XO (XO (XI (XO (XO (XO (XO (XO (XO (XO
    XH)))))))))))))))))))))))))))))))))))))))))))))))))))))))))) :: ((Npos
    (XO (XI (XO (XO (XO (XO (XO (XO (XO (XI (XO (XO (XO (XO (XO (XO (XO
    XH)))))))))))))))))) :: ((Npos (XO (XO (XO (XO (XO (XO (XO (XO (XO (XO
    (XO (XO (XO (XO (XO (XO (XO (XO (XO (XO (XO (XO (XO (XO (XO (XO (XI (XI
    (XI (XI (XI XH)))))))))))))))))))))))))))))))) :: ((Npos (XO (XO (XO (XO
    (XO (XO (XO (XO (XO (XO (XO (XO (XO (XO (XO (XO (XO (XO (XO (XO (XO (XO
    (XO (XO XH))))))))))))))))))))))))) :: ((Npos (XO (XO (XO (XO (XO (XO (XO
    (XO (XO (XO (XO (XO (XO (XO (XO (XO (XO (XO (XO (XO (XO (XO (XO (XO (XO
    (XO (XO (XO (XO (XO (XO (XO (XO (XO (XI (XO (XO (XO (XO (XO (XO (XO (XO
    (XI (XO (XO (XO (XO (XO (XO (XO (XO (XI (XO (XO (XO (XO (XO (XO (XO (XO
    XH)))))))))))))))))))))))))))))))))))))))))))))))))))))))))))))) :: ((Npos
    (XO (XO (XO (XO (XO (XO (XO (XO (XO (XO (XO (XO (XO (XO (XO (XO (XO (XO
    (XO (XO (XO (XO (XO (XO (XO (XO (XO (XO (XO (XO (XO (XO
    XH))))))))))))))))))))))))))))))))) :: ((Npos (XO (XO (XO (XO (XI (XO (XO
    (XO (XO (XO (XO (XI (XO (XO (XO (XO (XO (XO
    XH))))))))))))))))))) :: ((Npos (XO (XO (XO (XO (XO (XO (XO (XO (XO (XO
    (XO (XO (XO (XO (XO (XO XH))))))))))))))))) :: [])))))))) :: (((Npos (XO
    (XO (XO (XO (XO (XO (XO (XO (XO (XO (XO (XO (XO (XO (XO (XO (XO (XO (XO
    (XO (XO (XO (XO (XO (XO (XO (XO (XO (XO (XO (XO (XO (XO (XO (XI (XO (XO
    (XO (XO (XO (XO (XO (XI (XO (XO (XO (XO (XO (XO (XO (XI (XO (XO (XO (XO
    (XO (XO (XO
    XH))))))))))))))))))))))))))))))))))))))))))))))))))))))))))) :: ((Npos
    (XO (XO (XI (XO (XO (XO (XO (XO (XO (XO (XI (XO (XO (XO (XO (XO (XO (XO
    XH))))))))))))))))))) :: ((Npos (XO (XO (XO (XO (XO (XO (XO (XO (XO (XO
    (XO (XO (XO (XO (XO (XO (XO (XO (XO (XO (XO (XO (XO (XO (XO (XO (XO (XI
    (XI (XI (XI XH)))))))))))))))))))))))))))))))) :: ((Npos (XO (XO (XO (XO
    (XO (XO (XO (XO (XO (XO (XO (XO (XO (XO (XO (XO (XO (XO (XO (XO (XO (XO
    (XO (XO (XI XH)))))))))))))))))))))))))) :: ((Npos (XO (XO (XO (XO (XO
    (XO (XO (XO (XO (XO (XO (XO (XO (XO (XO (XO (XO (XO (XO (XO (XO (XO (XO
    (XO (XO (XO (XO (XO (XO (XO (XO (XO (XO (XO (XO (XI (XO (XO (XO (XO (XO
    (XO (XO (XO (XI (XO (XO (XO (XO (XO (XO (XO (XO (XI (XO (XO (XO (XO (XO
    (XO (XO (XO
    XH))))))))))))))))))))))))))))))))))))))))))))))))))))))))))))))) :: ((Npos
    (XO (XO (XO (XO (XO (XO (XO (XO (XO (XO (XO (XO (XO (XO (XO (XO (XO (XO
    (XO (XO (XO (XO (XO (XO (XO (XO (XO (XO (XO (XO (XO (XO (XO (XI (XO (XO
    (XO (XO (XO (XO XH))))))))))))))))))))))))))))))))))))))))) :: ((Npos (XO
    (XO (XO (XO (XO (XI (XO (XO (XO (XO (XO (XO (XI (XO (XO (XO (XO (XO (XO
    XH)))))))))))))))))))) :: ((Npos (XO (XO (XO (XO (XO (XO (XO (XO (XI (XO
    (XO (XO (XO (XO (XO (XO (XO XH)))))))))))))))))) :: [])))))))) :: (((Npos
    (XO (XO (XO (XO (XO (XO (XO (XO (XO (XO (XO (XO (XO (XO (XO (XO (XO (XO
    (XO (XO (XO (XO (XO (XO (XO (XO (XO (XO (XO (XO (XO (XO (XO (XO (XO (XI
    (XO (XO (XO (XO (XO (XO (XO (XI (XO (XO (XO (XO (XO (XO (XO (XI (XO (XO
    (XO (XO (XO (XO (XO
    XH)))))))))))))))))))))))))))))))))))))))))))))))))))))))))))) :: ((Npos
    (XO (XO (XO (XI (XO (XO (XO (XO (XO (XO (XO (XI (XO (XO (XO (XO (XO (XO
    (XO XH)))))))))))))))))))) :: ((Npos (XO (XO (XO (XO (XO (XO (XO (XO (XO
    (XO (XO (XO (XO (XO (XO (XO (XO (XO (XO (XO (XO (XO (XO (XO (XO (XO (XO
    (XO (XI (XI (XI XH)))))))))))))))))))))))))))))))) :: ((Npos (XO (XO (XO
    (XO (XO (XO (XO (XO (XO (XO (XO (XO (XO (XO (XO (XO (XO (XO (XO (XO (XO
    (XO (XO (XO (XI (XI XH))))))))))))))))))))))))))) :: ((Npos (XO (XO (XO
    (XO (XO (XO (XO (XO (XO (XO (XO (XO (XO (XO (XO (XO (XO (XO (XO (XO (XO
    (XO (XO (XO (XO (XO (XO (XO (XO (XO (XO (XO (XO (XO (XO (XO (XI (XO (XO
    (XO (XO (XO (XO (XO (XO (XI (XO (XO (XO (XO (XO (XO (XO (XO (XI (XO (XO
    (XO (XO (XO (XO (XO (XO
    XH)))))))))))))))))))))))))))))))))))))))))))))))))))))))))))))))) :: ((Npos
    (XO (XO (XO (XO (XO (XO (XO (XO (XO (XO (XO (XO (XO (XO (XO (XO (XO (XO
    (XO (XO (XO (XO (XO (XO (XO (XO (XO (XO (XO (XO (XO (XO (XO (XO (XI (XO
    (XO (XO (XO (XO (XO (XI (XO (XO (XO (XO (XO (XO
    XH))))))))))))))))))))))))))))))))))))))))))))))))) :: ((Npos (XO (XO (XO
    (XO (XO (XO (XI (XO (XO (XO (XO (XO (XO (XI (XO (XO (XO (XO (XO (XO
    XH))))))))))))))))))))) :: ((Npos (XI (XO (XO (XO (XO (XO (XO (XO (XO (XI
    (XO (XO (XO (XO (XO (XO (XO (XO
    XH))))))))))))))))))) :: [])))))))) :: (((Npos (XO (XO (XO (XO (XO (XO
    (XO (XO (XO (XO (XO (XO (XO (XO (XO (XO (XO (XO (XO (XO (XO (XO (XO (XO
    (XO (XO (XO (XO (XO (XO (XO (XO (XO (XO (XO (XO (XI (XO (XO (XO (XO (XO
    (XO (XO (XI (XO (XO (XO (XO (XO (XO (XO (XI (XO (XO (XO (XO (XO (XO (XO
    XH))))))))))))))))))))))))))))))))))))))))))))))))))))))))))))) :: ((Npos
    (XO (XO (XO (XO (XI (XO (XO (XO (XO (XO (XO (XO (XI (XO (XO (XO (XO (XO
    (XO (XO XH))))))))))))))))))))) :: ((Npos (XO (XO (XO (XO (XO (XO (XO (XO
    (XO (XO (XO (XO (XO (XO (XO (XO (XO (XO (XO (XO (XO (XO (XO (XO (XO (XO
    (XO (XO (XO (XI (XI XH)))))))))))))))))))))))))))))))) :: ((Npos (XO (XO
    (XO (XO (XO (XO (XO (XO (XO (XO (XO (XO (XO (XO (XO (XO (XO (XO (XO (XO
    (XO (XO (XO (XO (XI (XI (XI XH)))))))))))))))))))))))))))) :: ((Npos (XO
    (XO (XO (XO (XO (XO (XO (XO (XO (XO (XO (XO (XO (XO (XO (XO (XO (XO (XO
    (XO (XO (XO (XO (XO (XO (XO (XO (XO (XO (XO (XO (XO (XO (XO (XO (XO (XO
    (XI (XO (XO (XO (XO (XO (XO (XO (XO (XI (XO (XO (XO (XO (XO (XO (XO (XO
    XH)))))))))))))))))))))))))))))))))))))))))))))))))))))))) :: ((Npos (XO
    (XO (XO (XO (XO (XO (XO (XO (XO (XO (XO (XO (XO (XO (XO (XO (XO (XO (XO
    (XO (XO (XO (XO (XO (XO (XO (XO (XO (XO (XO (XO (XO (XO (XO (XO (XI (XO
    (XO (XO (XO (XO (XO (XI (XO (XO (XO (XO (XO (XO (XI (XO (XO (XO (XO (XO
    (XO XH))))))))))))))))))))))))))))))))))))))))))))))))))))))))) :: ((Npos
    (XO (XO (XO (XO (XO (XO (XO (XI (XO (XO (XO (XO (XO (XO (XI (XO (XO (XO
    (XO (XO (XO XH)))))))))))))))))))))) :: ((Npos (XO (XI (XO (XO (XO (XO
    (XO (XO (XO (XO (XI (XO (XO (XO (XO (XO (XO (XO (XO
    XH)))))))))))))))))))) :: [])))))))) :: (((Npos (XO (XO (XO (XO (XO (XO
    (XO (XO (XO (XO (XO (XO (XO (XO (XO (XO (XO (XO (XO (XO (XO (XO (XO (XO
    (XO (XO (XO (XO (XO (XO (XO (XO (XO (XO (XO (XO (XO (XI (XO (XO (XO (XO
    (XO (XO (XO (XI (XO (XO (XO (XO (XO (XO (XO (XI (XO (XO (XO (XO (XO (XO
    (XO
    XH)))))))))))))))))))))))))))))))))))))))))))))))))))))))))))))) :: ((Npos
    (XO (XO (XO (XO (XO (XI (XO (XO (XO (XO (XO (XO (XO (XI (XO (XO (XO (XO
    (XO (XO (XO XH)))))))))))))))))))))) :: ((Npos (XO (XO (XO (XO (XO (XO
    (XO (XO (XO (XO (XO (XO (XO (XO (XO (XO (XO (XO (XO (XO (XO (XO (XO (XO
    (XO (XO (XO (XO (XO (XO (XI XH)))))))))))))))))))))))))))))))) :: ((Npos
    (XO (XO (XO (XO (XO (XO (XO (XO (XO (XO (XO (XO (XO (XO (XO (XO (XO (XO
    (XO (XO (XO (XO (XO (XO (XI (XI (XI (XI
    XH))))))))))))))))))))))))))))) :: ((Npos (XO (XO (XO (XO (XO (XO (XO (XO
    (XO (XO (XO (XO (XO (XO (XO (XO (XO (XO (XO (XO (XO (XO (XO (XO (XO (XO
    (XO (XO (XO (XO (XO (XO (XO (XO (XO (XO (XO (XO (XI (XO (XO (XO (XO (XO
    (XO (XO (XO XH)))))))))))))))))))))))))))))))))))))))))))))))) :: ((Npos
    (XO (XO (XO (XO (XO (XO (XO (XO (XO (XO (XO (XO (XO (XO (XO (XO (XO (XO
    (XO (XO (XO (XO (XO (XO (XO (XO (XO (XO (XO (XO (XO (XO (XO (XO (XO (XO
    (XI (XO (XO (XO (XO (XO (XO (XI (XO (XO (XO (XO (XO (XO (XI (XO (XO (XO
    (XO (XO (XO
    XH)))))))))))))))))))))))))))))))))))))))))))))))))))))))))) :: ((Npos
    (XO (XO (XO (XO (XO (XO (XO (XO (XO (XO (XO (XO (XO (XO (XO (XI (XO (XO
    (XO (XO (XO (XO XH))))))))))))))))))))))) :: ((Npos (XO (XO (XI (XO (XO
    (XO (XO (XO (XO (XO (XO (XI (XO (XO (XO (XO (XO (XO (XO (XO
    XH))))))))))))))))))))) :: [])))))))) :: (((Npos (XO (XO (XO (XO (XO (XO
    (XO (XO (XO (XO (XO (XO (XO (XO (XO (XO (XO (XO (XO (XO (XO (XO (XO (XO
    (XO (XO (XO (XO (XO (XO (XO (XO (XO (XO (XO (XO (XO (XO (XI (XO (XO (XO
    (XO (XO (XO (XO (XI (XO (XO (XO (XO (XO (XO (XO (XI (XO (XO (XO (XO (XO
    (XO (XO
    XH))))))))))))))))))))))))))))))))))))))))))))))))))))))))))))))) :: ((Npos
    (XO (XO (XO (XO (XO (XO (XI (XO (XO (XO (XO (XO (XO (XO (XI (XO (XO (XO
    (XO (XO (XO (XO XH))))))))))))))))))))))) :: ((Npos (XO (XO (XO (XO (XO
    (XO (XO (XO (XO (XO (XO (XO (XO (XO (XO (XO (XO (XO (XO (XO (XO (XO (XO
    (XO (XO (XO (XO (XO (XO (XO (XO
    XH)))))))))))))))))))))))))))))))) :: ((Npos (XO (XO (XO (XO (XO (XO (XO
    (XO (XO (XO (XO (XO (XO (XO (XO (XO (XO (XO (XO (XO (XO (XO (XO (XO (XI
    (XI (XI (XI (XI XH)))))))))))))))))))))))))))))) :: ((Npos (XO (XO (XO
    (XO (XO (XO (XO (XO (XO (XO (XO (XO (XO (XO (XO (XO (XO (XO (XO (XO (XO
    (XO (XO (XO (XO (XO (XO (XO (XO (XO (XO (XO (XO (XO (XO (XO (XO (XO (XO
    XH)))))))))))))))))))))))))))))))))))))))) :: ((Npos (XO (XO (XO (XO (XO
    (XO (XO (XO (XO (XO (XO (XO (XO (XO (XO (XO (XO (XO (XO (XO (XO (XO (XO
    (XO (XO (XO (XO (XO (XO (XO (XO (XO (XO (XO (XO (XO (XO (XI (XO (XO (XO
    (XO (XO (XO (XI (XO (XO (XO (XO (XO (XO (XI (XO (XO (XO (XO (XO (XO
    XH))))))))))))))))))))))))))))))))))))))))))))))))))))))))))) :: ((Npos
    (XO (XO (XO (XO (XO (XO (XO (XO (XO (XO (XO (XO (XO (XO (XO (XO (XO (XO
    (XO (XO (XO (XO (XO XH)))))))))))))))))))))))) :: ((Npos (XO (XO (XO (XI
    (XO (XO (XO (XO (XO (XO (XO (XO (XI (XO (XO (XO (XO (XO (XO (XO (XO
    XH)))))))))))))))))))))) :: [])))))))) :: (((Npos (XO (XO (XO (XO (XO (XO
    (XO (XO (XO (XO (XO (XO (XO (XO (XO (XO (XO (XO (XO (XO (XO (XO (XO (XO
    (XO (XO (XO (XO (XO (XO (XO (XO (XO (XO (XO (XO (XO (XO (XO (XI (XO (XO
    (XO (XO (XO (XO (XO (XI (XO (XO (XO (XO (XO (XO (XO (XI (XO (XO (XO (XO
    (XO (XO (XO
    XH)))))))))))))))))))))))))))))))))))))))))))))))))))))))))))))))) :: ((Npos
    (XO (XO (XO (XO (XO (XO (XO (XI (XO (XO (XO (XO (XO (XO (XO (XI (XO (XO
    (XO (XO (XO (XO (XO XH)))))))))))))))))))))))) :: (N0 :: ((Npos (XO (XO
    (XO (XO (XO (XO (XO (XO (XO (XO (XO (XO (XO (XO (XO (XO (XO (XO (XO (XO
    (XO (XO (XO (XO (XI (XI (XI (XI (XI (XI
    XH))))))))))))))))))))))))))))))) :: (N0 :: ((Npos (XO (XO (XO (XO (XO
    (XO (XO (XO (XO (XO (XO (XO (XO (XO (XO (XO (XO (XO (XO (XO (XO (XO (XO
    (XO (XO (XO (XO (XO (XO (XO (XO (XO (XO (XO (XO (XO (XO (XO (XI (XO (XO
    (XO (XO (XO (XO (XI (XO (XO (XO (XO (XO (XO (XI (XO (XO (XO (XO (XO (XO
    XH)))))))))))))))))))))))))))))))))))))))))))))))))))))))))))) :: (N0 :: ((Npos
    (XO (XO (XO (XO (XI (XO (XO (XO (XO (XO (XO (XO (XO (XI (XO (XO (XO (XO
    (XO (XO (XO (XO XH))))))))))))))))))))))) :: [])))))))) :: (((Npos (XO
    (XO (XO (XO (XO (XO (XO (XO (XO (XO (XO (XO (XO (XO (XO (XO (XO (XO (XO
    (XO (XO (XO (XO (XO (XO (XO (XO (XO (XO (XO (XO (XO (XO (XO (XO (XO (XO
    (XO (XO (XO (XI (XO (XO (XO (XO (XO (XO (XO (XI (XO (XO (XO (XO (XO (XO
    (XO XH))))))))))))))))))))))))))))))))))))))))))))))))))))))))) :: ((Npos
    (XI (XO (XO (XO (XO (XO (XO (XO (XI (XO (XO (XO (XO (XO (XO (XO (XI (XO
    (XO (XO (XO (XO (XO (XO XH))))))))))))))))))))))))) :: ((Npos (XO (XO (XO
    (XO (XO (XO (XO (XO (XO (XO (XO (XO (XO (XO (XO (XO (XO (XO (XO (XO (XO
    (XO (XO (XO (XO (XO (XO (XO (XO (XO (XO (XO (XO (XI (XI (XI (XI (XI (XI
    XH)))))))))))))))))))))))))))))))))))))))) :: (N0 :: ((Npos (XO (XO (XO
    (XO (XO (XO (XO (XO (XO (XO (XO (XO (XO (XO (XO (XO (XO (XO (XO (XO (XO
    (XO (XO (XO (XO (XO (XO (XO (XO (XO (XO (XO (XO (XO (XO (XO (XO (XO (XO
    (XO (XO (XI (XO (XO (XO (XO (XO (XO (XO (XO (XI (XO (XO (XO (XO (XO (XO
    (XO (XO
    XH)))))))))))))))))))))))))))))))))))))))))))))))))))))))))))) :: (N0 :: ((Npos
    (XO (XO (XO (XO (XI (XO (XO (XO (XO (XO (XO (XI (XO (XO (XO (XO (XO (XO
    (XI (XO (XO (XO (XO (XO (XO
    XH)))))))))))))))))))))))))) :: (N0 :: [])))))))) :: (((Npos (XO (XO (XO
    (XO (XO (XO (XO (XO (XO (XO (XO (XO (XO (XO (XO (XO (XO (XO (XO (XO (XO
    (XO (XO (XO (XO (XO (XO (XO (XO (XO (XO (XO (XO (XO (XO (XO (XO (XO (XO
    (XO (XO (XI (XO (XO (XO (XO (XO (XO (XO (XI (XO (XO (XO (XO (XO (XO (XO
    XH)))))))))))))))))))))))))))))))))))))))))))))))))))))))))) :: ((Npos
    (XO (XI (XO (XO (XO (XO (XO (XO (XO (XI (XO (XO (XO (XO (XO (XO (XO (XI
    (XO (XO (XO (XO (XO (XO (XO XH)))))))))))))))))))))))))) :: ((Npos (XO
    (XO (XO (XO (XO (XO (XO (XO (XO (XO (XO (XO (XO (XO (XO (XO (XO (XO (XO
    (XO (XO (XO (XO (XO (XO (XO (XO (XO (XO (XO (XO (XO (XO (XO (XI (XI (XI
    (XI (XI XH)))))))))))))))))))))))))))))))))))))))) :: ((Npos (XO (XO (XO
    (XO (XO (XO (XO (XO (XO (XO (XO (XO (XO (XO (XO (XO (XO (XO (XO (XO (XO
    (XO (XO (XO (XO (XO (XO (XO (XO (XO (XO (XO
    XH))))))))))))))))))))))))))))))))) :: ((Npos (XO (XO (XO (XO (XO (XO (XO
    (XO (XO (XO (XO (XO (XO (XO (XO (XO (XO (XO (XO (XO (XO (XO (XO (XO (XO
    (XO (XO (XO (XO (XO (XO (XO (XO (XO (XO (XO (XO (XO (XO (XO (XO (XO (XI
    (XO (XO (XO (XO (XO (XO (XO (XO (XI (XO (XO (XO (XO (XO (XO (XO (XO
    XH))))))))))))))))))))))))))))))))))))))))))))))))))))))))))))) :: ((Npos
    (XO (XO (XO (XO (XO (XO (XO (XO (XO (XO (XO (XO (XO (XO (XO (XO (XO (XO
    (XO (XO (XO (XO (XO (XO (XO (XO (XO (XO (XO (XO (XO (XO (XO (XO (XO (XO
    (XO (XO (XO (XO XH))))))))))))))))))))))))))))))))))))))))) :: ((Npos (XO
    (XO (XO (XO (XO (XI (XO (XO (XO (XO (XO (XO (XI (XO (XO (XO (XO (XO (XO
    (XI (XO (XO (XO (XO (XO (XO XH))))))))))))))))))))))))))) :: ((Npos (XO
    (XO (XO (XO (XO (XO (XO (XO (XO (XO (XO (XO (XO (XO (XO (XO (XO (XO (XO
    (XO (XO (XO (XO (XO XH))))))))))))))))))))))))) :: [])))))))) :: (((Npos
    (XO (XO (XO (XO (XO (XO (XO (XO (XO (XO (XO (XO (XO (XO (XO (XO (XO (XO
    (XO (XO (XO (XO (XO (XO (XO (XO (XO (XO (XO (XO (XO (XO (XO (XO (XO (XO
    (XO (XO (XO (XO (XO (XO (XI (XO (XO (XO (XO (XO (XO (XO (XI (XO (XO (XO
    (XO (XO (XO (XO
    XH))))))))))))))))))))))))))))))))))))))))))))))))))))))))))) :: ((Npos
    (XO (XO (XI (XO (XO (XO (XO (XO (XO (XO (XI (XO (XO (XO (XO (XO (XO (XO
    (XI (XO (XO (XO (XO (XO (XO (XO XH))))))))))))))))))))))))))) :: ((Npos
    (XO (XO (XO (XO (XO (XO (XO (XO (XO (XO (XO (XO (XO (XO (XO (XO (XO (XO
    (XO (XO (XO (XO (XO (XO (XO (XO (XO (XO (XO (XO (XO (XO (XO (XO (XO (XI
    (XI (XI (XI XH)))))))))))))))))))))))))))))))))))))))) :: ((Npos (XO (XO
    (XO (XO (XO (XO (XO (XO (XO (XO (XO (XO (XO (XO (XO (XO (XO (XO (XO (XO
    (XO (XO (XO (XO (XO (XO (XO (XO (XO (XO (XO (XO (XI
    XH)))))))))))))))))))))))))))))))))) :: ((Npos (XO (XO (XO (XO (XO (XO
    (XO (XO (XO (XO (XO (XO (XO (XO (XO (XO (XO (XO (XO (XO (XO (XO (XO (XO
    (XO (XO (XO (XO (XO (XO (XO (XO (XO (XO (XO (XO (XO (XO (XO (XO (XO (XO
    (XO (XI (XO (XO (XO (XO (XO (XO (XO (XO (XI (XO (XO (XO (XO (XO (XO (XO
    (XO
    XH)))))))))))))))))))))))))))))))))))))))))))))))))))))))))))))) :: ((Npos
    (XO (XO (XO (XO (XO (XO (XO (XO (XO (XO (XO (XO (XO (XO (XO (XO (XO (XO
    (XO (XO (XO (XO (XO (XO (XO (XO (XO (XO (XO (XO (XO (XO (XO (XO (XO (XO
    (XO (XO (XO (XO (XO (XI (XO (XO (XO (XO (XO (XO
    XH))))))))))))))))))))))))))))))))))))))))))))))))) :: ((Npos (XO (XO (XO
    (XO (XO (XO (XI (XO (XO (XO (XO (XO (XO (XI (XO (XO (XO (XO (XO (XO (XI
    (XO (XO (XO (XO (XO (XO XH)))))))))))))))))))))))))))) :: ((Npos (XO (XO
    (XO (XO (XO (XO (XO (XO (XO (XO (XO (XO (XO (XO (XO (XO (XI (XO (XO (XO
    (XO (XO (XO (XO (XO XH)))))))))))))))))))))))))) :: [])))))))) :: (((Npos
    (XO (XO (XO (XO (XO (XO (XO (XO (XO (XO (XO (XO (XO (XO (XO (XO (XO (XO
    (XO (XO (XO (XO (XO (XO (XO (XO (XO (XO (XO (XO (XO (XO (XO (XO (XO (XO
    (XO (XO (XO (XO (XO (XO (XO (XI (XO (XO (XO (XO (XO (XO (XO (XI (XO (XO
    (XO (XO (XO (XO (XO
    XH)))))))))))))))))))))))))))))))))))))))))))))))))))))))))))) :: ((Npos
    (XO (XO (XO (XI (XO (XO (XO (XO (XO (XO (XO (XI (XO (XO (XO (XO (XO (XO
    (XO (XI (XO (XO (XO (XO (XO (XO (XO
    XH)))))))))))))))))))))))))))) :: ((Npos (XO (XO (XO (XO (XO (XO (XO (XO
    (XO (XO (XO (XO (XO (XO (XO (XO (XO (XO (XO (XO (XO (XO (XO (XO (XO (XO
    (XO (XO (XO (XO (XO (XO (XO (XO (XO (XO (XI (XI (XI
    XH)))))))))))))))))))))))))))))))))))))))) :: ((Npos (XO (XO (XO (XO (XO
    (XO (XO (XO (XO (XO (XO (XO (XO (XO (XO (XO (XO (XO (XO (XO (XO (XO (XO
    (XO (XO (XO (XO (XO (XO (XO (XO (XO (XI (XI
    XH))))))))))))))))))))))))))))))))))) :: ((Npos (XO (XO (XO (XO (XO (XO
    (XO (XO (XO (XO (XO (XO (XO (XO (XO (XO (XO (XO (XO (XO (XO (XO (XO (XO
    (XO (XO (XO (XO (XO (XO (XO (XO (XO (XO (XO (XO (XO (XO (XO (XO (XO (XO
    (XO (XO (XI (XO (XO (XO (XO (XO (XO (XO (XO (XI (XO (XO (XO (XO (XO (XO
    (XO (XO
    XH))))))))))))))))))))))))))))))))))))))))))))))))))))))))))))))) :: ((Npos
    (XO (XO (XO (XO (XO (XO (XO (XO (XO (XO (XO (XO (XO (XO (XO (XO (XO (XO
    (XO (XO (XO (XO (XO (XO (XO (XO (XO (XO (XO (XO (XO (XO (XO (XO (XO (XO
    (XO (XO (XO (XO (XO (XO (XI (XO (XO (XO (XO (XO (XO (XI (XO (XO (XO (XO
    (XO (XO
    XH))))))))))))))))))))))))))))))))))))))))))))))))))))))))) :: ((Npos (XO
    (XO (XO (XO (XO (XO (XO (XI (XO (XO (XO (XO (XO (XO (XI (XO (XO (XO (XO
    (XO (XO (XI (XO (XO (XO (XO (XO (XO
    XH))))))))))))))))))))))))))))) :: ((Npos (XO (XO (XO (XO (XO (XO (XO (XO
    (XI (XO (XO (XO (XO (XO (XO (XO (XO (XI (XO (XO (XO (XO (XO (XO (XO (XO
    XH))))))))))))))))))))))))))) :: [])))))))) :: (((Npos (XO (XO (XO (XO
    (XO (XO (XO (XO (XO (XO (XO (XO (XO (XO (XO (XO (XO (XO (XO (XO (XO (XO
    (XO (XO (XO (XO (XO (XO (XO (XO (XO (XO (XO (XO (XO (XO (XO (XO (XO (XO
    (XO (XO (XO (XO (XI (XO (XO (XO (XO (XO (XO (XO (XI (XO (XO (XO (XO (XO
    (XO (XO
    XH))))))))))))))))))))))))))))))))))))))))))))))))))))))))))))) :: ((Npos
    (XO (XO (XO (XO (XI (XO (XO (XO (XO (XO (XO (XO (XI (XO (XO (XO (XO (XO
    (XO (XO (XI (XO (XO (XO (XO (XO (XO (XO
    XH))))))))))))))))))))))))))))) :: ((Npos (XO (XO (XO (XO (XO (XO (XO (XO
    (XO (XO (XO (XO (XO (XO (XO (XO (XO (XO (XO (XO (XO (XO (XO (XO (XO (XO
    (XO (XO (XO (XO (XO (XO (XO (XO (XO (XO (XO (XI (XI
    XH)))))))))))))))))))))))))))))))))))))))) :: ((Npos (XO (XO (XO (XO (XO
    (XO (XO (XO (XO (XO (XO (XO (XO (XO (XO (XO (XO (XO (XO (XO (XO (XO (XO
    (XO (XO (XO (XO (XO (XO (XO (XO (XO (XI (XI (XI
    XH)))))))))))))))))))))))))))))))))))) :: ((Npos (XO (XO (XO (XO (XO (XO
    (XO (XO (XO (XO (XO (XO (XO (XO (XO (XO (XO (XO (XO (XO (XO (XO (XO (XO
    (XO (XO (XO (XO (XO (XO (XO (XO (XO (XO (XO (XO (XO (XO (XO (XO (XO (XO
    (XO (XO (XO (XI (XO (XO (XO (XO (XO (XO (XO (XO (XI (XO (XO (XO (XO (XO
    (XO (XO (XO
    XH)))))))))))))))))))))))))))))))))))))))))))))))))))))))))))))))) :: ((Npos
    (XO (XO (XO (XO (XO (XO (XO (XO (XO (XO (XO (XO (XO (XO (XO (XO (XO (XO
    (XO (XO (XO (XO (XO (XO (XO (XO (XO (XO (XO (XO (XO (XO (XO (XO (XO (XO
    (XO (XO (XO (XO (XO (XO (XO (XI (XO (XO (XO (XO (XO (XO (XI (XO (XO (XO
    (XO (XO (XO
    XH)))))))))))))))))))))))))))))))))))))))))))))))))))))))))) :: ((Npos
    (XO (XO (XO (XO (XO (XO (XO (XO (XO (XO (XO (XO (XO (XO (XO (XI (XO (XO
    (XO (XO (XO (XO (XI (XO (XO (XO (XO (XO (XO
    XH)))))))))))))))))))))))))))))) :: ((Npos (XI (XO (XO (XO (XO (XO (XO
    (XO (XO (XI (XO (XO (XO (XO (XO (XO (XO (XO (XI (XO (XO (XO (XO (XO (XO
    (XO (XO XH)))))))))))))))))))))))))))) :: [])))))))) :: (((Npos (XO (XO
    (XO (XO (XO (XO (XO (XO (XO (XO (XO (XO (XO (XO (XO (XO (XO (XO (XO (XO
    (XO (XO (XO (XO (XO (XO (XO (XO (XO (XO (XO (XO (XO (XO (XO (XO (XO (XO
    (XO (XO (XO (XO (XO (XO (XO (XI (XO (XO (XO (XO (XO (XO (XO (XI (XO (XO
    (XO (XO (XO (XO (XO
    XH)))))))))))))))))))))))))))))))))))))))))))))))))))))))))))))) :: ((Npos
    (XO (XO (XO (XO (XO (XI (XO (XO (XO (XO (XO (XO (XO (XI (XO (XO (XO (XO
    (XO (XO (XO (XI (XO (XO (XO (XO (XO (XO (XO
    XH)))))))))))))))))))))))))))))) :: ((Npos (XO (XO (XO (XO (XO (XO (XO
    (XO (XO (XO (XO (XO (XO (XO (XO (XO (XO (XO (XO (XO (XO (XO (XO (XO (XO
    (XO (XO (XO (XO (XO (XO (XO (XO (XO (XO (XO (XO (XO (XI
    XH)))))))))))))))))))))))))))))))))))))))) :: ((Npos (XO (XO (XO (XO (XO
    (XO (XO (XO (XO (XO (XO (XO (XO (XO (XO (XO (XO (XO (XO (XO (XO (XO (XO
    (XO (XO (XO (XO (XO (XO (XO (XO (XO (XI (XI (XI (XI
    XH))))))))))))))))))))))))))))))))))))) :: ((Npos (XO (XO (XO (XO (XO (XO
    (XO (XO (XO (XO (XO (XO (XO (XO (XO (XO (XO (XO (XO (XO (XO (XO (XO (XO
    (XO (XO (XO (XO (XO (XO (XO (XO (XO (XO (XO (XO (XO (XO (XO (XO (XO (XO
    (XO (XO (XO (XO (XI (XO (XO (XO (XO (XO (XO (XO (XO
    XH)))))))))))))))))))))))))))))))))))))))))))))))))))))))) :: ((Npos (XO
    (XO (XO (XO (XO (XO (XO (XO (XO (XO (XO (XO (XO (XO (XO (XO (XO (XO (XO
    (XO (XO (XO (XO (XO (XO (XO (XO (XO (XO (XO (XO (XO (XO (XO (XO (XO (XO
    (XO (XO (XO (XO (XO (XO (XO (XI (XO (XO (XO (XO (XO (XO (XI (XO (XO (XO
    (XO (XO (XO
    XH))))))))))))))))))))))))))))))))))))))))))))))))))))))))))) :: ((Npos
    (XO (XO (XO (XO (XO (XO (XO (XO (XO (XO (XO (XO (XO (XO (XO (XO (XO (XO
    (XO (XO (XO (XO (XO (XI (XO (XO (XO (XO (XO (XO
    XH))))))))))))))))))))))))))))))) :: ((Npos (XO (XI (XO (XO (XO (XO (XO
    (XO (XO (XO (XI (XO (XO (XO (XO (XO (XO (XO (XO (XI (XO (XO (XO (XO (XO
    (XO (XO (XO XH))))))))))))))))))))))))))))) :: [])))))))) :: (((Npos (XO
    (XO (XO (XO (XO (XO (XO (XO (XO (XO (XO (XO (XO (XO (XO (XO (XO (XO (XO
    (XO (XO (XO (XO (XO (XO (XO (XO (XO (XO (XO (XO (XO (XO (XO (XO (XO (XO
    (XO (XO (XO (XO (XO (XO (XO (XO (XO (XI (XO (XO (XO (XO (XO (XO (XO (XI
    (XO (XO (XO (XO (XO (XO (XO
    XH))))))))))))))))))))))))))))))))))))))))))))))))))))))))))))))) :: ((Npos
    (XO (XO (XO (XO (XO (XO (XI (XO (XO (XO (XO (XO (XO (XO (XI (XO (XO (XO
    (XO (XO (XO (XO (XI (XO (XO (XO (XO (XO (XO (XO
    XH))))))))))))))))))))))))))))))) :: ((Npos (XO (XO (XO (XO (XO (XO (XO
    (XO (XO (XO (XO (XO (XO (XO (XO (XO (XO (XO (XO (XO (XO (XO (XO (XO (XO
    (XO (XO (XO (XO (XO (XO (XO (XO (XO (XO (XO (XO (XO (XO
    XH)))))))))))))))))))))))))))))))))))))))) :: ((Npos (XO (XO (XO (XO (XO
    (XO (XO (XO (XO (XO (XO (XO (XO (XO (XO (XO (XO (XO (XO (XO (XO (XO (XO
    (XO (XO (XO (XO (XO (XO (XO (XO (XO (XI (XI (XI (XI (XI
    XH)))))))))))))))))))))))))))))))))))))) :: ((Npos (XO (XO (XO (XO (XO
    (XO (XO (XO (XO (XO (XO (XO (XO (XO (XO (XO (XO (XO (XO (XO (XO (XO (XO
    (XO (XO (XO (XO (XO (XO (XO (XO (XO (XO (XO (XO (XO (XO (XO (XO (XO (XO
    (XO (XO (XO (XO (XO (XO
    XH)))))))))))))))))))))))))))))))))))))))))))))))) :: ((Npos (XO (XO (XO
    (XO (XO (XO (XO (XO (XO (XO (XO (XO (XO (XO (XO (XO (XO (XO (XO (XO (XO
    (XO (XO (XO (XO (XO (XO (XO (XO (XO (XO (XO (XO (XO (XO (XO (XO (XO (XO
    (XO (XO (XO (XO (XO (XO (XI (XO (XO (XO (XO (XO (XO (XI (XO (XO (XO (XO
    (XO (XO
    XH)))))))))))))))))))))))))))))))))))))))))))))))))))))))))))) :: ((Npos
    (XO (XO (XO (XO (XO (XO (XO (XO (XO (XO (XO (XO (XO (XO (XO (XO (XO (XO
    (XO (XO (XO (XO (XO (XO (XO (XO (XO (XO (XO (XO (XO
    XH)))))))))))))))))))))))))))))))) :: ((Npos (XO (XO (XI (XO (XO (XO (XO
    (XO (XO (XO (XO (XI (XO (XO (XO (XO (XO (XO (XO (XO (XI (XO (XO (XO (XO
    (XO (XO (XO (XO XH)))))))))))))))))))))))))))))) :: [])))))))) :: (((Npos
    (XO (XO (XO (XO (XO (XO (XO (XO (XO (XO (XO (XO (XO (XO (XO (XO (XO (XO
    (XO (XO (XO (XO (XO (XO (XO (XO (XO (XO (XO (XO (XO (XO (XO (XO (XO (XO
    (XO (XO (XO (XO (XO (XO (XO (XO (XO (XO (XO (XI (XO (XO (XO (XO (XO (XO
    (XO (XI (XO (XO (XO (XO (XO (XO (XO
    XH)))))))))))))))))))))))))))))))))))))))))))))))))))))))))))))))) :: ((Npos
    (XO (XO (XO (XO (XO (XO (XO (XI (XO (XO (XO (XO (XO (XO (XO (XI (XO (XO
    (XO (XO (XO (XO (XO (XI (XO (XO (XO (XO (XO (XO (XO
    XH)))))))))))))))))))))))))))))))) :: (N0 :: ((Npos (XO (XO (XO (XO (XO
    (XO (XO (XO (XO (XO (XO (XO (XO (XO (XO (XO (XO (XO (XO (XO (XO (XO (XO
    (XO (XO (XO (XO (XO (XO (XO (XO (XO (XI (XI (XI (XI (XI (XI
    XH))))))))))))))))))))))))))))))))))))))) :: (N0 :: ((Npos (XO (XO (XO
    (XO (XO (XO (XO (XO (XO (XO (XO (XO (XO (XO (XO (XO (XO (XO (XO (XO (XO
    (XO (XO (XO (XO (XO (XO (XO (XO (XO (XO (XO (XO (XO (XO (XO (XO (XO (XO
    (XO (XO (XO (XO (XO (XO (XO (XI (XO (XO (XO (XO (XO (XO (XI (XO (XO (XO
    (XO (XO (XO
    XH))))))))))))))))))))))))))))))))))))))))))))))))))))))))))))) :: (N0 :: ((Npos
    (XO (XO (XO (XI (XO (XO (XO (XO (XO (XO (XO (XO (XI (XO (XO (XO (XO (XO
    (XO (XO (XO (XI (XO (XO (XO (XO (XO (XO (XO (XO
    XH))))))))))))))))))))))))))))))) :: [])))))))) :: (((Npos (XO (XO (XO
    (XO (XO (XO (XO (XO (XO (XO (XO (XO (XO (XO (XO (XO (XO (XO (XO (XO (XO
    (XO (XO (XO (XO (XO (XO (XO (XO (XO (XO (XO (XO (XO (XO (XO (XO (XO (XO
    (XO (XO (XO (XO (XO (XO (XO (XO (XO (XI (XO (XO (XO (XO (XO (XO (XO
    XH))))))))))))))))))))))))))))))))))))))))))))))))))))))))) :: ((Npos (XI
    (XO (XO (XO (XO (XO (XO (XO (XI (XO (XO (XO (XO (XO (XO (XO (XI (XO (XO
    (XO (XO (XO (XO (XO (XI (XO (XO (XO (XO (XO (XO (XO
    XH))))))))))))))))))))))))))))))))) :: ((Npos (XO (XO (XO (XO (XO (XO (XO
    (XO (XO (XO (XO (XO (XO (XO (XO (XO (XO (XO (XO (XO (XO (XO (XO (XO (XO
    (XO (XO (XO (XO (XO (XO (XO (XO (XO (XO (XO (XO (XO (XO (XO (XO (XI (XI
    (XI (XI (XI (XI
    XH)))))))))))))))))))))))))))))))))))))))))))))))) :: (N0 :: ((Npos (XO
    (XO (XO (XO (XO (XO (XO (XO (XO (XO (XO (XO (XO (XO (XO (XO (XO (XO (XO
    (XO (XO (XO (XO (XO (XO (XO (XO (XO (XO (XO (XO (XO (XO (XO (XO (XO (XO
    (XO (XO (XO (XO (XO (XO (XO (XO (XO (XO (XO (XO (XI (XO (XO (XO (XO (XO
    (XO (XO (XO
    XH))))))))))))))))))))))))))))))))))))))))))))))))))))))))))) :: (N0 :: ((Npos
    (XO (XO (XO (XO (XO (XI (XO (XO (XO (XO (XO (XO (XI (XO (XO (XO (XO (XO
    (XO (XI (XO (XO (XO (XO (XO (XO (XI (XO (XO (XO (XO (XO (XO
    XH)))))))))))))))))))))))))))))))))) :: (N0 :: [])))))))) :: (((Npos (XO
    (XO (XO (XO (XO (XO (XO (XO (XO (XO (XO (XO (XO (XO (XO (XO (XO (XO (XO
    (XO (XO (XO (XO (XO (XO (XO (XO (XO (XO (XO (XO (XO (XO (XO (XO (XO (XO
    (XO (XO (XO (XO (XO (XO (XO (XO (XO (XO (XO (XO (XI (XO (XO (XO (XO (XO
    (XO (XO
    XH)))))))))))))))))))))))))))))))))))))))))))))))))))))))))) :: ((Npos
    (XO (XI (XO (XO (XO (XO (XO (XO (XO (XI (XO (XO (XO (XO (XO (XO (XO (XI
    (XO (XO (XO (XO (XO (XO (XO (XI (XO (XO (XO (XO (XO (XO (XO
    XH)))))))))))))))))))))))))))))))))) :: ((Npos (XO (XO (XO (XO (XO (XO
    (XO (XO (XO (XO (XO (XO (XO (XO (XO (XO (XO (XO (XO (XO (XO (XO (XO (XO
    (XO (XO (XO (XO (XO (XO (XO (XO (XO (XO (XO (XO (XO (XO (XO (XO (XO (XO
    (XI (XI (XI (XI (XI
    XH)))))))))))))))))))))))))))))))))))))))))))))))) :: ((Npos (XO (XO (XO
    (XO (XO (XO (XO (XO (XO (XO (XO (XO (XO (XO (XO (XO (XO (XO (XO (XO (XO
    (XO (XO (XO (XO (XO (XO (XO (XO (XO (XO (XO (XO (XO (XO (XO (XO (XO (XO
    (XO XH))))))))))))))))))))))))))))))))))))))))) :: ((Npos (XO (XO (XO (XO
    (XO (XO (XO (XO (XO (XO (XO (XO (XO (XO (XO (XO (XO (XO (XO (XO (XO (XO
    (XO (XO (XO (XO (XO (XO (XO (XO (XO (XO (XO (XO (XO (XO (XO (XO (XO (XO
    (XO (XO (XO (XO (XO (XO (XO (XO (XO (XO (XI (XO (XO (XO (XO (XO (XO (XO
    (XO
    XH)))))))))))))))))))))))))))))))))))))))))))))))))))))))))))) :: ((Npos
    (XO (XO (XO (XO (XO (XO (XO (XO (XO (XO (XO (XO (XO (XO (XO (XO (XO (XO
    (XO (XO (XO (XO (XO (XO (XO (XO (XO (XO (XO (XO (XO (XO (XO (XO (XO (XO
    (XO (XO (XO (XO (XO (XO (XO (XO (XO (XO (XO (XO
    XH))))))))))))))))))))))))))))))))))))))))))))))))) :: ((Npos (XO (XO (XO
    (XO (XO (XO (XI (XO (XO (XO (XO (XO (XO (XI (XO (XO (XO (XO (XO (XO (XI
    (XO (XO (XO (XO (XO (XO (XI (XO (XO (XO (XO (XO (XO
    XH))))))))))))))))))))))))))))))))))) :: ((Npos (XO (XO (XO (XO (XO (XO
    (XO (XO (XO (XO (XO (XO (XO (XO (XO (XO (XO (XO (XO (XO (XO (XO (XO (XO
    (XO (XO (XO (XO (XO (XO (XO (XO
    XH))))))))))))))))))))))))))))))))) :: [])))))))) :: (((Npos (XO (XO (XO
    (XO (XO (XO (XO (XO (XO (XO (XO (XO (XO (XO (XO (XO (XO (XO (XO (XO (XO
    (XO (XO (XO (XO (XO (XO (XO (XO (XO (XO (XO (XO (XO (XO (XO (XO (XO (XO
    (XO (XO (XO (XO (XO (XO (XO (XO (XO (XO (XO (XI (XO (XO (XO (XO (XO (XO
    (XO
    XH))))))))))))))))))))))))))))))))))))))))))))))))))))))))))) :: ((Npos
    (XO (XO (XI (XO (XO (XO (XO (XO (XO (XO (XI (XO (XO (XO (XO (XO (XO (XO
    (XI (XO (XO (XO (XO (XO (XO (XO (XI (XO (XO (XO (XO (XO (XO (XO
    XH))))))))))))))))))))))))))))))))))) :: ((Npos (XO (XO (XO (XO (XO (XO
    (XO (XO (XO (XO (XO (XO (XO (XO (XO (XO (XO (XO (XO (XO (XO (XO (XO (XO
    (XO (XO (XO (XO (XO (XO (XO (XO (XO (XO (XO (XO (XO (XO (XO (XO (XO (XO
    (XO (XI (XI (XI (XI
    XH)))))))))))))))))))))))))))))))))))))))))))))))) :: ((Npos (XO (XO (XO
    (XO (XO (XO (XO (XO (XO (XO (XO (XO (XO (XO (XO (XO (XO (XO (XO (XO (XO
    (XO (XO (XO (XO (XO (XO (XO (XO (XO (XO (XO (XO (XO (XO (XO (XO (XO (XO
    (XO (XI XH)))))))))))))))))))))))))))))))))))))))))) :: ((Npos (XO (XO
    (XO (XO (XO (XO (XO (XO (XO (XO (XO (XO (XO (XO (XO (XO (XO (XO (XO (XO
    (XO (XO (XO (XO (XO (XO (XO (XO (XO (XO (XO (XO (XO (XO (XO (XO (XO (XO
    (XO (XO (XO (XO (XO (XO (XO (XO (XO (XO (XO (XO (XO (XI (XO (XO (XO (XO
    (XO (XO (XO (XO
    XH))))))))))))))))))))))))))))))))))))))))))))))))))))))))))))) :: ((Npos
    (XO (XO (XO (XO (XO (XO (XO (XO (XO (XO (XO (XO (XO (XO (XO (XO (XO (XO
    (XO (XO (XO (XO (XO (XO (XO (XO (XO (XO (XO (XO (XO (XO (XO (XO (XO (XO
    (XO (XO (XO (XO (XO (XO (XO (XO (XO (XO (XO (XO (XO (XI (XO (XO (XO (XO
    (XO (XO
    XH))))))))))))))))))))))))))))))))))))))))))))))))))))))))) :: ((Npos (XO
    (XO (XO (XO (XO (XO (XO (XI (XO (XO (XO (XO (XO (XO (XI (XO (XO (XO (XO
    (XO (XO (XI (XO (XO (XO (XO (XO (XO (XI (XO (XO (XO (XO (XO (XO
    XH)))))))))))))))))))))))))))))))))))) :: ((Npos (XO (XO (XO (XO (XO (XO
    (XO (XO (XO (XO (XO (XO (XO (XO (XO (XO (XO (XO (XO (XO (XO (XO (XO (XO
    (XI (XO (XO (XO (XO (XO (XO (XO (XO
    XH)))))))))))))))))))))))))))))))))) :: [])))))))) :: (((Npos (XO (XO (XO
    (XO (XO (XO (XO (XO (XO (XO (XO (XO (XO (XO (XO (XO (XO (XO (XO (XO (XO
    (XO (XO (XO (XO (XO (XO (XO (XO (XO (XO (XO (XO (XO (XO (XO (XO (XO (XO
    (XO (XO (XO (XO (XO (XO (XO (XO (XO (XO (XO (XO (XI (XO (XO (XO (XO (XO
    (XO (XO
    XH)))))))))))))))))))))))))))))))))))))))))))))))))))))))))))) :: ((Npos
    (XO (XO (XO (XI (XO (XO (XO (XO (XO (XO (XO (XI (XO (XO (XO (XO (XO (XO
    (XO (XI (XO (XO (XO (XO (XO (XO (XO (XI (XO (XO (XO (XO (XO (XO (XO
    XH)))))))))))))))))))))))))))))))))))) :: ((Npos (XO (XO (XO (XO (XO (XO
    (XO (XO (XO (XO (XO (XO (XO (XO (XO (XO (XO (XO (XO (XO (XO (XO (XO (XO
    (XO (XO (XO (XO (XO (XO (XO (XO (XO (XO (XO (XO (XO (XO (XO (XO (XO (XO
    (XO (XO (XI (XI (XI
    XH)))))))))))))))))))))))))))))))))))))))))))))))) :: ((Npos (XO (XO (XO
    (XO (XO (XO (XO (XO (XO (XO (XO (XO (XO (XO (XO (XO (XO (XO (XO (XO (XO
    (XO (XO (XO (XO (XO (XO (XO (XO (XO (XO (XO (XO (XO (XO (XO (XO (XO (XO
    (XO (XI (XI XH))))))))))))))))))))))))))))))))))))))))))) :: ((Npos (XO
    (XO (XO (XO (XO (XO (XO (XO (XO (XO (XO (XO (XO (XO (XO (XO (XO (XO (XO
    (XO (XO (XO (XO (XO (XO (XO (XO (XO (XO (XO (XO (XO (XO (XO (XO (XO (XO
    (XO (XO (XO (XO (XO (XO (XO (XO (XO (XO (XO (XO (XO (XO (XO (XI (XO (XO
    (XO (XO (XO (XO (XO (XO
    XH)))))))))))))))))))))))))))))))))))))))))))))))))))))))))))))) :: ((Npos
    (XO (XO (XO (XO (XO (XO (XO (XO (XO (XO (XO (XO (XO (XO (XO (XO (XO (XO
    (XO (XO (XO (XO (XO (XO (XO (XO (XO (XO (XO (XO (XO (XO (XO (XO (XO (XO
    (XO (XO (XO (XO (XO (XO (XO (XO (XO (XO (XO (XO (XO (XO (XI (XO (XO (XO
    (XO (XO (XO
    XH)))))))))))))))))))))))))))))))))))))))))))))))))))))))))) :: ((Npos
    (XO (XO (XO (XO (XO (XO (XO (XO (XO (XO (XO (XO (XO (XO (XO (XI (XO (XO
    (XO (XO (XO (XO (XI (XO (XO (XO (XO (XO (XO (XI (XO (XO (XO (XO (XO (XO
    XH))))))))))))))))))))))))))))))))))))) :: ((Npos (XO (XO (XO (XO (XO (XO
    (XO (XO (XO (XO (XO (XO (XO (XO (XO (XO (XI (XO (XO (XO (XO (XO (XO (XO
    (XO (XI (XO (XO (XO (XO (XO (XO (XO (XO
    XH))))))))))))))))))))))))))))))))))) :: [])))))))) :: (((Npos (XO (XO
    (XO (XO (XO (XO (XO (XO (XO (XO (XO (XO (XO (XO (XO (XO (XO (XO (XO (XO
    (XO (XO (XO (XO (XO (XO (XO (XO (XO (XO (XO (XO (XO (XO (XO (XO (XO (XO
    (XO (XO (XO (XO (XO (XO (XO (XO (XO (XO (XO (XO (XO (XO (XI (XO (XO (XO
    (XO (XO (XO (XO
    XH))))))))))))))))))))))))))))))))))))))))))))))))))))))))))))) :: ((Npos
    (XO (XO (XO (XO (XI (XO (XO (XO (XO (XO (XO (XO (XI (XO (XO (XO (XO (XO
    (XO (XO (XI (XO (XO (XO (XO (XO (XO (XO (XI (XO (XO (XO (XO (XO (XO (XO
    XH))))))))))))))))))))))))))))))))))))) :: ((Npos (XO (XO (XO (XO (XO (XO
    (XO (XO (XO (XO (XO (XO (XO (XO (XO (XO (XO (XO (XO (XO (XO (XO (XO (XO
    (XO (XO (XO (XO (XO (XO (XO (XO (XO (XO (XO (XO (XO (XO (XO (XO (XO (XO
    (XO (XO (XO (XI (XI
    XH)))))))))))))))))))))))))))))))))))))))))))))))) :: ((Npos (XO (XO (XO
    (XO (XO (XO (XO (XO (XO (XO (XO (XO (XO (XO (XO (XO (XO (XO (XO (XO (XO
    (XO (XO (XO (XO (XO (XO (XO (XO (XO (XO (XO (XO (XO (XO (XO (XO (XO (XO
    (XO (XI (XI (XI XH)))))))))))))))))))))))))))))))))))))))))))) :: ((Npos
    (XO (XO (XO (XO (XO (XO (XO (XO (XO (XO (XO (XO (XO (XO (XO (XO (XO (XO
    (XO (XO (XO (XO (XO (XO (XO (XO (XO (XO (XO (XO (XO (XO (XO (XO (XO (XO
    (XO (XO (XO (XO (XO (XO (XO (XO (XO (XO (XO (XO (XO (XO (XO (XO (XO (XI
    (XO (XO (XO (XO (XO (XO (XO (XO
    XH))))))))))))))))))))))))))))))))))))))))))))))))))))))))))))))) :: ((Npos
    (XO (XO (XO (XO (XO (XO (XO (XO (XO (XO (XO (XO (XO (XO (XO (XO (XO (XO
    (XO (XO (XO (XO (XO (XO (XO (XO (XO (XO (XO (XO (XO (XO (XO (XO (XO (XO
    (XO (XO (XO (XO (XO (XO (XO (XO (XO (XO (XO (XO (XO (XO (XO (XI (XO (XO
    (XO (XO (XO (XO
    XH))))))))))))))))))))))))))))))))))))))))))))))))))))))))))) :: ((Npos
    (XO (XO (XO (XO (XO (XO (XO (XO (XO (XO (XO (XO (XO (XO (XO (XO (XO (XO
    (XO (XO (XO (XO (XO (XI (XO (XO (XO (XO (XO (XO (XI (XO (XO (XO (XO (XO
    (XO XH)))))))))))))))))))))))))))))))))))))) :: ((Npos (XO (XO (XO (XO
    (XO (XO (XO (XO (XI (XO (XO (XO (XO (XO (XO (XO (XO (XI (XO (XO (XO (XO
    (XO (XO (XO (XO (XI (XO (XO (XO (XO (XO (XO (XO (XO
    XH)))))))))))))))))))))))))))))))))))) :: [])))))))) :: (((Npos (XO (XO
    (XO (XO (XO (XO (XO (XO (XO (XO (XO (XO (XO (XO (XO (XO (XO (XO (XO (XO
    (XO (XO (XO (XO (XO (XO (XO (XO (XO (XO (XO (XO (XO (XO (XO (XO (XO (XO
    (XO (XO (XO (XO (XO (XO (XO (XO (XO (XO (XO (XO (XO (XO (XO (XI (XO (XO
    (XO (XO (XO (XO (XO
    XH)))))))))))))))))))))))))))))))))))))))))))))))))))))))))))))) :: ((Npos
    (XO (XO (XO (XO (XO (XI (XO (XO (XO (XO (XO (XO (XO (XI (XO (XO (XO (XO
    (XO (XO (XO (XI (XO (XO (XO (XO (XO (XO (XO (XI (XO (XO (XO (XO (XO (XO
    (XO XH)))))))))))))))))))))))))))))))))))))) :: ((Npos (XO (XO (XO (XO
    (XO (XO (XO (XO (XO (XO (XO (XO (XO (XO (XO (XO (XO (XO (XO (XO (XO (XO
    (XO (XO (XO (XO (XO (XO (XO (XO (XO (XO (XO (XO (XO (XO (XO (XO (XO (XO
    (XO (XO (XO (XO (XO (XO (XI
    XH)))))))))))))))))))))))))))))))))))))))))))))))) :: ((Npos (XO (XO (XO
    (XO (XO (XO (XO (XO (XO (XO (XO (XO (XO (XO (XO (XO (XO (XO (XO (XO (XO
    (XO (XO (XO (XO (XO (XO (XO (XO (XO (XO (XO (XO (XO (XO (XO (XO (XO (XO
    (XO (XI (XI (XI (XI
    XH))))))))))))))))))))))))))))))))))))))))))))) :: ((Npos (XO (XO (XO (XO
    (XO (XO (XO (XO (XO (XO (XO (XO (XO (XO (XO (XO (XO (XO (XO (XO (XO (XO
    (XO (XO (XO (XO (XO (XO (XO (XO (XO (XO (XO (XO (XO (XO (XO (XO (XO (XO
    (XO (XO (XO (XO (XO (XO (XO (XO (XO (XO (XO (XO (XO (XO (XI (XO (XO (XO
    (XO (XO (XO (XO (XO
    XH)))))))))))))))))))))))))))))))))))))))))))))))))))))))))))))))) :: ((Npos
    (XO (XO (XO (XO (XO (XO (XO (XO (XO (XO (XO (XO (XO (XO (XO (XO (XO (XO
    (XO (XO (XO (XO (XO (XO (XO (XO (XO (XO (XO (XO (XO (XO (XO (XO (XO (XO
    (XO (XO (XO (XO (XO (XO (XO (XO (XO (XO (XO (XO (XO (XO (XO (XO (XI (XO
    (XO (XO (XO (XO (XO
    XH)))))))))))))))))))))))))))))))))))))))))))))))))))))))))))) :: ((Npos
    (XO (XO (XO (XO (XO (XO (XO (XO (XO (XO (XO (XO (XO (XO (XO (XO (XO (XO
    (XO (XO (XO (XO (XO (XO (XO (XO (XO (XO (XO (XO (XO (XI (XO (XO (XO (XO
    (XO (XO XH))))))))))))))))))))))))))))))))))))))) :: ((Npos (XI (XO (XO
    (XO (XO (XO (XO (XO (XO (XI (XO (XO (XO (XO (XO (XO (XO (XO (XI (XO (XO
    (XO (XO (XO (XO (XO (XO (XI (XO (XO (XO (XO (XO (XO (XO (XO
    XH))))))))))))))))))))))))))))))))))))) :: [])))))))) :: (((Npos (XO (XO
    (XO (XO (XO (XO (XO (XO (XO (XO (XO (XO (XO (XO (XO (XO (XO (XO (XO (XO
    (XO (XO (XO (XO (XO (XO (XO (XO (XO (XO (XO (XO (XO (XO (XO (XO (XO (XO
    (XO (XO (XO (XO (XO (XO (XO (XO (XO (XO (XO (XO (XO (XO (XO (XO (XI (XO
    (XO (XO (XO (XO (XO (XO
    XH))))))))))))))))))))))))))))))))))))))))))))))))))))))))))))))) :: ((Npos
    (XO (XO (XO (XO (XO (XO (XI (XO (XO (XO (XO (XO (XO (XO (XI (XO (XO (XO
    (XO (XO (XO (XO (XI (XO (XO (XO (XO (XO (XO (XO (XI (XO (XO (XO (XO (XO
    (XO (XO XH))))))))))))))))))))))))))))))))))))))) :: ((Npos (XO (XO (XO
    (XO (XO (XO (XO (XO (XO (XO (XO (XO (XO (XO (XO (XO (XO (XO (XO (XO (XO
    (XO (XO (XO (XO (XO (XO (XO (XO (XO (XO (XO (XO (XO (XO (XO (XO (XO (XO
    (XO (XO (XO (XO (XO (XO (XO (XO
    XH)))))))))))))))))))))))))))))))))))))))))))))))) :: ((Npos (XO (XO (XO
    (XO (XO (XO (XO (XO (XO (XO (XO (XO (XO (XO (XO (XO (XO (XO (XO (XO (XO
    (XO (XO (XO (XO (XO (XO (XO (XO (XO (XO (XO (XO (XO (XO (XO (XO (XO (XO
    (XO (XI (XI (XI (XI (XI
    XH)))))))))))))))))))))))))))))))))))))))))))))) :: ((Npos (XO (XO (XO
    (XO (XO (XO (XO (XO (XO (XO (XO (XO (XO (XO (XO (XO (XO (XO (XO (XO (XO
    (XO (XO (XO (XO (XO (XO (XO (XO (XO (XO (XO (XO (XO (XO (XO (XO (XO (XO
    (XO (XO (XO (XO (XO (XO (XO (XO (XO (XO (XO (XO (XO (XO (XO (XO
    XH)))))))))))))))))))))))))))))))))))))))))))))))))))))))) :: ((Npos (XO
    (XO (XO (XO (XO (XO (XO (XO (XO (XO (XO (XO (XO (XO (XO (XO (XO (XO (XO
    (XO (XO (XO (XO (XO (XO (XO (XO (XO (XO (XO (XO (XO (XO (XO (XO (XO (XO
    (XO (XO (XO (XO (XO (XO (XO (XO (XO (XO (XO (XO (XO (XO (XO (XO (XI (XO
    (XO (XO (XO (XO (XO
    XH))))))))))))))))))))))))))))))))))))))))))))))))))))))))))))) :: ((Npos
    (XO (XO (XO (XO (XO (XO (XO (XO (XO (XO (XO (XO (XO (XO (XO (XO (XO (XO
    (XO (XO (XO (XO (XO (XO (XO (XO (XO (XO (XO (XO (XO (XO (XO (XO (XO (XO
    (XO (XO (XO XH)))))))))))))))))))))))))))))))))))))))) :: ((Npos (XO (XI
    (XO (XO (XO (XO (XO (XO (XO (XO (XI (XO (XO (XO (XO (XO (XO (XO (XO (XI
    (XO (XO (XO (XO (XO (XO (XO (XO (XI (XO (XO (XO (XO (XO (XO (XO (XO
    XH)))))))))))))))))))))))))))))))))))))) :: [])))))))) :: (((Npos (XO (XO
    (XO (XO (XO (XO (XO (XO (XO (XO (XO (XO (XO (XO (XO (XO (XO (XO (XO (XO
    (XO (XO (XO (XO (XO (XO (XO (XO (XO (XO (XO (XO (XO (XO (XO (XO (XO (XO
    (XO (XO (XO (XO (XO (XO (XO (XO (XO (XO (XO (XO (XO (XO (XO (XO (XO (XI
    (XO (XO (XO (XO (XO (XO (XO
    XH)))))))))))))))))))))))))))))))))))))))))))))))))))))))))))))))) :: ((Npos
    (XO (XO (XO (XO (XO (XO (XO (XI (XO (XO (XO (XO (XO (XO (XO (XI (XO (XO
    (XO (XO (XO (XO (XO (XI (XO (XO (XO (XO (XO (XO (XO (XI (XO (XO (XO (XO
    (XO (XO (XO XH)))))))))))))))))))))))))))))))))))))))) :: (N0 :: ((Npos
    (XO (XO (XO (XO (XO (XO (XO (XO (XO (XO (XO (XO (XO (XO (XO (XO (XO (XO
    (XO (XO (XO (XO (XO (XO (XO (XO (XO (XO (XO (XO (XO (XO (XO (XO (XO (XO
    (XO (XO (XO (XO (XI (XI (XI (XI (XI (XI
    XH))))))))))))))))))))))))))))))))))))))))))))))) :: (N0 :: ((Npos (XO
    (XO (XO (XO (XO (XO (XO (XO (XO (XO (XO (XO (XO (XO (XO (XO (XO (XO (XO
    (XO (XO (XO (XO (XO (XO (XO (XO (XO (XO (XO (XO (XO (XO (XO (XO (XO (XO
    (XO (XO (XO (XO (XO (XO (XO (XO (XO (XO (XO (XO (XO (XO (XO (XO (XO (XI
    (XO (XO (XO (XO (XO (XO
    XH)))))))))))))))))))))))))))))))))))))))))))))))))))))))))))))) :: (N0 :: ((Npos
    (XO (XO (XI (XO (XO (XO (XO (XO (XO (XO (XO (XI (XO (XO (XO (XO (XO (XO
    (XO (XO (XI (XO (XO (XO (XO (XO (XO (XO (XO (XI (XO (XO (XO (XO (XO (XO
    (XO (XO
    XH))))))))))))))))))))))))))))))))))))))) :: [])))))))) :: (((Npos (XO
    (XO (XO (XO (XO (XO (XO (XO (XO (XO (XO (XO (XO (XO (XO (XO (XO (XO (XO
    (XO (XO (XO (XO (XO (XO (XO (XO (XO (XO (XO (XO (XO (XO (XO (XO (XO (XO
    (XO (XO (XO (XO (XO (XO (XO (XO (XO (XO (XO (XO (XO (XO (XO (XO (XO (XO
    (XO XH))))))))))))))))))))))))))))))))))))))))))))))))))))))))) :: ((Npos
    (XI (XO (XO (XO (XO (XO (XO (XO (XI (XO (XO (XO (XO (XO (XO (XO (XI (XO
    (XO (XO (XO (XO (XO (XO (XI (XO (XO (XO (XO (XO (XO (XO (XI (XO (XO (XO
    (XO (XO (XO (XO XH))))))))))))))))))))))))))))))))))))))))) :: ((Npos (XO
    (XO (XO (XO (XO (XO (XO (XO (XO (XO (XO (XO (XO (XO (XO (XO (XO (XO (XO
    (XO (XO (XO (XO (XO (XO (XO (XO (XO (XO (XO (XO (XO (XO (XO (XO (XO (XO
    (XO (XO (XO (XO (XO (XO (XO (XO (XO (XO (XO (XO (XI (XI (XI (XI (XI (XI
    XH)))))))))))))))))))))))))))))))))))))))))))))))))))))))) :: (N0 :: ((Npos
    (XO (XO (XO (XO (XO (XO (XO (XO (XO (XO (XO (XO (XO (XO (XO (XO (XO (XO
    (XO (XO (XO (XO (XO (XO (XO (XO (XO (XO (XO (XO (XO (XO (XO (XO (XO (XO
    (XO (XO (XO (XO (XO (XO (XO (XO (XO (XO (XO (XO (XO (XO (XO (XO (XO (XO
    (XO (XO (XO
    XH)))))))))))))))))))))))))))))))))))))))))))))))))))))))))) :: (N0 :: ((Npos
    (XO (XO (XO (XO (XO (XO (XI (XO (XO (XO (XO (XO (XO (XI (XO (XO (XO (XO
    (XO (XO (XI (XO (XO (XO (XO (XO (XO (XI (XO (XO (XO (XO (XO (XO (XI (XO
    (XO (XO (XO (XO (XO
    XH)))))))))))))))))))))))))))))))))))))))))) :: (N0 :: [])))))))) :: (((Npos
    (XO (XO (XO (XO (XO (XO (XO (XO (XO (XO (XO (XO (XO (XO (XO (XO (XO (XO
    (XO (XO (XO (XO (XO (XO (XO (XO (XO (XO (XO (XO (XO (XO (XO (XO (XO (XO
    (XO (XO (XO (XO (XO (XO (XO (XO (XO (XO (XO (XO (XO (XO (XO (XO (XO (XO
    (XO (XO (XO
    XH)))))))))))))))))))))))))))))))))))))))))))))))))))))))))) :: ((Npos
    (XO (XI (XO (XO (XO (XO (XO (XO (XO (XI (XO (XO (XO (XO (XO (XO (XO (XI
    (XO (XO (XO (XO (XO (XO (XO (XI (XO (XO (XO (XO (XO (XO (XO (XI (XO (XO
    (XO (XO (XO (XO (XO
    XH)))))))))))))))))))))))))))))))))))))))))) :: ((Npos (XO (XO (XO (XO
    (XO (XO (XO (XO (XO (XO (XO (XO (XO (XO (XO (XO (XO (XO (XO (XO (XO (XO
    (XO (XO (XO (XO (XO (XO (XO (XO (XO (XO (XO (XO (XO (XO (XO (XO (XO (XO
    (XO (XO (XO (XO (XO (XO (XO (XO (XO (XO (XI (XI (XI (XI (XI
    XH)))))))))))))))))))))))))))))))))))))))))))))))))))))))) :: ((Npos (XO
    (XO (XO (XO (XO (XO (XO (XO (XO (XO (XO (XO (XO (XO (XO (XO (XO (XO (XO
    (XO (XO (XO (XO (XO (XO (XO (XO (XO (XO (XO (XO (XO (XO (XO (XO (XO (XO
    (XO (XO (XO (XO (XO (XO (XO (XO (XO (XO (XO
    XH))))))))))))))))))))))))))))))))))))))))))))))))) :: ((Npos (XO (XO (XO
    (XO (XO (XO (XO (XO (XO (XO (XO (XO (XO (XO (XO (XO (XO (XO (XO (XO (XO
    (XO (XO (XO (XO (XO (XO (XO (XO (XO (XO (XO (XO (XO (XO (XO (XO (XO (XO
    (XO (XO (XO (XO (XO (XO (XO (XO (XO (XO (XO (XO (XO (XO (XO (XO (XO (XO
    (XO
    XH))))))))))))))))))))))))))))))))))))))))))))))))))))))))))) :: ((Npos
    (XO (XO (XO (XO (XO (XO (XO (XO (XO (XO (XO (XO (XO (XO (XO (XO (XO (XO
    (XO (XO (XO (XO (XO (XO (XO (XO (XO (XO (XO (XO (XO (XO (XO (XO (XO (XO
    (XO (XO (XO (XO (XO (XO (XO (XO (XO (XO (XO (XO (XO (XO (XO (XO (XO (XO
    (XO (XO
    XH))))))))))))))))))))))))))))))))))))))))))))))))))))))))) :: ((Npos (XO
    (XO (XO (XO (XO (XO (XO (XI (XO (XO (XO (XO (XO (XO (XI (XO (XO (XO (XO
    (XO (XO (XI (XO (XO (XO (XO (XO (XO (XI (XO (XO (XO (XO (XO (XO (XI (XO
    (XO (XO (XO (XO (XO
    XH))))))))))))))))))))))))))))))))))))))))))) :: ((Npos (XO (XO (XO (XO
    (XO (XO (XO (XO (XO (XO (XO (XO (XO (XO (XO (XO (XO (XO (XO (XO (XO (XO
    (XO (XO (XO (XO (XO (XO (XO (XO (XO (XO (XO (XO (XO (XO (XO (XO (XO (XO
    XH))))))))))))))))))))))))))))))))))))))))) :: [])))))))) :: (((Npos (XO
    (XO (XO (XO (XO (XO (XO (XO (XO (XO (XO (XO (XO (XO (XO (XO (XO (XO (XO
    (XO (XO (XO (XO (XO (XO (XO (XO (XO (XO (XO (XO (XO (XO (XO (XO (XO (XO
    (XO (XO (XO (XO (XO (XO (XO (XO (XO (XO (XO (XO (XO (XO (XO (XO (XO (XO
    (XO (XO (XO
    XH))))))))))))))))))))))))))))))))))))))))))))))))))))))))))) :: ((Npos
    (XO (XO (XI (XO (XO (XO (XO (XO (XO (XO (XI (XO (XO (XO (XO (XO (XO (XO
    (XI (XO (XO (XO (XO (XO (XO (XO (XI (XO (XO (XO (XO (XO (XO (XO (XI (XO
    (XO (XO (XO (XO (XO (XO
    XH))))))))))))))))))))))))))))))))))))))))))) :: ((Npos (XO (XO (XO (XO
    (XO (XO (XO (XO (XO (XO (XO (XO (XO (XO (XO (XO (XO (XO (XO (XO (XO (XO
    (XO (XO (XO (XO (XO (XO (XO (XO (XO (XO (XO (XO (XO (XO (XO (XO (XO (XO
    (XO (XO (XO (XO (XO (XO (XO (XO (XO (XO (XO (XI (XI (XI (XI
    XH)))))))))))))))))))))))))))))))))))))))))))))))))))))))) :: ((Npos (XO
    (XO (XO (XO (XO (XO (XO (XO (XO (XO (XO (XO (XO (XO (XO (XO (XO (XO (XO
    (XO (XO (XO (XO (XO (XO (XO (XO (XO (XO (XO (XO (XO (XO (XO (XO (XO (XO
    (XO (XO (XO (XO (XO (XO (XO (XO (XO (XO (XO (XI
    XH)))))))))))))))))))))))))))))))))))))))))))))))))) :: ((Npos (XO (XO
    (XO (XO (XO (XO (XO (XO (XO (XO (XO (XO (XO (XO (XO (XO (XO (XO (XO (XO
    (XO (XO (XO (XO (XO (XO (XO (XO (XO (XO (XO (XO (XO (XO (XO (XO (XO (XO
    (XO (XO (XO (XO (XO (XO (XO (XO (XO (XO (XO (XO (XO (XO (XO (XO (XO (XO
    (XO (XO (XO
    XH)))))))))))))))))))))))))))))))))))))))))))))))))))))))))))) :: ((Npos
    (XO (XO (XO (XO (XO (XO (XO (XO (XO (XO (XO (XO (XO (XO (XO (XO (XO (XO
    (XO (XO (XO (XO (XO (XO (XO (XO (XO (XO (XO (XO (XO (XO (XO (XO (XO (XO
    (XO (XO (XO (XO (XO (XO (XO (XO (XO (XO (XO (XO (XO (XO (XO (XO (XO (XO
    (XO (XO (XO
    XH)))))))))))))))))))))))))))))))))))))))))))))))))))))))))) :: ((Npos
    (XO (XO (XO (XO (XO (XO (XO (XO (XO (XO (XO (XO (XO (XO (XO (XI (XO (XO
    (XO (XO (XO (XO (XI (XO (XO (XO (XO (XO (XO (XI (XO (XO (XO (XO (XO (XO
    (XI (XO (XO (XO (XO (XO (XO
    XH)))))))))))))))))))))))))))))))))))))))))))) :: ((Npos (XO (XO (XO (XO
    (XO (XO (XO (XO (XO (XO (XO (XO (XO (XO (XO (XO (XO (XO (XO (XO (XO (XO
    (XO (XO (XO (XO (XO (XO (XO (XO (XO (XO (XI (XO (XO (XO (XO (XO (XO (XO
    (XO XH)))))))))))))))))))))))))))))))))))))))))) :: [])))))))) :: (((Npos
    (XO (XO (XO (XO (XO (XO (XO (XO (XO (XO (XO (XO (XO (XO (XO (XO (XO (XO
    (XO (XO (XO (XO (XO (XO (XO (XO (XO (XO (XO (XO (XO (XO (XO (XO (XO (XO
    (XO (XO (XO (XO (XO (XO (XO (XO (XO (XO (XO (XO (XO (XO (XO (XO (XO (XO
    (XO (XO (XO (XO (XO
    XH)))))))))))))))))))))))))))))))))))))))))))))))))))))))))))) :: ((Npos
    (XO (XO (XO (XI (XO (XO (XO (XO (XO (XO (XO (XI (XO (XO (XO (XO (XO (XO
    (XO (XI (XO (XO (XO (XO (XO (XO (XO (XI (XO (XO (XO (XO (XO (XO (XO (XI
    (XO (XO (XO (XO (XO (XO (XO
    XH)))))))))))))))))))))))))))))))))))))))))))) :: ((Npos (XO (XO (XO (XO
    (XO (XO (XO (XO (XO (XO (XO (XO (XO (XO (XO (XO (XO (XO (XO (XO (XO (XO
    (XO (XO (XO (XO (XO (XO (XO (XO (XO (XO (XO (XO (XO (XO (XO (XO (XO (XO
    (XO (XO (XO (XO (XO (XO (XO (XO (XO (XO (XO (XO (XI (XI (XI
    XH)))))))))))))))))))))))))))))))))))))))))))))))))))))))) :: ((Npos (XO
    (XO (XO (XO (XO (XO (XO (XO (XO (XO (XO (XO (XO (XO (XO (XO (XO (XO (XO
    (XO (XO (XO (XO (XO (XO (XO (XO (XO (XO (XO (XO (XO (XO (XO (XO (XO (XO
    (XO (XO (XO (XO (XO (XO (XO (XO (XO (XO (XO (XI (XI
    XH))))))))))))))))))))))))))))))))))))))))))))))))))) :: ((Npos (XO (XO
    (XO (XO (XO (XO (XO (XO (XO (XO (XO (XO (XO (XO (XO (XO (XO (XO (XO (XO
    (XO (XO (XO (XO (XO (XO (XO (XO (XO (XO (XO (XO (XO (XO (XO (XO (XO (XO
    (XO (XO (XO (XO (XO (XO (XO (XO (XO (XO (XO (XO (XO (XO (XO (XO (XO (XO
    (XO (XO (XO (XO
    XH))))))))))))))))))))))))))))))))))))))))))))))))))))))))))))) :: ((Npos
    (XO (XO (XO (XO (XO (XO (XO (XO (XO (XO (XO (XO (XO (XO (XO (XO (XO (XO
    (XO (XO (XO (XO (XO (XO (XO (XO (XO (XO (XO (XO (XO (XO (XO (XO (XO (XO
    (XO (XO (XO (XO (XO (XO (XO (XO (XO (XO (XO (XO (XO (XO (XO (XO (XO (XO
    (XO (XO (XO (XO
    XH))))))))))))))))))))))))))))))))))))))))))))))))))))))))))) :: ((Npos
    (XO (XO (XO (XO (XO (XO (XO (XO (XO (XO (XO (XO (XO (XO (XO (XO (XO (XO
    (XO (XO (XO (XO (XO (XI (XO (XO (XO (XO (XO (XO (XI (XO (XO (XO (XO (XO
    (XO (XI (XO (XO (XO (XO (XO (XO
    XH))))))))))))))))))))))))))))))))))))))))))))) :: ((Npos (XO (XO (XO (XO
    (XO (XO (XO (XO (XO (XO (XO (XO (XO (XO (XO (XO (XO (XO (XO (XO (XO (XO
    (XO (XO (XI (XO (XO (XO (XO (XO (XO (XO (XO (XI (XO (XO (XO (XO (XO (XO
    (XO (XO
    XH))))))))))))))))))))))))))))))))))))))))))) :: [])))))))) :: (((Npos
    (XO (XO (XO (XO (XO (XO (XO (XO (XO (XO (XO (XO (XO (XO (XO (XO (XO (XO
    (XO (XO (XO (XO (XO (XO (XO (XO (XO (XO (XO (XO (XO (XO (XO (XO (XO (XO
    (XO (XO (XO (XO (XO (XO (XO (XO (XO (XO (XO (XO (XO (XO (XO (XO (XO (XO
    (XO (XO (XO (XO (XO (XO
    XH))))))))))))))))))))))))))))))))))))))))))))))))))))))))))))) :: ((Npos
    (XO (XO (XO (XO (XI (XO (XO (XO (XO (XO (XO (XO (XI (XO (XO (XO (XO (XO
    (XO (XO (XI (XO (XO (XO (XO (XO (XO (XO (XI (XO (XO (XO (XO (XO (XO (XO
    (XI (XO (XO (XO (XO (XO (XO (XO
    XH))))))))))))))))))))))))))))))))))))))))))))) :: ((Npos (XO (XO (XO (XO
    (XO (XO (XO (XO (XO (XO (XO (XO (XO (XO (XO (XO (XO (XO (XO (XO (XO (XO
    (XO (XO (XO (XO (XO (XO (XO (XO (XO (XO (XO (XO (XO (XO (XO (XO (XO (XO
    (XO (XO (XO (XO (XO (XO (XO (XO (XO (XO (XO (XO (XO (XI (XI
    XH)))))))))))))))))))))))))))))))))))))))))))))))))))))))) :: ((Npos (XO
    (XO (XO (XO (XO (XO (XO (XO (XO (XO (XO (XO (XO (XO (XO (XO (XO (XO (XO
    (XO (XO (XO (XO (XO (XO (XO (XO (XO (XO (XO (XO (XO (XO (XO (XO (XO (XO
    (XO (XO (XO (XO (XO (XO (XO (XO (XO (XO (XO (XI (XI (XI
    XH)))))))))))))))))))))))))))))))))))))))))))))))))))) :: ((Npos (XO (XO
    (XO (XO (XO (XO (XO (XO (XO (XO (XO (XO (XO (XO (XO (XO (XO (XO (XO (XO
    (XO (XO (XO (XO (XO (XO (XO (XO (XO (XO (XO (XO (XO (XO (XO (XO (XO (XO
    (XO (XO (XO (XO (XO (XO (XO (XO (XO (XO (XO (XO (XO (XO (XO (XO (XO (XO
    (XO (XO (XO (XO (XO
    XH)))))))))))))))))))))))))))))))))))))))))))))))))))))))))))))) :: ((Npos
    (XO (XO (XO (XO (XO (XO (XO (XO (XO (XO (XO (XO (XO (XO (XO (XO (XO (XO
    (XO (XO (XO (XO (XO (XO (XO (XO (XO (XO (XO (XO (XO (XO (XO (XO (XO (XO
    (XO (XO (XO (XO (XO (XO (XO (XO (XO (XO (XO (XO (XO (XO (XO (XO (XO (XO
    (XO (XO (XO (XO (XO
    XH)))))))))))))))))))))))))))))))))))))))))))))))))))))))))))) :: ((Npos
    (XO (XO (XO (XO (XO (XO (XO (XO (XO (XO (XO (XO (XO (XO (XO (XO (XO (XO
    (XO (XO (XO (XO (XO (XO (XO (XO (XO (XO (XO (XO (XO (XI (XO (XO (XO (XO
    (XO (XO (XI (XO (XO (XO (XO (XO (XO
    XH)))))))))))))))))))))))))))))))))))))))))))))) :: ((Npos (XO (XO (XO
    (XO (XO (XO (XO (XO (XO (XO (XO (XO (XO (XO (XO (XO (XI (XO (XO (XO (XO
    (XO (XO (XO (XO (XI (XO (XO (XO (XO (XO (XO (XO (XO (XI (XO (XO (XO (XO
    (XO (XO (XO (XO
    XH)))))))))))))))))))))))))))))))))))))))))))) :: [])))))))) :: (((Npos
    (XO (XO (XO (XO (XO (XO (XO (XO (XO (XO (XO (XO (XO (XO (XO (XO (XO (XO
    (XO (XO (XO (XO (XO (XO (XO (XO (XO (XO (XO (XO (XO (XO (XO (XO (XO (XO
    (XO (XO (XO (XO (XO (XO (XO (XO (XO (XO (XO (XO (XO (XO (XO (XO (XO (XO
    (XO (XO (XO (XO (XO (XO (XO
    XH)))))))))))))))))))))))))))))))))))))))))))))))))))))))))))))) :: ((Npos
    (XO (XO (XO (XO (XO (XI (XO (XO (XO (XO (XO (XO (XO (XI (XO (XO (XO (XO
    (XO (XO (XO (XI (XO (XO (XO (XO (XO (XO (XO (XI (XO (XO (XO (XO (XO (XO
    (XO (XI (XO (XO (XO (XO (XO (XO (XO
    XH)))))))))))))))))))))))))))))))))))))))))))))) :: ((Npos (XO (XO (XO
    (XO (XO (XO (XO (XO (XO (XO (XO (XO (XO (XO (XO (XO (XO (XO (XO (XO (XO
    (XO (XO (XO (XO (XO (XO (XO (XO (XO (XO (XO (XO (XO (XO (XO (XO (XO (XO
    (XO (XO (XO (XO (XO (XO (XO (XO (XO (XO (XO (XO (XO (XO (XO (XI
    XH)))))))))))))))))))))))))))))))))))))))))))))))))))))))) :: ((Npos (XO
    (XO (XO (XO (XO (XO (XO (XO (XO (XO (XO (XO (XO (XO (XO (XO (XO (XO (XO
    (XO (XO (XO (XO (XO (XO (XO (XO (XO (XO (XO (XO (XO (XO (XO (XO (XO (XO
    (XO (XO (XO (XO (XO (XO (XO (XO (XO (XO (XO (XI (XI (XI (XI
    XH))))))))))))))))))))))))))))))))))))))))))))))))))))) :: ((Npos (XO (XO
    (XO (XO (XO (XO (XO (XO (XO (XO (XO (XO (XO (XO (XO (XO (XO (XO (XO (XO
    (XO (XO (XO (XO (XO (XO (XO (XO (XO (XO (XO (XO (XO (XO (XO (XO (XO (XO
    (XO (XO (XO (XO (XO (XO (XO (XO (XO (XO (XO (XO (XO (XO (XO (XO (XO (XO
    (XO (XO (XO (XO (XO (XO
    XH))))))))))))))))))))))))))))))))))))))))))))))))))))))))))))))) :: ((Npos
    (XO (XO (XO (XO (XO (XO (XO (XO (XO (XO (XO (XO (XO (XO (XO (XO (XO (XO
    (XO (XO (XO (XO (XO (XO (XO (XO (XO (XO (XO (XO (XO (XO (XO (XO (XO (XO
    (XO (XO (XO (XO (XO (XO (XO (XO (XO (XO (XO (XO (XO (XO (XO (XO (XO (XO
    (XO (XO (XO (XO (XO (XO
    XH))))))))))))))))))))))))))))))))))))))))))))))))))))))))))))) :: ((Npos
    (XO (XO (XO (XO (XO (XO (XO (XO (XO (XO (XO (XO (XO (XO (XO (XO (XO (XO
    (XO (XO (XO (XO (XO (XO (XO (XO (XO (XO (XO (XO (XO (XO (XO (XO (XO (XO
    (XO (XO (XO (XI (XO (XO (XO (XO (XO (XO
    XH))))))))))))))))))))))))))))))))))))))))))))))) :: ((Npos (XO (XO (XO
    (XO (XO (XO (XO (XO (XI (XO (XO (XO (XO (XO (XO (XO (XO (XI (XO (XO (XO
    (XO (XO (XO (XO (XO (XI (XO (XO (XO (XO (XO (XO (XO (XO (XI (XO (XO (XO
    (XO (XO (XO (XO (XO
    XH))))))))))))))))))))))))))))))))))))))))))))) :: [])))))))) :: (((Npos
    (XO (XO (XO (XO (XO (XO (XO (XO (XO (XO (XO (XO (XO (XO (XO (XO (XO (XO
    (XO (XO (XO (XO (XO (XO (XO (XO (XO (XO (XO (XO (XO (XO (XO (XO (XO (XO
    (XO (XO (XO (XO (XO (XO (XO (XO (XO (XO (XO (XO (XO (XO (XO (XO (XO (XO
    (XO (XO (XO (XO (XO (XO (XO (XO
    XH))))))))))))))))))))))))))))))))))))))))))))))))))))))))))))))) :: ((Npos
    (XO (XO (XO (XO (XO (XO (XI (XO (XO (XO (XO (XO (XO (XO (XI (XO (XO (XO
    (XO (XO (XO (XO (XI (XO (XO (XO (XO (XO (XO (XO (XI (XO (XO (XO (XO (XO
    (XO (XO (XI (XO (XO (XO (XO (XO (XO (XO
    XH))))))))))))))))))))))))))))))))))))))))))))))) :: ((Npos (XO (XO (XO
    (XO (XO (XO (XO (XO (XO (XO (XO (XO (XO (XO (XO (XO (XO (XO (XO (XO (XO
    (XO (XO (XO (XO (XO (XO (XO (XO (XO (XO (XO (XO (XO (XO (XO (XO (XO (XO
    (XO (XO (XO (XO (XO (XO (XO (XO (XO (XO (XO (XO (XO (XO (XO (XO
    XH)))))))))))))))))))))))))))))))))))))))))))))))))))))))) :: ((Npos (XO
    (XO (XO (XO (XO (XO (XO (XO (XO (XO (XO (XO (XO (XO (XO (XO (XO (XO (XO
    (XO (XO (XO (XO (XO (XO (XO (XO (XO (XO (XO (XO (XO (XO (XO (XO (XO (XO
    (XO (XO (XO (XO (XO (XO (XO (XO (XO (XO (XO (XI (XI (XI (XI (XI
    XH)))))))))))))))))))))))))))))))))))))))))))))))))))))) :: ((Npos (XO
    (XO (XO (XO (XO (XO (XO (XO (XO (XO (XO (XO (XO (XO (XO (XO (XO (XO (XO
    (XO (XO (XO (XO (XO (XO (XO (XO (XO (XO (XO (XO (XO (XO (XO (XO (XO (XO
    (XO (XO (XO (XO (XO (XO (XO (XO (XO (XO (XO (XO (XO (XO (XO (XO (XO (XO
    (XO (XO (XO (XO (XO (XO (XO (XO
    XH)))))))))))))))))))))))))))))))))))))))))))))))))))))))))))))))) :: ((Npos
    (XO (XO (XO (XO (XO (XO (XO (XO (XO (XO (XO (XO (XO (XO (XO (XO (XO (XO
    (XO (XO (XO (XO (XO (XO (XO (XO (XO (XO (XO (XO (XO (XO (XO (XO (XO (XO
    (XO (XO (XO (XO (XO (XO (XO (XO (XO (XO (XO (XO (XO (XO (XO (XO (XO (XO
    (XO (XO (XO (XO (XO (XO (XO
    XH)))))))))))))))))))))))))))))))))))))))))))))))))))))))))))))) :: ((Npos
    (XO (XO (XO (XO (XO (XO (XO (XO (XO (XO (XO (XO (XO (XO (XO (XO (XO (XO
    (XO (XO (XO (XO (XO (XO (XO (XO (XO (XO (XO (XO (XO (XO (XO (XO (XO (XO
    (XO (XO (XO (XO (XO (XO (XO (XO (XO (XO (XO
    XH)))))))))))))))))))))))))))))))))))))))))))))))) :: ((Npos (XI (XO (XO
    (XO (XO (XO (XO (XO (XO (XI (XO (XO (XO (XO (XO (XO (XO (XO (XI (XO (XO
    (XO (XO (XO (XO (XO (XO (XI (XO (XO (XO (XO (XO (XO (XO (XO (XI (XO (XO
    (XO (XO (XO (XO (XO (XO
    XH)))))))))))))))))))))))))))))))))))))))))))))) :: [])))))))) :: (((Npos
    (XO (XO (XO (XO (XO (XO (XO (XO (XO (XO (XO (XO (XO (XO (XO (XO (XO (XO
    (XO (XO (XO (XO (XO (XO (XO (XO (XO (XO (XO (XO (XO (XO (XO (XO (XO (XO
    (XO (XO (XO (XO (XO (XO (XO (XO (XO (XO (XO (XO (XO (XO (XO (XO (XO (XO
    (XO (XO (XO (XO (XO (XO (XO (XO (XO
    XH)))))))))))))))))))))))))))))))))))))))))))))))))))))))))))))))) :: ((Npos
    (XO (XO (XO (XO (XO (XO (XO (XI (XO (XO (XO (XO (XO (XO (XO (XI (XO (XO
    (XO (XO (XO (XO (XO (XI (XO (XO (XO (XO (XO (XO (XO (XI (XO (XO (XO (XO
    (XO (XO (XO (XI (XO (XO (XO (XO (XO (XO (XO
    XH)))))))))))))))))))))))))))))))))))))))))))))))) :: (N0 :: ((Npos (XO
    (XO (XO (XO (XO (XO (XO (XO (XO (XO (XO (XO (XO (XO (XO (XO (XO (XO (XO
    (XO (XO (XO (XO (XO (XO (XO (XO (XO (XO (XO (XO (XO (XO (XO (XO (XO (XO
    (XO (XO (XO (XO (XO (XO (XO (XO (XO (XO (XO (XI (XI (XI (XI (XI (XI
    XH))))))))))))))))))))))))))))))))))))))))))))))))))))))) :: (N0 :: ((Npos
    (XO (XO (XO (XO (XO (XO (XO (XO (XO (XO (XO (XO (XO (XO (XO (XO (XO (XO
    (XO (XO (XO (XO (XO (XO (XO (XO (XO (XO (XO (XO (XO (XO (XO (XO (XO (XO
    (XO (XO (XO (XO (XO (XO (XO (XO (XO (XO (XO (XO (XO (XO (XO (XO (XO (XO
    (XO (XO (XO (XO (XO (XO (XO (XO
    XH))))))))))))))))))))))))))))))))))))))))))))))))))))))))))))))) :: (N0 :: ((Npos
    (XO (XI (XO (XO (XO (XO (XO (XO (XO (XO (XI (XO (XO (XO (XO (XO (XO (XO
    (XO (XI (XO (XO (XO (XO (XO (XO (XO (XO (XI (XO (XO (XO (XO (XO (XO (XO
    (XO (XI (XO (XO (XO (XO (XO (XO (XO (XO
    XH))))))))))))))))))))))))))))))))))))))))))))))) :: [])))))))) :: ((N0 :: ((Npos
    (XI (XO (XO (XO (XO (XO (XO (XO (XI (XO (XO (XO (XO (XO (XO (XO (XI (XO
    (XO (XO (XO (XO (XO (XO (XI (XO (XO (XO (XO (XO (XO (XO (XI (XO (XO (XO
    (XO (XO (XO (XO (XI (XO (XO (XO (XO (XO (XO (XO
    XH))))))))))))))))))))))))))))))))))))))))))))))))) :: ((Npos (XO (XO (XO
    (XO (XO (XO (XO (XO (XO (XO (XO (XO (XO (XO (XO (XO (XO (XO (XO (XO (XO
    (XO (XO (XO (XO (XO (XO (XO (XO (XO (XO (XO (XO (XO (XO (XO (XO (XO (XO
    (XO (XO (XO (XO (XO (XO (XO (XO (XO (XO (XO (XO (XO (XO (XO (XO (XO (XO
    (XI (XI (XI (XI (XI (XI
    XH)))))))))))))))))))))))))))))))))))))))))))))))))))))))))))))))) :: (N0 :: (N0 :: (N0 :: ((Npos
    (XO (XO (XO (XO (XO (XO (XO (XI (XO (XO (XO (XO (XO (XO (XI (XO (XO (XO
    (XO (XO (XO (XI (XO (XO (XO (XO (XO (XO (XI (XO (XO (XO (XO (XO (XO (XI
    (XO (XO (XO (XO (XO (XO (XI (XO (XO (XO (XO (XO (XO
    XH)))))))))))))))))))))))))))))))))))))))))))))))))) :: (N0 :: [])))))))) :: ((N0 :: ((Npos
    (XO (XI (XO (XO (XO (XO (XO (XO (XO (XI (XO (XO (XO (XO (XO (XO (XO (XI
    (XO (XO (XO (XO (XO (XO (XO (XI (XO (XO (XO (XO (XO (XO (XO (XI (XO (XO
    (XO (XO (XO (XO (XO (XI (XO (XO (XO (XO (XO (XO (XO
    XH)))))))))))))))))))))))))))))))))))))))))))))))))) :: ((Npos (XO (XO
    (XO (XO (XO (XO (XO (XO (XO (XO (XO (XO (XO (XO (XO (XO (XO (XO (XO (XO
    (XO (XO (XO (XO (XO (XO (XO (XO (XO (XO (XO (XO (XO (XO (XO (XO (XO (XO
    (XO (XO (XO (XO (XO (XO (XO (XO (XO (XO (XO (XO (XO (XO (XO (XO (XO (XO
    (XO (XO (XI (XI (XI (XI (XI
    XH)))))))))))))))))))))))))))))))))))))))))))))))))))))))))))))))) :: ((Npos
    (XO (XO (XO (XO (XO (XO (XO (XO (XO (XO (XO (XO (XO (XO (XO (XO (XO (XO
    (XO (XO (XO (XO (XO (XO (XO (XO (XO (XO (XO (XO (XO (XO (XO (XO (XO (XO
    (XO (XO (XO (XO (XO (XO (XO (XO (XO (XO (XO (XO (XO (XO (XO (XO (XO (XO
    (XO (XO
    XH))))))))))))))))))))))))))))))))))))))))))))))))))))))))) :: (N0 :: (N0 :: ((Npos
    (XO (XO (XO (XO (XO (XO (XO (XO (XO (XO (XO (XO (XO (XO (XO (XI (XO (XO
    (XO (XO (XO (XO (XI (XO (XO (XO (XO (XO (XO (XI (XO (XO (XO (XO (XO (XO
    (XI (XO (XO (XO (XO (XO (XO (XI (XO (XO (XO (XO (XO (XO
    XH))))))))))))))))))))))))))))))))))))))))))))))))))) :: ((Npos (XO (XO
    (XO (XO (XO (XO (XO (XO (XO (XO (XO (XO (XO (XO (XO (XO (XO (XO (XO (XO
    (XO (XO (XO (XO (XO (XO (XO (XO (XO (XO (XO (XO (XO (XO (XO (XO (XO (XO
    (XO (XO (XO (XO (XO (XO (XO (XO (XO (XO
    XH))))))))))))))))))))))))))))))))))))))))))))))))) :: [])))))))) :: ((N0 :: ((Npos
    (XO (XO (XI (XO (XO (XO (XO (XO (XO (XO (XI (XO (XO (XO (XO (XO (XO (XO
    (XI (XO (XO (XO (XO (XO (XO (XO (XI (XO (XO (XO (XO (XO (XO (XO (XI (XO
    (XO (XO (XO (XO (XO (XO (XI (XO (XO (XO (XO (XO (XO (XO
    XH))))))))))))))))))))))))))))))))))))))))))))))))))) :: ((Npos (XO (XO
    (XO (XO (XO (XO (XO (XO (XO (XO (XO (XO (XO (XO (XO (XO (XO (XO (XO (XO
    (XO (XO (XO (XO (XO (XO (XO (XO (XO (XO (XO (XO (XO (XO (XO (XO (XO (XO
    (XO (XO (XO (XO (XO (XO (XO (XO (XO (XO (XO (XO (XO (XO (XO (XO (XO (XO
    (XO (XO (XO (XI (XI (XI (XI
    XH)))))))))))))))))))))))))))))))))))))))))))))))))))))))))))))))) :: ((Npos
    (XO (XO (XO (XO (XO (XO (XO (XO (XO (XO (XO (XO (XO (XO (XO (XO (XO (XO
    (XO (XO (XO (XO (XO (XO (XO (XO (XO (XO (XO (XO (XO (XO (XO (XO (XO (XO
    (XO (XO (XO (XO (XO (XO (XO (XO (XO (XO (XO (XO (XO (XO (XO (XO (XO (XO
    (XO (XO (XI
    XH)))))))))))))))))))))))))))))))))))))))))))))))))))))))))) :: (N0 :: (N0 :: ((Npos
    (XO (XO (XO (XO (XO (XO (XO (XO (XO (XO (XO (XO (XO (XO (XO (XO (XO (XO
    (XO (XO (XO (XO (XO (XI (XO (XO (XO (XO (XO (XO (XI (XO (XO (XO (XO (XO
    (XO (XI (XO (XO (XO (XO (XO (XO (XI (XO (XO (XO (XO (XO (XO
    XH)))))))))))))))))))))))))))))))))))))))))))))))))))) :: ((Npos (XO (XO
    (XO (XO (XO (XO (XO (XO (XO (XO (XO (XO (XO (XO (XO (XO (XO (XO (XO (XO
    (XO (XO (XO (XO (XO (XO (XO (XO (XO (XO (XO (XO (XO (XO (XO (XO (XO (XO
    (XO (XO (XI (XO (XO (XO (XO (XO (XO (XO (XO
    XH)))))))))))))))))))))))))))))))))))))))))))))))))) :: [])))))))) :: ((N0 :: ((Npos
    (XO (XO (XO (XI (XO (XO (XO (XO (XO (XO (XO (XI (XO (XO (XO (XO (XO (XO
    (XO (XI (XO (XO (XO (XO (XO (XO (XO (XI (XO (XO (XO (XO (XO (XO (XO (XI
    (XO (XO (XO (XO (XO (XO (XO (XI (XO (XO (XO (XO (XO (XO (XO
    XH)))))))))))))))))))))))))))))))))))))))))))))))))))) :: ((Npos (XO (XO
    (XO (XO (XO (XO (XO (XO (XO (XO (XO (XO (XO (XO (XO (XO (XO (XO (XO (XO
    (XO (XO (XO (XO (XO (XO (XO (XO (XO (XO (XO (XO (XO (XO (XO (XO (XO (XO
    (XO (XO (XO (XO (XO (XO (XO (XO (XO (XO (XO (XO (XO (XO (XO (XO (XO (XO
    (XO (XO (XO (XO (XI (XI (XI
    XH)))))))))))))))))))))))))))))))))))))))))))))))))))))))))))))))) :: ((Npos
    (XO (XO (XO (XO (XO (XO (XO (XO (XO (XO (XO (XO (XO (XO (XO (XO (XO (XO
    (XO (XO (XO (XO (XO (XO (XO (XO (XO (XO (XO (XO (XO (XO (XO (XO (XO (XO
    (XO (XO (XO (XO (XO (XO (XO (XO (XO (XO (XO (XO (XO (XO (XO (XO (XO (XO
    (XO (XO (XI (XI
    XH))))))))))))))))))))))))))))))))))))))))))))))))))))))))))) :: (N0 :: (N0 :: ((Npos
    (XO (XO (XO (XO (XO (XO (XO (XO (XO (XO (XO (XO (XO (XO (XO (XO (XO (XO
    (XO (XO (XO (XO (XO (XO (XO (XO (XO (XO (XO (XO (XO (XI (XO (XO (XO (XO
    (XO (XO (XI (XO (XO (XO (XO (XO (XO (XI (XO (XO (XO (XO (XO (XO
    XH))))))))))))))))))))))))))))))))))))))))))))))))))))) :: ((Npos (XO (XO
    (XO (XO (XO (XO (XO (XO (XO (XO (XO (XO (XO (XO (XO (XO (XO (XO (XO (XO
    (XO (XO (XO (XO (XO (XO (XO (XO (XO (XO (XO (XO (XI (XO (XO (XO (XO (XO
    (XO (XO (XO (XI (XO (XO (XO (XO (XO (XO (XO (XO
    XH))))))))))))))))))))))))))))))))))))))))))))))))))) :: [])))))))) :: ((N0 :: ((Npos
    (XO (XO (XO (XO (XI (XO (XO (XO (XO (XO (XO (XO (XI (XO (XO (XO (XO (XO
    (XO (XO (XI (XO (XO (XO (XO (XO (XO (XO (XI (XO (XO (XO (XO (XO (XO (XO
    (XI (XO (XO (XO (XO (XO (XO (XO (XI (XO (XO (XO (XO (XO (XO (XO
    XH))))))))))))))))))))))))))))))))))))))))))))))))))))) :: ((Npos (XO (XO
    (XO (XO (XO (XO (XO (XO (XO (XO (XO (XO (XO (XO (XO (XO (XO (XO (XO (XO
    (XO (XO (XO (XO (XO (XO (XO (XO (XO (XO (XO (XO (XO (XO (XO (XO (XO (XO
    (XO (XO (XO (XO (XO (XO (XO (XO (XO (XO (XO (XO (XO (XO (XO (XO (XO (XO
    (XO (XO (XO (XO (XO (XI (XI
    XH)))))))))))))))))))))))))))))))))))))))))))))))))))))))))))))))) :: ((Npos
    (XO (XO (XO (XO (XO (XO (XO (XO (XO (XO (XO (XO (XO (XO (XO (XO (XO (XO
    (XO (XO (XO (XO (XO (XO (XO (XO (XO (XO (XO (XO (XO (XO (XO (XO (XO (XO
    (XO (XO (XO (XO (XO (XO (XO (XO (XO (XO (XO (XO (XO (XO (XO (XO (XO (XO
    (XO (XO (XI (XI (XI
    XH)))))))))))))))))))))))))))))))))))))))))))))))))))))))))))) :: (N0 :: (N0 :: ((Npos
    (XO (XO (XO (XO (XO (XO (XO (XO (XO (XO (XO (XO (XO (XO (XO (XO (XO (XO
    (XO (XO (XO (XO (XO (XO (XO (XO (XO (XO (XO (XO (XO (XO (XO (XO (XO (XO
    (XO (XO (XO (XI (XO (XO (XO (XO (XO (XO (XI (XO (XO (XO (XO (XO (XO
    XH)))))))))))))))))))))))))))))))))))))))))))))))))))))) :: ((Npos (XO
    (XO (XO (XO (XO (XO (XO (XO (XO (XO (XO (XO (XO (XO (XO (XO (XO (XO (XO
    (XO (XO (XO (XO (XO (XI (XO (XO (XO (XO (XO (XO (XO (XO (XI (XO (XO (XO
    (XO (XO (XO (XO (XO (XI (XO (XO (XO (XO (XO (XO (XO (XO
    XH)))))))))))))))))))))))))))))))))))))))))))))))))))) :: [])))))))) :: ((N0 :: ((Npos
    (XO (XO (XO (XO (XO (XI (XO (XO (XO (XO (XO (XO (XO (XI (XO (XO (XO (XO
    (XO (XO (XO (XI (XO (XO (XO (XO (XO (XO (XO (XI (XO (XO (XO (XO (XO (XO
    (XO (XI (XO (XO (XO (XO (XO (XO (XO (XI (XO (XO (XO (XO (XO (XO (XO
    XH)))))))))))))))))))))))))))))))))))))))))))))))))))))) :: ((Npos (XO
    (XO (XO (XO (XO (XO (XO (XO (XO (XO (XO (XO (XO (XO (XO (XO (XO (XO (XO
    (XO (XO (XO (XO (XO (XO (XO (XO (XO (XO (XO (XO (XO (XO (XO (XO (XO (XO
    (XO (XO (XO (XO (XO (XO (XO (XO (XO (XO (XO (XO (XO (XO (XO (XO (XO (XO
    (XO (XO (XO (XO (XO (XO (XO (XI
    XH)))))))))))))))))))))))))))))))))))))))))))))))))))))))))))))))) :: ((Npos
    (XO (XO (XO (XO (XO (XO (XO (XO (XO (XO (XO (XO (XO (XO (XO (XO (XO (XO
    (XO (XO (XO (XO (XO (XO (XO (XO (XO (XO (XO (XO (XO (XO (XO (XO (XO (XO
    (XO (XO (XO (XO (XO (XO (XO (XO (XO (XO (XO (XO (XO (XO (XO (XO (XO (XO
    (XO (XO (XI (XI (XI (XI
    XH))))))))))))))))))))))))))))))))))))))))))))))))))))))))))))) :: (N0 :: (N0 :: ((Npos
    (XO (XO (XO (XO (XO (XO (XO (XO (XO (XO (XO (XO (XO (XO (XO (XO (XO (XO
    (XO (XO (XO (XO (XO (XO (XO (XO (XO (XO (XO (XO (XO (XO (XO (XO (XO (XO
    (XO (XO (XO (XO (XO (XO (XO (XO (XO (XO (XO (XI (XO (XO (XO (XO (XO (XO
    XH))))))))))))))))))))))))))))))))))))))))))))))))))))))) :: ((Npos (XO
    (XO (XO (XO (XO (XO (XO (XO (XO (XO (XO (XO (XO (XO (XO (XO (XI (XO (XO
    (XO (XO (XO (XO (XO (XO (XI (XO (XO (XO (XO (XO (XO (XO (XO (XI (XO (XO
    (XO (XO (XO (XO (XO (XO (XI (XO (XO (XO (XO (XO (XO (XO (XO
    XH))))))))))))))))))))))))))))))))))))))))))))))))))))) :: [])))))))) :: ((N0 :: ((Npos
    (XO (XO (XO (XO (XO (XO (XI (XO (XO (XO (XO (XO (XO (XO (XI (XO (XO (XO
    (XO (XO (XO (XO (XI (XO (XO (XO (XO (XO (XO (XO (XI (XO (XO (XO (XO (XO
    (XO (XO (XI (XO (XO (XO (XO (XO (XO (XO (XI (XO (XO (XO (XO (XO (XO (XO
    XH))))))))))))))))))))))))))))))))))))))))))))))))))))))) :: ((Npos (XO
    (XO (XO (XO (XO (XO (XO (XO (XO (XO (XO (XO (XO (XO (XO (XO (XO (XO (XO
    (XO (XO (XO (XO (XO (XO (XO (XO (XO (XO (XO (XO (XO (XO (XO (XO (XO (XO
    (XO (XO (XO (XO (XO (XO (XO (XO (XO (XO (XO (XO (XO (XO (XO (XO (XO (XO
    (XO (XO (XO (XO (XO (XO (XO (XO
    XH)))))))))))))))))))))))))))))))))))))))))))))))))))))))))))))))) :: ((Npos
    (XO (XO (XO (XO (XO (XO (XO (XO (XO (XO (XO (XO (XO (XO (XO (XO (XO (XO
    (XO (XO (XO (XO (XO (XO (XO (XO (XO (XO (XO (XO (XO (XO (XO (XO (XO (XO
    (XO (XO (XO (XO (XO (XO (XO (XO (XO (XO (XO (XO (XO (XO (XO (XO (XO (XO
    (XO (XO (XI (XI (XI (XI (XI
    XH)))))))))))))))))))))))))))))))))))))))))))))))))))))))))))))) :: (N0 :: (N0 :: ((Npos
    (XO (XO (XO (XO (XO (XO (XO (XO (XO (XO (XO (XO (XO (XO (XO (XO (XO (XO
    (XO (XO (XO (XO (XO (XO (XO (XO (XO (XO (XO (XO (XO (XO (XO (XO (XO (XO
    (XO (XO (XO (XO (XO (XO (XO (XO (XO (XO (XO (XO (XO (XO (XO (XO (XO (XO
    (XO XH)))))))))))))))))))))))))))))))))))))))))))))))))))))))) :: ((Npos
    (XO (XO (XO (XO (XO (XO (XO (XO (XI (XO (XO (XO (XO (XO (XO (XO (XO (XI
    (XO (XO (XO (XO (XO (XO (XO (XO (XI (XO (XO (XO (XO (XO (XO (XO (XO (XI
    (XO (XO (XO (XO (XO (XO (XO (XO (XI (XO (XO (XO (XO (XO (XO (XO (XO
    XH)))))))))))))))))))))))))))))))))))))))))))))))))))))) :: [])))))))) :: ((N0 :: ((Npos
    (XO (XO (XO (XO (XO (XO (XO (XI (XO (XO (XO (XO (XO (XO (XO (XI (XO (XO
    (XO (XO (XO (XO (XO (XI (XO (XO (XO (XO (XO (XO (XO (XI (XO (XO (XO (XO
    (XO (XO (XO (XI (XO (XO (XO (XO (XO (XO (XO (XI (XO (XO (XO (XO (XO (XO
    (XO
    XH)))))))))))))))))))))))))))))))))))))))))))))))))))))))) :: (N0 :: ((Npos
    (XO (XO (XO (XO (XO (XO (XO (XO (XO (XO (XO (XO (XO (XO (XO (XO (XO (XO
    (XO (XO (XO (XO (XO (XO (XO (XO (XO (XO (XO (XO (XO (XO (XO (XO (XO (XO
    (XO (XO (XO (XO (XO (XO (XO (XO (XO (XO (XO (XO (XO (XO (XO (XO (XO (XO
    (XO (XO (XI (XI (XI (XI (XI (XI
    XH))))))))))))))))))))))))))))))))))))))))))))))))))))))))))))))) :: (N0 :: (N0 :: (N0 :: ((Npos
    (XI (XO (XO (XO (XO (XO (XO (XO (XO (XI (XO (XO (XO (XO (XO (XO (XO (XO
    (XI (XO (XO (XO (XO (XO (XO (XO (XO (XI (XO (XO (XO (XO (XO (XO (XO (XO
    (XI (XO (XO (XO (XO (XO (XO (XO (XO (XI (XO (XO (XO (XO (XO (XO (XO (XO
    XH))))))))))))))))))))))))))))))))))))))))))))))))))))))) :: [])))))))) :: [])))))))))))))))))))))))))))))))))))))))))))))))))))))))))))))))

(** val bISHOP_T : bb list **)

let bISHOP_T =
  (Npos (XO (XO (XO (XO (XO (XO (XO (XO (XO (XI (XO (XO (XO (XO (XO (XO (XO
    (XO (XI (XO (XO (XO (XO (XO (XO (XO (XO (XI (XO (XO (XO (XO (XO (XO (XO
    (XO (XI (XO (XO (XO (XO (XO (XO (XO (XO (XI (XO (XO (XO (XO (XO (XO (XO
    (XO (XI (XO (XO (XO (XO (XO (XO (XO (XO
    XH)))))))))))))))))))))))))))))))))))))))))))))))))))))))))))))))) :: ((Npos
    (XO (XO (XO (XO (XO (XO (XO (XO (XI (XO (XI (XO (XO (XO (XO (XO (XO (XO
    (XO (XI (XO (XO (XO (XO (XO (XO (XO (XO (XI (XO (XO (XO (XO (XO (XO (XO
    (XO (XI (XO (XO (XO (XO (XO (XO (XO (XO (XI (XO (XO (XO (XO (XO (XO (XO
    (XO XH)))))))))))))))))))))))))))))))))))))))))))))))))))))))) :: ((Npos
    (XO (XO (XO (XO (XO (XO (XO (XO (XO (XI (XO (XI (XO (XO (XO (XO (XI (XO
    (XO (XO (XI (XO (XO (XO (XO (XO (XO (XO (XO (XI (XO (XO (XO (XO (XO (XO
    (XO (XO (XI (XO (XO (XO (XO (XO (XO (XO (XO
    XH)))))))))))))))))))))))))))))))))))))))))))))))) :: ((Npos (XO (XO (XO
    (XO (XO (XO (XO (XO (XO (XO (XI (XO (XI (XO (XO (XO (XO (XI (XO (XO (XO
    (XI (XO (XO (XI (XO (XO (XO (XO (XO (XI (XO (XO (XO (XO (XO (XO (XO (XO
    XH)))))))))))))))))))))))))))))))))))))))) :: ((Npos (XO (XO (XO (XO (XO
    (XO (XO (XO (XO (XO (XO (XI (XO (XI (XO (XO (XO (XO (XI (XO (XO (XO (XI
    (XO (XO (XI (XO (XO (XO (XO (XO (XI
    XH))))))))))))))))))))))))))))))))) :: ((Npos (XO (XO (XO (XO (XO (XO (XO
    (XO (XO (XO (XO (XO (XI (XO (XI (XO (XO (XO (XO (XI (XO (XO (XO (XI (XO
    (XO (XI (XO (XO (XO (XO (XO (XO (XI (XO (XO (XO (XO (XO (XO
    XH))))))))))))))))))))))))))))))))))))))))) :: ((Npos (XO (XO (XO (XO (XO
    (XO (XO (XO (XO (XO (XO (XO (XO (XI (XO (XI (XO (XO (XO (XO (XI (XO (XO
    (XO (XO (XO (XO (XI (XO (XO (XO (XO (XO (XO (XI (XO (XO (XO (XO (XO (XO
    (XI (XO (XO (XO (XO (XO (XO
    XH))))))))))))))))))))))))))))))))))))))))))))))))) :: ((Npos (XO (XO (XO
    (XO (XO (XO (XO (XO (XO (XO (XO (XO (XO (XO (XI (XO (XO (XO (XO (XO (XO
    (XI (XO (XO (XO (XO (XO (XO (XI (XO (XO (XO (XO (XO (XO (XI (XO (XO (XO
    (XO (XO (XO (XI (XO (XO (XO (XO (XO (XO (XI (XO (XO (XO (XO (XO (XO
    XH))))))))))))))))))))))))))))))))))))))))))))))))))))))))) :: ((Npos (XO
    (XI (XO (XO (XO (XO (XO (XO (XO (XO (XO (XO (XO (XO (XO (XO (XO (XI (XO
    (XO (XO (XO (XO (XO (XO (XO (XI (XO (XO (XO (XO (XO (XO (XO (XO (XI (XO
    (XO (XO (XO (XO (XO (XO (XO (XI (XO (XO (XO (XO (XO (XO (XO (XO (XI (XO
    (XO (XO (XO (XO (XO (XO (XO
    XH))))))))))))))))))))))))))))))))))))))))))))))))))))))))))))))) :: ((Npos
    (XI (XO (XI (XO (XO (XO (XO (XO (XO (XO (XO (XO (XO (XO (XO (XO (XI (XO
    (XI (XO (XO (XO (XO (XO (XO (XO (XO (XI (XO (XO (XO (XO (XO (XO (XO (XO
    (XI (XO (XO (XO (XO (XO (XO (XO (XO (XI (XO (XO (XO (XO (XO (XO (XO (XO
    (XI (XO (XO (XO (XO (XO (XO (XO (XO
    XH)))))))))))))))))))))))))))))))))))))))))))))))))))))))))))))))) :: ((Npos
    (XO (XI (XO (XI (XO (XO (XO (XO (XO (XO (XO (XO (XO (XO (XO (XO (XO (XI
    (XO (XI (XO (XO (XO (XO (XI (XO (XO (XO (XI (XO (XO (XO (XO (XO (XO (XO
    (XO (XI (XO (XO (XO (XO (XO (XO (XO (XO (XI (XO (XO (XO (XO (XO (XO (XO
    (XO XH)))))))))))))))))))))))))))))))))))))))))))))))))))))))) :: ((Npos
    (XO (XO (XI (XO (XI (XO (XO (XO (XO (XO (XO (XO (XO (XO (XO (XO (XO (XO
    (XI (XO (XI (XO (XO (XO (XO (XI (XO (XO (XO (XI (XO (XO (XI (XO (XO (XO
    (XO (XO (XI (XO (XO (XO (XO (XO (XO (XO (XO
    XH)))))))))))))))))))))))))))))))))))))))))))))))) :: ((Npos (XO (XO (XO
    (XI (XO (XI (XO (XO (XO (XO (XO (XO (XO (XO (XO (XO (XO (XO (XO (XI (XO
    (XI (XO (XO (XO (XO (XI (XO (XO (XO (XI (XO (XO (XI (XO (XO (XO (XO (XO
    (XI XH))))))))))))))))))))))))))))))))))))))))) :: ((Npos (XO (XO (XO (XO
    (XI (XO (XI (XO (XO (XO (XO (XO (XO (XO (XO (XO (XO (XO (XO (XO (XI (XO
    (XI (XO (XO (XO (XO (XI (XO (XO (XO (XI (XO (XO (XI (XO (XO (XO (XO (XO
    (XO (XI (XO (XO (XO (XO (XO (XO
    XH))))))))))))))))))))))))))))))))))))))))))))))))) :: ((Npos (XO (XO (XO
    (XO (XO (XI (XO (XI (XO (XO (XO (XO (XO (XO (XO (XO (XO (XO (XO (XO (XO
    (XI (XO (XI (XO (XO (XO (XO (XI (XO (XO (XO (XO (XO (XO (XI (XO (XO (XO
    (XO (XO (XO (XI (XO (XO (XO (XO (XO (XO (XI (XO (XO (XO (XO (XO (XO
    XH))))))))))))))))))))))))))))))))))))))))))))))))))))))))) :: ((Npos (XO
    (XO (XO (XO (XO (XO (XI (XO (XO (XO (XO (XO (XO (XO (XO (XO (XO (XO (XO
    (XO (XO (XO (XI (XO (XO (XO (XO (XO (XO (XI (XO (XO (XO (XO (XO (XO (XI
    (XO (XO (XO (XO (XO (XO (XI (XO (XO (XO (XO (XO (XO (XI (XO (XO (XO (XO
    (XO (XO
    XH)))))))))))))))))))))))))))))))))))))))))))))))))))))))))) :: ((Npos
    (XO (XO (XI (XO (XO (XO (XO (XO (XO (XI (XO (XO (XO (XO (XO (XO (XO (XO
    (XO (XO (XO (XO (XO (XO (XO (XI (XO (XO (XO (XO (XO (XO (XO (XO (XI (XO
    (XO (XO (XO (XO (XO (XO (XO (XI (XO (XO (XO (XO (XO (XO (XO (XO (XI (XO
    (XO (XO (XO (XO (XO (XO (XO
    XH)))))))))))))))))))))))))))))))))))))))))))))))))))))))))))))) :: ((Npos
    (XO (XO (XO (XI (XO (XO (XO (XO (XI (XO (XI (XO (XO (XO (XO (XO (XO (XO
    (XO (XO (XO (XO (XO (XO (XI (XO (XI (XO (XO (XO (XO (XO (XO (XO (XO (XI
    (XO (XO (XO (XO (XO (XO (XO (XO (XI (XO (XO (XO (XO (XO (XO (XO (XO (XI
    (XO (XO (XO (XO (XO (XO (XO (XO
    XH))))))))))))))))))))))))))))))))))))))))))))))))))))))))))))))) :: ((Npos
    (XI (XO (XO (XO (XI (XO (XO (XO (XO (XI (XO (XI (XO (XO (XO (XO (XO (XO
    (XO (XO (XO (XO (XO (XO (XO (XI (XO (XI (XO (XO (XO (XO (XI (XO (XO (XO
    (XI (XO (XO (XO (XO (XO (XO (XO (XO (XI (XO (XO (XO (XO (XO (XO (XO (XO
    (XI (XO (XO (XO (XO (XO (XO (XO (XO
    XH)))))))))))))))))))))))))))))))))))))))))))))))))))))))))))))))) :: ((Npos
    (XO (XI (XO (XO (XO (XI (XO (XO (XO (XO (XI (XO (XI (XO (XO (XO (XO (XO
    (XO (XO (XO (XO (XO (XO (XO (XO (XI (XO (XI (XO (XO (XO (XO (XI (XO (XO
    (XO (XI (XO (XO (XI (XO (XO (XO (XO (XO (XI (XO (XO (XO (XO (XO (XO (XO
    (XO XH)))))))))))))))))))))))))))))))))))))))))))))))))))))))) :: ((Npos
    (XO (XO (XI (XO (XO (XO (XI (XO (XO (XO (XO (XI (XO (XI (XO (XO (XO (XO
    (XO (XO (XO (XO (XO (XO (XO (XO (XO (XI (XO (XI (XO (XO (XO (XO (XI (XO
    (XO (XO (XI (XO (XO (XI (XO (XO (XO (XO (XO (XI
    XH))))))))))))))))))))))))))))))))))))))))))))))))) :: ((Npos (XO (XO (XO
    (XI (XO (XO (XO (XI (XO (XO (XO (XO (XI (XO (XI (XO (XO (XO (XO (XO (XO
    (XO (XO (XO (XO (XO (XO (XO (XI (XO (XI (XO (XO (XO (XO (XI (XO (XO (XO
    (XI (XO (XO (XI (XO (XO (XO (XO (XO (XO (XI (XO (XO (XO (XO (XO (XO
    XH))))))))))))))))))))))))))))))))))))))))))))))))))))))))) :: ((Npos (XO
    (XO (XO (XO (XI (XO (XO (XO (XO (XO (XO (XO (XO (XI (XO (XI (XO (XO (XO
    (XO (XO (XO (XO (XO (XO (XO (XO (XO (XO (XI (XO (XI (XO (XO (XO (XO (XI
    (XO (XO (XO (XO (XO (XO (XI (XO (XO (XO (XO (XO (XO (XI (XO (XO (XO (XO
    (XO (XO
    XH)))))))))))))))))))))))))))))))))))))))))))))))))))))))))) :: ((Npos
    (XO (XO (XO (XO (XO (XI (XO (XO (XO (XO (XO (XO (XO (XO (XI (XO (XO (XO
    (XO (XO (XO (XO (XO (XO (XO (XO (XO (XO (XO (XO (XI (XO (XO (XO (XO (XO
    (XO (XI (XO (XO (XO (XO (XO (XO (XI (XO (XO (XO (XO (XO (XO (XI (XO (XO
    (XO (XO (XO (XO
    XH))))))))))))))))))))))))))))))))))))))))))))))))))))))))))) :: ((Npos
    (XO (XO (XO (XI (XO (XO (XO (XO (XO (XO (XI (XO (XO (XO (XO (XO (XO (XI
    (XO (XO (XO (XO (XO (XO (XO (XO (XO (XO (XO (XO (XO (XO (XO (XI (XO (XO
    (XO (XO (XO (XO (XO (XO (XI (XO (XO (XO (XO (XO (XO (XO (XO (XI (XO (XO
    (XO (XO (XO (XO (XO (XO
    XH))))))))))))))))))))))))))))))))))))))))))))))))))))))))))))) :: ((Npos
    (XO (XO (XO (XO (XI (XO (XO (XO (XO (XO (XO (XI (XO (XO (XO (XO (XI (XO
    (XI (XO (XO (XO (XO (XO (XO (XO (XO (XO (XO (XO (XO (XO (XI (XO (XI (XO
    (XO (XO (XO (XO (XO (XO (XO (XI (XO (XO (XO (XO (XO (XO (XO (XO (XI (XO
    (XO (XO (XO (XO (XO (XO (XO
    XH)))))))))))))))))))))))))))))))))))))))))))))))))))))))))))))) :: ((Npos
    (XO (XO (XO (XO (XO (XI (XO (XO (XI (XO (XO (XO (XI (XO (XO (XO (XO (XI
    (XO (XI (XO (XO (XO (XO (XO (XO (XO (XO (XO (XO (XO (XO (XO (XI (XO (XI
    (XO (XO (XO (XO (XI (XO (XO (XO (XI (XO (XO (XO (XO (XO (XO (XO (XO (XI
    (XO (XO (XO (XO (XO (XO (XO (XO
    XH))))))))))))))))))))))))))))))))))))))))))))))))))))))))))))))) :: ((Npos
    (XI (XO (XO (XO (XO (XO (XI (XO (XO (XI (XO (XO (XO (XI (XO (XO (XO (XO
    (XI (XO (XI (XO (XO (XO (XO (XO (XO (XO (XO (XO (XO (XO (XO (XO (XI (XO
    (XI (XO (XO (XO (XO (XI (XO (XO (XO (XI (XO (XO (XI (XO (XO (XO (XO (XO
    (XI (XO (XO (XO (XO (XO (XO (XO (XO
    XH)))))))))))))))))))))))))))))))))))))))))))))))))))))))))))))))) :: ((Npos
    (XO (XI (XO (XO (XO (XO (XO (XI (XO (XO (XI (XO (XO (XO (XI (XO (XO (XO
    (XO (XI (XO (XI (XO (XO (XO (XO (XO (XO (XO (XO (XO (XO (XO (XO (XO (XI
    (XO (XI (XO (XO (XO (XO (XI (XO (XO (XO (XI (XO (XO (XI (XO (XO (XO (XO
    (XO (XI
    XH))))))))))))))))))))))))))))))))))))))))))))))))))))))))) :: ((Npos (XO
    (XO (XI (XO (XO (XO (XO (XO (XO (XO (XO (XI (XO (XO (XO (XI (XO (XO (XO
    (XO (XI (XO (XI (XO (XO (XO (XO (XO (XO (XO (XO (XO (XO (XO (XO (XO (XI
    (XO (XI (XO (XO (XO (XO (XI (XO (XO (XO (XI (XO (XO (XI (XO (XO (XO (XO
    (XO (XO
    XH)))))))))))))))))))))))))))))))))))))))))))))))))))))))))) :: ((Npos
    (XO (XO (XO (XI (XO (XO (XO (XO (XO (XO (XO (XO (XI (XO (XO (XO (XO (XO
    (XO (XO (XO (XI (XO (XI (XO (XO (XO (XO (XO (XO (XO (XO (XO (XO (XO (XO
    (XO (XI (XO (XI (XO (XO (XO (XO (XI (XO (XO (XO (XO (XO (XO (XI (XO (XO
    (XO (XO (XO (XO
    XH))))))))))))))))))))))))))))))))))))))))))))))))))))))))))) :: ((Npos
    (XO (XO (XO (XO (XI (XO (XO (XO (XO (XO (XO (XO (XO (XI (XO (XO (XO (XO
    (XO (XO (XO (XO (XI (XO (XO (XO (XO (XO (XO (XO (XO (XO (XO (XO (XO (XO
    (XO (XO (XI (XO (XO (XO (XO (XO (XO (XI (XO (XO (XO (XO (XO (XO (XI (XO
    (XO (XO (XO (XO (XO
    XH)))))))))))))))))))))))))))))))))))))))))))))))))))))))))))) :: ((Npos
    (XO (XO (XO (XO (XI (XO (XO (XO (XO (XO (XO (XI (XO (XO (XO (XO (XO (XO
    (XI (XO (XO (XO (XO (XO (XO (XI (XO (XO (XO (XO (XO (XO (XO (XO (XO (XO
    (XO (XO (XO (XO (XO (XI (XO (XO (XO (XO (XO (XO (XO (XO (XI (XO (XO (XO
    (XO (XO (XO (XO (XO
    XH)))))))))))))))))))))))))))))))))))))))))))))))))))))))))))) :: ((Npos
    (XO (XO (XO (XO (XO (XI (XO (XO (XO (XO (XO (XO (XI (XO (XO (XO (XO (XO
    (XO (XI (XO (XO (XO (XO (XI (XO (XI (XO (XO (XO (XO (XO (XO (XO (XO (XO
    (XO (XO (XO (XO (XI (XO (XI (XO (XO (XO (XO (XO (XO (XO (XO (XI (XO (XO
    (XO (XO (XO (XO (XO (XO
    XH))))))))))))))))))))))))))))))))))))))))))))))))))))))))))))) :: ((Npos
    (XO (XO (XO (XO (XO (XO (XI (XO (XO (XO (XO (XO (XO (XI (XO (XO (XI (XO
    (XO (XO (XI (XO (XO (XO (XO (XI (XO (XI (XO (XO (XO (XO (XO (XO (XO (XO
    (XO (XO (XO (XO (XO (XI (XO (XI (XO (XO (XO (XO (XI (XO (XO (XO (XI (XO
    (XO (XO (XO (XO (XO (XO (XO
    XH)))))))))))))))))))))))))))))))))))))))))))))))))))))))))))))) :: ((Npos
    (XO (XO (XO (XO (XO (XO (XO (XI (XI (XO (XO (XO (XO (XO (XI (XO (XO (XI
    (XO (XO (XO (XI (XO (XO (XO (XO (XI (XO (XI (XO (XO (XO (XO (XO (XO (XO
    (XO (XO (XO (XO (XO (XO (XI (XO (XI (XO (XO (XO (XO (XI (XO (XO (XO (XI
    (XO (XO (XI (XO (XO (XO (XO (XO
    XH))))))))))))))))))))))))))))))))))))))))))))))))))))))))))))))) :: ((Npos
    (XI (XO (XO (XO (XO (XO (XO (XO (XO (XI (XO (XO (XO (XO (XO (XI (XO (XO
    (XI (XO (XO (XO (XI (XO (XO (XO (XO (XI (XO (XI (XO (XO (XO (XO (XO (XO
    (XO (XO (XO (XO (XO (XO (XO (XI (XO (XI (XO (XO (XO (XO (XI (XO (XO (XO
    (XI (XO (XO (XI (XO (XO (XO (XO (XO
    XH)))))))))))))))))))))))))))))))))))))))))))))))))))))))))))))))) :: ((Npos
    (XO (XI (XO (XO (XO (XO (XO (XO (XO (XO (XI (XO (XO (XO (XO (XO (XO (XO
    (XO (XI (XO (XO (XO (XI (XO (XO (XO (XO (XI (XO (XI (XO (XO (XO (XO (XO
    (XO (XO (XO (XO (XO (XO (XO (XO (XI (XO (XI (XO (XO (XO (XO (XI (XO (XO
    (XO (XI (XO (XO
    XH))))))))))))))))))))))))))))))))))))))))))))))))))))))))))) :: ((Npos
    (XO (XO (XI (XO (XO (XO (XO (XO (XO (XO (XO (XI (XO (XO (XO (XO (XO (XO
    (XO (XO (XI (XO (XO (XO (XO (XO (XO (XO (XO (XI (XO (XI (XO (XO (XO (XO
    (XO (XO (XO (XO (XO (XO (XO (XO (XO (XI (XO (XI (XO (XO (XO (XO (XI (XO
    (XO (XO (XO (XO (XO
    XH)))))))))))))))))))))))))))))))))))))))))))))))))))))))))))) :: ((Npos
    (XO (XO (XO (XI (XO (XO (XO (XO (XO (XO (XO (XO (XI (XO (XO (XO (XO (XO
    (XO (XO (XO (XI (XO (XO (XO (XO (XO (XO (XO (XO (XI (XO (XO (XO (XO (XO
    (XO (XO (XO (XO (XO (XO (XO (XO (XO (XO (XI (XO (XO (XO (XO (XO (XO (XI
    (XO (XO (XO (XO (XO (XO
    XH))))))))))))))))))))))))))))))))))))))))))))))))))))))))))))) :: ((Npos
    (XO (XO (XO (XO (XO (XI (XO (XO (XO (XO (XO (XO (XI (XO (XO (XO (XO (XO
    (XO (XI (XO (XO (XO (XO (XO (XO (XI (XO (XO (XO (XO (XO (XO (XI (XO (XO
    (XO (XO (XO (XO (XO (XO (XO (XO (XO (XO (XO (XO (XO (XI (XO (XO (XO (XO
    (XO (XO (XO (XO
    XH))))))))))))))))))))))))))))))))))))))))))))))))))))))))))) :: ((Npos
    (XO (XO (XO (XO (XO (XO (XI (XO (XO (XO (XO (XO (XO (XI (XO (XO (XO (XO
    (XO (XO (XI (XO (XO (XO (XO (XO (XO (XI (XO (XO (XO (XO (XI (XO (XI (XO
    (XO (XO (XO (XO (XO (XO (XO (XO (XO (XO (XO (XO (XI (XO (XI (XO (XO (XO
    (XO (XO (XO (XO (XO
    XH)))))))))))))))))))))))))))))))))))))))))))))))))))))))))))) :: ((Npos
    (XO (XO (XO (XO (XO (XO (XO (XI (XO (XO (XO (XO (XO (XO (XI (XO (XO (XO
    (XO (XO (XO (XI (XO (XO (XI (XO (XO (XO (XI (XO (XO (XO (XO (XI (XO (XI
    (XO (XO (XO (XO (XO (XO (XO (XO (XO (XO (XO (XO (XO (XI (XO (XI (XO (XO
    (XO (XO (XI (XO (XO (XO
    XH))))))))))))))))))))))))))))))))))))))))))))))))))))))))))))) :: ((Npos
    (XO (XO (XO (XO (XO (XO (XO (XO (XO (XO (XO (XO (XO (XO (XO (XI (XI (XO
    (XO (XO (XO (XO (XI (XO (XO (XI (XO (XO (XO (XI (XO (XO (XO (XO (XI (XO
    (XI (XO (XO (XO (XO (XO (XO (XO (XO (XO (XO (XO (XO (XO (XI (XO (XI (XO
    (XO (XO (XO (XI (XO (XO (XO
    XH)))))))))))))))))))))))))))))))))))))))))))))))))))))))))))))) :: ((Npos
    (XO (XO (XO (XO (XO (XO (XO (XO (XI (XO (XO (XO (XO (XO (XO (XO (XO (XI
    (XO (XO (XO (XO (XO (XI (XO (XO (XI (XO (XO (XO (XI (XO (XO (XO (XO (XI
    (XO (XI (XO (XO (XO (XO (XO (XO (XO (XO (XO (XO (XO (XO (XO (XI (XO (XI
    (XO (XO (XO (XO (XI (XO (XO (XO
    XH))))))))))))))))))))))))))))))))))))))))))))))))))))))))))))))) :: ((Npos
    (XI (XO (XO (XO (XO (XO (XO (XO (XO (XI (XO (XO (XO (XO (XO (XO (XO (XO
    (XI (XO (XO (XO (XO (XO (XO (XO (XO (XI (XO (XO (XO (XI (XO (XO (XO (XO
    (XI (XO (XI (XO (XO (XO (XO (XO (XO (XO (XO (XO (XO (XO (XO (XO (XI (XO
    (XI (XO (XO (XO (XO (XI (XO (XO (XO
    XH)))))))))))))))))))))))))))))))))))))))))))))))))))))))))))))))) :: ((Npos
    (XO (XI (XO (XO (XO (XO (XO (XO (XO (XO (XI (XO (XO (XO (XO (XO (XO (XO
    (XO (XI (XO (XO (XO (XO (XO (XO (XO (XO (XI (XO (XO (XO (XO (XO (XO (XO
    (XO (XI (XO (XI (XO (XO (XO (XO (XO (XO (XO (XO (XO (XO (XO (XO (XO (XI
    (XO (XI (XO (XO (XO (XO
    XH))))))))))))))))))))))))))))))))))))))))))))))))))))))))))))) :: ((Npos
    (XO (XO (XI (XO (XO (XO (XO (XO (XO (XO (XO (XI (XO (XO (XO (XO (XO (XO
    (XO (XO (XI (XO (XO (XO (XO (XO (XO (XO (XO (XI (XO (XO (XO (XO (XO (XO
    (XO (XO (XI (XO (XO (XO (XO (XO (XO (XO (XO (XO (XO (XO (XO (XO (XO (XO
    (XI (XO (XO (XO (XO (XO (XO
    XH)))))))))))))))))))))))))))))))))))))))))))))))))))))))))))))) :: ((Npos
    (XO (XO (XO (XO (XO (XO (XI (XO (XO (XO (XO (XO (XO (XI (XO (XO (XO (XO
    (XO (XO (XI (XO (XO (XO (XO (XO (XO (XI (XO (XO (XO (XO (XO (XO (XI (XO
    (XO (XO (XO (XO (XO (XI (XO (XO (XO (XO (XO (XO (XO (XO (XO (XO (XO (XO
    (XO (XO (XO
    XH)))))))))))))))))))))))))))))))))))))))))))))))))))))))))) :: ((Npos
    (XO (XO (XO (XO (XO (XO (XO (XI (XO (XO (XO (XO (XO (XO (XI (XO (XO (XO
    (XO (XO (XO (XI (XO (XO (XO (XO (XO (XO (XI (XO (XO (XO (XO (XO (XO (XI
    (XO (XO (XO (XO (XI (XO (XI (XO (XO (XO (XO (XO (XO (XO (XO (XO (XO (XO
    (XO (XO (XI (XO
    XH))))))))))))))))))))))))))))))))))))))))))))))))))))))))))) :: ((Npos
    (XO (XO (XO (XO (XO (XO (XO (XO (XO (XO (XO (XO (XO (XO (XO (XI (XO (XO
    (XO (XO (XO (XO (XI (XO (XO (XO (XO (XO (XO (XI (XO (XO (XI (XO (XO (XO
    (XI (XO (XO (XO (XO (XI (XO (XI (XO (XO (XO (XO (XO (XO (XO (XO (XO (XO
    (XO (XO (XO (XI (XO
    XH)))))))))))))))))))))))))))))))))))))))))))))))))))))))))))) :: ((Npos
    (XO (XO (XO (XO (XO (XO (XO (XO (XO (XO (XO (XO (XO (XO (XO (XO (XO (XO
    (XO (XO (XO (XO (XO (XI (XI (XO (XO (XO (XO (XO (XI (XO (XO (XI (XO (XO
    (XO (XI (XO (XO (XO (XO (XI (XO (XI (XO (XO (XO (XO (XO (XO (XO (XO (XO
    (XO (XO (XO (XO (XI (XO
    XH))))))))))))))))))))))))))))))))))))))))))))))))))))))))))))) :: ((Npos
    (XO (XO (XO (XO (XO (XO (XO (XO (XO (XO (XO (XO (XO (XO (XO (XO (XI (XO
    (XO (XO (XO (XO (XO (XO (XO (XI (XO (XO (XO (XO (XO (XI (XO (XO (XI (XO
    (XO (XO (XI (XO (XO (XO (XO (XI (XO (XI (XO (XO (XO (XO (XO (XO (XO (XO
    (XO (XO (XO (XO (XO (XI (XO
    XH)))))))))))))))))))))))))))))))))))))))))))))))))))))))))))))) :: ((Npos
    (XO (XO (XO (XO (XO (XO (XO (XO (XI (XO (XO (XO (XO (XO (XO (XO (XO (XI
    (XO (XO (XO (XO (XO (XO (XO (XO (XI (XO (XO (XO (XO (XO (XO (XO (XO (XI
    (XO (XO (XO (XI (XO (XO (XO (XO (XI (XO (XI (XO (XO (XO (XO (XO (XO (XO
    (XO (XO (XO (XO (XO (XO (XI (XO
    XH))))))))))))))))))))))))))))))))))))))))))))))))))))))))))))))) :: ((Npos
    (XI (XO (XO (XO (XO (XO (XO (XO (XO (XI (XO (XO (XO (XO (XO (XO (XO (XO
    (XI (XO (XO (XO (XO (XO (XO (XO (XO (XI (XO (XO (XO (XO (XO (XO (XO (XO
    (XI (XO (XO (XO (XO (XO (XO (XO (XO (XI (XO (XI (XO (XO (XO (XO (XO (XO
    (XO (XO (XO (XO (XO (XO (XO (XI (XO
    XH)))))))))))))))))))))))))))))))))))))))))))))))))))))))))))))))) :: ((Npos
    (XO (XI (XO (XO (XO (XO (XO (XO (XO (XO (XI (XO (XO (XO (XO (XO (XO (XO
    (XO (XI (XO (XO (XO (XO (XO (XO (XO (XO (XI (XO (XO (XO (XO (XO (XO (XO
    (XO (XI (XO (XO (XO (XO (XO (XO (XO (XO (XI (XO (XO (XO (XO (XO (XO (XO
    (XO (XO (XO (XO (XO (XO (XO (XO
    XH))))))))))))))))))))))))))))))))))))))))))))))))))))))))))))))) :: ((Npos
    (XO (XO (XO (XO (XO (XO (XO (XI (XO (XO (XO (XO (XO (XO (XI (XO (XO (XO
    (XO (XO (XO (XI (XO (XO (XO (XO (XO (XO (XI (XO (XO (XO (XO (XO (XO (XI
    (XO (XO (XO (XO (XO (XO (XI (XO (XO (XO (XO (XO (XO
    XH)))))))))))))))))))))))))))))))))))))))))))))))))) :: ((Npos (XO (XO
    (XO (XO (XO (XO (XO (XO (XO (XO (XO (XO (XO (XO (XO (XI (XO (XO (XO (XO
    (XO (XO (XI (XO (XO (XO (XO (XO (XO (XI (XO (XO (XO (XO (XO (XO (XI (XO
    (XO (XO (XO (XO (XO (XI (XO (XO (XO (XO (XI (XO
    XH))))))))))))))))))))))))))))))))))))))))))))))))))) :: ((Npos (XO (XO
    (XO (XO (XO (XO (XO (XO (XO (XO (XO (XO (XO (XO (XO (XO (XO (XO (XO (XO
    (XO (XO (XO (XI (XO (XO (XO (XO (XO (XO (XI (XO (XO (XO (XO (XO (XO (XI
    (XO (XO (XI (XO (XO (XO (XI (XO (XO (XO (XO (XI (XO
    XH)))))))))))))))))))))))))))))))))))))))))))))))))))) :: ((Npos (XO (XO
    (XO (XO (XO (XO (XO (XO (XO (XO (XO (XO (XO (XO (XO (XO (XO (XO (XO (XO
    (XO (XO (XO (XO (XO (XO (XO (XO (XO (XO (XO (XI (XI (XO (XO (XO (XO (XO
    (XI (XO (XO (XI (XO (XO (XO (XI (XO (XO (XO (XO (XI (XO
    XH))))))))))))))))))))))))))))))))))))))))))))))))))))) :: ((Npos (XO (XO
    (XO (XO (XO (XO (XO (XO (XO (XO (XO (XO (XO (XO (XO (XO (XO (XO (XO (XO
    (XO (XO (XO (XO (XI (XO (XO (XO (XO (XO (XO (XO (XO (XI (XO (XO (XO (XO
    (XO (XI (XO (XO (XI (XO (XO (XO (XI (XO (XO (XO (XO (XI (XO
    XH)))))))))))))))))))))))))))))))))))))))))))))))))))))) :: ((Npos (XO
    (XO (XO (XO (XO (XO (XO (XO (XO (XO (XO (XO (XO (XO (XO (XO (XI (XO (XO
    (XO (XO (XO (XO (XO (XO (XI (XO (XO (XO (XO (XO (XO (XO (XO (XI (XO (XO
    (XO (XO (XO (XO (XO (XO (XI (XO (XO (XO (XI (XO (XO (XO (XO (XI (XO
    XH))))))))))))))))))))))))))))))))))))))))))))))))))))))) :: ((Npos (XO
    (XO (XO (XO (XO (XO (XO (XO (XI (XO (XO (XO (XO (XO (XO (XO (XO (XI (XO
    (XO (XO (XO (XO (XO (XO (XO (XI (XO (XO (XO (XO (XO (XO (XO (XO (XI (XO
    (XO (XO (XO (XO (XO (XO (XO (XI (XO (XO (XO (XO (XO (XO (XO (XO (XI (XO
    XH)))))))))))))))))))))))))))))))))))))))))))))))))))))))) :: ((Npos (XI
    (XO (XO (XO (XO (XO (XO (XO (XO (XI (XO (XO (XO (XO (XO (XO (XO (XO (XI
    (XO (XO (XO (XO (XO (XO (XO (XO (XI (XO (XO (XO (XO (XO (XO (XO (XO (XI
    (XO (XO (XO (XO (XO (XO (XO (XO (XI (XO (XO (XO (XO (XO (XO (XO (XO
    XH))))))))))))))))))))))))))))))))))))))))))))))))))))))) :: [])))))))))))))))))))))))))))))))))))))))))))))))))))))))))))))))

(** val rOOK_T : bb list **)

let rOOK_T =
  (Npos (XO (XI (XI (XI (XI (XI (XI (XI (XI (XO (XO (XO (XO (XO (XO (XO (XI
    (XO (XO (XO (XO (XO (XO (XO (XI (XO (XO (XO (XO (XO (XO (XO (XI (XO (XO
    (XO (XO (XO (XO (XO (XI (XO (XO (XO (XO (XO (XO (XO (XI (XO (XO (XO (XO
    (XO (XO (XO
    XH))))))))))))))))))))))))))))))))))))))))))))))))))))))))) :: ((Npos (XI
    (XO (XI (XI (XI (XI (XI (XI (XO (XI (XO (XO (XO (XO (XO (XO (XO (XI (XO
    (XO (XO (XO (XO (XO (XO (XI (XO (XO (XO (XO (XO (XO (XO (XI (XO (XO (XO
    (XO (XO (XO (XO (XI (XO (XO (XO (XO (XO (XO (XO (XI (XO (XO (XO (XO (XO
    (XO (XO
    XH)))))))))))))))))))))))))))))))))))))))))))))))))))))))))) :: ((Npos
    (XI (XI (XO (XI (XI (XI (XI (XI (XO (XO (XI (XO (XO (XO (XO (XO (XO (XO
    (XI (XO (XO (XO (XO (XO (XO (XO (XI (XO (XO (XO (XO (XO (XO (XO (XI (XO
    (XO (XO (XO (XO (XO (XO (XI (XO (XO (XO (XO (XO (XO (XO (XI (XO (XO (XO
    (XO (XO (XO (XO
    XH))))))))))))))))))))))))))))))))))))))))))))))))))))))))))) :: ((Npos
    (XI (XI (XI (XO (XI (XI (XI (XI (XO (XO (XO (XI (XO (XO (XO (XO (XO (XO
    (XO (XI (XO (XO (XO (XO (XO (XO (XO (XI (XO (XO (XO (XO (XO (XO (XO (XI
    (XO (XO (XO (XO (XO (XO (XO (XI (XO (XO (XO (XO (XO (XO (XO (XI (XO (XO
    (XO (XO (XO (XO (XO
    XH)))))))))))))))))))))))))))))))))))))))))))))))))))))))))))) :: ((Npos
    (XI (XI (XI (XI (XO (XI (XI (XI (XO (XO (XO (XO (XI (XO (XO (XO (XO (XO
    (XO (XO (XI (XO (XO (XO (XO (XO (XO (XO (XI (XO (XO (XO (XO (XO (XO (XO
    (XI (XO (XO (XO (XO (XO (XO (XO (XI (XO (XO (XO (XO (XO (XO (XO (XI (XO
    (XO (XO (XO (XO (XO (XO
    XH))))))))))))))))))))))))))))))))))))))))))))))))))))))))))))) :: ((Npos
    (XI (XI (XI (XI (XI (XO (XI (XI (XO (XO (XO (XO (XO (XI (XO (XO (XO (XO
    (XO (XO (XO (XI (XO (XO (XO (XO (XO (XO (XO (XI (XO (XO (XO (XO (XO (XO
    (XO (XI (XO (XO (XO (XO (XO (XO (XO (XI (XO (XO (XO (XO (XO (XO (XO (XI
    (XO (XO (XO (XO (XO (XO (XO
    XH)))))))))))))))))))))))))))))))))))))))))))))))))))))))))))))) :: ((Npos
    (XI (XI (XI (XI (XI (XI (XO (XI (XO (XO (XO (XO (XO (XO (XI (XO (XO (XO
    (XO (XO (XO (XO (XI (XO (XO (XO (XO (XO (XO (XO (XI (XO (XO (XO (XO (XO
    (XO (XO (XI (XO (XO (XO (XO (XO (XO (XO (XI (XO (XO (XO (XO (XO (XO (XO
    (XI (XO (XO (XO (XO (XO (XO (XO
    XH))))))))))))))))))))))))))))))))))))))))))))))))))))))))))))))) :: ((Npos
    (XI (XI (XI (XI (XI (XI (XI (XO (XO (XO (XO (XO (XO (XO (XO (XI (XO (XO
    (XO (XO (XO (XO (XO (XI (XO (XO (XO (XO (XO (XO (XO (XI (XO (XO (XO (XO
    (XO (XO (XO (XI (XO (XO (XO (XO (XO (XO (XO (XI (XO (XO (XO (XO (XO (XO
    (XO (XI (XO (XO (XO (XO (XO (XO (XO
    XH)))))))))))))))))))))))))))))))))))))))))))))))))))))))))))))))) :: ((Npos
    (XI (XO (XO (XO (XO (XO (XO (XO (XO (XI (XI (XI (XI (XI (XI (XI (XI (XO
    (XO (XO (XO (XO (XO (XO (XI (XO (XO (XO (XO (XO (XO (XO (XI (XO (XO (XO
    (XO (XO (XO (XO (XI (XO (XO (XO (XO (XO (XO (XO (XI (XO (XO (XO (XO (XO
    (XO (XO
    XH))))))))))))))))))))))))))))))))))))))))))))))))))))))))) :: ((Npos (XO
    (XI (XO (XO (XO (XO (XO (XO (XI (XO (XI (XI (XI (XI (XI (XI (XO (XI (XO
    (XO (XO (XO (XO (XO (XO (XI (XO (XO (XO (XO (XO (XO (XO (XI (XO (XO (XO
    (XO (XO (XO (XO (XI (XO (XO (XO (XO (XO (XO (XO (XI (XO (XO (XO (XO (XO
    (XO (XO
    XH)))))))))))))))))))))))))))))))))))))))))))))))))))))))))) :: ((Npos
    (XO (XO (XI (XO (XO (XO (XO (XO (XI (XI (XO (XI (XI (XI (XI (XI (XO (XO
    (XI (XO (XO (XO (XO (XO (XO (XO (XI (XO (XO (XO (XO (XO (XO (XO (XI (XO
    (XO (XO (XO (XO (XO (XO (XI (XO (XO (XO (XO (XO (XO (XO (XI (XO (XO (XO
    (XO (XO (XO (XO
    XH))))))))))))))))))))))))))))))))))))))))))))))))))))))))))) :: ((Npos
    (XO (XO (XO (XI (XO (XO (XO (XO (XI (XI (XI (XO (XI (XI (XI (XI (XO (XO
    (XO (XI (XO (XO (XO (XO (XO (XO (XO (XI (XO (XO (XO (XO (XO (XO (XO (XI
    (XO (XO (XO (XO (XO (XO (XO (XI (XO (XO (XO (XO (XO (XO (XO (XI (XO (XO
    (XO (XO (XO (XO (XO
    XH)))))))))))))))))))))))))))))))))))))))))))))))))))))))))))) :: ((Npos
    (XO (XO (XO (XO (XI (XO (XO (XO (XI (XI (XI (XI (XO (XI (XI (XI (XO (XO
    (XO (XO (XI (XO (XO (XO (XO (XO (XO (XO (XI (XO (XO (XO (XO (XO (XO (XO
    (XI (XO (XO (XO (XO (XO (XO (XO (XI (XO (XO (XO (XO (XO (XO (XO (XI (XO
    (XO (XO (XO (XO (XO (XO
    XH))))))))))))))))))))))))))))))))))))))))))))))))))))))))))))) :: ((Npos
    (XO (XO (XO (XO (XO (XI (XO (XO (XI (XI (XI (XI (XI (XO (XI (XI (XO (XO
    (XO (XO (XO (XI (XO (XO (XO (XO (XO (XO (XO (XI (XO (XO (XO (XO (XO (XO
    (XO (XI (XO (XO (XO (XO (XO (XO (XO (XI (XO (XO (XO (XO (XO (XO (XO (XI
    (XO (XO (XO (XO (XO (XO (XO
    XH)))))))))))))))))))))))))))))))))))))))))))))))))))))))))))))) :: ((Npos
    (XO (XO (XO (XO (XO (XO (XI (XO (XI (XI (XI (XI (XI (XI (XO (XI (XO (XO
    (XO (XO (XO (XO (XI (XO (XO (XO (XO (XO (XO (XO (XI (XO (XO (XO (XO (XO
    (XO (XO (XI (XO (XO (XO (XO (XO (XO (XO (XI (XO (XO (XO (XO (XO (XO (XO
    (XI (XO (XO (XO (XO (XO (XO (XO
    XH))))))))))))))))))))))))))))))))))))))))))))))))))))))))))))))) :: ((Npos
    (XO (XO (XO (XO (XO (XO (XO (XI (XI (XI (XI (XI (XI (XI (XI (XO (XO (XO
    (XO (XO (XO (XO (XO (XI (XO (XO (XO (XO (XO (XO (XO (XI (XO (XO (XO (XO
    (XO (XO (XO (XI (XO (XO (XO (XO (XO (XO (XO (XI (XO (XO (XO (XO (XO (XO
    (XO (XI (XO (XO (XO (XO (XO (XO (XO
    XH)))))))))))))))))))))))))))))))))))))))))))))))))))))))))))))))) :: ((Npos
    (XI (XO (XO (XO (XO (XO (XO (XO (XI (XO (XO (XO (XO (XO (XO (XO (XO (XI
    (XI (XI (XI (XI (XI (XI (XI (XO (XO (XO (XO (XO (XO (XO (XI (XO (XO (XO
    (XO (XO (XO (XO (XI (XO (XO (XO (XO (XO (XO (XO (XI (XO (XO (XO (XO (XO
    (XO (XO
    XH))))))))))))))))))))))))))))))))))))))))))))))))))))))))) :: ((Npos (XO
    (XI (XO (XO (XO (XO (XO (XO (XO (XI (XO (XO (XO (XO (XO (XO (XI (XO (XI
    (XI (XI (XI (XI (XI (XO (XI (XO (XO (XO (XO (XO (XO (XO (XI (XO (XO (XO
    (XO (XO (XO (XO (XI (XO (XO (XO (XO (XO (XO (XO (XI (XO (XO (XO (XO (XO
    (XO (XO
    XH)))))))))))))))))))))))))))))))))))))))))))))))))))))))))) :: ((Npos
    (XO (XO (XI (XO (XO (XO (XO (XO (XO (XO (XI (XO (XO (XO (XO (XO (XI (XI
    (XO (XI (XI (XI (XI (XI (XO (XO (XI (XO (XO (XO (XO (XO (XO (XO (XI (XO
    (XO (XO (XO (XO (XO (XO (XI (XO (XO (XO (XO (XO (XO (XO (XI (XO (XO (XO
    (XO (XO (XO (XO
    XH))))))))))))))))))))))))))))))))))))))))))))))))))))))))))) :: ((Npos
    (XO (XO (XO (XI (XO (XO (XO (XO (XO (XO (XO (XI (XO (XO (XO (XO (XI (XI
    (XI (XO (XI (XI (XI (XI (XO (XO (XO (XI (XO (XO (XO (XO (XO (XO (XO (XI
    (XO (XO (XO (XO (XO (XO (XO (XI (XO (XO (XO (XO (XO (XO (XO (XI (XO (XO
    (XO (XO (XO (XO (XO
    XH)))))))))))))))))))))))))))))))))))))))))))))))))))))))))))) :: ((Npos
    (XO (XO (XO (XO (XI (XO (XO (XO (XO (XO (XO (XO (XI (XO (XO (XO (XI (XI
    (XI (XI (XO (XI (XI (XI (XO (XO (XO (XO (XI (XO (XO (XO (XO (XO (XO (XO
    (XI (XO (XO (XO (XO (XO (XO (XO (XI (XO (XO (XO (XO (XO (XO (XO (XI (XO
    (XO (XO (XO (XO (XO (XO
    XH))))))))))))))))))))))))))))))))))))))))))))))))))))))))))))) :: ((Npos
    (XO (XO (XO (XO (XO (XI (XO (XO (XO (XO (XO (XO (XO (XI (XO (XO (XI (XI
    (XI (XI (XI (XO (XI (XI (XO (XO (XO (XO (XO (XI (XO (XO (XO (XO (XO (XO
    (XO (XI (XO (XO (XO (XO (XO (XO (XO (XI (XO (XO (XO (XO (XO (XO (XO (XI
    (XO (XO (XO (XO (XO (XO (XO
    XH)))))))))))))))))))))))))))))))))))))))))))))))))))))))))))))) :: ((Npos
    (XO (XO (XO (XO (XO (XO (XI (XO (XO (XO (XO (XO (XO (XO (XI (XO (XI (XI
    (XI (XI (XI (XI (XO (XI (XO (XO (XO (XO (XO (XO (XI (XO (XO (XO (XO (XO
    (XO (XO (XI (XO (XO (XO (XO (XO (XO (XO (XI (XO (XO (XO (XO (XO (XO (XO
    (XI (XO (XO (XO (XO (XO (XO (XO
    XH))))))))))))))))))))))))))))))))))))))))))))))))))))))))))))))) :: ((Npos
    (XO (XO (XO (XO (XO (XO (XO (XI (XO (XO (XO (XO (XO (XO (XO (XI (XI (XI
    (XI (XI (XI (XI (XI (XO (XO (XO (XO (XO (XO (XO (XO (XI (XO (XO (XO (XO
    (XO (XO (XO (XI (XO (XO (XO (XO (XO (XO (XO (XI (XO (XO (XO (XO (XO (XO
    (XO (XI (XO (XO (XO (XO (XO (XO (XO
    XH)))))))))))))))))))))))))))))))))))))))))))))))))))))))))))))))) :: ((Npos
    (XI (XO (XO (XO (XO (XO (XO (XO (XI (XO (XO (XO (XO (XO (XO (XO (XI (XO
    (XO (XO (XO (XO (XO (XO (XO (XI (XI (XI (XI (XI (XI (XI (XI (XO (XO (XO
    (XO (XO (XO (XO (XI (XO (XO (XO (XO (XO (XO (XO (XI (XO (XO (XO (XO (XO
    (XO (XO
    XH))))))))))))))))))))))))))))))))))))))))))))))))))))))))) :: ((Npos (XO
    (XI (XO (XO (XO (XO (XO (XO (XO (XI (XO (XO (XO (XO (XO (XO (XO (XI (XO
    (XO (XO (XO (XO (XO (XI (XO (XI (XI (XI (XI (XI (XI (XO (XI (XO (XO (XO
    (XO (XO (XO (XO (XI (XO (XO (XO (XO (XO (XO (XO (XI (XO (XO (XO (XO (XO
    (XO (XO
    XH)))))))))))))))))))))))))))))))))))))))))))))))))))))))))) :: ((Npos
    (XO (XO (XI (XO (XO (XO (XO (XO (XO (XO (XI (XO (XO (XO (XO (XO (XO (XO
    (XI (XO (XO (XO (XO (XO (XI (XI (XO (XI (XI (XI (XI (XI (XO (XO (XI (XO
    (XO (XO (XO (XO (XO (XO (XI (XO (XO (XO (XO (XO (XO (XO (XI (XO (XO (XO
    (XO (XO (XO (XO
    XH))))))))))))))))))))))))))))))))))))))))))))))))))))))))))) :: ((Npos
    (XO (XO (XO (XI (XO (XO (XO (XO (XO (XO (XO (XI (XO (XO (XO (XO (XO (XO
    (XO (XI (XO (XO (XO (XO (XI (XI (XI (XO (XI (XI (XI (XI (XO (XO (XO (XI
    (XO (XO (XO (XO (XO (XO (XO (XI (XO (XO (XO (XO (XO (XO (XO (XI (XO (XO
    (XO (XO (XO (XO (XO
    XH)))))))))))))))))))))))))))))))))))))))))))))))))))))))))))) :: ((Npos
    (XO (XO (XO (XO (XI (XO (XO (XO (XO (XO (XO (XO (XI (XO (XO (XO (XO (XO
    (XO (XO (XI (XO (XO (XO (XI (XI (XI (XI (XO (XI (XI (XI (XO (XO (XO (XO
    (XI (XO (XO (XO (XO (XO (XO (XO (XI (XO (XO (XO (XO (XO (XO (XO (XI (XO
    (XO (XO (XO (XO (XO (XO
    XH))))))))))))))))))))))))))))))))))))))))))))))))))))))))))))) :: ((Npos
    (XO (XO (XO (XO (XO (XI (XO (XO (XO (XO (XO (XO (XO (XI (XO (XO (XO (XO
    (XO (XO (XO (XI (XO (XO (XI (XI (XI (XI (XI (XO (XI (XI (XO (XO (XO (XO
    (XO (XI (XO (XO (XO (XO (XO (XO (XO (XI (XO (XO (XO (XO (XO (XO (XO (XI
    (XO (XO (XO (XO (XO (XO (XO
    XH)))))))))))))))))))))))))))))))))))))))))))))))))))))))))))))) :: ((Npos
    (XO (XO (XO (XO (XO (XO (XI (XO (XO (XO (XO (XO (XO (XO (XI (XO (XO (XO
    (XO (XO (XO (XO (XI (XO (XI (XI (XI (XI (XI (XI (XO (XI (XO (XO (XO (XO
    (XO (XO (XI (XO (XO (XO (XO (XO (XO (XO (XI (XO (XO (XO (XO (XO (XO (XO
    (XI (XO (XO (XO (XO (XO (XO (XO
    XH))))))))))))))))))))))))))))))))))))))))))))))))))))))))))))))) :: ((Npos
    (XO (XO (XO (XO (XO (XO (XO (XI (XO (XO (XO (XO (XO (XO (XO (XI (XO (XO
    (XO (XO (XO (XO (XO (XI (XI (XI (XI (XI (XI (XI (XI (XO (XO (XO (XO (XO
    (XO (XO (XO (XI (XO (XO (XO (XO (XO (XO (XO (XI (XO (XO (XO (XO (XO (XO
    (XO (XI (XO (XO (XO (XO (XO (XO (XO
    XH)))))))))))))))))))))))))))))))))))))))))))))))))))))))))))))))) :: ((Npos
    (XI (XO (XO (XO (XO (XO (XO (XO (XI (XO (XO (XO (XO (XO (XO (XO (XI (XO
    (XO (XO (XO (XO (XO (XO (XI (XO (XO (XO (XO (XO (XO (XO (XO (XI (XI (XI
    (XI (XI (XI (XI (XI (XO (XO (XO (XO (XO (XO (XO (XI (XO (XO (XO (XO (XO
    (XO (XO
    XH))))))))))))))))))))))))))))))))))))))))))))))))))))))))) :: ((Npos (XO
    (XI (XO (XO (XO (XO (XO (XO (XO (XI (XO (XO (XO (XO (XO (XO (XO (XI (XO
    (XO (XO (XO (XO (XO (XO (XI (XO (XO (XO (XO (XO (XO (XI (XO (XI (XI (XI
    (XI (XI (XI (XO (XI (XO (XO (XO (XO (XO (XO (XO (XI (XO (XO (XO (XO (XO
    (XO (XO
    XH)))))))))))))))))))))))))))))))))))))))))))))))))))))))))) :: ((Npos
    (XO (XO (XI (XO (XO (XO (XO (XO (XO (XO (XI (XO (XO (XO (XO (XO (XO (XO
    (XI (XO (XO (XO (XO (XO (XO (XO (XI (XO (XO (XO (XO (XO (XI (XI (XO (XI
    (XI (XI (XI (XI (XO (XO (XI (XO (XO (XO (XO (XO (XO (XO (XI (XO (XO (XO
    (XO (XO (XO (XO
    XH))))))))))))))))))))))))))))))))))))))))))))))))))))))))))) :: ((Npos
    (XO (XO (XO (XI (XO (XO (XO (XO (XO (XO (XO (XI (XO (XO (XO (XO (XO (XO
    (XO (XI (XO (XO (XO (XO (XO (XO (XO (XI (XO (XO (XO (XO (XI (XI (XI (XO
    (XI (XI (XI (XI (XO (XO (XO (XI (XO (XO (XO (XO (XO (XO (XO (XI (XO (XO
    (XO (XO (XO (XO (XO
    XH)))))))))))))))))))))))))))))))))))))))))))))))))))))))))))) :: ((Npos
    (XO (XO (XO (XO (XI (XO (XO (XO (XO (XO (XO (XO (XI (XO (XO (XO (XO (XO
    (XO (XO (XI (XO (XO (XO (XO (XO (XO (XO (XI (XO (XO (XO (XI (XI (XI (XI
    (XO (XI (XI (XI (XO (XO (XO (XO (XI (XO (XO (XO (XO (XO (XO (XO (XI (XO
    (XO (XO (XO (XO (XO (XO
    XH))))))))))))))))))))))))))))))))))))))))))))))))))))))))))))) :: ((Npos
    (XO (XO (XO (XO (XO (XI (XO (XO (XO (XO (XO (XO (XO (XI (XO (XO (XO (XO
    (XO (XO (XO (XI (XO (XO (XO (XO (XO (XO (XO (XI (XO (XO (XI (XI (XI (XI
    (XI (XO (XI (XI (XO (XO (XO (XO (XO (XI (XO (XO (XO (XO (XO (XO (XO (XI
    (XO (XO (XO (XO (XO (XO (XO
    XH)))))))))))))))))))))))))))))))))))))))))))))))))))))))))))))) :: ((Npos
    (XO (XO (XO (XO (XO (XO (XI (XO (XO (XO (XO (XO (XO (XO (XI (XO (XO (XO
    (XO (XO (XO (XO (XI (XO (XO (XO (XO (XO (XO (XO (XI (XO (XI (XI (XI (XI
    (XI (XI (XO (XI (XO (XO (XO (XO (XO (XO (XI (XO (XO (XO (XO (XO (XO (XO
    (XI (XO (XO (XO (XO (XO (XO (XO
    XH))))))))))))))))))))))))))))))))))))))))))))))))))))))))))))))) :: ((Npos
    (XO (XO (XO (XO (XO (XO (XO (XI (XO (XO (XO (XO (XO (XO (XO (XI (XO (XO
    (XO (XO (XO (XO (XO (XI (XO (XO (XO (XO (XO (XO (XO (XI (XI (XI (XI (XI
    (XI (XI (XI (XO (XO (XO (XO (XO (XO (XO (XO (XI (XO (XO (XO (XO (XO (XO
    (XO (XI (XO (XO (XO (XO (XO (XO (XO
    XH)))))))))))))))))))))))))))))))))))))))))))))))))))))))))))))))) :: ((Npos
    (XI (XO (XO (XO (XO (XO (XO (XO (XI (XO (XO (XO (XO (XO (XO (XO (XI (XO
    (XO (XO (XO (XO (XO (XO (XI (XO (XO (XO (XO (XO (XO (XO (XI (XO (XO (XO
    (XO (XO (XO (XO (XO (XI (XI (XI (XI (XI (XI (XI (XI (XO (XO (XO (XO (XO
    (XO (XO
    XH))))))))))))))))))))))))))))))))))))))))))))))))))))))))) :: ((Npos (XO
    (XI (XO (XO (XO (XO (XO (XO (XO (XI (XO (XO (XO (XO (XO (XO (XO (XI (XO
    (XO (XO (XO (XO (XO (XO (XI (XO (XO (XO (XO (XO (XO (XO (XI (XO (XO (XO
    (XO (XO (XO (XI (XO (XI (XI (XI (XI (XI (XI (XO (XI (XO (XO (XO (XO (XO
    (XO (XO
    XH)))))))))))))))))))))))))))))))))))))))))))))))))))))))))) :: ((Npos
    (XO (XO (XI (XO (XO (XO (XO (XO (XO (XO (XI (XO (XO (XO (XO (XO (XO (XO
    (XI (XO (XO (XO (XO (XO (XO (XO (XI (XO (XO (XO (XO (XO (XO (XO (XI (XO
    (XO (XO (XO (XO (XI (XI (XO (XI (XI (XI (XI (XI (XO (XO (XI (XO (XO (XO
    (XO (XO (XO (XO
    XH))))))))))))))))))))))))))))))))))))))))))))))))))))))))))) :: ((Npos
    (XO (XO (XO (XI (XO (XO (XO (XO (XO (XO (XO (XI (XO (XO (XO (XO (XO (XO
    (XO (XI (XO (XO (XO (XO (XO (XO (XO (XI (XO (XO (XO (XO (XO (XO (XO (XI
    (XO (XO (XO (XO (XI (XI (XI (XO (XI (XI (XI (XI (XO (XO (XO (XI (XO (XO
    (XO (XO (XO (XO (XO
    XH)))))))))))))))))))))))))))))))))))))))))))))))))))))))))))) :: ((Npos
    (XO (XO (XO (XO (XI (XO (XO (XO (XO (XO (XO (XO (XI (XO (XO (XO (XO (XO
    (XO (XO (XI (XO (XO (XO (XO (XO (XO (XO (XI (XO (XO (XO (XO (XO (XO (XO
    (XI (XO (XO (XO (XI (XI (XI (XI (XO (XI (XI (XI (XO (XO (XO (XO (XI (XO
    (XO (XO (XO (XO (XO (XO
    XH))))))))))))))))))))))))))))))))))))))))))))))))))))))))))))) :: ((Npos
    (XO (XO (XO (XO (XO (XI (XO (XO (XO (XO (XO (XO (XO (XI (XO (XO (XO (XO
    (XO (XO (XO (XI (XO (XO (XO (XO (XO (XO (XO (XI (XO (XO (XO (XO (XO (XO
    (XO (XI (XO (XO (XI (XI (XI (XI (XI (XO (XI (XI (XO (XO (XO (XO (XO (XI
    (XO (XO (XO (XO (XO (XO (XO
    XH)))))))))))))))))))))))))))))))))))))))))))))))))))))))))))))) :: ((Npos
    (XO (XO (XO (XO (XO (XO (XI (XO (XO (XO (XO (XO (XO (XO (XI (XO (XO (XO
    (XO (XO (XO (XO (XI (XO (XO (XO (XO (XO (XO (XO (XI (XO (XO (XO (XO (XO
    (XO (XO (XI (XO (XI (XI (XI (XI (XI (XI (XO (XI (XO (XO (XO (XO (XO (XO
    (XI (XO (XO (XO (XO (XO (XO (XO
    XH))))))))))))))))))))))))))))))))))))))))))))))))))))))))))))))) :: ((Npos
    (XO (XO (XO (XO (XO (XO (XO (XI (XO (XO (XO (XO (XO (XO (XO (XI (XO (XO
    (XO (XO (XO (XO (XO (XI (XO (XO (XO (XO (XO (XO (XO (XI (XO (XO (XO (XO
    (XO (XO (XO (XI (XI (XI (XI (XI (XI (XI (XI (XO (XO (XO (XO (XO (XO (XO
    (XO (XI (XO (XO (XO (XO (XO (XO (XO
    XH)))))))))))))))))))))))))))))))))))))))))))))))))))))))))))))))) :: ((Npos
    (XI (XO (XO (XO (XO (XO (XO (XO (XI (XO (XO (XO (XO (XO (XO (XO (XI (XO
    (XO (XO (XO (XO (XO (XO (XI (XO (XO (XO (XO (XO (XO (XO (XI (XO (XO (XO
    (XO (XO (XO (XO (XI (XO (XO (XO (XO (XO (XO (XO (XO (XI (XI (XI (XI (XI
    (XI (XI
    XH))))))))))))))))))))))))))))))))))))))))))))))))))))))))) :: ((Npos (XO
    (XI (XO (XO (XO (XO (XO (XO (XO (XI (XO (XO (XO (XO (XO (XO (XO (XI (XO
    (XO (XO (XO (XO (XO (XO (XI (XO (XO (XO (XO (XO (XO (XO (XI (XO (XO (XO
    (XO (XO (XO (XO (XI (XO (XO (XO (XO (XO (XO (XI (XO (XI (XI (XI (XI (XI
    (XI (XO
    XH)))))))))))))))))))))))))))))))))))))))))))))))))))))))))) :: ((Npos
    (XO (XO (XI (XO (XO (XO (XO (XO (XO (XO (XI (XO (XO (XO (XO (XO (XO (XO
    (XI (XO (XO (XO (XO (XO (XO (XO (XI (XO (XO (XO (XO (XO (XO (XO (XI (XO
    (XO (XO (XO (XO (XO (XO (XI (XO (XO (XO (XO (XO (XI (XI (XO (XI (XI (XI
    (XI (XI (XO (XO
    XH))))))))))))))))))))))))))))))))))))))))))))))))))))))))))) :: ((Npos
    (XO (XO (XO (XI (XO (XO (XO (XO (XO (XO (XO (XI (XO (XO (XO (XO (XO (XO
    (XO (XI (XO (XO (XO (XO (XO (XO (XO (XI (XO (XO (XO (XO (XO (XO (XO (XI
    (XO (XO (XO (XO (XO (XO (XO (XI (XO (XO (XO (XO (XI (XI (XI (XO (XI (XI
    (XI (XI (XO (XO (XO
    XH)))))))))))))))))))))))))))))))))))))))))))))))))))))))))))) :: ((Npos
    (XO (XO (XO (XO (XI (XO (XO (XO (XO (XO (XO (XO (XI (XO (XO (XO (XO (XO
    (XO (XO (XI (XO (XO (XO (XO (XO (XO (XO (XI (XO (XO (XO (XO (XO (XO (XO
    (XI (XO (XO (XO (XO (XO (XO (XO (XI (XO (XO (XO (XI (XI (XI (XI (XO (XI
    (XI (XI (XO (XO (XO (XO
    XH))))))))))))))))))))))))))))))))))))))))))))))))))))))))))))) :: ((Npos
    (XO (XO (XO (XO (XO (XI (XO (XO (XO (XO (XO (XO (XO (XI (XO (XO (XO (XO
    (XO (XO (XO (XI (XO (XO (XO (XO (XO (XO (XO (XI (XO (XO (XO (XO (XO (XO
    (XO (XI (XO (XO (XO (XO (XO (XO (XO (XI (XO (XO (XI (XI (XI (XI (XI (XO
    (XI (XI (XO (XO (XO (XO (XO
    XH)))))))))))))))))))))))))))))))))))))))))))))))))))))))))))))) :: ((Npos
    (XO (XO (XO (XO (XO (XO (XI (XO (XO (XO (XO (XO (XO (XO (XI (XO (XO (XO
    (XO (XO (XO (XO (XI (XO (XO (XO (XO (XO (XO (XO (XI (XO (XO (XO (XO (XO
    (XO (XO (XI (XO (XO (XO (XO (XO (XO (XO (XI (XO (XI (XI (XI (XI (XI (XI
    (XO (XI (XO (XO (XO (XO (XO (XO
    XH))))))))))))))))))))))))))))))))))))))))))))))))))))))))))))))) :: ((Npos
    (XO (XO (XO (XO (XO (XO (XO (XI (XO (XO (XO (XO (XO (XO (XO (XI (XO (XO
    (XO (XO (XO (XO (XO (XI (XO (XO (XO (XO (XO (XO (XO (XI (XO (XO (XO (XO
    (XO (XO (XO (XI (XO (XO (XO (XO (XO (XO (XO (XI (XI (XI (XI (XI (XI (XI
    (XI (XO (XO (XO (XO (XO (XO (XO (XO
    XH)))))))))))))))))))))))))))))))))))))))))))))))))))))))))))))))) :: ((Npos
    (XI (XO (XO (XO (XO (XO (XO (XO (XI (XO (XO (XO (XO (XO (XO (XO (XI (XO
    (XO (XO (XO (XO (XO (XO (XI (XO (XO (XO (XO (XO (XO (XO (XI (XO (XO (XO
    (XO (XO (XO (XO (XI (XO (XO (XO (XO (XO (XO (XO (XI (XO (XO (XO (XO (XO
    (XO (XO (XO (XI (XI (XI (XI (XI (XI
    XH)))))))))))))))))))))))))))))))))))))))))))))))))))))))))))))))) :: ((Npos
    (XO (XI (XO (XO (XO (XO (XO (XO (XO (XI (XO (XO (XO (XO (XO (XO (XO (XI
    (XO (XO (XO (XO (XO (XO (XO (XI (XO (XO (XO (XO (XO (XO (XO (XI (XO (XO
    (XO (XO (XO (XO (XO (XI (XO (XO (XO (XO (XO (XO (XO (XI (XO (XO (XO (XO
    (XO (XO (XI (XO (XI (XI (XI (XI (XI
    XH)))))))))))))))))))))))))))))))))))))))))))))))))))))))))))))))) :: ((Npos
    (XO (XO (XI (XO (XO (XO (XO (XO (XO (XO (XI (XO (XO (XO (XO (XO (XO (XO
    (XI (XO (XO (XO (XO (XO (XO (XO (XI (XO (XO (XO (XO (XO (XO (XO (XI (XO
    (XO (XO (XO (XO (XO (XO (XI (XO (XO (XO (XO (XO (XO (XO (XI (XO (XO (XO
    (XO (XO (XI (XI (XO (XI (XI (XI (XI
    XH)))))))))))))))))))))))))))))))))))))))))))))))))))))))))))))))) :: ((Npos
    (XO (XO (XO (XI (XO (XO (XO (XO (XO (XO (XO (XI (XO (XO (XO (XO (XO (XO
    (XO (XI (XO (XO (XO (XO (XO (XO (XO (XI (XO (XO (XO (XO (XO (XO (XO (XI
    (XO (XO (XO (XO (XO (XO (XO (XI (XO (XO (XO (XO (XO (XO (XO (XI (XO (XO
    (XO (XO (XI (XI (XI (XO (XI (XI (XI
    XH)))))))))))))))))))))))))))))))))))))))))))))))))))))))))))))))) :: ((Npos
    (XO (XO (XO (XO (XI (XO (XO (XO (XO (XO (XO (XO (XI (XO (XO (XO (XO (XO
    (XO (XO (XI (XO (XO (XO (XO (XO (XO (XO (XI (XO (XO (XO (XO (XO (XO (XO
    (XI (XO (XO (XO (XO (XO (XO (XO (XI (XO (XO (XO (XO (XO (XO (XO (XI (XO
    (XO (XO (XI (XI (XI (XI (XO (XI (XI
    XH)))))))))))))))))))))))))))))))))))))))))))))))))))))))))))))))) :: ((Npos
    (XO (XO (XO (XO (XO (XI (XO (XO (XO (XO (XO (XO (XO (XI (XO (XO (XO (XO
    (XO (XO (XO (XI (XO (XO (XO (XO (XO (XO (XO (XI (XO (XO (XO (XO (XO (XO
    (XO (XI (XO (XO (XO (XO (XO (XO (XO (XI (XO (XO (XO (XO (XO (XO (XO (XI
    (XO (XO (XI (XI (XI (XI (XI (XO (XI
    XH)))))))))))))))))))))))))))))))))))))))))))))))))))))))))))))))) :: ((Npos
    (XO (XO (XO (XO (XO (XO (XI (XO (XO (XO (XO (XO (XO (XO (XI (XO (XO (XO
    (XO (XO (XO (XO (XI (XO (XO (XO (XO (XO (XO (XO (XI (XO (XO (XO (XO (XO
    (XO (XO (XI (XO (XO (XO (XO (XO (XO (XO (XI (XO (XO (XO (XO (XO (XO (XO
    (XI (XO (XI (XI (XI (XI (XI (XI (XO
    XH)))))))))))))))))))))))))))))))))))))))))))))))))))))))))))))))) :: ((Npos
    (XO (XO (XO (XO (XO (XO (XO (XI (XO (XO (XO (XO (XO (XO (XO (XI (XO (XO
    (XO (XO (XO (XO (XO (XI (XO (XO (XO (XO (XO (XO (XO (XI (XO (XO (XO (XO
    (XO (XO (XO (XI (XO (XO (XO (XO (XO (XO (XO (XI (XO (XO (XO (XO (XO (XO
    (XO (XI (XI (XI (XI (XI (XI (XI
    XH))))))))))))))))))))))))))))))))))))))))))))))))))))))))))))))) :: [])))))))))))))))))))))))))))))))))))))))))))))))))))))))))))))))

(** val qUEEN_T : bb list **)

let qUEEN_T =
  (Npos (XO (XI (XI (XI (XI (XI (XI (XI (XI (XI (XO (XO (XO (XO (XO (XO (XI
    (XO (XI (XO (XO (XO (XO (XO (XI (XO (XO (XI (XO (XO (XO (XO (XI (XO (XO
    (XO (XI (XO (XO (XO (XI (XO (XO (XO (XO (XI (XO (XO (XI (XO (XO (XO (XO
    (XO (XI (XO (XI (XO (XO (XO (XO (XO (XO
    XH)))))))))))))))))))))))))))))))))))))))))))))))))))))))))))))))) :: ((Npos
    (XI (XO (XI (XI (XI (XI (XI (XI (XI (XI (XI (XO (XO (XO (XO (XO (XO (XI
    (XO (XI (XO (XO (XO (XO (XO (XI (XO (XO (XI (XO (XO (XO (XO (XI (XO (XO
    (XO (XI (XO (XO (XO (XI (XO (XO (XO (XO (XI (XO (XO (XI (XO (XO (XO (XO
    (XO (XI (XO
    XH)))))))))))))))))))))))))))))))))))))))))))))))))))))))))) :: ((Npos
    (XI (XI (XO (XI (XI (XI (XI (XI (XO (XI (XI (XI (XO (XO (XO (XO (XI (XO
    (XI (XO (XI (XO (XO (XO (XO (XO (XI (XO (XO (XI (XO (XO (XO (XO (XI (XO
    (XO (XO (XI (XO (XO (XO (XI (XO (XO (XO (XO (XI (XO (XO (XI (XO (XO (XO
    (XO (XO (XO (XO
    XH))))))))))))))))))))))))))))))))))))))))))))))))))))))))))) :: ((Npos
    (XI (XI (XI (XO (XI (XI (XI (XI (XO (XO (XI (XI (XI (XO (XO (XO (XO (XI
    (XO (XI (XO (XI (XO (XO (XI (XO (XO (XI (XO (XO (XI (XO (XO (XO (XO (XI
    (XO (XO (XO (XI (XO (XO (XO (XI (XO (XO (XO (XO (XO (XO (XO (XI (XO (XO
    (XO (XO (XO (XO (XO
    XH)))))))))))))))))))))))))))))))))))))))))))))))))))))))))))) :: ((Npos
    (XI (XI (XI (XI (XO (XI (XI (XI (XO (XO (XO (XI (XI (XI (XO (XO (XO (XO
    (XI (XO (XI (XO (XI (XO (XO (XI (XO (XO (XI (XO (XO (XI (XI (XO (XO (XO
    (XI (XO (XO (XO (XO (XO (XO (XO (XI (XO (XO (XO (XO (XO (XO (XO (XI (XO
    (XO (XO (XO (XO (XO (XO
    XH))))))))))))))))))))))))))))))))))))))))))))))))))))))))))))) :: ((Npos
    (XI (XI (XI (XI (XI (XO (XI (XI (XO (XO (XO (XO (XI (XI (XI (XO (XO (XO
    (XO (XI (XO (XI (XO (XI (XO (XO (XI (XO (XO (XI (XO (XO (XO (XI (XO (XO
    (XO (XI (XO (XO (XI (XO (XO (XO (XO (XI (XO (XO (XO (XO (XO (XO (XO (XI
    (XO (XO (XO (XO (XO (XO (XO
    XH)))))))))))))))))))))))))))))))))))))))))))))))))))))))))))))) :: ((Npos
    (XI (XI (XI (XI (XI (XI (XO (XI (XO (XO (XO (XO (XO (XI (XI (XI (XO (XO
    (XO (XO (XI (XO (XI (XO (XO (XO (XO (XI (XO (XO (XI (XO (XO (XO (XI (XO
    (XO (XO (XI (XO (XO (XI (XO (XO (XO (XO (XI (XO (XI (XO (XO (XO (XO (XO
    (XI (XO (XO (XO (XO (XO (XO (XO
    XH))))))))))))))))))))))))))))))))))))))))))))))))))))))))))))))) :: ((Npos
    (XI (XI (XI (XI (XI (XI (XI (XO (XO (XO (XO (XO (XO (XO (XI (XI (XO (XO
    (XO (XO (XO (XI (XO (XI (XO (XO (XO (XO (XI (XO (XO (XI (XO (XO (XO (XI
    (XO (XO (XO (XI (XO (XO (XI (XO (XO (XO (XO (XI (XO (XI (XO (XO (XO (XO
    (XO (XI (XI (XO (XO (XO (XO (XO (XO
    XH)))))))))))))))))))))))))))))))))))))))))))))))))))))))))))))))) :: ((Npos
    (XI (XI (XO (XO (XO (XO (XO (XO (XO (XI (XI (XI (XI (XI (XI (XI (XI (XI
    (XO (XO (XO (XO (XO (XO (XI (XO (XI (XO (XO (XO (XO (XO (XI (XO (XO (XI
    (XO (XO (XO (XO (XI (XO (XO (XO (XI (XO (XO (XO (XI (XO (XO (XO (XO (XI
    (XO (XO (XI (XO (XO (XO (XO (XO
    XH))))))))))))))))))))))))))))))))))))))))))))))))))))))))))))))) :: ((Npos
    (XI (XI (XI (XO (XO (XO (XO (XO (XI (XO (XI (XI (XI (XI (XI (XI (XI (XI
    (XI (XO (XO (XO (XO (XO (XO (XI (XO (XI (XO (XO (XO (XO (XO (XI (XO (XO
    (XI (XO (XO (XO (XO (XI (XO (XO (XO (XI (XO (XO (XO (XI (XO (XO (XO (XO
    (XI (XO (XO (XI (XO (XO (XO (XO (XO
    XH)))))))))))))))))))))))))))))))))))))))))))))))))))))))))))))))) :: ((Npos
    (XO (XI (XI (XI (XO (XO (XO (XO (XI (XI (XO (XI (XI (XI (XI (XI (XO (XI
    (XI (XI (XO (XO (XO (XO (XI (XO (XI (XO (XI (XO (XO (XO (XO (XO (XI (XO
    (XO (XI (XO (XO (XO (XO (XI (XO (XO (XO (XI (XO (XO (XO (XI (XO (XO (XO
    (XO (XI (XO (XO
    XH))))))))))))))))))))))))))))))))))))))))))))))))))))))))))) :: ((Npos
    (XO (XO (XI (XI (XI (XO (XO (XO (XI (XI (XI (XO (XI (XI (XI (XI (XO (XO
    (XI (XI (XI (XO (XO (XO (XO (XI (XO (XI (XO (XI (XO (XO (XI (XO (XO (XI
    (XO (XO (XI (XO (XO (XO (XO (XI (XO (XO (XO (XI (XO (XO (XO (XI (XO (XO
    (XO (XO (XO (XO (XO
    XH)))))))))))))))))))))))))))))))))))))))))))))))))))))))))))) :: ((Npos
    (XO (XO (XO (XI (XI (XI (XO (XO (XI (XI (XI (XI (XO (XI (XI (XI (XO (XO
    (XO (XI (XI (XI (XO (XO (XO (XO (XI (XO (XI (XO (XI (XO (XO (XI (XO (XO
    (XI (XO (XO (XI (XI (XO (XO (XO (XI (XO (XO (XO (XO (XO (XO (XO (XI (XO
    (XO (XO (XO (XO (XO (XO
    XH))))))))))))))))))))))))))))))))))))))))))))))))))))))))))))) :: ((Npos
    (XO (XO (XO (XO (XI (XI (XI (XO (XI (XI (XI (XI (XI (XO (XI (XI (XO (XO
    (XO (XO (XI (XI (XI (XO (XO (XO (XO (XI (XO (XI (XO (XI (XO (XO (XI (XO
    (XO (XI (XO (XO (XO (XI (XO (XO (XO (XI (XO (XO (XI (XO (XO (XO (XO (XI
    (XO (XO (XO (XO (XO (XO (XO
    XH)))))))))))))))))))))))))))))))))))))))))))))))))))))))))))))) :: ((Npos
    (XO (XO (XO (XO (XO (XI (XI (XI (XI (XI (XI (XI (XI (XI (XO (XI (XO (XO
    (XO (XO (XO (XI (XI (XI (XO (XO (XO (XO (XI (XO (XI (XO (XO (XO (XO (XI
    (XO (XO (XI (XO (XO (XO (XI (XO (XO (XO (XI (XO (XO (XI (XO (XO (XO (XO
    (XI (XO (XI (XO (XO (XO (XO (XO
    XH))))))))))))))))))))))))))))))))))))))))))))))))))))))))))))))) :: ((Npos
    (XO (XO (XO (XO (XO (XO (XI (XI (XI (XI (XI (XI (XI (XI (XI (XO (XO (XO
    (XO (XO (XO (XO (XI (XI (XO (XO (XO (XO (XO (XI (XO (XI (XO (XO (XO (XO
    (XI (XO (XO (XI (XO (XO (XO (XI (XO (XO (XO (XI (XO (XO (XI (XO (XO (XO
    (XO (XI (XO (XI (XO (XO (XO (XO (XO
    XH)))))))))))))))))))))))))))))))))))))))))))))))))))))))))))))))) :: ((Npos
    (XI (XO (XI (XO (XO (XO (XO (XO (XI (XI (XO (XO (XO (XO (XO (XO (XO (XI
    (XI (XI (XI (XI (XI (XI (XI (XI (XO (XO (XO (XO (XO (XO (XI (XO (XI (XO
    (XO (XO (XO (XO (XI (XO (XO (XI (XO (XO (XO (XO (XI (XO (XO (XO (XI (XO
    (XO (XO (XI (XO (XO (XO (XO
    XH)))))))))))))))))))))))))))))))))))))))))))))))))))))))))))))) :: ((Npos
    (XO (XI (XO (XI (XO (XO (XO (XO (XI (XI (XI (XO (XO (XO (XO (XO (XI (XO
    (XI (XI (XI (XI (XI (XI (XI (XI (XI (XO (XO (XO (XO (XO (XO (XI (XO (XI
    (XO (XO (XO (XO (XO (XI (XO (XO (XI (XO (XO (XO (XO (XI (XO (XO (XO (XI
    (XO (XO (XO (XI (XO (XO (XO (XO
    XH))))))))))))))))))))))))))))))))))))))))))))))))))))))))))))))) :: ((Npos
    (XI (XO (XI (XO (XI (XO (XO (XO (XO (XI (XI (XI (XO (XO (XO (XO (XI (XI
    (XO (XI (XI (XI (XI (XI (XO (XI (XI (XI (XO (XO (XO (XO (XI (XO (XI (XO
    (XI (XO (XO (XO (XO (XO (XI (XO (XO (XI (XO (XO (XO (XO (XI (XO (XO (XO
    (XI (XO (XO (XO (XI (XO (XO (XO (XO
    XH)))))))))))))))))))))))))))))))))))))))))))))))))))))))))))))))) :: ((Npos
    (XO (XI (XO (XI (XO (XI (XO (XO (XO (XO (XI (XI (XI (XO (XO (XO (XI (XI
    (XI (XO (XI (XI (XI (XI (XO (XO (XI (XI (XI (XO (XO (XO (XO (XI (XO (XI
    (XO (XI (XO (XO (XI (XO (XO (XI (XO (XO (XI (XO (XO (XO (XO (XI (XO (XO
    (XO (XI (XO (XO (XO
    XH)))))))))))))))))))))))))))))))))))))))))))))))))))))))))))) :: ((Npos
    (XO (XO (XI (XO (XI (XO (XI (XO (XO (XO (XO (XI (XI (XI (XO (XO (XI (XI
    (XI (XI (XO (XI (XI (XI (XO (XO (XO (XI (XI (XI (XO (XO (XO (XO (XI (XO
    (XI (XO (XI (XO (XO (XI (XO (XO (XI (XO (XO (XI (XI (XO (XO (XO (XI (XO
    (XO (XO (XO (XO (XO (XO
    XH))))))))))))))))))))))))))))))))))))))))))))))))))))))))))))) :: ((Npos
    (XO (XO (XO (XI (XO (XI (XO (XI (XO (XO (XO (XO (XI (XI (XI (XO (XI (XI
    (XI (XI (XI (XO (XI (XI (XO (XO (XO (XO (XI (XI (XI (XO (XO (XO (XO (XI
    (XO (XI (XO (XI (XO (XO (XI (XO (XO (XI (XO (XO (XO (XI (XO (XO (XO (XI
    (XO (XO (XI (XO (XO (XO (XO
    XH)))))))))))))))))))))))))))))))))))))))))))))))))))))))))))))) :: ((Npos
    (XO (XO (XO (XO (XI (XO (XI (XO (XO (XO (XO (XO (XO (XI (XI (XI (XI (XI
    (XI (XI (XI (XI (XO (XI (XO (XO (XO (XO (XO (XI (XI (XI (XO (XO (XO (XO
    (XI (XO (XI (XO (XO (XO (XO (XI (XO (XO (XI (XO (XO (XO (XI (XO (XO (XO
    (XI (XO (XO (XI (XO (XO (XO (XO
    XH))))))))))))))))))))))))))))))))))))))))))))))))))))))))))))))) :: ((Npos
    (XO (XO (XO (XO (XO (XI (XO (XI (XO (XO (XO (XO (XO (XO (XI (XI (XI (XI
    (XI (XI (XI (XI (XI (XO (XO (XO (XO (XO (XO (XO (XI (XI (XO (XO (XO (XO
    (XO (XI (XO (XI (XO (XO (XO (XO (XI (XO (XO (XI (XO (XO (XO (XI (XO (XO
    (XO (XI (XO (XO (XI (XO (XO (XO (XO
    XH)))))))))))))))))))))))))))))))))))))))))))))))))))))))))))))))) :: ((Npos
    (XI (XO (XO (XI (XO (XO (XO (XO (XI (XO (XI (XO (XO (XO (XO (XO (XI (XI
    (XO (XO (XO (XO (XO (XO (XO (XI (XI (XI (XI (XI (XI (XI (XI (XI (XO (XO
    (XO (XO (XO (XO (XI (XO (XI (XO (XO (XO (XO (XO (XI (XO (XO (XI (XO (XO
    (XO (XO (XI (XO (XO (XO
    XH))))))))))))))))))))))))))))))))))))))))))))))))))))))))))))) :: ((Npos
    (XO (XI (XO (XO (XI (XO (XO (XO (XO (XI (XO (XI (XO (XO (XO (XO (XI (XI
    (XI (XO (XO (XO (XO (XO (XI (XO (XI (XI (XI (XI (XI (XI (XI (XI (XI (XO
    (XO (XO (XO (XO (XO (XI (XO (XI (XO (XO (XO (XO (XO (XI (XO (XO (XI (XO
    (XO (XO (XO (XI (XO (XO (XO
    XH)))))))))))))))))))))))))))))))))))))))))))))))))))))))))))))) :: ((Npos
    (XO (XO (XI (XO (XO (XI (XO (XO (XI (XO (XI (XO (XI (XO (XO (XO (XO (XI
    (XI (XI (XO (XO (XO (XO (XI (XI (XO (XI (XI (XI (XI (XI (XO (XI (XI (XI
    (XO (XO (XO (XO (XI (XO (XI (XO (XI (XO (XO (XO (XO (XO (XI (XO (XO (XI
    (XO (XO (XO (XO (XI (XO (XO (XO
    XH))))))))))))))))))))))))))))))))))))))))))))))))))))))))))))))) :: ((Npos
    (XI (XO (XO (XI (XO (XO (XI (XO (XO (XI (XO (XI (XO (XI (XO (XO (XO (XO
    (XI (XI (XI (XO (XO (XO (XI (XI (XI (XO (XI (XI (XI (XI (XO (XO (XI (XI
    (XI (XO (XO (XO (XO (XI (XO (XI (XO (XI (XO (XO (XI (XO (XO (XI (XO (XO
    (XI (XO (XO (XO (XO (XI (XO (XO (XO
    XH)))))))))))))))))))))))))))))))))))))))))))))))))))))))))))))))) :: ((Npos
    (XO (XI (XO (XO (XI (XO (XO (XI (XO (XO (XI (XO (XI (XO (XI (XO (XO (XO
    (XO (XI (XI (XI (XO (XO (XI (XI (XI (XI (XO (XI (XI (XI (XO (XO (XO (XI
    (XI (XI (XO (XO (XO (XO (XI (XO (XI (XO (XI (XO (XO (XI (XO (XO (XI (XO
    (XO (XI (XI (XO (XO (XO
    XH))))))))))))))))))))))))))))))))))))))))))))))))))))))))))))) :: ((Npos
    (XO (XO (XI (XO (XO (XI (XO (XO (XO (XO (XO (XI (XO (XI (XO (XI (XO (XO
    (XO (XO (XI (XI (XI (XO (XI (XI (XI (XI (XI (XO (XI (XI (XO (XO (XO (XO
    (XI (XI (XI (XO (XO (XO (XO (XI (XO (XI (XO (XI (XO (XO (XI (XO (XO (XI
    (XO (XO (XO (XI (XO (XO (XO
    XH)))))))))))))))))))))))))))))))))))))))))))))))))))))))))))))) :: ((Npos
    (XO (XO (XO (XI (XO (XO (XI (XO (XO (XO (XO (XO (XI (XO (XI (XO (XO (XO
    (XO (XO (XO (XI (XI (XI (XI (XI (XI (XI (XI (XI (XO (XI (XO (XO (XO (XO
    (XO (XI (XI (XI (XO (XO (XO (XO (XI (XO (XI (XO (XO (XO (XO (XI (XO (XO
    (XI (XO (XO (XO (XI (XO (XO (XO
    XH))))))))))))))))))))))))))))))))))))))))))))))))))))))))))))))) :: ((Npos
    (XO (XO (XO (XO (XI (XO (XO (XI (XO (XO (XO (XO (XO (XI (XO (XI (XO (XO
    (XO (XO (XO (XO (XI (XI (XI (XI (XI (XI (XI (XI (XI (XO (XO (XO (XO (XO
    (XO (XO (XI (XI (XO (XO (XO (XO (XO (XI (XO (XI (XO (XO (XO (XO (XI (XO
    (XO (XI (XO (XO (XO (XI (XO (XO (XO
    XH)))))))))))))))))))))))))))))))))))))))))))))))))))))))))))))))) :: ((Npos
    (XI (XO (XO (XO (XI (XO (XO (XO (XI (XO (XO (XI (XO (XO (XO (XO (XI (XO
    (XI (XO (XO (XO (XO (XO (XI (XI (XO (XO (XO (XO (XO (XO (XO (XI (XI (XI
    (XI (XI (XI (XI (XI (XI (XO (XO (XO (XO (XO (XO (XI (XO (XI (XO (XO (XO
    (XO (XO (XI (XO (XO
    XH)))))))))))))))))))))))))))))))))))))))))))))))))))))))))))) :: ((Npos
    (XO (XI (XO (XO (XO (XI (XO (XO (XO (XI (XO (XO (XI (XO (XO (XO (XO (XI
    (XO (XI (XO (XO (XO (XO (XI (XI (XI (XO (XO (XO (XO (XO (XI (XO (XI (XI
    (XI (XI (XI (XI (XI (XI (XI (XO (XO (XO (XO (XO (XO (XI (XO (XI (XO (XO
    (XO (XO (XO (XI (XO (XO
    XH))))))))))))))))))))))))))))))))))))))))))))))))))))))))))))) :: ((Npos
    (XO (XO (XI (XO (XO (XO (XI (XO (XO (XO (XI (XO (XO (XI (XO (XO (XI (XO
    (XI (XO (XI (XO (XO (XO (XO (XI (XI (XI (XO (XO (XO (XO (XI (XI (XO (XI
    (XI (XI (XI (XI (XO (XI (XI (XI (XO (XO (XO (XO (XI (XO (XI (XO (XI (XO
    (XO (XO (XO (XO (XI (XO (XO
    XH)))))))))))))))))))))))))))))))))))))))))))))))))))))))))))))) :: ((Npos
    (XO (XO (XO (XI (XO (XO (XO (XI (XI (XO (XO (XI (XO (XO (XI (XO (XO (XI
    (XO (XI (XO (XI (XO (XO (XO (XO (XI (XI (XI (XO (XO (XO (XI (XI (XI (XO
    (XI (XI (XI (XI (XO (XO (XI (XI (XI (XO (XO (XO (XO (XI (XO (XI (XO (XI
    (XO (XO (XI (XO (XO (XI (XO (XO
    XH))))))))))))))))))))))))))))))))))))))))))))))))))))))))))))))) :: ((Npos
    (XI (XO (XO (XO (XI (XO (XO (XO (XO (XI (XO (XO (XI (XO (XO (XI (XO (XO
    (XI (XO (XI (XO (XI (XO (XO (XO (XO (XI (XI (XI (XO (XO (XI (XI (XI (XI
    (XO (XI (XI (XI (XO (XO (XO (XI (XI (XI (XO (XO (XO (XO (XI (XO (XI (XO
    (XI (XO (XO (XI (XO (XO (XI (XO (XO
    XH)))))))))))))))))))))))))))))))))))))))))))))))))))))))))))))))) :: ((Npos
    (XO (XI (XO (XO (XO (XI (XO (XO (XO (XO (XI (XO (XO (XI (XO (XO (XO (XO
    (XO (XI (XO (XI (XO (XI (XO (XO (XO (XO (XI (XI (XI (XO (XI (XI (XI (XI
    (XI (XO (XI (XI (XO (XO (XO (XO (XI (XI (XI (XO (XO (XO (XO (XI (XO (XI
    (XO (XI (XO (XO (XI (XO (XO
    XH)))))))))))))))))))))))))))))))))))))))))))))))))))))))))))))) :: ((Npos
    (XO (XO (XI (XO (XO (XO (XI (XO (XO (XO (XO (XI (XO (XO (XI (XO (XO (XO
    (XO (XO (XI (XO (XI (XO (XO (XO (XO (XO (XO (XI (XI (XI (XI (XI (XI (XI
    (XI (XI (XO (XI (XO (XO (XO (XO (XO (XI (XI (XI (XO (XO (XO (XO (XI (XO
    (XI (XO (XO (XO (XO (XI (XO (XO
    XH))))))))))))))))))))))))))))))))))))))))))))))))))))))))))))))) :: ((Npos
    (XO (XO (XO (XI (XO (XO (XO (XI (XO (XO (XO (XO (XI (XO (XO (XI (XO (XO
    (XO (XO (XO (XI (XO (XI (XO (XO (XO (XO (XO (XO (XI (XI (XI (XI (XI (XI
    (XI (XI (XI (XO (XO (XO (XO (XO (XO (XO (XI (XI (XO (XO (XO (XO (XO (XI
    (XO (XI (XO (XO (XO (XO (XI (XO (XO
    XH)))))))))))))))))))))))))))))))))))))))))))))))))))))))))))))))) :: ((Npos
    (XI (XO (XO (XO (XO (XI (XO (XO (XI (XO (XO (XO (XI (XO (XO (XO (XI (XO
    (XO (XI (XO (XO (XO (XO (XI (XO (XI (XO (XO (XO (XO (XO (XI (XI (XO (XO
    (XO (XO (XO (XO (XO (XI (XI (XI (XI (XI (XI (XI (XI (XI (XO (XO (XO (XO
    (XO (XO (XI (XO
    XH))))))))))))))))))))))))))))))))))))))))))))))))))))))))))) :: ((Npos
    (XO (XI (XO (XO (XO (XO (XI (XO (XO (XI (XO (XO (XO (XI (XO (XO (XO (XI
    (XO (XO (XI (XO (XO (XO (XO (XI (XO (XI (XO (XO (XO (XO (XI (XI (XI (XO
    (XO (XO (XO (XO (XI (XO (XI (XI (XI (XI (XI (XI (XI (XI (XI (XO (XO (XO
    (XO (XO (XO (XI (XO
    XH)))))))))))))))))))))))))))))))))))))))))))))))))))))))))))) :: ((Npos
    (XO (XO (XI (XO (XO (XO (XO (XI (XO (XO (XI (XO (XO (XO (XI (XO (XO (XO
    (XI (XO (XO (XI (XO (XO (XI (XO (XI (XO (XI (XO (XO (XO (XO (XI (XI (XI
    (XO (XO (XO (XO (XI (XI (XO (XI (XI (XI (XI (XI (XO (XI (XI (XI (XO (XO
    (XO (XO (XI (XO (XI (XO
    XH))))))))))))))))))))))))))))))))))))))))))))))))))))))))))))) :: ((Npos
    (XO (XO (XO (XI (XO (XO (XO (XO (XO (XO (XO (XI (XO (XO (XO (XI (XI (XO
    (XO (XI (XO (XO (XI (XO (XO (XI (XO (XI (XO (XI (XO (XO (XO (XO (XI (XI
    (XI (XO (XO (XO (XI (XI (XI (XO (XI (XI (XI (XI (XO (XO (XI (XI (XI (XO
    (XO (XO (XO (XI (XO (XI (XO
    XH)))))))))))))))))))))))))))))))))))))))))))))))))))))))))))))) :: ((Npos
    (XO (XO (XO (XO (XI (XO (XO (XO (XI (XO (XO (XO (XI (XO (XO (XO (XO (XI
    (XO (XO (XI (XO (XO (XI (XO (XO (XI (XO (XI (XO (XI (XO (XO (XO (XO (XI
    (XI (XI (XO (XO (XI (XI (XI (XI (XO (XI (XI (XI (XO (XO (XO (XI (XI (XI
    (XO (XO (XO (XO (XI (XO (XI (XO
    XH))))))))))))))))))))))))))))))))))))))))))))))))))))))))))))))) :: ((Npos
    (XI (XO (XO (XO (XO (XI (XO (XO (XO (XI (XO (XO (XO (XI (XO (XO (XO (XO
    (XI (XO (XO (XI (XO (XO (XO (XO (XO (XI (XO (XI (XO (XI (XO (XO (XO (XO
    (XI (XI (XI (XO (XI (XI (XI (XI (XI (XO (XI (XI (XO (XO (XO (XO (XI (XI
    (XI (XO (XO (XO (XO (XI (XO (XI (XO
    XH)))))))))))))))))))))))))))))))))))))))))))))))))))))))))))))))) :: ((Npos
    (XO (XI (XO (XO (XO (XO (XI (XO (XO (XO (XI (XO (XO (XO (XI (XO (XO (XO
    (XO (XI (XO (XO (XI (XO (XO (XO (XO (XO (XI (XO (XI (XO (XO (XO (XO (XO
    (XO (XI (XI (XI (XI (XI (XI (XI (XI (XI (XO (XI (XO (XO (XO (XO (XO (XI
    (XI (XI (XO (XO (XO (XO (XI (XO
    XH))))))))))))))))))))))))))))))))))))))))))))))))))))))))))))))) :: ((Npos
    (XO (XO (XI (XO (XO (XO (XO (XI (XO (XO (XO (XI (XO (XO (XO (XI (XO (XO
    (XO (XO (XI (XO (XO (XI (XO (XO (XO (XO (XO (XI (XO (XI (XO (XO (XO (XO
    (XO (XO (XI (XI (XI (XI (XI (XI (XI (XI (XI (XO (XO (XO (XO (XO (XO (XO
    (XI (XI (XO (XO (XO (XO (XO (XI (XO
    XH)))))))))))))))))))))))))))))))))))))))))))))))))))))))))))))))) :: ((Npos
    (XI (XO (XO (XO (XO (XO (XI (XO (XI (XO (XO (XO (XO (XI (XO (XO (XI (XO
    (XO (XO (XI (XO (XO (XO (XI (XO (XO (XI (XO (XO (XO (XO (XI (XO (XI (XO
    (XO (XO (XO (XO (XI (XI (XO (XO (XO (XO (XO (XO (XO (XI (XI (XI (XI (XI
    (XI (XI (XI
    XH)))))))))))))))))))))))))))))))))))))))))))))))))))))))))) :: ((Npos
    (XO (XI (XO (XO (XO (XO (XO (XI (XO (XI (XO (XO (XO (XO (XI (XO (XO (XI
    (XO (XO (XO (XI (XO (XO (XO (XI (XO (XO (XI (XO (XO (XO (XO (XI (XO (XI
    (XO (XO (XO (XO (XI (XI (XI (XO (XO (XO (XO (XO (XI (XO (XI (XI (XI (XI
    (XI (XI (XI (XI
    XH))))))))))))))))))))))))))))))))))))))))))))))))))))))))))) :: ((Npos
    (XO (XO (XI (XO (XO (XO (XO (XO (XO (XO (XI (XO (XO (XO (XO (XI (XO (XO
    (XI (XO (XO (XO (XI (XO (XO (XO (XI (XO (XO (XI (XO (XO (XI (XO (XI (XO
    (XI (XO (XO (XO (XO (XI (XI (XI (XO (XO (XO (XO (XI (XI (XO (XI (XI (XI
    (XI (XI (XO (XI (XI
    XH)))))))))))))))))))))))))))))))))))))))))))))))))))))))))))) :: ((Npos
    (XO (XO (XO (XI (XO (XO (XO (XO (XO (XO (XO (XI (XO (XO (XO (XO (XO (XO
    (XO (XI (XO (XO (XO (XI (XI (XO (XO (XI (XO (XO (XI (XO (XO (XI (XO (XI
    (XO (XI (XO (XO (XO (XO (XI (XI (XI (XO (XO (XO (XI (XI (XI (XO (XI (XI
    (XI (XI (XO (XO (XI (XI
    XH))))))))))))))))))))))))))))))))))))))))))))))))))))))))))))) :: ((Npos
    (XO (XO (XO (XO (XI (XO (XO (XO (XO (XO (XO (XO (XI (XO (XO (XO (XI (XO
    (XO (XO (XI (XO (XO (XO (XO (XI (XO (XO (XI (XO (XO (XI (XO (XO (XI (XO
    (XI (XO (XI (XO (XO (XO (XO (XI (XI (XI (XO (XO (XI (XI (XI (XI (XO (XI
    (XI (XI (XO (XO (XO (XI (XI
    XH)))))))))))))))))))))))))))))))))))))))))))))))))))))))))))))) :: ((Npos
    (XO (XO (XO (XO (XO (XI (XO (XO (XI (XO (XO (XO (XO (XI (XO (XO (XO (XI
    (XO (XO (XO (XI (XO (XO (XO (XO (XI (XO (XO (XI (XO (XO (XO (XO (XO (XI
    (XO (XI (XO (XI (XO (XO (XO (XO (XI (XI (XI (XO (XI (XI (XI (XI (XI (XO
    (XI (XI (XO (XO (XO (XO (XI (XI
    XH))))))))))))))))))))))))))))))))))))))))))))))))))))))))))))))) :: ((Npos
    (XI (XO (XO (XO (XO (XO (XI (XO (XO (XI (XO (XO (XO (XO (XI (XO (XO (XO
    (XI (XO (XO (XO (XI (XO (XO (XO (XO (XI (XO (XO (XI (XO (XO (XO (XO (XO
    (XI (XO (XI (XO (XO (XO (XO (XO (XO (XI (XI (XI (XI (XI (XI (XI (XI (XI
    (XO (XI (XO (XO (XO (XO (XO (XI (XI
    XH)))))))))))))))))))))))))))))))))))))))))))))))))))))))))))))))) :: ((Npos
    (XO (XI (XO (XO (XO (XO (XO (XI (XO (XO (XI (XO (XO (XO (XO (XI (XO (XO
    (XO (XI (XO (XO (XO (XI (XO (XO (XO (XO (XI (XO (XO (XI (XO (XO (XO (XO
    (XO (XI (XO (XI (XO (XO (XO (XO (XO (XO (XI (XI (XI (XI (XI (XI (XI (XI
    (XI (XO (XO (XO (XO (XO (XO (XO (XI
    XH)))))))))))))))))))))))))))))))))))))))))))))))))))))))))))))))) :: ((Npos
    (XI (XO (XO (XO (XO (XO (XO (XI (XI (XO (XO (XO (XO (XO (XI (XO (XI (XO
    (XO (XO (XO (XI (XO (XO (XI (XO (XO (XO (XI (XO (XO (XO (XI (XO (XO (XI
    (XO (XO (XO (XO (XI (XO (XI (XO (XO (XO (XO (XO (XI (XI (XO (XO (XO (XO
    (XO (XO (XO (XI (XI (XI (XI (XI (XI
    XH)))))))))))))))))))))))))))))))))))))))))))))))))))))))))))))))) :: ((Npos
    (XO (XI (XO (XO (XO (XO (XO (XO (XO (XI (XO (XO (XO (XO (XO (XI (XO (XI
    (XO (XO (XO (XO (XI (XO (XO (XI (XO (XO (XO (XI (XO (XO (XO (XI (XO (XO
    (XI (XO (XO (XO (XO (XI (XO (XI (XO (XO (XO (XO (XI (XI (XI (XO (XO (XO
    (XO (XO (XI (XO (XI (XI (XI (XI (XI
    XH)))))))))))))))))))))))))))))))))))))))))))))))))))))))))))))))) :: ((Npos
    (XO (XO (XI (XO (XO (XO (XO (XO (XO (XO (XI (XO (XO (XO (XO (XO (XO (XO
    (XI (XO (XO (XO (XO (XI (XO (XO (XI (XO (XO (XO (XI (XO (XO (XO (XI (XO
    (XO (XI (XO (XO (XI (XO (XI (XO (XI (XO (XO (XO (XO (XI (XI (XI (XO (XO
    (XO (XO (XI (XI (XO (XI (XI (XI (XI
    XH)))))))))))))))))))))))))))))))))))))))))))))))))))))))))))))))) :: ((Npos
    (XO (XO (XO (XI (XO (XO (XO (XO (XO (XO (XO (XI (XO (XO (XO (XO (XO (XO
    (XO (XI (XO (XO (XO (XO (XO (XO (XO (XI (XO (XO (XO (XI (XI (XO (XO (XI
    (XO (XO (XI (XO (XO (XI (XO (XI (XO (XI (XO (XO (XO (XO (XI (XI (XI (XO
    (XO (XO (XI (XI (XI (XO (XI (XI (XI
    XH)))))))))))))))))))))))))))))))))))))))))))))))))))))))))))))))) :: ((Npos
    (XO (XO (XO (XO (XI (XO (XO (XO (XO (XO (XO (XO (XI (XO (XO (XO (XO (XO
    (XO (XO (XI (XO (XO (XO (XI (XO (XO (XO (XI (XO (XO (XO (XO (XI (XO (XO
    (XI (XO (XO (XI (XO (XO (XI (XO (XI (XO (XI (XO (XO (XO (XO (XI (XI (XI
    (XO (XO (XI (XI (XI (XI (XO (XI (XI
    XH)))))))))))))))))))))))))))))))))))))))))))))))))))))))))))))))) :: ((Npos
    (XO (XO (XO (XO (XO (XI (XO (XO (XO (XO (XO (XO (XO (XI (XO (XO (XI (XO
    (XO (XO (XO (XI (XO (XO (XO (XI (XO (XO (XO (XI (XO (XO (XO (XO (XI (XO
    (XO (XI (XO (XO (XO (XO (XO (XI (XO (XI (XO (XI (XO (XO (XO (XO (XI (XI
    (XI (XO (XI (XI (XI (XI (XI (XO (XI
    XH)))))))))))))))))))))))))))))))))))))))))))))))))))))))))))))))) :: ((Npos
    (XO (XO (XO (XO (XO (XO (XI (XO (XI (XO (XO (XO (XO (XO (XI (XO (XO (XI
    (XO (XO (XO (XO (XI (XO (XO (XO (XI (XO (XO (XO (XI (XO (XO (XO (XO (XI
    (XO (XO (XI (XO (XO (XO (XO (XO (XI (XO (XI (XO (XO (XO (XO (XO (XO (XI
    (XI (XI (XI (XI (XI (XI (XI (XI (XO
    XH)))))))))))))))))))))))))))))))))))))))))))))))))))))))))))))))) :: ((Npos
    (XI (XO (XO (XO (XO (XO (XO (XI (XO (XI (XO (XO (XO (XO (XO (XI (XO (XO
    (XI (XO (XO (XO (XO (XI (XO (XO (XO (XI (XO (XO (XO (XI (XO (XO (XO (XO
    (XI (XO (XO (XI (XO (XO (XO (XO (XO (XI (XO (XI (XO (XO (XO (XO (XO (XO
    (XI (XI (XI (XI (XI (XI (XI (XI
    XH))))))))))))))))))))))))))))))))))))))))))))))))))))))))))))))) :: [])))))))))))))))))))))))))))))))))))))))))))))))))))))))))))))))

(** val pAWN_PUSH_W : bb list **)

let pAWN_PUSH_W =
  (Npos (XO (XO (XO (XO (XO (XO (XO (XO XH))))))))) :: ((Npos (XO (XO (XO (XO
    (XO (XO (XO (XO (XO XH)))))))))) :: ((Npos (XO (XO (XO (XO (XO (XO (XO
    (XO (XO (XO XH))))))))))) :: ((Npos (XO (XO (XO (XO (XO (XO (XO (XO (XO
    (XO (XO XH)))))))))))) :: ((Npos (XO (XO (XO (XO (XO (XO (XO (XO (XO (XO
    (XO (XO XH))))))))))))) :: ((Npos (XO (XO (XO (XO (XO (XO (XO (XO (XO (XO
    (XO (XO (XO XH)))))))))))))) :: ((Npos (XO (XO (XO (XO (XO (XO (XO (XO
    (XO (XO (XO (XO (XO (XO XH))))))))))))))) :: ((Npos (XO (XO (XO (XO (XO
    (XO (XO (XO (XO (XO (XO (XO (XO (XO (XO XH)))))))))))))))) :: ((Npos (XO
    (XO (XO (XO (XO (XO (XO (XO (XO (XO (XO (XO (XO (XO (XO (XO
    XH))))))))))))))))) :: ((Npos (XO (XO (XO (XO (XO (XO (XO (XO (XO (XO (XO
    (XO (XO (XO (XO (XO (XO XH)))))))))))))))))) :: ((Npos (XO (XO (XO (XO
    (XO (XO (XO (XO (XO (XO (XO (XO (XO (XO (XO (XO (XO (XO
    XH))))))))))))))))))) :: ((Npos (XO (XO (XO (XO (XO (XO (XO (XO (XO (XO
    (XO (XO (XO (XO (XO (XO (XO (XO (XO XH)))))))))))))))))))) :: ((Npos (XO
    (XO (XO (XO (XO (XO (XO (XO (XO (XO (XO (XO (XO (XO (XO (XO (XO (XO (XO
    (XO XH))))))))))))))))))))) :: ((Npos (XO (XO (XO (XO (XO (XO (XO (XO (XO
    (XO (XO (XO (XO (XO (XO (XO (XO (XO (XO (XO (XO
    XH)))))))))))))))))))))) :: ((Npos (XO (XO (XO (XO (XO (XO (XO (XO (XO
    (XO (XO (XO (XO (XO (XO (XO (XO (XO (XO (XO (XO (XO
    XH))))))))))))))))))))))) :: ((Npos (XO (XO (XO (XO (XO (XO (XO (XO (XO
    (XO (XO (XO (XO (XO (XO (XO (XO (XO (XO (XO (XO (XO (XO
    XH)))))))))))))))))))))))) :: ((Npos (XO (XO (XO (XO (XO (XO (XO (XO (XO
    (XO (XO (XO (XO (XO (XO (XO (XO (XO (XO (XO (XO (XO (XO (XO
    XH))))))))))))))))))))))))) :: ((Npos (XO (XO (XO (XO (XO (XO (XO (XO (XO
    (XO (XO (XO (XO (XO (XO (XO (XO (XO (XO (XO (XO (XO (XO (XO (XO
    XH)))))))))))))))))))))))))) :: ((Npos (XO (XO (XO (XO (XO (XO (XO (XO
    (XO (XO (XO (XO (XO (XO (XO (XO (XO (XO (XO (XO (XO (XO (XO (XO (XO (XO
    XH))))))))))))))))))))))))))) :: ((Npos (XO (XO (XO (XO (XO (XO (XO (XO
    (XO (XO (XO (XO (XO (XO (XO (XO (XO (XO (XO (XO (XO (XO (XO (XO (XO (XO
    (XO XH)))))))))))))))))))))))))))) :: ((Npos (XO (XO (XO (XO (XO (XO (XO
    (XO (XO (XO (XO (XO (XO (XO (XO (XO (XO (XO (XO (XO (XO (XO (XO (XO (XO
    (XO (XO (XO XH))))))))))))))))))))))))))))) :: ((Npos (XO (XO (XO (XO (XO
    (XO (XO (XO (XO (XO (XO (XO (XO (XO (XO (XO (XO (XO (XO (XO (XO (XO (XO
    (XO (XO (XO (XO (XO (XO XH)))))))))))))))))))))))))))))) :: ((Npos (XO
    (XO (XO (XO (XO (XO (XO (XO (XO (XO (XO (XO (XO (XO (XO (XO (XO (XO (XO
    (XO (XO (XO (XO (XO (XO (XO (XO (XO (XO (XO
    XH))))))))))))))))))))))))))))))) :: ((Npos (XO (XO (XO (XO (XO (XO (XO
    (XO (XO (XO (XO (XO (XO (XO (XO (XO (XO (XO (XO (XO (XO (XO (XO (XO (XO
    (XO (XO (XO (XO (XO (XO XH)))))))))))))))))))))))))))))))) :: ((Npos (XO
    (XO (XO (XO (XO (XO (XO (XO (XO (XO (XO (XO (XO (XO (XO (XO (XO (XO (XO
    (XO (XO (XO (XO (XO (XO (XO (XO (XO (XO (XO (XO (XO
    XH))))))))))))))))))))))))))))))))) :: ((Npos (XO (XO (XO (XO (XO (XO (XO
    (XO (XO (XO (XO (XO (XO (XO (XO (XO (XO (XO (XO (XO (XO (XO (XO (XO (XO
    (XO (XO (XO (XO (XO (XO (XO (XO
    XH)))))))))))))))))))))))))))))))))) :: ((Npos (XO (XO (XO (XO (XO (XO
    (XO (XO (XO (XO (XO (XO (XO (XO (XO (XO (XO (XO (XO (XO (XO (XO (XO (XO
    (XO (XO (XO (XO (XO (XO (XO (XO (XO (XO
    XH))))))))))))))))))))))))))))))))))) :: ((Npos (XO (XO (XO (XO (XO (XO
    (XO (XO (XO (XO (XO (XO (XO (XO (XO (XO (XO (XO (XO (XO (XO (XO (XO (XO
    (XO (XO (XO (XO (XO (XO (XO (XO (XO (XO (XO
    XH)))))))))))))))))))))))))))))))))))) :: ((Npos (XO (XO (XO (XO (XO (XO
    (XO (XO (XO (XO (XO (XO (XO (XO (XO (XO (XO (XO (XO (XO (XO (XO (XO (XO
    (XO (XO (XO (XO (XO (XO (XO (XO (XO (XO (XO (XO
    XH))))))))))))))))))))))))))))))))))))) :: ((Npos (XO (XO (XO (XO (XO (XO
    (XO (XO (XO (XO (XO (XO (XO (XO (XO (XO (XO (XO (XO (XO (XO (XO (XO (XO
    (XO (XO (XO (XO (XO (XO (XO (XO (XO (XO (XO (XO (XO
    XH)))))))))))))))))))))))))))))))))))))) :: ((Npos (XO (XO (XO (XO (XO
    (XO (XO (XO (XO (XO (XO (XO (XO (XO (XO (XO (XO (XO (XO (XO (XO (XO (XO
    (XO (XO (XO (XO (XO (XO (XO (XO (XO (XO (XO (XO (XO (XO (XO
    XH))))))))))))))))))))))))))))))))))))))) :: ((Npos (XO (XO (XO (XO (XO
    (XO (XO (XO (XO (XO (XO (XO (XO (XO (XO (XO (XO (XO (XO (XO (XO (XO (XO
    (XO (XO (XO (XO (XO (XO (XO (XO (XO (XO (XO (XO (XO (XO (XO (XO
    XH)))))))))))))))))))))))))))))))))))))))) :: ((Npos (XO (XO (XO (XO (XO
    (XO (XO (XO (XO (XO (XO (XO (XO (XO (XO (XO (XO (XO (XO (XO (XO (XO (XO
    (XO (XO (XO (XO (XO (XO (XO (XO (XO (XO (XO (XO (XO (XO (XO (XO (XO
    XH))))))))))))))))))))))))))))))))))))))))) :: ((Npos (XO (XO (XO (XO (XO
    (XO (XO (XO (XO (XO (XO (XO (XO (XO (XO (XO (XO (XO (XO (XO (XO (XO (XO
    (XO (XO (XO (XO (XO (XO (XO (XO (XO (XO (XO (XO (XO (XO (XO (XO (XO (XO
    XH)))))))))))))))))))))))))))))))))))))))))) :: ((Npos (XO (XO (XO (XO
    (XO (XO (XO (XO (XO (XO (XO (XO (XO (XO (XO (XO (XO (XO (XO (XO (XO (XO
    (XO (XO (XO (XO (XO (XO (XO (XO (XO (XO (XO (XO (XO (XO (XO (XO (XO (XO
    (XO (XO XH))))))))))))))))))))))))))))))))))))))))))) :: ((Npos (XO (XO
    (XO (XO (XO (XO (XO (XO (XO (XO (XO (XO (XO (XO (XO (XO (XO (XO (XO (XO
    (XO (XO (XO (XO (XO (XO (XO (XO (XO (XO (XO (XO (XO (XO (XO (XO (XO (XO
    (XO (XO (XO (XO (XO
    XH)))))))))))))))))))))))))))))))))))))))))))) :: ((Npos (XO (XO (XO (XO
    (XO (XO (XO (XO (XO (XO (XO (XO (XO (XO (XO (XO (XO (XO (XO (XO (XO (XO
    (XO (XO (XO (XO (XO (XO (XO (XO (XO (XO (XO (XO (XO (XO (XO (XO (XO (XO
    (XO (XO (XO (XO XH))))))))))))))))))))))))))))))))))))))))))))) :: ((Npos
    (XO (XO (XO (XO (XO (XO (XO (XO (XO (XO (XO (XO (XO (XO (XO (XO (XO (XO
    (XO (XO (XO (XO (XO (XO (XO (XO (XO (XO (XO (XO (XO (XO (XO (XO (XO (XO
    (XO (XO (XO (XO (XO (XO (XO (XO (XO
    XH)))))))))))))))))))))))))))))))))))))))))))))) :: ((Npos (XO (XO (XO
    (XO (XO (XO (XO (XO (XO (XO (XO (XO (XO (XO (XO (XO (XO (XO (XO (XO (XO
    (XO (XO (XO (XO (XO (XO (XO (XO (XO (XO (XO (XO (XO (XO (XO (XO (XO (XO
    (XO (XO (XO (XO (XO (XO (XO
    XH))))))))))))))))))))))))))))))))))))))))))))))) :: ((Npos (XO (XO (XO
    (XO (XO (XO (XO (XO (XO (XO (XO (XO (XO (XO (XO (XO (XO (XO (XO (XO (XO
    (XO (XO (XO (XO (XO (XO (XO (XO (XO (XO (XO (XO (XO (XO (XO (XO (XO (XO
    (XO (XO (XO (XO (XO (XO (XO (XO
    XH)))))))))))))))))))))))))))))))))))))))))))))))) :: ((Npos (XO (XO (XO
    (XO (XO (XO (XO (XO (XO (XO (XO (XO (XO (XO (XO (XO (XO (XO (XO (XO (XO
    (XO (XO (XO (XO (XO (XO (XO (XO (XO (XO (XO (XO (XO (XO (XO (XO (XO (XO
    (XO (XO (XO (XO (XO (XO (XO (XO (XO
    XH))))))))))))))))))))))))))))))))))))))))))))))))) :: ((Npos (XO (XO (XO
    (XO (XO (XO (XO (XO (XO (XO (XO (XO (XO (XO (XO (XO (XO (XO (XO (XO (XO
    (XO (XO (XO (XO (XO (XO (XO (XO (XO (XO (XO (XO (XO (XO (XO (XO (XO (XO
    (XO (XO (XO (XO (XO (XO (XO (XO (XO (XO
    XH)))))))))))))))))))))))))))))))))))))))))))))))))) :: ((Npos (XO (XO
    (XO (XO (XO (XO (XO (XO (XO (XO (XO (XO (XO (XO (XO (XO (XO (XO (XO (XO
    (XO (XO (XO (XO (XO (XO (XO (XO (XO (XO (XO (XO (XO (XO (XO (XO (XO (XO
    (XO (XO (XO (XO (XO (XO (XO (XO (XO (XO (XO (XO
    XH))))))))))))))))))))))))))))))))))))))))))))))))))) :: ((Npos (XO (XO
    (XO (XO (XO (XO (XO (XO (XO (XO (XO (XO (XO (XO (XO (XO (XO (XO (XO (XO
    (XO (XO (XO (XO (XO (XO (XO (XO (XO (XO (XO (XO (XO (XO (XO (XO (XO (XO
    (XO (XO (XO (XO (XO (XO (XO (XO (XO (XO (XO (XO (XO
    XH)))))))))))))))))))))))))))))))))))))))))))))))))))) :: ((Npos (XO (XO
    (XO (XO (XO (XO (XO (XO (XO (XO (XO (XO (XO (XO (XO (XO (XO (XO (XO (XO
    (XO (XO (XO (XO (XO (XO (XO (XO (XO (XO (XO (XO (XO (XO (XO (XO (XO (XO
    (XO (XO (XO (XO (XO (XO (XO (XO (XO (XO (XO (XO (XO (XO
    XH))))))))))))))))))))))))))))))))))))))))))))))))))))) :: ((Npos (XO (XO
    (XO (XO (XO (XO (XO (XO (XO (XO (XO (XO (XO (XO (XO (XO (XO (XO (XO (XO
    (XO (XO (XO (XO (XO (XO (XO (XO (XO (XO (XO (XO (XO (XO (XO (XO (XO (XO
    (XO (XO (XO (XO (XO (XO (XO (XO (XO (XO (XO (XO (XO (XO (XO
    XH)))))))))))))))))))))))))))))))))))))))))))))))))))))) :: ((Npos (XO
    (XO (XO (XO (XO (XO (XO (XO (XO (XO (XO (XO (XO (XO (XO (XO (XO (XO (XO
    (XO (XO (XO (XO (XO (XO (XO (XO (XO (XO (XO (XO (XO (XO (XO (XO (XO (XO
    (XO (XO (XO (XO (XO (XO (XO (XO (XO (XO (XO (XO (XO (XO (XO (XO (XO
    XH))))))))))))))))))))))))))))))))))))))))))))))))))))))) :: ((Npos (XO
    (XO (XO (XO (XO (XO (XO (XO (XO (XO (XO (XO (XO (XO (XO (XO (XO (XO (XO
    (XO (XO (XO (XO (XO (XO (XO (XO (XO (XO (XO (XO (XO (XO (XO (XO (XO (XO
    (XO (XO (XO (XO (XO (XO (XO (XO (XO (XO (XO (XO (XO (XO (XO (XO (XO (XO
    XH)))))))))))))))))))))))))))))))))))))))))))))))))))))))) :: ((Npos (XO
    (XO (XO (XO (XO (XO (XO (XO (XO (XO (XO (XO (XO (XO (XO (XO (XO (XO (XO
    (XO (XO (XO (XO (XO (XO (XO (XO (XO (XO (XO (XO (XO (XO (XO (XO (XO (XO
    (XO (XO (XO (XO (XO (XO (XO (XO (XO (XO (XO (XO (XO (XO (XO (XO (XO (XO
    (XO XH))))))))))))))))))))))))))))))))))))))))))))))))))))))))) :: ((Npos
    (XO (XO (XO (XO (XO (XO (XO (XO (XO (XO (XO (XO (XO (XO (XO (XO (XO (XO
    (XO (XO (XO (XO (XO (XO (XO (XO (XO (XO (XO (XO (XO (XO (XO (XO (XO (XO
    (XO (XO (XO (XO (XO (XO (XO (XO (XO (XO (XO (XO (XO (XO (XO (XO (XO (XO
    (XO (XO (XO
    XH)))))))))))))))))))))))))))))))))))))))))))))))))))))))))) :: ((Npos
    (XO (XO (XO (XO (XO (XO (XO (XO (XO (XO (XO (XO (XO (XO (XO (XO (XO (XO
    (XO (XO (XO (XO (XO (XO (XO (XO (XO (XO (XO (XO (XO (XO (XO (XO (XO (XO
    (XO (XO (XO (XO (XO (XO (XO (XO (XO (XO (XO (XO (XO (XO (XO (XO (XO (XO
    (XO (XO (XO (XO
    XH))))))))))))))))))))))))))))))))))))))))))))))))))))))))))) :: ((Npos
    (XO (XO (XO (XO (XO (XO (XO (XO (XO (XO (XO (XO (XO (XO (XO (XO (XO (XO
    (XO (XO (XO (XO (XO (XO (XO (XO (XO (XO (XO (XO (XO (XO (XO (XO (XO (XO
    (XO (XO (XO (XO (XO (XO (XO (XO (XO (XO (XO (XO (XO (XO (XO (XO (XO (XO
    (XO (XO (XO (XO (XO
    XH)))))))))))))))))))))))))))))))))))))))))))))))))))))))))))) :: ((Npos
    (XO (XO (XO (XO (XO (XO (XO (XO (XO (XO (XO (XO (XO (XO (XO (XO (XO (XO
    (XO (XO (XO (XO (XO (XO (XO (XO (XO (XO (XO (XO (XO (XO (XO (XO (XO (XO
    (XO (XO (XO (XO (XO (XO (XO (XO (XO (XO (XO (XO (XO (XO (XO (XO (XO (XO
    (XO (XO (XO (XO (XO (XO
    XH))))))))))))))))))))))))))))))))))))))))))))))))))))))))))))) :: ((Npos
    (XO (XO (XO (XO (XO (XO (XO (XO (XO (XO (XO (XO (XO (XO (XO (XO (XO (XO
    (XO (XO (XO (XO (XO (XO (XO (XO (XO (XO (XO (XO (XO (XO (XO (XO (XO (XO
    (XO (XO (XO (XO (XO (XO (XO (XO (XO (XO (XO (XO (XO (XO (XO (XO (XO (XO
    (XO (XO (XO (XO (XO (XO (XO
    XH)))))))))))))))))))))))))))))))))))))))))))))))))))))))))))))) :: ((Npos
    (XO (XO (XO (XO (XO (XO (XO (XO (XO (XO (XO (XO (XO (XO (XO (XO (XO (XO
    (XO (XO (XO (XO (XO (XO (XO (XO (XO (XO (XO (XO (XO (XO (XO (XO (XO (XO
    (XO (XO (XO (XO (XO (XO (XO (XO (XO (XO (XO (XO (XO (XO (XO (XO (XO (XO
    (XO (XO (XO (XO (XO (XO (XO (XO
    XH))))))))))))))))))))))))))))))))))))))))))))))))))))))))))))))) :: ((Npos
    (XO (XO (XO (XO (XO (XO (XO (XO (XO (XO (XO (XO (XO (XO (XO (XO (XO (XO
    (XO (XO (XO (XO (XO (XO (XO (XO (XO (XO (XO (XO (XO (XO (XO (XO (XO (XO
    (XO (XO (XO (XO (XO (XO (XO (XO (XO (XO (XO (XO (XO (XO (XO (XO (XO (XO
    (XO (XO (XO (XO (XO (XO (XO (XO (XO
    XH)))))))))))))))))))))))))))))))))))))))))))))))))))))))))))))))) :: (N0 :: (N0 :: (N0 :: (N0 :: (N0 :: (N0 :: (N0 :: (N0 :: [])))))))))))))))))))))))))))))))))))))))))))))))))))))))))))))))

(** val pAWN_PUSH_B : bb list **)

let pAWN_PUSH_B =
  N0 :: (N0 :: (N0 :: (N0 :: (N0 :: (N0 :: (N0 :: (N0 :: ((Npos XH) :: ((Npos
    (XO XH)) :: ((Npos (XO (XO XH))) :: ((Npos (XO (XO (XO XH)))) :: ((Npos
    (XO (XO (XO (XO XH))))) :: ((Npos (XO (XO (XO (XO (XO XH)))))) :: ((Npos
    (XO (XO (XO (XO (XO (XO XH))))))) :: ((Npos (XO (XO (XO (XO (XO (XO (XO
    XH)))))))) :: ((Npos (XO (XO (XO (XO (XO (XO (XO (XO
    XH))))))))) :: ((Npos (XO (XO (XO (XO (XO (XO (XO (XO (XO
    XH)))))))))) :: ((Npos (XO (XO (XO (XO (XO (XO (XO (XO (XO (XO
    XH))))))))))) :: ((Npos (XO (XO (XO (XO (XO (XO (XO (XO (XO (XO (XO
    XH)))))))))))) :: ((Npos (XO (XO (XO (XO (XO (XO (XO (XO (XO (XO (XO (XO
    XH))))))))))))) :: ((Npos (XO (XO (XO (XO (XO (XO (XO (XO (XO (XO (XO (XO
    (XO XH)))))))))))))) :: ((Npos (XO (XO (XO (XO (XO (XO (XO (XO (XO (XO
    (XO (XO (XO (XO XH))))))))))))))) :: ((Npos (XO (XO (XO (XO (XO (XO (XO
    (XO (XO (XO (XO (XO (XO (XO (XO XH)))))))))))))))) :: ((Npos (XO (XO (XO
    (XO (XO (XO (XO (XO (XO (XO (XO (XO (XO (XO (XO (XO
    XH))))))))))))))))) :: ((Npos (XO (XO (XO (XO (XO (XO (XO (XO (XO (XO (XO
    (XO (XO (XO (XO (XO (XO XH)))))))))))))))))) :: ((Npos (XO (XO (XO (XO
    (XO (XO (XO (XO (XO (XO (XO (XO (XO (XO (XO (XO (XO (XO
    XH))))))))))))))))))) :: ((Npos (XO (XO (XO (XO (XO (XO (XO (XO (XO (XO
    (XO (XO (XO (XO (XO (XO (XO (XO (XO XH)))))))))))))))))))) :: ((Npos (XO
    (XO (XO (XO (XO (XO (XO (XO (XO (XO (XO (XO (XO (XO (XO (XO (XO (XO (XO
    (XO XH))))))))))))))))))))) :: ((Npos (XO (XO (XO (XO (XO (XO (XO (XO (XO
    (XO (XO (XO (XO (XO (XO (XO (XO (XO (XO (XO (XO
    XH)))))))))))))))))))))) :: ((Npos (XO (XO (XO (XO (XO (XO (XO (XO (XO
    (XO (XO (XO (XO (XO (XO (XO (XO (XO (XO (XO (XO (XO
    XH))))))))))))))))))))))) :: ((Npos (XO (XO (XO (XO (XO (XO (XO (XO (XO
    (XO (XO (XO (XO (XO (XO (XO (XO (XO (XO (XO (XO (XO (XO
    XH)))))))))))))))))))))))) :: ((Npos (XO (XO (XO (XO (XO (XO (XO (XO (XO
    (XO (XO (XO (XO (XO (XO (XO (XO (XO (XO (XO (XO (XO (XO (XO
    XH))))))))))))))))))))))))) :: ((Npos (XO (XO (XO (XO (XO (XO (XO (XO (XO
    (XO (XO (XO (XO (XO (XO (XO (XO (XO (XO (XO (XO (XO (XO (XO (XO
    XH)))))))))))))))))))))))))) :: ((Npos (XO (XO (XO (XO (XO (XO (XO (XO
    (XO (XO (XO (XO (XO (XO (XO (XO (XO (XO (XO (XO (XO (XO (XO (XO (XO (XO
    XH))))))))))))))))))))))))))) :: ((Npos (XO (XO (XO (XO (XO (XO (XO (XO
    (XO (XO (XO (XO (XO (XO (XO (XO (XO (XO (XO (XO (XO (XO (XO (XO (XO (XO
    (XO XH)))))))))))))))))))))))))))) :: ((Npos (XO (XO (XO (XO (XO (XO (XO
    (XO (XO (XO (XO (XO (XO (XO (XO (XO (XO (XO (XO (XO (XO (XO (XO (XO (XO
    (XO (XO (XO XH))))))))))))))))))))))))))))) :: ((Npos (XO (XO (XO (XO (XO
    (XO (XO (XO (XO (XO (XO (XO (XO (XO (XO (XO (XO (XO (XO (XO (XO (XO (XO
    (XO (XO (XO (XO (XO (XO XH)))))))))))))))))))))))))))))) :: ((Npos (XO
    (XO (XO (XO (XO (XO (XO (XO (XO (XO (XO (XO (XO (XO (XO (XO (XO (XO (XO
    (XO (XO (XO (XO (XO (XO (XO (XO (XO (XO (XO
    XH))))))))))))))))))))))))))))))) :: ((Npos (XO (XO (XO (XO (XO (XO (XO
    (XO (XO (XO (XO (XO (XO (XO (XO (XO (XO (XO (XO (XO (XO (XO (XO (XO (XO
    (XO (XO (XO (XO (XO (XO XH)))))))))))))))))))))))))))))))) :: ((Npos (XO
    (XO (XO (XO (XO (XO (XO (XO (XO (XO (XO (XO (XO (XO (XO (XO (XO (XO (XO
    (XO (XO (XO (XO (XO (XO (XO (XO (XO (XO (XO (XO (XO
    XH))))))))))))))))))))))))))))))))) :: ((Npos (XO (XO (XO (XO (XO (XO (XO
    (XO (XO (XO (XO (XO (XO (XO (XO (XO (XO (XO (XO (XO (XO (XO (XO (XO (XO
    (XO (XO (XO (XO (XO (XO (XO (XO
    XH)))))))))))))))))))))))))))))))))) :: ((Npos (XO (XO (XO (XO (XO (XO
    (XO (XO (XO (XO (XO (XO (XO (XO (XO (XO (XO (XO (XO (XO (XO (XO (XO (XO
    (XO (XO (XO (XO (XO (XO (XO (XO (XO (XO
    XH))))))))))))))))))))))))))))))))))) :: ((Npos (XO (XO (XO (XO (XO (XO
    (XO (XO (XO (XO (XO (XO (XO (XO (XO (XO (XO (XO (XO (XO (XO (XO (XO (XO
    (XO (XO (XO (XO (XO (XO (XO (XO (XO (XO (XO
    XH)))))))))))))))))))))))))))))))))))) :: ((Npos (XO (XO (XO (XO (XO (XO
    (XO (XO (XO (XO (XO (XO (XO (XO (XO (XO (XO (XO (XO (XO (XO (XO (XO (XO
    (XO (XO (XO (XO (XO (XO (XO (XO (XO (XO (XO (XO
    XH))))))))))))))))))))))))))))))))))))) :: ((Npos (XO (XO (XO (XO (XO (XO
    (XO (XO (XO (XO (XO (XO (XO (XO (XO (XO (XO (XO (XO (XO (XO (XO (XO (XO
    (XO (XO (XO (XO (XO (XO (XO (XO (XO (XO (XO (XO (XO
    XH)))))))))))))))))))))))))))))))))))))) :: ((Npos (XO (XO (XO (XO (XO
    (XO (XO (XO (XO (XO (XO (XO (XO (XO (XO (XO (XO (XO (XO (XO (XO (XO (XO
    (XO (XO (XO (XO (XO (XO (XO (XO (XO (XO (XO (XO (XO (XO (XO
    XH))))))))))))))))))))))))))))))))))))))) :: ((Npos (XO (XO (XO (XO (XO
    (XO (XO (XO (XO (XO (XO (XO (XO (XO (XO (XO (XO (XO (XO (XO (XO (XO (XO
    (XO (XO (XO (XO (XO (XO (XO (XO (XO (XO (XO (XO (XO (XO (XO (XO
    XH)))))))))))))))))))))))))))))))))))))))) :: ((Npos (XO (XO (XO (XO (XO
    (XO (XO (XO (XO (XO (XO (XO (XO (XO (XO (XO (XO (XO (XO (XO (XO (XO (XO
    (XO (XO (XO (XO (XO (XO (XO (XO (XO (XO (XO (XO (XO (XO (XO (XO (XO
    XH))))))))))))))))))))))))))))))))))))))))) :: ((Npos (XO (XO (XO (XO (XO
    (XO (XO (XO (XO (XO (XO (XO (XO (XO (XO (XO (XO (XO (XO (XO (XO (XO (XO
    (XO (XO (XO (XO (XO (XO (XO (XO (XO (XO (XO (XO (XO (XO (XO (XO (XO (XO
    XH)))))))))))))))))))))))))))))))))))))))))) :: ((Npos (XO (XO (XO (XO
    (XO (XO (XO (XO (XO (XO (XO (XO (XO (XO (XO (XO (XO (XO (XO (XO (XO (XO
    (XO (XO (XO (XO (XO (XO (XO (XO (XO (XO (XO (XO (XO (XO (XO (XO (XO (XO
    (XO (XO XH))))))))))))))))))))))))))))))))))))))))))) :: ((Npos (XO (XO
    (XO (XO (XO (XO (XO (XO (XO (XO (XO (XO (XO (XO (XO (XO (XO (XO (XO (XO
    (XO (XO (XO (XO (XO (XO (XO (XO (XO (XO (XO (XO (XO (XO (XO (XO (XO (XO
    (XO (XO (XO (XO (XO
    XH)))))))))))))))))))))))))))))))))))))))))))) :: ((Npos (XO (XO (XO (XO
    (XO (XO (XO (XO (XO (XO (XO (XO (XO (XO (XO (XO (XO (XO (XO (XO (XO (XO
    (XO (XO (XO (XO (XO (XO (XO (XO (XO (XO (XO (XO (XO (XO (XO (XO (XO (XO
    (XO (XO (XO (XO XH))))))))))))))))))))))))))))))))))))))))))))) :: ((Npos
    (XO (XO (XO (XO (XO (XO (XO (XO (XO (XO (XO (XO (XO (XO (XO (XO (XO (XO
    (XO (XO (XO (XO (XO (XO (XO (XO (XO (XO (XO (XO (XO (XO (XO (XO (XO (XO
    (XO (XO (XO (XO (XO (XO (XO (XO (XO
    XH)))))))))))))))))))))))))))))))))))))))))))))) :: ((Npos (XO (XO (XO
    (XO (XO (XO (XO (XO (XO (XO (XO (XO (XO (XO (XO (XO (XO (XO (XO (XO (XO
    (XO (XO (XO (XO (XO (XO (XO (XO (XO (XO (XO (XO (XO (XO (XO (XO (XO (XO
    (XO (XO (XO (XO (XO (XO (XO
    XH))))))))))))))))))))))))))))))))))))))))))))))) :: ((Npos (XO (XO (XO
    (XO (XO (XO (XO (XO (XO (XO (XO (XO (XO (XO (XO (XO (XO (XO (XO (XO (XO
    (XO (XO (XO (XO (XO (XO (XO (XO (XO (XO (XO (XO (XO (XO (XO (XO (XO (XO
    (XO (XO (XO (XO (XO (XO (XO (XO
    XH)))))))))))))))))))))))))))))))))))))))))))))))) :: ((Npos (XO (XO (XO
    (XO (XO (XO (XO (XO (XO (XO (XO (XO (XO (XO (XO (XO (XO (XO (XO (XO (XO
    (XO (XO (XO (XO (XO (XO (XO (XO (XO (XO (XO (XO (XO (XO (XO (XO (XO (XO
    (XO (XO (XO (XO (XO (XO (XO (XO (XO
    XH))))))))))))))))))))))))))))))))))))))))))))))))) :: ((Npos (XO (XO (XO
    (XO (XO (XO (XO (XO (XO (XO (XO (XO (XO (XO (XO (XO (XO (XO (XO (XO (XO
    (XO (XO (XO (XO (XO (XO (XO (XO (XO (XO (XO (XO (XO (XO (XO (XO (XO (XO
    (XO (XO (XO (XO (XO (XO (XO (XO (XO (XO
    XH)))))))))))))))))))))))))))))))))))))))))))))))))) :: ((Npos (XO (XO
    (XO (XO (XO (XO (XO (XO (XO (XO (XO (XO (XO (XO (XO (XO (XO (XO (XO (XO
    (XO (XO (XO (XO (XO (XO (XO (XO (XO (XO (XO (XO (XO (XO (XO (XO (XO (XO
    (XO (XO (XO (XO (XO (XO (XO (XO (XO (XO (XO (XO
    XH))))))))))))))))))))))))))))))))))))))))))))))))))) :: ((Npos (XO (XO
    (XO (XO (XO (XO (XO (XO (XO (XO (XO (XO (XO (XO (XO (XO (XO (XO (XO (XO
    (XO (XO (XO (XO (XO (XO (XO (XO (XO (XO (XO (XO (XO (XO (XO (XO (XO (XO
    (XO (XO (XO (XO (XO (XO (XO (XO (XO (XO (XO (XO (XO
    XH)))))))))))))))))))))))))))))))))))))))))))))))))))) :: ((Npos (XO (XO
    (XO (XO (XO (XO (XO (XO (XO (XO (XO (XO (XO (XO (XO (XO (XO (XO (XO (XO
    (XO (XO (XO (XO (XO (XO (XO (XO (XO (XO (XO (XO (XO (XO (XO (XO (XO (XO
    (XO (XO (XO (XO (XO (XO (XO (XO (XO (XO (XO (XO (XO (XO
    XH))))))))))))))))))))))))))))))))))))))))))))))))))))) :: ((Npos (XO (XO
    (XO (XO (XO (XO (XO (XO (XO (XO (XO (XO (XO (XO (XO (XO (XO (XO (XO (XO
    (XO (XO (XO (XO (XO (XO (XO (XO (XO (XO (XO (XO (XO (XO (XO (XO (XO (XO
    (XO (XO (XO (XO (XO (XO (XO (XO (XO (XO (XO (XO (XO (XO (XO
    XH)))))))))))))))))))))))))))))))))))))))))))))))))))))) :: ((Npos (XO
    (XO (XO (XO (XO (XO (XO (XO (XO (XO (XO (XO (XO (XO (XO (XO (XO (XO (XO
    (XO (XO (XO (XO (XO (XO (XO (XO (XO (XO (XO (XO (XO (XO (XO (XO (XO (XO
    (XO (XO (XO (XO (XO (XO (XO (XO (XO (XO (XO (XO (XO (XO (XO (XO (XO
    XH))))))))))))))))))))))))))))))))))))))))))))))))))))))) :: ((Npos (XO
    (XO (XO (XO (XO (XO (XO (XO (XO (XO (XO (XO (XO (XO (XO (XO (XO (XO (XO
    (XO (XO (XO (XO (XO (XO (XO (XO (XO (XO (XO (XO (XO (XO (XO (XO (XO (XO
    (XO (XO (XO (XO (XO (XO (XO (XO (XO (XO (XO (XO (XO (XO (XO (XO (XO (XO
    XH)))))))))))))))))))))))))))))))))))))))))))))))))))))))) :: [])))))))))))))))))))))))))))))))))))))))))))))))))))))))))))))))

(** val pAWN_DBL_W : bb list **)

let pAWN_DBL_W =
  N0 :: (N0 :: (N0 :: (N0 :: (N0 :: (N0 :: (N0 :: (N0 :: ((Npos (XO (XO (XO
    (XO (XO (XO (XO (XO (XO (XO (XO (XO (XO (XO (XO (XO (XO (XO (XO (XO (XO
    (XO (XO (XO XH))))))))))))))))))))))))) :: ((Npos (XO (XO (XO (XO (XO (XO
    (XO (XO (XO (XO (XO (XO (XO (XO (XO (XO (XO (XO (XO (XO (XO (XO (XO (XO
    (XO XH)))))))))))))))))))))))))) :: ((Npos (XO (XO (XO (XO (XO (XO (XO
    (XO (XO (XO (XO (XO (XO (XO (XO (XO (XO (XO (XO (XO (XO (XO (XO (XO (XO
    (XO XH))))))))))))))))))))))))))) :: ((Npos (XO (XO (XO (XO (XO (XO (XO
    (XO (XO (XO (XO (XO (XO (XO (XO (XO (XO (XO (XO (XO (XO (XO (XO (XO (XO
    (XO (XO XH)))))))))))))))))))))))))))) :: ((Npos (XO (XO (XO (XO (XO (XO
    (XO (XO (XO (XO (XO (XO (XO (XO (XO (XO (XO (XO (XO (XO (XO (XO (XO (XO
    (XO (XO (XO (XO XH))))))))))))))))))))))))))))) :: ((Npos (XO (XO (XO (XO
    (XO (XO (XO (XO (XO (XO (XO (XO (XO (XO (XO (XO (XO (XO (XO (XO (XO (XO
    (XO (XO (XO (XO (XO (XO (XO XH)))))))))))))))))))))))))))))) :: ((Npos
    (XO (XO (XO (XO (XO (XO (XO (XO (XO (XO (XO (XO (XO (XO (XO (XO (XO (XO
    (XO (XO (XO (XO (XO (XO (XO (XO (XO (XO (XO (XO
    XH))))))))))))))))))))))))))))))) :: ((Npos (XO (XO (XO (XO (XO (XO (XO
    (XO (XO (XO (XO (XO (XO (XO (XO (XO (XO (XO (XO (XO (XO (XO (XO (XO (XO
    (XO (XO (XO (XO (XO (XO
    XH)))))))))))))))))))))))))))))))) :: (N0 :: (N0 :: (N0 :: (N0 :: (N0 :: (N0 :: (N0 :: (N0 :: (N0 :: (N0 :: (N0 :: (N0 :: (N0 :: (N0 :: (N0 :: (N0 :: (N0 :: (N0 :: (N0 :: (N0 :: (N0 :: (N0 :: (N0 :: (N0 :: (N0 :: (N0 :: (N0 :: (N0 :: (N0 :: (N0 :: (N0 :: (N0 :: (N0 :: (N0 :: (N0 :: (N0 :: (N0 :: (N0 :: (N0 :: (N0 :: (N0 :: (N0 :: (N0 :: (N0 :: (N0 :: (N0 :: (N0 :: (N0 :: [])))))))))))))))))))))))))))))))))))))))))))))))))))))))))))))))

(** val pAWN_DBL_B : bb list **)

let pAWN_DBL_B =
  N0 :: (N0 :: (N0 :: (N0 :: (N0 :: (N0 :: (N0 :: (N0 :: (N0 :: (N0 :: (N0 :: (N0 :: (N0 :: (N0 :: (N0 :: (N0 :: (N0 :: (N0 :: (N0 :: (N0 :: (N0 :: (N0 :: (N0 :: (N0 :: (N0 :: (N0 :: (N0 :: (N0 :: (N0 :: (N0 :: (N0 :: (N0 :: (N0 :: (N0 :: (N0 :: (N0 :: (N0 :: (N0 :: (N0 :: (N0 :: (N0 :: (N0 :: (N0 :: (N0 :: (N0 :: (N0 :: (N0 :: (N0 :: ((Npos
    (XO (XO (XO (XO (XO (XO (XO (XO (XO (XO (XO (XO (XO (XO (XO (XO (XO (XO
    (XO (XO (XO (XO (XO (XO (XO (XO (XO (XO (XO (XO (XO (XO
    XH))))))))))))))))))))))))))))))))) :: ((Npos (XO (XO (XO (XO (XO (XO (XO
    (XO (XO (XO (XO (XO (XO (XO (XO (XO (XO (XO (XO (XO (XO (XO (XO (XO (XO
    (XO (XO (XO (XO (XO (XO (XO (XO
    XH)))))))))))))))))))))))))))))))))) :: ((Npos (XO (XO (XO (XO (XO (XO
    (XO (XO (XO (XO (XO (XO (XO (XO (XO (XO (XO (XO (XO (XO (XO (XO (XO (XO
    (XO (XO (XO (XO (XO (XO (XO (XO (XO (XO
    XH))))))))))))))))))))))))))))))))))) :: ((Npos (XO (XO (XO (XO (XO (XO
    (XO (XO (XO (XO (XO (XO (XO (XO (XO (XO (XO (XO (XO (XO (XO (XO (XO (XO
    (XO (XO (XO (XO (XO (XO (XO (XO (XO (XO (XO
    XH)))))))))))))))))))))))))))))))))))) :: ((Npos (XO (XO (XO (XO (XO (XO
    (XO (XO (XO (XO (XO (XO (XO (XO (XO (XO (XO (XO (XO (XO (XO (XO (XO (XO
    (XO (XO (XO (XO (XO (XO (XO (XO (XO (XO (XO (XO
    XH))))))))))))))))))))))))))))))))))))) :: ((Npos (XO (XO (XO (XO (XO (XO
    (XO (XO (XO (XO (XO (XO (XO (XO (XO (XO (XO (XO (XO (XO (XO (XO (XO (XO
    (XO (XO (XO (XO (XO (XO (XO (XO (XO (XO (XO (XO (XO
    XH)))))))))))))))))))))))))))))))))))))) :: ((Npos (XO (XO (XO (XO (XO
    (XO (XO (XO (XO (XO (XO (XO (XO (XO (XO (XO (XO (XO (XO (XO (XO (XO (XO
    (XO (XO (XO (XO (XO (XO (XO (XO (XO (XO (XO (XO (XO (XO (XO
    XH))))))))))))))))))))))))))))))))))))))) :: ((Npos (XO (XO (XO (XO (XO
    (XO (XO (XO (XO (XO (XO (XO (XO (XO (XO (XO (XO (XO (XO (XO (XO (XO (XO
    (XO (XO (XO (XO (XO (XO (XO (XO (XO (XO (XO (XO (XO (XO (XO (XO
    XH)))))))))))))))))))))))))))))))))))))))) :: (N0 :: (N0 :: (N0 :: (N0 :: (N0 :: (N0 :: (N0 :: (N0 :: [])))))))))))))))))))))))))))))))))))))))))))))))))))))))))))))))

(** val pAWN_CAP_W : bb list **)

let pAWN_CAP_W =
  (Npos (XO (XO (XO (XO (XO (XO (XO (XO (XO XH)))))))))) :: ((Npos (XO (XO
    (XO (XO (XO (XO (XO (XO (XI (XO XH))))))))))) :: ((Npos (XO (XO (XO (XO
    (XO (XO (XO (XO (XO (XI (XO XH)))))))))))) :: ((Npos (XO (XO (XO (XO (XO
    (XO (XO (XO (XO (XO (XI (XO XH))))))))))))) :: ((Npos (XO (XO (XO (XO (XO
    (XO (XO (XO (XO (XO (XO (XI (XO XH)))))))))))))) :: ((Npos (XO (XO (XO
    (XO (XO (XO (XO (XO (XO (XO (XO (XO (XI (XO XH))))))))))))))) :: ((Npos
    (XO (XO (XO (XO (XO (XO (XO (XO (XO (XO (XO (XO (XO (XI (XO
    XH)))))))))))))))) :: ((Npos (XO (XO (XO (XO (XO (XO (XO (XO (XO (XO (XO
    (XO (XO (XO XH))))))))))))))) :: ((Npos (XO (XO (XO (XO (XO (XO (XO (XO
    (XO (XO (XO (XO (XO (XO (XO (XO (XO XH)))))))))))))))))) :: ((Npos (XO
    (XO (XO (XO (XO (XO (XO (XO (XO (XO (XO (XO (XO (XO (XO (XO (XI (XO
    XH))))))))))))))))))) :: ((Npos (XO (XO (XO (XO (XO (XO (XO (XO (XO (XO
    (XO (XO (XO (XO (XO (XO (XO (XI (XO XH)))))))))))))))))))) :: ((Npos (XO
    (XO (XO (XO (XO (XO (XO (XO (XO (XO (XO (XO (XO (XO (XO (XO (XO (XO (XI
    (XO XH))))))))))))))))))))) :: ((Npos (XO (XO (XO (XO (XO (XO (XO (XO (XO
    (XO (XO (XO (XO (XO (XO (XO (XO (XO (XO (XI (XO
    XH)))))))))))))))))))))) :: ((Npos (XO (XO (XO (XO (XO (XO (XO (XO (XO
    (XO (XO (XO (XO (XO (XO (XO (XO (XO (XO (XO (XI (XO
    XH))))))))))))))))))))))) :: ((Npos (XO (XO (XO (XO (XO (XO (XO (XO (XO
    (XO (XO (XO (XO (XO (XO (XO (XO (XO (XO (XO (XO (XI (XO
    XH)))))))))))))))))))))))) :: ((Npos (XO (XO (XO (XO (XO (XO (XO (XO (XO
    (XO (XO (XO (XO (XO (XO (XO (XO (XO (XO (XO (XO (XO
    XH))))))))))))))))))))))) :: ((Npos (XO (XO (XO (XO (XO (XO (XO (XO (XO
    (XO (XO (XO (XO (XO (XO (XO (XO (XO (XO (XO (XO (XO (XO (XO (XO
    XH)))))))))))))))))))))))))) :: ((Npos (XO (XO (XO (XO (XO (XO (XO (XO
    (XO (XO (XO (XO (XO (XO (XO (XO (XO (XO (XO (XO (XO (XO (XO (XO (XI (XO
    XH))))))))))))))))))))))))))) :: ((Npos (XO (XO (XO (XO (XO (XO (XO (XO
    (XO (XO (XO (XO (XO (XO (XO (XO (XO (XO (XO (XO (XO (XO (XO (XO (XO (XI
    (XO XH)))))))))))))))))))))))))))) :: ((Npos (XO (XO (XO (XO (XO (XO (XO
    (XO (XO (XO (XO (XO (XO (XO (XO (XO (XO (XO (XO (XO (XO (XO (XO (XO (XO
    (XO (XI (XO XH))))))))))))))))))))))))))))) :: ((Npos (XO (XO (XO (XO (XO
    (XO (XO (XO (XO (XO (XO (XO (XO (XO (XO (XO (XO (XO (XO (XO (XO (XO (XO
    (XO (XO (XO (XO (XI (XO XH)))))))))))))))))))))))))))))) :: ((Npos (XO
    (XO (XO (XO (XO (XO (XO (XO (XO (XO (XO (XO (XO (XO (XO (XO (XO (XO (XO
    (XO (XO (XO (XO (XO (XO (XO (XO (XO (XI (XO
    XH))))))))))))))))))))))))))))))) :: ((Npos (XO (XO (XO (XO (XO (XO (XO
    (XO (XO (XO (XO (XO (XO (XO (XO (XO (XO (XO (XO (XO (XO (XO (XO (XO (XO
    (XO (XO (XO (XO (XI (XO XH)))))))))))))))))))))))))))))))) :: ((Npos (XO
    (XO (XO (XO (XO (XO (XO (XO (XO (XO (XO (XO (XO (XO (XO (XO (XO (XO (XO
    (XO (XO (XO (XO (XO (XO (XO (XO (XO (XO (XO
    XH))))))))))))))))))))))))))))))) :: ((Npos (XO (XO (XO (XO (XO (XO (XO
    (XO (XO (XO (XO (XO (XO (XO (XO (XO (XO (XO (XO (XO (XO (XO (XO (XO (XO
    (XO (XO (XO (XO (XO (XO (XO (XO
    XH)))))))))))))))))))))))))))))))))) :: ((Npos (XO (XO (XO (XO (XO (XO
    (XO (XO (XO (XO (XO (XO (XO (XO (XO (XO (XO (XO (XO (XO (XO (XO (XO (XO
    (XO (XO (XO (XO (XO (XO (XO (XO (XI (XO
    XH))))))))))))))))))))))))))))))))))) :: ((Npos (XO (XO (XO (XO (XO (XO
    (XO (XO (XO (XO (XO (XO (XO (XO (XO (XO (XO (XO (XO (XO (XO (XO (XO (XO
    (XO (XO (XO (XO (XO (XO (XO (XO (XO (XI (XO
    XH)))))))))))))))))))))))))))))))))))) :: ((Npos (XO (XO (XO (XO (XO (XO
    (XO (XO (XO (XO (XO (XO (XO (XO (XO (XO (XO (XO (XO (XO (XO (XO (XO (XO
    (XO (XO (XO (XO (XO (XO (XO (XO (XO (XO (XI (XO
    XH))))))))))))))))))))))))))))))))))))) :: ((Npos (XO (XO (XO (XO (XO (XO
    (XO (XO (XO (XO (XO (XO (XO (XO (XO (XO (XO (XO (XO (XO (XO (XO (XO (XO
    (XO (XO (XO (XO (XO (XO (XO (XO (XO (XO (XO (XI (XO
    XH)))))))))))))))))))))))))))))))))))))) :: ((Npos (XO (XO (XO (XO (XO
    (XO (XO (XO (XO (XO (XO (XO (XO (XO (XO (XO (XO (XO (XO (XO (XO (XO (XO
    (XO (XO (XO (XO (XO (XO (XO (XO (XO (XO (XO (XO (XO (XI (XO
    XH))))))))))))))))))))))))))))))))))))))) :: ((Npos (XO (XO (XO (XO (XO
    (XO (XO (XO (XO (XO (XO (XO (XO (XO (XO (XO (XO (XO (XO (XO (XO (XO (XO
    (XO (XO (XO (XO (XO (XO (XO (XO (XO (XO (XO (XO (XO (XO (XI (XO
    XH)))))))))))))))))))))))))))))))))))))))) :: ((Npos (XO (XO (XO (XO (XO
    (XO (XO (XO (XO (XO (XO (XO (XO (XO (XO (XO (XO (XO (XO (XO (XO (XO (XO
    (XO (XO (XO (XO (XO (XO (XO (XO (XO (XO (XO (XO (XO (XO (XO
    XH))))))))))))))))))))))))))))))))))))))) :: ((Npos (XO (XO (XO (XO (XO
    (XO (XO (XO (XO (XO (XO (XO (XO (XO (XO (XO (XO (XO (XO (XO (XO (XO (XO
    (XO (XO (XO (XO (XO (XO (XO (XO (XO (XO (XO (XO (XO (XO (XO (XO (XO (XO
    XH)))))))))))))))))))))))))))))))))))))))))) :: ((Npos (XO (XO (XO (XO
    (XO (XO (XO (XO (XO (XO (XO (XO (XO (XO (XO (XO (XO (XO (XO (XO (XO (XO
    (XO (XO (XO (XO (XO (XO (XO (XO (XO (XO (XO (XO (XO (XO (XO (XO (XO (XO
    (XI (XO XH))))))))))))))))))))))))))))))))))))))))))) :: ((Npos (XO (XO
    (XO (XO (XO (XO (XO (XO (XO (XO (XO (XO (XO (XO (XO (XO (XO (XO (XO (XO
    (XO (XO (XO (XO (XO (XO (XO (XO (XO (XO (XO (XO (XO (XO (XO (XO (XO (XO
    (XO (XO (XO (XI (XO
    XH)))))))))))))))))))))))))))))))))))))))))))) :: ((Npos (XO (XO (XO (XO
    (XO (XO (XO (XO (XO (XO (XO (XO (XO (XO (XO (XO (XO (XO (XO (XO (XO (XO
    (XO (XO (XO (XO (XO (XO (XO (XO (XO (XO (XO (XO (XO (XO (XO (XO (XO (XO
    (XO (XO (XI (XO XH))))))))))))))))))))))))))))))))))))))))))))) :: ((Npos
    (XO (XO (XO (XO (XO (XO (XO (XO (XO (XO (XO (XO (XO (XO (XO (XO (XO (XO
    (XO (XO (XO (XO (XO (XO (XO (XO (XO (XO (XO (XO (XO (XO (XO (XO (XO (XO
    (XO (XO (XO (XO (XO (XO (XO (XI (XO
    XH)))))))))))))))))))))))))))))))))))))))))))))) :: ((Npos (XO (XO (XO
    (XO (XO (XO (XO (XO (XO (XO (XO (XO (XO (XO (XO (XO (XO (XO (XO (XO (XO
    (XO (XO (XO (XO (XO (XO (XO (XO (XO (XO (XO (XO (XO (XO (XO (XO (XO (XO
    (XO (XO (XO (XO (XO (XI (XO
    XH))))))))))))))))))))))))))))))))))))))))))))))) :: ((Npos (XO (XO (XO
    (XO (XO (XO (XO (XO (XO (XO (XO (XO (XO (XO (XO (XO (XO (XO (XO (XO (XO
    (XO (XO (XO (XO (XO (XO (XO (XO (XO (XO (XO (XO (XO (XO (XO (XO (XO (XO
    (XO (XO (XO (XO (XO (XO (XI (XO
    XH)))))))))))))))))))))))))))))))))))))))))))))))) :: ((Npos (XO (XO (XO
    (XO (XO (XO (XO (XO (XO (XO (XO (XO (XO (XO (XO (XO (XO (XO (XO (XO (XO
    (XO (XO (XO (XO (XO (XO (XO (XO (XO (XO (XO (XO (XO (XO (XO (XO (XO (XO
    (XO (XO (XO (XO (XO (XO (XO
    XH))))))))))))))))))))))))))))))))))))))))))))))) :: ((Npos (XO (XO (XO
    (XO (XO (XO (XO (XO (XO (XO (XO (XO (XO (XO (XO (XO (XO (XO (XO (XO (XO
    (XO (XO (XO (XO (XO (XO (XO (XO (XO (XO (XO (XO (XO (XO (XO (XO (XO (XO
    (XO (XO (XO (XO (XO (XO (XO (XO (XO (XO
    XH)))))))))))))))))))))))))))))))))))))))))))))))))) :: ((Npos (XO (XO
    (XO (XO (XO (XO (XO (XO (XO (XO (XO (XO (XO (XO (XO (XO (XO (XO (XO (XO
    (XO (XO (XO (XO (XO (XO (XO (XO (XO (XO (XO (XO (XO (XO (XO (XO (XO (XO
    (XO (XO (XO (XO (XO (XO (XO (XO (XO (XO (XI (XO
    XH))))))))))))))))))))))))))))))))))))))))))))))))))) :: ((Npos (XO (XO
    (XO (XO (XO (XO (XO (XO (XO (XO (XO (XO (XO (XO (XO (XO (XO (XO (XO (XO
    (XO (XO (XO (XO (XO (XO (XO (XO (XO (XO (XO (XO (XO (XO (XO (XO (XO (XO
    (XO (XO (XO (XO (XO (XO (XO (XO (XO (XO (XO (XI (XO
    XH)))))))))))))))))))))))))))))))))))))))))))))))))))) :: ((Npos (XO (XO
    (XO (XO (XO (XO (XO (XO (XO (XO (XO (XO (XO (XO (XO (XO (XO (XO (XO (XO
    (XO (XO (XO (XO (XO (XO (XO (XO (XO (XO (XO (XO (XO (XO (XO (XO (XO (XO
    (XO (XO (XO (XO (XO (XO (XO (XO (XO (XO (XO (XO (XI (XO
    XH))))))))))))))))))))))))))))))))))))))))))))))))))))) :: ((Npos (XO (XO
    (XO (XO (XO (XO (XO (XO (XO (XO (XO (XO (XO (XO (XO (XO (XO (XO (XO (XO
    (XO (XO (XO (XO (XO (XO (XO (XO (XO (XO (XO (XO (XO (XO (XO (XO (XO (XO
    (XO (XO (XO (XO (XO (XO (XO (XO (XO (XO (XO (XO (XO (XI (XO
    XH)))))))))))))))))))))))))))))))))))))))))))))))))))))) :: ((Npos (XO
    (XO (XO (XO (XO (XO (XO (XO (XO (XO (XO (XO (XO (XO (XO (XO (XO (XO (XO
    (XO (XO (XO (XO (XO (XO (XO (XO (XO (XO (XO (XO (XO (XO (XO (XO (XO (XO
    (XO (XO (XO (XO (XO (XO (XO (XO (XO (XO (XO (XO (XO (XO (XO (XI (XO
    XH))))))))))))))))))))))))))))))))))))))))))))))))))))))) :: ((Npos (XO
    (XO (XO (XO (XO (XO (XO (XO (XO (XO (XO (XO (XO (XO (XO (XO (XO (XO (XO
    (XO (XO (XO (XO (XO (XO (XO (XO (XO (XO (XO (XO (XO (XO (XO (XO (XO (XO
    (XO (XO (XO (XO (XO (XO (XO (XO (XO (XO (XO (XO (XO (XO (XO (XO (XI (XO
    XH)))))))))))))))))))))))))))))))))))))))))))))))))))))))) :: ((Npos (XO
    (XO (XO (XO (XO (XO (XO (XO (XO (XO (XO (XO (XO (XO (XO (XO (XO (XO (XO
    (XO (XO (XO (XO (XO (XO (XO (XO (XO (XO (XO (XO (XO (XO (XO (XO (XO (XO
    (XO (XO (XO (XO (XO (XO (XO (XO (XO (XO (XO (XO (XO (XO (XO (XO (XO
    XH))))))))))))))))))))))))))))))))))))))))))))))))))))))) :: ((Npos (XO
    (XO (XO (XO (XO (XO (XO (XO (XO (XO (XO (XO (XO (XO (XO (XO (XO (XO (XO
    (XO (XO (XO (XO (XO (XO (XO (XO (XO (XO (XO (XO (XO (XO (XO (XO (XO (XO
    (XO (XO (XO (XO (XO (XO (XO (XO (XO (XO (XO (XO (XO (XO (XO (XO (XO (XO
    (XO (XO
    XH)))))))))))))))))))))))))))))))))))))))))))))))))))))))))) :: ((Npos
    (XO (XO (XO (XO (XO (XO (XO (XO (XO (XO (XO (XO (XO (XO (XO (XO (XO (XO
    (XO (XO (XO (XO (XO (XO (XO (XO (XO (XO (XO (XO (XO (XO (XO (XO (XO (XO
    (XO (XO (XO (XO (XO (XO (XO (XO (XO (XO (XO (XO (XO (XO (XO (XO (XO (XO
    (XO (XO (XI (XO
    XH))))))))))))))))))))))))))))))))))))))))))))))))))))))))))) :: ((Npos
    (XO (XO (XO (XO (XO (XO (XO (XO (XO (XO (XO (XO (XO (XO (XO (XO (XO (XO
    (XO (XO (XO (XO (XO (XO (XO (XO (XO (XO (XO (XO (XO (XO (XO (XO (XO (XO
    (XO (XO (XO (XO (XO (XO (XO (XO (XO (XO (XO (XO (XO (XO (XO (XO (XO (XO
    (XO (XO (XO (XI (XO
    XH)))))))))))))))))))))))))))))))))))))))))))))))))))))))))))) :: ((Npos
    (XO (XO (XO (XO (XO (XO (XO (XO (XO (XO (XO (XO (XO (XO (XO (XO (XO (XO
    (XO (XO (XO (XO (XO (XO (XO (XO (XO (XO (XO (XO (XO (XO (XO (XO (XO (XO
    (XO (XO (XO (XO (XO (XO (XO (XO (XO (XO (XO (XO (XO (XO (XO (XO (XO (XO
    (XO (XO (XO (XO (XI (XO
    XH))))))))))))))))))))))))))))))))))))))))))))))))))))))))))))) :: ((Npos
    (XO (XO (XO (XO (XO (XO (XO (XO (XO (XO (XO (XO (XO (XO (XO (XO (XO (XO
    (XO (XO (XO (XO (XO (XO (XO (XO (XO (XO (XO (XO (XO (XO (XO (XO (XO (XO
    (XO (XO (XO (XO (XO (XO (XO (XO (XO (XO (XO (XO (XO (XO (XO (XO (XO (XO
    (XO (XO (XO (XO (XO (XI (XO
    XH)))))))))))))))))))))))))))))))))))))))))))))))))))))))))))))) :: ((Npos
    (XO (XO (XO (XO (XO (XO (XO (XO (XO (XO (XO (XO (XO (XO (XO (XO (XO (XO
    (XO (XO (XO (XO (XO (XO (XO (XO (XO (XO (XO (XO (XO (XO (XO (XO (XO (XO
    (XO (XO (XO (XO (XO (XO (XO (XO (XO (XO (XO (XO (XO (XO (XO (XO (XO (XO
    (XO (XO (XO (XO (XO (XO (XI (XO
    XH))))))))))))))))))))))))))))))))))))))))))))))))))))))))))))))) :: ((Npos
    (XO (XO (XO (XO (XO (XO (XO (XO (XO (XO (XO (XO (XO (XO (XO (XO (XO (XO
    (XO (XO (XO (XO (XO (XO (XO (XO (XO (XO (XO (XO (XO (XO (XO (XO (XO (XO
    (XO (XO (XO (XO (XO (XO (XO (XO (XO (XO (XO (XO (XO (XO (XO (XO (XO (XO
    (XO (XO (XO (XO (XO (XO (XO (XI (XO
    XH)))))))))))))))))))))))))))))))))))))))))))))))))))))))))))))))) :: ((Npos
    (XO (XO (XO (XO (XO (XO (XO (XO (XO (XO (XO (XO (XO (XO (XO (XO (XO (XO
    (XO (XO (XO (XO (XO (XO (XO (XO (XO (XO (XO (XO (XO (XO (XO (XO (XO (XO
    (XO (XO (XO (XO (XO (XO (XO (XO (XO (XO (XO (XO (XO (XO (XO (XO (XO (XO
    (XO (XO (XO (XO (XO (XO (XO (XO
    XH))))))))))))))))))))))))))))))))))))))))))))))))))))))))))))))) :: (N0 :: (N0 :: (N0 :: (N0 :: (N0 :: (N0 :: (N0 :: (N0 :: [])))))))))))))))))))))))))))))))))))))))))))))))))))))))))))))))

(** val pAWN_CAP_B : bb list **)

let pAWN_CAP_B =
  N0 :: (N0 :: (N0 :: (N0 :: (N0 :: (N0 :: (N0 :: (N0 :: ((Npos (XO
    XH)) :: ((Npos (XI (XO XH))) :: ((Npos (XO (XI (XO XH)))) :: ((Npos (XO
    (XO (XI (XO XH))))) :: ((Npos (XO (XO (XO (XI (XO XH)))))) :: ((Npos (XO
    (XO (XO (XO (XI (XO XH))))))) :: ((Npos (XO (XO (XO (XO (XO (XI (XO
    XH)))))))) :: ((Npos (XO (XO (XO (XO (XO (XO XH))))))) :: ((Npos (XO (XO
    (XO (XO (XO (XO (XO (XO (XO XH)))))))))) :: ((Npos (XO (XO (XO (XO (XO
    (XO (XO (XO (XI (XO XH))))))))))) :: ((Npos (XO (XO (XO (XO (XO (XO (XO
    (XO (XO (XI (XO XH)))))))))))) :: ((Npos (XO (XO (XO (XO (XO (XO (XO (XO
    (XO (XO (XI (XO XH))))))))))))) :: ((Npos (XO (XO (XO (XO (XO (XO (XO (XO
    (XO (XO (XO (XI (XO XH)))))))))))))) :: ((Npos (XO (XO (XO (XO (XO (XO
    (XO (XO (XO (XO (XO (XO (XI (XO XH))))))))))))))) :: ((Npos (XO (XO (XO
    (XO (XO (XO (XO (XO (XO (XO (XO (XO (XO (XI (XO
    XH)))))))))))))))) :: ((Npos (XO (XO (XO (XO (XO (XO (XO (XO (XO (XO (XO
    (XO (XO (XO XH))))))))))))))) :: ((Npos (XO (XO (XO (XO (XO (XO (XO (XO
    (XO (XO (XO (XO (XO (XO (XO (XO (XO XH)))))))))))))))))) :: ((Npos (XO
    (XO (XO (XO (XO (XO (XO (XO (XO (XO (XO (XO (XO (XO (XO (XO (XI (XO
    XH))))))))))))))))))) :: ((Npos (XO (XO (XO (XO (XO (XO (XO (XO (XO (XO
    (XO (XO (XO (XO (XO (XO (XO (XI (XO XH)))))))))))))))))))) :: ((Npos (XO
    (XO (XO (XO (XO (XO (XO (XO (XO (XO (XO (XO (XO (XO (XO (XO (XO (XO (XI
    (XO XH))))))))))))))))))))) :: ((Npos (XO (XO (XO (XO (XO (XO (XO (XO (XO
    (XO (XO (XO (XO (XO (XO (XO (XO (XO (XO (XI (XO
    XH)))))))))))))))))))))) :: ((Npos (XO (XO (XO (XO (XO (XO (XO (XO (XO
    (XO (XO (XO (XO (XO (XO (XO (XO (XO (XO (XO (XI (XO
    XH))))))))))))))))))))))) :: ((Npos (XO (XO (XO (XO (XO (XO (XO (XO (XO
    (XO (XO (XO (XO (XO (XO (XO (XO (XO (XO (XO (XO (XI (XO
    XH)))))))))))))))))))))))) :: ((Npos (XO (XO (XO (XO (XO (XO (XO (XO (XO
    (XO (XO (XO (XO (XO (XO (XO (XO (XO (XO (XO (XO (XO
    XH))))))))))))))))))))))) :: ((Npos (XO (XO (XO (XO (XO (XO (XO (XO (XO
    (XO (XO (XO (XO (XO (XO (XO (XO (XO (XO (XO (XO (XO (XO (XO (XO
    XH)))))))))))))))))))))))))) :: ((Npos (XO (XO (XO (XO (XO (XO (XO (XO
    (XO (XO (XO (XO (XO (XO (XO (XO (XO (XO (XO (XO (XO (XO (XO (XO (XI (XO
    XH))))))))))))))))))))))))))) :: ((Npos (XO (XO (XO (XO (XO (XO (XO (XO
    (XO (XO (XO (XO (XO (XO (XO (XO (XO (XO (XO (XO (XO (XO (XO (XO (XO (XI
    (XO XH)))))))))))))))))))))))))))) :: ((Npos (XO (XO (XO (XO (XO (XO (XO
    (XO (XO (XO (XO (XO (XO (XO (XO (XO (XO (XO (XO (XO (XO (XO (XO (XO (XO
    (XO (XI (XO XH))))))))))))))))))))))))))))) :: ((Npos (XO (XO (XO (XO (XO
    (XO (XO (XO (XO (XO (XO (XO (XO (XO (XO (XO (XO (XO (XO (XO (XO (XO (XO
    (XO (XO (XO (XO (XI (XO XH)))))))))))))))))))))))))))))) :: ((Npos (XO
    (XO (XO (XO (XO (XO (XO (XO (XO (XO (XO (XO (XO (XO (XO (XO (XO (XO (XO
    (XO (XO (XO (XO (XO (XO (XO (XO (XO (XI (XO
    XH))))))))))))))))))))))))))))))) :: ((Npos (XO (XO (XO (XO (XO (XO (XO
    (XO (XO (XO (XO (XO (XO (XO (XO (XO (XO (XO (XO (XO (XO (XO (XO (XO (XO
    (XO (XO (XO (XO (XI (XO XH)))))))))))))))))))))))))))))))) :: ((Npos (XO
    (XO (XO (XO (XO (XO (XO (XO (XO (XO (XO (XO (XO (XO (XO (XO (XO (XO (XO
    (XO (XO (XO (XO (XO (XO (XO (XO (XO (XO (XO
    XH))))))))))))))))))))))))))))))) :: ((Npos (XO (XO (XO (XO (XO (XO (XO
    (XO (XO (XO (XO (XO (XO (XO (XO (XO (XO (XO (XO (XO (XO (XO (XO (XO (XO
    (XO (XO (XO (XO (XO (XO (XO (XO
    XH)))))))))))))))))))))))))))))))))) :: ((Npos (XO (XO (XO (XO (XO (XO
    (XO (XO (XO (XO (XO (XO (XO (XO (XO (XO (XO (XO (XO (XO (XO (XO (XO (XO
    (XO (XO (XO (XO (XO (XO (XO (XO (XI (XO
    XH))))))))))))))))))))))))))))))))))) :: ((Npos (XO (XO (XO (XO (XO (XO
    (XO (XO (XO (XO (XO (XO (XO (XO (XO (XO (XO (XO (XO (XO (XO (XO (XO (XO
    (XO (XO (XO (XO (XO (XO (XO (XO (XO (XI (XO
    XH)))))))))))))))))))))))))))))))))))) :: ((Npos (XO (XO (XO (XO (XO (XO
    (XO (XO (XO (XO (XO (XO (XO (XO (XO (XO (XO (XO (XO (XO (XO (XO (XO (XO
    (XO (XO (XO (XO (XO (XO (XO (XO (XO (XO (XI (XO
    XH))))))))))))))))))))))))))))))))))))) :: ((Npos (XO (XO (XO (XO (XO (XO
    (XO (XO (XO (XO (XO (XO (XO (XO (XO (XO (XO (XO (XO (XO (XO (XO (XO (XO
    (XO (XO (XO (XO (XO (XO (XO (XO (XO (XO (XO (XI (XO
    XH)))))))))))))))))))))))))))))))))))))) :: ((Npos (XO (XO (XO (XO (XO
    (XO (XO (XO (XO (XO (XO (XO (XO (XO (XO (XO (XO (XO (XO (XO (XO (XO (XO
    (XO (XO (XO (XO (XO (XO (XO (XO (XO (XO (XO (XO (XO (XI (XO
    XH))))))))))))))))))))))))))))))))))))))) :: ((Npos (XO (XO (XO (XO (XO
    (XO (XO (XO (XO (XO (XO (XO (XO (XO (XO (XO (XO (XO (XO (XO (XO (XO (XO
    (XO (XO (XO (XO (XO (XO (XO (XO (XO (XO (XO (XO (XO (XO (XI (XO
    XH)))))))))))))))))))))))))))))))))))))))) :: ((Npos (XO (XO (XO (XO (XO
    (XO (XO (XO (XO (XO (XO (XO (XO (XO (XO (XO (XO (XO (XO (XO (XO (XO (XO
    (XO (XO (XO (XO (XO (XO (XO (XO (XO (XO (XO (XO (XO (XO (XO
    XH))))))))))))))))))))))))))))))))))))))) :: ((Npos (XO (XO (XO (XO (XO
    (XO (XO (XO (XO (XO (XO (XO (XO (XO (XO (XO (XO (XO (XO (XO (XO (XO (XO
    (XO (XO (XO (XO (XO (XO (XO (XO (XO (XO (XO (XO (XO (XO (XO (XO (XO (XO
    XH)))))))))))))))))))))))))))))))))))))))))) :: ((Npos (XO (XO (XO (XO
    (XO (XO (XO (XO (XO (XO (XO (XO (XO (XO (XO (XO (XO (XO (XO (XO (XO (XO
    (XO (XO (XO (XO (XO (XO (XO (XO (XO (XO (XO (XO (XO (XO (XO (XO (XO (XO
    (XI (XO XH))))))))))))))))))))))))))))))))))))))))))) :: ((Npos (XO (XO
    (XO (XO (XO (XO (XO (XO (XO (XO (XO (XO (XO (XO (XO (XO (XO (XO (XO (XO
    (XO (XO (XO (XO (XO (XO (XO (XO (XO (XO (XO (XO (XO (XO (XO (XO (XO (XO
    (XO (XO (XO (XI (XO
    XH)))))))))))))))))))))))))))))))))))))))))))) :: ((Npos (XO (XO (XO (XO
    (XO (XO (XO (XO (XO (XO (XO (XO (XO (XO (XO (XO (XO (XO (XO (XO (XO (XO
    (XO (XO (XO (XO (XO (XO (XO (XO (XO (XO (XO (XO (XO (XO (XO (XO (XO (XO
    (XO (XO (XI (XO XH))))))))))))))))))))))))))))))))))))))))))))) :: ((Npos
    (XO (XO (XO (XO (XO (XO (XO (XO (XO (XO (XO (XO (XO (XO (XO (XO (XO (XO
    (XO (XO (XO (XO (XO (XO (XO (XO (XO (XO (XO (XO (XO (XO (XO (XO (XO (XO
    (XO (XO (XO (XO (XO (XO (XO (XI (XO
    XH)))))))))))))))))))))))))))))))))))))))))))))) :: ((Npos (XO (XO (XO
    (XO (XO (XO (XO (XO (XO (XO (XO (XO (XO (XO (XO (XO (XO (XO (XO (XO (XO
    (XO (XO (XO (XO (XO (XO (XO (XO (XO (XO (XO (XO (XO (XO (XO (XO (XO (XO
    (XO (XO (XO (XO (XO (XI (XO
    XH))))))))))))))))))))))))))))))))))))))))))))))) :: ((Npos (XO (XO (XO
    (XO (XO (XO (XO (XO (XO (XO (XO (XO (XO (XO (XO (XO (XO (XO (XO (XO (XO
    (XO (XO (XO (XO (XO (XO (XO (XO (XO (XO (XO (XO (XO (XO (XO (XO (XO (XO
    (XO (XO (XO (XO (XO (XO (XI (XO
    XH)))))))))))))))))))))))))))))))))))))))))))))))) :: ((Npos (XO (XO (XO
    (XO (XO (XO (XO (XO (XO (XO (XO (XO (XO (XO (XO (XO (XO (XO (XO (XO (XO
    (XO (XO (XO (XO (XO (XO (XO (XO (XO (XO (XO (XO (XO (XO (XO (XO (XO (XO
    (XO (XO (XO (XO (XO (XO (XO
    XH))))))))))))))))))))))))))))))))))))))))))))))) :: ((Npos (XO (XO (XO
    (XO (XO (XO (XO (XO (XO (XO (XO (XO (XO (XO (XO (XO (XO (XO (XO (XO (XO
    (XO (XO (XO (XO (XO (XO (XO (XO (XO (XO (XO (XO (XO (XO (XO (XO (XO (XO
    (XO (XO (XO (XO (XO (XO (XO (XO (XO (XO
    XH)))))))))))))))))))))))))))))))))))))))))))))))))) :: ((Npos (XO (XO
    (XO (XO (XO (XO (XO (XO (XO (XO (XO (XO (XO (XO (XO (XO (XO (XO (XO (XO
    (XO (XO (XO (XO (XO (XO (XO (XO (XO (XO (XO (XO (XO (XO (XO (XO (XO (XO
    (XO (XO (XO (XO (XO (XO (XO (XO (XO (XO (XI (XO
    XH))))))))))))))))))))))))))))))))))))))))))))))))))) :: ((Npos (XO (XO
    (XO (XO (XO (XO (XO (XO (XO (XO (XO (XO (XO (XO (XO (XO (XO (XO (XO (XO
    (XO (XO (XO (XO (XO (XO (XO (XO (XO (XO (XO (XO (XO (XO (XO (XO (XO (XO
    (XO (XO (XO (XO (XO (XO (XO (XO (XO (XO (XO (XI (XO
    XH)))))))))))))))))))))))))))))))))))))))))))))))))))) :: ((Npos (XO (XO
    (XO (XO (XO (XO (XO (XO (XO (XO (XO (XO (XO (XO (XO (XO (XO (XO (XO (XO
    (XO (XO (XO (XO (XO (XO (XO (XO (XO (XO (XO (XO (XO (XO (XO (XO (XO (XO
    (XO (XO (XO (XO (XO (XO (XO (XO (XO (XO (XO (XO (XI (XO
    XH))))))))))))))))))))))))))))))))))))))))))))))))))))) :: ((Npos (XO (XO
    (XO (XO (XO (XO (XO (XO (XO (XO (XO (XO (XO (XO (XO (XO (XO (XO (XO (XO
    (XO (XO (XO (XO (XO (XO (XO (XO (XO (XO (XO (XO (XO (XO (XO (XO (XO (XO
    (XO (XO (XO (XO (XO (XO (XO (XO (XO (XO (XO (XO (XO (XI (XO
    XH)))))))))))))))))))))))))))))))))))))))))))))))))))))) :: ((Npos (XO
    (XO (XO (XO (XO (XO (XO (XO (XO (XO (XO (XO (XO (XO (XO (XO (XO (XO (XO
    (XO (XO (XO (XO (XO (XO (XO (XO (XO (XO (XO (XO (XO (XO (XO (XO (XO (XO
    (XO (XO (XO (XO (XO (XO (XO (XO (XO (XO (XO (XO (XO (XO (XO (XI (XO
    XH))))))))))))))))))))))))))))))))))))))))))))))))))))))) :: ((Npos (XO
    (XO (XO (XO (XO (XO (XO (XO (XO (XO (XO (XO (XO (XO (XO (XO (XO (XO (XO
    (XO (XO (XO (XO (XO (XO (XO (XO (XO (XO (XO (XO (XO (XO (XO (XO (XO (XO
    (XO (XO (XO (XO (XO (XO (XO (XO (XO (XO (XO (XO (XO (XO (XO (XO (XI (XO
    XH)))))))))))))))))))))))))))))))))))))))))))))))))))))))) :: ((Npos (XO
    (XO (XO (XO (XO (XO (XO (XO (XO (XO (XO (XO (XO (XO (XO (XO (XO (XO (XO
    (XO (XO (XO (XO (XO (XO (XO (XO (XO (XO (XO (XO (XO (XO (XO (XO (XO (XO
    (XO (XO (XO (XO (XO (XO (XO (XO (XO (XO (XO (XO (XO (XO (XO (XO (XO
    XH))))))))))))))))))))))))))))))))))))))))))))))))))))))) :: [])))))))))))))))))))))))))))))))))))))))))))))))))))))))))))))))

(** val bETWEEN_ROWS : bb option list list **)

let bETWEEN_ROWS =
  ((Some N0) :: ((Some N0) :: ((Some (Npos (XO XH))) :: ((Some (Npos (XO (XI
    XH)))) :: ((Some (Npos (XO (XI (XI XH))))) :: ((Some (Npos (XO (XI (XI
    (XI XH)))))) :: ((Some (Npos (XO (XI (XI (XI (XI XH))))))) :: ((Some
    (Npos (XO (XI (XI (XI (XI (XI XH)))))))) :: ((Some N0) :: ((Some
    N0) :: (None :: (None :: (None :: (None :: (None :: (None :: ((Some (Npos
    (XO (XO (XO (XO (XO (XO (XO (XO XH)))))))))) :: (None :: ((Some (Npos (XO
    (XO (XO (XO (XO (XO (XO (XO (XO
    XH))))))))))) :: (None :: (None :: (None :: (None :: (None :: ((Some
    (Npos (XO (XO (XO (XO (XO (XO (XO (XO (XI (XO (XO (XO (XO (XO (XO (XO
    XH)))))))))))))))))) :: (None :: (None :: ((Some (Npos (XO (XO (XO (XO
    (XO (XO (XO (XO (XO (XI (XO (XO (XO (XO (XO (XO (XO (XO
    XH)))))))))))))))))))) :: (None :: (None :: (None :: (None :: ((Some
    (Npos (XO (XO (XO (XO (XO (XO (XO (XO (XI (XO (XO (XO (XO (XO (XO (XO (XI
    (XO (XO (XO (XO (XO (XO (XO
    XH)))))))))))))))))))))))))) :: (None :: (None :: (None :: ((Some (Npos
    (XO (XO (XO (XO (XO (XO (XO (XO (XO (XI (XO (XO (XO (XO (XO (XO (XO (XO
    (XI (XO (XO (XO (XO (XO (XO (XO (XO
    XH))))))))))))))))))))))))))))) :: (None :: (None :: (None :: ((Some
    (Npos (XO (XO (XO (XO (XO (XO (XO (XO (XI (XO (XO (XO (XO (XO (XO (XO (XI
    (XO (XO (XO (XO (XO (XO (XO (XI (XO (XO (XO (XO (XO (XO (XO
    XH)))))))))))))))))))))))))))))))))) :: (None :: (None :: (None :: (None :: ((Some
    (Npos (XO (XO (XO (XO (XO (XO (XO (XO (XO (XI (XO (XO (XO (XO (XO (XO (XO
    (XO (XI (XO (XO (XO (XO (XO (XO (XO (XO (XI (XO (XO (XO (XO (XO (XO (XO
    (XO XH)))))))))))))))))))))))))))))))))))))) :: (None :: (None :: ((Some
    (Npos (XO (XO (XO (XO (XO (XO (XO (XO (XI (XO (XO (XO (XO (XO (XO (XO (XI
    (XO (XO (XO (XO (XO (XO (XO (XI (XO (XO (XO (XO (XO (XO (XO (XI (XO (XO
    (XO (XO (XO (XO (XO
    XH)))))))))))))))))))))))))))))))))))))))))) :: (None :: (None :: (None :: (None :: (None :: ((Some
    (Npos (XO (XO (XO (XO (XO (XO (XO (XO (XO (XI (XO (XO (XO (XO (XO (XO (XO
    (XO (XI (XO (XO (XO (XO (XO (XO (XO (XO (XI (XO (XO (XO (XO (XO (XO (XO
    (XO (XI (XO (XO (XO (XO (XO (XO (XO (XO
    XH))))))))))))))))))))))))))))))))))))))))))))))) :: (None :: ((Some
    (Npos (XO (XO (XO (XO (XO (XO (XO (XO (XI (XO (XO (XO (XO (XO (XO (XO (XI
    (XO (XO (XO (XO (XO (XO (XO (XI (XO (XO (XO (XO (XO (XO (XO (XI (XO (XO
    (XO (XO (XO (XO (XO (XI (XO (XO (XO (XO (XO (XO (XO
    XH)))))))))))))))))))))))))))))))))))))))))))))))))) :: (None :: (None :: (None :: (None :: (None :: (None :: ((Some
    (Npos (XO (XO (XO (XO (XO (XO (XO (XO (XO (XI (XO (XO (XO (XO (XO (XO (XO
    (XO (XI (XO (XO (XO (XO (XO (XO (XO (XO (XI (XO (XO (XO (XO (XO (XO (XO
    (XO (XI (XO (XO (XO (XO (XO (XO (XO (XO (XI (XO (XO (XO (XO (XO (XO (XO
    (XO
    XH)))))))))))))))))))))))))))))))))))))))))))))))))))))))) :: [])))))))))))))))))))))))))))))))))))))))))))))))))))))))))))))))) :: (((Some
    N0) :: ((Some N0) :: ((Some N0) :: ((Some (Npos (XO (XO XH)))) :: ((Some
    (Npos (XO (XO (XI XH))))) :: ((Some (Npos (XO (XO (XI (XI
    XH)))))) :: ((Some (Npos (XO (XO (XI (XI (XI XH))))))) :: ((Some (Npos
    (XO (XO (XI (XI (XI (XI XH)))))))) :: ((Some N0) :: ((Some N0) :: ((Some
    N0) :: (None :: (None :: (None :: (None :: (None :: (None :: ((Some (Npos
    (XO (XO (XO (XO (XO (XO (XO (XO (XO XH))))))))))) :: (None :: ((Some
    (Npos (XO (XO (XO (XO (XO (XO (XO (XO (XO (XO
    XH)))))))))))) :: (None :: (None :: (None :: (None :: (None :: ((Some
    (Npos (XO (XO (XO (XO (XO (XO (XO (XO (XO (XI (XO (XO (XO (XO (XO (XO (XO
    XH))))))))))))))))))) :: (None :: (None :: ((Some (Npos (XO (XO (XO (XO
    (XO (XO (XO (XO (XO (XO (XI (XO (XO (XO (XO (XO (XO (XO (XO
    XH))))))))))))))))))))) :: (None :: (None :: (None :: (None :: ((Some
    (Npos (XO (XO (XO (XO (XO (XO (XO (XO (XO (XI (XO (XO (XO (XO (XO (XO (XO
    (XI (XO (XO (XO (XO (XO (XO (XO
    XH))))))))))))))))))))))))))) :: (None :: (None :: (None :: ((Some (Npos
    (XO (XO (XO (XO (XO (XO (XO (XO (XO (XO (XI (XO (XO (XO (XO (XO (XO (XO
    (XO (XI (XO (XO (XO (XO (XO (XO (XO (XO
    XH)))))))))))))))))))))))))))))) :: (None :: (None :: (None :: ((Some
    (Npos (XO (XO (XO (XO (XO (XO (XO (XO (XO (XI (XO (XO (XO (XO (XO (XO (XO
    (XI (XO (XO (XO (XO (XO (XO (XO (XI (XO (XO (XO (XO (XO (XO (XO
    XH))))))))))))))))))))))))))))))))))) :: (None :: (None :: (None :: (None :: ((Some
    (Npos (XO (XO (XO (XO (XO (XO (XO (XO (XO (XO (XI (XO (XO (XO (XO (XO (XO
    (XO (XO (XI (XO (XO (XO (XO (XO (XO (XO (XO (XI (XO (XO (XO (XO (XO (XO
    (XO (XO
    XH))))))))))))))))))))))))))))))))))))))) :: (None :: (None :: ((Some
    (Npos (XO (XO (XO (XO (XO (XO (XO (XO (XO (XI (XO (XO (XO (XO (XO (XO (XO
    (XI (XO (XO (XO (XO (XO (XO (XO (XI (XO (XO (XO (XO (XO (XO (XO (XI (XO
    (XO (XO (XO (XO (XO (XO
    XH))))))))))))))))))))))))))))))))))))))))))) :: (None :: (None :: (None :: (None :: (None :: ((Some
    (Npos (XO (XO (XO (XO (XO (XO (XO (XO (XO (XO (XI (XO (XO (XO (XO (XO (XO
    (XO (XO (XI (XO (XO (XO (XO (XO (XO (XO (XO (XI (XO (XO (XO (XO (XO (XO
    (XO (XO (XI (XO (XO (XO (XO (XO (XO (XO (XO
    XH)))))))))))))))))))))))))))))))))))))))))))))))) :: (None :: ((Some
    (Npos (XO (XO (XO (XO (XO (XO (XO (XO (XO (XI (XO (XO (XO (XO (XO (XO (XO
    (XI (XO (XO (XO (XO (XO (XO (XO (XI (XO (XO (XO (XO (XO (XO (XO (XI (XO
    (XO (XO (XO (XO (XO (XO (XI (XO (XO (XO (XO (XO (XO (XO
    XH))))))))))))))))))))))))))))))))))))))))))))))))))) :: (None :: (None :: (None :: (None :: (None :: (None :: [])))))))))))))))))))))))))))))))))))))))))))))))))))))))))))))))) :: (((Some
    (Npos (XO XH))) :: ((Some N0) :: ((Some N0) :: ((Some N0) :: ((Some (Npos
    (XO (XO (XO XH))))) :: ((Some (Npos (XO (XO (XO (XI XH)))))) :: ((Some
    (Npos (XO (XO (XO (XI (XI XH))))))) :: ((Some (Npos (XO (XO (XO (XI (XI
    (XI XH)))))))) :: (None :: ((Some N0) :: ((Some N0) :: ((Some
    N0) :: (None :: (None :: (None :: (None :: ((Some (Npos (XO (XO (XO (XO
    (XO (XO (XO (XO (XO XH))))))))))) :: (None :: ((Some (Npos (XO (XO (XO
    (XO (XO (XO (XO (XO (XO (XO XH)))))))))))) :: (None :: ((Some (Npos (XO
    (XO (XO (XO (XO (XO (XO (XO (XO (XO (XO
    XH))))))))))))) :: (None :: (None :: (None :: (None :: (None :: ((Some
    (Npos (XO (XO (XO (XO (XO (XO (XO (XO (XO (XO (XI (XO (XO (XO (XO (XO (XO
    (XO XH)))))))))))))))))))) :: (None :: (None :: ((Some (Npos (XO (XO (XO
    (XO (XO (XO (XO (XO (XO (XO (XO (XI (XO (XO (XO (XO (XO (XO (XO (XO
    XH)))))))))))))))))))))) :: (None :: (None :: (None :: (None :: ((Some
    (Npos (XO (XO (XO (XO (XO (XO (XO (XO (XO (XO (XI (XO (XO (XO (XO (XO (XO
    (XO (XI (XO (XO (XO (XO (XO (XO (XO
    XH)))))))))))))))))))))))))))) :: (None :: (None :: (None :: ((Some (Npos
    (XO (XO (XO (XO (XO (XO (XO (XO (XO (XO (XO (XI (XO (XO (XO (XO (XO (XO
    (XO (XO (XI (XO (XO (XO (XO (XO (XO (XO (XO
    XH))))))))))))))))))))))))))))))) :: (None :: (None :: (None :: ((Some
    (Npos (XO (XO (XO (XO (XO (XO (XO (XO (XO (XO (XI (XO (XO (XO (XO (XO (XO
    (XO (XI (XO (XO (XO (XO (XO (XO (XO (XI (XO (XO (XO (XO (XO (XO (XO
    XH)))))))))))))))))))))))))))))))))))) :: (None :: (None :: (None :: (None :: ((Some
    (Npos (XO (XO (XO (XO (XO (XO (XO (XO (XO (XO (XO (XI (XO (XO (XO (XO (XO
    (XO (XO (XO (XI (XO (XO (XO (XO (XO (XO (XO (XO (XI (XO (XO (XO (XO (XO
    (XO (XO (XO
    XH)))))))))))))))))))))))))))))))))))))))) :: (None :: (None :: ((Some
    (Npos (XO (XO (XO (XO (XO (XO (XO (XO (XO (XO (XI (XO (XO (XO (XO (XO (XO
    (XO (XI (XO (XO (XO (XO (XO (XO (XO (XI (XO (XO (XO (XO (XO (XO (XO (XI
    (XO (XO (XO (XO (XO (XO (XO
    XH)))))))))))))))))))))))))))))))))))))))))))) :: (None :: (None :: (None :: (None :: (None :: (None :: (None :: ((Some
    (Npos (XO (XO (XO (XO (XO (XO (XO (XO (XO (XO (XI (XO (XO (XO (XO (XO (XO
    (XO (XI (XO (XO (XO (XO (XO (XO (XO (XI (XO (XO (XO (XO (XO (XO (XO (XI
    (XO (XO (XO (XO (XO (XO (XO (XI (XO (XO (XO (XO (XO (XO (XO
    XH)))))))))))))))))))))))))))))))))))))))))))))))))))) :: (None :: (None :: (None :: (None :: (None :: [])))))))))))))))))))))))))))))))))))))))))))))))))))))))))))))))) :: (((Some
    (Npos (XO (XI XH)))) :: ((Some (Npos (XO (XO XH)))) :: ((Some
    N0) :: ((Some N0) :: ((Some N0) :: ((Some (Npos (XO (XO (XO (XO
    XH)))))) :: ((Some (Npos (XO (XO (XO (XO (XI XH))))))) :: ((Some (Npos
    (XO (XO (XO (XO (XI (XI XH)))))))) :: (None :: (None :: ((Some
    N0) :: ((Some N0) :: ((Some
    N0) :: (None :: (None :: (None :: (None :: ((Some (Npos (XO (XO (XO (XO
    (XO (XO (XO (XO (XO (XO XH)))))))))))) :: (None :: ((Some (Npos (XO (XO
    (XO (XO (XO (XO (XO (XO (XO (XO (XO XH))))))))))))) :: (None :: ((Some
    (Npos (XO (XO (XO (XO (XO (XO (XO (XO (XO (XO (XO (XO
    XH)))))))))))))) :: (None :: (None :: ((Some (Npos (XO (XO (XO (XO (XO
    (XO (XO (XO (XO (XO (XI (XO (XO (XO (XO (XO (XO
    XH))))))))))))))))))) :: (None :: (None :: ((Some (Npos (XO (XO (XO (XO
    (XO (XO (XO (XO (XO (XO (XO (XI (XO (XO (XO (XO (XO (XO (XO
    XH))))))))))))))))))))) :: (None :: (None :: ((Some (Npos (XO (XO (XO (XO
    (XO (XO (XO (XO (XO (XO (XO (XO (XI (XO (XO (XO (XO (XO (XO (XO (XO
    XH))))))))))))))))))))))) :: (None :: (None :: (None :: (None :: ((Some
    (Npos (XO (XO (XO (XO (XO (XO (XO (XO (XO (XO (XO (XI (XO (XO (XO (XO (XO
    (XO (XO (XI (XO (XO (XO (XO (XO (XO (XO
    XH))))))))))))))))))))))))))))) :: (None :: (None :: (None :: ((Some
    (Npos (XO (XO (XO (XO (XO (XO (XO (XO (XO (XO (XO (XO (XI (XO (XO (XO (XO
    (XO (XO (XO (XO (XI (XO (XO (XO (XO (XO (XO (XO (XO
    XH)))))))))))))))))))))))))))))))) :: (None :: (None :: (None :: ((Some
    (Npos (XO (XO (XO (XO (XO (XO (XO (XO (XO (XO (XO (XI (XO (XO (XO (XO (XO
    (XO (XO (XI (XO (XO (XO (XO (XO (XO (XO (XI (XO (XO (XO (XO (XO (XO (XO
    XH))))))))))))))))))))))))))))))))))))) :: (None :: (None :: (None :: (None :: (None :: (None :: (None :: ((Some
    (Npos (XO (XO (XO (XO (XO (XO (XO (XO (XO (XO (XO (XI (XO (XO (XO (XO (XO
    (XO (XO (XI (XO (XO (XO (XO (XO (XO (XO (XI (XO (XO (XO (XO (XO (XO (XO
    (XI (XO (XO (XO (XO (XO (XO (XO
    XH))))))))))))))))))))))))))))))))))))))))))))) :: (None :: (None :: (None :: (None :: (None :: (None :: (None :: ((Some
    (Npos (XO (XO (XO (XO (XO (XO (XO (XO (XO (XO (XO (XI (XO (XO (XO (XO (XO
    (XO (XO (XI (XO (XO (XO (XO (XO (XO (XO (XI (XO (XO (XO (XO (XO (XO (XO
    (XI (XO (XO (XO (XO (XO (XO (XO (XI (XO (XO (XO (XO (XO (XO (XO
    XH))))))))))))))))))))))))))))))))))))))))))))))))))))) :: (None :: (None :: (None :: (None :: [])))))))))))))))))))))))))))))))))))))))))))))))))))))))))))))))) :: (((Some
    (Npos (XO (XI (XI XH))))) :: ((Some (Npos (XO (XO (XI XH))))) :: ((Some
    (Npos (XO (XO (XO XH))))) :: ((Some N0) :: ((Some N0) :: ((Some
    N0) :: ((Some (Npos (XO (XO (XO (XO (XO XH))))))) :: ((Some (Npos (XO (XO
    (XO (XO (XO (XI XH)))))))) :: (None :: (None :: (None :: ((Some
    N0) :: ((Some N0) :: ((Some
    N0) :: (None :: (None :: (None :: (None :: ((Some (Npos (XO (XO (XO (XO
    (XO (XO (XO (XO (XO (XO (XO XH))))))))))))) :: (None :: ((Some (Npos (XO
    (XO (XO (XO (XO (XO (XO (XO (XO (XO (XO (XO
    XH)))))))))))))) :: (None :: ((Some (Npos (XO (XO (XO (XO (XO (XO (XO (XO
    (XO (XO (XO (XO (XO XH))))))))))))))) :: (None :: (None :: ((Some (Npos
    (XO (XO (XO (XO (XO (XO (XO (XO (XO (XO (XO (XI (XO (XO (XO (XO (XO (XO
    XH)))))))))))))))))))) :: (None :: (None :: ((Some (Npos (XO (XO (XO (XO
    (XO (XO (XO (XO (XO (XO (XO (XO (XI (XO (XO (XO (XO (XO (XO (XO
    XH)))))))))))))))))))))) :: (None :: (None :: ((Some (Npos (XO (XO (XO
    (XO (XO (XO (XO (XO (XO (XO (XO (XO (XO (XI (XO (XO (XO (XO (XO (XO (XO
    (XO XH)))))))))))))))))))))))) :: ((Some (Npos (XO (XO (XO (XO (XO (XO
    (XO (XO (XO (XO (XO (XI (XO (XO (XO (XO (XO (XO (XI (XO (XO (XO (XO (XO
    (XO XH))))))))))))))))))))))))))) :: (None :: (None :: (None :: ((Some
    (Npos (XO (XO (XO (XO (XO (XO (XO (XO (XO (XO (XO (XO (XI (XO (XO (XO (XO
    (XO (XO (XO (XI (XO (XO (XO (XO (XO (XO (XO
    XH)))))))))))))))))))))))))))))) :: (None :: (None :: (None :: (None :: (None :: (None :: (None :: ((Some
    (Npos (XO (XO (XO (XO (XO (XO (XO (XO (XO (XO (XO (XO (XI (XO (XO (XO (XO
    (XO (XO (XO (XI (XO (XO (XO (XO (XO (XO (XO (XI (XO (XO (XO (XO (XO (XO
    (XO
    XH)))))))))))))))))))))))))))))))))))))) :: (None :: (None :: (None :: (None :: (None :: (None :: (None :: ((Some
    (Npos (XO (XO (XO (XO (XO (XO (XO (XO (XO (XO (XO (XO (XI (XO (XO (XO (XO
    (XO (XO (XO (XI (XO (XO (XO (XO (XO (XO (XO (XI (XO (XO (XO (XO (XO (XO
    (XO (XI (XO (XO (XO (XO (XO (XO (XO
    XH)))))))))))))))))))))))))))))))))))))))))))))) :: (None :: (None :: (None :: (None :: (None :: (None :: (None :: ((Some
    (Npos (XO (XO (XO (XO (XO (XO (XO (XO (XO (XO (XO (XO (XI (XO (XO (XO (XO
    (XO (XO (XO (XI (XO (XO (XO (XO (XO (XO (XO (XI (XO (XO (XO (XO (XO (XO
    (XO (XI (XO (XO (XO (XO (XO (XO (XO (XI (XO (XO (XO (XO (XO (XO (XO
    XH)))))))))))))))))))))))))))))))))))))))))))))))))))))) :: (None :: (None :: (None :: [])))))))))))))))))))))))))))))))))))))))))))))))))))))))))))))))) :: (((Some
    (Npos (XO (XI (XI (XI XH)))))) :: ((Some (Npos (XO (XO (XI (XI
    XH)))))) :: ((Some (Npos (XO (XO (XO (XI XH)))))) :: ((Some (Npos (XO (XO
    (XO (XO XH)))))) :: ((Some N0) :: ((Some N0) :: ((Some N0) :: ((Some
    (Npos (XO (XO (XO (XO (XO (XO
    XH)))))))) :: (None :: (None :: (None :: (None :: ((Some N0) :: ((Some
    N0) :: ((Some N0) :: (None :: (None :: (None :: (None :: ((Some (Npos (XO
    (XO (XO (XO (XO (XO (XO (XO (XO (XO (XO (XO
    XH)))))))))))))) :: (None :: ((Some (Npos (XO (XO (XO (XO (XO (XO (XO (XO
    (XO (XO (XO (XO (XO XH))))))))))))))) :: (None :: ((Some (Npos (XO (XO
    (XO (XO (XO (XO (XO (XO (XO (XO (XO (XO (XO (XO
    XH)))))))))))))))) :: (None :: (None :: ((Some (Npos (XO (XO (XO (XO (XO
    (XO (XO (XO (XO (XO (XO (XO (XI (XO (XO (XO (XO (XO (XO
    XH))))))))))))))))))))) :: (None :: (None :: ((Some (Npos (XO (XO (XO (XO
    (XO (XO (XO (XO (XO (XO (XO (XO (XO (XI (XO (XO (XO (XO (XO (XO (XO
    XH))))))))))))))))))))))) :: (None :: (None :: (None :: ((Some (Npos (XO
    (XO (XO (XO (XO (XO (XO (XO (XO (XO (XO (XO (XI (XO (XO (XO (XO (XO (XO
    (XI (XO (XO (XO (XO (XO (XO
    XH)))))))))))))))))))))))))))) :: (None :: (None :: (None :: ((Some (Npos
    (XO (XO (XO (XO (XO (XO (XO (XO (XO (XO (XO (XO (XO (XI (XO (XO (XO (XO
    (XO (XO (XO (XI (XO (XO (XO (XO (XO (XO (XO
    XH))))))))))))))))))))))))))))))) :: (None :: (None :: ((Some (Npos (XO
    (XO (XO (XO (XO (XO (XO (XO (XO (XO (XO (XO (XI (XO (XO (XO (XO (XO (XO
    (XI (XO (XO (XO (XO (XO (XO (XI (XO (XO (XO (XO (XO (XO
    XH))))))))))))))))))))))))))))))))))) :: (None :: (None :: (None :: (None :: ((Some
    (Npos (XO (XO (XO (XO (XO (XO (XO (XO (XO (XO (XO (XO (XO (XI (XO (XO (XO
    (XO (XO (XO (XO (XI (XO (XO (XO (XO (XO (XO (XO (XI (XO (XO (XO (XO (XO
    (XO (XO
    XH))))))))))))))))))))))))))))))))))))))) :: (None :: (None :: (None :: (None :: (None :: (None :: (None :: ((Some
    (Npos (XO (XO (XO (XO (XO (XO (XO (XO (XO (XO (XO (XO (XO (XI (XO (XO (XO
    (XO (XO (XO (XO (XI (XO (XO (XO (XO (XO (XO (XO (XI (XO (XO (XO (XO (XO
    (XO (XO (XI (XO (XO (XO (XO (XO (XO (XO
    XH))))))))))))))))))))))))))))))))))))))))))))))) :: (None :: (None :: (None :: (None :: (None :: (None :: (None :: ((Some
    (Npos (XO (XO (XO (XO (XO (XO (XO (XO (XO (XO (XO (XO (XO (XI (XO (XO (XO
    (XO (XO (XO (XO (XI (XO (XO (XO (XO (XO (XO (XO (XI (XO (XO (XO (XO (XO
    (XO (XO (XI (XO (XO (XO (XO (XO (XO (XO (XI (XO (XO (XO (XO (XO (XO (XO
    XH))))))))))))))))))))))))))))))))))))))))))))))))))))))) :: (None :: (None :: [])))))))))))))))))))))))))))))))))))))))))))))))))))))))))))))))) :: (((Some
    (Npos (XO (XI (XI (XI (XI XH))))))) :: ((Some (Npos (XO (XO (XI (XI (XI
    XH))))))) :: ((Some (Npos (XO (XO (XO (XI (XI XH))))))) :: ((Some (Npos
    (XO (XO (XO (XO (XI XH))))))) :: ((Some (Npos (XO (XO (XO (XO (XO
    XH))))))) :: ((Some N0) :: ((Some N0) :: ((Some
    N0) :: (None :: (None :: (None :: (None :: (None :: ((Some N0) :: ((Some
    N0) :: ((Some N0) :: (None :: (None :: (None :: (None :: ((Some (Npos (XO
    (XO (XO (XO (XO (XO (XO (XO (XO (XO (XO (XO (XO
    XH))))))))))))))) :: (None :: ((Some (Npos (XO (XO (XO (XO (XO (XO (XO
    (XO (XO (XO (XO (XO (XO (XO
    XH)))))))))))))))) :: (None :: (None :: (None :: (None :: ((Some (Npos
    (XO (XO (XO (XO (XO (XO (XO (XO (XO (XO (XO (XO (XO (XI (XO (XO (XO (XO
    (XO (XO XH)))))))))))))))))))))) :: (None :: (None :: ((Some (Npos (XO
    (XO (XO (XO (XO (XO (XO (XO (XO (XO (XO (XO (XO (XO (XI (XO (XO (XO (XO
    (XO (XO (XO
    XH)))))))))))))))))))))))) :: (None :: (None :: (None :: ((Some (Npos (XO
    (XO (XO (XO (XO (XO (XO (XO (XO (XO (XO (XO (XO (XI (XO (XO (XO (XO (XO
    (XO (XI (XO (XO (XO (XO (XO (XO
    XH))))))))))))))))))))))))))))) :: (None :: (None :: (None :: ((Some
    (Npos (XO (XO (XO (XO (XO (XO (XO (XO (XO (XO (XO (XO (XO (XO (XI (XO (XO
    (XO (XO (XO (XO (XO (XI (XO (XO (XO (XO (XO (XO (XO
    XH)))))))))))))))))))))))))))))))) :: (None :: (None :: ((Some (Npos (XO
    (XO (XO (XO (XO (XO (XO (XO (XO (XO (XO (XO (XO (XI (XO (XO (XO (XO (XO
    (XO (XI (XO (XO (XO (XO (XO (XO (XI (XO (XO (XO (XO (XO (XO
    XH)))))))))))))))))))))))))))))))))))) :: (None :: (None :: (None :: (None :: ((Some
    (Npos (XO (XO (XO (XO (XO (XO (XO (XO (XO (XO (XO (XO (XO (XO (XI (XO (XO
    (XO (XO (XO (XO (XO (XI (XO (XO (XO (XO (XO (XO (XO (XI (XO (XO (XO (XO
    (XO (XO (XO XH)))))))))))))))))))))))))))))))))))))))) :: (None :: ((Some
    (Npos (XO (XO (XO (XO (XO (XO (XO (XO (XO (XO (XO (XO (XO (XI (XO (XO (XO
    (XO (XO (XO (XI (XO (XO (XO (XO (XO (XO (XI (XO (XO (XO (XO (XO (XO (XI
    (XO (XO (XO (XO (XO (XO
    XH))))))))))))))))))))))))))))))))))))))))))) :: (None :: (None :: (None :: (None :: (None :: ((Some
    (Npos (XO (XO (XO (XO (XO (XO (XO (XO (XO (XO (XO (XO (XO (XO (XI (XO (XO
    (XO (XO (XO (XO (XO (XI (XO (XO (XO (XO (XO (XO (XO (XI (XO (XO (XO (XO
    (XO (XO (XO (XI (XO (XO (XO (XO (XO (XO (XO
    XH)))))))))))))))))))))))))))))))))))))))))))))))) :: (None :: (None :: (None :: (None :: (None :: (None :: (None :: ((Some
    (Npos (XO (XO (XO (XO (XO (XO (XO (XO (XO (XO (XO (XO (XO (XO (XI (XO (XO
    (XO (XO (XO (XO (XO (XI (XO (XO (XO (XO (XO (XO (XO (XI (XO (XO (XO (XO
    (XO (XO (XO (XI (XO (XO (XO (XO (XO (XO (XO (XI (XO (XO (XO (XO (XO (XO
    (XO
    XH)))))))))))))))))))))))))))))))))))))))))))))))))))))))) :: (None :: [])))))))))))))))))))))))))))))))))))))))))))))))))))))))))))))))) :: (((Some
    (Npos (XO (XI (XI (XI (XI (XI XH)))))))) :: ((Some (Npos (XO (XO (XI (XI
    (XI (XI XH)))))))) :: ((Some (Npos (XO (XO (XO (XI (XI (XI
    XH)))))))) :: ((Some (Npos (XO (XO (XO (XO (XI (XI XH)))))))) :: ((Some
    (Npos (XO (XO (XO (XO (XO (XI XH)))))))) :: ((Some (Npos (XO (XO (XO (XO
    (XO (XO XH)))))))) :: ((Some N0) :: ((Some
    N0) :: (None :: (None :: (None :: (None :: (None :: (None :: ((Some
    N0) :: ((Some N0) :: (None :: (None :: (None :: (None :: (None :: ((Some
    (Npos (XO (XO (XO (XO (XO (XO (XO (XO (XO (XO (XO (XO (XO (XO
    XH)))))))))))))))) :: (None :: ((Some (Npos (XO (XO (XO (XO (XO (XO (XO
    (XO (XO (XO (XO (XO (XO (XO (XO
    XH))))))))))))))))) :: (None :: (None :: (None :: (None :: ((Some (Npos
    (XO (XO (XO (XO (XO (XO (XO (XO (XO (XO (XO (XO (XO (XO (XI (XO (XO (XO
    (XO (XO (XO XH))))))))))))))))))))))) :: (None :: (None :: ((Some (Npos
    (XO (XO (XO (XO (XO (XO (XO (XO (XO (XO (XO (XO (XO (XO (XO (XI (XO (XO
    (XO (XO (XO (XO (XO
    XH))))))))))))))))))))))))) :: (None :: (None :: (None :: ((Some (Npos
    (XO (XO (XO (XO (XO (XO (XO (XO (XO (XO (XO (XO (XO (XO (XI (XO (XO (XO
    (XO (XO (XO (XI (XO (XO (XO (XO (XO (XO
    XH)))))))))))))))))))))))))))))) :: (None :: (None :: (None :: ((Some
    (Npos (XO (XO (XO (XO (XO (XO (XO (XO (XO (XO (XO (XO (XO (XO (XO (XI (XO
    (XO (XO (XO (XO (XO (XO (XI (XO (XO (XO (XO (XO (XO (XO
    XH))))))))))))))))))))))))))))))))) :: (None :: (None :: ((Some (Npos (XO
    (XO (XO (XO (XO (XO (XO (XO (XO (XO (XO (XO (XO (XO (XI (XO (XO (XO (XO
    (XO (XO (XI (XO (XO (XO (XO (XO (XO (XI (XO (XO (XO (XO (XO (XO
    XH))))))))))))))))))))))))))))))))))))) :: (None :: (None :: (None :: (None :: ((Some
    (Npos (XO (XO (XO (XO (XO (XO (XO (XO (XO (XO (XO (XO (XO (XO (XO (XI (XO
    (XO (XO (XO (XO (XO (XO (XI (XO (XO (XO (XO (XO (XO (XO (XI (XO (XO (XO
    (XO (XO (XO (XO
    XH))))))))))))))))))))))))))))))))))))))))) :: (None :: ((Some (Npos (XO
    (XO (XO (XO (XO (XO (XO (XO (XO (XO (XO (XO (XO (XO (XI (XO (XO (XO (XO
    (XO (XO (XI (XO (XO (XO (XO (XO (XO (XI (XO (XO (XO (XO (XO (XO (XI (XO
    (XO (XO (XO (XO (XO
    XH)))))))))))))))))))))))))))))))))))))))))))) :: (None :: (None :: (None :: (None :: (None :: ((Some
    (Npos (XO (XO (XO (XO (XO (XO (XO (XO (XO (XO (XO (XO (XO (XO (XO (XI (XO
    (XO (XO (XO (XO (XO (XO (XI (XO (XO (XO (XO (XO (XO (XO (XI (XO (XO (XO
    (XO (XO (XO (XO (XI (XO (XO (XO (XO (XO (XO (XO
    XH))))))))))))))))))))))))))))))))))))))))))))))))) :: ((Some (Npos (XO
    (XO (XO (XO (XO (XO (XO (XO (XO (XO (XO (XO (XO (XO (XI (XO (XO (XO (XO
    (XO (XO (XI (XO (XO (XO (XO (XO (XO (XI (XO (XO (XO (XO (XO (XO (XI (XO
    (XO (XO (XO (XO (XO (XI (XO (XO (XO (XO (XO (XO
    XH))))))))))))))))))))))))))))))))))))))))))))))))))) :: (None :: (None :: (None :: (None :: (None :: (None :: ((Some
    (Npos (XO (XO (XO (XO (XO (XO (XO (XO (XO (XO (XO (XO (XO (XO (XO (XI (XO
    (XO (XO (XO (XO (XO (XO (XI (XO (XO (XO (XO (XO (XO (XO (XI (XO (XO (XO
    (XO (XO (XO (XO (XI (XO (XO (XO (XO (XO (XO (XO (XI (XO (XO (XO (XO (XO
    (XO (XO
    XH))))))))))))))))))))))))))))))))))))))))))))))))))))))))) :: [])))))))))))))))))))))))))))))))))))))))))))))))))))))))))))))))) :: (((Some
    N0) :: ((Some
    N0) :: (None :: (None :: (None :: (None :: (None :: (None :: ((Some
    N0) :: ((Some N0) :: ((Some (Npos (XO (XO (XO (XO (XO (XO (XO (XO (XO
    XH))))))))))) :: ((Some (Npos (XO (XO (XO (XO (XO (XO (XO (XO (XO (XI
    XH)))))))))))) :: ((Some (Npos (XO (XO (XO (XO (XO (XO (XO (XO (XO (XI
    (XI XH))))))))))))) :: ((Some (Npos (XO (XO (XO (XO (XO (XO (XO (XO (XO
    (XI (XI (XI XH)))))))))))))) :: ((Some (Npos (XO (XO (XO (XO (XO (XO (XO
    (XO (XO (XI (XI (XI (XI XH))))))))))))))) :: ((Some (Npos (XO (XO (XO (XO
    (XO (XO (XO (XO (XO (XI (XI (XI (XI (XI XH)))))))))))))))) :: ((Some
    N0) :: ((Some
    N0) :: (None :: (None :: (None :: (None :: (None :: (None :: ((Some (Npos
    (XO (XO (XO (XO (XO (XO (XO (XO (XO (XO (XO (XO (XO (XO (XO (XO
    XH)))))))))))))))))) :: (None :: ((Some (Npos (XO (XO (XO (XO (XO (XO (XO
    (XO (XO (XO (XO (XO (XO (XO (XO (XO (XO
    XH))))))))))))))))))) :: (None :: (None :: (None :: (None :: (None :: ((Some
    (Npos (XO (XO (XO (XO (XO (XO (XO (XO (XO (XO (XO (XO (XO (XO (XO (XO (XI
    (XO (XO (XO (XO (XO (XO (XO
    XH)))))))))))))))))))))))))) :: (None :: (None :: ((Some (Npos (XO (XO
    (XO (XO (XO (XO (XO (XO (XO (XO (XO (XO (XO (XO (XO (XO (XO (XI (XO (XO
    (XO (XO (XO (XO (XO (XO
    XH)))))))))))))))))))))))))))) :: (None :: (None :: (None :: (None :: ((Some
    (Npos (XO (XO (XO (XO (XO (XO (XO (XO (XO (XO (XO (XO (XO (XO (XO (XO (XI
    (XO (XO (XO (XO (XO (XO (XO (XI (XO (XO (XO (XO (XO (XO (XO
    XH)))))))))))))))))))))))))))))))))) :: (None :: (None :: (None :: ((Some
    (Npos (XO (XO (XO (XO (XO (XO (XO (XO (XO (XO (XO (XO (XO (XO (XO (XO (XO
    (XI (XO (XO (XO (XO (XO (XO (XO (XO (XI (XO (XO (XO (XO (XO (XO (XO (XO
    XH))))))))))))))))))))))))))))))))))))) :: (None :: (None :: (None :: ((Some
    (Npos (XO (XO (XO (XO (XO (XO (XO (XO (XO (XO (XO (XO (XO (XO (XO (XO (XI
    (XO (XO (XO (XO (XO (XO (XO (XI (XO (XO (XO (XO (XO (XO (XO (XI (XO (XO
    (XO (XO (XO (XO (XO
    XH)))))))))))))))))))))))))))))))))))))))))) :: (None :: (None :: (None :: (None :: ((Some
    (Npos (XO (XO (XO (XO (XO (XO (XO (XO (XO (XO (XO (XO (XO (XO (XO (XO (XO
    (XI (XO (XO (XO (XO (XO (XO (XO (XO (XI (XO (XO (XO (XO (XO (XO (XO (XO
    (XI (XO (XO (XO (XO (XO (XO (XO (XO
    XH)))))))))))))))))))))))))))))))))))))))))))))) :: (None :: (None :: ((Some
    (Npos (XO (XO (XO (XO (XO (XO (XO (XO (XO (XO (XO (XO (XO (XO (XO (XO (XI
    (XO (XO (XO (XO (XO (XO (XO (XI (XO (XO (XO (XO (XO (XO (XO (XI (XO (XO
    (XO (XO (XO (XO (XO (XI (XO (XO (XO (XO (XO (XO (XO
    XH)))))))))))))))))))))))))))))))))))))))))))))))))) :: (None :: (None :: (None :: (None :: (None :: ((Some
    (Npos (XO (XO (XO (XO (XO (XO (XO (XO (XO (XO (XO (XO (XO (XO (XO (XO (XO
    (XI (XO (XO (XO (XO (XO (XO (XO (XO (XI (XO (XO (XO (XO (XO (XO (XO (XO
    (XI (XO (XO (XO (XO (XO (XO (XO (XO (XI (XO (XO (XO (XO (XO (XO (XO (XO
    XH))))))))))))))))))))))))))))))))))))))))))))))))))))))) :: (None :: [])))))))))))))))))))))))))))))))))))))))))))))))))))))))))))))))) :: (((Some
    N0) :: ((Some N0) :: ((Some
    N0) :: (None :: (None :: (None :: (None :: (None :: ((Some N0) :: ((Some
    N0) :: ((Some N0) :: ((Some (Npos (XO (XO (XO (XO (XO (XO (XO (XO (XO (XO
    XH)))))))))))) :: ((Some (Npos (XO (XO (XO (XO (XO (XO (XO (XO (XO (XO
    (XI XH))))))))))))) :: ((Some (Npos (XO (XO (XO (XO (XO (XO (XO (XO (XO
    (XO (XI (XI XH)))))))))))))) :: ((Some (Npos (XO (XO (XO (XO (XO (XO (XO
    (XO (XO (XO (XI (XI (XI XH))))))))))))))) :: ((Some (Npos (XO (XO (XO (XO
    (XO (XO (XO (XO (XO (XO (XI (XI (XI (XI XH)))))))))))))))) :: ((Some
    N0) :: ((Some N0) :: ((Some
    N0) :: (None :: (None :: (None :: (None :: (None :: (None :: ((Some (Npos
    (XO (XO (XO (XO (XO (XO (XO (XO (XO (XO (XO (XO (XO (XO (XO (XO (XO
    XH))))))))))))))))))) :: (None :: ((Some (Npos (XO (XO (XO (XO (XO (XO
    (XO (XO (XO (XO (XO (XO (XO (XO (XO (XO (XO (XO
    XH)))))))))))))))))))) :: (None :: (None :: (None :: (None :: (None :: ((Some
    (Npos (XO (XO (XO (XO (XO (XO (XO (XO (XO (XO (XO (XO (XO (XO (XO (XO (XO
    (XI (XO (XO (XO (XO (XO (XO (XO
    XH))))))))))))))))))))))))))) :: (None :: (None :: ((Some (Npos (XO (XO
    (XO (XO (XO (XO (XO (XO (XO (XO (XO (XO (XO (XO (XO (XO (XO (XO (XI (XO
    (XO (XO (XO (XO (XO (XO (XO
    XH))))))))))))))))))))))))))))) :: (None :: (None :: (None :: (None :: ((Some
    (Npos (XO (XO (XO (XO (XO (XO (XO (XO (XO (XO (XO (XO (XO (XO (XO (XO (XO
    (XI (XO (XO (XO (XO (XO (XO (XO (XI (XO (XO (XO (XO (XO (XO (XO
    XH))))))))))))))))))))))))))))))))))) :: (None :: (None :: (None :: ((Some
    (Npos (XO (XO (XO (XO (XO (XO (XO (XO (XO (XO (XO (XO (XO (XO (XO (XO (XO
    (XO (XI (XO (XO (XO (XO (XO (XO (XO (XO (XI (XO (XO (XO (XO (XO (XO (XO
    (XO
    XH)))))))))))))))))))))))))))))))))))))) :: (None :: (None :: (None :: ((Some
    (Npos (XO (XO (XO (XO (XO (XO (XO (XO (XO (XO (XO (XO (XO (XO (XO (XO (XO
    (XI (XO (XO (XO (XO (XO (XO (XO (XI (XO (XO (XO (XO (XO (XO (XO (XI (XO
    (XO (XO (XO (XO (XO (XO
    XH))))))))))))))))))))))))))))))))))))))))))) :: (None :: (None :: (None :: (None :: ((Some
    (Npos (XO (XO (XO (XO (XO (XO (XO (XO (XO (XO (XO (XO (XO (XO (XO (XO (XO
    (XO (XI (XO (XO (XO (XO (XO (XO (XO (XO (XI (XO (XO (XO (XO (XO (XO (XO
    (XO (XI (XO (XO (XO (XO (XO (XO (XO (XO
    XH))))))))))))))))))))))))))))))))))))))))))))))) :: (None :: (None :: ((Some
    (Npos (XO (XO (XO (XO (XO (XO (XO (XO (XO (XO (XO (XO (XO (XO (XO (XO (XO
    (XI (XO (XO (XO (XO (XO (XO (XO (XI (XO (XO (XO (XO (XO (XO (XO (XI (XO
    (XO (XO (XO (XO (XO (XO (XI (XO (XO (XO (XO (XO (XO (XO
    XH))))))))))))))))))))))))))))))))))))))))))))))))))) :: (None :: (None :: (None :: (None :: (None :: ((Some
    (Npos (XO (XO (XO (XO (XO (XO (XO (XO (XO (XO (XO (XO (XO (XO (XO (XO (XO
    (XO (XI (XO (XO (XO (XO (XO (XO (XO (XO (XI (XO (XO (XO (XO (XO (XO (XO
    (XO (XI (XO (XO (XO (XO (XO (XO (XO (XO (XI (XO (XO (XO (XO (XO (XO (XO
    (XO
    XH)))))))))))))))))))))))))))))))))))))))))))))))))))))))) :: [])))))))))))))))))))))))))))))))))))))))))))))))))))))))))))))))) :: ((None :: ((Some
    N0) :: ((Some N0) :: ((Some
    N0) :: (None :: (None :: (None :: (None :: ((Some (Npos (XO (XO (XO (XO
    (XO (XO (XO (XO (XO XH))))))))))) :: ((Some N0) :: ((Some N0) :: ((Some
    N0) :: ((Some (Npos (XO (XO (XO (XO (XO (XO (XO (XO (XO (XO (XO
    XH))))))))))))) :: ((Some (Npos (XO (XO (XO (XO (XO (XO (XO (XO (XO (XO
    (XO (XI XH)))))))))))))) :: ((Some (Npos (XO (XO (XO (XO (XO (XO (XO (XO
    (XO (XO (XO (XI (XI XH))))))))))))))) :: ((Some (Npos (XO (XO (XO (XO (XO
    (XO (XO (XO (XO (XO (XO (XI (XI (XI XH)))))))))))))))) :: (None :: ((Some
    N0) :: ((Some N0) :: ((Some
    N0) :: (None :: (None :: (None :: (None :: ((Some (Npos (XO (XO (XO (XO
    (XO (XO (XO (XO (XO (XO (XO (XO (XO (XO (XO (XO (XO
    XH))))))))))))))))))) :: (None :: ((Some (Npos (XO (XO (XO (XO (XO (XO
    (XO (XO (XO (XO (XO (XO (XO (XO (XO (XO (XO (XO
    XH)))))))))))))))))))) :: (None :: ((Some (Npos (XO (XO (XO (XO (XO (XO
    (XO (XO (XO (XO (XO (XO (XO (XO (XO (XO (XO (XO (XO
    XH))))))))))))))))))))) :: (None :: (None :: (None :: (None :: (None :: ((Some
    (Npos (XO (XO (XO (XO (XO (XO (XO (XO (XO (XO (XO (XO (XO (XO (XO (XO (XO
    (XO (XI (XO (XO (XO (XO (XO (XO (XO
    XH)))))))))))))))))))))))))))) :: (None :: (None :: ((Some (Npos (XO (XO
    (XO (XO (XO (XO (XO (XO (XO (XO (XO (XO (XO (XO (XO (XO (XO (XO (XO (XI
    (XO (XO (XO (XO (XO (XO (XO (XO
    XH)))))))))))))))))))))))))))))) :: (None :: (None :: (None :: (None :: ((Some
    (Npos (XO (XO (XO (XO (XO (XO (XO (XO (XO (XO (XO (XO (XO (XO (XO (XO (XO
    (XO (XI (XO (XO (XO (XO (XO (XO (XO (XI (XO (XO (XO (XO (XO (XO (XO
    XH)))))))))))))))))))))))))))))))))))) :: (None :: (None :: (None :: ((Some
    (Npos (XO (XO (XO (XO (XO (XO (XO (XO (XO (XO (XO (XO (XO (XO (XO (XO (XO
    (XO (XO (XI (XO (XO (XO (XO (XO (XO (XO (XO (XI (XO (XO (XO (XO (XO (XO
    (XO (XO
    XH))))))))))))))))))))))))))))))))))))))) :: (None :: (None :: (None :: ((Some
    (Npos (XO (XO (XO (XO (XO (XO (XO (XO (XO (XO (XO (XO (XO (XO (XO (XO (XO
    (XO (XI (XO (XO (XO (XO (XO (XO (XO (XI (XO (XO (XO (XO (XO (XO (XO (XI
    (XO (XO (XO (XO (XO (XO (XO
    XH)))))))))))))))))))))))))))))))))))))))))))) :: (None :: (None :: (None :: (None :: ((Some
    (Npos (XO (XO (XO (XO (XO (XO (XO (XO (XO (XO (XO (XO (XO (XO (XO (XO (XO
    (XO (XO (XI (XO (XO (XO (XO (XO (XO (XO (XO (XI (XO (XO (XO (XO (XO (XO
    (XO (XO (XI (XO (XO (XO (XO (XO (XO (XO (XO
    XH)))))))))))))))))))))))))))))))))))))))))))))))) :: (None :: (None :: ((Some
    (Npos (XO (XO (XO (XO (XO (XO (XO (XO (XO (XO (XO (XO (XO (XO (XO (XO (XO
    (XO (XI (XO (XO (XO (XO (XO (XO (XO (XI (XO (XO (XO (XO (XO (XO (XO (XI
    (XO (XO (XO (XO (XO (XO (XO (XI (XO (XO (XO (XO (XO (XO (XO
    XH)))))))))))))))))))))))))))))))))))))))))))))))))))) :: (None :: (None :: (None :: (None :: (None :: [])))))))))))))))))))))))))))))))))))))))))))))))))))))))))))))))) :: ((None :: (None :: ((Some
    N0) :: ((Some N0) :: ((Some N0) :: (None :: (None :: (None :: ((Some
    (Npos (XO (XO (XO (XO (XO (XO (XO (XO (XO (XI XH)))))))))))) :: ((Some
    (Npos (XO (XO (XO (XO (XO (XO (XO (XO (XO (XO XH)))))))))))) :: ((Some
    N0) :: ((Some N0) :: ((Some N0) :: ((Some (Npos (XO (XO (XO (XO (XO (XO
    (XO (XO (XO (XO (XO (XO XH)))))))))))))) :: ((Some (Npos (XO (XO (XO (XO
    (XO (XO (XO (XO (XO (XO (XO (XO (XI XH))))))))))))))) :: ((Some (Npos (XO
    (XO (XO (XO (XO (XO (XO (XO (XO (XO (XO (XO (XI (XI
    XH)))))))))))))))) :: (None :: (None :: ((Some N0) :: ((Some
    N0) :: ((Some N0) :: (None :: (None :: (None :: (None :: ((Some (Npos (XO
    (XO (XO (XO (XO (XO (XO (XO (XO (XO (XO (XO (XO (XO (XO (XO (XO (XO
    XH)))))))))))))))))))) :: (None :: ((Some (Npos (XO (XO (XO (XO (XO (XO
    (XO (XO (XO (XO (XO (XO (XO (XO (XO (XO (XO (XO (XO
    XH))))))))))))))))))))) :: (None :: ((Some (Npos (XO (XO (XO (XO (XO (XO
    (XO (XO (XO (XO (XO (XO (XO (XO (XO (XO (XO (XO (XO (XO
    XH)))))))))))))))))))))) :: (None :: (None :: ((Some (Npos (XO (XO (XO
    (XO (XO (XO (XO (XO (XO (XO (XO (XO (XO (XO (XO (XO (XO (XO (XI (XO (XO
    (XO (XO (XO (XO XH))))))))))))))))))))))))))) :: (None :: (None :: ((Some
    (Npos (XO (XO (XO (XO (XO (XO (XO (XO (XO (XO (XO (XO (XO (XO (XO (XO (XO
    (XO (XO (XI (XO (XO (XO (XO (XO (XO (XO
    XH))))))))))))))))))))))))))))) :: (None :: (None :: ((Some (Npos (XO (XO
    (XO (XO (XO (XO (XO (XO (XO (XO (XO (XO (XO (XO (XO (XO (XO (XO (XO (XO
    (XI (XO (XO (XO (XO (XO (XO (XO (XO
    XH))))))))))))))))))))))))))))))) :: (None :: (None :: (None :: (None :: ((Some
    (Npos (XO (XO (XO (XO (XO (XO (XO (XO (XO (XO (XO (XO (XO (XO (XO (XO (XO
    (XO (XO (XI (XO (XO (XO (XO (XO (XO (XO (XI (XO (XO (XO (XO (XO (XO (XO
    XH))))))))))))))))))))))))))))))))))))) :: (None :: (None :: (None :: ((Some
    (Npos (XO (XO (XO (XO (XO (XO (XO (XO (XO (XO (XO (XO (XO (XO (XO (XO (XO
    (XO (XO (XO (XI (XO (XO (XO (XO (XO (XO (XO (XO (XI (XO (XO (XO (XO (XO
    (XO (XO (XO
    XH)))))))))))))))))))))))))))))))))))))))) :: (None :: (None :: (None :: ((Some
    (Npos (XO (XO (XO (XO (XO (XO (XO (XO (XO (XO (XO (XO (XO (XO (XO (XO (XO
    (XO (XO (XI (XO (XO (XO (XO (XO (XO (XO (XI (XO (XO (XO (XO (XO (XO (XO
    (XI (XO (XO (XO (XO (XO (XO (XO
    XH))))))))))))))))))))))))))))))))))))))))))))) :: (None :: (None :: (None :: (None :: (None :: (None :: (None :: ((Some
    (Npos (XO (XO (XO (XO (XO (XO (XO (XO (XO (XO (XO (XO (XO (XO (XO (XO (XO
    (XO (XO (XI (XO (XO (XO (XO (XO (XO (XO (XI (XO (XO (XO (XO (XO (XO (XO
    (XI (XO (XO (XO (XO (XO (XO (XO (XI (XO (XO (XO (XO (XO (XO (XO
    XH))))))))))))))))))))))))))))))))))))))))))))))))))))) :: (None :: (None :: (None :: (None :: [])))))))))))))))))))))))))))))))))))))))))))))))))))))))))))))))) :: ((None :: (None :: (None :: ((Some
    N0) :: ((Some N0) :: ((Some N0) :: (None :: (None :: ((Some (Npos (XO (XO
    (XO (XO (XO (XO (XO (XO (XO (XI (XI XH))))))))))))) :: ((Some (Npos (XO
    (XO (XO (XO (XO (XO (XO (XO (XO (XO (XI XH))))))))))))) :: ((Some (Npos
    (XO (XO (XO (XO (XO (XO (XO (XO (XO (XO (XO XH))))))))))))) :: ((Some
    N0) :: ((Some N0) :: ((Some N0) :: ((Some (Npos (XO (XO (XO (XO (XO (XO
    (XO (XO (XO (XO (XO (XO (XO XH))))))))))))))) :: ((Some (Npos (XO (XO (XO
    (XO (XO (XO (XO (XO (XO (XO (XO (XO (XO (XI
    XH)))))))))))))))) :: (None :: (None :: (None :: ((Some N0) :: ((Some
    N0) :: ((Some N0) :: (None :: (None :: (None :: (None :: ((Some (Npos (XO
    (XO (XO (XO (XO (XO (XO (XO (XO (XO (XO (XO (XO (XO (XO (XO (XO (XO (XO
    XH))))))))))))))))))))) :: (None :: ((Some (Npos (XO (XO (XO (XO (XO (XO
    (XO (XO (XO (XO (XO (XO (XO (XO (XO (XO (XO (XO (XO (XO
    XH)))))))))))))))))))))) :: (None :: ((Some (Npos (XO (XO (XO (XO (XO (XO
    (XO (XO (XO (XO (XO (XO (XO (XO (XO (XO (XO (XO (XO (XO (XO
    XH))))))))))))))))))))))) :: (None :: (None :: ((Some (Npos (XO (XO (XO
    (XO (XO (XO (XO (XO (XO (XO (XO (XO (XO (XO (XO (XO (XO (XO (XO (XI (XO
    (XO (XO (XO (XO (XO
    XH)))))))))))))))))))))))))))) :: (None :: (None :: ((Some (Npos (XO (XO
    (XO (XO (XO (XO (XO (XO (XO (XO (XO (XO (XO (XO (XO (XO (XO (XO (XO (XO
    (XI (XO (XO (XO (XO (XO (XO (XO
    XH)))))))))))))))))))))))))))))) :: (None :: (None :: ((Some (Npos (XO
    (XO (XO (XO (XO (XO (XO (XO (XO (XO (XO (XO (XO (XO (XO (XO (XO (XO (XO
    (XO (XO (XI (XO (XO (XO (XO (XO (XO (XO (XO
    XH)))))))))))))))))))))))))))))))) :: ((Some (Npos (XO (XO (XO (XO (XO
    (XO (XO (XO (XO (XO (XO (XO (XO (XO (XO (XO (XO (XO (XO (XI (XO (XO (XO
    (XO (XO (XO (XI (XO (XO (XO (XO (XO (XO
    XH))))))))))))))))))))))))))))))))))) :: (None :: (None :: (None :: ((Some
    (Npos (XO (XO (XO (XO (XO (XO (XO (XO (XO (XO (XO (XO (XO (XO (XO (XO (XO
    (XO (XO (XO (XI (XO (XO (XO (XO (XO (XO (XO (XI (XO (XO (XO (XO (XO (XO
    (XO
    XH)))))))))))))))))))))))))))))))))))))) :: (None :: (None :: (None :: (None :: (None :: (None :: (None :: ((Some
    (Npos (XO (XO (XO (XO (XO (XO (XO (XO (XO (XO (XO (XO (XO (XO (XO (XO (XO
    (XO (XO (XO (XI (XO (XO (XO (XO (XO (XO (XO (XI (XO (XO (XO (XO (XO (XO
    (XO (XI (XO (XO (XO (XO (XO (XO (XO
    XH)))))))))))))))))))))))))))))))))))))))))))))) :: (None :: (None :: (None :: (None :: (None :: (None :: (None :: ((Some
    (Npos (XO (XO (XO (XO (XO (XO (XO (XO (XO (XO (XO (XO (XO (XO (XO (XO (XO
    (XO (XO (XO (XI (XO (XO (XO (XO (XO (XO (XO (XI (XO (XO (XO (XO (XO (XO
    (XO (XI (XO (XO (XO (XO (XO (XO (XO (XI (XO (XO (XO (XO (XO (XO (XO
    XH)))))))))))))))))))))))))))))))))))))))))))))))))))))) :: (None :: (None :: (None :: [])))))))))))))))))))))))))))))))))))))))))))))))))))))))))))))))) :: ((None :: (None :: (None :: (None :: ((Some
    N0) :: ((Some N0) :: ((Some N0) :: (None :: ((Some (Npos (XO (XO (XO (XO
    (XO (XO (XO (XO (XO (XI (XI (XI XH)))))))))))))) :: ((Some (Npos (XO (XO
    (XO (XO (XO (XO (XO (XO (XO (XO (XI (XI XH)))))))))))))) :: ((Some (Npos
    (XO (XO (XO (XO (XO (XO (XO (XO (XO (XO (XO (XI
    XH)))))))))))))) :: ((Some (Npos (XO (XO (XO (XO (XO (XO (XO (XO (XO (XO
    (XO (XO XH)))))))))))))) :: ((Some N0) :: ((Some N0) :: ((Some
    N0) :: ((Some (Npos (XO (XO (XO (XO (XO (XO (XO (XO (XO (XO (XO (XO (XO
    (XO XH)))))))))))))))) :: (None :: (None :: (None :: (None :: ((Some
    N0) :: ((Some N0) :: ((Some
    N0) :: (None :: (None :: (None :: (None :: ((Some (Npos (XO (XO (XO (XO
    (XO (XO (XO (XO (XO (XO (XO (XO (XO (XO (XO (XO (XO (XO (XO (XO
    XH)))))))))))))))))))))) :: (None :: ((Some (Npos (XO (XO (XO (XO (XO (XO
    (XO (XO (XO (XO (XO (XO (XO (XO (XO (XO (XO (XO (XO (XO (XO
    XH))))))))))))))))))))))) :: (None :: ((Some (Npos (XO (XO (XO (XO (XO
    (XO (XO (XO (XO (XO (XO (XO (XO (XO (XO (XO (XO (XO (XO (XO (XO (XO
    XH)))))))))))))))))))))))) :: (None :: (None :: ((Some (Npos (XO (XO (XO
    (XO (XO (XO (XO (XO (XO (XO (XO (XO (XO (XO (XO (XO (XO (XO (XO (XO (XI
    (XO (XO (XO (XO (XO (XO
    XH))))))))))))))))))))))))))))) :: (None :: (None :: ((Some (Npos (XO (XO
    (XO (XO (XO (XO (XO (XO (XO (XO (XO (XO (XO (XO (XO (XO (XO (XO (XO (XO
    (XO (XI (XO (XO (XO (XO (XO (XO (XO
    XH))))))))))))))))))))))))))))))) :: (None :: (None :: (None :: ((Some
    (Npos (XO (XO (XO (XO (XO (XO (XO (XO (XO (XO (XO (XO (XO (XO (XO (XO (XO
    (XO (XO (XO (XI (XO (XO (XO (XO (XO (XO (XI (XO (XO (XO (XO (XO (XO
    XH)))))))))))))))))))))))))))))))))))) :: (None :: (None :: (None :: ((Some
    (Npos (XO (XO (XO (XO (XO (XO (XO (XO (XO (XO (XO (XO (XO (XO (XO (XO (XO
    (XO (XO (XO (XO (XI (XO (XO (XO (XO (XO (XO (XO (XI (XO (XO (XO (XO (XO
    (XO (XO
    XH))))))))))))))))))))))))))))))))))))))) :: (None :: (None :: ((Some
    (Npos (XO (XO (XO (XO (XO (XO (XO (XO (XO (XO (XO (XO (XO (XO (XO (XO (XO
    (XO (XO (XO (XI (XO (XO (XO (XO (XO (XO (XI (XO (XO (XO (XO (XO (XO (XI
    (XO (XO (XO (XO (XO (XO
    XH))))))))))))))))))))))))))))))))))))))))))) :: (None :: (None :: (None :: (None :: ((Some
    (Npos (XO (XO (XO (XO (XO (XO (XO (XO (XO (XO (XO (XO (XO (XO (XO (XO (XO
    (XO (XO (XO (XO (XI (XO (XO (XO (XO (XO (XO (XO (XI (XO (XO (XO (XO (XO
    (XO (XO (XI (XO (XO (XO (XO (XO (XO (XO
    XH))))))))))))))))))))))))))))))))))))))))))))))) :: (None :: (None :: (None :: (None :: (None :: (None :: (None :: ((Some
    (Npos (XO (XO (XO (XO (XO (XO (XO (XO (XO (XO (XO (XO (XO (XO (XO (XO (XO
    (XO (XO (XO (XO (XI (XO (XO (XO (XO (XO (XO (XO (XI (XO (XO (XO (XO (XO
    (XO (XO (XI (XO (XO (XO (XO (XO (XO (XO (XI (XO (XO (XO (XO (XO (XO (XO
    XH))))))))))))))))))))))))))))))))))))))))))))))))))))))) :: (None :: (None :: [])))))))))))))))))))))))))))))))))))))))))))))))))))))))))))))))) :: ((None :: (None :: (None :: (None :: (None :: ((Some
    N0) :: ((Some N0) :: ((Some N0) :: ((Some (Npos (XO (XO (XO (XO (XO (XO
    (XO (XO (XO (XI (XI (XI (XI XH))))))))))))))) :: ((Some (Npos (XO (XO (XO
    (XO (XO (XO (XO (XO (XO (XO (XI (XI (XI XH))))))))))))))) :: ((Some (Npos
    (XO (XO (XO (XO (XO (XO (XO (XO (XO (XO (XO (XI (XI
    XH))))))))))))))) :: ((Some (Npos (XO (XO (XO (XO (XO (XO (XO (XO (XO (XO
    (XO (XO (XI XH))))))))))))))) :: ((Some (Npos (XO (XO (XO (XO (XO (XO (XO
    (XO (XO (XO (XO (XO (XO XH))))))))))))))) :: ((Some N0) :: ((Some
    N0) :: ((Some N0) :: (None :: (None :: (None :: (None :: (None :: ((Some
    N0) :: ((Some N0) :: ((Some
    N0) :: (None :: (None :: (None :: (None :: ((Some (Npos (XO (XO (XO (XO
    (XO (XO (XO (XO (XO (XO (XO (XO (XO (XO (XO (XO (XO (XO (XO (XO (XO
    XH))))))))))))))))))))))) :: (None :: ((Some (Npos (XO (XO (XO (XO (XO
    (XO (XO (XO (XO (XO (XO (XO (XO (XO (XO (XO (XO (XO (XO (XO (XO (XO
    XH)))))))))))))))))))))))) :: (None :: (None :: (None :: (None :: ((Some
    (Npos (XO (XO (XO (XO (XO (XO (XO (XO (XO (XO (XO (XO (XO (XO (XO (XO (XO
    (XO (XO (XO (XO (XI (XO (XO (XO (XO (XO (XO
    XH)))))))))))))))))))))))))))))) :: (None :: (None :: ((Some (Npos (XO
    (XO (XO (XO (XO (XO (XO (XO (XO (XO (XO (XO (XO (XO (XO (XO (XO (XO (XO
    (XO (XO (XO (XI (XO (XO (XO (XO (XO (XO (XO
    XH)))))))))))))))))))))))))))))))) :: (None :: (None :: (None :: ((Some
    (Npos (XO (XO (XO (XO (XO (XO (XO (XO (XO (XO (XO (XO (XO (XO (XO (XO (XO
    (XO (XO (XO (XO (XI (XO (XO (XO (XO (XO (XO (XI (XO (XO (XO (XO (XO (XO
    XH))))))))))))))))))))))))))))))))))))) :: (None :: (None :: (None :: ((Some
    (Npos (XO (XO (XO (XO (XO (XO (XO (XO (XO (XO (XO (XO (XO (XO (XO (XO (XO
    (XO (XO (XO (XO (XO (XI (XO (XO (XO (XO (XO (XO (XO (XI (XO (XO (XO (XO
    (XO (XO (XO
    XH)))))))))))))))))))))))))))))))))))))))) :: (None :: (None :: ((Some
    (Npos (XO (XO (XO (XO (XO (XO (XO (XO (XO (XO (XO (XO (XO (XO (XO (XO (XO
    (XO (XO (XO (XO (XI (XO (XO (XO (XO (XO (XO (XI (XO (XO (XO (XO (XO (XO
    (XI (XO (XO (XO (XO (XO (XO
    XH)))))))))))))))))))))))))))))))))))))))))))) :: (None :: (None :: (None :: (None :: ((Some
    (Npos (XO (XO (XO (XO (XO (XO (XO (XO (XO (XO (XO (XO (XO (XO (XO (XO (XO
    (XO (XO (XO (XO (XO (XI (XO (XO (XO (XO (XO (XO (XO (XI (XO (XO (XO (XO
    (XO (XO (XO (XI (XO (XO (XO (XO (XO (XO (XO
    XH)))))))))))))))))))))))))))))))))))))))))))))))) :: (None :: ((Some
    (Npos (XO (XO (XO (XO (XO (XO (XO (XO (XO (XO (XO (XO (XO (XO (XO (XO (XO
    (XO (XO (XO (XO (XI (XO (XO (XO (XO (XO (XO (XI (XO (XO (XO (XO (XO (XO
    (XI (XO (XO (XO (XO (XO (XO (XI (XO (XO (XO (XO (XO (XO
    XH))))))))))))))))))))))))))))))))))))))))))))))))))) :: (None :: (None :: (None :: (None :: (None :: ((Some
    (Npos (XO (XO (XO (XO (XO (XO (XO (XO (XO (XO (XO (XO (XO (XO (XO (XO (XO
    (XO (XO (XO (XO (XO (XI (XO (XO (XO (XO (XO (XO (XO (XI (XO (XO (XO (XO
    (XO (XO (XO (XI (XO (XO (XO (XO (XO (XO (XO (XI (XO (XO (XO (XO (XO (XO
    (XO
    XH)))))))))))))))))))))))))))))))))))))))))))))))))))))))) :: (None :: [])))))))))))))))))))))))))))))))))))))))))))))))))))))))))))))))) :: ((None :: (None :: (None :: (None :: (None :: (None :: ((Some
    N0) :: ((Some N0) :: ((Some (Npos (XO (XO (XO (XO (XO (XO (XO (XO (XO (XI
    (XI (XI (XI (XI XH)))))))))))))))) :: ((Some (Npos (XO (XO (XO (XO (XO
    (XO (XO (XO (XO (XO (XI (XI (XI (XI XH)))))))))))))))) :: ((Some (Npos
    (XO (XO (XO (XO (XO (XO (XO (XO (XO (XO (XO (XI (XI (XI
    XH)))))))))))))))) :: ((Some (Npos (XO (XO (XO (XO (XO (XO (XO (XO (XO
    (XO (XO (XO (XI (XI XH)))))))))))))))) :: ((Some (Npos (XO (XO (XO (XO
    (XO (XO (XO (XO (XO (XO (XO (XO (XO (XI XH)))))))))))))))) :: ((Some
    (Npos (XO (XO (XO (XO (XO (XO (XO (XO (XO (XO (XO (XO (XO (XO
    XH)))))))))))))))) :: ((Some N0) :: ((Some
    N0) :: (None :: (None :: (None :: (None :: (None :: (None :: ((Some
    N0) :: ((Some N0) :: (None :: (None :: (None :: (None :: (None :: ((Some
    (Npos (XO (XO (XO (XO (XO (XO (XO (XO (XO (XO (XO (XO (XO (XO (XO (XO (XO
    (XO (XO (XO (XO (XO XH)))))))))))))))))))))))) :: (None :: ((Some (Npos
    (XO (XO (XO (XO (XO (XO (XO (XO (XO (XO (XO (XO (XO (XO (XO (XO (XO (XO
    (XO (XO (XO (XO (XO
    XH))))))))))))))))))))))))) :: (None :: (None :: (None :: (None :: ((Some
    (Npos (XO (XO (XO (XO (XO (XO (XO (XO (XO (XO (XO (XO (XO (XO (XO (XO (XO
    (XO (XO (XO (XO (XO (XI (XO (XO (XO (XO (XO (XO
    XH))))))))))))))))))))))))))))))) :: (None :: (None :: ((Some (Npos (XO
    (XO (XO (XO (XO (XO (XO (XO (XO (XO (XO (XO (XO (XO (XO (XO (XO (XO (XO
    (XO (XO (XO (XO (XI (XO (XO (XO (XO (XO (XO (XO
    XH))))))))))))))))))))))))))))))))) :: (None :: (None :: (None :: ((Some
    (Npos (XO (XO (XO (XO (XO (XO (XO (XO (XO (XO (XO (XO (XO (XO (XO (XO (XO
    (XO (XO (XO (XO (XO (XI (XO (XO (XO (XO (XO (XO (XI (XO (XO (XO (XO (XO
    (XO
    XH)))))))))))))))))))))))))))))))))))))) :: (None :: (None :: (None :: ((Some
    (Npos (XO (XO (XO (XO (XO (XO (XO (XO (XO (XO (XO (XO (XO (XO (XO (XO (XO
    (XO (XO (XO (XO (XO (XO (XI (XO (XO (XO (XO (XO (XO (XO (XI (XO (XO (XO
    (XO (XO (XO (XO
    XH))))))))))))))))))))))))))))))))))))))))) :: (None :: (None :: ((Some
    (Npos (XO (XO (XO (XO (XO (XO (XO (XO (XO (XO (XO (XO (XO (XO (XO (XO (XO
    (XO (XO (XO (XO (XO (XI (XO (XO (XO (XO (XO (XO (XI (XO (XO (XO (XO (XO
    (XO (XI (XO (XO (XO (XO (XO (XO
    XH))))))))))))))))))))))))))))))))))))))))))))) :: (None :: (None :: (None :: (None :: ((Some
    (Npos (XO (XO (XO (XO (XO (XO (XO (XO (XO (XO (XO (XO (XO (XO (XO (XO (XO
    (XO (XO (XO (XO (XO (XO (XI (XO (XO (XO (XO (XO (XO (XO (XI (XO (XO (XO
    (XO (XO (XO (XO (XI (XO (XO (XO (XO (XO (XO (XO
    XH))))))))))))))))))))))))))))))))))))))))))))))))) :: (None :: ((Some
    (Npos (XO (XO (XO (XO (XO (XO (XO (XO (XO (XO (XO (XO (XO (XO (XO (XO (XO
    (XO (XO (XO (XO (XO (XI (XO (XO (XO (XO (XO (XO (XI (XO (XO (XO (XO (XO
    (XO (XI (XO (XO (XO (XO (XO (XO (XI (XO (XO (XO (XO (XO (XO
    XH)))))))))))))))))))))))))))))))))))))))))))))))))))) :: (None :: (None :: (None :: (None :: (None :: ((Some
    (Npos (XO (XO (XO (XO (XO (XO (XO (XO (XO (XO (XO (XO (XO (XO (XO (XO (XO
    (XO (XO (XO (XO (XO (XO (XI (XO (XO (XO (XO (XO (XO (XO (XI (XO (XO (XO
    (XO (XO (XO (XO (XI (XO (XO (XO (XO (XO (XO (XO (XI (XO (XO (XO (XO (XO
    (XO (XO
    XH))))))))))))))))))))))))))))))))))))))))))))))))))))))))) :: [])))))))))))))))))))))))))))))))))))))))))))))))))))))))))))))))) :: (((Some
    (Npos (XO (XO (XO (XO (XO (XO (XO (XO XH)))))))))) :: (None :: ((Some
    (Npos (XO (XO (XO (XO (XO (XO (XO (XO (XO
    XH))))))))))) :: (None :: (None :: (None :: (None :: (None :: ((Some
    N0) :: ((Some
    N0) :: (None :: (None :: (None :: (None :: (None :: (None :: ((Some
    N0) :: ((Some N0) :: ((Some (Npos (XO (XO (XO (XO (XO (XO (XO (XO (XO (XO
    (XO (XO (XO (XO (XO (XO (XO XH))))))))))))))))))) :: ((Some (Npos (XO (XO
    (XO (XO (XO (XO (XO (XO (XO (XO (XO (XO (XO (XO (XO (XO (XO (XI
    XH)))))))))))))))))))) :: ((Some (Npos (XO (XO (XO (XO (XO (XO (XO (XO
    (XO (XO (XO (XO (XO (XO (XO (XO (XO (XI (XI
    XH))))))))))))))))))))) :: ((Some (Npos (XO (XO (XO (XO (XO (XO (XO (XO
    (XO (XO (XO (XO (XO (XO (XO (XO (XO (XI (XI (XI
    XH)))))))))))))))))))))) :: ((Some (Npos (XO (XO (XO (XO (XO (XO (XO (XO
    (XO (XO (XO (XO (XO (XO (XO (XO (XO (XI (XI (XI (XI
    XH))))))))))))))))))))))) :: ((Some (Npos (XO (XO (XO (XO (XO (XO (XO (XO
    (XO (XO (XO (XO (XO (XO (XO (XO (XO (XI (XI (XI (XI (XI
    XH)))))))))))))))))))))))) :: ((Some N0) :: ((Some
    N0) :: (None :: (None :: (None :: (None :: (None :: (None :: ((Some (Npos
    (XO (XO (XO (XO (XO (XO (XO (XO (XO (XO (XO (XO (XO (XO (XO (XO (XO (XO
    (XO (XO (XO (XO (XO (XO XH)))))))))))))))))))))))))) :: (None :: ((Some
    (Npos (XO (XO (XO (XO (XO (XO (XO (XO (XO (XO (XO (XO (XO (XO (XO (XO (XO
    (XO (XO (XO (XO (XO (XO (XO (XO
    XH))))))))))))))))))))))))))) :: (None :: (None :: (None :: (None :: (None :: ((Some
    (Npos (XO (XO (XO (XO (XO (XO (XO (XO (XO (XO (XO (XO (XO (XO (XO (XO (XO
    (XO (XO (XO (XO (XO (XO (XO (XI (XO (XO (XO (XO (XO (XO (XO
    XH)))))))))))))))))))))))))))))))))) :: (None :: (None :: ((Some (Npos
    (XO (XO (XO (XO (XO (XO (XO (XO (XO (XO (XO (XO (XO (XO (XO (XO (XO (XO
    (XO (XO (XO (XO (XO (XO (XO (XI (XO (XO (XO (XO (XO (XO (XO (XO
    XH)))))))))))))))))))))))))))))))))))) :: (None :: (None :: (None :: (None :: ((Some
    (Npos (XO (XO (XO (XO (XO (XO (XO (XO (XO (XO (XO (XO (XO (XO (XO (XO (XO
    (XO (XO (XO (XO (XO (XO (XO (XI (XO (XO (XO (XO (XO (XO (XO (XI (XO (XO
    (XO (XO (XO (XO (XO
    XH)))))))))))))))))))))))))))))))))))))))))) :: (None :: (None :: (None :: ((Some
    (Npos (XO (XO (XO (XO (XO (XO (XO (XO (XO (XO (XO (XO (XO (XO (XO (XO (XO
    (XO (XO (XO (XO (XO (XO (XO (XO (XI (XO (XO (XO (XO (XO (XO (XO (XO (XI
    (XO (XO (XO (XO (XO (XO (XO (XO
    XH))))))))))))))))))))))))))))))))))))))))))))) :: (None :: (None :: (None :: ((Some
    (Npos (XO (XO (XO (XO (XO (XO (XO (XO (XO (XO (XO (XO (XO (XO (XO (XO (XO
    (XO (XO (XO (XO (XO (XO (XO (XI (XO (XO (XO (XO (XO (XO (XO (XI (XO (XO
    (XO (XO (XO (XO (XO (XI (XO (XO (XO (XO (XO (XO (XO
    XH)))))))))))))))))))))))))))))))))))))))))))))))))) :: (None :: (None :: (None :: (None :: ((Some
    (Npos (XO (XO (XO (XO (XO (XO (XO (XO (XO (XO (XO (XO (XO (XO (XO (XO (XO
    (XO (XO (XO (XO (XO (XO (XO (XO (XI (XO (XO (XO (XO (XO (XO (XO (XO (XI
    (XO (XO (XO (XO (XO (XO (XO (XO (XI (XO (XO (XO (XO (XO (XO (XO (XO
    XH)))))))))))))))))))))))))))))))))))))))))))))))))))))) :: (None :: (None :: [])))))))))))))))))))))))))))))))))))))))))))))))))))))))))))))))) :: ((None :: ((Some
    (Npos (XO (XO (XO (XO (XO (XO (XO (XO (XO
    XH))))))))))) :: (None :: ((Some (Npos (XO (XO (XO (XO (XO (XO (XO (XO
    (XO (XO XH)))))))))))) :: (None :: (None :: (None :: (None :: ((Some
    N0) :: ((Some N0) :: ((Some
    N0) :: (None :: (None :: (None :: (None :: (None :: ((Some N0) :: ((Some
    N0) :: ((Some N0) :: ((Some (Npos (XO (XO (XO (XO (XO (XO (XO (XO (XO (XO
    (XO (XO (XO (XO (XO (XO (XO (XO XH)))))))))))))))))))) :: ((Some (Npos
    (XO (XO (XO (XO (XO (XO (XO (XO (XO (XO (XO (XO (XO (XO (XO (XO (XO (XO
    (XI XH))))))))))))))))))))) :: ((Some (Npos (XO (XO (XO (XO (XO (XO (XO
    (XO (XO (XO (XO (XO (XO (XO (XO (XO (XO (XO (XI (XI
    XH)))))))))))))))))))))) :: ((Some (Npos (XO (XO (XO (XO (XO (XO (XO (XO
    (XO (XO (XO (XO (XO (XO (XO (XO (XO (XO (XI (XI (XI
    XH))))))))))))))))))))))) :: ((Some (Npos (XO (XO (XO (XO (XO (XO (XO (XO
    (XO (XO (XO (XO (XO (XO (XO (XO (XO (XO (XI (XI (XI (XI
    XH)))))))))))))))))))))))) :: ((Some N0) :: ((Some N0) :: ((Some
    N0) :: (None :: (None :: (None :: (None :: (None :: (None :: ((Some (Npos
    (XO (XO (XO (XO (XO (XO (XO (XO (XO (XO (XO (XO (XO (XO (XO (XO (XO (XO
    (XO (XO (XO (XO (XO (XO (XO
    XH))))))))))))))))))))))))))) :: (None :: ((Some (Npos (XO (XO (XO (XO
    (XO (XO (XO (XO (XO (XO (XO (XO (XO (XO (XO (XO (XO (XO (XO (XO (XO (XO
    (XO (XO (XO (XO
    XH)))))))))))))))))))))))))))) :: (None :: (None :: (None :: (None :: (None :: ((Some
    (Npos (XO (XO (XO (XO (XO (XO (XO (XO (XO (XO (XO (XO (XO (XO (XO (XO (XO
    (XO (XO (XO (XO (XO (XO (XO (XO (XI (XO (XO (XO (XO (XO (XO (XO
    XH))))))))))))))))))))))))))))))))))) :: (None :: (None :: ((Some (Npos
    (XO (XO (XO (XO (XO (XO (XO (XO (XO (XO (XO (XO (XO (XO (XO (XO (XO (XO
    (XO (XO (XO (XO (XO (XO (XO (XO (XI (XO (XO (XO (XO (XO (XO (XO (XO
    XH))))))))))))))))))))))))))))))))))))) :: (None :: (None :: (None :: (None :: ((Some
    (Npos (XO (XO (XO (XO (XO (XO (XO (XO (XO (XO (XO (XO (XO (XO (XO (XO (XO
    (XO (XO (XO (XO (XO (XO (XO (XO (XI (XO (XO (XO (XO (XO (XO (XO (XI (XO
    (XO (XO (XO (XO (XO (XO
    XH))))))))))))))))))))))))))))))))))))))))))) :: (None :: (None :: (None :: ((Some
    (Npos (XO (XO (XO (XO (XO (XO (XO (XO (XO (XO (XO (XO (XO (XO (XO (XO (XO
    (XO (XO (XO (XO (XO (XO (XO (XO (XO (XI (XO (XO (XO (XO (XO (XO (XO (XO
    (XI (XO (XO (XO (XO (XO (XO (XO (XO
    XH)))))))))))))))))))))))))))))))))))))))))))))) :: (None :: (None :: (None :: ((Some
    (Npos (XO (XO (XO (XO (XO (XO (XO (XO (XO (XO (XO (XO (XO (XO (XO (XO (XO
    (XO (XO (XO (XO (XO (XO (XO (XO (XI (XO (XO (XO (XO (XO (XO (XO (XI (XO
    (XO (XO (XO (XO (XO (XO (XI (XO (XO (XO (XO (XO (XO (XO
    XH))))))))))))))))))))))))))))))))))))))))))))))))))) :: (None :: (None :: (None :: (None :: ((Some
    (Npos (XO (XO (XO (XO (XO (XO (XO (XO (XO (XO (XO (XO (XO (XO (XO (XO (XO
    (XO (XO (XO (XO (XO (XO (XO (XO (XO (XI (XO (XO (XO (XO (XO (XO (XO (XO
    (XI (XO (XO (XO (XO (XO (XO (XO (XO (XI (XO (XO (XO (XO (XO (XO (XO (XO
    XH))))))))))))))))))))))))))))))))))))))))))))))))))))))) :: (None :: [])))))))))))))))))))))))))))))))))))))))))))))))))))))))))))))))) :: (((Some
    (Npos (XO (XO (XO (XO (XO (XO (XO (XO (XO
    XH))))))))))) :: (None :: ((Some (Npos (XO (XO (XO (XO (XO (XO (XO (XO
    (XO (XO XH)))))))))))) :: (None :: ((Some (Npos (XO (XO (XO (XO (XO (XO
    (XO (XO (XO (XO (XO
    XH))))))))))))) :: (None :: (None :: (None :: (None :: ((Some
    N0) :: ((Some N0) :: ((Some
    N0) :: (None :: (None :: (None :: (None :: ((Some (Npos (XO (XO (XO (XO
    (XO (XO (XO (XO (XO (XO (XO (XO (XO (XO (XO (XO (XO
    XH))))))))))))))))))) :: ((Some N0) :: ((Some N0) :: ((Some N0) :: ((Some
    (Npos (XO (XO (XO (XO (XO (XO (XO (XO (XO (XO (XO (XO (XO (XO (XO (XO (XO
    (XO (XO XH))))))))))))))))))))) :: ((Some (Npos (XO (XO (XO (XO (XO (XO
    (XO (XO (XO (XO (XO (XO (XO (XO (XO (XO (XO (XO (XO (XI
    XH)))))))))))))))))))))) :: ((Some (Npos (XO (XO (XO (XO (XO (XO (XO (XO
    (XO (XO (XO (XO (XO (XO (XO (XO (XO (XO (XO (XI (XI
    XH))))))))))))))))))))))) :: ((Some (Npos (XO (XO (XO (XO (XO (XO (XO (XO
    (XO (XO (XO (XO (XO (XO (XO (XO (XO (XO (XO (XI (XI (XI
    XH)))))))))))))))))))))))) :: (None :: ((Some N0) :: ((Some N0) :: ((Some
    N0) :: (None :: (None :: (None :: (None :: ((Some (Npos (XO (XO (XO (XO
    (XO (XO (XO (XO (XO (XO (XO (XO (XO (XO (XO (XO (XO (XO (XO (XO (XO (XO
    (XO (XO (XO XH))))))))))))))))))))))))))) :: (None :: ((Some (Npos (XO
    (XO (XO (XO (XO (XO (XO (XO (XO (XO (XO (XO (XO (XO (XO (XO (XO (XO (XO
    (XO (XO (XO (XO (XO (XO (XO
    XH)))))))))))))))))))))))))))) :: (None :: ((Some (Npos (XO (XO (XO (XO
    (XO (XO (XO (XO (XO (XO (XO (XO (XO (XO (XO (XO (XO (XO (XO (XO (XO (XO
    (XO (XO (XO (XO (XO
    XH))))))))))))))))))))))))))))) :: (None :: (None :: (None :: (None :: (None :: ((Some
    (Npos (XO (XO (XO (XO (XO (XO (XO (XO (XO (XO (XO (XO (XO (XO (XO (XO (XO
    (XO (XO (XO (XO (XO (XO (XO (XO (XO (XI (XO (XO (XO (XO (XO (XO (XO
    XH)))))))))))))))))))))))))))))))))))) :: (None :: (None :: ((Some (Npos
    (XO (XO (XO (XO (XO (XO (XO (XO (XO (XO (XO (XO (XO (XO (XO (XO (XO (XO
    (XO (XO (XO (XO (XO (XO (XO (XO (XO (XI (XO (XO (XO (XO (XO (XO (XO (XO
    XH)))))))))))))))))))))))))))))))))))))) :: (None :: (None :: (None :: (None :: ((Some
    (Npos (XO (XO (XO (XO (XO (XO (XO (XO (XO (XO (XO (XO (XO (XO (XO (XO (XO
    (XO (XO (XO (XO (XO (XO (XO (XO (XO (XI (XO (XO (XO (XO (XO (XO (XO (XI
    (XO (XO (XO (XO (XO (XO (XO
    XH)))))))))))))))))))))))))))))))))))))))))))) :: (None :: (None :: (None :: ((Some
    (Npos (XO (XO (XO (XO (XO (XO (XO (XO (XO (XO (XO (XO (XO (XO (XO (XO (XO
    (XO (XO (XO (XO (XO (XO (XO (XO (XO (XO (XI (XO (XO (XO (XO (XO (XO (XO
    (XO (XI (XO (XO (XO (XO (XO (XO (XO (XO
    XH))))))))))))))))))))))))))))))))))))))))))))))) :: (None :: (None :: (None :: ((Some
    (Npos (XO (XO (XO (XO (XO (XO (XO (XO (XO (XO (XO (XO (XO (XO (XO (XO (XO
    (XO (XO (XO (XO (XO (XO (XO (XO (XO (XI (XO (XO (XO (XO (XO (XO (XO (XI
    (XO (XO (XO (XO (XO (XO (XO (XI (XO (XO (XO (XO (XO (XO (XO
    XH)))))))))))))))))))))))))))))))))))))))))))))))))))) :: (None :: (None :: (None :: (None :: ((Some
    (Npos (XO (XO (XO (XO (XO (XO (XO (XO (XO (XO (XO (XO (XO (XO (XO (XO (XO
    (XO (XO (XO (XO (XO (XO (XO (XO (XO (XO (XI (XO (XO (XO (XO (XO (XO (XO
    (XO (XI (XO (XO (XO (XO (XO (XO (XO (XO (XI (XO (XO (XO (XO (XO (XO (XO
    (XO
    XH)))))))))))))))))))))))))))))))))))))))))))))))))))))))) :: [])))))))))))))))))))))))))))))))))))))))))))))))))))))))))))))))) :: ((None :: ((Some
    (Npos (XO (XO (XO (XO (XO (XO (XO (XO (XO (XO
    XH)))))))))))) :: (None :: ((Some (Npos (XO (XO (XO (XO (XO (XO (XO (XO
    (XO (XO (XO XH))))))))))))) :: (None :: ((Some (Npos (XO (XO (XO (XO (XO
    (XO (XO (XO (XO (XO (XO (XO
    XH)))))))))))))) :: (None :: (None :: (None :: (None :: ((Some
    N0) :: ((Some N0) :: ((Some N0) :: (None :: (None :: (None :: ((Some
    (Npos (XO (XO (XO (XO (XO (XO (XO (XO (XO (XO (XO (XO (XO (XO (XO (XO (XO
    (XI XH)))))))))))))))))))) :: ((Some (Npos (XO (XO (XO (XO (XO (XO (XO
    (XO (XO (XO (XO (XO (XO (XO (XO (XO (XO (XO
    XH)))))))))))))))))))) :: ((Some N0) :: ((Some N0) :: ((Some
    N0) :: ((Some (Npos (XO (XO (XO (XO (XO (XO (XO (XO (XO (XO (XO (XO (XO
    (XO (XO (XO (XO (XO (XO (XO XH)))))))))))))))))))))) :: ((Some (Npos (XO
    (XO (XO (XO (XO (XO (XO (XO (XO (XO (XO (XO (XO (XO (XO (XO (XO (XO (XO
    (XO (XI XH))))))))))))))))))))))) :: ((Some (Npos (XO (XO (XO (XO (XO (XO
    (XO (XO (XO (XO (XO (XO (XO (XO (XO (XO (XO (XO (XO (XO (XI (XI
    XH)))))))))))))))))))))))) :: (None :: (None :: ((Some N0) :: ((Some
    N0) :: ((Some N0) :: (None :: (None :: (None :: (None :: ((Some (Npos (XO
    (XO (XO (XO (XO (XO (XO (XO (XO (XO (XO (XO (XO (XO (XO (XO (XO (XO (XO
    (XO (XO (XO (XO (XO (XO (XO
    XH)))))))))))))))))))))))))))) :: (None :: ((Some (Npos (XO (XO (XO (XO
    (XO (XO (XO (XO (XO (XO (XO (XO (XO (XO (XO (XO (XO (XO (XO (XO (XO (XO
    (XO (XO (XO (XO (XO XH))))))))))))))))))))))))))))) :: (None :: ((Some
    (Npos (XO (XO (XO (XO (XO (XO (XO (XO (XO (XO (XO (XO (XO (XO (XO (XO (XO
    (XO (XO (XO (XO (XO (XO (XO (XO (XO (XO (XO
    XH)))))))))))))))))))))))))))))) :: (None :: (None :: ((Some (Npos (XO
    (XO (XO (XO (XO (XO (XO (XO (XO (XO (XO (XO (XO (XO (XO (XO (XO (XO (XO
    (XO (XO (XO (XO (XO (XO (XO (XI (XO (XO (XO (XO (XO (XO
    XH))))))))))))))))))))))))))))))))))) :: (None :: (None :: ((Some (Npos
    (XO (XO (XO (XO (XO (XO (XO (XO (XO (XO (XO (XO (XO (XO (XO (XO (XO (XO
    (XO (XO (XO (XO (XO (XO (XO (XO (XO (XI (XO (XO (XO (XO (XO (XO (XO
    XH))))))))))))))))))))))))))))))))))))) :: (None :: (None :: ((Some (Npos
    (XO (XO (XO (XO (XO (XO (XO (XO (XO (XO (XO (XO (XO (XO (XO (XO (XO (XO
    (XO (XO (XO (XO (XO (XO (XO (XO (XO (XO (XI (XO (XO (XO (XO (XO (XO (XO
    (XO
    XH))))))))))))))))))))))))))))))))))))))) :: (None :: (None :: (None :: (None :: ((Some
    (Npos (XO (XO (XO (XO (XO (XO (XO (XO (XO (XO (XO (XO (XO (XO (XO (XO (XO
    (XO (XO (XO (XO (XO (XO (XO (XO (XO (XO (XI (XO (XO (XO (XO (XO (XO (XO
    (XI (XO (XO (XO (XO (XO (XO (XO
    XH))))))))))))))))))))))))))))))))))))))))))))) :: (None :: (None :: (None :: ((Some
    (Npos (XO (XO (XO (XO (XO (XO (XO (XO (XO (XO (XO (XO (XO (XO (XO (XO (XO
    (XO (XO (XO (XO (XO (XO (XO (XO (XO (XO (XO (XI (XO (XO (XO (XO (XO (XO
    (XO (XO (XI (XO (XO (XO (XO (XO (XO (XO (XO
    XH)))))))))))))))))))))))))))))))))))))))))))))))) :: (None :: (None :: (None :: ((Some
    (Npos (XO (XO (XO (XO (XO (XO (XO (XO (XO (XO (XO (XO (XO (XO (XO (XO (XO
    (XO (XO (XO (XO (XO (XO (XO (XO (XO (XO (XI (XO (XO (XO (XO (XO (XO (XO
    (XI (XO (XO (XO (XO (XO (XO (XO (XI (XO (XO (XO (XO (XO (XO (XO
    XH))))))))))))))))))))))))))))))))))))))))))))))))))))) :: (None :: (None :: (None :: (None :: [])))))))))))))))))))))))))))))))))))))))))))))))))))))))))))))))) :: ((None :: (None :: ((Some
    (Npos (XO (XO (XO (XO (XO (XO (XO (XO (XO (XO (XO
    XH))))))))))))) :: (None :: ((Some (Npos (XO (XO (XO (XO (XO (XO (XO (XO
    (XO (XO (XO (XO XH)))))))))))))) :: (None :: ((Some (Npos (XO (XO (XO (XO
    (XO (XO (XO (XO (XO (XO (XO (XO (XO
    XH))))))))))))))) :: (None :: (None :: (None :: (None :: ((Some
    N0) :: ((Some N0) :: ((Some N0) :: (None :: (None :: ((Some (Npos (XO (XO
    (XO (XO (XO (XO (XO (XO (XO (XO (XO (XO (XO (XO (XO (XO (XO (XI (XI
    XH))))))))))))))))))))) :: ((Some (Npos (XO (XO (XO (XO (XO (XO (XO (XO
    (XO (XO (XO (XO (XO (XO (XO (XO (XO (XO (XI
    XH))))))))))))))))))))) :: ((Some (Npos (XO (XO (XO (XO (XO (XO (XO (XO
    (XO (XO (XO (XO (XO (XO (XO (XO (XO (XO (XO
    XH))))))))))))))))))))) :: ((Some N0) :: ((Some N0) :: ((Some
    N0) :: ((Some (Npos (XO (XO (XO (XO (XO (XO (XO (XO (XO (XO (XO (XO (XO
    (XO (XO (XO (XO (XO (XO (XO (XO XH))))))))))))))))))))))) :: ((Some (Npos
    (XO (XO (XO (XO (XO (XO (XO (XO (XO (XO (XO (XO (XO (XO (XO (XO (XO (XO
    (XO (XO (XO (XI
    XH)))))))))))))))))))))))) :: (None :: (None :: (None :: ((Some
    N0) :: ((Some N0) :: ((Some
    N0) :: (None :: (None :: (None :: (None :: ((Some (Npos (XO (XO (XO (XO
    (XO (XO (XO (XO (XO (XO (XO (XO (XO (XO (XO (XO (XO (XO (XO (XO (XO (XO
    (XO (XO (XO (XO (XO XH))))))))))))))))))))))))))))) :: (None :: ((Some
    (Npos (XO (XO (XO (XO (XO (XO (XO (XO (XO (XO (XO (XO (XO (XO (XO (XO (XO
    (XO (XO (XO (XO (XO (XO (XO (XO (XO (XO (XO
    XH)))))))))))))))))))))))))))))) :: (None :: ((Some (Npos (XO (XO (XO (XO
    (XO (XO (XO (XO (XO (XO (XO (XO (XO (XO (XO (XO (XO (XO (XO (XO (XO (XO
    (XO (XO (XO (XO (XO (XO (XO
    XH))))))))))))))))))))))))))))))) :: (None :: (None :: ((Some (Npos (XO
    (XO (XO (XO (XO (XO (XO (XO (XO (XO (XO (XO (XO (XO (XO (XO (XO (XO (XO
    (XO (XO (XO (XO (XO (XO (XO (XO (XI (XO (XO (XO (XO (XO (XO
    XH)))))))))))))))))))))))))))))))))))) :: (None :: (None :: ((Some (Npos
    (XO (XO (XO (XO (XO (XO (XO (XO (XO (XO (XO (XO (XO (XO (XO (XO (XO (XO
    (XO (XO (XO (XO (XO (XO (XO (XO (XO (XO (XI (XO (XO (XO (XO (XO (XO (XO
    XH)))))))))))))))))))))))))))))))))))))) :: (None :: (None :: ((Some
    (Npos (XO (XO (XO (XO (XO (XO (XO (XO (XO (XO (XO (XO (XO (XO (XO (XO (XO
    (XO (XO (XO (XO (XO (XO (XO (XO (XO (XO (XO (XO (XI (XO (XO (XO (XO (XO
    (XO (XO (XO XH)))))))))))))))))))))))))))))))))))))))) :: ((Some (Npos
    (XO (XO (XO (XO (XO (XO (XO (XO (XO (XO (XO (XO (XO (XO (XO (XO (XO (XO
    (XO (XO (XO (XO (XO (XO (XO (XO (XO (XI (XO (XO (XO (XO (XO (XO (XI (XO
    (XO (XO (XO (XO (XO
    XH))))))))))))))))))))))))))))))))))))))))))) :: (None :: (None :: (None :: ((Some
    (Npos (XO (XO (XO (XO (XO (XO (XO (XO (XO (XO (XO (XO (XO (XO (XO (XO (XO
    (XO (XO (XO (XO (XO (XO (XO (XO (XO (XO (XO (XI (XO (XO (XO (XO (XO (XO
    (XO (XI (XO (XO (XO (XO (XO (XO (XO
    XH)))))))))))))))))))))))))))))))))))))))))))))) :: (None :: (None :: (None :: (None :: (None :: (None :: (None :: ((Some
    (Npos (XO (XO (XO (XO (XO (XO (XO (XO (XO (XO (XO (XO (XO (XO (XO (XO (XO
    (XO (XO (XO (XO (XO (XO (XO (XO (XO (XO (XO (XI (XO (XO (XO (XO (XO (XO
    (XO (XI (XO (XO (XO (XO (XO (XO (XO (XI (XO (XO (XO (XO (XO (XO (XO
    XH)))))))))))))))))))))))))))))))))))))))))))))))))))))) :: (None :: (None :: (None :: [])))))))))))))))))))))))))))))))))))))))))))))))))))))))))))))))) :: ((None :: (None :: (None :: ((Some
    (Npos (XO (XO (XO (XO (XO (XO (XO (XO (XO (XO (XO (XO
    XH)))))))))))))) :: (None :: ((Some (Npos (XO (XO (XO (XO (XO (XO (XO (XO
    (XO (XO (XO (XO (XO XH))))))))))))))) :: (None :: ((Some (Npos (XO (XO
    (XO (XO (XO (XO (XO (XO (XO (XO (XO (XO (XO (XO
    XH)))))))))))))))) :: (None :: (None :: (None :: (None :: ((Some
    N0) :: ((Some N0) :: ((Some N0) :: (None :: ((Some (Npos (XO (XO (XO (XO
    (XO (XO (XO (XO (XO (XO (XO (XO (XO (XO (XO (XO (XO (XI (XI (XI
    XH)))))))))))))))))))))) :: ((Some (Npos (XO (XO (XO (XO (XO (XO (XO (XO
    (XO (XO (XO (XO (XO (XO (XO (XO (XO (XO (XI (XI
    XH)))))))))))))))))))))) :: ((Some (Npos (XO (XO (XO (XO (XO (XO (XO (XO
    (XO (XO (XO (XO (XO (XO (XO (XO (XO (XO (XO (XI
    XH)))))))))))))))))))))) :: ((Some (Npos (XO (XO (XO (XO (XO (XO (XO (XO
    (XO (XO (XO (XO (XO (XO (XO (XO (XO (XO (XO (XO
    XH)))))))))))))))))))))) :: ((Some N0) :: ((Some N0) :: ((Some
    N0) :: ((Some (Npos (XO (XO (XO (XO (XO (XO (XO (XO (XO (XO (XO (XO (XO
    (XO (XO (XO (XO (XO (XO (XO (XO (XO
    XH)))))))))))))))))))))))) :: (None :: (None :: (None :: (None :: ((Some
    N0) :: ((Some N0) :: ((Some
    N0) :: (None :: (None :: (None :: (None :: ((Some (Npos (XO (XO (XO (XO
    (XO (XO (XO (XO (XO (XO (XO (XO (XO (XO (XO (XO (XO (XO (XO (XO (XO (XO
    (XO (XO (XO (XO (XO (XO
    XH)))))))))))))))))))))))))))))) :: (None :: ((Some (Npos (XO (XO (XO (XO
    (XO (XO (XO (XO (XO (XO (XO (XO (XO (XO (XO (XO (XO (XO (XO (XO (XO (XO
    (XO (XO (XO (XO (XO (XO (XO
    XH))))))))))))))))))))))))))))))) :: (None :: ((Some (Npos (XO (XO (XO
    (XO (XO (XO (XO (XO (XO (XO (XO (XO (XO (XO (XO (XO (XO (XO (XO (XO (XO
    (XO (XO (XO (XO (XO (XO (XO (XO (XO
    XH)))))))))))))))))))))))))))))))) :: (None :: (None :: ((Some (Npos (XO
    (XO (XO (XO (XO (XO (XO (XO (XO (XO (XO (XO (XO (XO (XO (XO (XO (XO (XO
    (XO (XO (XO (XO (XO (XO (XO (XO (XO (XI (XO (XO (XO (XO (XO (XO
    XH))))))))))))))))))))))))))))))))))))) :: (None :: (None :: ((Some (Npos
    (XO (XO (XO (XO (XO (XO (XO (XO (XO (XO (XO (XO (XO (XO (XO (XO (XO (XO
    (XO (XO (XO (XO (XO (XO (XO (XO (XO (XO (XO (XI (XO (XO (XO (XO (XO (XO
    (XO
    XH))))))))))))))))))))))))))))))))))))))) :: (None :: (None :: (None :: ((Some
    (Npos (XO (XO (XO (XO (XO (XO (XO (XO (XO (XO (XO (XO (XO (XO (XO (XO (XO
    (XO (XO (XO (XO (XO (XO (XO (XO (XO (XO (XO (XI (XO (XO (XO (XO (XO (XO
    (XI (XO (XO (XO (XO (XO (XO
    XH)))))))))))))))))))))))))))))))))))))))))))) :: (None :: (None :: (None :: ((Some
    (Npos (XO (XO (XO (XO (XO (XO (XO (XO (XO (XO (XO (XO (XO (XO (XO (XO (XO
    (XO (XO (XO (XO (XO (XO (XO (XO (XO (XO (XO (XO (XI (XO (XO (XO (XO (XO
    (XO (XO (XI (XO (XO (XO (XO (XO (XO (XO
    XH))))))))))))))))))))))))))))))))))))))))))))))) :: (None :: (None :: ((Some
    (Npos (XO (XO (XO (XO (XO (XO (XO (XO (XO (XO (XO (XO (XO (XO (XO (XO (XO
    (XO (XO (XO (XO (XO (XO (XO (XO (XO (XO (XO (XI (XO (XO (XO (XO (XO (XO
    (XI (XO (XO (XO (XO (XO (XO (XI (XO (XO (XO (XO (XO (XO
    XH))))))))))))))))))))))))))))))))))))))))))))))))))) :: (None :: (None :: (None :: (None :: ((Some
    (Npos (XO (XO (XO (XO (XO (XO (XO (XO (XO (XO (XO (XO (XO (XO (XO (XO (XO
    (XO (XO (XO (XO (XO (XO (XO (XO (XO (XO (XO (XO (XI (XO (XO (XO (XO (XO
    (XO (XO (XI (XO (XO (XO (XO (XO (XO (XO (XI (XO (XO (XO (XO (XO (XO (XO
    XH))))))))))))))))))))))))))))))))))))))))))))))))))))))) :: (None :: (None :: [])))))))))))))))))))))))))))))))))))))))))))))))))))))))))))))))) :: ((None :: (None :: (None :: (None :: ((Some
    (Npos (XO (XO (XO (XO (XO (XO (XO (XO (XO (XO (XO (XO (XO
    XH))))))))))))))) :: (None :: ((Some (Npos (XO (XO (XO (XO (XO (XO (XO
    (XO (XO (XO (XO (XO (XO (XO
    XH)))))))))))))))) :: (None :: (None :: (None :: (None :: (None :: (None :: ((Some
    N0) :: ((Some N0) :: ((Some N0) :: ((Some (Npos (XO (XO (XO (XO (XO (XO
    (XO (XO (XO (XO (XO (XO (XO (XO (XO (XO (XO (XI (XI (XI (XI
    XH))))))))))))))))))))))) :: ((Some (Npos (XO (XO (XO (XO (XO (XO (XO (XO
    (XO (XO (XO (XO (XO (XO (XO (XO (XO (XO (XI (XI (XI
    XH))))))))))))))))))))))) :: ((Some (Npos (XO (XO (XO (XO (XO (XO (XO (XO
    (XO (XO (XO (XO (XO (XO (XO (XO (XO (XO (XO (XI (XI
    XH))))))))))))))))))))))) :: ((Some (Npos (XO (XO (XO (XO (XO (XO (XO (XO
    (XO (XO (XO (XO (XO (XO (XO (XO (XO (XO (XO (XO (XI
    XH))))))))))))))))))))))) :: ((Some (Npos (XO (XO (XO (XO (XO (XO (XO (XO
    (XO (XO (XO (XO (XO (XO (XO (XO (XO (XO (XO (XO (XO
    XH))))))))))))))))))))))) :: ((Some N0) :: ((Some N0) :: ((Some
    N0) :: (None :: (None :: (None :: (None :: (None :: ((Some N0) :: ((Some
    N0) :: ((Some N0) :: (None :: (None :: (None :: (None :: ((Some (Npos (XO
    (XO (XO (XO (XO (XO (XO (XO (XO (XO (XO (XO (XO (XO (XO (XO (XO (XO (XO
    (XO (XO (XO (XO (XO (XO (XO (XO (XO (XO
    XH))))))))))))))))))))))))))))))) :: (None :: ((Some (Npos (XO (XO (XO
    (XO (XO (XO (XO (XO (XO (XO (XO (XO (XO (XO (XO (XO (XO (XO (XO (XO (XO
    (XO (XO (XO (XO (XO (XO (XO (XO (XO
    XH)))))))))))))))))))))))))))))))) :: (None :: (None :: (None :: (None :: ((Some
    (Npos (XO (XO (XO (XO (XO (XO (XO (XO (XO (XO (XO (XO (XO (XO (XO (XO (XO
    (XO (XO (XO (XO (XO (XO (XO (XO (XO (XO (XO (XO (XI (XO (XO (XO (XO (XO
    (XO XH)))))))))))))))))))))))))))))))))))))) :: (None :: (None :: ((Some
    (Npos (XO (XO (XO (XO (XO (XO (XO (XO (XO (XO (XO (XO (XO (XO (XO (XO (XO
    (XO (XO (XO (XO (XO (XO (XO (XO (XO (XO (XO (XO (XO (XI (XO (XO (XO (XO
    (XO (XO (XO
    XH)))))))))))))))))))))))))))))))))))))))) :: (None :: (None :: (None :: ((Some
    (Npos (XO (XO (XO (XO (XO (XO (XO (XO (XO (XO (XO (XO (XO (XO (XO (XO (XO
    (XO (XO (XO (XO (XO (XO (XO (XO (XO (XO (XO (XO (XI (XO (XO (XO (XO (XO
    (XO (XI (XO (XO (XO (XO (XO (XO
    XH))))))))))))))))))))))))))))))))))))))))))))) :: (None :: (None :: (None :: ((Some
    (Npos (XO (XO (XO (XO (XO (XO (XO (XO (XO (XO (XO (XO (XO (XO (XO (XO (XO
    (XO (XO (XO (XO (XO (XO (XO (XO (XO (XO (XO (XO (XO (XI (XO (XO (XO (XO
    (XO (XO (XO (XI (XO (XO (XO (XO (XO (XO (XO
    XH)))))))))))))))))))))))))))))))))))))))))))))))) :: (None :: (None :: ((Some
    (Npos (XO (XO (XO (XO (XO (XO (XO (XO (XO (XO (XO (XO (XO (XO (XO (XO (XO
    (XO (XO (XO (XO (XO (XO (XO (XO (XO (XO (XO (XO (XI (XO (XO (XO (XO (XO
    (XO (XI (XO (XO (XO (XO (XO (XO (XI (XO (XO (XO (XO (XO (XO
    XH)))))))))))))))))))))))))))))))))))))))))))))))))))) :: (None :: (None :: (None :: (None :: ((Some
    (Npos (XO (XO (XO (XO (XO (XO (XO (XO (XO (XO (XO (XO (XO (XO (XO (XO (XO
    (XO (XO (XO (XO (XO (XO (XO (XO (XO (XO (XO (XO (XO (XI (XO (XO (XO (XO
    (XO (XO (XO (XI (XO (XO (XO (XO (XO (XO (XO (XI (XO (XO (XO (XO (XO (XO
    (XO
    XH)))))))))))))))))))))))))))))))))))))))))))))))))))))))) :: (None :: [])))))))))))))))))))))))))))))))))))))))))))))))))))))))))))))))) :: ((None :: (None :: (None :: (None :: (None :: ((Some
    (Npos (XO (XO (XO (XO (XO (XO (XO (XO (XO (XO (XO (XO (XO (XO
    XH)))))))))))))))) :: (None :: ((Some (Npos (XO (XO (XO (XO (XO (XO (XO
    (XO (XO (XO (XO (XO (XO (XO (XO
    XH))))))))))))))))) :: (None :: (None :: (None :: (None :: (None :: (None :: ((Some
    N0) :: ((Some N0) :: ((Some (Npos (XO (XO (XO (XO (XO (XO (XO (XO (XO (XO
    (XO (XO (XO (XO (XO (XO (XO (XI (XI (XI (XI (XI
    XH)))))))))))))))))))))))) :: ((Some (Npos (XO (XO (XO (XO (XO (XO (XO
    (XO (XO (XO (XO (XO (XO (XO (XO (XO (XO (XO (XI (XI (XI (XI
    XH)))))))))))))))))))))))) :: ((Some (Npos (XO (XO (XO (XO (XO (XO (XO
    (XO (XO (XO (XO (XO (XO (XO (XO (XO (XO (XO (XO (XI (XI (XI
    XH)))))))))))))))))))))))) :: ((Some (Npos (XO (XO (XO (XO (XO (XO (XO
    (XO (XO (XO (XO (XO (XO (XO (XO (XO (XO (XO (XO (XO (XI (XI
    XH)))))))))))))))))))))))) :: ((Some (Npos (XO (XO (XO (XO (XO (XO (XO
    (XO (XO (XO (XO (XO (XO (XO (XO (XO (XO (XO (XO (XO (XO (XI
    XH)))))))))))))))))))))))) :: ((Some (Npos (XO (XO (XO (XO (XO (XO (XO
    (XO (XO (XO (XO (XO (XO (XO (XO (XO (XO (XO (XO (XO (XO (XO
    XH)))))))))))))))))))))))) :: ((Some N0) :: ((Some
    N0) :: (None :: (None :: (None :: (None :: (None :: (None :: ((Some
    N0) :: ((Some N0) :: (None :: (None :: (None :: (None :: (None :: ((Some
    (Npos (XO (XO (XO (XO (XO (XO (XO (XO (XO (XO (XO (XO (XO (XO (XO (XO (XO
    (XO (XO (XO (XO (XO (XO (XO (XO (XO (XO (XO (XO (XO
    XH)))))))))))))))))))))))))))))))) :: (None :: ((Some (Npos (XO (XO (XO
    (XO (XO (XO (XO (XO (XO (XO (XO (XO (XO (XO (XO (XO (XO (XO (XO (XO (XO
    (XO (XO (XO (XO (XO (XO (XO (XO (XO (XO
    XH))))))))))))))))))))))))))))))))) :: (None :: (None :: (None :: (None :: ((Some
    (Npos (XO (XO (XO (XO (XO (XO (XO (XO (XO (XO (XO (XO (XO (XO (XO (XO (XO
    (XO (XO (XO (XO (XO (XO (XO (XO (XO (XO (XO (XO (XO (XI (XO (XO (XO (XO
    (XO (XO
    XH))))))))))))))))))))))))))))))))))))))) :: (None :: (None :: ((Some
    (Npos (XO (XO (XO (XO (XO (XO (XO (XO (XO (XO (XO (XO (XO (XO (XO (XO (XO
    (XO (XO (XO (XO (XO (XO (XO (XO (XO (XO (XO (XO (XO (XO (XI (XO (XO (XO
    (XO (XO (XO (XO
    XH))))))))))))))))))))))))))))))))))))))))) :: (None :: (None :: (None :: ((Some
    (Npos (XO (XO (XO (XO (XO (XO (XO (XO (XO (XO (XO (XO (XO (XO (XO (XO (XO
    (XO (XO (XO (XO (XO (XO (XO (XO (XO (XO (XO (XO (XO (XI (XO (XO (XO (XO
    (XO (XO (XI (XO (XO (XO (XO (XO (XO
    XH)))))))))))))))))))))))))))))))))))))))))))))) :: (None :: (None :: (None :: ((Some
    (Npos (XO (XO (XO (XO (XO (XO (XO (XO (XO (XO (XO (XO (XO (XO (XO (XO (XO
    (XO (XO (XO (XO (XO (XO (XO (XO (XO (XO (XO (XO (XO (XO (XI (XO (XO (XO
    (XO (XO (XO (XO (XI (XO (XO (XO (XO (XO (XO (XO
    XH))))))))))))))))))))))))))))))))))))))))))))))))) :: (None :: (None :: ((Some
    (Npos (XO (XO (XO (XO (XO (XO (XO (XO (XO (XO (XO (XO (XO (XO (XO (XO (XO
    (XO (XO (XO (XO (XO (XO (XO (XO (XO (XO (XO (XO (XO (XI (XO (XO (XO (XO
    (XO (XO (XI (XO (XO (XO (XO (XO (XO (XI (XO (XO (XO (XO (XO (XO
    XH))))))))))))))))))))))))))))))))))))))))))))))))))))) :: (None :: (None :: (None :: (None :: ((Some
    (Npos (XO (XO (XO (XO (XO (XO (XO (XO (XO (XO (XO (XO (XO (XO (XO (XO (XO
    (XO (XO (XO (XO (XO (XO (XO (XO (XO (XO (XO (XO (XO (XO (XI (XO (XO (XO
    (XO (XO (XO (XO (XI (XO (XO (XO (XO (XO (XO (XO (XI (XO (XO (XO (XO (XO
    (XO (XO
    XH))))))))))))))))))))))))))))))))))))))))))))))))))))))))) :: [])))))))))))))))))))))))))))))))))))))))))))))))))))))))))))))))) :: (((Some
    (Npos (XO (XO (XO (XO (XO (XO (XO (XO (XI (XO (XO (XO (XO (XO (XO (XO
    XH)))))))))))))))))) :: (None :: (None :: ((Some (Npos (XO (XO (XO (XO
    (XO (XO (XO (XO (XO (XO (XI (XO (XO (XO (XO (XO (XO
    XH))))))))))))))))))) :: (None :: (None :: (None :: (None :: ((Some (Npos
    (XO (XO (XO (XO (XO (XO (XO (XO (XO (XO (XO (XO (XO (XO (XO (XO
    XH)))))))))))))))))) :: (None :: ((Some (Npos (XO (XO (XO (XO (XO (XO (XO
    (XO (XO (XO (XO (XO (XO (XO (XO (XO (XO
    XH))))))))))))))))))) :: (None :: (None :: (None :: (None :: (None :: ((Some
    N0) :: ((Some
    N0) :: (None :: (None :: (None :: (None :: (None :: (None :: ((Some
    N0) :: ((Some N0) :: ((Some (Npos (XO (XO (XO (XO (XO (XO (XO (XO (XO (XO
    (XO (XO (XO (XO (XO (XO (XO (XO (XO (XO (XO (XO (XO (XO (XO
    XH))))))))))))))))))))))))))) :: ((Some (Npos (XO (XO (XO (XO (XO (XO (XO
    (XO (XO (XO (XO (XO (XO (XO (XO (XO (XO (XO (XO (XO (XO (XO (XO (XO (XO
    (XI XH)))))))))))))))))))))))))))) :: ((Some (Npos (XO (XO (XO (XO (XO
    (XO (XO (XO (XO (XO (XO (XO (XO (XO (XO (XO (XO (XO (XO (XO (XO (XO (XO
    (XO (XO (XI (XI XH))))))))))))))))))))))))))))) :: ((Some (Npos (XO (XO
    (XO (XO (XO (XO (XO (XO (XO (XO (XO (XO (XO (XO (XO (XO (XO (XO (XO (XO
    (XO (XO (XO (XO (XO (XI (XI (XI
    XH)))))))))))))))))))))))))))))) :: ((Some (Npos (XO (XO (XO (XO (XO (XO
    (XO (XO (XO (XO (XO (XO (XO (XO (XO (XO (XO (XO (XO (XO (XO (XO (XO (XO
    (XO (XI (XI (XI (XI XH))))))))))))))))))))))))))))))) :: ((Some (Npos (XO
    (XO (XO (XO (XO (XO (XO (XO (XO (XO (XO (XO (XO (XO (XO (XO (XO (XO (XO
    (XO (XO (XO (XO (XO (XO (XI (XI (XI (XI (XI
    XH)))))))))))))))))))))))))))))))) :: ((Some N0) :: ((Some
    N0) :: (None :: (None :: (None :: (None :: (None :: (None :: ((Some (Npos
    (XO (XO (XO (XO (XO (XO (XO (XO (XO (XO (XO (XO (XO (XO (XO (XO (XO (XO
    (XO (XO (XO (XO (XO (XO (XO (XO (XO (XO (XO (XO (XO (XO
    XH)))))))))))))))))))))))))))))))))) :: (None :: ((Some (Npos (XO (XO (XO
    (XO (XO (XO (XO (XO (XO (XO (XO (XO (XO (XO (XO (XO (XO (XO (XO (XO (XO
    (XO (XO (XO (XO (XO (XO (XO (XO (XO (XO (XO (XO
    XH))))))))))))))))))))))))))))))))))) :: (None :: (None :: (None :: (None :: (None :: ((Some
    (Npos (XO (XO (XO (XO (XO (XO (XO (XO (XO (XO (XO (XO (XO (XO (XO (XO (XO
    (XO (XO (XO (XO (XO (XO (XO (XO (XO (XO (XO (XO (XO (XO (XO (XI (XO (XO
    (XO (XO (XO (XO (XO
    XH)))))))))))))))))))))))))))))))))))))))))) :: (None :: (None :: ((Some
    (Npos (XO (XO (XO (XO (XO (XO (XO (XO (XO (XO (XO (XO (XO (XO (XO (XO (XO
    (XO (XO (XO (XO (XO (XO (XO (XO (XO (XO (XO (XO (XO (XO (XO (XO (XI (XO
    (XO (XO (XO (XO (XO (XO (XO
    XH)))))))))))))))))))))))))))))))))))))))))))) :: (None :: (None :: (None :: (None :: ((Some
    (Npos (XO (XO (XO (XO (XO (XO (XO (XO (XO (XO (XO (XO (XO (XO (XO (XO (XO
    (XO (XO (XO (XO (XO (XO (XO (XO (XO (XO (XO (XO (XO (XO (XO (XI (XO (XO
    (XO (XO (XO (XO (XO (XI (XO (XO (XO (XO (XO (XO (XO
    XH)))))))))))))))))))))))))))))))))))))))))))))))))) :: (None :: (None :: (None :: ((Some
    (Npos (XO (XO (XO (XO (XO (XO (XO (XO (XO (XO (XO (XO (XO (XO (XO (XO (XO
    (XO (XO (XO (XO (XO (XO (XO (XO (XO (XO (XO (XO (XO (XO (XO (XO (XI (XO
    (XO (XO (XO (XO (XO (XO (XO (XI (XO (XO (XO (XO (XO (XO (XO (XO
    XH))))))))))))))))))))))))))))))))))))))))))))))))))))) :: (None :: (None :: (None :: [])))))))))))))))))))))))))))))))))))))))))))))))))))))))))))))))) :: ((None :: ((Some
    (Npos (XO (XO (XO (XO (XO (XO (XO (XO (XO (XI (XO (XO (XO (XO (XO (XO (XO
    XH))))))))))))))))))) :: (None :: (None :: ((Some (Npos (XO (XO (XO (XO
    (XO (XO (XO (XO (XO (XO (XO (XI (XO (XO (XO (XO (XO (XO
    XH)))))))))))))))))))) :: (None :: (None :: (None :: (None :: ((Some
    (Npos (XO (XO (XO (XO (XO (XO (XO (XO (XO (XO (XO (XO (XO (XO (XO (XO (XO
    XH))))))))))))))))))) :: (None :: ((Some (Npos (XO (XO (XO (XO (XO (XO
    (XO (XO (XO (XO (XO (XO (XO (XO (XO (XO (XO (XO
    XH)))))))))))))))))))) :: (None :: (None :: (None :: (None :: ((Some
    N0) :: ((Some N0) :: ((Some
    N0) :: (None :: (None :: (None :: (None :: (None :: ((Some N0) :: ((Some
    N0) :: ((Some N0) :: ((Some (Npos (XO (XO (XO (XO (XO (XO (XO (XO (XO (XO
    (XO (XO (XO (XO (XO (XO (XO (XO (XO (XO (XO (XO (XO (XO (XO (XO
    XH)))))))))))))))))))))))))))) :: ((Some (Npos (XO (XO (XO (XO (XO (XO
    (XO (XO (XO (XO (XO (XO (XO (XO (XO (XO (XO (XO (XO (XO (XO (XO (XO (XO
    (XO (XO (XI XH))))))))))))))))))))))))))))) :: ((Some (Npos (XO (XO (XO
    (XO (XO (XO (XO (XO (XO (XO (XO (XO (XO (XO (XO (XO (XO (XO (XO (XO (XO
    (XO (XO (XO (XO (XO (XI (XI XH)))))))))))))))))))))))))))))) :: ((Some
    (Npos (XO (XO (XO (XO (XO (XO (XO (XO (XO (XO (XO (XO (XO (XO (XO (XO (XO
    (XO (XO (XO (XO (XO (XO (XO (XO (XO (XI (XI (XI
    XH))))))))))))))))))))))))))))))) :: ((Some (Npos (XO (XO (XO (XO (XO (XO
    (XO (XO (XO (XO (XO (XO (XO (XO (XO (XO (XO (XO (XO (XO (XO (XO (XO (XO
    (XO (XO (XI (XI (XI (XI XH)))))))))))))))))))))))))))))))) :: ((Some
    N0) :: ((Some N0) :: ((Some
    N0) :: (None :: (None :: (None :: (None :: (None :: (None :: ((Some (Npos
    (XO (XO (XO (XO (XO (XO (XO (XO (XO (XO (XO (XO (XO (XO (XO (XO (XO (XO
    (XO (XO (XO (XO (XO (XO (XO (XO (XO (XO (XO (XO (XO (XO (XO
    XH))))))))))))))))))))))))))))))))))) :: (None :: ((Some (Npos (XO (XO
    (XO (XO (XO (XO (XO (XO (XO (XO (XO (XO (XO (XO (XO (XO (XO (XO (XO (XO
    (XO (XO (XO (XO (XO (XO (XO (XO (XO (XO (XO (XO (XO (XO
    XH)))))))))))))))))))))))))))))))))))) :: (None :: (None :: (None :: (None :: (None :: ((Some
    (Npos (XO (XO (XO (XO (XO (XO (XO (XO (XO (XO (XO (XO (XO (XO (XO (XO (XO
    (XO (XO (XO (XO (XO (XO (XO (XO (XO (XO (XO (XO (XO (XO (XO (XO (XI (XO
    (XO (XO (XO (XO (XO (XO
    XH))))))))))))))))))))))))))))))))))))))))))) :: (None :: (None :: ((Some
    (Npos (XO (XO (XO (XO (XO (XO (XO (XO (XO (XO (XO (XO (XO (XO (XO (XO (XO
    (XO (XO (XO (XO (XO (XO (XO (XO (XO (XO (XO (XO (XO (XO (XO (XO (XO (XI
    (XO (XO (XO (XO (XO (XO (XO (XO
    XH))))))))))))))))))))))))))))))))))))))))))))) :: (None :: (None :: (None :: (None :: ((Some
    (Npos (XO (XO (XO (XO (XO (XO (XO (XO (XO (XO (XO (XO (XO (XO (XO (XO (XO
    (XO (XO (XO (XO (XO (XO (XO (XO (XO (XO (XO (XO (XO (XO (XO (XO (XI (XO
    (XO (XO (XO (XO (XO (XO (XI (XO (XO (XO (XO (XO (XO (XO
    XH))))))))))))))))))))))))))))))))))))))))))))))))))) :: (None :: (None :: (None :: ((Some
    (Npos (XO (XO (XO (XO (XO (XO (XO (XO (XO (XO (XO (XO (XO (XO (XO (XO (XO
    (XO (XO (XO (XO (XO (XO (XO (XO (XO (XO (XO (XO (XO (XO (XO (XO (XO (XI
    (XO (XO (XO (XO (XO (XO (XO (XO (XI (XO (XO (XO (XO (XO (XO (XO (XO
    XH)))))))))))))))))))))))))))))))))))))))))))))))))))))) :: (None :: (None :: [])))))))))))))))))))))))))))))))))))))))))))))))))))))))))))))))) :: ((None :: (None :: ((Some
    (Npos (XO (XO (XO (XO (XO (XO (XO (XO (XO (XO (XI (XO (XO (XO (XO (XO (XO
    (XO XH)))))))))))))))))))) :: (None :: (None :: ((Some (Npos (XO (XO (XO
    (XO (XO (XO (XO (XO (XO (XO (XO (XO (XI (XO (XO (XO (XO (XO (XO
    XH))))))))))))))))))))) :: (None :: (None :: ((Some (Npos (XO (XO (XO (XO
    (XO (XO (XO (XO (XO (XO (XO (XO (XO (XO (XO (XO (XO
    XH))))))))))))))))))) :: (None :: ((Some (Npos (XO (XO (XO (XO (XO (XO
    (XO (XO (XO (XO (XO (XO (XO (XO (XO (XO (XO (XO
    XH)))))))))))))))))))) :: (None :: ((Some (Npos (XO (XO (XO (XO (XO (XO
    (XO (XO (XO (XO (XO (XO (XO (XO (XO (XO (XO (XO (XO
    XH))))))))))))))))))))) :: (None :: (None :: (None :: (None :: ((Some
    N0) :: ((Some N0) :: ((Some
    N0) :: (None :: (None :: (None :: (None :: ((Some (Npos (XO (XO (XO (XO
    (XO (XO (XO (XO (XO (XO (XO (XO (XO (XO (XO (XO (XO (XO (XO (XO (XO (XO
    (XO (XO (XO XH))))))))))))))))))))))))))) :: ((Some N0) :: ((Some
    N0) :: ((Some N0) :: ((Some (Npos (XO (XO (XO (XO (XO (XO (XO (XO (XO (XO
    (XO (XO (XO (XO (XO (XO (XO (XO (XO (XO (XO (XO (XO (XO (XO (XO (XO
    XH))))))))))))))))))))))))))))) :: ((Some (Npos (XO (XO (XO (XO (XO (XO
    (XO (XO (XO (XO (XO (XO (XO (XO (XO (XO (XO (XO (XO (XO (XO (XO (XO (XO
    (XO (XO (XO (XI XH)))))))))))))))))))))))))))))) :: ((Some (Npos (XO (XO
    (XO (XO (XO (XO (XO (XO (XO (XO (XO (XO (XO (XO (XO (XO (XO (XO (XO (XO
    (XO (XO (XO (XO (XO (XO (XO (XI (XI
    XH))))))))))))))))))))))))))))))) :: ((Some (Npos (XO (XO (XO (XO (XO (XO
    (XO (XO (XO (XO (XO (XO (XO (XO (XO (XO (XO (XO (XO (XO (XO (XO (XO (XO
    (XO (XO (XO (XI (XI (XI
    XH)))))))))))))))))))))))))))))))) :: (None :: ((Some N0) :: ((Some
    N0) :: ((Some N0) :: (None :: (None :: (None :: (None :: ((Some (Npos (XO
    (XO (XO (XO (XO (XO (XO (XO (XO (XO (XO (XO (XO (XO (XO (XO (XO (XO (XO
    (XO (XO (XO (XO (XO (XO (XO (XO (XO (XO (XO (XO (XO (XO
    XH))))))))))))))))))))))))))))))))))) :: (None :: ((Some (Npos (XO (XO
    (XO (XO (XO (XO (XO (XO (XO (XO (XO (XO (XO (XO (XO (XO (XO (XO (XO (XO
    (XO (XO (XO (XO (XO (XO (XO (XO (XO (XO (XO (XO (XO (XO
    XH)))))))))))))))))))))))))))))))))))) :: (None :: ((Some (Npos (XO (XO
    (XO (XO (XO (XO (XO (XO (XO (XO (XO (XO (XO (XO (XO (XO (XO (XO (XO (XO
    (XO (XO (XO (XO (XO (XO (XO (XO (XO (XO (XO (XO (XO (XO (XO
    XH))))))))))))))))))))))))))))))))))))) :: (None :: (None :: (None :: (None :: (None :: ((Some
    (Npos (XO (XO (XO (XO (XO (XO (XO (XO (XO (XO (XO (XO (XO (XO (XO (XO (XO
    (XO (XO (XO (XO (XO (XO (XO (XO (XO (XO (XO (XO (XO (XO (XO (XO (XO (XI
    (XO (XO (XO (XO (XO (XO (XO
    XH)))))))))))))))))))))))))))))))))))))))))))) :: (None :: (None :: ((Some
    (Npos (XO (XO (XO (XO (XO (XO (XO (XO (XO (XO (XO (XO (XO (XO (XO (XO (XO
    (XO (XO (XO (XO (XO (XO (XO (XO (XO (XO (XO (XO (XO (XO (XO (XO (XO (XO
    (XI (XO (XO (XO (XO (XO (XO (XO (XO
    XH)))))))))))))))))))))))))))))))))))))))))))))) :: (None :: (None :: (None :: (None :: ((Some
    (Npos (XO (XO (XO (XO (XO (XO (XO (XO (XO (XO (XO (XO (XO (XO (XO (XO (XO
    (XO (XO (XO (XO (XO (XO (XO (XO (XO (XO (XO (XO (XO (XO (XO (XO (XO (XI
    (XO (XO (XO (XO (XO (XO (XO (XI (XO (XO (XO (XO (XO (XO (XO
    XH)))))))))))))))))))))))))))))))))))))))))))))))))))) :: (None :: (None :: (None :: ((Some
    (Npos (XO (XO (XO (XO (XO (XO (XO (XO (XO (XO (XO (XO (XO (XO (XO (XO (XO
    (XO (XO (XO (XO (XO (XO (XO (XO (XO (XO (XO (XO (XO (XO (XO (XO (XO (XO
    (XI (XO (XO (XO (XO (XO (XO (XO (XO (XI (XO (XO (XO (XO (XO (XO (XO (XO
    XH))))))))))))))))))))))))))))))))))))))))))))))))))))))) :: (None :: [])))))))))))))))))))))))))))))))))))))))))))))))))))))))))))))))) :: (((Some
    (Npos (XO (XO (XO (XO (XO (XO (XO (XO (XO (XI (XO (XO (XO (XO (XO (XO (XO
    (XO XH)))))))))))))))))))) :: (None :: (None :: ((Some (Npos (XO (XO (XO
    (XO (XO (XO (XO (XO (XO (XO (XO (XI (XO (XO (XO (XO (XO (XO (XO
    XH))))))))))))))))))))) :: (None :: (None :: ((Some (Npos (XO (XO (XO (XO
    (XO (XO (XO (XO (XO (XO (XO (XO (XO (XI (XO (XO (XO (XO (XO (XO
    XH)))))))))))))))))))))) :: (None :: (None :: ((Some (Npos (XO (XO (XO
    (XO (XO (XO (XO (XO (XO (XO (XO (XO (XO (XO (XO (XO (XO (XO
    XH)))))))))))))))))))) :: (None :: ((Some (Npos (XO (XO (XO (XO (XO (XO
    (XO (XO (XO (XO (XO (XO (XO (XO (XO (XO (XO (XO (XO
    XH))))))))))))))))))))) :: (None :: ((Some (Npos (XO (XO (XO (XO (XO (XO
    (XO (XO (XO (XO (XO (XO (XO (XO (XO (XO (XO (XO (XO (XO
    XH)))))))))))))))))))))) :: (None :: (None :: (None :: (None :: ((Some
    N0) :: ((Some N0) :: ((Some N0) :: (None :: (None :: (None :: ((Some
    (Npos (XO (XO (XO (XO (XO (XO (XO (XO (XO (XO (XO (XO (XO (XO (XO (XO (XO
    (XO (XO (XO (XO (XO (XO (XO (XO (XI
    XH)))))))))))))))))))))))))))) :: ((Some (Npos (XO (XO (XO (XO (XO (XO
    (XO (XO (XO (XO (XO (XO (XO (XO (XO (XO (XO (XO (XO (XO (XO (XO (XO (XO
    (XO (XO XH)))))))))))))))))))))))))))) :: ((Some N0) :: ((Some
    N0) :: ((Some N0) :: ((Some (Npos (XO (XO (XO (XO (XO (XO (XO (XO (XO (XO
    (XO (XO (XO (XO (XO (XO (XO (XO (XO (XO (XO (XO (XO (XO (XO (XO (XO (XO
    XH)))))))))))))))))))))))))))))) :: ((Some (Npos (XO (XO (XO (XO (XO (XO
    (XO (XO (XO (XO (XO (XO (XO (XO (XO (XO (XO (XO (XO (XO (XO (XO (XO (XO
    (XO (XO (XO (XO (XI XH))))))))))))))))))))))))))))))) :: ((Some (Npos (XO
    (XO (XO (XO (XO (XO (XO (XO (XO (XO (XO (XO (XO (XO (XO (XO (XO (XO (XO
    (XO (XO (XO (XO (XO (XO (XO (XO (XO (XI (XI
    XH)))))))))))))))))))))))))))))))) :: (None :: (None :: ((Some
    N0) :: ((Some N0) :: ((Some
    N0) :: (None :: (None :: (None :: (None :: ((Some (Npos (XO (XO (XO (XO
    (XO (XO (XO (XO (XO (XO (XO (XO (XO (XO (XO (XO (XO (XO (XO (XO (XO (XO
    (XO (XO (XO (XO (XO (XO (XO (XO (XO (XO (XO (XO
    XH)))))))))))))))))))))))))))))))))))) :: (None :: ((Some (Npos (XO (XO
    (XO (XO (XO (XO (XO (XO (XO (XO (XO (XO (XO (XO (XO (XO (XO (XO (XO (XO
    (XO (XO (XO (XO (XO (XO (XO (XO (XO (XO (XO (XO (XO (XO (XO
    XH))))))))))))))))))))))))))))))))))))) :: (None :: ((Some (Npos (XO (XO
    (XO (XO (XO (XO (XO (XO (XO (XO (XO (XO (XO (XO (XO (XO (XO (XO (XO (XO
    (XO (XO (XO (XO (XO (XO (XO (XO (XO (XO (XO (XO (XO (XO (XO (XO
    XH)))))))))))))))))))))))))))))))))))))) :: (None :: (None :: ((Some
    (Npos (XO (XO (XO (XO (XO (XO (XO (XO (XO (XO (XO (XO (XO (XO (XO (XO (XO
    (XO (XO (XO (XO (XO (XO (XO (XO (XO (XO (XO (XO (XO (XO (XO (XO (XO (XI
    (XO (XO (XO (XO (XO (XO
    XH))))))))))))))))))))))))))))))))))))))))))) :: (None :: (None :: ((Some
    (Npos (XO (XO (XO (XO (XO (XO (XO (XO (XO (XO (XO (XO (XO (XO (XO (XO (XO
    (XO (XO (XO (XO (XO (XO (XO (XO (XO (XO (XO (XO (XO (XO (XO (XO (XO (XO
    (XI (XO (XO (XO (XO (XO (XO (XO
    XH))))))))))))))))))))))))))))))))))))))))))))) :: (None :: (None :: ((Some
    (Npos (XO (XO (XO (XO (XO (XO (XO (XO (XO (XO (XO (XO (XO (XO (XO (XO (XO
    (XO (XO (XO (XO (XO (XO (XO (XO (XO (XO (XO (XO (XO (XO (XO (XO (XO (XO
    (XO (XI (XO (XO (XO (XO (XO (XO (XO (XO
    XH))))))))))))))))))))))))))))))))))))))))))))))) :: (None :: (None :: (None :: (None :: ((Some
    (Npos (XO (XO (XO (XO (XO (XO (XO (XO (XO (XO (XO (XO (XO (XO (XO (XO (XO
    (XO (XO (XO (XO (XO (XO (XO (XO (XO (XO (XO (XO (XO (XO (XO (XO (XO (XO
    (XI (XO (XO (XO (XO (XO (XO (XO (XI (XO (XO (XO (XO (XO (XO (XO
    XH))))))))))))))))))))))))))))))))))))))))))))))))))))) :: (None :: (None :: (None :: ((Some
    (Npos (XO (XO (XO (XO (XO (XO (XO (XO (XO (XO (XO (XO (XO (XO (XO (XO (XO
    (XO (XO (XO (XO (XO (XO (XO (XO (XO (XO (XO (XO (XO (XO (XO (XO (XO (XO
    (XO (XI (XO (XO (XO (XO (XO (XO (XO (XO (XI (XO (XO (XO (XO (XO (XO (XO
    (XO
    XH)))))))))))))))))))))))))))))))))))))))))))))))))))))))) :: [])))))))))))))))))))))))))))))))))))))))))))))))))))))))))))))))) :: ((None :: ((Some
    (Npos (XO (XO (XO (XO (XO (XO (XO (XO (XO (XO (XI (XO (XO (XO (XO (XO (XO
    (XO (XO XH))))))))))))))))))))) :: (None :: (None :: ((Some (Npos (XO (XO
    (XO (XO (XO (XO (XO (XO (XO (XO (XO (XO (XI (XO (XO (XO (XO (XO (XO (XO
    XH)))))))))))))))))))))) :: (None :: (None :: ((Some (Npos (XO (XO (XO
    (XO (XO (XO (XO (XO (XO (XO (XO (XO (XO (XO (XI (XO (XO (XO (XO (XO (XO
    XH))))))))))))))))))))))) :: (None :: (None :: ((Some (Npos (XO (XO (XO
    (XO (XO (XO (XO (XO (XO (XO (XO (XO (XO (XO (XO (XO (XO (XO (XO
    XH))))))))))))))))))))) :: (None :: ((Some (Npos (XO (XO (XO (XO (XO (XO
    (XO (XO (XO (XO (XO (XO (XO (XO (XO (XO (XO (XO (XO (XO
    XH)))))))))))))))))))))) :: (None :: ((Some (Npos (XO (XO (XO (XO (XO (XO
    (XO (XO (XO (XO (XO (XO (XO (XO (XO (XO (XO (XO (XO (XO (XO
    XH))))))))))))))))))))))) :: (None :: (None :: (None :: (None :: ((Some
    N0) :: ((Some N0) :: ((Some N0) :: (None :: (None :: ((Some (Npos (XO (XO
    (XO (XO (XO (XO (XO (XO (XO (XO (XO (XO (XO (XO (XO (XO (XO (XO (XO (XO
    (XO (XO (XO (XO (XO (XI (XI XH))))))))))))))))))))))))))))) :: ((Some
    (Npos (XO (XO (XO (XO (XO (XO (XO (XO (XO (XO (XO (XO (XO (XO (XO (XO (XO
    (XO (XO (XO (XO (XO (XO (XO (XO (XO (XI
    XH))))))))))))))))))))))))))))) :: ((Some (Npos (XO (XO (XO (XO (XO (XO
    (XO (XO (XO (XO (XO (XO (XO (XO (XO (XO (XO (XO (XO (XO (XO (XO (XO (XO
    (XO (XO (XO XH))))))))))))))))))))))))))))) :: ((Some N0) :: ((Some
    N0) :: ((Some N0) :: ((Some (Npos (XO (XO (XO (XO (XO (XO (XO (XO (XO (XO
    (XO (XO (XO (XO (XO (XO (XO (XO (XO (XO (XO (XO (XO (XO (XO (XO (XO (XO
    (XO XH))))))))))))))))))))))))))))))) :: ((Some (Npos (XO (XO (XO (XO (XO
    (XO (XO (XO (XO (XO (XO (XO (XO (XO (XO (XO (XO (XO (XO (XO (XO (XO (XO
    (XO (XO (XO (XO (XO (XO (XI
    XH)))))))))))))))))))))))))))))))) :: (None :: (None :: (None :: ((Some
    N0) :: ((Some N0) :: ((Some
    N0) :: (None :: (None :: (None :: (None :: ((Some (Npos (XO (XO (XO (XO
    (XO (XO (XO (XO (XO (XO (XO (XO (XO (XO (XO (XO (XO (XO (XO (XO (XO (XO
    (XO (XO (XO (XO (XO (XO (XO (XO (XO (XO (XO (XO (XO
    XH))))))))))))))))))))))))))))))))))))) :: (None :: ((Some (Npos (XO (XO
    (XO (XO (XO (XO (XO (XO (XO (XO (XO (XO (XO (XO (XO (XO (XO (XO (XO (XO
    (XO (XO (XO (XO (XO (XO (XO (XO (XO (XO (XO (XO (XO (XO (XO (XO
    XH)))))))))))))))))))))))))))))))))))))) :: (None :: ((Some (Npos (XO (XO
    (XO (XO (XO (XO (XO (XO (XO (XO (XO (XO (XO (XO (XO (XO (XO (XO (XO (XO
    (XO (XO (XO (XO (XO (XO (XO (XO (XO (XO (XO (XO (XO (XO (XO (XO (XO
    XH))))))))))))))))))))))))))))))))))))))) :: (None :: (None :: ((Some
    (Npos (XO (XO (XO (XO (XO (XO (XO (XO (XO (XO (XO (XO (XO (XO (XO (XO (XO
    (XO (XO (XO (XO (XO (XO (XO (XO (XO (XO (XO (XO (XO (XO (XO (XO (XO (XO
    (XI (XO (XO (XO (XO (XO (XO
    XH)))))))))))))))))))))))))))))))))))))))))))) :: (None :: (None :: ((Some
    (Npos (XO (XO (XO (XO (XO (XO (XO (XO (XO (XO (XO (XO (XO (XO (XO (XO (XO
    (XO (XO (XO (XO (XO (XO (XO (XO (XO (XO (XO (XO (XO (XO (XO (XO (XO (XO
    (XO (XI (XO (XO (XO (XO (XO (XO (XO
    XH)))))))))))))))))))))))))))))))))))))))))))))) :: (None :: (None :: ((Some
    (Npos (XO (XO (XO (XO (XO (XO (XO (XO (XO (XO (XO (XO (XO (XO (XO (XO (XO
    (XO (XO (XO (XO (XO (XO (XO (XO (XO (XO (XO (XO (XO (XO (XO (XO (XO (XO
    (XO (XO (XI (XO (XO (XO (XO (XO (XO (XO (XO
    XH)))))))))))))))))))))))))))))))))))))))))))))))) :: ((Some (Npos (XO
    (XO (XO (XO (XO (XO (XO (XO (XO (XO (XO (XO (XO (XO (XO (XO (XO (XO (XO
    (XO (XO (XO (XO (XO (XO (XO (XO (XO (XO (XO (XO (XO (XO (XO (XO (XI (XO
    (XO (XO (XO (XO (XO (XI (XO (XO (XO (XO (XO (XO
    XH))))))))))))))))))))))))))))))))))))))))))))))))))) :: (None :: (None :: (None :: ((Some
    (Npos (XO (XO (XO (XO (XO (XO (XO (XO (XO (XO (XO (XO (XO (XO (XO (XO (XO
    (XO (XO (XO (XO (XO (XO (XO (XO (XO (XO (XO (XO (XO (XO (XO (XO (XO (XO
    (XO (XI (XO (XO (XO (XO (XO (XO (XO (XI (XO (XO (XO (XO (XO (XO (XO
    XH)))))))))))))))))))))))))))))))))))))))))))))))))))))) :: (None :: (None :: (None :: [])))))))))))))))))))))))))))))))))))))))))))))))))))))))))))))))) :: ((None :: (None :: ((Some
    (Npos (XO (XO (XO (XO (XO (XO (XO (XO (XO (XO (XO (XI (XO (XO (XO (XO (XO
    (XO (XO (XO XH)))))))))))))))))))))) :: (None :: (None :: ((Some (Npos
    (XO (XO (XO (XO (XO (XO (XO (XO (XO (XO (XO (XO (XO (XI (XO (XO (XO (XO
    (XO (XO (XO
    XH))))))))))))))))))))))) :: (None :: (None :: (None :: (None :: (None :: ((Some
    (Npos (XO (XO (XO (XO (XO (XO (XO (XO (XO (XO (XO (XO (XO (XO (XO (XO (XO
    (XO (XO (XO XH)))))))))))))))))))))) :: (None :: ((Some (Npos (XO (XO (XO
    (XO (XO (XO (XO (XO (XO (XO (XO (XO (XO (XO (XO (XO (XO (XO (XO (XO (XO
    XH))))))))))))))))))))))) :: (None :: ((Some (Npos (XO (XO (XO (XO (XO
    (XO (XO (XO (XO (XO (XO (XO (XO (XO (XO (XO (XO (XO (XO (XO (XO (XO
    XH)))))))))))))))))))))))) :: (None :: (None :: (None :: (None :: ((Some
    N0) :: ((Some N0) :: ((Some N0) :: (None :: ((Some (Npos (XO (XO (XO (XO
    (XO (XO (XO (XO (XO (XO (XO (XO (XO (XO (XO (XO (XO (XO (XO (XO (XO (XO
    (XO (XO (XO (XI (XI (XI XH)))))))))))))))))))))))))))))) :: ((Some (Npos
    (XO (XO (XO (XO (XO (XO (XO (XO (XO (XO (XO (XO (XO (XO (XO (XO (XO (XO
    (XO (XO (XO (XO (XO (XO (XO (XO (XI (XI
    XH)))))))))))))))))))))))))))))) :: ((Some (Npos (XO (XO (XO (XO (XO (XO
    (XO (XO (XO (XO (XO (XO (XO (XO (XO (XO (XO (XO (XO (XO (XO (XO (XO (XO
    (XO (XO (XO (XI XH)))))))))))))))))))))))))))))) :: ((Some (Npos (XO (XO
    (XO (XO (XO (XO (XO (XO (XO (XO (XO (XO (XO (XO (XO (XO (XO (XO (XO (XO
    (XO (XO (XO (XO (XO (XO (XO (XO
    XH)))))))))))))))))))))))))))))) :: ((Some N0) :: ((Some N0) :: ((Some
    N0) :: ((Some (Npos (XO (XO (XO (XO (XO (XO (XO (XO (XO (XO (XO (XO (XO
    (XO (XO (XO (XO (XO (XO (XO (XO (XO (XO (XO (XO (XO (XO (XO (XO (XO
    XH)))))))))))))))))))))))))))))))) :: (None :: (None :: (None :: (None :: ((Some
    N0) :: ((Some N0) :: ((Some
    N0) :: (None :: (None :: (None :: (None :: ((Some (Npos (XO (XO (XO (XO
    (XO (XO (XO (XO (XO (XO (XO (XO (XO (XO (XO (XO (XO (XO (XO (XO (XO (XO
    (XO (XO (XO (XO (XO (XO (XO (XO (XO (XO (XO (XO (XO (XO
    XH)))))))))))))))))))))))))))))))))))))) :: (None :: ((Some (Npos (XO (XO
    (XO (XO (XO (XO (XO (XO (XO (XO (XO (XO (XO (XO (XO (XO (XO (XO (XO (XO
    (XO (XO (XO (XO (XO (XO (XO (XO (XO (XO (XO (XO (XO (XO (XO (XO (XO
    XH))))))))))))))))))))))))))))))))))))))) :: (None :: ((Some (Npos (XO
    (XO (XO (XO (XO (XO (XO (XO (XO (XO (XO (XO (XO (XO (XO (XO (XO (XO (XO
    (XO (XO (XO (XO (XO (XO (XO (XO (XO (XO (XO (XO (XO (XO (XO (XO (XO (XO
    (XO
    XH)))))))))))))))))))))))))))))))))))))))) :: (None :: (None :: ((Some
    (Npos (XO (XO (XO (XO (XO (XO (XO (XO (XO (XO (XO (XO (XO (XO (XO (XO (XO
    (XO (XO (XO (XO (XO (XO (XO (XO (XO (XO (XO (XO (XO (XO (XO (XO (XO (XO
    (XO (XI (XO (XO (XO (XO (XO (XO
    XH))))))))))))))))))))))))))))))))))))))))))))) :: (None :: (None :: ((Some
    (Npos (XO (XO (XO (XO (XO (XO (XO (XO (XO (XO (XO (XO (XO (XO (XO (XO (XO
    (XO (XO (XO (XO (XO (XO (XO (XO (XO (XO (XO (XO (XO (XO (XO (XO (XO (XO
    (XO (XO (XI (XO (XO (XO (XO (XO (XO (XO
    XH))))))))))))))))))))))))))))))))))))))))))))))) :: (None :: (None :: (None :: ((Some
    (Npos (XO (XO (XO (XO (XO (XO (XO (XO (XO (XO (XO (XO (XO (XO (XO (XO (XO
    (XO (XO (XO (XO (XO (XO (XO (XO (XO (XO (XO (XO (XO (XO (XO (XO (XO (XO
    (XO (XI (XO (XO (XO (XO (XO (XO (XI (XO (XO (XO (XO (XO (XO
    XH)))))))))))))))))))))))))))))))))))))))))))))))))))) :: (None :: (None :: (None :: ((Some
    (Npos (XO (XO (XO (XO (XO (XO (XO (XO (XO (XO (XO (XO (XO (XO (XO (XO (XO
    (XO (XO (XO (XO (XO (XO (XO (XO (XO (XO (XO (XO (XO (XO (XO (XO (XO (XO
    (XO (XO (XI (XO (XO (XO (XO (XO (XO (XO (XI (XO (XO (XO (XO (XO (XO (XO
    XH))))))))))))))))))))))))))))))))))))))))))))))))))))))) :: (None :: (None :: [])))))))))))))))))))))))))))))))))))))))))))))))))))))))))))))))) :: ((None :: (None :: (None :: ((Some
    (Npos (XO (XO (XO (XO (XO (XO (XO (XO (XO (XO (XO (XO (XI (XO (XO (XO (XO
    (XO (XO (XO (XO XH))))))))))))))))))))))) :: (None :: (None :: ((Some
    (Npos (XO (XO (XO (XO (XO (XO (XO (XO (XO (XO (XO (XO (XO (XO (XI (XO (XO
    (XO (XO (XO (XO (XO
    XH)))))))))))))))))))))))) :: (None :: (None :: (None :: (None :: (None :: ((Some
    (Npos (XO (XO (XO (XO (XO (XO (XO (XO (XO (XO (XO (XO (XO (XO (XO (XO (XO
    (XO (XO (XO (XO XH))))))))))))))))))))))) :: (None :: ((Some (Npos (XO
    (XO (XO (XO (XO (XO (XO (XO (XO (XO (XO (XO (XO (XO (XO (XO (XO (XO (XO
    (XO (XO (XO
    XH)))))))))))))))))))))))) :: (None :: (None :: (None :: (None :: (None :: (None :: ((Some
    N0) :: ((Some N0) :: ((Some N0) :: ((Some (Npos (XO (XO (XO (XO (XO (XO
    (XO (XO (XO (XO (XO (XO (XO (XO (XO (XO (XO (XO (XO (XO (XO (XO (XO (XO
    (XO (XI (XI (XI (XI XH))))))))))))))))))))))))))))))) :: ((Some (Npos (XO
    (XO (XO (XO (XO (XO (XO (XO (XO (XO (XO (XO (XO (XO (XO (XO (XO (XO (XO
    (XO (XO (XO (XO (XO (XO (XO (XI (XI (XI
    XH))))))))))))))))))))))))))))))) :: ((Some (Npos (XO (XO (XO (XO (XO (XO
    (XO (XO (XO (XO (XO (XO (XO (XO (XO (XO (XO (XO (XO (XO (XO (XO (XO (XO
    (XO (XO (XO (XI (XI XH))))))))))))))))))))))))))))))) :: ((Some (Npos (XO
    (XO (XO (XO (XO (XO (XO (XO (XO (XO (XO (XO (XO (XO (XO (XO (XO (XO (XO
    (XO (XO (XO (XO (XO (XO (XO (XO (XO (XI
    XH))))))))))))))))))))))))))))))) :: ((Some (Npos (XO (XO (XO (XO (XO (XO
    (XO (XO (XO (XO (XO (XO (XO (XO (XO (XO (XO (XO (XO (XO (XO (XO (XO (XO
    (XO (XO (XO (XO (XO XH))))))))))))))))))))))))))))))) :: ((Some
    N0) :: ((Some N0) :: ((Some
    N0) :: (None :: (None :: (None :: (None :: (None :: ((Some N0) :: ((Some
    N0) :: ((Some N0) :: (None :: (None :: (None :: (None :: ((Some (Npos (XO
    (XO (XO (XO (XO (XO (XO (XO (XO (XO (XO (XO (XO (XO (XO (XO (XO (XO (XO
    (XO (XO (XO (XO (XO (XO (XO (XO (XO (XO (XO (XO (XO (XO (XO (XO (XO (XO
    XH))))))))))))))))))))))))))))))))))))))) :: (None :: ((Some (Npos (XO
    (XO (XO (XO (XO (XO (XO (XO (XO (XO (XO (XO (XO (XO (XO (XO (XO (XO (XO
    (XO (XO (XO (XO (XO (XO (XO (XO (XO (XO (XO (XO (XO (XO (XO (XO (XO (XO
    (XO
    XH)))))))))))))))))))))))))))))))))))))))) :: (None :: (None :: (None :: (None :: ((Some
    (Npos (XO (XO (XO (XO (XO (XO (XO (XO (XO (XO (XO (XO (XO (XO (XO (XO (XO
    (XO (XO (XO (XO (XO (XO (XO (XO (XO (XO (XO (XO (XO (XO (XO (XO (XO (XO
    (XO (XO (XI (XO (XO (XO (XO (XO (XO
    XH)))))))))))))))))))))))))))))))))))))))))))))) :: (None :: (None :: ((Some
    (Npos (XO (XO (XO (XO (XO (XO (XO (XO (XO (XO (XO (XO (XO (XO (XO (XO (XO
    (XO (XO (XO (XO (XO (XO (XO (XO (XO (XO (XO (XO (XO (XO (XO (XO (XO (XO
    (XO (XO (XO (XI (XO (XO (XO (XO (XO (XO (XO
    XH)))))))))))))))))))))))))))))))))))))))))))))))) :: (None :: (None :: (None :: ((Some
    (Npos (XO (XO (XO (XO (XO (XO (XO (XO (XO (XO (XO (XO (XO (XO (XO (XO (XO
    (XO (XO (XO (XO (XO (XO (XO (XO (XO (XO (XO (XO (XO (XO (XO (XO (XO (XO
    (XO (XO (XI (XO (XO (XO (XO (XO (XO (XI (XO (XO (XO (XO (XO (XO
    XH))))))))))))))))))))))))))))))))))))))))))))))))))))) :: (None :: (None :: (None :: ((Some
    (Npos (XO (XO (XO (XO (XO (XO (XO (XO (XO (XO (XO (XO (XO (XO (XO (XO (XO
    (XO (XO (XO (XO (XO (XO (XO (XO (XO (XO (XO (XO (XO (XO (XO (XO (XO (XO
    (XO (XO (XO (XI (XO (XO (XO (XO (XO (XO (XO (XI (XO (XO (XO (XO (XO (XO
    (XO
    XH)))))))))))))))))))))))))))))))))))))))))))))))))))))))) :: (None :: [])))))))))))))))))))))))))))))))))))))))))))))))))))))))))))))))) :: ((None :: (None :: (None :: (None :: ((Some
    (Npos (XO (XO (XO (XO (XO (XO (XO (XO (XO (XO (XO (XO (XO (XI (XO (XO (XO
    (XO (XO (XO (XO (XO
    XH)))))))))))))))))))))))) :: (None :: (None :: ((Some (Npos (XO (XO (XO
    (XO (XO (XO (XO (XO (XO (XO (XO (XO (XO (XO (XO (XI (XO (XO (XO (XO (XO
    (XO (XO
    XH))))))))))))))))))))))))) :: (None :: (None :: (None :: (None :: (None :: ((Some
    (Npos (XO (XO (XO (XO (XO (XO (XO (XO (XO (XO (XO (XO (XO (XO (XO (XO (XO
    (XO (XO (XO (XO (XO XH)))))))))))))))))))))))) :: (None :: ((Some (Npos
    (XO (XO (XO (XO (XO (XO (XO (XO (XO (XO (XO (XO (XO (XO (XO (XO (XO (XO
    (XO (XO (XO (XO (XO
    XH))))))))))))))))))))))))) :: (None :: (None :: (None :: (None :: (None :: (None :: ((Some
    N0) :: ((Some N0) :: ((Some (Npos (XO (XO (XO (XO (XO (XO (XO (XO (XO (XO
    (XO (XO (XO (XO (XO (XO (XO (XO (XO (XO (XO (XO (XO (XO (XO (XI (XI (XI
    (XI (XI XH)))))))))))))))))))))))))))))))) :: ((Some (Npos (XO (XO (XO
    (XO (XO (XO (XO (XO (XO (XO (XO (XO (XO (XO (XO (XO (XO (XO (XO (XO (XO
    (XO (XO (XO (XO (XO (XI (XI (XI (XI
    XH)))))))))))))))))))))))))))))))) :: ((Some (Npos (XO (XO (XO (XO (XO
    (XO (XO (XO (XO (XO (XO (XO (XO (XO (XO (XO (XO (XO (XO (XO (XO (XO (XO
    (XO (XO (XO (XO (XI (XI (XI XH)))))))))))))))))))))))))))))))) :: ((Some
    (Npos (XO (XO (XO (XO (XO (XO (XO (XO (XO (XO (XO (XO (XO (XO (XO (XO (XO
    (XO (XO (XO (XO (XO (XO (XO (XO (XO (XO (XO (XI (XI
    XH)))))))))))))))))))))))))))))))) :: ((Some (Npos (XO (XO (XO (XO (XO
    (XO (XO (XO (XO (XO (XO (XO (XO (XO (XO (XO (XO (XO (XO (XO (XO (XO (XO
    (XO (XO (XO (XO (XO (XO (XI XH)))))))))))))))))))))))))))))))) :: ((Some
    (Npos (XO (XO (XO (XO (XO (XO (XO (XO (XO (XO (XO (XO (XO (XO (XO (XO (XO
    (XO (XO (XO (XO (XO (XO (XO (XO (XO (XO (XO (XO (XO
    XH)))))))))))))))))))))))))))))))) :: ((Some N0) :: ((Some
    N0) :: (None :: (None :: (None :: (None :: (None :: (None :: ((Some
    N0) :: ((Some N0) :: (None :: (None :: (None :: (None :: (None :: ((Some
    (Npos (XO (XO (XO (XO (XO (XO (XO (XO (XO (XO (XO (XO (XO (XO (XO (XO (XO
    (XO (XO (XO (XO (XO (XO (XO (XO (XO (XO (XO (XO (XO (XO (XO (XO (XO (XO
    (XO (XO (XO XH)))))))))))))))))))))))))))))))))))))))) :: (None :: ((Some
    (Npos (XO (XO (XO (XO (XO (XO (XO (XO (XO (XO (XO (XO (XO (XO (XO (XO (XO
    (XO (XO (XO (XO (XO (XO (XO (XO (XO (XO (XO (XO (XO (XO (XO (XO (XO (XO
    (XO (XO (XO (XO
    XH))))))))))))))))))))))))))))))))))))))))) :: (None :: (None :: (None :: (None :: ((Some
    (Npos (XO (XO (XO (XO (XO (XO (XO (XO (XO (XO (XO (XO (XO (XO (XO (XO (XO
    (XO (XO (XO (XO (XO (XO (XO (XO (XO (XO (XO (XO (XO (XO (XO (XO (XO (XO
    (XO (XO (XO (XI (XO (XO (XO (XO (XO (XO
    XH))))))))))))))))))))))))))))))))))))))))))))))) :: (None :: (None :: ((Some
    (Npos (XO (XO (XO (XO (XO (XO (XO (XO (XO (XO (XO (XO (XO (XO (XO (XO (XO
    (XO (XO (XO (XO (XO (XO (XO (XO (XO (XO (XO (XO (XO (XO (XO (XO (XO (XO
    (XO (XO (XO (XO (XI (XO (XO (XO (XO (XO (XO (XO
    XH))))))))))))))))))))))))))))))))))))))))))))))))) :: (None :: (None :: (None :: ((Some
    (Npos (XO (XO (XO (XO (XO (XO (XO (XO (XO (XO (XO (XO (XO (XO (XO (XO (XO
    (XO (XO (XO (XO (XO (XO (XO (XO (XO (XO (XO (XO (XO (XO (XO (XO (XO (XO
    (XO (XO (XO (XI (XO (XO (XO (XO (XO (XO (XI (XO (XO (XO (XO (XO (XO
    XH)))))))))))))))))))))))))))))))))))))))))))))))))))))) :: (None :: (None :: (None :: ((Some
    (Npos (XO (XO (XO (XO (XO (XO (XO (XO (XO (XO (XO (XO (XO (XO (XO (XO (XO
    (XO (XO (XO (XO (XO (XO (XO (XO (XO (XO (XO (XO (XO (XO (XO (XO (XO (XO
    (XO (XO (XO (XO (XI (XO (XO (XO (XO (XO (XO (XO (XI (XO (XO (XO (XO (XO
    (XO (XO
    XH))))))))))))))))))))))))))))))))))))))))))))))))))))))))) :: [])))))))))))))))))))))))))))))))))))))))))))))))))))))))))))))))) :: (((Some
    (Npos (XO (XO (XO (XO (XO (XO (XO (XO (XI (XO (XO (XO (XO (XO (XO (XO (XI
    (XO (XO (XO (XO (XO (XO (XO
    XH)))))))))))))))))))))))))) :: (None :: (None :: (None :: ((Some (Npos
    (XO (XO (XO (XO (XO (XO (XO (XO (XO (XO (XO (XI (XO (XO (XO (XO (XO (XO
    (XI (XO (XO (XO (XO (XO (XO
    XH))))))))))))))))))))))))))) :: (None :: (None :: (None :: ((Some (Npos
    (XO (XO (XO (XO (XO (XO (XO (XO (XO (XO (XO (XO (XO (XO (XO (XO (XI (XO
    (XO (XO (XO (XO (XO (XO
    XH)))))))))))))))))))))))))) :: (None :: (None :: ((Some (Npos (XO (XO
    (XO (XO (XO (XO (XO (XO (XO (XO (XO (XO (XO (XO (XO (XO (XO (XO (XI (XO
    (XO (XO (XO (XO (XO
    XH))))))))))))))))))))))))))) :: (None :: (None :: (None :: (None :: ((Some
    (Npos (XO (XO (XO (XO (XO (XO (XO (XO (XO (XO (XO (XO (XO (XO (XO (XO (XO
    (XO (XO (XO (XO (XO (XO (XO
    XH)))))))))))))))))))))))))) :: (None :: ((Some (Npos (XO (XO (XO (XO (XO
    (XO (XO (XO (XO (XO (XO (XO (XO (XO (XO (XO (XO (XO (XO (XO (XO (XO (XO
    (XO (XO
    XH))))))))))))))))))))))))))) :: (None :: (None :: (None :: (None :: (None :: ((Some
    N0) :: ((Some
    N0) :: (None :: (None :: (None :: (None :: (None :: (None :: ((Some
    N0) :: ((Some N0) :: ((Some (Npos (XO (XO (XO (XO (XO (XO (XO (XO (XO (XO
    (XO (XO (XO (XO (XO (XO (XO (XO (XO (XO (XO (XO (XO (XO (XO (XO (XO (XO
    (XO (XO (XO (XO (XO XH))))))))))))))))))))))))))))))))))) :: ((Some (Npos
    (XO (XO (XO (XO (XO (XO (XO (XO (XO (XO (XO (XO (XO (XO (XO (XO (XO (XO
    (XO (XO (XO (XO (XO (XO (XO (XO (XO (XO (XO (XO (XO (XO (XO (XI
    XH)))))))))))))))))))))))))))))))))))) :: ((Some (Npos (XO (XO (XO (XO
    (XO (XO (XO (XO (XO (XO (XO (XO (XO (XO (XO (XO (XO (XO (XO (XO (XO (XO
    (XO (XO (XO (XO (XO (XO (XO (XO (XO (XO (XO (XI (XI
    XH))))))))))))))))))))))))))))))))))))) :: ((Some (Npos (XO (XO (XO (XO
    (XO (XO (XO (XO (XO (XO (XO (XO (XO (XO (XO (XO (XO (XO (XO (XO (XO (XO
    (XO (XO (XO (XO (XO (XO (XO (XO (XO (XO (XO (XI (XI (XI
    XH)))))))))))))))))))))))))))))))))))))) :: ((Some (Npos (XO (XO (XO (XO
    (XO (XO (XO (XO (XO (XO (XO (XO (XO (XO (XO (XO (XO (XO (XO (XO (XO (XO
    (XO (XO (XO (XO (XO (XO (XO (XO (XO (XO (XO (XI (XI (XI (XI
    XH))))))))))))))))))))))))))))))))))))))) :: ((Some (Npos (XO (XO (XO (XO
    (XO (XO (XO (XO (XO (XO (XO (XO (XO (XO (XO (XO (XO (XO (XO (XO (XO (XO
    (XO (XO (XO (XO (XO (XO (XO (XO (XO (XO (XO (XI (XI (XI (XI (XI
    XH)))))))))))))))))))))))))))))))))))))))) :: ((Some N0) :: ((Some
    N0) :: (None :: (None :: (None :: (None :: (None :: (None :: ((Some (Npos
    (XO (XO (XO (XO (XO (XO (XO (XO (XO (XO (XO (XO (XO (XO (XO (XO (XO (XO
    (XO (XO (XO (XO (XO (XO (XO (XO (XO (XO (XO (XO (XO (XO (XO (XO (XO (XO
    (XO (XO (XO (XO
    XH)))))))))))))))))))))))))))))))))))))))))) :: (None :: ((Some (Npos (XO
    (XO (XO (XO (XO (XO (XO (XO (XO (XO (XO (XO (XO (XO (XO (XO (XO (XO (XO
    (XO (XO (XO (XO (XO (XO (XO (XO (XO (XO (XO (XO (XO (XO (XO (XO (XO (XO
    (XO (XO (XO (XO
    XH))))))))))))))))))))))))))))))))))))))))))) :: (None :: (None :: (None :: (None :: (None :: ((Some
    (Npos (XO (XO (XO (XO (XO (XO (XO (XO (XO (XO (XO (XO (XO (XO (XO (XO (XO
    (XO (XO (XO (XO (XO (XO (XO (XO (XO (XO (XO (XO (XO (XO (XO (XO (XO (XO
    (XO (XO (XO (XO (XO (XI (XO (XO (XO (XO (XO (XO (XO
    XH)))))))))))))))))))))))))))))))))))))))))))))))))) :: (None :: (None :: ((Some
    (Npos (XO (XO (XO (XO (XO (XO (XO (XO (XO (XO (XO (XO (XO (XO (XO (XO (XO
    (XO (XO (XO (XO (XO (XO (XO (XO (XO (XO (XO (XO (XO (XO (XO (XO (XO (XO
    (XO (XO (XO (XO (XO (XO (XI (XO (XO (XO (XO (XO (XO (XO (XO
    XH)))))))))))))))))))))))))))))))))))))))))))))))))))) :: (None :: (None :: (None :: (None :: [])))))))))))))))))))))))))))))))))))))))))))))))))))))))))))))))) :: ((None :: ((Some
    (Npos (XO (XO (XO (XO (XO (XO (XO (XO (XO (XI (XO (XO (XO (XO (XO (XO (XO
    (XI (XO (XO (XO (XO (XO (XO (XO
    XH))))))))))))))))))))))))))) :: (None :: (None :: (None :: ((Some (Npos
    (XO (XO (XO (XO (XO (XO (XO (XO (XO (XO (XO (XO (XI (XO (XO (XO (XO (XO
    (XO (XI (XO (XO (XO (XO (XO (XO
    XH)))))))))))))))))))))))))))) :: (None :: (None :: (None :: ((Some (Npos
    (XO (XO (XO (XO (XO (XO (XO (XO (XO (XO (XO (XO (XO (XO (XO (XO (XO (XI
    (XO (XO (XO (XO (XO (XO (XO
    XH))))))))))))))))))))))))))) :: (None :: (None :: ((Some (Npos (XO (XO
    (XO (XO (XO (XO (XO (XO (XO (XO (XO (XO (XO (XO (XO (XO (XO (XO (XO (XI
    (XO (XO (XO (XO (XO (XO
    XH)))))))))))))))))))))))))))) :: (None :: (None :: (None :: (None :: ((Some
    (Npos (XO (XO (XO (XO (XO (XO (XO (XO (XO (XO (XO (XO (XO (XO (XO (XO (XO
    (XO (XO (XO (XO (XO (XO (XO (XO
    XH))))))))))))))))))))))))))) :: (None :: ((Some (Npos (XO (XO (XO (XO
    (XO (XO (XO (XO (XO (XO (XO (XO (XO (XO (XO (XO (XO (XO (XO (XO (XO (XO
    (XO (XO (XO (XO
    XH)))))))))))))))))))))))))))) :: (None :: (None :: (None :: (None :: ((Some
    N0) :: ((Some N0) :: ((Some
    N0) :: (None :: (None :: (None :: (None :: (None :: ((Some N0) :: ((Some
    N0) :: ((Some N0) :: ((Some (Npos (XO (XO (XO (XO (XO (XO (XO (XO (XO (XO
    (XO (XO (XO (XO (XO (XO (XO (XO (XO (XO (XO (XO (XO (XO (XO (XO (XO (XO
    (XO (XO (XO (XO (XO (XO XH)))))))))))))))))))))))))))))))))))) :: ((Some
    (Npos (XO (XO (XO (XO (XO (XO (XO (XO (XO (XO (XO (XO (XO (XO (XO (XO (XO
    (XO (XO (XO (XO (XO (XO (XO (XO (XO (XO (XO (XO (XO (XO (XO (XO (XO (XI
    XH))))))))))))))))))))))))))))))))))))) :: ((Some (Npos (XO (XO (XO (XO
    (XO (XO (XO (XO (XO (XO (XO (XO (XO (XO (XO (XO (XO (XO (XO (XO (XO (XO
    (XO (XO (XO (XO (XO (XO (XO (XO (XO (XO (XO (XO (XI (XI
    XH)))))))))))))))))))))))))))))))))))))) :: ((Some (Npos (XO (XO (XO (XO
    (XO (XO (XO (XO (XO (XO (XO (XO (XO (XO (XO (XO (XO (XO (XO (XO (XO (XO
    (XO (XO (XO (XO (XO (XO (XO (XO (XO (XO (XO (XO (XI (XI (XI
    XH))))))))))))))))))))))))))))))))))))))) :: ((Some (Npos (XO (XO (XO (XO
    (XO (XO (XO (XO (XO (XO (XO (XO (XO (XO (XO (XO (XO (XO (XO (XO (XO (XO
    (XO (XO (XO (XO (XO (XO (XO (XO (XO (XO (XO (XO (XI (XI (XI (XI
    XH)))))))))))))))))))))))))))))))))))))))) :: ((Some N0) :: ((Some
    N0) :: ((Some
    N0) :: (None :: (None :: (None :: (None :: (None :: (None :: ((Some (Npos
    (XO (XO (XO (XO (XO (XO (XO (XO (XO (XO (XO (XO (XO (XO (XO (XO (XO (XO
    (XO (XO (XO (XO (XO (XO (XO (XO (XO (XO (XO (XO (XO (XO (XO (XO (XO (XO
    (XO (XO (XO (XO (XO
    XH))))))))))))))))))))))))))))))))))))))))))) :: (None :: ((Some (Npos
    (XO (XO (XO (XO (XO (XO (XO (XO (XO (XO (XO (XO (XO (XO (XO (XO (XO (XO
    (XO (XO (XO (XO (XO (XO (XO (XO (XO (XO (XO (XO (XO (XO (XO (XO (XO (XO
    (XO (XO (XO (XO (XO (XO
    XH)))))))))))))))))))))))))))))))))))))))))))) :: (None :: (None :: (None :: (None :: (None :: ((Some
    (Npos (XO (XO (XO (XO (XO (XO (XO (XO (XO (XO (XO (XO (XO (XO (XO (XO (XO
    (XO (XO (XO (XO (XO (XO (XO (XO (XO (XO (XO (XO (XO (XO (XO (XO (XO (XO
    (XO (XO (XO (XO (XO (XO (XI (XO (XO (XO (XO (XO (XO (XO
    XH))))))))))))))))))))))))))))))))))))))))))))))))))) :: (None :: (None :: ((Some
    (Npos (XO (XO (XO (XO (XO (XO (XO (XO (XO (XO (XO (XO (XO (XO (XO (XO (XO
    (XO (XO (XO (XO (XO (XO (XO (XO (XO (XO (XO (XO (XO (XO (XO (XO (XO (XO
    (XO (XO (XO (XO (XO (XO (XO (XI (XO (XO (XO (XO (XO (XO (XO (XO
    XH))))))))))))))))))))))))))))))))))))))))))))))))))))) :: (None :: (None :: (None :: [])))))))))))))))))))))))))))))))))))))))))))))))))))))))))))))))) :: ((None :: (None :: ((Some
    (Npos (XO (XO (XO (XO (XO (XO (XO (XO (XO (XO (XI (XO (XO (XO (XO (XO (XO
    (XO (XI (XO (XO (XO (XO (XO (XO (XO
    XH)))))))))))))))))))))))))))) :: (None :: (None :: (None :: ((Some (Npos
    (XO (XO (XO (XO (XO (XO (XO (XO (XO (XO (XO (XO (XO (XI (XO (XO (XO (XO
    (XO (XO (XI (XO (XO (XO (XO (XO (XO
    XH))))))))))))))))))))))))))))) :: (None :: (None :: (None :: ((Some
    (Npos (XO (XO (XO (XO (XO (XO (XO (XO (XO (XO (XO (XO (XO (XO (XO (XO (XO
    (XO (XI (XO (XO (XO (XO (XO (XO (XO
    XH)))))))))))))))))))))))))))) :: (None :: (None :: ((Some (Npos (XO (XO
    (XO (XO (XO (XO (XO (XO (XO (XO (XO (XO (XO (XO (XO (XO (XO (XO (XO (XO
    (XI (XO (XO (XO (XO (XO (XO
    XH))))))))))))))))))))))))))))) :: (None :: (None :: ((Some (Npos (XO (XO
    (XO (XO (XO (XO (XO (XO (XO (XO (XO (XO (XO (XO (XO (XO (XO (XO (XO (XO
    (XO (XO (XO (XO (XO XH))))))))))))))))))))))))))) :: (None :: ((Some
    (Npos (XO (XO (XO (XO (XO (XO (XO (XO (XO (XO (XO (XO (XO (XO (XO (XO (XO
    (XO (XO (XO (XO (XO (XO (XO (XO (XO
    XH)))))))))))))))))))))))))))) :: (None :: ((Some (Npos (XO (XO (XO (XO
    (XO (XO (XO (XO (XO (XO (XO (XO (XO (XO (XO (XO (XO (XO (XO (XO (XO (XO
    (XO (XO (XO (XO (XO
    XH))))))))))))))))))))))))))))) :: (None :: (None :: (None :: (None :: ((Some
    N0) :: ((Some N0) :: ((Some
    N0) :: (None :: (None :: (None :: (None :: ((Some (Npos (XO (XO (XO (XO
    (XO (XO (XO (XO (XO (XO (XO (XO (XO (XO (XO (XO (XO (XO (XO (XO (XO (XO
    (XO (XO (XO (XO (XO (XO (XO (XO (XO (XO (XO
    XH))))))))))))))))))))))))))))))))))) :: ((Some N0) :: ((Some
    N0) :: ((Some N0) :: ((Some (Npos (XO (XO (XO (XO (XO (XO (XO (XO (XO (XO
    (XO (XO (XO (XO (XO (XO (XO (XO (XO (XO (XO (XO (XO (XO (XO (XO (XO (XO
    (XO (XO (XO (XO (XO (XO (XO
    XH))))))))))))))))))))))))))))))))))))) :: ((Some (Npos (XO (XO (XO (XO
    (XO (XO (XO (XO (XO (XO (XO (XO (XO (XO (XO (XO (XO (XO (XO (XO (XO (XO
    (XO (XO (XO (XO (XO (XO (XO (XO (XO (XO (XO (XO (XO (XI
    XH)))))))))))))))))))))))))))))))))))))) :: ((Some (Npos (XO (XO (XO (XO
    (XO (XO (XO (XO (XO (XO (XO (XO (XO (XO (XO (XO (XO (XO (XO (XO (XO (XO
    (XO (XO (XO (XO (XO (XO (XO (XO (XO (XO (XO (XO (XO (XI (XI
    XH))))))))))))))))))))))))))))))))))))))) :: ((Some (Npos (XO (XO (XO (XO
    (XO (XO (XO (XO (XO (XO (XO (XO (XO (XO (XO (XO (XO (XO (XO (XO (XO (XO
    (XO (XO (XO (XO (XO (XO (XO (XO (XO (XO (XO (XO (XO (XI (XI (XI
    XH)))))))))))))))))))))))))))))))))))))))) :: (None :: ((Some
    N0) :: ((Some N0) :: ((Some
    N0) :: (None :: (None :: (None :: (None :: ((Some (Npos (XO (XO (XO (XO
    (XO (XO (XO (XO (XO (XO (XO (XO (XO (XO (XO (XO (XO (XO (XO (XO (XO (XO
    (XO (XO (XO (XO (XO (XO (XO (XO (XO (XO (XO (XO (XO (XO (XO (XO (XO (XO
    (XO XH))))))))))))))))))))))))))))))))))))))))))) :: (None :: ((Some
    (Npos (XO (XO (XO (XO (XO (XO (XO (XO (XO (XO (XO (XO (XO (XO (XO (XO (XO
    (XO (XO (XO (XO (XO (XO (XO (XO (XO (XO (XO (XO (XO (XO (XO (XO (XO (XO
    (XO (XO (XO (XO (XO (XO (XO
    XH)))))))))))))))))))))))))))))))))))))))))))) :: (None :: ((Some (Npos
    (XO (XO (XO (XO (XO (XO (XO (XO (XO (XO (XO (XO (XO (XO (XO (XO (XO (XO
    (XO (XO (XO (XO (XO (XO (XO (XO (XO (XO (XO (XO (XO (XO (XO (XO (XO (XO
    (XO (XO (XO (XO (XO (XO (XO
    XH))))))))))))))))))))))))))))))))))))))))))))) :: (None :: (None :: (None :: (None :: (None :: ((Some
    (Npos (XO (XO (XO (XO (XO (XO (XO (XO (XO (XO (XO (XO (XO (XO (XO (XO (XO
    (XO (XO (XO (XO (XO (XO (XO (XO (XO (XO (XO (XO (XO (XO (XO (XO (XO (XO
    (XO (XO (XO (XO (XO (XO (XO (XI (XO (XO (XO (XO (XO (XO (XO
    XH)))))))))))))))))))))))))))))))))))))))))))))))))))) :: (None :: (None :: ((Some
    (Npos (XO (XO (XO (XO (XO (XO (XO (XO (XO (XO (XO (XO (XO (XO (XO (XO (XO
    (XO (XO (XO (XO (XO (XO (XO (XO (XO (XO (XO (XO (XO (XO (XO (XO (XO (XO
    (XO (XO (XO (XO (XO (XO (XO (XO (XI (XO (XO (XO (XO (XO (XO (XO (XO
    XH)))))))))))))))))))))))))))))))))))))))))))))))))))))) :: (None :: (None :: [])))))))))))))))))))))))))))))))))))))))))))))))))))))))))))))))) :: ((None :: (None :: (None :: ((Some
    (Npos (XO (XO (XO (XO (XO (XO (XO (XO (XO (XO (XO (XI (XO (XO (XO (XO (XO
    (XO (XO (XI (XO (XO (XO (XO (XO (XO (XO
    XH))))))))))))))))))))))))))))) :: (None :: (None :: (None :: ((Some
    (Npos (XO (XO (XO (XO (XO (XO (XO (XO (XO (XO (XO (XO (XO (XO (XI (XO (XO
    (XO (XO (XO (XO (XI (XO (XO (XO (XO (XO (XO
    XH)))))))))))))))))))))))))))))) :: ((Some (Npos (XO (XO (XO (XO (XO (XO
    (XO (XO (XO (XO (XO (XO (XO (XO (XO (XO (XO (XI (XO (XO (XO (XO (XO (XO
    (XO (XO XH)))))))))))))))))))))))))))) :: (None :: (None :: ((Some (Npos
    (XO (XO (XO (XO (XO (XO (XO (XO (XO (XO (XO (XO (XO (XO (XO (XO (XO (XO
    (XO (XI (XO (XO (XO (XO (XO (XO (XO
    XH))))))))))))))))))))))))))))) :: (None :: (None :: ((Some (Npos (XO (XO
    (XO (XO (XO (XO (XO (XO (XO (XO (XO (XO (XO (XO (XO (XO (XO (XO (XO (XO
    (XO (XI (XO (XO (XO (XO (XO (XO
    XH)))))))))))))))))))))))))))))) :: (None :: (None :: ((Some (Npos (XO
    (XO (XO (XO (XO (XO (XO (XO (XO (XO (XO (XO (XO (XO (XO (XO (XO (XO (XO
    (XO (XO (XO (XO (XO (XO (XO
    XH)))))))))))))))))))))))))))) :: (None :: ((Some (Npos (XO (XO (XO (XO
    (XO (XO (XO (XO (XO (XO (XO (XO (XO (XO (XO (XO (XO (XO (XO (XO (XO (XO
    (XO (XO (XO (XO (XO XH))))))))))))))))))))))))))))) :: (None :: ((Some
    (Npos (XO (XO (XO (XO (XO (XO (XO (XO (XO (XO (XO (XO (XO (XO (XO (XO (XO
    (XO (XO (XO (XO (XO (XO (XO (XO (XO (XO (XO
    XH)))))))))))))))))))))))))))))) :: (None :: (None :: (None :: (None :: ((Some
    N0) :: ((Some N0) :: ((Some N0) :: (None :: (None :: (None :: ((Some
    (Npos (XO (XO (XO (XO (XO (XO (XO (XO (XO (XO (XO (XO (XO (XO (XO (XO (XO
    (XO (XO (XO (XO (XO (XO (XO (XO (XO (XO (XO (XO (XO (XO (XO (XO (XI
    XH)))))))))))))))))))))))))))))))))))) :: ((Some (Npos (XO (XO (XO (XO
    (XO (XO (XO (XO (XO (XO (XO (XO (XO (XO (XO (XO (XO (XO (XO (XO (XO (XO
    (XO (XO (XO (XO (XO (XO (XO (XO (XO (XO (XO (XO
    XH)))))))))))))))))))))))))))))))))))) :: ((Some N0) :: ((Some
    N0) :: ((Some N0) :: ((Some (Npos (XO (XO (XO (XO (XO (XO (XO (XO (XO (XO
    (XO (XO (XO (XO (XO (XO (XO (XO (XO (XO (XO (XO (XO (XO (XO (XO (XO (XO
    (XO (XO (XO (XO (XO (XO (XO (XO
    XH)))))))))))))))))))))))))))))))))))))) :: ((Some (Npos (XO (XO (XO (XO
    (XO (XO (XO (XO (XO (XO (XO (XO (XO (XO (XO (XO (XO (XO (XO (XO (XO (XO
    (XO (XO (XO (XO (XO (XO (XO (XO (XO (XO (XO (XO (XO (XO (XI
    XH))))))))))))))))))))))))))))))))))))))) :: ((Some (Npos (XO (XO (XO (XO
    (XO (XO (XO (XO (XO (XO (XO (XO (XO (XO (XO (XO (XO (XO (XO (XO (XO (XO
    (XO (XO (XO (XO (XO (XO (XO (XO (XO (XO (XO (XO (XO (XO (XI (XI
    XH)))))))))))))))))))))))))))))))))))))))) :: (None :: (None :: ((Some
    N0) :: ((Some N0) :: ((Some
    N0) :: (None :: (None :: (None :: (None :: ((Some (Npos (XO (XO (XO (XO
    (XO (XO (XO (XO (XO (XO (XO (XO (XO (XO (XO (XO (XO (XO (XO (XO (XO (XO
    (XO (XO (XO (XO (XO (XO (XO (XO (XO (XO (XO (XO (XO (XO (XO (XO (XO (XO
    (XO (XO XH)))))))))))))))))))))))))))))))))))))))))))) :: (None :: ((Some
    (Npos (XO (XO (XO (XO (XO (XO (XO (XO (XO (XO (XO (XO (XO (XO (XO (XO (XO
    (XO (XO (XO (XO (XO (XO (XO (XO (XO (XO (XO (XO (XO (XO (XO (XO (XO (XO
    (XO (XO (XO (XO (XO (XO (XO (XO
    XH))))))))))))))))))))))))))))))))))))))))))))) :: (None :: ((Some (Npos
    (XO (XO (XO (XO (XO (XO (XO (XO (XO (XO (XO (XO (XO (XO (XO (XO (XO (XO
    (XO (XO (XO (XO (XO (XO (XO (XO (XO (XO (XO (XO (XO (XO (XO (XO (XO (XO
    (XO (XO (XO (XO (XO (XO (XO (XO
    XH)))))))))))))))))))))))))))))))))))))))))))))) :: (None :: (None :: ((Some
    (Npos (XO (XO (XO (XO (XO (XO (XO (XO (XO (XO (XO (XO (XO (XO (XO (XO (XO
    (XO (XO (XO (XO (XO (XO (XO (XO (XO (XO (XO (XO (XO (XO (XO (XO (XO (XO
    (XO (XO (XO (XO (XO (XO (XO (XI (XO (XO (XO (XO (XO (XO
    XH))))))))))))))))))))))))))))))))))))))))))))))))))) :: (None :: (None :: ((Some
    (Npos (XO (XO (XO (XO (XO (XO (XO (XO (XO (XO (XO (XO (XO (XO (XO (XO (XO
    (XO (XO (XO (XO (XO (XO (XO (XO (XO (XO (XO (XO (XO (XO (XO (XO (XO (XO
    (XO (XO (XO (XO (XO (XO (XO (XO (XI (XO (XO (XO (XO (XO (XO (XO
    XH))))))))))))))))))))))))))))))))))))))))))))))))))))) :: (None :: (None :: ((Some
    (Npos (XO (XO (XO (XO (XO (XO (XO (XO (XO (XO (XO (XO (XO (XO (XO (XO (XO
    (XO (XO (XO (XO (XO (XO (XO (XO (XO (XO (XO (XO (XO (XO (XO (XO (XO (XO
    (XO (XO (XO (XO (XO (XO (XO (XO (XO (XI (XO (XO (XO (XO (XO (XO (XO (XO
    XH))))))))))))))))))))))))))))))))))))))))))))))))))))))) :: (None :: [])))))))))))))))))))))))))))))))))))))))))))))))))))))))))))))))) :: (((Some
    (Npos (XO (XO (XO (XO (XO (XO (XO (XO (XO (XI (XO (XO (XO (XO (XO (XO (XO
    (XO (XI (XO (XO (XO (XO (XO (XO (XO (XO
    XH))))))))))))))))))))))))))))) :: (None :: (None :: (None :: ((Some
    (Npos (XO (XO (XO (XO (XO (XO (XO (XO (XO (XO (XO (XO (XI (XO (XO (XO (XO
    (XO (XO (XO (XI (XO (XO (XO (XO (XO (XO (XO
    XH)))))))))))))))))))))))))))))) :: (None :: (None :: (None :: (None :: ((Some
    (Npos (XO (XO (XO (XO (XO (XO (XO (XO (XO (XO (XO (XO (XO (XO (XO (XO (XO
    (XO (XI (XO (XO (XO (XO (XO (XO (XO (XO
    XH))))))))))))))))))))))))))))) :: (None :: (None :: ((Some (Npos (XO (XO
    (XO (XO (XO (XO (XO (XO (XO (XO (XO (XO (XO (XO (XO (XO (XO (XO (XO (XO
    (XI (XO (XO (XO (XO (XO (XO (XO
    XH)))))))))))))))))))))))))))))) :: (None :: (None :: ((Some (Npos (XO
    (XO (XO (XO (XO (XO (XO (XO (XO (XO (XO (XO (XO (XO (XO (XO (XO (XO (XO
    (XO (XO (XO (XI (XO (XO (XO (XO (XO (XO
    XH))))))))))))))))))))))))))))))) :: (None :: (None :: ((Some (Npos (XO
    (XO (XO (XO (XO (XO (XO (XO (XO (XO (XO (XO (XO (XO (XO (XO (XO (XO (XO
    (XO (XO (XO (XO (XO (XO (XO (XO
    XH))))))))))))))))))))))))))))) :: (None :: ((Some (Npos (XO (XO (XO (XO
    (XO (XO (XO (XO (XO (XO (XO (XO (XO (XO (XO (XO (XO (XO (XO (XO (XO (XO
    (XO (XO (XO (XO (XO (XO
    XH)))))))))))))))))))))))))))))) :: (None :: ((Some (Npos (XO (XO (XO (XO
    (XO (XO (XO (XO (XO (XO (XO (XO (XO (XO (XO (XO (XO (XO (XO (XO (XO (XO
    (XO (XO (XO (XO (XO (XO (XO
    XH))))))))))))))))))))))))))))))) :: (None :: (None :: (None :: (None :: ((Some
    N0) :: ((Some N0) :: ((Some N0) :: (None :: (None :: ((Some (Npos (XO (XO
    (XO (XO (XO (XO (XO (XO (XO (XO (XO (XO (XO (XO (XO (XO (XO (XO (XO (XO
    (XO (XO (XO (XO (XO (XO (XO (XO (XO (XO (XO (XO (XO (XI (XI
    XH))))))))))))))))))))))))))))))))))))) :: ((Some (Npos (XO (XO (XO (XO
    (XO (XO (XO (XO (XO (XO (XO (XO (XO (XO (XO (XO (XO (XO (XO (XO (XO (XO
    (XO (XO (XO (XO (XO (XO (XO (XO (XO (XO (XO (XO (XI
    XH))))))))))))))))))))))))))))))))))))) :: ((Some (Npos (XO (XO (XO (XO
    (XO (XO (XO (XO (XO (XO (XO (XO (XO (XO (XO (XO (XO (XO (XO (XO (XO (XO
    (XO (XO (XO (XO (XO (XO (XO (XO (XO (XO (XO (XO (XO
    XH))))))))))))))))))))))))))))))))))))) :: ((Some N0) :: ((Some
    N0) :: ((Some N0) :: ((Some (Npos (XO (XO (XO (XO (XO (XO (XO (XO (XO (XO
    (XO (XO (XO (XO (XO (XO (XO (XO (XO (XO (XO (XO (XO (XO (XO (XO (XO (XO
    (XO (XO (XO (XO (XO (XO (XO (XO (XO
    XH))))))))))))))))))))))))))))))))))))))) :: ((Some (Npos (XO (XO (XO (XO
    (XO (XO (XO (XO (XO (XO (XO (XO (XO (XO (XO (XO (XO (XO (XO (XO (XO (XO
    (XO (XO (XO (XO (XO (XO (XO (XO (XO (XO (XO (XO (XO (XO (XO (XI
    XH)))))))))))))))))))))))))))))))))))))))) :: (None :: (None :: (None :: ((Some
    N0) :: ((Some N0) :: ((Some
    N0) :: (None :: (None :: (None :: (None :: ((Some (Npos (XO (XO (XO (XO
    (XO (XO (XO (XO (XO (XO (XO (XO (XO (XO (XO (XO (XO (XO (XO (XO (XO (XO
    (XO (XO (XO (XO (XO (XO (XO (XO (XO (XO (XO (XO (XO (XO (XO (XO (XO (XO
    (XO (XO (XO
    XH))))))))))))))))))))))))))))))))))))))))))))) :: (None :: ((Some (Npos
    (XO (XO (XO (XO (XO (XO (XO (XO (XO (XO (XO (XO (XO (XO (XO (XO (XO (XO
    (XO (XO (XO (XO (XO (XO (XO (XO (XO (XO (XO (XO (XO (XO (XO (XO (XO (XO
    (XO (XO (XO (XO (XO (XO (XO (XO
    XH)))))))))))))))))))))))))))))))))))))))))))))) :: (None :: ((Some (Npos
    (XO (XO (XO (XO (XO (XO (XO (XO (XO (XO (XO (XO (XO (XO (XO (XO (XO (XO
    (XO (XO (XO (XO (XO (XO (XO (XO (XO (XO (XO (XO (XO (XO (XO (XO (XO (XO
    (XO (XO (XO (XO (XO (XO (XO (XO (XO
    XH))))))))))))))))))))))))))))))))))))))))))))))) :: (None :: (None :: ((Some
    (Npos (XO (XO (XO (XO (XO (XO (XO (XO (XO (XO (XO (XO (XO (XO (XO (XO (XO
    (XO (XO (XO (XO (XO (XO (XO (XO (XO (XO (XO (XO (XO (XO (XO (XO (XO (XO
    (XO (XO (XO (XO (XO (XO (XO (XO (XI (XO (XO (XO (XO (XO (XO
    XH)))))))))))))))))))))))))))))))))))))))))))))))))))) :: (None :: (None :: ((Some
    (Npos (XO (XO (XO (XO (XO (XO (XO (XO (XO (XO (XO (XO (XO (XO (XO (XO (XO
    (XO (XO (XO (XO (XO (XO (XO (XO (XO (XO (XO (XO (XO (XO (XO (XO (XO (XO
    (XO (XO (XO (XO (XO (XO (XO (XO (XO (XI (XO (XO (XO (XO (XO (XO (XO
    XH)))))))))))))))))))))))))))))))))))))))))))))))))))))) :: (None :: (None :: ((Some
    (Npos (XO (XO (XO (XO (XO (XO (XO (XO (XO (XO (XO (XO (XO (XO (XO (XO (XO
    (XO (XO (XO (XO (XO (XO (XO (XO (XO (XO (XO (XO (XO (XO (XO (XO (XO (XO
    (XO (XO (XO (XO (XO (XO (XO (XO (XO (XO (XI (XO (XO (XO (XO (XO (XO (XO
    (XO
    XH)))))))))))))))))))))))))))))))))))))))))))))))))))))))) :: [])))))))))))))))))))))))))))))))))))))))))))))))))))))))))))))))) :: ((None :: ((Some
    (Npos (XO (XO (XO (XO (XO (XO (XO (XO (XO (XO (XI (XO (XO (XO (XO (XO (XO
    (XO (XO (XI (XO (XO (XO (XO (XO (XO (XO (XO
    XH)))))))))))))))))))))))))))))) :: (None :: (None :: (None :: ((Some
    (Npos (XO (XO (XO (XO (XO (XO (XO (XO (XO (XO (XO (XO (XO (XI (XO (XO (XO
    (XO (XO (XO (XO (XI (XO (XO (XO (XO (XO (XO (XO
    XH))))))))))))))))))))))))))))))) :: (None :: (None :: (None :: (None :: ((Some
    (Npos (XO (XO (XO (XO (XO (XO (XO (XO (XO (XO (XO (XO (XO (XO (XO (XO (XO
    (XO (XO (XI (XO (XO (XO (XO (XO (XO (XO (XO
    XH)))))))))))))))))))))))))))))) :: (None :: (None :: ((Some (Npos (XO
    (XO (XO (XO (XO (XO (XO (XO (XO (XO (XO (XO (XO (XO (XO (XO (XO (XO (XO
    (XO (XO (XI (XO (XO (XO (XO (XO (XO (XO
    XH))))))))))))))))))))))))))))))) :: (None :: (None :: (None :: (None :: (None :: ((Some
    (Npos (XO (XO (XO (XO (XO (XO (XO (XO (XO (XO (XO (XO (XO (XO (XO (XO (XO
    (XO (XO (XO (XO (XO (XO (XO (XO (XO (XO (XO
    XH)))))))))))))))))))))))))))))) :: (None :: ((Some (Npos (XO (XO (XO (XO
    (XO (XO (XO (XO (XO (XO (XO (XO (XO (XO (XO (XO (XO (XO (XO (XO (XO (XO
    (XO (XO (XO (XO (XO (XO (XO
    XH))))))))))))))))))))))))))))))) :: (None :: ((Some (Npos (XO (XO (XO
    (XO (XO (XO (XO (XO (XO (XO (XO (XO (XO (XO (XO (XO (XO (XO (XO (XO (XO
    (XO (XO (XO (XO (XO (XO (XO (XO (XO
    XH)))))))))))))))))))))))))))))))) :: (None :: (None :: (None :: (None :: ((Some
    N0) :: ((Some N0) :: ((Some N0) :: (None :: ((Some (Npos (XO (XO (XO (XO
    (XO (XO (XO (XO (XO (XO (XO (XO (XO (XO (XO (XO (XO (XO (XO (XO (XO (XO
    (XO (XO (XO (XO (XO (XO (XO (XO (XO (XO (XO (XI (XI (XI
    XH)))))))))))))))))))))))))))))))))))))) :: ((Some (Npos (XO (XO (XO (XO
    (XO (XO (XO (XO (XO (XO (XO (XO (XO (XO (XO (XO (XO (XO (XO (XO (XO (XO
    (XO (XO (XO (XO (XO (XO (XO (XO (XO (XO (XO (XO (XI (XI
    XH)))))))))))))))))))))))))))))))))))))) :: ((Some (Npos (XO (XO (XO (XO
    (XO (XO (XO (XO (XO (XO (XO (XO (XO (XO (XO (XO (XO (XO (XO (XO (XO (XO
    (XO (XO (XO (XO (XO (XO (XO (XO (XO (XO (XO (XO (XO (XI
    XH)))))))))))))))))))))))))))))))))))))) :: ((Some (Npos (XO (XO (XO (XO
    (XO (XO (XO (XO (XO (XO (XO (XO (XO (XO (XO (XO (XO (XO (XO (XO (XO (XO
    (XO (XO (XO (XO (XO (XO (XO (XO (XO (XO (XO (XO (XO (XO
    XH)))))))))))))))))))))))))))))))))))))) :: ((Some N0) :: ((Some
    N0) :: ((Some N0) :: ((Some (Npos (XO (XO (XO (XO (XO (XO (XO (XO (XO (XO
    (XO (XO (XO (XO (XO (XO (XO (XO (XO (XO (XO (XO (XO (XO (XO (XO (XO (XO
    (XO (XO (XO (XO (XO (XO (XO (XO (XO (XO
    XH)))))))))))))))))))))))))))))))))))))))) :: (None :: (None :: (None :: (None :: ((Some
    N0) :: ((Some N0) :: ((Some
    N0) :: (None :: (None :: (None :: (None :: ((Some (Npos (XO (XO (XO (XO
    (XO (XO (XO (XO (XO (XO (XO (XO (XO (XO (XO (XO (XO (XO (XO (XO (XO (XO
    (XO (XO (XO (XO (XO (XO (XO (XO (XO (XO (XO (XO (XO (XO (XO (XO (XO (XO
    (XO (XO (XO (XO
    XH)))))))))))))))))))))))))))))))))))))))))))))) :: (None :: ((Some (Npos
    (XO (XO (XO (XO (XO (XO (XO (XO (XO (XO (XO (XO (XO (XO (XO (XO (XO (XO
    (XO (XO (XO (XO (XO (XO (XO (XO (XO (XO (XO (XO (XO (XO (XO (XO (XO (XO
    (XO (XO (XO (XO (XO (XO (XO (XO (XO
    XH))))))))))))))))))))))))))))))))))))))))))))))) :: (None :: ((Some
    (Npos (XO (XO (XO (XO (XO (XO (XO (XO (XO (XO (XO (XO (XO (XO (XO (XO (XO
    (XO (XO (XO (XO (XO (XO (XO (XO (XO (XO (XO (XO (XO (XO (XO (XO (XO (XO
    (XO (XO (XO (XO (XO (XO (XO (XO (XO (XO (XO
    XH)))))))))))))))))))))))))))))))))))))))))))))))) :: (None :: (None :: ((Some
    (Npos (XO (XO (XO (XO (XO (XO (XO (XO (XO (XO (XO (XO (XO (XO (XO (XO (XO
    (XO (XO (XO (XO (XO (XO (XO (XO (XO (XO (XO (XO (XO (XO (XO (XO (XO (XO
    (XO (XO (XO (XO (XO (XO (XO (XO (XO (XI (XO (XO (XO (XO (XO (XO
    XH))))))))))))))))))))))))))))))))))))))))))))))))))))) :: (None :: (None :: ((Some
    (Npos (XO (XO (XO (XO (XO (XO (XO (XO (XO (XO (XO (XO (XO (XO (XO (XO (XO
    (XO (XO (XO (XO (XO (XO (XO (XO (XO (XO (XO (XO (XO (XO (XO (XO (XO (XO
    (XO (XO (XO (XO (XO (XO (XO (XO (XO (XO (XI (XO (XO (XO (XO (XO (XO (XO
    XH))))))))))))))))))))))))))))))))))))))))))))))))))))))) :: (None :: (None :: [])))))))))))))))))))))))))))))))))))))))))))))))))))))))))))))))) :: ((None :: (None :: ((Some
    (Npos (XO (XO (XO (XO (XO (XO (XO (XO (XO (XO (XO (XI (XO (XO (XO (XO (XO
    (XO (XO (XO (XI (XO (XO (XO (XO (XO (XO (XO (XO
    XH))))))))))))))))))))))))))))))) :: (None :: (None :: (None :: ((Some
    (Npos (XO (XO (XO (XO (XO (XO (XO (XO (XO (XO (XO (XO (XO (XO (XI (XO (XO
    (XO (XO (XO (XO (XO (XI (XO (XO (XO (XO (XO (XO (XO
    XH)))))))))))))))))))))))))))))))) :: (None :: (None :: (None :: (None :: ((Some
    (Npos (XO (XO (XO (XO (XO (XO (XO (XO (XO (XO (XO (XO (XO (XO (XO (XO (XO
    (XO (XO (XO (XI (XO (XO (XO (XO (XO (XO (XO (XO
    XH))))))))))))))))))))))))))))))) :: (None :: (None :: ((Some (Npos (XO
    (XO (XO (XO (XO (XO (XO (XO (XO (XO (XO (XO (XO (XO (XO (XO (XO (XO (XO
    (XO (XO (XO (XI (XO (XO (XO (XO (XO (XO (XO
    XH)))))))))))))))))))))))))))))))) :: (None :: (None :: (None :: (None :: (None :: ((Some
    (Npos (XO (XO (XO (XO (XO (XO (XO (XO (XO (XO (XO (XO (XO (XO (XO (XO (XO
    (XO (XO (XO (XO (XO (XO (XO (XO (XO (XO (XO (XO
    XH))))))))))))))))))))))))))))))) :: (None :: ((Some (Npos (XO (XO (XO
    (XO (XO (XO (XO (XO (XO (XO (XO (XO (XO (XO (XO (XO (XO (XO (XO (XO (XO
    (XO (XO (XO (XO (XO (XO (XO (XO (XO
    XH)))))))))))))))))))))))))))))))) :: (None :: (None :: (None :: (None :: (None :: (None :: ((Some
    N0) :: ((Some N0) :: ((Some N0) :: ((Some (Npos (XO (XO (XO (XO (XO (XO
    (XO (XO (XO (XO (XO (XO (XO (XO (XO (XO (XO (XO (XO (XO (XO (XO (XO (XO
    (XO (XO (XO (XO (XO (XO (XO (XO (XO (XI (XI (XI (XI
    XH))))))))))))))))))))))))))))))))))))))) :: ((Some (Npos (XO (XO (XO (XO
    (XO (XO (XO (XO (XO (XO (XO (XO (XO (XO (XO (XO (XO (XO (XO (XO (XO (XO
    (XO (XO (XO (XO (XO (XO (XO (XO (XO (XO (XO (XO (XI (XI (XI
    XH))))))))))))))))))))))))))))))))))))))) :: ((Some (Npos (XO (XO (XO (XO
    (XO (XO (XO (XO (XO (XO (XO (XO (XO (XO (XO (XO (XO (XO (XO (XO (XO (XO
    (XO (XO (XO (XO (XO (XO (XO (XO (XO (XO (XO (XO (XO (XI (XI
    XH))))))))))))))))))))))))))))))))))))))) :: ((Some (Npos (XO (XO (XO (XO
    (XO (XO (XO (XO (XO (XO (XO (XO (XO (XO (XO (XO (XO (XO (XO (XO (XO (XO
    (XO (XO (XO (XO (XO (XO (XO (XO (XO (XO (XO (XO (XO (XO (XI
    XH))))))))))))))))))))))))))))))))))))))) :: ((Some (Npos (XO (XO (XO (XO
    (XO (XO (XO (XO (XO (XO (XO (XO (XO (XO (XO (XO (XO (XO (XO (XO (XO (XO
    (XO (XO (XO (XO (XO (XO (XO (XO (XO (XO (XO (XO (XO (XO (XO
    XH))))))))))))))))))))))))))))))))))))))) :: ((Some N0) :: ((Some
    N0) :: ((Some N0) :: (None :: (None :: (None :: (None :: (None :: ((Some
    N0) :: ((Some N0) :: ((Some
    N0) :: (None :: (None :: (None :: (None :: ((Some (Npos (XO (XO (XO (XO
    (XO (XO (XO (XO (XO (XO (XO (XO (XO (XO (XO (XO (XO (XO (XO (XO (XO (XO
    (XO (XO (XO (XO (XO (XO (XO (XO (XO (XO (XO (XO (XO (XO (XO (XO (XO (XO
    (XO (XO (XO (XO (XO
    XH))))))))))))))))))))))))))))))))))))))))))))))) :: (None :: ((Some
    (Npos (XO (XO (XO (XO (XO (XO (XO (XO (XO (XO (XO (XO (XO (XO (XO (XO (XO
    (XO (XO (XO (XO (XO (XO (XO (XO (XO (XO (XO (XO (XO (XO (XO (XO (XO (XO
    (XO (XO (XO (XO (XO (XO (XO (XO (XO (XO (XO
    XH)))))))))))))))))))))))))))))))))))))))))))))))) :: (None :: (None :: (None :: (None :: ((Some
    (Npos (XO (XO (XO (XO (XO (XO (XO (XO (XO (XO (XO (XO (XO (XO (XO (XO (XO
    (XO (XO (XO (XO (XO (XO (XO (XO (XO (XO (XO (XO (XO (XO (XO (XO (XO (XO
    (XO (XO (XO (XO (XO (XO (XO (XO (XO (XO (XI (XO (XO (XO (XO (XO (XO
    XH)))))))))))))))))))))))))))))))))))))))))))))))))))))) :: (None :: (None :: ((Some
    (Npos (XO (XO (XO (XO (XO (XO (XO (XO (XO (XO (XO (XO (XO (XO (XO (XO (XO
    (XO (XO (XO (XO (XO (XO (XO (XO (XO (XO (XO (XO (XO (XO (XO (XO (XO (XO
    (XO (XO (XO (XO (XO (XO (XO (XO (XO (XO (XO (XI (XO (XO (XO (XO (XO (XO
    (XO
    XH)))))))))))))))))))))))))))))))))))))))))))))))))))))))) :: (None :: [])))))))))))))))))))))))))))))))))))))))))))))))))))))))))))))))) :: ((None :: (None :: (None :: ((Some
    (Npos (XO (XO (XO (XO (XO (XO (XO (XO (XO (XO (XO (XO (XI (XO (XO (XO (XO
    (XO (XO (XO (XO (XI (XO (XO (XO (XO (XO (XO (XO (XO
    XH)))))))))))))))))))))))))))))))) :: (None :: (None :: (None :: ((Some
    (Npos (XO (XO (XO (XO (XO (XO (XO (XO (XO (XO (XO (XO (XO (XO (XO (XI (XO
    (XO (XO (XO (XO (XO (XO (XI (XO (XO (XO (XO (XO (XO (XO
    XH))))))))))))))))))))))))))))))))) :: (None :: (None :: (None :: (None :: ((Some
    (Npos (XO (XO (XO (XO (XO (XO (XO (XO (XO (XO (XO (XO (XO (XO (XO (XO (XO
    (XO (XO (XO (XO (XI (XO (XO (XO (XO (XO (XO (XO (XO
    XH)))))))))))))))))))))))))))))))) :: (None :: (None :: ((Some (Npos (XO
    (XO (XO (XO (XO (XO (XO (XO (XO (XO (XO (XO (XO (XO (XO (XO (XO (XO (XO
    (XO (XO (XO (XO (XI (XO (XO (XO (XO (XO (XO (XO
    XH))))))))))))))))))))))))))))))))) :: (None :: (None :: (None :: (None :: (None :: ((Some
    (Npos (XO (XO (XO (XO (XO (XO (XO (XO (XO (XO (XO (XO (XO (XO (XO (XO (XO
    (XO (XO (XO (XO (XO (XO (XO (XO (XO (XO (XO (XO (XO
    XH)))))))))))))))))))))))))))))))) :: (None :: ((Some (Npos (XO (XO (XO
    (XO (XO (XO (XO (XO (XO (XO (XO (XO (XO (XO (XO (XO (XO (XO (XO (XO (XO
    (XO (XO (XO (XO (XO (XO (XO (XO (XO (XO
    XH))))))))))))))))))))))))))))))))) :: (None :: (None :: (None :: (None :: (None :: (None :: ((Some
    N0) :: ((Some N0) :: ((Some (Npos (XO (XO (XO (XO (XO (XO (XO (XO (XO (XO
    (XO (XO (XO (XO (XO (XO (XO (XO (XO (XO (XO (XO (XO (XO (XO (XO (XO (XO
    (XO (XO (XO (XO (XO (XI (XI (XI (XI (XI
    XH)))))))))))))))))))))))))))))))))))))))) :: ((Some (Npos (XO (XO (XO
    (XO (XO (XO (XO (XO (XO (XO (XO (XO (XO (XO (XO (XO (XO (XO (XO (XO (XO
    (XO (XO (XO (XO (XO (XO (XO (XO (XO (XO (XO (XO (XO (XI (XI (XI (XI
    XH)))))))))))))))))))))))))))))))))))))))) :: ((Some (Npos (XO (XO (XO
    (XO (XO (XO (XO (XO (XO (XO (XO (XO (XO (XO (XO (XO (XO (XO (XO (XO (XO
    (XO (XO (XO (XO (XO (XO (XO (XO (XO (XO (XO (XO (XO (XO (XI (XI (XI
    XH)))))))))))))))))))))))))))))))))))))))) :: ((Some (Npos (XO (XO (XO
    (XO (XO (XO (XO (XO (XO (XO (XO (XO (XO (XO (XO (XO (XO (XO (XO (XO (XO
    (XO (XO (XO (XO (XO (XO (XO (XO (XO (XO (XO (XO (XO (XO (XO (XI (XI
    XH)))))))))))))))))))))))))))))))))))))))) :: ((Some (Npos (XO (XO (XO
    (XO (XO (XO (XO (XO (XO (XO (XO (XO (XO (XO (XO (XO (XO (XO (XO (XO (XO
    (XO (XO (XO (XO (XO (XO (XO (XO (XO (XO (XO (XO (XO (XO (XO (XO (XI
    XH)))))))))))))))))))))))))))))))))))))))) :: ((Some (Npos (XO (XO (XO
    (XO (XO (XO (XO (XO (XO (XO (XO (XO (XO (XO (XO (XO (XO (XO (XO (XO (XO
    (XO (XO (XO (XO (XO (XO (XO (XO (XO (XO (XO (XO (XO (XO (XO (XO (XO
    XH)))))))))))))))))))))))))))))))))))))))) :: ((Some N0) :: ((Some
    N0) :: (None :: (None :: (None :: (None :: (None :: (None :: ((Some
    N0) :: ((Some N0) :: (None :: (None :: (None :: (None :: (None :: ((Some
    (Npos (XO (XO (XO (XO (XO (XO (XO (XO (XO (XO (XO (XO (XO (XO (XO (XO (XO
    (XO (XO (XO (XO (XO (XO (XO (XO (XO (XO (XO (XO (XO (XO (XO (XO (XO (XO
    (XO (XO (XO (XO (XO (XO (XO (XO (XO (XO (XO
    XH)))))))))))))))))))))))))))))))))))))))))))))))) :: (None :: ((Some
    (Npos (XO (XO (XO (XO (XO (XO (XO (XO (XO (XO (XO (XO (XO (XO (XO (XO (XO
    (XO (XO (XO (XO (XO (XO (XO (XO (XO (XO (XO (XO (XO (XO (XO (XO (XO (XO
    (XO (XO (XO (XO (XO (XO (XO (XO (XO (XO (XO (XO
    XH))))))))))))))))))))))))))))))))))))))))))))))))) :: (None :: (None :: (None :: (None :: ((Some
    (Npos (XO (XO (XO (XO (XO (XO (XO (XO (XO (XO (XO (XO (XO (XO (XO (XO (XO
    (XO (XO (XO (XO (XO (XO (XO (XO (XO (XO (XO (XO (XO (XO (XO (XO (XO (XO
    (XO (XO (XO (XO (XO (XO (XO (XO (XO (XO (XO (XI (XO (XO (XO (XO (XO (XO
    XH))))))))))))))))))))))))))))))))))))))))))))))))))))))) :: (None :: (None :: ((Some
    (Npos (XO (XO (XO (XO (XO (XO (XO (XO (XO (XO (XO (XO (XO (XO (XO (XO (XO
    (XO (XO (XO (XO (XO (XO (XO (XO (XO (XO (XO (XO (XO (XO (XO (XO (XO (XO
    (XO (XO (XO (XO (XO (XO (XO (XO (XO (XO (XO (XO (XI (XO (XO (XO (XO (XO
    (XO (XO
    XH))))))))))))))))))))))))))))))))))))))))))))))))))))))))) :: [])))))))))))))))))))))))))))))))))))))))))))))))))))))))))))))))) :: (((Some
    (Npos (XO (XO (XO (XO (XO (XO (XO (XO (XI (XO (XO (XO (XO (XO (XO (XO (XI
    (XO (XO (XO (XO (XO (XO (XO (XI (XO (XO (XO (XO (XO (XO (XO
    XH)))))))))))))))))))))))))))))))))) :: (None :: (None :: (None :: (None :: ((Some
    (Npos (XO (XO (XO (XO (XO (XO (XO (XO (XO (XO (XO (XO (XI (XO (XO (XO (XO
    (XO (XO (XI (XO (XO (XO (XO (XO (XO (XI (XO (XO (XO (XO (XO (XO
    XH))))))))))))))))))))))))))))))))))) :: (None :: (None :: ((Some (Npos
    (XO (XO (XO (XO (XO (XO (XO (XO (XO (XO (XO (XO (XO (XO (XO (XO (XI (XO
    (XO (XO (XO (XO (XO (XO (XI (XO (XO (XO (XO (XO (XO (XO
    XH)))))))))))))))))))))))))))))))))) :: (None :: (None :: (None :: ((Some
    (Npos (XO (XO (XO (XO (XO (XO (XO (XO (XO (XO (XO (XO (XO (XO (XO (XO (XO
    (XO (XO (XI (XO (XO (XO (XO (XO (XO (XI (XO (XO (XO (XO (XO (XO
    XH))))))))))))))))))))))))))))))))))) :: (None :: (None :: (None :: ((Some
    (Npos (XO (XO (XO (XO (XO (XO (XO (XO (XO (XO (XO (XO (XO (XO (XO (XO (XO
    (XO (XO (XO (XO (XO (XO (XO (XI (XO (XO (XO (XO (XO (XO (XO
    XH)))))))))))))))))))))))))))))))))) :: (None :: (None :: ((Some (Npos
    (XO (XO (XO (XO (XO (XO (XO (XO (XO (XO (XO (XO (XO (XO (XO (XO (XO (XO
    (XO (XO (XO (XO (XO (XO (XO (XO (XI (XO (XO (XO (XO (XO (XO
    XH))))))))))))))))))))))))))))))))))) :: (None :: (None :: (None :: (None :: ((Some
    (Npos (XO (XO (XO (XO (XO (XO (XO (XO (XO (XO (XO (XO (XO (XO (XO (XO (XO
    (XO (XO (XO (XO (XO (XO (XO (XO (XO (XO (XO (XO (XO (XO (XO
    XH)))))))))))))))))))))))))))))))))) :: (None :: ((Some (Npos (XO (XO (XO
    (XO (XO (XO (XO (XO (XO (XO (XO (XO (XO (XO (XO (XO (XO (XO (XO (XO (XO
    (XO (XO (XO (XO (XO (XO (XO (XO (XO (XO (XO (XO
    XH))))))))))))))))))))))))))))))))))) :: (None :: (None :: (None :: (None :: (None :: ((Some
    N0) :: ((Some
    N0) :: (None :: (None :: (None :: (None :: (None :: (None :: ((Some
    N0) :: ((Some N0) :: ((Some (Npos (XO (XO (XO (XO (XO (XO (XO (XO (XO (XO
    (XO (XO (XO (XO (XO (XO (XO (XO (XO (XO (XO (XO (XO (XO (XO (XO (XO (XO
    (XO (XO (XO (XO (XO (XO (XO (XO (XO (XO (XO (XO (XO
    XH))))))))))))))))))))))))))))))))))))))))))) :: ((Some (Npos (XO (XO (XO
    (XO (XO (XO (XO (XO (XO (XO (XO (XO (XO (XO (XO (XO (XO (XO (XO (XO (XO
    (XO (XO (XO (XO (XO (XO (XO (XO (XO (XO (XO (XO (XO (XO (XO (XO (XO (XO
    (XO (XO (XI XH)))))))))))))))))))))))))))))))))))))))))))) :: ((Some
    (Npos (XO (XO (XO (XO (XO (XO (XO (XO (XO (XO (XO (XO (XO (XO (XO (XO (XO
    (XO (XO (XO (XO (XO (XO (XO (XO (XO (XO (XO (XO (XO (XO (XO (XO (XO (XO
    (XO (XO (XO (XO (XO (XO (XI (XI
    XH))))))))))))))))))))))))))))))))))))))))))))) :: ((Some (Npos (XO (XO
    (XO (XO (XO (XO (XO (XO (XO (XO (XO (XO (XO (XO (XO (XO (XO (XO (XO (XO
    (XO (XO (XO (XO (XO (XO (XO (XO (XO (XO (XO (XO (XO (XO (XO (XO (XO (XO
    (XO (XO (XO (XI (XI (XI
    XH)))))))))))))))))))))))))))))))))))))))))))))) :: ((Some (Npos (XO (XO
    (XO (XO (XO (XO (XO (XO (XO (XO (XO (XO (XO (XO (XO (XO (XO (XO (XO (XO
    (XO (XO (XO (XO (XO (XO (XO (XO (XO (XO (XO (XO (XO (XO (XO (XO (XO (XO
    (XO (XO (XO (XI (XI (XI (XI
    XH))))))))))))))))))))))))))))))))))))))))))))))) :: ((Some (Npos (XO (XO
    (XO (XO (XO (XO (XO (XO (XO (XO (XO (XO (XO (XO (XO (XO (XO (XO (XO (XO
    (XO (XO (XO (XO (XO (XO (XO (XO (XO (XO (XO (XO (XO (XO (XO (XO (XO (XO
    (XO (XO (XO (XI (XI (XI (XI (XI
    XH)))))))))))))))))))))))))))))))))))))))))))))))) :: ((Some
    N0) :: ((Some
    N0) :: (None :: (None :: (None :: (None :: (None :: (None :: ((Some (Npos
    (XO (XO (XO (XO (XO (XO (XO (XO (XO (XO (XO (XO (XO (XO (XO (XO (XO (XO
    (XO (XO (XO (XO (XO (XO (XO (XO (XO (XO (XO (XO (XO (XO (XO (XO (XO (XO
    (XO (XO (XO (XO (XO (XO (XO (XO (XO (XO (XO (XO
    XH)))))))))))))))))))))))))))))))))))))))))))))))))) :: (None :: ((Some
    (Npos (XO (XO (XO (XO (XO (XO (XO (XO (XO (XO (XO (XO (XO (XO (XO (XO (XO
    (XO (XO (XO (XO (XO (XO (XO (XO (XO (XO (XO (XO (XO (XO (XO (XO (XO (XO
    (XO (XO (XO (XO (XO (XO (XO (XO (XO (XO (XO (XO (XO (XO
    XH))))))))))))))))))))))))))))))))))))))))))))))))))) :: (None :: (None :: (None :: (None :: (None :: [])))))))))))))))))))))))))))))))))))))))))))))))))))))))))))))))) :: ((None :: ((Some
    (Npos (XO (XO (XO (XO (XO (XO (XO (XO (XO (XI (XO (XO (XO (XO (XO (XO (XO
    (XI (XO (XO (XO (XO (XO (XO (XO (XI (XO (XO (XO (XO (XO (XO (XO
    XH))))))))))))))))))))))))))))))))))) :: (None :: (None :: (None :: (None :: ((Some
    (Npos (XO (XO (XO (XO (XO (XO (XO (XO (XO (XO (XO (XO (XO (XI (XO (XO (XO
    (XO (XO (XO (XI (XO (XO (XO (XO (XO (XO (XI (XO (XO (XO (XO (XO (XO
    XH)))))))))))))))))))))))))))))))))))) :: (None :: (None :: ((Some (Npos
    (XO (XO (XO (XO (XO (XO (XO (XO (XO (XO (XO (XO (XO (XO (XO (XO (XO (XI
    (XO (XO (XO (XO (XO (XO (XO (XI (XO (XO (XO (XO (XO (XO (XO
    XH))))))))))))))))))))))))))))))))))) :: (None :: (None :: (None :: ((Some
    (Npos (XO (XO (XO (XO (XO (XO (XO (XO (XO (XO (XO (XO (XO (XO (XO (XO (XO
    (XO (XO (XO (XI (XO (XO (XO (XO (XO (XO (XI (XO (XO (XO (XO (XO (XO
    XH)))))))))))))))))))))))))))))))))))) :: (None :: (None :: (None :: ((Some
    (Npos (XO (XO (XO (XO (XO (XO (XO (XO (XO (XO (XO (XO (XO (XO (XO (XO (XO
    (XO (XO (XO (XO (XO (XO (XO (XO (XI (XO (XO (XO (XO (XO (XO (XO
    XH))))))))))))))))))))))))))))))))))) :: (None :: (None :: ((Some (Npos
    (XO (XO (XO (XO (XO (XO (XO (XO (XO (XO (XO (XO (XO (XO (XO (XO (XO (XO
    (XO (XO (XO (XO (XO (XO (XO (XO (XO (XI (XO (XO (XO (XO (XO (XO
    XH)))))))))))))))))))))))))))))))))))) :: (None :: (None :: (None :: (None :: ((Some
    (Npos (XO (XO (XO (XO (XO (XO (XO (XO (XO (XO (XO (XO (XO (XO (XO (XO (XO
    (XO (XO (XO (XO (XO (XO (XO (XO (XO (XO (XO (XO (XO (XO (XO (XO
    XH))))))))))))))))))))))))))))))))))) :: (None :: ((Some (Npos (XO (XO
    (XO (XO (XO (XO (XO (XO (XO (XO (XO (XO (XO (XO (XO (XO (XO (XO (XO (XO
    (XO (XO (XO (XO (XO (XO (XO (XO (XO (XO (XO (XO (XO (XO
    XH)))))))))))))))))))))))))))))))))))) :: (None :: (None :: (None :: (None :: ((Some
    N0) :: ((Some N0) :: ((Some
    N0) :: (None :: (None :: (None :: (None :: (None :: ((Some N0) :: ((Some
    N0) :: ((Some N0) :: ((Some (Npos (XO (XO (XO (XO (XO (XO (XO (XO (XO (XO
    (XO (XO (XO (XO (XO (XO (XO (XO (XO (XO (XO (XO (XO (XO (XO (XO (XO (XO
    (XO (XO (XO (XO (XO (XO (XO (XO (XO (XO (XO (XO (XO (XO
    XH)))))))))))))))))))))))))))))))))))))))))))) :: ((Some (Npos (XO (XO
    (XO (XO (XO (XO (XO (XO (XO (XO (XO (XO (XO (XO (XO (XO (XO (XO (XO (XO
    (XO (XO (XO (XO (XO (XO (XO (XO (XO (XO (XO (XO (XO (XO (XO (XO (XO (XO
    (XO (XO (XO (XO (XI
    XH))))))))))))))))))))))))))))))))))))))))))))) :: ((Some (Npos (XO (XO
    (XO (XO (XO (XO (XO (XO (XO (XO (XO (XO (XO (XO (XO (XO (XO (XO (XO (XO
    (XO (XO (XO (XO (XO (XO (XO (XO (XO (XO (XO (XO (XO (XO (XO (XO (XO (XO
    (XO (XO (XO (XO (XI (XI
    XH)))))))))))))))))))))))))))))))))))))))))))))) :: ((Some (Npos (XO (XO
    (XO (XO (XO (XO (XO (XO (XO (XO (XO (XO (XO (XO (XO (XO (XO (XO (XO (XO
    (XO (XO (XO (XO (XO (XO (XO (XO (XO (XO (XO (XO (XO (XO (XO (XO (XO (XO
    (XO (XO (XO (XO (XI (XI (XI
    XH))))))))))))))))))))))))))))))))))))))))))))))) :: ((Some (Npos (XO (XO
    (XO (XO (XO (XO (XO (XO (XO (XO (XO (XO (XO (XO (XO (XO (XO (XO (XO (XO
    (XO (XO (XO (XO (XO (XO (XO (XO (XO (XO (XO (XO (XO (XO (XO (XO (XO (XO
    (XO (XO (XO (XO (XI (XI (XI (XI
    XH)))))))))))))))))))))))))))))))))))))))))))))))) :: ((Some
    N0) :: ((Some N0) :: ((Some
    N0) :: (None :: (None :: (None :: (None :: (None :: (None :: ((Some (Npos
    (XO (XO (XO (XO (XO (XO (XO (XO (XO (XO (XO (XO (XO (XO (XO (XO (XO (XO
    (XO (XO (XO (XO (XO (XO (XO (XO (XO (XO (XO (XO (XO (XO (XO (XO (XO (XO
    (XO (XO (XO (XO (XO (XO (XO (XO (XO (XO (XO (XO (XO
    XH))))))))))))))))))))))))))))))))))))))))))))))))))) :: (None :: ((Some
    (Npos (XO (XO (XO (XO (XO (XO (XO (XO (XO (XO (XO (XO (XO (XO (XO (XO (XO
    (XO (XO (XO (XO (XO (XO (XO (XO (XO (XO (XO (XO (XO (XO (XO (XO (XO (XO
    (XO (XO (XO (XO (XO (XO (XO (XO (XO (XO (XO (XO (XO (XO (XO
    XH)))))))))))))))))))))))))))))))))))))))))))))))))))) :: (None :: (None :: (None :: (None :: [])))))))))))))))))))))))))))))))))))))))))))))))))))))))))))))))) :: ((None :: (None :: ((Some
    (Npos (XO (XO (XO (XO (XO (XO (XO (XO (XO (XO (XI (XO (XO (XO (XO (XO (XO
    (XO (XI (XO (XO (XO (XO (XO (XO (XO (XI (XO (XO (XO (XO (XO (XO (XO
    XH)))))))))))))))))))))))))))))))))))) :: (None :: (None :: (None :: (None :: ((Some
    (Npos (XO (XO (XO (XO (XO (XO (XO (XO (XO (XO (XO (XO (XO (XO (XI (XO (XO
    (XO (XO (XO (XO (XI (XO (XO (XO (XO (XO (XO (XI (XO (XO (XO (XO (XO (XO
    XH))))))))))))))))))))))))))))))))))))) :: (None :: (None :: ((Some (Npos
    (XO (XO (XO (XO (XO (XO (XO (XO (XO (XO (XO (XO (XO (XO (XO (XO (XO (XO
    (XI (XO (XO (XO (XO (XO (XO (XO (XI (XO (XO (XO (XO (XO (XO (XO
    XH)))))))))))))))))))))))))))))))))))) :: (None :: (None :: (None :: ((Some
    (Npos (XO (XO (XO (XO (XO (XO (XO (XO (XO (XO (XO (XO (XO (XO (XO (XO (XO
    (XO (XO (XO (XO (XI (XO (XO (XO (XO (XO (XO (XI (XO (XO (XO (XO (XO (XO
    XH))))))))))))))))))))))))))))))))))))) :: (None :: (None :: (None :: ((Some
    (Npos (XO (XO (XO (XO (XO (XO (XO (XO (XO (XO (XO (XO (XO (XO (XO (XO (XO
    (XO (XO (XO (XO (XO (XO (XO (XO (XO (XI (XO (XO (XO (XO (XO (XO (XO
    XH)))))))))))))))))))))))))))))))))))) :: (None :: (None :: ((Some (Npos
    (XO (XO (XO (XO (XO (XO (XO (XO (XO (XO (XO (XO (XO (XO (XO (XO (XO (XO
    (XO (XO (XO (XO (XO (XO (XO (XO (XO (XO (XI (XO (XO (XO (XO (XO (XO
    XH))))))))))))))))))))))))))))))))))))) :: (None :: (None :: ((Some (Npos
    (XO (XO (XO (XO (XO (XO (XO (XO (XO (XO (XO (XO (XO (XO (XO (XO (XO (XO
    (XO (XO (XO (XO (XO (XO (XO (XO (XO (XO (XO (XO (XO (XO (XO
    XH))))))))))))))))))))))))))))))))))) :: (None :: ((Some (Npos (XO (XO
    (XO (XO (XO (XO (XO (XO (XO (XO (XO (XO (XO (XO (XO (XO (XO (XO (XO (XO
    (XO (XO (XO (XO (XO (XO (XO (XO (XO (XO (XO (XO (XO (XO
    XH)))))))))))))))))))))))))))))))))))) :: (None :: ((Some (Npos (XO (XO
    (XO (XO (XO (XO (XO (XO (XO (XO (XO (XO (XO (XO (XO (XO (XO (XO (XO (XO
    (XO (XO (XO (XO (XO (XO (XO (XO (XO (XO (XO (XO (XO (XO (XO
    XH))))))))))))))))))))))))))))))))))))) :: (None :: (None :: (None :: (None :: ((Some
    N0) :: ((Some N0) :: ((Some
    N0) :: (None :: (None :: (None :: (None :: ((Some (Npos (XO (XO (XO (XO
    (XO (XO (XO (XO (XO (XO (XO (XO (XO (XO (XO (XO (XO (XO (XO (XO (XO (XO
    (XO (XO (XO (XO (XO (XO (XO (XO (XO (XO (XO (XO (XO (XO (XO (XO (XO (XO
    (XO XH))))))))))))))))))))))))))))))))))))))))))) :: ((Some N0) :: ((Some
    N0) :: ((Some N0) :: ((Some (Npos (XO (XO (XO (XO (XO (XO (XO (XO (XO (XO
    (XO (XO (XO (XO (XO (XO (XO (XO (XO (XO (XO (XO (XO (XO (XO (XO (XO (XO
    (XO (XO (XO (XO (XO (XO (XO (XO (XO (XO (XO (XO (XO (XO (XO
    XH))))))))))))))))))))))))))))))))))))))))))))) :: ((Some (Npos (XO (XO
    (XO (XO (XO (XO (XO (XO (XO (XO (XO (XO (XO (XO (XO (XO (XO (XO (XO (XO
    (XO (XO (XO (XO (XO (XO (XO (XO (XO (XO (XO (XO (XO (XO (XO (XO (XO (XO
    (XO (XO (XO (XO (XO (XI
    XH)))))))))))))))))))))))))))))))))))))))))))))) :: ((Some (Npos (XO (XO
    (XO (XO (XO (XO (XO (XO (XO (XO (XO (XO (XO (XO (XO (XO (XO (XO (XO (XO
    (XO (XO (XO (XO (XO (XO (XO (XO (XO (XO (XO (XO (XO (XO (XO (XO (XO (XO
    (XO (XO (XO (XO (XO (XI (XI
    XH))))))))))))))))))))))))))))))))))))))))))))))) :: ((Some (Npos (XO (XO
    (XO (XO (XO (XO (XO (XO (XO (XO (XO (XO (XO (XO (XO (XO (XO (XO (XO (XO
    (XO (XO (XO (XO (XO (XO (XO (XO (XO (XO (XO (XO (XO (XO (XO (XO (XO (XO
    (XO (XO (XO (XO (XO (XI (XI (XI
    XH)))))))))))))))))))))))))))))))))))))))))))))))) :: (None :: ((Some
    N0) :: ((Some N0) :: ((Some
    N0) :: (None :: (None :: (None :: (None :: ((Some (Npos (XO (XO (XO (XO
    (XO (XO (XO (XO (XO (XO (XO (XO (XO (XO (XO (XO (XO (XO (XO (XO (XO (XO
    (XO (XO (XO (XO (XO (XO (XO (XO (XO (XO (XO (XO (XO (XO (XO (XO (XO (XO
    (XO (XO (XO (XO (XO (XO (XO (XO (XO
    XH))))))))))))))))))))))))))))))))))))))))))))))))))) :: (None :: ((Some
    (Npos (XO (XO (XO (XO (XO (XO (XO (XO (XO (XO (XO (XO (XO (XO (XO (XO (XO
    (XO (XO (XO (XO (XO (XO (XO (XO (XO (XO (XO (XO (XO (XO (XO (XO (XO (XO
    (XO (XO (XO (XO (XO (XO (XO (XO (XO (XO (XO (XO (XO (XO (XO
    XH)))))))))))))))))))))))))))))))))))))))))))))))))))) :: (None :: ((Some
    (Npos (XO (XO (XO (XO (XO (XO (XO (XO (XO (XO (XO (XO (XO (XO (XO (XO (XO
    (XO (XO (XO (XO (XO (XO (XO (XO (XO (XO (XO (XO (XO (XO (XO (XO (XO (XO
    (XO (XO (XO (XO (XO (XO (XO (XO (XO (XO (XO (XO (XO (XO (XO (XO
    XH))))))))))))))))))))))))))))))))))))))))))))))))))))) :: (None :: (None :: (None :: [])))))))))))))))))))))))))))))))))))))))))))))))))))))))))))))))) :: ((None :: (None :: (None :: ((Some
    (Npos (XO (XO (XO (XO (XO (XO (XO (XO (XO (XO (XO (XI (XO (XO (XO (XO (XO
    (XO (XO (XI (XO (XO (XO (XO (XO (XO (XO (XI (XO (XO (XO (XO (XO (XO (XO
    XH))))))))))))))))))))))))))))))))))))) :: (None :: (None :: (None :: (None :: (None :: (None :: (None :: ((Some
    (Npos (XO (XO (XO (XO (XO (XO (XO (XO (XO (XO (XO (XO (XO (XO (XO (XO (XO
    (XO (XO (XI (XO (XO (XO (XO (XO (XO (XO (XI (XO (XO (XO (XO (XO (XO (XO
    XH))))))))))))))))))))))))))))))))))))) :: (None :: (None :: (None :: ((Some
    (Npos (XO (XO (XO (XO (XO (XO (XO (XO (XO (XO (XO (XO (XO (XO (XO (XO (XO
    (XO (XO (XO (XO (XO (XI (XO (XO (XO (XO (XO (XO (XI (XO (XO (XO (XO (XO
    (XO XH)))))))))))))))))))))))))))))))))))))) :: ((Some (Npos (XO (XO (XO
    (XO (XO (XO (XO (XO (XO (XO (XO (XO (XO (XO (XO (XO (XO (XO (XO (XO (XO
    (XO (XO (XO (XO (XI (XO (XO (XO (XO (XO (XO (XO (XO
    XH)))))))))))))))))))))))))))))))))))) :: (None :: (None :: ((Some (Npos
    (XO (XO (XO (XO (XO (XO (XO (XO (XO (XO (XO (XO (XO (XO (XO (XO (XO (XO
    (XO (XO (XO (XO (XO (XO (XO (XO (XO (XI (XO (XO (XO (XO (XO (XO (XO
    XH))))))))))))))))))))))))))))))))))))) :: (None :: (None :: ((Some (Npos
    (XO (XO (XO (XO (XO (XO (XO (XO (XO (XO (XO (XO (XO (XO (XO (XO (XO (XO
    (XO (XO (XO (XO (XO (XO (XO (XO (XO (XO (XO (XI (XO (XO (XO (XO (XO (XO
    XH)))))))))))))))))))))))))))))))))))))) :: (None :: (None :: ((Some
    (Npos (XO (XO (XO (XO (XO (XO (XO (XO (XO (XO (XO (XO (XO (XO (XO (XO (XO
    (XO (XO (XO (XO (XO (XO (XO (XO (XO (XO (XO (XO (XO (XO (XO (XO (XO
    XH)))))))))))))))))))))))))))))))))))) :: (None :: ((Some (Npos (XO (XO
    (XO (XO (XO (XO (XO (XO (XO (XO (XO (XO (XO (XO (XO (XO (XO (XO (XO (XO
    (XO (XO (XO (XO (XO (XO (XO (XO (XO (XO (XO (XO (XO (XO (XO
    XH))))))))))))))))))))))))))))))))))))) :: (None :: ((Some (Npos (XO (XO
    (XO (XO (XO (XO (XO (XO (XO (XO (XO (XO (XO (XO (XO (XO (XO (XO (XO (XO
    (XO (XO (XO (XO (XO (XO (XO (XO (XO (XO (XO (XO (XO (XO (XO (XO
    XH)))))))))))))))))))))))))))))))))))))) :: (None :: (None :: (None :: (None :: ((Some
    N0) :: ((Some N0) :: ((Some N0) :: (None :: (None :: (None :: ((Some
    (Npos (XO (XO (XO (XO (XO (XO (XO (XO (XO (XO (XO (XO (XO (XO (XO (XO (XO
    (XO (XO (XO (XO (XO (XO (XO (XO (XO (XO (XO (XO (XO (XO (XO (XO (XO (XO
    (XO (XO (XO (XO (XO (XO (XI
    XH)))))))))))))))))))))))))))))))))))))))))))) :: ((Some (Npos (XO (XO
    (XO (XO (XO (XO (XO (XO (XO (XO (XO (XO (XO (XO (XO (XO (XO (XO (XO (XO
    (XO (XO (XO (XO (XO (XO (XO (XO (XO (XO (XO (XO (XO (XO (XO (XO (XO (XO
    (XO (XO (XO (XO XH)))))))))))))))))))))))))))))))))))))))))))) :: ((Some
    N0) :: ((Some N0) :: ((Some N0) :: ((Some (Npos (XO (XO (XO (XO (XO (XO
    (XO (XO (XO (XO (XO (XO (XO (XO (XO (XO (XO (XO (XO (XO (XO (XO (XO (XO
    (XO (XO (XO (XO (XO (XO (XO (XO (XO (XO (XO (XO (XO (XO (XO (XO (XO (XO
    (XO (XO XH)))))))))))))))))))))))))))))))))))))))))))))) :: ((Some (Npos
    (XO (XO (XO (XO (XO (XO (XO (XO (XO (XO (XO (XO (XO (XO (XO (XO (XO (XO
    (XO (XO (XO (XO (XO (XO (XO (XO (XO (XO (XO (XO (XO (XO (XO (XO (XO (XO
    (XO (XO (XO (XO (XO (XO (XO (XO (XI
    XH))))))))))))))))))))))))))))))))))))))))))))))) :: ((Some (Npos (XO (XO
    (XO (XO (XO (XO (XO (XO (XO (XO (XO (XO (XO (XO (XO (XO (XO (XO (XO (XO
    (XO (XO (XO (XO (XO (XO (XO (XO (XO (XO (XO (XO (XO (XO (XO (XO (XO (XO
    (XO (XO (XO (XO (XO (XO (XI (XI
    XH)))))))))))))))))))))))))))))))))))))))))))))))) :: (None :: (None :: ((Some
    N0) :: ((Some N0) :: ((Some
    N0) :: (None :: (None :: (None :: (None :: ((Some (Npos (XO (XO (XO (XO
    (XO (XO (XO (XO (XO (XO (XO (XO (XO (XO (XO (XO (XO (XO (XO (XO (XO (XO
    (XO (XO (XO (XO (XO (XO (XO (XO (XO (XO (XO (XO (XO (XO (XO (XO (XO (XO
    (XO (XO (XO (XO (XO (XO (XO (XO (XO (XO
    XH)))))))))))))))))))))))))))))))))))))))))))))))))))) :: (None :: ((Some
    (Npos (XO (XO (XO (XO (XO (XO (XO (XO (XO (XO (XO (XO (XO (XO (XO (XO (XO
    (XO (XO (XO (XO (XO (XO (XO (XO (XO (XO (XO (XO (XO (XO (XO (XO (XO (XO
    (XO (XO (XO (XO (XO (XO (XO (XO (XO (XO (XO (XO (XO (XO (XO (XO
    XH))))))))))))))))))))))))))))))))))))))))))))))))))))) :: (None :: ((Some
    (Npos (XO (XO (XO (XO (XO (XO (XO (XO (XO (XO (XO (XO (XO (XO (XO (XO (XO
    (XO (XO (XO (XO (XO (XO (XO (XO (XO (XO (XO (XO (XO (XO (XO (XO (XO (XO
    (XO (XO (XO (XO (XO (XO (XO (XO (XO (XO (XO (XO (XO (XO (XO (XO (XO
    XH)))))))))))))))))))))))))))))))))))))))))))))))))))))) :: (None :: (None :: [])))))))))))))))))))))))))))))))))))))))))))))))))))))))))))))))) :: ((None :: (None :: (None :: (None :: ((Some
    (Npos (XO (XO (XO (XO (XO (XO (XO (XO (XO (XO (XO (XO (XI (XO (XO (XO (XO
    (XO (XO (XO (XI (XO (XO (XO (XO (XO (XO (XO (XI (XO (XO (XO (XO (XO (XO
    (XO
    XH)))))))))))))))))))))))))))))))))))))) :: (None :: (None :: (None :: ((Some
    (Npos (XO (XO (XO (XO (XO (XO (XO (XO (XO (XO (XO (XO (XO (XO (XO (XO (XO
    (XI (XO (XO (XO (XO (XO (XO (XO (XO (XI (XO (XO (XO (XO (XO (XO (XO (XO
    XH))))))))))))))))))))))))))))))))))))) :: (None :: (None :: (None :: ((Some
    (Npos (XO (XO (XO (XO (XO (XO (XO (XO (XO (XO (XO (XO (XO (XO (XO (XO (XO
    (XO (XO (XO (XI (XO (XO (XO (XO (XO (XO (XO (XI (XO (XO (XO (XO (XO (XO
    (XO
    XH)))))))))))))))))))))))))))))))))))))) :: (None :: (None :: (None :: (None :: ((Some
    (Npos (XO (XO (XO (XO (XO (XO (XO (XO (XO (XO (XO (XO (XO (XO (XO (XO (XO
    (XO (XO (XO (XO (XO (XO (XO (XO (XO (XI (XO (XO (XO (XO (XO (XO (XO (XO
    XH))))))))))))))))))))))))))))))))))))) :: (None :: (None :: ((Some (Npos
    (XO (XO (XO (XO (XO (XO (XO (XO (XO (XO (XO (XO (XO (XO (XO (XO (XO (XO
    (XO (XO (XO (XO (XO (XO (XO (XO (XO (XO (XI (XO (XO (XO (XO (XO (XO (XO
    XH)))))))))))))))))))))))))))))))))))))) :: (None :: (None :: ((Some
    (Npos (XO (XO (XO (XO (XO (XO (XO (XO (XO (XO (XO (XO (XO (XO (XO (XO (XO
    (XO (XO (XO (XO (XO (XO (XO (XO (XO (XO (XO (XO (XO (XI (XO (XO (XO (XO
    (XO (XO
    XH))))))))))))))))))))))))))))))))))))))) :: (None :: (None :: ((Some
    (Npos (XO (XO (XO (XO (XO (XO (XO (XO (XO (XO (XO (XO (XO (XO (XO (XO (XO
    (XO (XO (XO (XO (XO (XO (XO (XO (XO (XO (XO (XO (XO (XO (XO (XO (XO (XO
    XH))))))))))))))))))))))))))))))))))))) :: (None :: ((Some (Npos (XO (XO
    (XO (XO (XO (XO (XO (XO (XO (XO (XO (XO (XO (XO (XO (XO (XO (XO (XO (XO
    (XO (XO (XO (XO (XO (XO (XO (XO (XO (XO (XO (XO (XO (XO (XO (XO
    XH)))))))))))))))))))))))))))))))))))))) :: (None :: ((Some (Npos (XO (XO
    (XO (XO (XO (XO (XO (XO (XO (XO (XO (XO (XO (XO (XO (XO (XO (XO (XO (XO
    (XO (XO (XO (XO (XO (XO (XO (XO (XO (XO (XO (XO (XO (XO (XO (XO (XO
    XH))))))))))))))))))))))))))))))))))))))) :: (None :: (None :: (None :: (None :: ((Some
    N0) :: ((Some N0) :: ((Some N0) :: (None :: (None :: ((Some (Npos (XO (XO
    (XO (XO (XO (XO (XO (XO (XO (XO (XO (XO (XO (XO (XO (XO (XO (XO (XO (XO
    (XO (XO (XO (XO (XO (XO (XO (XO (XO (XO (XO (XO (XO (XO (XO (XO (XO (XO
    (XO (XO (XO (XI (XI
    XH))))))))))))))))))))))))))))))))))))))))))))) :: ((Some (Npos (XO (XO
    (XO (XO (XO (XO (XO (XO (XO (XO (XO (XO (XO (XO (XO (XO (XO (XO (XO (XO
    (XO (XO (XO (XO (XO (XO (XO (XO (XO (XO (XO (XO (XO (XO (XO (XO (XO (XO
    (XO (XO (XO (XO (XI
    XH))))))))))))))))))))))))))))))))))))))))))))) :: ((Some (Npos (XO (XO
    (XO (XO (XO (XO (XO (XO (XO (XO (XO (XO (XO (XO (XO (XO (XO (XO (XO (XO
    (XO (XO (XO (XO (XO (XO (XO (XO (XO (XO (XO (XO (XO (XO (XO (XO (XO (XO
    (XO (XO (XO (XO (XO
    XH))))))))))))))))))))))))))))))))))))))))))))) :: ((Some N0) :: ((Some
    N0) :: ((Some N0) :: ((Some (Npos (XO (XO (XO (XO (XO (XO (XO (XO (XO (XO
    (XO (XO (XO (XO (XO (XO (XO (XO (XO (XO (XO (XO (XO (XO (XO (XO (XO (XO
    (XO (XO (XO (XO (XO (XO (XO (XO (XO (XO (XO (XO (XO (XO (XO (XO (XO
    XH))))))))))))))))))))))))))))))))))))))))))))))) :: ((Some (Npos (XO (XO
    (XO (XO (XO (XO (XO (XO (XO (XO (XO (XO (XO (XO (XO (XO (XO (XO (XO (XO
    (XO (XO (XO (XO (XO (XO (XO (XO (XO (XO (XO (XO (XO (XO (XO (XO (XO (XO
    (XO (XO (XO (XO (XO (XO (XO (XI
    XH)))))))))))))))))))))))))))))))))))))))))))))))) :: (None :: (None :: (None :: ((Some
    N0) :: ((Some N0) :: ((Some
    N0) :: (None :: (None :: (None :: (None :: ((Some (Npos (XO (XO (XO (XO
    (XO (XO (XO (XO (XO (XO (XO (XO (XO (XO (XO (XO (XO (XO (XO (XO (XO (XO
    (XO (XO (XO (XO (XO (XO (XO (XO (XO (XO (XO (XO (XO (XO (XO (XO (XO (XO
    (XO (XO (XO (XO (XO (XO (XO (XO (XO (XO (XO
    XH))))))))))))))))))))))))))))))))))))))))))))))))))))) :: (None :: ((Some
    (Npos (XO (XO (XO (XO (XO (XO (XO (XO (XO (XO (XO (XO (XO (XO (XO (XO (XO
    (XO (XO (XO (XO (XO (XO (XO (XO (XO (XO (XO (XO (XO (XO (XO (XO (XO (XO
    (XO (XO (XO (XO (XO (XO (XO (XO (XO (XO (XO (XO (XO (XO (XO (XO (XO
    XH)))))))))))))))))))))))))))))))))))))))))))))))))))))) :: (None :: ((Some
    (Npos (XO (XO (XO (XO (XO (XO (XO (XO (XO (XO (XO (XO (XO (XO (XO (XO (XO
    (XO (XO (XO (XO (XO (XO (XO (XO (XO (XO (XO (XO (XO (XO (XO (XO (XO (XO
    (XO (XO (XO (XO (XO (XO (XO (XO (XO (XO (XO (XO (XO (XO (XO (XO (XO (XO
    XH))))))))))))))))))))))))))))))))))))))))))))))))))))))) :: (None :: [])))))))))))))))))))))))))))))))))))))))))))))))))))))))))))))))) :: (((Some
    (Npos (XO (XO (XO (XO (XO (XO (XO (XO (XO (XI (XO (XO (XO (XO (XO (XO (XO
    (XO (XI (XO (XO (XO (XO (XO (XO (XO (XO (XI (XO (XO (XO (XO (XO (XO (XO
    (XO
    XH)))))))))))))))))))))))))))))))))))))) :: (None :: (None :: (None :: (None :: ((Some
    (Npos (XO (XO (XO (XO (XO (XO (XO (XO (XO (XO (XO (XO (XO (XI (XO (XO (XO
    (XO (XO (XO (XO (XI (XO (XO (XO (XO (XO (XO (XO (XI (XO (XO (XO (XO (XO
    (XO (XO
    XH))))))))))))))))))))))))))))))))))))))) :: (None :: (None :: (None :: ((Some
    (Npos (XO (XO (XO (XO (XO (XO (XO (XO (XO (XO (XO (XO (XO (XO (XO (XO (XO
    (XO (XI (XO (XO (XO (XO (XO (XO (XO (XO (XI (XO (XO (XO (XO (XO (XO (XO
    (XO
    XH)))))))))))))))))))))))))))))))))))))) :: (None :: (None :: (None :: ((Some
    (Npos (XO (XO (XO (XO (XO (XO (XO (XO (XO (XO (XO (XO (XO (XO (XO (XO (XO
    (XO (XO (XO (XO (XI (XO (XO (XO (XO (XO (XO (XO (XI (XO (XO (XO (XO (XO
    (XO (XO
    XH))))))))))))))))))))))))))))))))))))))) :: (None :: (None :: (None :: (None :: ((Some
    (Npos (XO (XO (XO (XO (XO (XO (XO (XO (XO (XO (XO (XO (XO (XO (XO (XO (XO
    (XO (XO (XO (XO (XO (XO (XO (XO (XO (XO (XI (XO (XO (XO (XO (XO (XO (XO
    (XO XH)))))))))))))))))))))))))))))))))))))) :: (None :: (None :: ((Some
    (Npos (XO (XO (XO (XO (XO (XO (XO (XO (XO (XO (XO (XO (XO (XO (XO (XO (XO
    (XO (XO (XO (XO (XO (XO (XO (XO (XO (XO (XO (XO (XI (XO (XO (XO (XO (XO
    (XO (XO
    XH))))))))))))))))))))))))))))))))))))))) :: (None :: (None :: (None :: (None :: (None :: ((Some
    (Npos (XO (XO (XO (XO (XO (XO (XO (XO (XO (XO (XO (XO (XO (XO (XO (XO (XO
    (XO (XO (XO (XO (XO (XO (XO (XO (XO (XO (XO (XO (XO (XO (XO (XO (XO (XO
    (XO XH)))))))))))))))))))))))))))))))))))))) :: (None :: ((Some (Npos (XO
    (XO (XO (XO (XO (XO (XO (XO (XO (XO (XO (XO (XO (XO (XO (XO (XO (XO (XO
    (XO (XO (XO (XO (XO (XO (XO (XO (XO (XO (XO (XO (XO (XO (XO (XO (XO (XO
    XH))))))))))))))))))))))))))))))))))))))) :: (None :: ((Some (Npos (XO
    (XO (XO (XO (XO (XO (XO (XO (XO (XO (XO (XO (XO (XO (XO (XO (XO (XO (XO
    (XO (XO (XO (XO (XO (XO (XO (XO (XO (XO (XO (XO (XO (XO (XO (XO (XO (XO
    (XO
    XH)))))))))))))))))))))))))))))))))))))))) :: (None :: (None :: (None :: (None :: ((Some
    N0) :: ((Some N0) :: ((Some N0) :: (None :: ((Some (Npos (XO (XO (XO (XO
    (XO (XO (XO (XO (XO (XO (XO (XO (XO (XO (XO (XO (XO (XO (XO (XO (XO (XO
    (XO (XO (XO (XO (XO (XO (XO (XO (XO (XO (XO (XO (XO (XO (XO (XO (XO (XO
    (XO (XI (XI (XI
    XH)))))))))))))))))))))))))))))))))))))))))))))) :: ((Some (Npos (XO (XO
    (XO (XO (XO (XO (XO (XO (XO (XO (XO (XO (XO (XO (XO (XO (XO (XO (XO (XO
    (XO (XO (XO (XO (XO (XO (XO (XO (XO (XO (XO (XO (XO (XO (XO (XO (XO (XO
    (XO (XO (XO (XO (XI (XI
    XH)))))))))))))))))))))))))))))))))))))))))))))) :: ((Some (Npos (XO (XO
    (XO (XO (XO (XO (XO (XO (XO (XO (XO (XO (XO (XO (XO (XO (XO (XO (XO (XO
    (XO (XO (XO (XO (XO (XO (XO (XO (XO (XO (XO (XO (XO (XO (XO (XO (XO (XO
    (XO (XO (XO (XO (XO (XI
    XH)))))))))))))))))))))))))))))))))))))))))))))) :: ((Some (Npos (XO (XO
    (XO (XO (XO (XO (XO (XO (XO (XO (XO (XO (XO (XO (XO (XO (XO (XO (XO (XO
    (XO (XO (XO (XO (XO (XO (XO (XO (XO (XO (XO (XO (XO (XO (XO (XO (XO (XO
    (XO (XO (XO (XO (XO (XO
    XH)))))))))))))))))))))))))))))))))))))))))))))) :: ((Some N0) :: ((Some
    N0) :: ((Some N0) :: ((Some (Npos (XO (XO (XO (XO (XO (XO (XO (XO (XO (XO
    (XO (XO (XO (XO (XO (XO (XO (XO (XO (XO (XO (XO (XO (XO (XO (XO (XO (XO
    (XO (XO (XO (XO (XO (XO (XO (XO (XO (XO (XO (XO (XO (XO (XO (XO (XO (XO
    XH)))))))))))))))))))))))))))))))))))))))))))))))) :: (None :: (None :: (None :: (None :: ((Some
    N0) :: ((Some N0) :: ((Some
    N0) :: (None :: (None :: (None :: (None :: ((Some (Npos (XO (XO (XO (XO
    (XO (XO (XO (XO (XO (XO (XO (XO (XO (XO (XO (XO (XO (XO (XO (XO (XO (XO
    (XO (XO (XO (XO (XO (XO (XO (XO (XO (XO (XO (XO (XO (XO (XO (XO (XO (XO
    (XO (XO (XO (XO (XO (XO (XO (XO (XO (XO (XO (XO
    XH)))))))))))))))))))))))))))))))))))))))))))))))))))))) :: (None :: ((Some
    (Npos (XO (XO (XO (XO (XO (XO (XO (XO (XO (XO (XO (XO (XO (XO (XO (XO (XO
    (XO (XO (XO (XO (XO (XO (XO (XO (XO (XO (XO (XO (XO (XO (XO (XO (XO (XO
    (XO (XO (XO (XO (XO (XO (XO (XO (XO (XO (XO (XO (XO (XO (XO (XO (XO (XO
    XH))))))))))))))))))))))))))))))))))))))))))))))))))))))) :: (None :: ((Some
    (Npos (XO (XO (XO (XO (XO (XO (XO (XO (XO (XO (XO (XO (XO (XO (XO (XO (XO
    (XO (XO (XO (XO (XO (XO (XO (XO (XO (XO (XO (XO (XO (XO (XO (XO (XO (XO
    (XO (XO (XO (XO (XO (XO (XO (XO (XO (XO (XO (XO (XO (XO (XO (XO (XO (XO
    (XO
    XH)))))))))))))))))))))))))))))))))))))))))))))))))))))))) :: [])))))))))))))))))))))))))))))))))))))))))))))))))))))))))))))))) :: ((None :: ((Some
    (Npos (XO (XO (XO (XO (XO (XO (XO (XO (XO (XO (XI (XO (XO (XO (XO (XO (XO
    (XO (XO (XI (XO (XO (XO (XO (XO (XO (XO (XO (XI (XO (XO (XO (XO (XO (XO
    (XO (XO
    XH))))))))))))))))))))))))))))))))))))))) :: (None :: (None :: (None :: (None :: ((Some
    (Npos (XO (XO (XO (XO (XO (XO (XO (XO (XO (XO (XO (XO (XO (XO (XI (XO (XO
    (XO (XO (XO (XO (XO (XI (XO (XO (XO (XO (XO (XO (XO (XI (XO (XO (XO (XO
    (XO (XO (XO
    XH)))))))))))))))))))))))))))))))))))))))) :: (None :: (None :: (None :: ((Some
    (Npos (XO (XO (XO (XO (XO (XO (XO (XO (XO (XO (XO (XO (XO (XO (XO (XO (XO
    (XO (XO (XI (XO (XO (XO (XO (XO (XO (XO (XO (XI (XO (XO (XO (XO (XO (XO
    (XO (XO
    XH))))))))))))))))))))))))))))))))))))))) :: (None :: (None :: (None :: ((Some
    (Npos (XO (XO (XO (XO (XO (XO (XO (XO (XO (XO (XO (XO (XO (XO (XO (XO (XO
    (XO (XO (XO (XO (XO (XI (XO (XO (XO (XO (XO (XO (XO (XI (XO (XO (XO (XO
    (XO (XO (XO
    XH)))))))))))))))))))))))))))))))))))))))) :: (None :: (None :: (None :: (None :: ((Some
    (Npos (XO (XO (XO (XO (XO (XO (XO (XO (XO (XO (XO (XO (XO (XO (XO (XO (XO
    (XO (XO (XO (XO (XO (XO (XO (XO (XO (XO (XO (XI (XO (XO (XO (XO (XO (XO
    (XO (XO
    XH))))))))))))))))))))))))))))))))))))))) :: (None :: (None :: ((Some
    (Npos (XO (XO (XO (XO (XO (XO (XO (XO (XO (XO (XO (XO (XO (XO (XO (XO (XO
    (XO (XO (XO (XO (XO (XO (XO (XO (XO (XO (XO (XO (XO (XI (XO (XO (XO (XO
    (XO (XO (XO
    XH)))))))))))))))))))))))))))))))))))))))) :: (None :: (None :: (None :: (None :: (None :: ((Some
    (Npos (XO (XO (XO (XO (XO (XO (XO (XO (XO (XO (XO (XO (XO (XO (XO (XO (XO
    (XO (XO (XO (XO (XO (XO (XO (XO (XO (XO (XO (XO (XO (XO (XO (XO (XO (XO
    (XO (XO XH))))))))))))))))))))))))))))))))))))))) :: (None :: ((Some
    (Npos (XO (XO (XO (XO (XO (XO (XO (XO (XO (XO (XO (XO (XO (XO (XO (XO (XO
    (XO (XO (XO (XO (XO (XO (XO (XO (XO (XO (XO (XO (XO (XO (XO (XO (XO (XO
    (XO (XO (XO
    XH)))))))))))))))))))))))))))))))))))))))) :: (None :: (None :: (None :: (None :: (None :: (None :: ((Some
    N0) :: ((Some N0) :: ((Some N0) :: ((Some (Npos (XO (XO (XO (XO (XO (XO
    (XO (XO (XO (XO (XO (XO (XO (XO (XO (XO (XO (XO (XO (XO (XO (XO (XO (XO
    (XO (XO (XO (XO (XO (XO (XO (XO (XO (XO (XO (XO (XO (XO (XO (XO (XO (XI
    (XI (XI (XI XH))))))))))))))))))))))))))))))))))))))))))))))) :: ((Some
    (Npos (XO (XO (XO (XO (XO (XO (XO (XO (XO (XO (XO (XO (XO (XO (XO (XO (XO
    (XO (XO (XO (XO (XO (XO (XO (XO (XO (XO (XO (XO (XO (XO (XO (XO (XO (XO
    (XO (XO (XO (XO (XO (XO (XO (XI (XI (XI
    XH))))))))))))))))))))))))))))))))))))))))))))))) :: ((Some (Npos (XO (XO
    (XO (XO (XO (XO (XO (XO (XO (XO (XO (XO (XO (XO (XO (XO (XO (XO (XO (XO
    (XO (XO (XO (XO (XO (XO (XO (XO (XO (XO (XO (XO (XO (XO (XO (XO (XO (XO
    (XO (XO (XO (XO (XO (XI (XI
    XH))))))))))))))))))))))))))))))))))))))))))))))) :: ((Some (Npos (XO (XO
    (XO (XO (XO (XO (XO (XO (XO (XO (XO (XO (XO (XO (XO (XO (XO (XO (XO (XO
    (XO (XO (XO (XO (XO (XO (XO (XO (XO (XO (XO (XO (XO (XO (XO (XO (XO (XO
    (XO (XO (XO (XO (XO (XO (XI
    XH))))))))))))))))))))))))))))))))))))))))))))))) :: ((Some (Npos (XO (XO
    (XO (XO (XO (XO (XO (XO (XO (XO (XO (XO (XO (XO (XO (XO (XO (XO (XO (XO
    (XO (XO (XO (XO (XO (XO (XO (XO (XO (XO (XO (XO (XO (XO (XO (XO (XO (XO
    (XO (XO (XO (XO (XO (XO (XO
    XH))))))))))))))))))))))))))))))))))))))))))))))) :: ((Some N0) :: ((Some
    N0) :: ((Some N0) :: (None :: (None :: (None :: (None :: (None :: ((Some
    N0) :: ((Some N0) :: ((Some
    N0) :: (None :: (None :: (None :: (None :: ((Some (Npos (XO (XO (XO (XO
    (XO (XO (XO (XO (XO (XO (XO (XO (XO (XO (XO (XO (XO (XO (XO (XO (XO (XO
    (XO (XO (XO (XO (XO (XO (XO (XO (XO (XO (XO (XO (XO (XO (XO (XO (XO (XO
    (XO (XO (XO (XO (XO (XO (XO (XO (XO (XO (XO (XO (XO
    XH))))))))))))))))))))))))))))))))))))))))))))))))))))))) :: (None :: ((Some
    (Npos (XO (XO (XO (XO (XO (XO (XO (XO (XO (XO (XO (XO (XO (XO (XO (XO (XO
    (XO (XO (XO (XO (XO (XO (XO (XO (XO (XO (XO (XO (XO (XO (XO (XO (XO (XO
    (XO (XO (XO (XO (XO (XO (XO (XO (XO (XO (XO (XO (XO (XO (XO (XO (XO (XO
    (XO
    XH)))))))))))))))))))))))))))))))))))))))))))))))))))))))) :: (None :: [])))))))))))))))))))))))))))))))))))))))))))))))))))))))))))))))) :: ((None :: (None :: ((Some
    (Npos (XO (XO (XO (XO (XO (XO (XO (XO (XO (XO (XO (XI (XO (XO (XO (XO (XO
    (XO (XO (XO (XI (XO (XO (XO (XO (XO (XO (XO (XO (XI (XO (XO (XO (XO (XO
    (XO (XO (XO
    XH)))))))))))))))))))))))))))))))))))))))) :: (None :: (None :: (None :: (None :: ((Some
    (Npos (XO (XO (XO (XO (XO (XO (XO (XO (XO (XO (XO (XO (XO (XO (XO (XI (XO
    (XO (XO (XO (XO (XO (XO (XI (XO (XO (XO (XO (XO (XO (XO (XI (XO (XO (XO
    (XO (XO (XO (XO
    XH))))))))))))))))))))))))))))))))))))))))) :: (None :: (None :: (None :: ((Some
    (Npos (XO (XO (XO (XO (XO (XO (XO (XO (XO (XO (XO (XO (XO (XO (XO (XO (XO
    (XO (XO (XO (XI (XO (XO (XO (XO (XO (XO (XO (XO (XI (XO (XO (XO (XO (XO
    (XO (XO (XO
    XH)))))))))))))))))))))))))))))))))))))))) :: (None :: (None :: (None :: ((Some
    (Npos (XO (XO (XO (XO (XO (XO (XO (XO (XO (XO (XO (XO (XO (XO (XO (XO (XO
    (XO (XO (XO (XO (XO (XO (XI (XO (XO (XO (XO (XO (XO (XO (XI (XO (XO (XO
    (XO (XO (XO (XO
    XH))))))))))))))))))))))))))))))))))))))))) :: (None :: (None :: (None :: (None :: ((Some
    (Npos (XO (XO (XO (XO (XO (XO (XO (XO (XO (XO (XO (XO (XO (XO (XO (XO (XO
    (XO (XO (XO (XO (XO (XO (XO (XO (XO (XO (XO (XO (XI (XO (XO (XO (XO (XO
    (XO (XO (XO
    XH)))))))))))))))))))))))))))))))))))))))) :: (None :: (None :: ((Some
    (Npos (XO (XO (XO (XO (XO (XO (XO (XO (XO (XO (XO (XO (XO (XO (XO (XO (XO
    (XO (XO (XO (XO (XO (XO (XO (XO (XO (XO (XO (XO (XO (XO (XI (XO (XO (XO
    (XO (XO (XO (XO
    XH))))))))))))))))))))))))))))))))))))))))) :: (None :: (None :: (None :: (None :: (None :: ((Some
    (Npos (XO (XO (XO (XO (XO (XO (XO (XO (XO (XO (XO (XO (XO (XO (XO (XO (XO
    (XO (XO (XO (XO (XO (XO (XO (XO (XO (XO (XO (XO (XO (XO (XO (XO (XO (XO
    (XO (XO (XO XH)))))))))))))))))))))))))))))))))))))))) :: (None :: ((Some
    (Npos (XO (XO (XO (XO (XO (XO (XO (XO (XO (XO (XO (XO (XO (XO (XO (XO (XO
    (XO (XO (XO (XO (XO (XO (XO (XO (XO (XO (XO (XO (XO (XO (XO (XO (XO (XO
    (XO (XO (XO (XO
    XH))))))))))))))))))))))))))))))))))))))))) :: (None :: (None :: (None :: (None :: (None :: (None :: ((Some
    N0) :: ((Some N0) :: ((Some (Npos (XO (XO (XO (XO (XO (XO (XO (XO (XO (XO
    (XO (XO (XO (XO (XO (XO (XO (XO (XO (XO (XO (XO (XO (XO (XO (XO (XO (XO
    (XO (XO (XO (XO (XO (XO (XO (XO (XO (XO (XO (XO (XO (XI (XI (XI (XI (XI
    XH)))))))))))))))))))))))))))))))))))))))))))))))) :: ((Some (Npos (XO
    (XO (XO (XO (XO (XO (XO (XO (XO (XO (XO (XO (XO (XO (XO (XO (XO (XO (XO
    (XO (XO (XO (XO (XO (XO (XO (XO (XO (XO (XO (XO (XO (XO (XO (XO (XO (XO
    (XO (XO (XO (XO (XO (XI (XI (XI (XI
    XH)))))))))))))))))))))))))))))))))))))))))))))))) :: ((Some (Npos (XO
    (XO (XO (XO (XO (XO (XO (XO (XO (XO (XO (XO (XO (XO (XO (XO (XO (XO (XO
    (XO (XO (XO (XO (XO (XO (XO (XO (XO (XO (XO (XO (XO (XO (XO (XO (XO (XO
    (XO (XO (XO (XO (XO (XO (XI (XI (XI
    XH)))))))))))))))))))))))))))))))))))))))))))))))) :: ((Some (Npos (XO
    (XO (XO (XO (XO (XO (XO (XO (XO (XO (XO (XO (XO (XO (XO (XO (XO (XO (XO
    (XO (XO (XO (XO (XO (XO (XO (XO (XO (XO (XO (XO (XO (XO (XO (XO (XO (XO
    (XO (XO (XO (XO (XO (XO (XO (XI (XI
    XH)))))))))))))))))))))))))))))))))))))))))))))))) :: ((Some (Npos (XO
    (XO (XO (XO (XO (XO (XO (XO (XO (XO (XO (XO (XO (XO (XO (XO (XO (XO (XO
    (XO (XO (XO (XO (XO (XO (XO (XO (XO (XO (XO (XO (XO (XO (XO (XO (XO (XO
    (XO (XO (XO (XO (XO (XO (XO (XO (XI
    XH)))))))))))))))))))))))))))))))))))))))))))))))) :: ((Some (Npos (XO
    (XO (XO (XO (XO (XO (XO (XO (XO (XO (XO (XO (XO (XO (XO (XO (XO (XO (XO
    (XO (XO (XO (XO (XO (XO (XO (XO (XO (XO (XO (XO (XO (XO (XO (XO (XO (XO
    (XO (XO (XO (XO (XO (XO (XO (XO (XO
    XH)))))))))))))))))))))))))))))))))))))))))))))))) :: ((Some
    N0) :: ((Some
    N0) :: (None :: (None :: (None :: (None :: (None :: (None :: ((Some
    N0) :: ((Some N0) :: (None :: (None :: (None :: (None :: (None :: ((Some
    (Npos (XO (XO (XO (XO (XO (XO (XO (XO (XO (XO (XO (XO (XO (XO (XO (XO (XO
    (XO (XO (XO (XO (XO (XO (XO (XO (XO (XO (XO (XO (XO (XO (XO (XO (XO (XO
    (XO (XO (XO (XO (XO (XO (XO (XO (XO (XO (XO (XO (XO (XO (XO (XO (XO (XO
    (XO
    XH)))))))))))))))))))))))))))))))))))))))))))))))))))))))) :: (None :: ((Some
    (Npos (XO (XO (XO (XO (XO (XO (XO (XO (XO (XO (XO (XO (XO (XO (XO (XO (XO
    (XO (XO (XO (XO (XO (XO (XO (XO (XO (XO (XO (XO (XO (XO (XO (XO (XO (XO
    (XO (XO (XO (XO (XO (XO (XO (XO (XO (XO (XO (XO (XO (XO (XO (XO (XO (XO
    (XO (XO
    XH))))))))))))))))))))))))))))))))))))))))))))))))))))))))) :: [])))))))))))))))))))))))))))))))))))))))))))))))))))))))))))))))) :: (((Some
    (Npos (XO (XO (XO (XO (XO (XO (XO (XO (XI (XO (XO (XO (XO (XO (XO (XO (XI
    (XO (XO (XO (XO (XO (XO (XO (XI (XO (XO (XO (XO (XO (XO (XO (XI (XO (XO
    (XO (XO (XO (XO (XO
    XH)))))))))))))))))))))))))))))))))))))))))) :: (None :: (None :: (None :: (None :: (None :: ((Some
    (Npos (XO (XO (XO (XO (XO (XO (XO (XO (XO (XO (XO (XO (XO (XI (XO (XO (XO
    (XO (XO (XO (XI (XO (XO (XO (XO (XO (XO (XI (XO (XO (XO (XO (XO (XO (XI
    (XO (XO (XO (XO (XO (XO
    XH))))))))))))))))))))))))))))))))))))))))))) :: (None :: ((Some (Npos
    (XO (XO (XO (XO (XO (XO (XO (XO (XO (XO (XO (XO (XO (XO (XO (XO (XI (XO
    (XO (XO (XO (XO (XO (XO (XI (XO (XO (XO (XO (XO (XO (XO (XI (XO (XO (XO
    (XO (XO (XO (XO
    XH)))))))))))))))))))))))))))))))))))))))))) :: (None :: (None :: (None :: (None :: ((Some
    (Npos (XO (XO (XO (XO (XO (XO (XO (XO (XO (XO (XO (XO (XO (XO (XO (XO (XO
    (XO (XO (XO (XI (XO (XO (XO (XO (XO (XO (XI (XO (XO (XO (XO (XO (XO (XI
    (XO (XO (XO (XO (XO (XO
    XH))))))))))))))))))))))))))))))))))))))))))) :: (None :: (None :: ((Some
    (Npos (XO (XO (XO (XO (XO (XO (XO (XO (XO (XO (XO (XO (XO (XO (XO (XO (XO
    (XO (XO (XO (XO (XO (XO (XO (XI (XO (XO (XO (XO (XO (XO (XO (XI (XO (XO
    (XO (XO (XO (XO (XO
    XH)))))))))))))))))))))))))))))))))))))))))) :: (None :: (None :: (None :: ((Some
    (Npos (XO (XO (XO (XO (XO (XO (XO (XO (XO (XO (XO (XO (XO (XO (XO (XO (XO
    (XO (XO (XO (XO (XO (XO (XO (XO (XO (XO (XI (XO (XO (XO (XO (XO (XO (XI
    (XO (XO (XO (XO (XO (XO
    XH))))))))))))))))))))))))))))))))))))))))))) :: (None :: (None :: (None :: ((Some
    (Npos (XO (XO (XO (XO (XO (XO (XO (XO (XO (XO (XO (XO (XO (XO (XO (XO (XO
    (XO (XO (XO (XO (XO (XO (XO (XO (XO (XO (XO (XO (XO (XO (XO (XI (XO (XO
    (XO (XO (XO (XO (XO
    XH)))))))))))))))))))))))))))))))))))))))))) :: (None :: (None :: ((Some
    (Npos (XO (XO (XO (XO (XO (XO (XO (XO (XO (XO (XO (XO (XO (XO (XO (XO (XO
    (XO (XO (XO (XO (XO (XO (XO (XO (XO (XO (XO (XO (XO (XO (XO (XO (XO (XI
    (XO (XO (XO (XO (XO (XO
    XH))))))))))))))))))))))))))))))))))))))))))) :: (None :: (None :: (None :: (None :: ((Some
    (Npos (XO (XO (XO (XO (XO (XO (XO (XO (XO (XO (XO (XO (XO (XO (XO (XO (XO
    (XO (XO (XO (XO (XO (XO (XO (XO (XO (XO (XO (XO (XO (XO (XO (XO (XO (XO
    (XO (XO (XO (XO (XO
    XH)))))))))))))))))))))))))))))))))))))))))) :: (None :: ((Some (Npos (XO
    (XO (XO (XO (XO (XO (XO (XO (XO (XO (XO (XO (XO (XO (XO (XO (XO (XO (XO
    (XO (XO (XO (XO (XO (XO (XO (XO (XO (XO (XO (XO (XO (XO (XO (XO (XO (XO
    (XO (XO (XO (XO
    XH))))))))))))))))))))))))))))))))))))))))))) :: (None :: (None :: (None :: (None :: (None :: ((Some
    N0) :: ((Some
    N0) :: (None :: (None :: (None :: (None :: (None :: (None :: ((Some
    N0) :: ((Some N0) :: ((Some (Npos (XO (XO (XO (XO (XO (XO (XO (XO (XO (XO
    (XO (XO (XO (XO (XO (XO (XO (XO (XO (XO (XO (XO (XO (XO (XO (XO (XO (XO
    (XO (XO (XO (XO (XO (XO (XO (XO (XO (XO (XO (XO (XO (XO (XO (XO (XO (XO
    (XO (XO (XO
    XH))))))))))))))))))))))))))))))))))))))))))))))))))) :: ((Some (Npos (XO
    (XO (XO (XO (XO (XO (XO (XO (XO (XO (XO (XO (XO (XO (XO (XO (XO (XO (XO
    (XO (XO (XO (XO (XO (XO (XO (XO (XO (XO (XO (XO (XO (XO (XO (XO (XO (XO
    (XO (XO (XO (XO (XO (XO (XO (XO (XO (XO (XO (XO (XI
    XH)))))))))))))))))))))))))))))))))))))))))))))))))))) :: ((Some (Npos
    (XO (XO (XO (XO (XO (XO (XO (XO (XO (XO (XO (XO (XO (XO (XO (XO (XO (XO
    (XO (XO (XO (XO (XO (XO (XO (XO (XO (XO (XO (XO (XO (XO (XO (XO (XO (XO
    (XO (XO (XO (XO (XO (XO (XO (XO (XO (XO (XO (XO (XO (XI (XI
    XH))))))))))))))))))))))))))))))))))))))))))))))))))))) :: ((Some (Npos
    (XO (XO (XO (XO (XO (XO (XO (XO (XO (XO (XO (XO (XO (XO (XO (XO (XO (XO
    (XO (XO (XO (XO (XO (XO (XO (XO (XO (XO (XO (XO (XO (XO (XO (XO (XO (XO
    (XO (XO (XO (XO (XO (XO (XO (XO (XO (XO (XO (XO (XO (XI (XI (XI
    XH)))))))))))))))))))))))))))))))))))))))))))))))))))))) :: ((Some (Npos
    (XO (XO (XO (XO (XO (XO (XO (XO (XO (XO (XO (XO (XO (XO (XO (XO (XO (XO
    (XO (XO (XO (XO (XO (XO (XO (XO (XO (XO (XO (XO (XO (XO (XO (XO (XO (XO
    (XO (XO (XO (XO (XO (XO (XO (XO (XO (XO (XO (XO (XO (XI (XI (XI (XI
    XH))))))))))))))))))))))))))))))))))))))))))))))))))))))) :: ((Some (Npos
    (XO (XO (XO (XO (XO (XO (XO (XO (XO (XO (XO (XO (XO (XO (XO (XO (XO (XO
    (XO (XO (XO (XO (XO (XO (XO (XO (XO (XO (XO (XO (XO (XO (XO (XO (XO (XO
    (XO (XO (XO (XO (XO (XO (XO (XO (XO (XO (XO (XO (XO (XI (XI (XI (XI (XI
    XH)))))))))))))))))))))))))))))))))))))))))))))))))))))))) :: ((Some
    N0) :: ((Some
    N0) :: (None :: (None :: (None :: (None :: (None :: (None :: [])))))))))))))))))))))))))))))))))))))))))))))))))))))))))))))))) :: ((None :: ((Some
    (Npos (XO (XO (XO (XO (XO (XO (XO (XO (XO (XI (XO (XO (XO (XO (XO (XO (XO
    (XI (XO (XO (XO (XO (XO (XO (XO (XI (XO (XO (XO (XO (XO (XO (XO (XI (XO
    (XO (XO (XO (XO (XO (XO
    XH))))))))))))))))))))))))))))))))))))))))))) :: (None :: (None :: (None :: (None :: (None :: ((Some
    (Npos (XO (XO (XO (XO (XO (XO (XO (XO (XO (XO (XO (XO (XO (XO (XI (XO (XO
    (XO (XO (XO (XO (XI (XO (XO (XO (XO (XO (XO (XI (XO (XO (XO (XO (XO (XO
    (XI (XO (XO (XO (XO (XO (XO
    XH)))))))))))))))))))))))))))))))))))))))))))) :: (None :: ((Some (Npos
    (XO (XO (XO (XO (XO (XO (XO (XO (XO (XO (XO (XO (XO (XO (XO (XO (XO (XI
    (XO (XO (XO (XO (XO (XO (XO (XI (XO (XO (XO (XO (XO (XO (XO (XI (XO (XO
    (XO (XO (XO (XO (XO
    XH))))))))))))))))))))))))))))))))))))))))))) :: (None :: (None :: (None :: (None :: ((Some
    (Npos (XO (XO (XO (XO (XO (XO (XO (XO (XO (XO (XO (XO (XO (XO (XO (XO (XO
    (XO (XO (XO (XO (XI (XO (XO (XO (XO (XO (XO (XI (XO (XO (XO (XO (XO (XO
    (XI (XO (XO (XO (XO (XO (XO
    XH)))))))))))))))))))))))))))))))))))))))))))) :: (None :: (None :: ((Some
    (Npos (XO (XO (XO (XO (XO (XO (XO (XO (XO (XO (XO (XO (XO (XO (XO (XO (XO
    (XO (XO (XO (XO (XO (XO (XO (XO (XI (XO (XO (XO (XO (XO (XO (XO (XI (XO
    (XO (XO (XO (XO (XO (XO
    XH))))))))))))))))))))))))))))))))))))))))))) :: (None :: (None :: (None :: ((Some
    (Npos (XO (XO (XO (XO (XO (XO (XO (XO (XO (XO (XO (XO (XO (XO (XO (XO (XO
    (XO (XO (XO (XO (XO (XO (XO (XO (XO (XO (XO (XI (XO (XO (XO (XO (XO (XO
    (XI (XO (XO (XO (XO (XO (XO
    XH)))))))))))))))))))))))))))))))))))))))))))) :: (None :: (None :: (None :: ((Some
    (Npos (XO (XO (XO (XO (XO (XO (XO (XO (XO (XO (XO (XO (XO (XO (XO (XO (XO
    (XO (XO (XO (XO (XO (XO (XO (XO (XO (XO (XO (XO (XO (XO (XO (XO (XI (XO
    (XO (XO (XO (XO (XO (XO
    XH))))))))))))))))))))))))))))))))))))))))))) :: (None :: (None :: ((Some
    (Npos (XO (XO (XO (XO (XO (XO (XO (XO (XO (XO (XO (XO (XO (XO (XO (XO (XO
    (XO (XO (XO (XO (XO (XO (XO (XO (XO (XO (XO (XO (XO (XO (XO (XO (XO (XO
    (XI (XO (XO (XO (XO (XO (XO
    XH)))))))))))))))))))))))))))))))))))))))))))) :: (None :: (None :: (None :: (None :: ((Some
    (Npos (XO (XO (XO (XO (XO (XO (XO (XO (XO (XO (XO (XO (XO (XO (XO (XO (XO
    (XO (XO (XO (XO (XO (XO (XO (XO (XO (XO (XO (XO (XO (XO (XO (XO (XO (XO
    (XO (XO (XO (XO (XO (XO
    XH))))))))))))))))))))))))))))))))))))))))))) :: (None :: ((Some (Npos
    (XO (XO (XO (XO (XO (XO (XO (XO (XO (XO (XO (XO (XO (XO (XO (XO (XO (XO
    (XO (XO (XO (XO (XO (XO (XO (XO (XO (XO (XO (XO (XO (XO (XO (XO (XO (XO
    (XO (XO (XO (XO (XO (XO
    XH)))))))))))))))))))))))))))))))))))))))))))) :: (None :: (None :: (None :: (None :: ((Some
    N0) :: ((Some N0) :: ((Some
    N0) :: (None :: (None :: (None :: (None :: (None :: ((Some N0) :: ((Some
    N0) :: ((Some N0) :: ((Some (Npos (XO (XO (XO (XO (XO (XO (XO (XO (XO (XO
    (XO (XO (XO (XO (XO (XO (XO (XO (XO (XO (XO (XO (XO (XO (XO (XO (XO (XO
    (XO (XO (XO (XO (XO (XO (XO (XO (XO (XO (XO (XO (XO (XO (XO (XO (XO (XO
    (XO (XO (XO (XO
    XH)))))))))))))))))))))))))))))))))))))))))))))))))))) :: ((Some (Npos
    (XO (XO (XO (XO (XO (XO (XO (XO (XO (XO (XO (XO (XO (XO (XO (XO (XO (XO
    (XO (XO (XO (XO (XO (XO (XO (XO (XO (XO (XO (XO (XO (XO (XO (XO (XO (XO
    (XO (XO (XO (XO (XO (XO (XO (XO (XO (XO (XO (XO (XO (XO (XI
    XH))))))))))))))))))))))))))))))))))))))))))))))))))))) :: ((Some (Npos
    (XO (XO (XO (XO (XO (XO (XO (XO (XO (XO (XO (XO (XO (XO (XO (XO (XO (XO
    (XO (XO (XO (XO (XO (XO (XO (XO (XO (XO (XO (XO (XO (XO (XO (XO (XO (XO
    (XO (XO (XO (XO (XO (XO (XO (XO (XO (XO (XO (XO (XO (XO (XI (XI
    XH)))))))))))))))))))))))))))))))))))))))))))))))))))))) :: ((Some (Npos
    (XO (XO (XO (XO (XO (XO (XO (XO (XO (XO (XO (XO (XO (XO (XO (XO (XO (XO
    (XO (XO (XO (XO (XO (XO (XO (XO (XO (XO (XO (XO (XO (XO (XO (XO (XO (XO
    (XO (XO (XO (XO (XO (XO (XO (XO (XO (XO (XO (XO (XO (XO (XI (XI (XI
    XH))))))))))))))))))))))))))))))))))))))))))))))))))))))) :: ((Some (Npos
    (XO (XO (XO (XO (XO (XO (XO (XO (XO (XO (XO (XO (XO (XO (XO (XO (XO (XO
    (XO (XO (XO (XO (XO (XO (XO (XO (XO (XO (XO (XO (XO (XO (XO (XO (XO (XO
    (XO (XO (XO (XO (XO (XO (XO (XO (XO (XO (XO (XO (XO (XO (XI (XI (XI (XI
    XH)))))))))))))))))))))))))))))))))))))))))))))))))))))))) :: ((Some
    N0) :: ((Some N0) :: ((Some
    N0) :: (None :: (None :: (None :: (None :: (None :: [])))))))))))))))))))))))))))))))))))))))))))))))))))))))))))))))) :: ((None :: (None :: ((Some
    (Npos (XO (XO (XO (XO (XO (XO (XO (XO (XO (XO (XI (XO (XO (XO (XO (XO (XO
    (XO (XI (XO (XO (XO (XO (XO (XO (XO (XI (XO (XO (XO (XO (XO (XO (XO (XI
    (XO (XO (XO (XO (XO (XO (XO
    XH)))))))))))))))))))))))))))))))))))))))))))) :: (None :: (None :: (None :: (None :: (None :: (None :: (None :: ((Some
    (Npos (XO (XO (XO (XO (XO (XO (XO (XO (XO (XO (XO (XO (XO (XO (XO (XO (XO
    (XO (XI (XO (XO (XO (XO (XO (XO (XO (XI (XO (XO (XO (XO (XO (XO (XO (XI
    (XO (XO (XO (XO (XO (XO (XO
    XH)))))))))))))))))))))))))))))))))))))))))))) :: (None :: (None :: (None :: (None :: ((Some
    (Npos (XO (XO (XO (XO (XO (XO (XO (XO (XO (XO (XO (XO (XO (XO (XO (XO (XO
    (XO (XO (XO (XO (XO (XI (XO (XO (XO (XO (XO (XO (XI (XO (XO (XO (XO (XO
    (XO (XI (XO (XO (XO (XO (XO (XO
    XH))))))))))))))))))))))))))))))))))))))))))))) :: (None :: (None :: ((Some
    (Npos (XO (XO (XO (XO (XO (XO (XO (XO (XO (XO (XO (XO (XO (XO (XO (XO (XO
    (XO (XO (XO (XO (XO (XO (XO (XO (XO (XI (XO (XO (XO (XO (XO (XO (XO (XI
    (XO (XO (XO (XO (XO (XO (XO
    XH)))))))))))))))))))))))))))))))))))))))))))) :: (None :: (None :: (None :: ((Some
    (Npos (XO (XO (XO (XO (XO (XO (XO (XO (XO (XO (XO (XO (XO (XO (XO (XO (XO
    (XO (XO (XO (XO (XO (XO (XO (XO (XO (XO (XO (XO (XI (XO (XO (XO (XO (XO
    (XO (XI (XO (XO (XO (XO (XO (XO
    XH))))))))))))))))))))))))))))))))))))))))))))) :: (None :: (None :: (None :: ((Some
    (Npos (XO (XO (XO (XO (XO (XO (XO (XO (XO (XO (XO (XO (XO (XO (XO (XO (XO
    (XO (XO (XO (XO (XO (XO (XO (XO (XO (XO (XO (XO (XO (XO (XO (XO (XO (XI
    (XO (XO (XO (XO (XO (XO (XO
    XH)))))))))))))))))))))))))))))))))))))))))))) :: (None :: (None :: ((Some
    (Npos (XO (XO (XO (XO (XO (XO (XO (XO (XO (XO (XO (XO (XO (XO (XO (XO (XO
    (XO (XO (XO (XO (XO (XO (XO (XO (XO (XO (XO (XO (XO (XO (XO (XO (XO (XO
    (XO (XI (XO (XO (XO (XO (XO (XO
    XH))))))))))))))))))))))))))))))))))))))))))))) :: (None :: (None :: ((Some
    (Npos (XO (XO (XO (XO (XO (XO (XO (XO (XO (XO (XO (XO (XO (XO (XO (XO (XO
    (XO (XO (XO (XO (XO (XO (XO (XO (XO (XO (XO (XO (XO (XO (XO (XO (XO (XO
    (XO (XO (XO (XO (XO (XO
    XH))))))))))))))))))))))))))))))))))))))))))) :: (None :: ((Some (Npos
    (XO (XO (XO (XO (XO (XO (XO (XO (XO (XO (XO (XO (XO (XO (XO (XO (XO (XO
    (XO (XO (XO (XO (XO (XO (XO (XO (XO (XO (XO (XO (XO (XO (XO (XO (XO (XO
    (XO (XO (XO (XO (XO (XO
    XH)))))))))))))))))))))))))))))))))))))))))))) :: (None :: ((Some (Npos
    (XO (XO (XO (XO (XO (XO (XO (XO (XO (XO (XO (XO (XO (XO (XO (XO (XO (XO
    (XO (XO (XO (XO (XO (XO (XO (XO (XO (XO (XO (XO (XO (XO (XO (XO (XO (XO
    (XO (XO (XO (XO (XO (XO (XO
    XH))))))))))))))))))))))))))))))))))))))))))))) :: (None :: (None :: (None :: (None :: ((Some
    N0) :: ((Some N0) :: ((Some
    N0) :: (None :: (None :: (None :: (None :: ((Some (Npos (XO (XO (XO (XO
    (XO (XO (XO (XO (XO (XO (XO (XO (XO (XO (XO (XO (XO (XO (XO (XO (XO (XO
    (XO (XO (XO (XO (XO (XO (XO (XO (XO (XO (XO (XO (XO (XO (XO (XO (XO (XO
    (XO (XO (XO (XO (XO (XO (XO (XO (XO
    XH))))))))))))))))))))))))))))))))))))))))))))))))))) :: ((Some
    N0) :: ((Some N0) :: ((Some N0) :: ((Some (Npos (XO (XO (XO (XO (XO (XO
    (XO (XO (XO (XO (XO (XO (XO (XO (XO (XO (XO (XO (XO (XO (XO (XO (XO (XO
    (XO (XO (XO (XO (XO (XO (XO (XO (XO (XO (XO (XO (XO (XO (XO (XO (XO (XO
    (XO (XO (XO (XO (XO (XO (XO (XO (XO
    XH))))))))))))))))))))))))))))))))))))))))))))))))))))) :: ((Some (Npos
    (XO (XO (XO (XO (XO (XO (XO (XO (XO (XO (XO (XO (XO (XO (XO (XO (XO (XO
    (XO (XO (XO (XO (XO (XO (XO (XO (XO (XO (XO (XO (XO (XO (XO (XO (XO (XO
    (XO (XO (XO (XO (XO (XO (XO (XO (XO (XO (XO (XO (XO (XO (XO (XI
    XH)))))))))))))))))))))))))))))))))))))))))))))))))))))) :: ((Some (Npos
    (XO (XO (XO (XO (XO (XO (XO (XO (XO (XO (XO (XO (XO (XO (XO (XO (XO (XO
    (XO (XO (XO (XO (XO (XO (XO (XO (XO (XO (XO (XO (XO (XO (XO (XO (XO (XO
    (XO (XO (XO (XO (XO (XO (XO (XO (XO (XO (XO (XO (XO (XO (XO (XI (XI
    XH))))))))))))))))))))))))))))))))))))))))))))))))))))))) :: ((Some (Npos
    (XO (XO (XO (XO (XO (XO (XO (XO (XO (XO (XO (XO (XO (XO (XO (XO (XO (XO
    (XO (XO (XO (XO (XO (XO (XO (XO (XO (XO (XO (XO (XO (XO (XO (XO (XO (XO
    (XO (XO (XO (XO (XO (XO (XO (XO (XO (XO (XO (XO (XO (XO (XO (XI (XI (XI
    XH)))))))))))))))))))))))))))))))))))))))))))))))))))))))) :: (None :: ((Some
    N0) :: ((Some N0) :: ((Some
    N0) :: (None :: (None :: (None :: (None :: [])))))))))))))))))))))))))))))))))))))))))))))))))))))))))))))))) :: ((None :: (None :: (None :: ((Some
    (Npos (XO (XO (XO (XO (XO (XO (XO (XO (XO (XO (XO (XI (XO (XO (XO (XO (XO
    (XO (XO (XI (XO (XO (XO (XO (XO (XO (XO (XI (XO (XO (XO (XO (XO (XO (XO
    (XI (XO (XO (XO (XO (XO (XO (XO
    XH))))))))))))))))))))))))))))))))))))))))))))) :: (None :: (None :: (None :: (None :: (None :: (None :: (None :: ((Some
    (Npos (XO (XO (XO (XO (XO (XO (XO (XO (XO (XO (XO (XO (XO (XO (XO (XO (XO
    (XO (XO (XI (XO (XO (XO (XO (XO (XO (XO (XI (XO (XO (XO (XO (XO (XO (XO
    (XI (XO (XO (XO (XO (XO (XO (XO
    XH))))))))))))))))))))))))))))))))))))))))))))) :: (None :: (None :: (None :: (None :: (None :: (None :: (None :: ((Some
    (Npos (XO (XO (XO (XO (XO (XO (XO (XO (XO (XO (XO (XO (XO (XO (XO (XO (XO
    (XO (XO (XO (XO (XO (XO (XO (XO (XO (XO (XI (XO (XO (XO (XO (XO (XO (XO
    (XI (XO (XO (XO (XO (XO (XO (XO
    XH))))))))))))))))))))))))))))))))))))))))))))) :: (None :: (None :: (None :: ((Some
    (Npos (XO (XO (XO (XO (XO (XO (XO (XO (XO (XO (XO (XO (XO (XO (XO (XO (XO
    (XO (XO (XO (XO (XO (XO (XO (XO (XO (XO (XO (XO (XO (XI (XO (XO (XO (XO
    (XO (XO (XI (XO (XO (XO (XO (XO (XO
    XH)))))))))))))))))))))))))))))))))))))))))))))) :: ((Some (Npos (XO (XO
    (XO (XO (XO (XO (XO (XO (XO (XO (XO (XO (XO (XO (XO (XO (XO (XO (XO (XO
    (XO (XO (XO (XO (XO (XO (XO (XO (XO (XO (XO (XO (XO (XI (XO (XO (XO (XO
    (XO (XO (XO (XO
    XH)))))))))))))))))))))))))))))))))))))))))))) :: (None :: (None :: ((Some
    (Npos (XO (XO (XO (XO (XO (XO (XO (XO (XO (XO (XO (XO (XO (XO (XO (XO (XO
    (XO (XO (XO (XO (XO (XO (XO (XO (XO (XO (XO (XO (XO (XO (XO (XO (XO (XO
    (XI (XO (XO (XO (XO (XO (XO (XO
    XH))))))))))))))))))))))))))))))))))))))))))))) :: (None :: (None :: ((Some
    (Npos (XO (XO (XO (XO (XO (XO (XO (XO (XO (XO (XO (XO (XO (XO (XO (XO (XO
    (XO (XO (XO (XO (XO (XO (XO (XO (XO (XO (XO (XO (XO (XO (XO (XO (XO (XO
    (XO (XO (XI (XO (XO (XO (XO (XO (XO
    XH)))))))))))))))))))))))))))))))))))))))))))))) :: (None :: (None :: ((Some
    (Npos (XO (XO (XO (XO (XO (XO (XO (XO (XO (XO (XO (XO (XO (XO (XO (XO (XO
    (XO (XO (XO (XO (XO (XO (XO (XO (XO (XO (XO (XO (XO (XO (XO (XO (XO (XO
    (XO (XO (XO (XO (XO (XO (XO
    XH)))))))))))))))))))))))))))))))))))))))))))) :: (None :: ((Some (Npos
    (XO (XO (XO (XO (XO (XO (XO (XO (XO (XO (XO (XO (XO (XO (XO (XO (XO (XO
    (XO (XO (XO (XO (XO (XO (XO (XO (XO (XO (XO (XO (XO (XO (XO (XO (XO (XO
    (XO (XO (XO (XO (XO (XO (XO
    XH))))))))))))))))))))))))))))))))))))))))))))) :: (None :: ((Some (Npos
    (XO (XO (XO (XO (XO (XO (XO (XO (XO (XO (XO (XO (XO (XO (XO (XO (XO (XO
    (XO (XO (XO (XO (XO (XO (XO (XO (XO (XO (XO (XO (XO (XO (XO (XO (XO (XO
    (XO (XO (XO (XO (XO (XO (XO (XO
    XH)))))))))))))))))))))))))))))))))))))))))))))) :: (None :: (None :: (None :: (None :: ((Some
    N0) :: ((Some N0) :: ((Some N0) :: (None :: (None :: (None :: ((Some
    (Npos (XO (XO (XO (XO (XO (XO (XO (XO (XO (XO (XO (XO (XO (XO (XO (XO (XO
    (XO (XO (XO (XO (XO (XO (XO (XO (XO (XO (XO (XO (XO (XO (XO (XO (XO (XO
    (XO (XO (XO (XO (XO (XO (XO (XO (XO (XO (XO (XO (XO (XO (XI
    XH)))))))))))))))))))))))))))))))))))))))))))))))))))) :: ((Some (Npos
    (XO (XO (XO (XO (XO (XO (XO (XO (XO (XO (XO (XO (XO (XO (XO (XO (XO (XO
    (XO (XO (XO (XO (XO (XO (XO (XO (XO (XO (XO (XO (XO (XO (XO (XO (XO (XO
    (XO (XO (XO (XO (XO (XO (XO (XO (XO (XO (XO (XO (XO (XO
    XH)))))))))))))))))))))))))))))))))))))))))))))))))))) :: ((Some
    N0) :: ((Some N0) :: ((Some N0) :: ((Some (Npos (XO (XO (XO (XO (XO (XO
    (XO (XO (XO (XO (XO (XO (XO (XO (XO (XO (XO (XO (XO (XO (XO (XO (XO (XO
    (XO (XO (XO (XO (XO (XO (XO (XO (XO (XO (XO (XO (XO (XO (XO (XO (XO (XO
    (XO (XO (XO (XO (XO (XO (XO (XO (XO (XO
    XH)))))))))))))))))))))))))))))))))))))))))))))))))))))) :: ((Some (Npos
    (XO (XO (XO (XO (XO (XO (XO (XO (XO (XO (XO (XO (XO (XO (XO (XO (XO (XO
    (XO (XO (XO (XO (XO (XO (XO (XO (XO (XO (XO (XO (XO (XO (XO (XO (XO (XO
    (XO (XO (XO (XO (XO (XO (XO (XO (XO (XO (XO (XO (XO (XO (XO (XO (XI
    XH))))))))))))))))))))))))))))))))))))))))))))))))))))))) :: ((Some (Npos
    (XO (XO (XO (XO (XO (XO (XO (XO (XO (XO (XO (XO (XO (XO (XO (XO (XO (XO
    (XO (XO (XO (XO (XO (XO (XO (XO (XO (XO (XO (XO (XO (XO (XO (XO (XO (XO
    (XO (XO (XO (XO (XO (XO (XO (XO (XO (XO (XO (XO (XO (XO (XO (XO (XI (XI
    XH)))))))))))))))))))))))))))))))))))))))))))))))))))))))) :: (None :: (None :: ((Some
    N0) :: ((Some N0) :: ((Some
    N0) :: (None :: (None :: (None :: [])))))))))))))))))))))))))))))))))))))))))))))))))))))))))))))))) :: ((None :: (None :: (None :: (None :: ((Some
    (Npos (XO (XO (XO (XO (XO (XO (XO (XO (XO (XO (XO (XO (XI (XO (XO (XO (XO
    (XO (XO (XO (XI (XO (XO (XO (XO (XO (XO (XO (XI (XO (XO (XO (XO (XO (XO
    (XO (XI (XO (XO (XO (XO (XO (XO (XO
    XH)))))))))))))))))))))))))))))))))))))))))))))) :: (None :: (None :: (None :: (None :: (None :: (None :: (None :: ((Some
    (Npos (XO (XO (XO (XO (XO (XO (XO (XO (XO (XO (XO (XO (XO (XO (XO (XO (XO
    (XO (XO (XO (XI (XO (XO (XO (XO (XO (XO (XO (XI (XO (XO (XO (XO (XO (XO
    (XO (XI (XO (XO (XO (XO (XO (XO (XO
    XH)))))))))))))))))))))))))))))))))))))))))))))) :: (None :: (None :: (None :: ((Some
    (Npos (XO (XO (XO (XO (XO (XO (XO (XO (XO (XO (XO (XO (XO (XO (XO (XO (XO
    (XO (XO (XO (XO (XO (XO (XO (XO (XI (XO (XO (XO (XO (XO (XO (XO (XO (XI
    (XO (XO (XO (XO (XO (XO (XO (XO
    XH))))))))))))))))))))))))))))))))))))))))))))) :: (None :: (None :: (None :: ((Some
    (Npos (XO (XO (XO (XO (XO (XO (XO (XO (XO (XO (XO (XO (XO (XO (XO (XO (XO
    (XO (XO (XO (XO (XO (XO (XO (XO (XO (XO (XO (XI (XO (XO (XO (XO (XO (XO
    (XO (XI (XO (XO (XO (XO (XO (XO (XO
    XH)))))))))))))))))))))))))))))))))))))))))))))) :: (None :: (None :: (None :: (None :: ((Some
    (Npos (XO (XO (XO (XO (XO (XO (XO (XO (XO (XO (XO (XO (XO (XO (XO (XO (XO
    (XO (XO (XO (XO (XO (XO (XO (XO (XO (XO (XO (XO (XO (XO (XO (XO (XO (XI
    (XO (XO (XO (XO (XO (XO (XO (XO
    XH))))))))))))))))))))))))))))))))))))))))))))) :: (None :: (None :: ((Some
    (Npos (XO (XO (XO (XO (XO (XO (XO (XO (XO (XO (XO (XO (XO (XO (XO (XO (XO
    (XO (XO (XO (XO (XO (XO (XO (XO (XO (XO (XO (XO (XO (XO (XO (XO (XO (XO
    (XO (XI (XO (XO (XO (XO (XO (XO (XO
    XH)))))))))))))))))))))))))))))))))))))))))))))) :: (None :: (None :: ((Some
    (Npos (XO (XO (XO (XO (XO (XO (XO (XO (XO (XO (XO (XO (XO (XO (XO (XO (XO
    (XO (XO (XO (XO (XO (XO (XO (XO (XO (XO (XO (XO (XO (XO (XO (XO (XO (XO
    (XO (XO (XO (XI (XO (XO (XO (XO (XO (XO
    XH))))))))))))))))))))))))))))))))))))))))))))))) :: (None :: (None :: ((Some
    (Npos (XO (XO (XO (XO (XO (XO (XO (XO (XO (XO (XO (XO (XO (XO (XO (XO (XO
    (XO (XO (XO (XO (XO (XO (XO (XO (XO (XO (XO (XO (XO (XO (XO (XO (XO (XO
    (XO (XO (XO (XO (XO (XO (XO (XO
    XH))))))))))))))))))))))))))))))))))))))))))))) :: (None :: ((Some (Npos
    (XO (XO (XO (XO (XO (XO (XO (XO (XO (XO (XO (XO (XO (XO (XO (XO (XO (XO
    (XO (XO (XO (XO (XO (XO (XO (XO (XO (XO (XO (XO (XO (XO (XO (XO (XO (XO
    (XO (XO (XO (XO (XO (XO (XO (XO
    XH)))))))))))))))))))))))))))))))))))))))))))))) :: (None :: ((Some (Npos
    (XO (XO (XO (XO (XO (XO (XO (XO (XO (XO (XO (XO (XO (XO (XO (XO (XO (XO
    (XO (XO (XO (XO (XO (XO (XO (XO (XO (XO (XO (XO (XO (XO (XO (XO (XO (XO
    (XO (XO (XO (XO (XO (XO (XO (XO (XO
    XH))))))))))))))))))))))))))))))))))))))))))))))) :: (None :: (None :: (None :: (None :: ((Some
    N0) :: ((Some N0) :: ((Some N0) :: (None :: (None :: ((Some (Npos (XO (XO
    (XO (XO (XO (XO (XO (XO (XO (XO (XO (XO (XO (XO (XO (XO (XO (XO (XO (XO
    (XO (XO (XO (XO (XO (XO (XO (XO (XO (XO (XO (XO (XO (XO (XO (XO (XO (XO
    (XO (XO (XO (XO (XO (XO (XO (XO (XO (XO (XO (XI (XI
    XH))))))))))))))))))))))))))))))))))))))))))))))))))))) :: ((Some (Npos
    (XO (XO (XO (XO (XO (XO (XO (XO (XO (XO (XO (XO (XO (XO (XO (XO (XO (XO
    (XO (XO (XO (XO (XO (XO (XO (XO (XO (XO (XO (XO (XO (XO (XO (XO (XO (XO
    (XO (XO (XO (XO (XO (XO (XO (XO (XO (XO (XO (XO (XO (XO (XI
    XH))))))))))))))))))))))))))))))))))))))))))))))))))))) :: ((Some (Npos
    (XO (XO (XO (XO (XO (XO (XO (XO (XO (XO (XO (XO (XO (XO (XO (XO (XO (XO
    (XO (XO (XO (XO (XO (XO (XO (XO (XO (XO (XO (XO (XO (XO (XO (XO (XO (XO
    (XO (XO (XO (XO (XO (XO (XO (XO (XO (XO (XO (XO (XO (XO (XO
    XH))))))))))))))))))))))))))))))))))))))))))))))))))))) :: ((Some
    N0) :: ((Some N0) :: ((Some N0) :: ((Some (Npos (XO (XO (XO (XO (XO (XO
    (XO (XO (XO (XO (XO (XO (XO (XO (XO (XO (XO (XO (XO (XO (XO (XO (XO (XO
    (XO (XO (XO (XO (XO (XO (XO (XO (XO (XO (XO (XO (XO (XO (XO (XO (XO (XO
    (XO (XO (XO (XO (XO (XO (XO (XO (XO (XO (XO
    XH))))))))))))))))))))))))))))))))))))))))))))))))))))))) :: ((Some (Npos
    (XO (XO (XO (XO (XO (XO (XO (XO (XO (XO (XO (XO (XO (XO (XO (XO (XO (XO
    (XO (XO (XO (XO (XO (XO (XO (XO (XO (XO (XO (XO (XO (XO (XO (XO (XO (XO
    (XO (XO (XO (XO (XO (XO (XO (XO (XO (XO (XO (XO (XO (XO (XO (XO (XO (XI
    XH)))))))))))))))))))))))))))))))))))))))))))))))))))))))) :: (None :: (None :: (None :: ((Some
    N0) :: ((Some N0) :: ((Some
    N0) :: (None :: (None :: [])))))))))))))))))))))))))))))))))))))))))))))))))))))))))))))))) :: ((None :: (None :: (None :: (None :: (None :: ((Some
    (Npos (XO (XO (XO (XO (XO (XO (XO (XO (XO (XO (XO (XO (XO (XI (XO (XO (XO
    (XO (XO (XO (XO (XI (XO (XO (XO (XO (XO (XO (XO (XI (XO (XO (XO (XO (XO
    (XO (XO (XI (XO (XO (XO (XO (XO (XO (XO
    XH))))))))))))))))))))))))))))))))))))))))))))))) :: (None :: (None :: ((Some
    (Npos (XO (XO (XO (XO (XO (XO (XO (XO (XO (XO (XO (XO (XO (XO (XO (XO (XO
    (XI (XO (XO (XO (XO (XO (XO (XO (XO (XI (XO (XO (XO (XO (XO (XO (XO (XO
    (XI (XO (XO (XO (XO (XO (XO (XO (XO
    XH)))))))))))))))))))))))))))))))))))))))))))))) :: (None :: (None :: (None :: (None :: ((Some
    (Npos (XO (XO (XO (XO (XO (XO (XO (XO (XO (XO (XO (XO (XO (XO (XO (XO (XO
    (XO (XO (XO (XO (XI (XO (XO (XO (XO (XO (XO (XO (XI (XO (XO (XO (XO (XO
    (XO (XO (XI (XO (XO (XO (XO (XO (XO (XO
    XH))))))))))))))))))))))))))))))))))))))))))))))) :: (None :: (None :: (None :: ((Some
    (Npos (XO (XO (XO (XO (XO (XO (XO (XO (XO (XO (XO (XO (XO (XO (XO (XO (XO
    (XO (XO (XO (XO (XO (XO (XO (XO (XO (XI (XO (XO (XO (XO (XO (XO (XO (XO
    (XI (XO (XO (XO (XO (XO (XO (XO (XO
    XH)))))))))))))))))))))))))))))))))))))))))))))) :: (None :: (None :: (None :: ((Some
    (Npos (XO (XO (XO (XO (XO (XO (XO (XO (XO (XO (XO (XO (XO (XO (XO (XO (XO
    (XO (XO (XO (XO (XO (XO (XO (XO (XO (XO (XO (XO (XI (XO (XO (XO (XO (XO
    (XO (XO (XI (XO (XO (XO (XO (XO (XO (XO
    XH))))))))))))))))))))))))))))))))))))))))))))))) :: (None :: (None :: (None :: (None :: ((Some
    (Npos (XO (XO (XO (XO (XO (XO (XO (XO (XO (XO (XO (XO (XO (XO (XO (XO (XO
    (XO (XO (XO (XO (XO (XO (XO (XO (XO (XO (XO (XO (XO (XO (XO (XO (XO (XO
    (XI (XO (XO (XO (XO (XO (XO (XO (XO
    XH)))))))))))))))))))))))))))))))))))))))))))))) :: (None :: (None :: ((Some
    (Npos (XO (XO (XO (XO (XO (XO (XO (XO (XO (XO (XO (XO (XO (XO (XO (XO (XO
    (XO (XO (XO (XO (XO (XO (XO (XO (XO (XO (XO (XO (XO (XO (XO (XO (XO (XO
    (XO (XO (XI (XO (XO (XO (XO (XO (XO (XO
    XH))))))))))))))))))))))))))))))))))))))))))))))) :: (None :: (None :: (None :: (None :: (None :: ((Some
    (Npos (XO (XO (XO (XO (XO (XO (XO (XO (XO (XO (XO (XO (XO (XO (XO (XO (XO
    (XO (XO (XO (XO (XO (XO (XO (XO (XO (XO (XO (XO (XO (XO (XO (XO (XO (XO
    (XO (XO (XO (XO (XO (XO (XO (XO (XO
    XH)))))))))))))))))))))))))))))))))))))))))))))) :: (None :: ((Some (Npos
    (XO (XO (XO (XO (XO (XO (XO (XO (XO (XO (XO (XO (XO (XO (XO (XO (XO (XO
    (XO (XO (XO (XO (XO (XO (XO (XO (XO (XO (XO (XO (XO (XO (XO (XO (XO (XO
    (XO (XO (XO (XO (XO (XO (XO (XO (XO
    XH))))))))))))))))))))))))))))))))))))))))))))))) :: (None :: ((Some
    (Npos (XO (XO (XO (XO (XO (XO (XO (XO (XO (XO (XO (XO (XO (XO (XO (XO (XO
    (XO (XO (XO (XO (XO (XO (XO (XO (XO (XO (XO (XO (XO (XO (XO (XO (XO (XO
    (XO (XO (XO (XO (XO (XO (XO (XO (XO (XO (XO
    XH)))))))))))))))))))))))))))))))))))))))))))))))) :: (None :: (None :: (None :: (None :: ((Some
    N0) :: ((Some N0) :: ((Some N0) :: (None :: ((Some (Npos (XO (XO (XO (XO
    (XO (XO (XO (XO (XO (XO (XO (XO (XO (XO (XO (XO (XO (XO (XO (XO (XO (XO
    (XO (XO (XO (XO (XO (XO (XO (XO (XO (XO (XO (XO (XO (XO (XO (XO (XO (XO
    (XO (XO (XO (XO (XO (XO (XO (XO (XO (XI (XI (XI
    XH)))))))))))))))))))))))))))))))))))))))))))))))))))))) :: ((Some (Npos
    (XO (XO (XO (XO (XO (XO (XO (XO (XO (XO (XO (XO (XO (XO (XO (XO (XO (XO
    (XO (XO (XO (XO (XO (XO (XO (XO (XO (XO (XO (XO (XO (XO (XO (XO (XO (XO
    (XO (XO (XO (XO (XO (XO (XO (XO (XO (XO (XO (XO (XO (XO (XI (XI
    XH)))))))))))))))))))))))))))))))))))))))))))))))))))))) :: ((Some (Npos
    (XO (XO (XO (XO (XO (XO (XO (XO (XO (XO (XO (XO (XO (XO (XO (XO (XO (XO
    (XO (XO (XO (XO (XO (XO (XO (XO (XO (XO (XO (XO (XO (XO (XO (XO (XO (XO
    (XO (XO (XO (XO (XO (XO (XO (XO (XO (XO (XO (XO (XO (XO (XO (XI
    XH)))))))))))))))))))))))))))))))))))))))))))))))))))))) :: ((Some (Npos
    (XO (XO (XO (XO (XO (XO (XO (XO (XO (XO (XO (XO (XO (XO (XO (XO (XO (XO
    (XO (XO (XO (XO (XO (XO (XO (XO (XO (XO (XO (XO (XO (XO (XO (XO (XO (XO
    (XO (XO (XO (XO (XO (XO (XO (XO (XO (XO (XO (XO (XO (XO (XO (XO
    XH)))))))))))))))))))))))))))))))))))))))))))))))))))))) :: ((Some
    N0) :: ((Some N0) :: ((Some N0) :: ((Some (Npos (XO (XO (XO (XO (XO (XO
    (XO (XO (XO (XO (XO (XO (XO (XO (XO (XO (XO (XO (XO (XO (XO (XO (XO (XO
    (XO (XO (XO (XO (XO (XO (XO (XO (XO (XO (XO (XO (XO (XO (XO (XO (XO (XO
    (XO (XO (XO (XO (XO (XO (XO (XO (XO (XO (XO (XO
    XH)))))))))))))))))))))))))))))))))))))))))))))))))))))))) :: (None :: (None :: (None :: (None :: ((Some
    N0) :: ((Some N0) :: ((Some
    N0) :: (None :: [])))))))))))))))))))))))))))))))))))))))))))))))))))))))))))))))) :: (((Some
    (Npos (XO (XO (XO (XO (XO (XO (XO (XO (XO (XI (XO (XO (XO (XO (XO (XO (XO
    (XO (XI (XO (XO (XO (XO (XO (XO (XO (XO (XI (XO (XO (XO (XO (XO (XO (XO
    (XO (XI (XO (XO (XO (XO (XO (XO (XO (XO
    XH))))))))))))))))))))))))))))))))))))))))))))))) :: (None :: (None :: (None :: (None :: (None :: ((Some
    (Npos (XO (XO (XO (XO (XO (XO (XO (XO (XO (XO (XO (XO (XO (XO (XI (XO (XO
    (XO (XO (XO (XO (XO (XI (XO (XO (XO (XO (XO (XO (XO (XI (XO (XO (XO (XO
    (XO (XO (XO (XI (XO (XO (XO (XO (XO (XO (XO
    XH)))))))))))))))))))))))))))))))))))))))))))))))) :: (None :: (None :: ((Some
    (Npos (XO (XO (XO (XO (XO (XO (XO (XO (XO (XO (XO (XO (XO (XO (XO (XO (XO
    (XO (XI (XO (XO (XO (XO (XO (XO (XO (XO (XI (XO (XO (XO (XO (XO (XO (XO
    (XO (XI (XO (XO (XO (XO (XO (XO (XO (XO
    XH))))))))))))))))))))))))))))))))))))))))))))))) :: (None :: (None :: (None :: (None :: ((Some
    (Npos (XO (XO (XO (XO (XO (XO (XO (XO (XO (XO (XO (XO (XO (XO (XO (XO (XO
    (XO (XO (XO (XO (XO (XI (XO (XO (XO (XO (XO (XO (XO (XI (XO (XO (XO (XO
    (XO (XO (XO (XI (XO (XO (XO (XO (XO (XO (XO
    XH)))))))))))))))))))))))))))))))))))))))))))))))) :: (None :: (None :: (None :: ((Some
    (Npos (XO (XO (XO (XO (XO (XO (XO (XO (XO (XO (XO (XO (XO (XO (XO (XO (XO
    (XO (XO (XO (XO (XO (XO (XO (XO (XO (XO (XI (XO (XO (XO (XO (XO (XO (XO
    (XO (XI (XO (XO (XO (XO (XO (XO (XO (XO
    XH))))))))))))))))))))))))))))))))))))))))))))))) :: (None :: (None :: (None :: ((Some
    (Npos (XO (XO (XO (XO (XO (XO (XO (XO (XO (XO (XO (XO (XO (XO (XO (XO (XO
    (XO (XO (XO (XO (XO (XO (XO (XO (XO (XO (XO (XO (XO (XI (XO (XO (XO (XO
    (XO (XO (XO (XI (XO (XO (XO (XO (XO (XO (XO
    XH)))))))))))))))))))))))))))))))))))))))))))))))) :: (None :: (None :: (None :: (None :: ((Some
    (Npos (XO (XO (XO (XO (XO (XO (XO (XO (XO (XO (XO (XO (XO (XO (XO (XO (XO
    (XO (XO (XO (XO (XO (XO (XO (XO (XO (XO (XO (XO (XO (XO (XO (XO (XO (XO
    (XO (XI (XO (XO (XO (XO (XO (XO (XO (XO
    XH))))))))))))))))))))))))))))))))))))))))))))))) :: (None :: (None :: ((Some
    (Npos (XO (XO (XO (XO (XO (XO (XO (XO (XO (XO (XO (XO (XO (XO (XO (XO (XO
    (XO (XO (XO (XO (XO (XO (XO (XO (XO (XO (XO (XO (XO (XO (XO (XO (XO (XO
    (XO (XO (XO (XI (XO (XO (XO (XO (XO (XO (XO
    XH)))))))))))))))))))))))))))))))))))))))))))))))) :: (None :: (None :: (None :: (None :: (None :: ((Some
    (Npos (XO (XO (XO (XO (XO (XO (XO (XO (XO (XO (XO (XO (XO (XO (XO (XO (XO
    (XO (XO (XO (XO (XO (XO (XO (XO (XO (XO (XO (XO (XO (XO (XO (XO (XO (XO
    (XO (XO (XO (XO (XO (XO (XO (XO (XO (XO
    XH))))))))))))))))))))))))))))))))))))))))))))))) :: (None :: ((Some
    (Npos (XO (XO (XO (XO (XO (XO (XO (XO (XO (XO (XO (XO (XO (XO (XO (XO (XO
    (XO (XO (XO (XO (XO (XO (XO (XO (XO (XO (XO (XO (XO (XO (XO (XO (XO (XO
    (XO (XO (XO (XO (XO (XO (XO (XO (XO (XO (XO
    XH)))))))))))))))))))))))))))))))))))))))))))))))) :: (None :: (None :: (None :: (None :: (None :: (None :: ((Some
    N0) :: ((Some N0) :: ((Some N0) :: ((Some (Npos (XO (XO (XO (XO (XO (XO
    (XO (XO (XO (XO (XO (XO (XO (XO (XO (XO (XO (XO (XO (XO (XO (XO (XO (XO
    (XO (XO (XO (XO (XO (XO (XO (XO (XO (XO (XO (XO (XO (XO (XO (XO (XO (XO
    (XO (XO (XO (XO (XO (XO (XO (XI (XI (XI (XI
    XH))))))))))))))))))))))))))))))))))))))))))))))))))))))) :: ((Some (Npos
    (XO (XO (XO (XO (XO (XO (XO (XO (XO (XO (XO (XO (XO (XO (XO (XO (XO (XO
    (XO (XO (XO (XO (XO (XO (XO (XO (XO (XO (XO (XO (XO (XO (XO (XO (XO (XO
    (XO (XO (XO (XO (XO (XO (XO (XO (XO (XO (XO (XO (XO (XO (XI (XI (XI
    XH))))))))))))))))))))))))))))))))))))))))))))))))))))))) :: ((Some (Npos
    (XO (XO (XO (XO (XO (XO (XO (XO (XO (XO (XO (XO (XO (XO (XO (XO (XO (XO
    (XO (XO (XO (XO (XO (XO (XO (XO (XO (XO (XO (XO (XO (XO (XO (XO (XO (XO
    (XO (XO (XO (XO (XO (XO (XO (XO (XO (XO (XO (XO (XO (XO (XO (XI (XI
    XH))))))))))))))))))))))))))))))))))))))))))))))))))))))) :: ((Some (Npos
    (XO (XO (XO (XO (XO (XO (XO (XO (XO (XO (XO (XO (XO (XO (XO (XO (XO (XO
    (XO (XO (XO (XO (XO (XO (XO (XO (XO (XO (XO (XO (XO (XO (XO (XO (XO (XO
    (XO (XO (XO (XO (XO (XO (XO (XO (XO (XO (XO (XO (XO (XO (XO (XO (XI
    XH))))))))))))))))))))))))))))))))))))))))))))))))))))))) :: ((Some (Npos
    (XO (XO (XO (XO (XO (XO (XO (XO (XO (XO (XO (XO (XO (XO (XO (XO (XO (XO
    (XO (XO (XO (XO (XO (XO (XO (XO (XO (XO (XO (XO (XO (XO (XO (XO (XO (XO
    (XO (XO (XO (XO (XO (XO (XO (XO (XO (XO (XO (XO (XO (XO (XO (XO (XO
    XH))))))))))))))))))))))))))))))))))))))))))))))))))))))) :: ((Some
    N0) :: ((Some N0) :: ((Some
    N0) :: (None :: (None :: (None :: (None :: (None :: ((Some N0) :: ((Some
    N0) :: ((Some
    N0) :: [])))))))))))))))))))))))))))))))))))))))))))))))))))))))))))))))) :: ((None :: ((Some
    (Npos (XO (XO (XO (XO (XO (XO (XO (XO (XO (XO (XI (XO (XO (XO (XO (XO (XO
    (XO (XO (XI (XO (XO (XO (XO (XO (XO (XO (XO (XI (XO (XO (XO (XO (XO (XO
    (XO (XO (XI (XO (XO (XO (XO (XO (XO (XO (XO
    XH)))))))))))))))))))))))))))))))))))))))))))))))) :: (None :: (None :: (None :: (None :: (None :: ((Some
    (Npos (XO (XO (XO (XO (XO (XO (XO (XO (XO (XO (XO (XO (XO (XO (XO (XI (XO
    (XO (XO (XO (XO (XO (XO (XI (XO (XO (XO (XO (XO (XO (XO (XI (XO (XO (XO
    (XO (XO (XO (XO (XI (XO (XO (XO (XO (XO (XO (XO
    XH))))))))))))))))))))))))))))))))))))))))))))))))) :: (None :: (None :: ((Some
    (Npos (XO (XO (XO (XO (XO (XO (XO (XO (XO (XO (XO (XO (XO (XO (XO (XO (XO
    (XO (XO (XI (XO (XO (XO (XO (XO (XO (XO (XO (XI (XO (XO (XO (XO (XO (XO
    (XO (XO (XI (XO (XO (XO (XO (XO (XO (XO (XO
    XH)))))))))))))))))))))))))))))))))))))))))))))))) :: (None :: (None :: (None :: (None :: ((Some
    (Npos (XO (XO (XO (XO (XO (XO (XO (XO (XO (XO (XO (XO (XO (XO (XO (XO (XO
    (XO (XO (XO (XO (XO (XO (XI (XO (XO (XO (XO (XO (XO (XO (XI (XO (XO (XO
    (XO (XO (XO (XO (XI (XO (XO (XO (XO (XO (XO (XO
    XH))))))))))))))))))))))))))))))))))))))))))))))))) :: (None :: (None :: (None :: ((Some
    (Npos (XO (XO (XO (XO (XO (XO (XO (XO (XO (XO (XO (XO (XO (XO (XO (XO (XO
    (XO (XO (XO (XO (XO (XO (XO (XO (XO (XO (XO (XI (XO (XO (XO (XO (XO (XO
    (XO (XO (XI (XO (XO (XO (XO (XO (XO (XO (XO
    XH)))))))))))))))))))))))))))))))))))))))))))))))) :: (None :: (None :: (None :: ((Some
    (Npos (XO (XO (XO (XO (XO (XO (XO (XO (XO (XO (XO (XO (XO (XO (XO (XO (XO
    (XO (XO (XO (XO (XO (XO (XO (XO (XO (XO (XO (XO (XO (XO (XI (XO (XO (XO
    (XO (XO (XO (XO (XI (XO (XO (XO (XO (XO (XO (XO
    XH))))))))))))))))))))))))))))))))))))))))))))))))) :: (None :: (None :: (None :: (None :: ((Some
    (Npos (XO (XO (XO (XO (XO (XO (XO (XO (XO (XO (XO (XO (XO (XO (XO (XO (XO
    (XO (XO (XO (XO (XO (XO (XO (XO (XO (XO (XO (XO (XO (XO (XO (XO (XO (XO
    (XO (XO (XI (XO (XO (XO (XO (XO (XO (XO (XO
    XH)))))))))))))))))))))))))))))))))))))))))))))))) :: (None :: (None :: ((Some
    (Npos (XO (XO (XO (XO (XO (XO (XO (XO (XO (XO (XO (XO (XO (XO (XO (XO (XO
    (XO (XO (XO (XO (XO (XO (XO (XO (XO (XO (XO (XO (XO (XO (XO (XO (XO (XO
    (XO (XO (XO (XO (XI (XO (XO (XO (XO (XO (XO (XO
    XH))))))))))))))))))))))))))))))))))))))))))))))))) :: (None :: (None :: (None :: (None :: (None :: ((Some
    (Npos (XO (XO (XO (XO (XO (XO (XO (XO (XO (XO (XO (XO (XO (XO (XO (XO (XO
    (XO (XO (XO (XO (XO (XO (XO (XO (XO (XO (XO (XO (XO (XO (XO (XO (XO (XO
    (XO (XO (XO (XO (XO (XO (XO (XO (XO (XO (XO
    XH)))))))))))))))))))))))))))))))))))))))))))))))) :: (None :: ((Some
    (Npos (XO (XO (XO (XO (XO (XO (XO (XO (XO (XO (XO (XO (XO (XO (XO (XO (XO
    (XO (XO (XO (XO (XO (XO (XO (XO (XO (XO (XO (XO (XO (XO (XO (XO (XO (XO
    (XO (XO (XO (XO (XO (XO (XO (XO (XO (XO (XO (XO
    XH))))))))))))))))))))))))))))))))))))))))))))))))) :: (None :: (None :: (None :: (None :: (None :: (None :: ((Some
    N0) :: ((Some N0) :: ((Some (Npos (XO (XO (XO (XO (XO (XO (XO (XO (XO (XO
    (XO (XO (XO (XO (XO (XO (XO (XO (XO (XO (XO (XO (XO (XO (XO (XO (XO (XO
    (XO (XO (XO (XO (XO (XO (XO (XO (XO (XO (XO (XO (XO (XO (XO (XO (XO (XO
    (XO (XO (XO (XI (XI (XI (XI (XI
    XH)))))))))))))))))))))))))))))))))))))))))))))))))))))))) :: ((Some
    (Npos (XO (XO (XO (XO (XO (XO (XO (XO (XO (XO (XO (XO (XO (XO (XO (XO (XO
    (XO (XO (XO (XO (XO (XO (XO (XO (XO (XO (XO (XO (XO (XO (XO (XO (XO (XO
    (XO (XO (XO (XO (XO (XO (XO (XO (XO (XO (XO (XO (XO (XO (XO (XI (XI (XI
    (XI XH)))))))))))))))))))))))))))))))))))))))))))))))))))))))) :: ((Some
    (Npos (XO (XO (XO (XO (XO (XO (XO (XO (XO (XO (XO (XO (XO (XO (XO (XO (XO
    (XO (XO (XO (XO (XO (XO (XO (XO (XO (XO (XO (XO (XO (XO (XO (XO (XO (XO
    (XO (XO (XO (XO (XO (XO (XO (XO (XO (XO (XO (XO (XO (XO (XO (XO (XI (XI
    (XI XH)))))))))))))))))))))))))))))))))))))))))))))))))))))))) :: ((Some
    (Npos (XO (XO (XO (XO (XO (XO (XO (XO (XO (XO (XO (XO (XO (XO (XO (XO (XO
    (XO (XO (XO (XO (XO (XO (XO (XO (XO (XO (XO (XO (XO (XO (XO (XO (XO (XO
    (XO (XO (XO (XO (XO (XO (XO (XO (XO (XO (XO (XO (XO (XO (XO (XO (XO (XI
    (XI XH)))))))))))))))))))))))))))))))))))))))))))))))))))))))) :: ((Some
    (Npos (XO (XO (XO (XO (XO (XO (XO (XO (XO (XO (XO (XO (XO (XO (XO (XO (XO
    (XO (XO (XO (XO (XO (XO (XO (XO (XO (XO (XO (XO (XO (XO (XO (XO (XO (XO
    (XO (XO (XO (XO (XO (XO (XO (XO (XO (XO (XO (XO (XO (XO (XO (XO (XO (XO
    (XI XH)))))))))))))))))))))))))))))))))))))))))))))))))))))))) :: ((Some
    (Npos (XO (XO (XO (XO (XO (XO (XO (XO (XO (XO (XO (XO (XO (XO (XO (XO (XO
    (XO (XO (XO (XO (XO (XO (XO (XO (XO (XO (XO (XO (XO (XO (XO (XO (XO (XO
    (XO (XO (XO (XO (XO (XO (XO (XO (XO (XO (XO (XO (XO (XO (XO (XO (XO (XO
    (XO XH)))))))))))))))))))))))))))))))))))))))))))))))))))))))) :: ((Some
    N0) :: ((Some
    N0) :: (None :: (None :: (None :: (None :: (None :: (None :: ((Some
    N0) :: ((Some
    N0) :: [])))))))))))))))))))))))))))))))))))))))))))))))))))))))))))))))) :: (((Some
    (Npos (XO (XO (XO (XO (XO (XO (XO (XO (XI (XO (XO (XO (XO (XO (XO (XO (XI
    (XO (XO (XO (XO (XO (XO (XO (XI (XO (XO (XO (XO (XO (XO (XO (XI (XO (XO
    (XO (XO (XO (XO (XO (XI (XO (XO (XO (XO (XO (XO (XO
    XH)))))))))))))))))))))))))))))))))))))))))))))))))) :: (None :: (None :: (None :: (None :: (None :: (None :: ((Some
    (Npos (XO (XO (XO (XO (XO (XO (XO (XO (XO (XO (XO (XO (XO (XO (XI (XO (XO
    (XO (XO (XO (XO (XI (XO (XO (XO (XO (XO (XO (XI (XO (XO (XO (XO (XO (XO
    (XI (XO (XO (XO (XO (XO (XO (XI (XO (XO (XO (XO (XO (XO
    XH))))))))))))))))))))))))))))))))))))))))))))))))))) :: ((Some (Npos (XO
    (XO (XO (XO (XO (XO (XO (XO (XO (XO (XO (XO (XO (XO (XO (XO (XI (XO (XO
    (XO (XO (XO (XO (XO (XI (XO (XO (XO (XO (XO (XO (XO (XI (XO (XO (XO (XO
    (XO (XO (XO (XI (XO (XO (XO (XO (XO (XO (XO
    XH)))))))))))))))))))))))))))))))))))))))))))))))))) :: (None :: (None :: (None :: (None :: (None :: ((Some
    (Npos (XO (XO (XO (XO (XO (XO (XO (XO (XO (XO (XO (XO (XO (XO (XO (XO (XO
    (XO (XO (XO (XO (XI (XO (XO (XO (XO (XO (XO (XI (XO (XO (XO (XO (XO (XO
    (XI (XO (XO (XO (XO (XO (XO (XI (XO (XO (XO (XO (XO (XO
    XH))))))))))))))))))))))))))))))))))))))))))))))))))) :: (None :: ((Some
    (Npos (XO (XO (XO (XO (XO (XO (XO (XO (XO (XO (XO (XO (XO (XO (XO (XO (XO
    (XO (XO (XO (XO (XO (XO (XO (XI (XO (XO (XO (XO (XO (XO (XO (XI (XO (XO
    (XO (XO (XO (XO (XO (XI (XO (XO (XO (XO (XO (XO (XO
    XH)))))))))))))))))))))))))))))))))))))))))))))))))) :: (None :: (None :: (None :: (None :: ((Some
    (Npos (XO (XO (XO (XO (XO (XO (XO (XO (XO (XO (XO (XO (XO (XO (XO (XO (XO
    (XO (XO (XO (XO (XO (XO (XO (XO (XO (XO (XO (XI (XO (XO (XO (XO (XO (XO
    (XI (XO (XO (XO (XO (XO (XO (XI (XO (XO (XO (XO (XO (XO
    XH))))))))))))))))))))))))))))))))))))))))))))))))))) :: (None :: (None :: ((Some
    (Npos (XO (XO (XO (XO (XO (XO (XO (XO (XO (XO (XO (XO (XO (XO (XO (XO (XO
    (XO (XO (XO (XO (XO (XO (XO (XO (XO (XO (XO (XO (XO (XO (XO (XI (XO (XO
    (XO (XO (XO (XO (XO (XI (XO (XO (XO (XO (XO (XO (XO
    XH)))))))))))))))))))))))))))))))))))))))))))))))))) :: (None :: (None :: (None :: ((Some
    (Npos (XO (XO (XO (XO (XO (XO (XO (XO (XO (XO (XO (XO (XO (XO (XO (XO (XO
    (XO (XO (XO (XO (XO (XO (XO (XO (XO (XO (XO (XO (XO (XO (XO (XO (XO (XO
    (XI (XO (XO (XO (XO (XO (XO (XI (XO (XO (XO (XO (XO (XO
    XH))))))))))))))))))))))))))))))))))))))))))))))))))) :: (None :: (None :: (None :: ((Some
    (Npos (XO (XO (XO (XO (XO (XO (XO (XO (XO (XO (XO (XO (XO (XO (XO (XO (XO
    (XO (XO (XO (XO (XO (XO (XO (XO (XO (XO (XO (XO (XO (XO (XO (XO (XO (XO
    (XO (XO (XO (XO (XO (XI (XO (XO (XO (XO (XO (XO (XO
    XH)))))))))))))))))))))))))))))))))))))))))))))))))) :: (None :: (None :: ((Some
    (Npos (XO (XO (XO (XO (XO (XO (XO (XO (XO (XO (XO (XO (XO (XO (XO (XO (XO
    (XO (XO (XO (XO (XO (XO (XO (XO (XO (XO (XO (XO (XO (XO (XO (XO (XO (XO
    (XO (XO (XO (XO (XO (XO (XO (XI (XO (XO (XO (XO (XO (XO
    XH))))))))))))))))))))))))))))))))))))))))))))))))))) :: (None :: (None :: (None :: (None :: ((Some
    (Npos (XO (XO (XO (XO (XO (XO (XO (XO (XO (XO (XO (XO (XO (XO (XO (XO (XO
    (XO (XO (XO (XO (XO (XO (XO (XO (XO (XO (XO (XO (XO (XO (XO (XO (XO (XO
    (XO (XO (XO (XO (XO (XO (XO (XO (XO (XO (XO (XO (XO
    XH)))))))))))))))))))))))))))))))))))))))))))))))))) :: (None :: ((Some
    (Npos (XO (XO (XO (XO (XO (XO (XO (XO (XO (XO (XO (XO (XO (XO (XO (XO (XO
    (XO (XO (XO (XO (XO (XO (XO (XO (XO (XO (XO (XO (XO (XO (XO (XO (XO (XO
    (XO (XO (XO (XO (XO (XO (XO (XO (XO (XO (XO (XO (XO (XO
    XH))))))))))))))))))))))))))))))))))))))))))))))))))) :: (None :: (None :: (None :: (None :: (None :: ((Some
    N0) :: ((Some
    N0) :: (None :: (None :: (None :: (None :: (None :: (None :: ((Some
    N0) :: ((Some N0) :: ((Some (Npos (XO (XO (XO (XO (XO (XO (XO (XO (XO (XO
    (XO (XO (XO (XO (XO (XO (XO (XO (XO (XO (XO (XO (XO (XO (XO (XO (XO (XO
    (XO (XO (XO (XO (XO (XO (XO (XO (XO (XO (XO (XO (XO (XO (XO (XO (XO (XO
    (XO (XO (XO (XO (XO (XO (XO (XO (XO (XO (XO
    XH))))))))))))))))))))))))))))))))))))))))))))))))))))))))))) :: ((Some
    (Npos (XO (XO (XO (XO (XO (XO (XO (XO (XO (XO (XO (XO (XO (XO (XO (XO (XO
    (XO (XO (XO (XO (XO (XO (XO (XO (XO (XO (XO (XO (XO (XO (XO (XO (XO (XO
    (XO (XO (XO (XO (XO (XO (XO (XO (XO (XO (XO (XO (XO (XO (XO (XO (XO (XO
    (XO (XO (XO (XO (XI
    XH)))))))))))))))))))))))))))))))))))))))))))))))))))))))))))) :: ((Some
    (Npos (XO (XO (XO (XO (XO (XO (XO (XO (XO (XO (XO (XO (XO (XO (XO (XO (XO
    (XO (XO (XO (XO (XO (XO (XO (XO (XO (XO (XO (XO (XO (XO (XO (XO (XO (XO
    (XO (XO (XO (XO (XO (XO (XO (XO (XO (XO (XO (XO (XO (XO (XO (XO (XO (XO
    (XO (XO (XO (XO (XI (XI
    XH))))))))))))))))))))))))))))))))))))))))))))))))))))))))))))) :: ((Some
    (Npos (XO (XO (XO (XO (XO (XO (XO (XO (XO (XO (XO (XO (XO (XO (XO (XO (XO
    (XO (XO (XO (XO (XO (XO (XO (XO (XO (XO (XO (XO (XO (XO (XO (XO (XO (XO
    (XO (XO (XO (XO (XO (XO (XO (XO (XO (XO (XO (XO (XO (XO (XO (XO (XO (XO
    (XO (XO (XO (XO (XI (XI (XI
    XH)))))))))))))))))))))))))))))))))))))))))))))))))))))))))))))) :: ((Some
    (Npos (XO (XO (XO (XO (XO (XO (XO (XO (XO (XO (XO (XO (XO (XO (XO (XO (XO
    (XO (XO (XO (XO (XO (XO (XO (XO (XO (XO (XO (XO (XO (XO (XO (XO (XO (XO
    (XO (XO (XO (XO (XO (XO (XO (XO (XO (XO (XO (XO (XO (XO (XO (XO (XO (XO
    (XO (XO (XO (XO (XI (XI (XI (XI
    XH))))))))))))))))))))))))))))))))))))))))))))))))))))))))))))))) :: ((Some
    (Npos (XO (XO (XO (XO (XO (XO (XO (XO (XO (XO (XO (XO (XO (XO (XO (XO (XO
    (XO (XO (XO (XO (XO (XO (XO (XO (XO (XO (XO (XO (XO (XO (XO (XO (XO (XO
    (XO (XO (XO (XO (XO (XO (XO (XO (XO (XO (XO (XO (XO (XO (XO (XO (XO (XO
    (XO (XO (XO (XO (XI (XI (XI (XI (XI
    XH)))))))))))))))))))))))))))))))))))))))))))))))))))))))))))))))) :: [])))))))))))))))))))))))))))))))))))))))))))))))))))))))))))))))) :: ((None :: ((Some
    (Npos (XO (XO (XO (XO (XO (XO (XO (XO (XO (XI (XO (XO (XO (XO (XO (XO (XO
    (XI (XO (XO (XO (XO (XO (XO (XO (XI (XO (XO (XO (XO (XO (XO (XO (XI (XO
    (XO (XO (XO (XO (XO (XO (XI (XO (XO (XO (XO (XO (XO (XO
    XH))))))))))))))))))))))))))))))))))))))))))))))))))) :: (None :: (None :: (None :: (None :: (None :: (None :: (None :: ((Some
    (Npos (XO (XO (XO (XO (XO (XO (XO (XO (XO (XO (XO (XO (XO (XO (XO (XO (XO
    (XI (XO (XO (XO (XO (XO (XO (XO (XI (XO (XO (XO (XO (XO (XO (XO (XI (XO
    (XO (XO (XO (XO (XO (XO (XI (XO (XO (XO (XO (XO (XO (XO
    XH))))))))))))))))))))))))))))))))))))))))))))))))))) :: (None :: (None :: (None :: (None :: (None :: ((Some
    (Npos (XO (XO (XO (XO (XO (XO (XO (XO (XO (XO (XO (XO (XO (XO (XO (XO (XO
    (XO (XO (XO (XO (XO (XI (XO (XO (XO (XO (XO (XO (XI (XO (XO (XO (XO (XO
    (XO (XI (XO (XO (XO (XO (XO (XO (XI (XO (XO (XO (XO (XO (XO
    XH)))))))))))))))))))))))))))))))))))))))))))))))))))) :: (None :: ((Some
    (Npos (XO (XO (XO (XO (XO (XO (XO (XO (XO (XO (XO (XO (XO (XO (XO (XO (XO
    (XO (XO (XO (XO (XO (XO (XO (XO (XI (XO (XO (XO (XO (XO (XO (XO (XI (XO
    (XO (XO (XO (XO (XO (XO (XI (XO (XO (XO (XO (XO (XO (XO
    XH))))))))))))))))))))))))))))))))))))))))))))))))))) :: (None :: (None :: (None :: (None :: ((Some
    (Npos (XO (XO (XO (XO (XO (XO (XO (XO (XO (XO (XO (XO (XO (XO (XO (XO (XO
    (XO (XO (XO (XO (XO (XO (XO (XO (XO (XO (XO (XO (XI (XO (XO (XO (XO (XO
    (XO (XI (XO (XO (XO (XO (XO (XO (XI (XO (XO (XO (XO (XO (XO
    XH)))))))))))))))))))))))))))))))))))))))))))))))))))) :: (None :: (None :: ((Some
    (Npos (XO (XO (XO (XO (XO (XO (XO (XO (XO (XO (XO (XO (XO (XO (XO (XO (XO
    (XO (XO (XO (XO (XO (XO (XO (XO (XO (XO (XO (XO (XO (XO (XO (XO (XI (XO
    (XO (XO (XO (XO (XO (XO (XI (XO (XO (XO (XO (XO (XO (XO
    XH))))))))))))))))))))))))))))))))))))))))))))))))))) :: (None :: (None :: (None :: ((Some
    (Npos (XO (XO (XO (XO (XO (XO (XO (XO (XO (XO (XO (XO (XO (XO (XO (XO (XO
    (XO (XO (XO (XO (XO (XO (XO (XO (XO (XO (XO (XO (XO (XO (XO (XO (XO (XO
    (XO (XI (XO (XO (XO (XO (XO (XO (XI (XO (XO (XO (XO (XO (XO
    XH)))))))))))))))))))))))))))))))))))))))))))))))))))) :: (None :: (None :: (None :: ((Some
    (Npos (XO (XO (XO (XO (XO (XO (XO (XO (XO (XO (XO (XO (XO (XO (XO (XO (XO
    (XO (XO (XO (XO (XO (XO (XO (XO (XO (XO (XO (XO (XO (XO (XO (XO (XO (XO
    (XO (XO (XO (XO (XO (XO (XI (XO (XO (XO (XO (XO (XO (XO
    XH))))))))))))))))))))))))))))))))))))))))))))))))))) :: (None :: (None :: ((Some
    (Npos (XO (XO (XO (XO (XO (XO (XO (XO (XO (XO (XO (XO (XO (XO (XO (XO (XO
    (XO (XO (XO (XO (XO (XO (XO (XO (XO (XO (XO (XO (XO (XO (XO (XO (XO (XO
    (XO (XO (XO (XO (XO (XO (XO (XO (XI (XO (XO (XO (XO (XO (XO
    XH)))))))))))))))))))))))))))))))))))))))))))))))))))) :: (None :: (None :: (None :: (None :: ((Some
    (Npos (XO (XO (XO (XO (XO (XO (XO (XO (XO (XO (XO (XO (XO (XO (XO (XO (XO
    (XO (XO (XO (XO (XO (XO (XO (XO (XO (XO (XO (XO (XO (XO (XO (XO (XO (XO
    (XO (XO (XO (XO (XO (XO (XO (XO (XO (XO (XO (XO (XO (XO
    XH))))))))))))))))))))))))))))))))))))))))))))))))))) :: (None :: ((Some
    (Npos (XO (XO (XO (XO (XO (XO (XO (XO (XO (XO (XO (XO (XO (XO (XO (XO (XO
    (XO (XO (XO (XO (XO (XO (XO (XO (XO (XO (XO (XO (XO (XO (XO (XO (XO (XO
    (XO (XO (XO (XO (XO (XO (XO (XO (XO (XO (XO (XO (XO (XO (XO
    XH)))))))))))))))))))))))))))))))))))))))))))))))))))) :: (None :: (None :: (None :: (None :: ((Some
    N0) :: ((Some N0) :: ((Some
    N0) :: (None :: (None :: (None :: (None :: (None :: ((Some N0) :: ((Some
    N0) :: ((Some N0) :: ((Some (Npos (XO (XO (XO (XO (XO (XO (XO (XO (XO (XO
    (XO (XO (XO (XO (XO (XO (XO (XO (XO (XO (XO (XO (XO (XO (XO (XO (XO (XO
    (XO (XO (XO (XO (XO (XO (XO (XO (XO (XO (XO (XO (XO (XO (XO (XO (XO (XO
    (XO (XO (XO (XO (XO (XO (XO (XO (XO (XO (XO (XO
    XH)))))))))))))))))))))))))))))))))))))))))))))))))))))))))))) :: ((Some
    (Npos (XO (XO (XO (XO (XO (XO (XO (XO (XO (XO (XO (XO (XO (XO (XO (XO (XO
    (XO (XO (XO (XO (XO (XO (XO (XO (XO (XO (XO (XO (XO (XO (XO (XO (XO (XO
    (XO (XO (XO (XO (XO (XO (XO (XO (XO (XO (XO (XO (XO (XO (XO (XO (XO (XO
    (XO (XO (XO (XO (XO (XI
    XH))))))))))))))))))))))))))))))))))))))))))))))))))))))))))))) :: ((Some
    (Npos (XO (XO (XO (XO (XO (XO (XO (XO (XO (XO (XO (XO (XO (XO (XO (XO (XO
    (XO (XO (XO (XO (XO (XO (XO (XO (XO (XO (XO (XO (XO (XO (XO (XO (XO (XO
    (XO (XO (XO (XO (XO (XO (XO (XO (XO (XO (XO (XO (XO (XO (XO (XO (XO (XO
    (XO (XO (XO (XO (XO (XI (XI
    XH)))))))))))))))))))))))))))))))))))))))))))))))))))))))))))))) :: ((Some
    (Npos (XO (XO (XO (XO (XO (XO (XO (XO (XO (XO (XO (XO (XO (XO (XO (XO (XO
    (XO (XO (XO (XO (XO (XO (XO (XO (XO (XO (XO (XO (XO (XO (XO (XO (XO (XO
    (XO (XO (XO (XO (XO (XO (XO (XO (XO (XO (XO (XO (XO (XO (XO (XO (XO (XO
    (XO (XO (XO (XO (XO (XI (XI (XI
    XH))))))))))))))))))))))))))))))))))))))))))))))))))))))))))))))) :: ((Some
    (Npos (XO (XO (XO (XO (XO (XO (XO (XO (XO (XO (XO (XO (XO (XO (XO (XO (XO
    (XO (XO (XO (XO (XO (XO (XO (XO (XO (XO (XO (XO (XO (XO (XO (XO (XO (XO
    (XO (XO (XO (XO (XO (XO (XO (XO (XO (XO (XO (XO (XO (XO (XO (XO (XO (XO
    (XO (XO (XO (XO (XO (XI (XI (XI (XI
    XH)))))))))))))))))))))))))))))))))))))))))))))))))))))))))))))))) :: [])))))))))))))))))))))))))))))))))))))))))))))))))))))))))))))))) :: ((None :: (None :: ((Some
    (Npos (XO (XO (XO (XO (XO (XO (XO (XO (XO (XO (XI (XO (XO (XO (XO (XO (XO
    (XO (XI (XO (XO (XO (XO (XO (XO (XO (XI (XO (XO (XO (XO (XO (XO (XO (XI
    (XO (XO (XO (XO (XO (XO (XO (XI (XO (XO (XO (XO (XO (XO (XO
    XH)))))))))))))))))))))))))))))))))))))))))))))))))))) :: (None :: (None :: (None :: (None :: (None :: (None :: (None :: ((Some
    (Npos (XO (XO (XO (XO (XO (XO (XO (XO (XO (XO (XO (XO (XO (XO (XO (XO (XO
    (XO (XI (XO (XO (XO (XO (XO (XO (XO (XI (XO (XO (XO (XO (XO (XO (XO (XI
    (XO (XO (XO (XO (XO (XO (XO (XI (XO (XO (XO (XO (XO (XO (XO
    XH)))))))))))))))))))))))))))))))))))))))))))))))))))) :: (None :: (None :: (None :: (None :: (None :: (None :: (None :: ((Some
    (Npos (XO (XO (XO (XO (XO (XO (XO (XO (XO (XO (XO (XO (XO (XO (XO (XO (XO
    (XO (XO (XO (XO (XO (XO (XO (XO (XO (XI (XO (XO (XO (XO (XO (XO (XO (XI
    (XO (XO (XO (XO (XO (XO (XO (XI (XO (XO (XO (XO (XO (XO (XO
    XH)))))))))))))))))))))))))))))))))))))))))))))))))))) :: (None :: (None :: (None :: (None :: ((Some
    (Npos (XO (XO (XO (XO (XO (XO (XO (XO (XO (XO (XO (XO (XO (XO (XO (XO (XO
    (XO (XO (XO (XO (XO (XO (XO (XO (XO (XO (XO (XO (XO (XI (XO (XO (XO (XO
    (XO (XO (XI (XO (XO (XO (XO (XO (XO (XI (XO (XO (XO (XO (XO (XO
    XH))))))))))))))))))))))))))))))))))))))))))))))))))))) :: (None :: (None :: ((Some
    (Npos (XO (XO (XO (XO (XO (XO (XO (XO (XO (XO (XO (XO (XO (XO (XO (XO (XO
    (XO (XO (XO (XO (XO (XO (XO (XO (XO (XO (XO (XO (XO (XO (XO (XO (XO (XI
    (XO (XO (XO (XO (XO (XO (XO (XI (XO (XO (XO (XO (XO (XO (XO
    XH)))))))))))))))))))))))))))))))))))))))))))))))))))) :: (None :: (None :: (None :: ((Some
    (Npos (XO (XO (XO (XO (XO (XO (XO (XO (XO (XO (XO (XO (XO (XO (XO (XO (XO
    (XO (XO (XO (XO (XO (XO (XO (XO (XO (XO (XO (XO (XO (XO (XO (XO (XO (XO
    (XO (XO (XI (XO (XO (XO (XO (XO (XO (XI (XO (XO (XO (XO (XO (XO
    XH))))))))))))))))))))))))))))))))))))))))))))))))))))) :: (None :: (None :: (None :: ((Some
    (Npos (XO (XO (XO (XO (XO (XO (XO (XO (XO (XO (XO (XO (XO (XO (XO (XO (XO
    (XO (XO (XO (XO (XO (XO (XO (XO (XO (XO (XO (XO (XO (XO (XO (XO (XO (XO
    (XO (XO (XO (XO (XO (XO (XO (XI (XO (XO (XO (XO (XO (XO (XO
    XH)))))))))))))))))))))))))))))))))))))))))))))))))))) :: (None :: (None :: ((Some
    (Npos (XO (XO (XO (XO (XO (XO (XO (XO (XO (XO (XO (XO (XO (XO (XO (XO (XO
    (XO (XO (XO (XO (XO (XO (XO (XO (XO (XO (XO (XO (XO (XO (XO (XO (XO (XO
    (XO (XO (XO (XO (XO (XO (XO (XO (XO (XI (XO (XO (XO (XO (XO (XO
    XH))))))))))))))))))))))))))))))))))))))))))))))))))))) :: (None :: (None :: ((Some
    (Npos (XO (XO (XO (XO (XO (XO (XO (XO (XO (XO (XO (XO (XO (XO (XO (XO (XO
    (XO (XO (XO (XO (XO (XO (XO (XO (XO (XO (XO (XO (XO (XO (XO (XO (XO (XO
    (XO (XO (XO (XO (XO (XO (XO (XO (XO (XO (XO (XO (XO (XO
    XH))))))))))))))))))))))))))))))))))))))))))))))))))) :: (None :: ((Some
    (Npos (XO (XO (XO (XO (XO (XO (XO (XO (XO (XO (XO (XO (XO (XO (XO (XO (XO
    (XO (XO (XO (XO (XO (XO (XO (XO (XO (XO (XO (XO (XO (XO (XO (XO (XO (XO
    (XO (XO (XO (XO (XO (XO (XO (XO (XO (XO (XO (XO (XO (XO (XO
    XH)))))))))))))))))))))))))))))))))))))))))))))))))))) :: (None :: ((Some
    (Npos (XO (XO (XO (XO (XO (XO (XO (XO (XO (XO (XO (XO (XO (XO (XO (XO (XO
    (XO (XO (XO (XO (XO (XO (XO (XO (XO (XO (XO (XO (XO (XO (XO (XO (XO (XO
    (XO (XO (XO (XO (XO (XO (XO (XO (XO (XO (XO (XO (XO (XO (XO (XO
    XH))))))))))))))))))))))))))))))))))))))))))))))))))))) :: (None :: (None :: (None :: (None :: ((Some
    N0) :: ((Some N0) :: ((Some
    N0) :: (None :: (None :: (None :: (None :: ((Some (Npos (XO (XO (XO (XO
    (XO (XO (XO (XO (XO (XO (XO (XO (XO (XO (XO (XO (XO (XO (XO (XO (XO (XO
    (XO (XO (XO (XO (XO (XO (XO (XO (XO (XO (XO (XO (XO (XO (XO (XO (XO (XO
    (XO (XO (XO (XO (XO (XO (XO (XO (XO (XO (XO (XO (XO (XO (XO (XO (XO
    XH))))))))))))))))))))))))))))))))))))))))))))))))))))))))))) :: ((Some
    N0) :: ((Some N0) :: ((Some N0) :: ((Some (Npos (XO (XO (XO (XO (XO (XO
    (XO (XO (XO (XO (XO (XO (XO (XO (XO (XO (XO (XO (XO (XO (XO (XO (XO (XO
    (XO (XO (XO (XO (XO (XO (XO (XO (XO (XO (XO (XO (XO (XO (XO (XO (XO (XO
    (XO (XO (XO (XO (XO (XO (XO (XO (XO (XO (XO (XO (XO (XO (XO (XO (XO
    XH))))))))))))))))))))))))))))))))))))))))))))))))))))))))))))) :: ((Some
    (Npos (XO (XO (XO (XO (XO (XO (XO (XO (XO (XO (XO (XO (XO (XO (XO (XO (XO
    (XO (XO (XO (XO (XO (XO (XO (XO (XO (XO (XO (XO (XO (XO (XO (XO (XO (XO
    (XO (XO (XO (XO (XO (XO (XO (XO (XO (XO (XO (XO (XO (XO (XO (XO (XO (XO
    (XO (XO (XO (XO (XO (XO (XI
    XH)))))))))))))))))))))))))))))))))))))))))))))))))))))))))))))) :: ((Some
    (Npos (XO (XO (XO (XO (XO (XO (XO (XO (XO (XO (XO (XO (XO (XO (XO (XO (XO
    (XO (XO (XO (XO (XO (XO (XO (XO (XO (XO (XO (XO (XO (XO (XO (XO (XO (XO
    (XO (XO (XO (XO (XO (XO (XO (XO (XO (XO (XO (XO (XO (XO (XO (XO (XO (XO
    (XO (XO (XO (XO (XO (XO (XI (XI
    XH))))))))))))))))))))))))))))))))))))))))))))))))))))))))))))))) :: ((Some
    (Npos (XO (XO (XO (XO (XO (XO (XO (XO (XO (XO (XO (XO (XO (XO (XO (XO (XO
    (XO (XO (XO (XO (XO (XO (XO (XO (XO (XO (XO (XO (XO (XO (XO (XO (XO (XO
    (XO (XO (XO (XO (XO (XO (XO (XO (XO (XO (XO (XO (XO (XO (XO (XO (XO (XO
    (XO (XO (XO (XO (XO (XO (XI (XI (XI
    XH)))))))))))))))))))))))))))))))))))))))))))))))))))))))))))))))) :: [])))))))))))))))))))))))))))))))))))))))))))))))))))))))))))))))) :: ((None :: (None :: (None :: ((Some
    (Npos (XO (XO (XO (XO (XO (XO (XO (XO (XO (XO (XO (XI (XO (XO (XO (XO (XO
    (XO (XO (XI (XO (XO (XO (XO (XO (XO (XO (XI (XO (XO (XO (XO (XO (XO (XO
    (XI (XO (XO (XO (XO (XO (XO (XO (XI (XO (XO (XO (XO (XO (XO (XO
    XH))))))))))))))))))))))))))))))))))))))))))))))))))))) :: (None :: (None :: (None :: (None :: (None :: (None :: (None :: ((Some
    (Npos (XO (XO (XO (XO (XO (XO (XO (XO (XO (XO (XO (XO (XO (XO (XO (XO (XO
    (XO (XO (XI (XO (XO (XO (XO (XO (XO (XO (XI (XO (XO (XO (XO (XO (XO (XO
    (XI (XO (XO (XO (XO (XO (XO (XO (XI (XO (XO (XO (XO (XO (XO (XO
    XH))))))))))))))))))))))))))))))))))))))))))))))))))))) :: (None :: (None :: (None :: (None :: (None :: (None :: (None :: ((Some
    (Npos (XO (XO (XO (XO (XO (XO (XO (XO (XO (XO (XO (XO (XO (XO (XO (XO (XO
    (XO (XO (XO (XO (XO (XO (XO (XO (XO (XO (XI (XO (XO (XO (XO (XO (XO (XO
    (XI (XO (XO (XO (XO (XO (XO (XO (XI (XO (XO (XO (XO (XO (XO (XO
    XH))))))))))))))))))))))))))))))))))))))))))))))))))))) :: (None :: (None :: (None :: (None :: (None :: (None :: (None :: ((Some
    (Npos (XO (XO (XO (XO (XO (XO (XO (XO (XO (XO (XO (XO (XO (XO (XO (XO (XO
    (XO (XO (XO (XO (XO (XO (XO (XO (XO (XO (XO (XO (XO (XO (XO (XO (XO (XO
    (XI (XO (XO (XO (XO (XO (XO (XO (XI (XO (XO (XO (XO (XO (XO (XO
    XH))))))))))))))))))))))))))))))))))))))))))))))))))))) :: (None :: (None :: (None :: ((Some
    (Npos (XO (XO (XO (XO (XO (XO (XO (XO (XO (XO (XO (XO (XO (XO (XO (XO (XO
    (XO (XO (XO (XO (XO (XO (XO (XO (XO (XO (XO (XO (XO (XO (XO (XO (XO (XO
    (XO (XO (XO (XI (XO (XO (XO (XO (XO (XO (XI (XO (XO (XO (XO (XO (XO
    XH)))))))))))))))))))))))))))))))))))))))))))))))))))))) :: ((Some (Npos
    (XO (XO (XO (XO (XO (XO (XO (XO (XO (XO (XO (XO (XO (XO (XO (XO (XO (XO
    (XO (XO (XO (XO (XO (XO (XO (XO (XO (XO (XO (XO (XO (XO (XO (XO (XO (XO
    (XO (XO (XO (XO (XO (XI (XO (XO (XO (XO (XO (XO (XO (XO
    XH)))))))))))))))))))))))))))))))))))))))))))))))))))) :: (None :: (None :: ((Some
    (Npos (XO (XO (XO (XO (XO (XO (XO (XO (XO (XO (XO (XO (XO (XO (XO (XO (XO
    (XO (XO (XO (XO (XO (XO (XO (XO (XO (XO (XO (XO (XO (XO (XO (XO (XO (XO
    (XO (XO (XO (XO (XO (XO (XO (XO (XI (XO (XO (XO (XO (XO (XO (XO
    XH))))))))))))))))))))))))))))))))))))))))))))))))))))) :: (None :: (None :: ((Some
    (Npos (XO (XO (XO (XO (XO (XO (XO (XO (XO (XO (XO (XO (XO (XO (XO (XO (XO
    (XO (XO (XO (XO (XO (XO (XO (XO (XO (XO (XO (XO (XO (XO (XO (XO (XO (XO
    (XO (XO (XO (XO (XO (XO (XO (XO (XO (XO (XI (XO (XO (XO (XO (XO (XO
    XH)))))))))))))))))))))))))))))))))))))))))))))))))))))) :: (None :: (None :: ((Some
    (Npos (XO (XO (XO (XO (XO (XO (XO (XO (XO (XO (XO (XO (XO (XO (XO (XO (XO
    (XO (XO (XO (XO (XO (XO (XO (XO (XO (XO (XO (XO (XO (XO (XO (XO (XO (XO
    (XO (XO (XO (XO (XO (XO (XO (XO (XO (XO (XO (XO (XO (XO (XO
    XH)))))))))))))))))))))))))))))))))))))))))))))))))))) :: (None :: ((Some
    (Npos (XO (XO (XO (XO (XO (XO (XO (XO (XO (XO (XO (XO (XO (XO (XO (XO (XO
    (XO (XO (XO (XO (XO (XO (XO (XO (XO (XO (XO (XO (XO (XO (XO (XO (XO (XO
    (XO (XO (XO (XO (XO (XO (XO (XO (XO (XO (XO (XO (XO (XO (XO (XO
    XH))))))))))))))))))))))))))))))))))))))))))))))))))))) :: (None :: ((Some
    (Npos (XO (XO (XO (XO (XO (XO (XO (XO (XO (XO (XO (XO (XO (XO (XO (XO (XO
    (XO (XO (XO (XO (XO (XO (XO (XO (XO (XO (XO (XO (XO (XO (XO (XO (XO (XO
    (XO (XO (XO (XO (XO (XO (XO (XO (XO (XO (XO (XO (XO (XO (XO (XO (XO
    XH)))))))))))))))))))))))))))))))))))))))))))))))))))))) :: (None :: (None :: (None :: (None :: ((Some
    N0) :: ((Some N0) :: ((Some N0) :: (None :: (None :: (None :: ((Some
    (Npos (XO (XO (XO (XO (XO (XO (XO (XO (XO (XO (XO (XO (XO (XO (XO (XO (XO
    (XO (XO (XO (XO (XO (XO (XO (XO (XO (XO (XO (XO (XO (XO (XO (XO (XO (XO
    (XO (XO (XO (XO (XO (XO (XO (XO (XO (XO (XO (XO (XO (XO (XO (XO (XO (XO
    (XO (XO (XO (XO (XI
    XH)))))))))))))))))))))))))))))))))))))))))))))))))))))))))))) :: ((Some
    (Npos (XO (XO (XO (XO (XO (XO (XO (XO (XO (XO (XO (XO (XO (XO (XO (XO (XO
    (XO (XO (XO (XO (XO (XO (XO (XO (XO (XO (XO (XO (XO (XO (XO (XO (XO (XO
    (XO (XO (XO (XO (XO (XO (XO (XO (XO (XO (XO (XO (XO (XO (XO (XO (XO (XO
    (XO (XO (XO (XO (XO
    XH)))))))))))))))))))))))))))))))))))))))))))))))))))))))))))) :: ((Some
    N0) :: ((Some N0) :: ((Some N0) :: ((Some (Npos (XO (XO (XO (XO (XO (XO
    (XO (XO (XO (XO (XO (XO (XO (XO (XO (XO (XO (XO (XO (XO (XO (XO (XO (XO
    (XO (XO (XO (XO (XO (XO (XO (XO (XO (XO (XO (XO (XO (XO (XO (XO (XO (XO
    (XO (XO (XO (XO (XO (XO (XO (XO (XO (XO (XO (XO (XO (XO (XO (XO (XO (XO
    XH)))))))))))))))))))))))))))))))))))))))))))))))))))))))))))))) :: ((Some
    (Npos (XO (XO (XO (XO (XO (XO (XO (XO (XO (XO (XO (XO (XO (XO (XO (XO (XO
    (XO (XO (XO (XO (XO (XO (XO (XO (XO (XO (XO (XO (XO (XO (XO (XO (XO (XO
    (XO (XO (XO (XO (XO (XO (XO (XO (XO (XO (XO (XO (XO (XO (XO (XO (XO (XO
    (XO (XO (XO (XO (XO (XO (XO (XI
    XH))))))))))))))))))))))))))))))))))))))))))))))))))))))))))))))) :: ((Some
    (Npos (XO (XO (XO (XO (XO (XO (XO (XO (XO (XO (XO (XO (XO (XO (XO (XO (XO
    (XO (XO (XO (XO (XO (XO (XO (XO (XO (XO (XO (XO (XO (XO (XO (XO (XO (XO
    (XO (XO (XO (XO (XO (XO (XO (XO (XO (XO (XO (XO (XO (XO (XO (XO (XO (XO
    (XO (XO (XO (XO (XO (XO (XO (XI (XI
    XH)))))))))))))))))))))))))))))))))))))))))))))))))))))))))))))))) :: [])))))))))))))))))))))))))))))))))))))))))))))))))))))))))))))))) :: ((None :: (None :: (None :: (None :: ((Some
    (Npos (XO (XO (XO (XO (XO (XO (XO (XO (XO (XO (XO (XO (XI (XO (XO (XO (XO
    (XO (XO (XO (XI (XO (XO (XO (XO (XO (XO (XO (XI (XO (XO (XO (XO (XO (XO
    (XO (XI (XO (XO (XO (XO (XO (XO (XO (XI (XO (XO (XO (XO (XO (XO (XO
    XH)))))))))))))))))))))))))))))))))))))))))))))))))))))) :: (None :: (None :: (None :: (None :: (None :: (None :: (None :: ((Some
    (Npos (XO (XO (XO (XO (XO (XO (XO (XO (XO (XO (XO (XO (XO (XO (XO (XO (XO
    (XO (XO (XO (XI (XO (XO (XO (XO (XO (XO (XO (XI (XO (XO (XO (XO (XO (XO
    (XO (XI (XO (XO (XO (XO (XO (XO (XO (XI (XO (XO (XO (XO (XO (XO (XO
    XH)))))))))))))))))))))))))))))))))))))))))))))))))))))) :: (None :: (None :: (None :: (None :: (None :: (None :: (None :: ((Some
    (Npos (XO (XO (XO (XO (XO (XO (XO (XO (XO (XO (XO (XO (XO (XO (XO (XO (XO
    (XO (XO (XO (XO (XO (XO (XO (XO (XO (XO (XO (XI (XO (XO (XO (XO (XO (XO
    (XO (XI (XO (XO (XO (XO (XO (XO (XO (XI (XO (XO (XO (XO (XO (XO (XO
    XH)))))))))))))))))))))))))))))))))))))))))))))))))))))) :: (None :: (None :: (None :: ((Some
    (Npos (XO (XO (XO (XO (XO (XO (XO (XO (XO (XO (XO (XO (XO (XO (XO (XO (XO
    (XO (XO (XO (XO (XO (XO (XO (XO (XO (XO (XO (XO (XO (XO (XO (XO (XI (XO
    (XO (XO (XO (XO (XO (XO (XO (XI (XO (XO (XO (XO (XO (XO (XO (XO
    XH))))))))))))))))))))))))))))))))))))))))))))))))))))) :: (None :: (None :: (None :: ((Some
    (Npos (XO (XO (XO (XO (XO (XO (XO (XO (XO (XO (XO (XO (XO (XO (XO (XO (XO
    (XO (XO (XO (XO (XO (XO (XO (XO (XO (XO (XO (XO (XO (XO (XO (XO (XO (XO
    (XO (XI (XO (XO (XO (XO (XO (XO (XO (XI (XO (XO (XO (XO (XO (XO (XO
    XH)))))))))))))))))))))))))))))))))))))))))))))))))))))) :: (None :: (None :: (None :: (None :: ((Some
    (Npos (XO (XO (XO (XO (XO (XO (XO (XO (XO (XO (XO (XO (XO (XO (XO (XO (XO
    (XO (XO (XO (XO (XO (XO (XO (XO (XO (XO (XO (XO (XO (XO (XO (XO (XO (XO
    (XO (XO (XO (XO (XO (XO (XO (XI (XO (XO (XO (XO (XO (XO (XO (XO
    XH))))))))))))))))))))))))))))))))))))))))))))))))))))) :: (None :: (None :: ((Some
    (Npos (XO (XO (XO (XO (XO (XO (XO (XO (XO (XO (XO (XO (XO (XO (XO (XO (XO
    (XO (XO (XO (XO (XO (XO (XO (XO (XO (XO (XO (XO (XO (XO (XO (XO (XO (XO
    (XO (XO (XO (XO (XO (XO (XO (XO (XO (XI (XO (XO (XO (XO (XO (XO (XO
    XH)))))))))))))))))))))))))))))))))))))))))))))))))))))) :: (None :: (None :: ((Some
    (Npos (XO (XO (XO (XO (XO (XO (XO (XO (XO (XO (XO (XO (XO (XO (XO (XO (XO
    (XO (XO (XO (XO (XO (XO (XO (XO (XO (XO (XO (XO (XO (XO (XO (XO (XO (XO
    (XO (XO (XO (XO (XO (XO (XO (XO (XO (XO (XO (XI (XO (XO (XO (XO (XO (XO
    XH))))))))))))))))))))))))))))))))))))))))))))))))))))))) :: (None :: (None :: ((Some
    (Npos (XO (XO (XO (XO (XO (XO (XO (XO (XO (XO (XO (XO (XO (XO (XO (XO (XO
    (XO (XO (XO (XO (XO (XO (XO (XO (XO (XO (XO (XO (XO (XO (XO (XO (XO (XO
    (XO (XO (XO (XO (XO (XO (XO (XO (XO (XO (XO (XO (XO (XO (XO (XO
    XH))))))))))))))))))))))))))))))))))))))))))))))))))))) :: (None :: ((Some
    (Npos (XO (XO (XO (XO (XO (XO (XO (XO (XO (XO (XO (XO (XO (XO (XO (XO (XO
    (XO (XO (XO (XO (XO (XO (XO (XO (XO (XO (XO (XO (XO (XO (XO (XO (XO (XO
    (XO (XO (XO (XO (XO (XO (XO (XO (XO (XO (XO (XO (XO (XO (XO (XO (XO
    XH)))))))))))))))))))))))))))))))))))))))))))))))))))))) :: (None :: ((Some
    (Npos (XO (XO (XO (XO (XO (XO (XO (XO (XO (XO (XO (XO (XO (XO (XO (XO (XO
    (XO (XO (XO (XO (XO (XO (XO (XO (XO (XO (XO (XO (XO (XO (XO (XO (XO (XO
    (XO (XO (XO (XO (XO (XO (XO (XO (XO (XO (XO (XO (XO (XO (XO (XO (XO (XO
    XH))))))))))))))))))))))))))))))))))))))))))))))))))))))) :: (None :: (None :: (None :: (None :: ((Some
    N0) :: ((Some N0) :: ((Some N0) :: (None :: (None :: ((Some (Npos (XO (XO
    (XO (XO (XO (XO (XO (XO (XO (XO (XO (XO (XO (XO (XO (XO (XO (XO (XO (XO
    (XO (XO (XO (XO (XO (XO (XO (XO (XO (XO (XO (XO (XO (XO (XO (XO (XO (XO
    (XO (XO (XO (XO (XO (XO (XO (XO (XO (XO (XO (XO (XO (XO (XO (XO (XO (XO
    (XO (XI (XI
    XH))))))))))))))))))))))))))))))))))))))))))))))))))))))))))))) :: ((Some
    (Npos (XO (XO (XO (XO (XO (XO (XO (XO (XO (XO (XO (XO (XO (XO (XO (XO (XO
    (XO (XO (XO (XO (XO (XO (XO (XO (XO (XO (XO (XO (XO (XO (XO (XO (XO (XO
    (XO (XO (XO (XO (XO (XO (XO (XO (XO (XO (XO (XO (XO (XO (XO (XO (XO (XO
    (XO (XO (XO (XO (XO (XI
    XH))))))))))))))))))))))))))))))))))))))))))))))))))))))))))))) :: ((Some
    (Npos (XO (XO (XO (XO (XO (XO (XO (XO (XO (XO (XO (XO (XO (XO (XO (XO (XO
    (XO (XO (XO (XO (XO (XO (XO (XO (XO (XO (XO (XO (XO (XO (XO (XO (XO (XO
    (XO (XO (XO (XO (XO (XO (XO (XO (XO (XO (XO (XO (XO (XO (XO (XO (XO (XO
    (XO (XO (XO (XO (XO (XO
    XH))))))))))))))))))))))))))))))))))))))))))))))))))))))))))))) :: ((Some
    N0) :: ((Some N0) :: ((Some N0) :: ((Some (Npos (XO (XO (XO (XO (XO (XO
    (XO (XO (XO (XO (XO (XO (XO (XO (XO (XO (XO (XO (XO (XO (XO (XO (XO (XO
    (XO (XO (XO (XO (XO (XO (XO (XO (XO (XO (XO (XO (XO (XO (XO (XO (XO (XO
    (XO (XO (XO (XO (XO (XO (XO (XO (XO (XO (XO (XO (XO (XO (XO (XO (XO (XO
    (XO
    XH))))))))))))))))))))))))))))))))))))))))))))))))))))))))))))))) :: ((Some
    (Npos (XO (XO (XO (XO (XO (XO (XO (XO (XO (XO (XO (XO (XO (XO (XO (XO (XO
    (XO (XO (XO (XO (XO (XO (XO (XO (XO (XO (XO (XO (XO (XO (XO (XO (XO (XO
    (XO (XO (XO (XO (XO (XO (XO (XO (XO (XO (XO (XO (XO (XO (XO (XO (XO (XO
    (XO (XO (XO (XO (XO (XO (XO (XO (XI
    XH)))))))))))))))))))))))))))))))))))))))))))))))))))))))))))))))) :: [])))))))))))))))))))))))))))))))))))))))))))))))))))))))))))))))) :: ((None :: (None :: (None :: (None :: (None :: ((Some
    (Npos (XO (XO (XO (XO (XO (XO (XO (XO (XO (XO (XO (XO (XO (XI (XO (XO (XO
    (XO (XO (XO (XO (XI (XO (XO (XO (XO (XO (XO (XO (XI (XO (XO (XO (XO (XO
    (XO (XO (XI (XO (XO (XO (XO (XO (XO (XO (XI (XO (XO (XO (XO (XO (XO (XO
    XH))))))))))))))))))))))))))))))))))))))))))))))))))))))) :: (None :: (None :: (None :: (None :: (None :: (None :: (None :: ((Some
    (Npos (XO (XO (XO (XO (XO (XO (XO (XO (XO (XO (XO (XO (XO (XO (XO (XO (XO
    (XO (XO (XO (XO (XI (XO (XO (XO (XO (XO (XO (XO (XI (XO (XO (XO (XO (XO
    (XO (XO (XI (XO (XO (XO (XO (XO (XO (XO (XI (XO (XO (XO (XO (XO (XO (XO
    XH))))))))))))))))))))))))))))))))))))))))))))))))))))))) :: (None :: (None :: ((Some
    (Npos (XO (XO (XO (XO (XO (XO (XO (XO (XO (XO (XO (XO (XO (XO (XO (XO (XO
    (XO (XO (XO (XO (XO (XO (XO (XO (XI (XO (XO (XO (XO (XO (XO (XO (XO (XI
    (XO (XO (XO (XO (XO (XO (XO (XO (XI (XO (XO (XO (XO (XO (XO (XO (XO
    XH)))))))))))))))))))))))))))))))))))))))))))))))))))))) :: (None :: (None :: (None :: (None :: ((Some
    (Npos (XO (XO (XO (XO (XO (XO (XO (XO (XO (XO (XO (XO (XO (XO (XO (XO (XO
    (XO (XO (XO (XO (XO (XO (XO (XO (XO (XO (XO (XO (XI (XO (XO (XO (XO (XO
    (XO (XO (XI (XO (XO (XO (XO (XO (XO (XO (XI (XO (XO (XO (XO (XO (XO (XO
    XH))))))))))))))))))))))))))))))))))))))))))))))))))))))) :: (None :: (None :: (None :: ((Some
    (Npos (XO (XO (XO (XO (XO (XO (XO (XO (XO (XO (XO (XO (XO (XO (XO (XO (XO
    (XO (XO (XO (XO (XO (XO (XO (XO (XO (XO (XO (XO (XO (XO (XO (XO (XO (XI
    (XO (XO (XO (XO (XO (XO (XO (XO (XI (XO (XO (XO (XO (XO (XO (XO (XO
    XH)))))))))))))))))))))))))))))))))))))))))))))))))))))) :: (None :: (None :: (None :: ((Some
    (Npos (XO (XO (XO (XO (XO (XO (XO (XO (XO (XO (XO (XO (XO (XO (XO (XO (XO
    (XO (XO (XO (XO (XO (XO (XO (XO (XO (XO (XO (XO (XO (XO (XO (XO (XO (XO
    (XO (XO (XI (XO (XO (XO (XO (XO (XO (XO (XI (XO (XO (XO (XO (XO (XO (XO
    XH))))))))))))))))))))))))))))))))))))))))))))))))))))))) :: (None :: (None :: (None :: (None :: ((Some
    (Npos (XO (XO (XO (XO (XO (XO (XO (XO (XO (XO (XO (XO (XO (XO (XO (XO (XO
    (XO (XO (XO (XO (XO (XO (XO (XO (XO (XO (XO (XO (XO (XO (XO (XO (XO (XO
    (XO (XO (XO (XO (XO (XO (XO (XO (XI (XO (XO (XO (XO (XO (XO (XO (XO
    XH)))))))))))))))))))))))))))))))))))))))))))))))))))))) :: (None :: (None :: ((Some
    (Npos (XO (XO (XO (XO (XO (XO (XO (XO (XO (XO (XO (XO (XO (XO (XO (XO (XO
    (XO (XO (XO (XO (XO (XO (XO (XO (XO (XO (XO (XO (XO (XO (XO (XO (XO (XO
    (XO (XO (XO (XO (XO (XO (XO (XO (XO (XO (XI (XO (XO (XO (XO (XO (XO (XO
    XH))))))))))))))))))))))))))))))))))))))))))))))))))))))) :: (None :: (None :: (None :: (None :: (None :: ((Some
    (Npos (XO (XO (XO (XO (XO (XO (XO (XO (XO (XO (XO (XO (XO (XO (XO (XO (XO
    (XO (XO (XO (XO (XO (XO (XO (XO (XO (XO (XO (XO (XO (XO (XO (XO (XO (XO
    (XO (XO (XO (XO (XO (XO (XO (XO (XO (XO (XO (XO (XO (XO (XO (XO (XO
    XH)))))))))))))))))))))))))))))))))))))))))))))))))))))) :: (None :: ((Some
    (Npos (XO (XO (XO (XO (XO (XO (XO (XO (XO (XO (XO (XO (XO (XO (XO (XO (XO
    (XO (XO (XO (XO (XO (XO (XO (XO (XO (XO (XO (XO (XO (XO (XO (XO (XO (XO
    (XO (XO (XO (XO (XO (XO (XO (XO (XO (XO (XO (XO (XO (XO (XO (XO (XO (XO
    XH))))))))))))))))))))))))))))))))))))))))))))))))))))))) :: (None :: ((Some
    (Npos (XO (XO (XO (XO (XO (XO (XO (XO (XO (XO (XO (XO (XO (XO (XO (XO (XO
    (XO (XO (XO (XO (XO (XO (XO (XO (XO (XO (XO (XO (XO (XO (XO (XO (XO (XO
    (XO (XO (XO (XO (XO (XO (XO (XO (XO (XO (XO (XO (XO (XO (XO (XO (XO (XO
    (XO
    XH)))))))))))))))))))))))))))))))))))))))))))))))))))))))) :: (None :: (None :: (None :: (None :: ((Some
    N0) :: ((Some N0) :: ((Some N0) :: (None :: ((Some (Npos (XO (XO (XO (XO
    (XO (XO (XO (XO (XO (XO (XO (XO (XO (XO (XO (XO (XO (XO (XO (XO (XO (XO
    (XO (XO (XO (XO (XO (XO (XO (XO (XO (XO (XO (XO (XO (XO (XO (XO (XO (XO
    (XO (XO (XO (XO (XO (XO (XO (XO (XO (XO (XO (XO (XO (XO (XO (XO (XO (XI
    (XI (XI
    XH)))))))))))))))))))))))))))))))))))))))))))))))))))))))))))))) :: ((Some
    (Npos (XO (XO (XO (XO (XO (XO (XO (XO (XO (XO (XO (XO (XO (XO (XO (XO (XO
    (XO (XO (XO (XO (XO (XO (XO (XO (XO (XO (XO (XO (XO (XO (XO (XO (XO (XO
    (XO (XO (XO (XO (XO (XO (XO (XO (XO (XO (XO (XO (XO (XO (XO (XO (XO (XO
    (XO (XO (XO (XO (XO (XI (XI
    XH)))))))))))))))))))))))))))))))))))))))))))))))))))))))))))))) :: ((Some
    (Npos (XO (XO (XO (XO (XO (XO (XO (XO (XO (XO (XO (XO (XO (XO (XO (XO (XO
    (XO (XO (XO (XO (XO (XO (XO (XO (XO (XO (XO (XO (XO (XO (XO (XO (XO (XO
    (XO (XO (XO (XO (XO (XO (XO (XO (XO (XO (XO (XO (XO (XO (XO (XO (XO (XO
    (XO (XO (XO (XO (XO (XO (XI
    XH)))))))))))))))))))))))))))))))))))))))))))))))))))))))))))))) :: ((Some
    (Npos (XO (XO (XO (XO (XO (XO (XO (XO (XO (XO (XO (XO (XO (XO (XO (XO (XO
    (XO (XO (XO (XO (XO (XO (XO (XO (XO (XO (XO (XO (XO (XO (XO (XO (XO (XO
    (XO (XO (XO (XO (XO (XO (XO (XO (XO (XO (XO (XO (XO (XO (XO (XO (XO (XO
    (XO (XO (XO (XO (XO (XO (XO
    XH)))))))))))))))))))))))))))))))))))))))))))))))))))))))))))))) :: ((Some
    N0) :: ((Some N0) :: ((Some N0) :: ((Some (Npos (XO (XO (XO (XO (XO (XO
    (XO (XO (XO (XO (XO (XO (XO (XO (XO (XO (XO (XO (XO (XO (XO (XO (XO (XO
    (XO (XO (XO (XO (XO (XO (XO (XO (XO (XO (XO (XO (XO (XO (XO (XO (XO (XO
    (XO (XO (XO (XO (XO (XO (XO (XO (XO (XO (XO (XO (XO (XO (XO (XO (XO (XO
    (XO (XO
    XH)))))))))))))))))))))))))))))))))))))))))))))))))))))))))))))))) :: [])))))))))))))))))))))))))))))))))))))))))))))))))))))))))))))))) :: ((None :: (None :: (None :: (None :: (None :: (None :: ((Some
    (Npos (XO (XO (XO (XO (XO (XO (XO (XO (XO (XO (XO (XO (XO (XO (XI (XO (XO
    (XO (XO (XO (XO (XO (XI (XO (XO (XO (XO (XO (XO (XO (XI (XO (XO (XO (XO
    (XO (XO (XO (XI (XO (XO (XO (XO (XO (XO (XO (XI (XO (XO (XO (XO (XO (XO
    (XO
    XH)))))))))))))))))))))))))))))))))))))))))))))))))))))))) :: (None :: ((Some
    (Npos (XO (XO (XO (XO (XO (XO (XO (XO (XO (XO (XO (XO (XO (XO (XO (XO (XO
    (XI (XO (XO (XO (XO (XO (XO (XO (XO (XI (XO (XO (XO (XO (XO (XO (XO (XO
    (XI (XO (XO (XO (XO (XO (XO (XO (XO (XI (XO (XO (XO (XO (XO (XO (XO (XO
    XH))))))))))))))))))))))))))))))))))))))))))))))))))))))) :: (None :: (None :: (None :: (None :: (None :: ((Some
    (Npos (XO (XO (XO (XO (XO (XO (XO (XO (XO (XO (XO (XO (XO (XO (XO (XO (XO
    (XO (XO (XO (XO (XO (XI (XO (XO (XO (XO (XO (XO (XO (XI (XO (XO (XO (XO
    (XO (XO (XO (XI (XO (XO (XO (XO (XO (XO (XO (XI (XO (XO (XO (XO (XO (XO
    (XO
    XH)))))))))))))))))))))))))))))))))))))))))))))))))))))))) :: (None :: (None :: ((Some
    (Npos (XO (XO (XO (XO (XO (XO (XO (XO (XO (XO (XO (XO (XO (XO (XO (XO (XO
    (XO (XO (XO (XO (XO (XO (XO (XO (XO (XI (XO (XO (XO (XO (XO (XO (XO (XO
    (XI (XO (XO (XO (XO (XO (XO (XO (XO (XI (XO (XO (XO (XO (XO (XO (XO (XO
    XH))))))))))))))))))))))))))))))))))))))))))))))))))))))) :: (None :: (None :: (None :: (None :: ((Some
    (Npos (XO (XO (XO (XO (XO (XO (XO (XO (XO (XO (XO (XO (XO (XO (XO (XO (XO
    (XO (XO (XO (XO (XO (XO (XO (XO (XO (XO (XO (XO (XO (XI (XO (XO (XO (XO
    (XO (XO (XO (XI (XO (XO (XO (XO (XO (XO (XO (XI (XO (XO (XO (XO (XO (XO
    (XO
    XH)))))))))))))))))))))))))))))))))))))))))))))))))))))))) :: (None :: (None :: (None :: ((Some
    (Npos (XO (XO (XO (XO (XO (XO (XO (XO (XO (XO (XO (XO (XO (XO (XO (XO (XO
    (XO (XO (XO (XO (XO (XO (XO (XO (XO (XO (XO (XO (XO (XO (XO (XO (XO (XO
    (XI (XO (XO (XO (XO (XO (XO (XO (XO (XI (XO (XO (XO (XO (XO (XO (XO (XO
    XH))))))))))))))))))))))))))))))))))))))))))))))))))))))) :: (None :: (None :: (None :: ((Some
    (Npos (XO (XO (XO (XO (XO (XO (XO (XO (XO (XO (XO (XO (XO (XO (XO (XO (XO
    (XO (XO (XO (XO (XO (XO (XO (XO (XO (XO (XO (XO (XO (XO (XO (XO (XO (XO
    (XO (XO (XO (XI (XO (XO (XO (XO (XO (XO (XO (XI (XO (XO (XO (XO (XO (XO
    (XO
    XH)))))))))))))))))))))))))))))))))))))))))))))))))))))))) :: (None :: (None :: (None :: (None :: ((Some
    (Npos (XO (XO (XO (XO (XO (XO (XO (XO (XO (XO (XO (XO (XO (XO (XO (XO (XO
    (XO (XO (XO (XO (XO (XO (XO (XO (XO (XO (XO (XO (XO (XO (XO (XO (XO (XO
    (XO (XO (XO (XO (XO (XO (XO (XO (XO (XI (XO (XO (XO (XO (XO (XO (XO (XO
    XH))))))))))))))))))))))))))))))))))))))))))))))))))))))) :: (None :: (None :: ((Some
    (Npos (XO (XO (XO (XO (XO (XO (XO (XO (XO (XO (XO (XO (XO (XO (XO (XO (XO
    (XO (XO (XO (XO (XO (XO (XO (XO (XO (XO (XO (XO (XO (XO (XO (XO (XO (XO
    (XO (XO (XO (XO (XO (XO (XO (XO (XO (XO (XO (XI (XO (XO (XO (XO (XO (XO
    (XO
    XH)))))))))))))))))))))))))))))))))))))))))))))))))))))))) :: (None :: (None :: (None :: (None :: (None :: ((Some
    (Npos (XO (XO (XO (XO (XO (XO (XO (XO (XO (XO (XO (XO (XO (XO (XO (XO (XO
    (XO (XO (XO (XO (XO (XO (XO (XO (XO (XO (XO (XO (XO (XO (XO (XO (XO (XO
    (XO (XO (XO (XO (XO (XO (XO (XO (XO (XO (XO (XO (XO (XO (XO (XO (XO (XO
    XH))))))))))))))))))))))))))))))))))))))))))))))))))))))) :: (None :: ((Some
    (Npos (XO (XO (XO (XO (XO (XO (XO (XO (XO (XO (XO (XO (XO (XO (XO (XO (XO
    (XO (XO (XO (XO (XO (XO (XO (XO (XO (XO (XO (XO (XO (XO (XO (XO (XO (XO
    (XO (XO (XO (XO (XO (XO (XO (XO (XO (XO (XO (XO (XO (XO (XO (XO (XO (XO
    (XO
    XH)))))))))))))))))))))))))))))))))))))))))))))))))))))))) :: (None :: (None :: (None :: (None :: (None :: (None :: ((Some
    N0) :: ((Some N0) :: ((Some N0) :: ((Some (Npos (XO (XO (XO (XO (XO (XO
    (XO (XO (XO (XO (XO (XO (XO (XO (XO (XO (XO (XO (XO (XO (XO (XO (XO (XO
    (XO (XO (XO (XO (XO (XO (XO (XO (XO (XO (XO (XO (XO (XO (XO (XO (XO (XO
    (XO (XO (XO (XO (XO (XO (XO (XO (XO (XO (XO (XO (XO (XO (XO (XI (XI (XI
    (XI
    XH))))))))))))))))))))))))))))))))))))))))))))))))))))))))))))))) :: ((Some
    (Npos (XO (XO (XO (XO (XO (XO (XO (XO (XO (XO (XO (XO (XO (XO (XO (XO (XO
    (XO (XO (XO (XO (XO (XO (XO (XO (XO (XO (XO (XO (XO (XO (XO (XO (XO (XO
    (XO (XO (XO (XO (XO (XO (XO (XO (XO (XO (XO (XO (XO (XO (XO (XO (XO (XO
    (XO (XO (XO (XO (XO (XI (XI (XI
    XH))))))))))))))))))))))))))))))))))))))))))))))))))))))))))))))) :: ((Some
    (Npos (XO (XO (XO (XO (XO (XO (XO (XO (XO (XO (XO (XO (XO (XO (XO (XO (XO
    (XO (XO (XO (XO (XO (XO (XO (XO (XO (XO (XO (XO (XO (XO (XO (XO (XO (XO
    (XO (XO (XO (XO (XO (XO (XO (XO (XO (XO (XO (XO (XO (XO (XO (XO (XO (XO
    (XO (XO (XO (XO (XO (XO (XI (XI
    XH))))))))))))))))))))))))))))))))))))))))))))))))))))))))))))))) :: ((Some
    (Npos (XO (XO (XO (XO (XO (XO (XO (XO (XO (XO (XO (XO (XO (XO (XO (XO (XO
    (XO (XO (XO (XO (XO (XO (XO (XO (XO (XO (XO (XO (XO (XO (XO (XO (XO (XO
    (XO (XO (XO (XO (XO (XO (XO (XO (XO (XO (XO (XO (XO (XO (XO (XO (XO (XO
    (XO (XO (XO (XO (XO (XO (XO (XI
    XH))))))))))))))))))))))))))))))))))))))))))))))))))))))))))))))) :: ((Some
    (Npos (XO (XO (XO (XO (XO (XO (XO (XO (XO (XO (XO (XO (XO (XO (XO (XO (XO
    (XO (XO (XO (XO (XO (XO (XO (XO (XO (XO (XO (XO (XO (XO (XO (XO (XO (XO
    (XO (XO (XO (XO (XO (XO (XO (XO (XO (XO (XO (XO (XO (XO (XO (XO (XO (XO
    (XO (XO (XO (XO (XO (XO (XO (XO
    XH))))))))))))))))))))))))))))))))))))))))))))))))))))))))))))))) :: ((Some
    N0) :: ((Some N0) :: ((Some
    N0) :: [])))))))))))))))))))))))))))))))))))))))))))))))))))))))))))))))) :: (((Some
    (Npos (XO (XO (XO (XO (XO (XO (XO (XO (XO (XI (XO (XO (XO (XO (XO (XO (XO
    (XO (XI (XO (XO (XO (XO (XO (XO (XO (XO (XI (XO (XO (XO (XO (XO (XO (XO
    (XO (XI (XO (XO (XO (XO (XO (XO (XO (XO (XI (XO (XO (XO (XO (XO (XO (XO
    (XO
    XH)))))))))))))))))))))))))))))))))))))))))))))))))))))))) :: (None :: (None :: (None :: (None :: (None :: (None :: ((Some
    (Npos (XO (XO (XO (XO (XO (XO (XO (XO (XO (XO (XO (XO (XO (XO (XO (XI (XO
    (XO (XO (XO (XO (XO (XO (XI (XO (XO (XO (XO (XO (XO (XO (XI (XO (XO (XO
    (XO (XO (XO (XO (XI (XO (XO (XO (XO (XO (XO (XO (XI (XO (XO (XO (XO (XO
    (XO (XO
    XH))))))))))))))))))))))))))))))))))))))))))))))))))))))))) :: (None :: ((Some
    (Npos (XO (XO (XO (XO (XO (XO (XO (XO (XO (XO (XO (XO (XO (XO (XO (XO (XO
    (XO (XI (XO (XO (XO (XO (XO (XO (XO (XO (XI (XO (XO (XO (XO (XO (XO (XO
    (XO (XI (XO (XO (XO (XO (XO (XO (XO (XO (XI (XO (XO (XO (XO (XO (XO (XO
    (XO
    XH)))))))))))))))))))))))))))))))))))))))))))))))))))))))) :: (None :: (None :: (None :: (None :: (None :: ((Some
    (Npos (XO (XO (XO (XO (XO (XO (XO (XO (XO (XO (XO (XO (XO (XO (XO (XO (XO
    (XO (XO (XO (XO (XO (XO (XI (XO (XO (XO (XO (XO (XO (XO (XI (XO (XO (XO
    (XO (XO (XO (XO (XI (XO (XO (XO (XO (XO (XO (XO (XI (XO (XO (XO (XO (XO
    (XO (XO
    XH))))))))))))))))))))))))))))))))))))))))))))))))))))))))) :: (None :: (None :: ((Some
    (Npos (XO (XO (XO (XO (XO (XO (XO (XO (XO (XO (XO (XO (XO (XO (XO (XO (XO
    (XO (XO (XO (XO (XO (XO (XO (XO (XO (XO (XI (XO (XO (XO (XO (XO (XO (XO
    (XO (XI (XO (XO (XO (XO (XO (XO (XO (XO (XI (XO (XO (XO (XO (XO (XO (XO
    (XO
    XH)))))))))))))))))))))))))))))))))))))))))))))))))))))))) :: (None :: (None :: (None :: (None :: ((Some
    (Npos (XO (XO (XO (XO (XO (XO (XO (XO (XO (XO (XO (XO (XO (XO (XO (XO (XO
    (XO (XO (XO (XO (XO (XO (XO (XO (XO (XO (XO (XO (XO (XO (XI (XO (XO (XO
    (XO (XO (XO (XO (XI (XO (XO (XO (XO (XO (XO (XO (XI (XO (XO (XO (XO (XO
    (XO (XO
    XH))))))))))))))))))))))))))))))))))))))))))))))))))))))))) :: (None :: (None :: (None :: ((Some
    (Npos (XO (XO (XO (XO (XO (XO (XO (XO (XO (XO (XO (XO (XO (XO (XO (XO (XO
    (XO (XO (XO (XO (XO (XO (XO (XO (XO (XO (XO (XO (XO (XO (XO (XO (XO (XO
    (XO (XI (XO (XO (XO (XO (XO (XO (XO (XO (XI (XO (XO (XO (XO (XO (XO (XO
    (XO
    XH)))))))))))))))))))))))))))))))))))))))))))))))))))))))) :: (None :: (None :: (None :: ((Some
    (Npos (XO (XO (XO (XO (XO (XO (XO (XO (XO (XO (XO (XO (XO (XO (XO (XO (XO
    (XO (XO (XO (XO (XO (XO (XO (XO (XO (XO (XO (XO (XO (XO (XO (XO (XO (XO
    (XO (XO (XO (XO (XI (XO (XO (XO (XO (XO (XO (XO (XI (XO (XO (XO (XO (XO
    (XO (XO
    XH))))))))))))))))))))))))))))))))))))))))))))))))))))))))) :: (None :: (None :: (None :: (None :: ((Some
    (Npos (XO (XO (XO (XO (XO (XO (XO (XO (XO (XO (XO (XO (XO (XO (XO (XO (XO
    (XO (XO (XO (XO (XO (XO (XO (XO (XO (XO (XO (XO (XO (XO (XO (XO (XO (XO
    (XO (XO (XO (XO (XO (XO (XO (XO (XO (XO (XI (XO (XO (XO (XO (XO (XO (XO
    (XO
    XH)))))))))))))))))))))))))))))))))))))))))))))))))))))))) :: (None :: (None :: ((Some
    (Npos (XO (XO (XO (XO (XO (XO (XO (XO (XO (XO (XO (XO (XO (XO (XO (XO (XO
    (XO (XO (XO (XO (XO (XO (XO (XO (XO (XO (XO (XO (XO (XO (XO (XO (XO (XO
    (XO (XO (XO (XO (XO (XO (XO (XO (XO (XO (XO (XO (XI (XO (XO (XO (XO (XO
    (XO (XO
    XH))))))))))))))))))))))))))))))))))))))))))))))))))))))))) :: (None :: (None :: (None :: (None :: (None :: ((Some
    (Npos (XO (XO (XO (XO (XO (XO (XO (XO (XO (XO (XO (XO (XO (XO (XO (XO (XO
    (XO (XO (XO (XO (XO (XO (XO (XO (XO (XO (XO (XO (XO (XO (XO (XO (XO (XO
    (XO (XO (XO (XO (XO (XO (XO (XO (XO (XO (XO (XO (XO (XO (XO (XO (XO (XO
    (XO
    XH)))))))))))))))))))))))))))))))))))))))))))))))))))))))) :: (None :: ((Some
    (Npos (XO (XO (XO (XO (XO (XO (XO (XO (XO (XO (XO (XO (XO (XO (XO (XO (XO
    (XO (XO (XO (XO (XO (XO (XO (XO (XO (XO (XO (XO (XO (XO (XO (XO (XO (XO
    (XO (XO (XO (XO (XO (XO (XO (XO (XO (XO (XO (XO (XO (XO (XO (XO (XO (XO
    (XO (XO
    XH))))))))))))))))))))))))))))))))))))))))))))))))))))))))) :: (None :: (None :: (None :: (None :: (None :: (None :: ((Some
    N0) :: ((Some N0) :: ((Some (Npos (XO (XO (XO (XO (XO (XO (XO (XO (XO (XO
    (XO (XO (XO (XO (XO (XO (XO (XO (XO (XO (XO (XO (XO (XO (XO (XO (XO (XO
    (XO (XO (XO (XO (XO (XO (XO (XO (XO (XO (XO (XO (XO (XO (XO (XO (XO (XO
    (XO (XO (XO (XO (XO (XO (XO (XO (XO (XO (XO (XI (XI (XI (XI (XI
    XH)))))))))))))))))))))))))))))))))))))))))))))))))))))))))))))))) :: ((Some
    (Npos (XO (XO (XO (XO (XO (XO (XO (XO (XO (XO (XO (XO (XO (XO (XO (XO (XO
    (XO (XO (XO (XO (XO (XO (XO (XO (XO (XO (XO (XO (XO (XO (XO (XO (XO (XO
    (XO (XO (XO (XO (XO (XO (XO (XO (XO (XO (XO (XO (XO (XO (XO (XO (XO (XO
    (XO (XO (XO (XO (XO (XI (XI (XI (XI
    XH)))))))))))))))))))))))))))))))))))))))))))))))))))))))))))))))) :: ((Some
    (Npos (XO (XO (XO (XO (XO (XO (XO (XO (XO (XO (XO (XO (XO (XO (XO (XO (XO
    (XO (XO (XO (XO (XO (XO (XO (XO (XO (XO (XO (XO (XO (XO (XO (XO (XO (XO
    (XO (XO (XO (XO (XO (XO (XO (XO (XO (XO (XO (XO (XO (XO (XO (XO (XO (XO
    (XO (XO (XO (XO (XO (XO (XI (XI (XI
    XH)))))))))))))))))))))))))))))))))))))))))))))))))))))))))))))))) :: ((Some
    (Npos (XO (XO (XO (XO (XO (XO (XO (XO (XO (XO (XO (XO (XO (XO (XO (XO (XO
    (XO (XO (XO (XO (XO (XO (XO (XO (XO (XO (XO (XO (XO (XO (XO (XO (XO (XO
    (XO (XO (XO (XO (XO (XO (XO (XO (XO (XO (XO (XO (XO (XO (XO (XO (XO (XO
    (XO (XO (XO (XO (XO (XO (XO (XI (XI
    XH)))))))))))))))))))))))))))))))))))))))))))))))))))))))))))))))) :: ((Some
    (Npos (XO (XO (XO (XO (XO (XO (XO (XO (XO (XO (XO (XO (XO (XO (XO (XO (XO
    (XO (XO (XO (XO (XO (XO (XO (XO (XO (XO (XO (XO (XO (XO (XO (XO (XO (XO
    (XO (XO (XO (XO (XO (XO (XO (XO (XO (XO (XO (XO (XO (XO (XO (XO (XO (XO
    (XO (XO (XO (XO (XO (XO (XO (XO (XI
    XH)))))))))))))))))))))))))))))))))))))))))))))))))))))))))))))))) :: ((Some
    (Npos (XO (XO (XO (XO (XO (XO (XO (XO (XO (XO (XO (XO (XO (XO (XO (XO (XO
    (XO (XO (XO (XO (XO (XO (XO (XO (XO (XO (XO (XO (XO (XO (XO (XO (XO (XO
    (XO (XO (XO (XO (XO (XO (XO (XO (XO (XO (XO (XO (XO (XO (XO (XO (XO (XO
    (XO (XO (XO (XO (XO (XO (XO (XO (XO
    XH)))))))))))))))))))))))))))))))))))))))))))))))))))))))))))))))) :: ((Some
    N0) :: ((Some
    N0) :: [])))))))))))))))))))))))))))))))))))))))))))))))))))))))))))))))) :: [])))))))))))))))))))))))))))))))))))))))))))))))))))))))))))))))

(** val rays : square -> bb list **)

let rays s =
  nth (N.to_nat s) rAYS_T []

(** val ray : square -> nat -> bb **)

let ray s i =
  nth i (rays s) N0

(** val between : square -> square -> bb option **)

let between a b0 =
  nth (N.to_nat b0) (nth (N.to_nat a) bETWEEN_ROWS []) None

(** val pawn_push : color -> square -> bb **)

let pawn_push c =
  look (match c with
        | White -> pAWN_PUSH_W
        | Black -> pAWN_PUSH_B)

(** val pawn_double : color -> square -> bb **)

let pawn_double c =
  look (match c with
        | White -> pAWN_DBL_W
        | Black -> pAWN_DBL_B)

(** val pawn_cap : color -> square -> bb **)

let pawn_cap c =
  look (match c with
        | White -> pAWN_CAP_W
        | Black -> pAWN_CAP_B)

type zkeys = { zk_piece : (color -> ptype -> square -> n);
               zk_castle : (color -> cr -> n); zk_ep : (n -> n); zk_black : 
               n }

type board = { m_pawn : bb; m_knight : bb; m_bishop : bb; m_rook : bb;
               m_queen : bb; m_king : bb; m_white : bb; m_black : bb;
               m_all : bb; b_stm : color; b_wr : cr; b_br : cr;
               b_ep : square option; b_pinned : bb; b_checks : bb;
               b_term : bool; b_half : n; b_full : n; b_hash : n }

(** val tmask : board -> ptype -> bb **)

let tmask b0 = function
| Pawn -> b0.m_pawn
| Knight -> b0.m_knight
| Bishop -> b0.m_bishop
| Rook -> b0.m_rook
| Queen -> b0.m_queen
| King -> b0.m_king

(** val cmask : board -> color -> bb **)

let cmask b0 = function
| White -> b0.m_white
| Black -> b0.m_black

(** val rights_of : board -> color -> cr **)

let rights_of b0 = function
| White -> b0.b_wr
| Black -> b0.b_br

(** val with_t : board -> ptype -> (bb -> bb) -> board **)

let with_t b0 t f =
  { m_pawn =
    (if ptype_eqb t Pawn then f b0.m_pawn else Obj.magic id b0.m_pawn);
    m_knight =
    (if ptype_eqb t Knight then f b0.m_knight else Obj.magic id b0.m_knight);
    m_bishop =
    (if ptype_eqb t Bishop then f b0.m_bishop else Obj.magic id b0.m_bishop);
    m_rook =
    (if ptype_eqb t Rook then f b0.m_rook else Obj.magic id b0.m_rook);
    m_queen =
    (if ptype_eqb t Queen then f b0.m_queen else Obj.magic id b0.m_queen);
    m_king =
    (if ptype_eqb t King then f b0.m_king else Obj.magic id b0.m_king);
    m_white = b0.m_white; m_black = b0.m_black; m_all = b0.m_all; b_stm =
    b0.b_stm; b_wr = b0.b_wr; b_br = b0.b_br; b_ep = b0.b_ep; b_pinned =
    b0.b_pinned; b_checks = b0.b_checks; b_term = b0.b_term; b_half =
    b0.b_half; b_full = b0.b_full; b_hash = b0.b_hash }

(** val with_c : board -> color -> (bb -> bb) -> board **)

let with_c b0 c f =
  { m_pawn = b0.m_pawn; m_knight = b0.m_knight; m_bishop = b0.m_bishop;
    m_rook = b0.m_rook; m_queen = b0.m_queen; m_king = b0.m_king; m_white =
    (if color_eqb c White then f b0.m_white else Obj.magic id b0.m_white);
    m_black =
    (if color_eqb c Black then f b0.m_black else Obj.magic id b0.m_black);
    m_all = b0.m_all; b_stm = b0.b_stm; b_wr = b0.b_wr; b_br = b0.b_br;
    b_ep = b0.b_ep; b_pinned = b0.b_pinned; b_checks = b0.b_checks; b_term =
    b0.b_term; b_half = b0.b_half; b_full = b0.b_full; b_hash = b0.b_hash }

(** val with_all : board -> (bb -> bb) -> board **)

let with_all b0 f =
  { m_pawn = b0.m_pawn; m_knight = b0.m_knight; m_bishop = b0.m_bishop;
    m_rook = b0.m_rook; m_queen = b0.m_queen; m_king = b0.m_king; m_white =
    b0.m_white; m_black = b0.m_black; m_all = (f b0.m_all); b_stm = b0.b_stm;
    b_wr = b0.b_wr; b_br = b0.b_br; b_ep = b0.b_ep; b_pinned = b0.b_pinned;
    b_checks = b0.b_checks; b_term = b0.b_term; b_half = b0.b_half; b_full =
    b0.b_full; b_hash = b0.b_hash }

(** val with_hash : board -> n -> board **)

let with_hash b0 h =
  { m_pawn = b0.m_pawn; m_knight = b0.m_knight; m_bishop = b0.m_bishop;
    m_rook = b0.m_rook; m_queen = b0.m_queen; m_king = b0.m_king; m_white =
    b0.m_white; m_black = b0.m_black; m_all = b0.m_all; b_stm = b0.b_stm;
    b_wr = b0.b_wr; b_br = b0.b_br; b_ep = b0.b_ep; b_pinned = b0.b_pinned;
    b_checks = b0.b_checks; b_term = b0.b_term; b_half = b0.b_half; b_full =
    b0.b_full; b_hash = h }

(** val with_stm : board -> color -> board **)

let with_stm b0 c =
  { m_pawn = b0.m_pawn; m_knight = b0.m_knight; m_bishop = b0.m_bishop;
    m_rook = b0.m_rook; m_queen = b0.m_queen; m_king = b0.m_king; m_white =
    b0.m_white; m_black = b0.m_black; m_all = b0.m_all; b_stm = c; b_wr =
    b0.b_wr; b_br = b0.b_br; b_ep = b0.b_ep; b_pinned = b0.b_pinned;
    b_checks = b0.b_checks; b_term = b0.b_term; b_half = b0.b_half; b_full =
    b0.b_full; b_hash = b0.b_hash }

(** val with_rights : board -> color -> cr -> board **)

let with_rights b0 c r =
  { m_pawn = b0.m_pawn; m_knight = b0.m_knight; m_bishop = b0.m_bishop;
    m_rook = b0.m_rook; m_queen = b0.m_queen; m_king = b0.m_king; m_white =
    b0.m_white; m_black = b0.m_black; m_all = b0.m_all; b_stm = b0.b_stm;
    b_wr = (match c with
            | White -> r
            | Black -> b0.b_wr); b_br =
    (match c with
     | White -> b0.b_br
     | Black -> r); b_ep = b0.b_ep; b_pinned = b0.b_pinned; b_checks =
    b0.b_checks; b_term = b0.b_term; b_half = b0.b_half; b_full = b0.b_full;
    b_hash = b0.b_hash }

(** val with_ep : board -> square option -> board **)

let with_ep b0 e =
  { m_pawn = b0.m_pawn; m_knight = b0.m_knight; m_bishop = b0.m_bishop;
    m_rook = b0.m_rook; m_queen = b0.m_queen; m_king = b0.m_king; m_white =
    b0.m_white; m_black = b0.m_black; m_all = b0.m_all; b_stm = b0.b_stm;
    b_wr = b0.b_wr; b_br = b0.b_br; b_ep = e; b_pinned = b0.b_pinned;
    b_checks = b0.b_checks; b_term = b0.b_term; b_half = b0.b_half; b_full =
    b0.b_full; b_hash = b0.b_hash }

(** val with_pc : board -> bb -> bb -> board **)

let with_pc b0 p c =
  { m_pawn = b0.m_pawn; m_knight = b0.m_knight; m_bishop = b0.m_bishop;
    m_rook = b0.m_rook; m_queen = b0.m_queen; m_king = b0.m_king; m_white =
    b0.m_white; m_black = b0.m_black; m_all = b0.m_all; b_stm = b0.b_stm;
    b_wr = b0.b_wr; b_br = b0.b_br; b_ep = b0.b_ep; b_pinned = p; b_checks =
    c; b_term = b0.b_term; b_half = b0.b_half; b_full = b0.b_full; b_hash =
    b0.b_hash }

(** val with_term : board -> bool -> board **)

let with_term b0 t =
  { m_pawn = b0.m_pawn; m_knight = b0.m_knight; m_bishop = b0.m_bishop;
    m_rook = b0.m_rook; m_queen = b0.m_queen; m_king = b0.m_king; m_white =
    b0.m_white; m_black = b0.m_black; m_all = b0.m_all; b_stm = b0.b_stm;
    b_wr = b0.b_wr; b_br = b0.b_br; b_ep = b0.b_ep; b_pinned = b0.b_pinned;
    b_checks = b0.b_checks; b_term = t; b_half = b0.b_half; b_full =
    b0.b_full; b_hash = b0.b_hash }

(** val with_clocks : board -> n -> n -> board **)

let with_clocks b0 h f =
  { m_pawn = b0.m_pawn; m_knight = b0.m_knight; m_bishop = b0.m_bishop;
    m_rook = b0.m_rook; m_queen = b0.m_queen; m_king = b0.m_king; m_white =
    b0.m_white; m_black = b0.m_black; m_all = b0.m_all; b_stm = b0.b_stm;
    b_wr = b0.b_wr; b_br = b0.b_br; b_ep = b0.b_ep; b_pinned = b0.b_pinned;
    b_checks = b0.b_checks; b_term = b0.b_term; b_half = h; b_full = f;
    b_hash = b0.b_hash }

(** val new_board : board **)

let new_board =
  { m_pawn = N0; m_knight = N0; m_bishop = N0; m_rook = N0; m_queen = N0;
    m_king = N0; m_white = N0; m_black = N0; m_all = N0; b_stm = White;
    b_wr = BothSides; b_br = BothSides; b_ep = None; b_pinned = N0;
    b_checks = N0; b_term = false; b_half = N0; b_full = (Npos XH); b_hash =
    N0 }

(** val is_empty_square : board -> square -> bool **)

let is_empty_square b0 s =
  is_blank (N.coq_land b0.m_all (bit s))

(** val b2n : bool -> n **)

let b2n = function
| true -> Npos XH
| false -> N0

(** val piece_type_on : board -> square -> ptype option res **)

let piece_type_on b0 s =
  if is_empty_square b0 s
  then Ok None
  else let sum =
         fold_left (fun acc t ->
           N.add acc
             (N.mul (ptype_index t)
               (b2n (negb (is_blank (N.coq_land (tmask b0 t) (bit s)))))))
           (Knight :: (Bishop :: (Rook :: (Queen :: (King :: []))))) N0
       in
       bind (unwrap (ptype_of_index sum)) (fun t -> Ok (Some t))

(** val piece_color_on : board -> square -> color option **)

let piece_color_on b0 s =
  if is_empty_square b0 s
  then None
  else if is_blank (N.coq_land b0.m_white (bit s))
       then Some Black
       else Some White

(** val piece_on : board -> square -> piece option res **)

let piece_on b0 s =
  bind (piece_type_on b0 s) (fun ot ->
    match ot with
    | Some t ->
      Ok (Some (t,
        (if is_blank (N.coq_land b0.m_white (bit s)) then Black else White)))
    | None -> Ok None)

(** val clear_square : zkeys -> board -> square -> board res **)

let clear_square k b0 s =
  bind (piece_on b0 s) (fun op ->
    match op with
    | Some p ->
      let (t, c) = p in
      let k0 = bnot (bit s) in
      Ok
      (with_hash
        (with_c (with_t (with_all b0 (N.coq_land k0)) t (N.coq_land k0)) c
          (N.coq_land k0)) (N.coq_lxor b0.b_hash (k.zk_piece c t s)))
    | None -> Ok b0)

(** val put_piece : zkeys -> board -> piece -> square -> board res **)

let put_piece k b0 pc s =
  bind (if negb (is_empty_square b0 s) then clear_square k b0 s else Ok b0)
    (fun b1 ->
    let m = bit s in
    Ok
    (with_hash
      (with_c (with_t (with_all b1 (N.coq_lxor m)) (fst pc) (N.coq_lxor m))
        (snd pc) (N.coq_lxor m))
      (N.coq_lxor b1.b_hash (k.zk_piece (snd pc) (fst pc) s))))

(** val set_side_to_move : zkeys -> board -> color -> board **)

let set_side_to_move k b0 c =
  if color_eqb c b0.b_stm
  then b0
  else with_stm (with_hash b0 (N.coq_lxor b0.b_hash k.zk_black)) c

(** val set_castling_rights : zkeys -> board -> color -> cr -> board **)

let set_castling_rights k b0 c r =
  let cur = rights_of b0 c in
  let b1 =
    if cr_eqb cur r
    then b0
    else with_hash b0
           (N.coq_lxor (N.coq_lxor b0.b_hash (k.zk_castle c cur))
             (k.zk_castle c r))
  in
  with_rights b1 c r

(** val set_en_passant : zkeys -> board -> square option -> board **)

let set_en_passant k b0 e =
  let h1 =
    match b0.b_ep with
    | Some s -> N.coq_lxor b0.b_hash (k.zk_ep (file s))
    | None -> b0.b_hash
  in
  let h2 =
    match e with
    | Some s -> N.coq_lxor h1 (k.zk_ep (file s))
    | None -> h1
  in
  with_ep (with_hash b0 h2) e

(** val calc_hash : zkeys -> board -> n res **)

let calc_hash k b0 =
  let h0 = match b0.b_stm with
           | White -> N0
           | Black -> k.zk_black in
  bind
    (fold_left (fun acc s ->
      bind acc (fun h ->
        bind (piece_type_on b0 s) (fun ot ->
          bind (unwrap_o ot) (fun t ->
            bind (unwrap_o (piece_color_on b0 s)) (fun c -> Ok
              (N.coq_lxor h (k.zk_piece c t s))))))) (bits b0.m_all) (Ok h0))
    (fun h1 ->
    let h2 =
      N.coq_lxor (N.coq_lxor h1 (k.zk_castle White b0.b_wr))
        (k.zk_castle Black b0.b_br)
    in
    Ok
    (match b0.b_ep with
     | Some s -> N.coq_lxor h2 (k.zk_ep (file s))
     | None -> h2))

(** val king_square : board -> color -> square res **)

let king_square b0 c =
  to_square (N.coq_land b0.m_king (cmask b0 c))

(** val pins_and_checks : board -> square -> (bb * bb) res **)

let pins_and_checks b0 sq =
  let c = b0.b_stm in
  let o = opp c in
  let bq = N.coq_lor b0.m_bishop b0.m_queen in
  let rq = N.coq_lor b0.m_rook b0.m_queen in
  let attackers0 =
    N.coq_land (cmask b0 o)
      (N.coq_lor (N.coq_land (look bISHOP_T sq) bq)
        (N.coq_land (look rOOK_T sq) rq))
  in
  bind
    (fold_left (fun acc a ->
      bind acc (fun x ->
        let (p, k) = x in
        bind (unwrap_o (between sq a)) (fun m ->
          let btw = N.coq_land b0.m_all m in
          (match popcount btw with
           | N0 -> Ok (p, (N.coq_lor k (bit a)))
           | Npos p0 ->
             (match p0 with
              | XH -> Ok ((N.coq_lor p btw), k)
              | _ -> Ok (p, k)))))) (bits attackers0) (Ok (N0, N0)))
    (fun x ->
    let (pinned, checks) = x in
    let pinned0 = N.coq_land pinned (cmask b0 c) in
    let checks0 =
      N.coq_lor checks
        (N.coq_land (cmask b0 o)
          (N.coq_lor (N.coq_land (look kNIGHT_T sq) b0.m_knight)
            (N.coq_land (look kING_T sq) b0.m_king)))
    in
    let pawn_att =
      match match c with
            | White -> sq_up sq
            | Black -> sq_down sq with
      | Ok u ->
        let r = rank u in
        let opawns = N.coq_land (cmask b0 o) b0.m_pawn in
        let l =
          match sq_left sq with
          | Ok x0 -> N.coq_land opawns (bit (mk_sq r (file x0)))
          | _ -> N0
        in
        let rr =
          match sq_right sq with
          | Ok x0 -> N.coq_land opawns (bit (mk_sq r (file x0)))
          | _ -> N0
        in
        N.coq_lor l rr
      | _ -> N0
    in
    Ok (pinned0, (N.coq_lor checks0 pawn_att)))

(** val update_pins_and_checks : board -> board res **)

let update_pins_and_checks b0 =
  bind (king_square b0 b0.b_stm) (fun k ->
    bind (pins_and_checks b0 k) (fun x ->
      let (p, c) = x in Ok (with_pc b0 p c)))

(** val is_under_attack : board -> square -> bool res **)

let is_under_attack b0 sq =
  bind (pins_and_checks b0 sq) (fun x ->
    let (_, c) = x in Ok (negb (is_blank c)))

(** val castling_available : board -> bb option -> cr res **)

let castling_available b0 check_mask =
  let checks = match check_mask with
               | Some m -> m
               | None -> b0.b_checks in
  if negb (is_blank checks)
  then Ok Neither
  else let c = b0.b_stm in
       let r = back_rank c in
       bind
         (if has_kingside (rights_of b0 c)
          then bind (is_under_attack b0 (mk_sq r (Npos (XI (XO XH)))))
                 (fun a1 ->
                 bind (is_under_attack b0 (mk_sq r (Npos (XO (XI XH)))))
                   (fun a2 ->
                   let empty =
                     is_blank
                       (N.coq_land
                         (N.coq_lxor (bit (mk_sq r (Npos (XI (XO XH)))))
                           (bit (mk_sq r (Npos (XO (XI XH)))))) b0.m_all)
                   in
                   Ok ((&&) ((&&) (negb a1) (negb a2)) empty)))
          else Ok false) (fun ks ->
         bind
           (if has_queenside (rights_of b0 c)
            then bind (is_under_attack b0 (mk_sq r (Npos (XI XH))))
                   (fun a1 ->
                   bind (is_under_attack b0 (mk_sq r (Npos (XO XH))))
                     (fun a2 ->
                     let empty =
                       is_blank
                         (N.coq_land
                           (N.coq_lxor
                             (N.coq_lxor (bit (mk_sq r (Npos (XI XH))))
                               (bit (mk_sq r (Npos (XO XH)))))
                             (bit (mk_sq r (Npos XH)))) b0.m_all)
                     in
                     Ok ((&&) ((&&) (negb a1) (negb a2)) empty)))
            else Ok false) (fun qs -> Ok
           (cr_add (if ks then KingSide else Neither)
             (if qs then QueenSide else Neither))))

(** val truncate_ray : board -> square -> nat -> bb res **)

let truncate_ray b0 s i =
  let r = ray s i in
  let blk = N.coq_land r b0.m_all in
  let nearest =
    match i with
    | O -> last_bit_square blk
    | S n0 ->
      (match n0 with
       | O -> first_bit_square blk
       | S n1 ->
         (match n1 with
          | O -> last_bit_square blk
          | S n2 ->
            (match n2 with
             | O -> first_bit_square blk
             | S n3 ->
               (match n3 with
                | O -> last_bit_square blk
                | S n4 ->
                  (match n4 with
                   | O -> last_bit_square blk
                   | S _ -> first_bit_square blk)))))
  in
  (match nearest with
   | Some t ->
     bind (unwrap_o (between s t)) (fun m -> Ok (N.coq_lxor m (bit t)))
   | None -> Ok r)

(** val truncate_rays : board -> nat list -> square -> bb res **)

let truncate_rays b0 idx s =
  bind
    (fold_left (fun acc i ->
      bind acc (fun a ->
        bind (truncate_ray b0 s i) (fun x -> Ok (N.coq_lxor a x)))) idx (Ok
      N0)) (fun legals -> Ok (N.coq_land legals (bnot (cmask b0 b0.b_stm))))

(** val piece_moves_mask : board -> ptype -> square -> bb res **)

let piece_moves_mask b0 t s =
  let c = b0.b_stm in
  let own = cmask b0 c in
  (match t with
   | Pawn ->
     let epm = match b0.b_ep with
               | Some e -> bit e
               | None -> N0 in
     let capsq = N.coq_lor (cmask b0 (opp c)) epm in
     let single = N.coq_land (pawn_push c s) (bnot b0.m_all) in
     let dbl =
       if is_blank single
       then N0
       else N.coq_land (pawn_double c s) (bnot b0.m_all)
     in
     Ok (N.coq_lor (N.coq_lor single dbl) (N.coq_land (pawn_cap c s) capsq))
   | Knight -> Ok (N.coq_land (look kNIGHT_T s) (bnot own))
   | Bishop ->
     truncate_rays b0 ((S (S (S (S O)))) :: ((S (S (S (S (S O))))) :: ((S (S
       (S (S (S (S O)))))) :: ((S (S (S (S (S (S (S O))))))) :: [])))) s
   | Rook ->
     truncate_rays b0 (O :: ((S O) :: ((S (S O)) :: ((S (S (S O))) :: [])))) s
   | Queen ->
     truncate_rays b0 (O :: ((S O) :: ((S (S O)) :: ((S (S (S O))) :: ((S (S
       (S (S O)))) :: ((S (S (S (S (S O))))) :: ((S (S (S (S (S (S
       O)))))) :: ((S (S (S (S (S (S (S O))))))) :: [])))))))) s
   | King -> Ok (N.coq_land (look kING_T s) (bnot own)))

(** val is_en_passant_move : pmove -> board -> bool **)

let is_en_passant_move m b0 =
  match b0.b_ep with
  | Some e -> (&&) (ptype_eqb m.pm_type Pawn) (N.eqb m.pm_to e)
  | None -> false

(** val is_capture_on_board : pmove -> board -> bool **)

let is_capture_on_board m b0 =
  (||) (negb (is_blank (N.coq_land (bit m.pm_to) (cmask b0 (opp b0.b_stm)))))
    (is_en_passant_move m b0)

(** val move_piece : zkeys -> board -> pmove -> board res **)

let move_piece k b0 m =
  bind (unwrap_o (piece_color_on b0 m.pm_from)) (fun c ->
    bind (clear_square k b0 m.pm_from) (fun b1 ->
      put_piece k b1
        ((match m.pm_promo with
          | Some q -> q
          | None -> m.pm_type), c) m.pm_to))

(** val clear_square_if_en_passant : zkeys -> board -> pmove -> board res **)

let clear_square_if_en_passant k b0 m =
  if is_en_passant_move m b0
  then bind
         (unwrap
           (match b0.b_stm with
            | White -> sq_down m.pm_to
            | Black -> sq_up m.pm_to)) (fun v -> clear_square k b0 v)
  else Ok b0

(** val check_mask_after : zkeys -> board -> pmove -> bb res **)

let check_mask_after k b0 m =
  bind (move_piece k b0 m) (fun b1 ->
    bind (clear_square_if_en_passant k b1 m) (fun b2 ->
      bind (update_pins_and_checks b2) (fun b3 -> Ok b3.b_checks)))

(** val needs_eval : board -> pmove -> bool **)

let needs_eval b0 m =
  (||)
    ((||) ((||) (negb (is_blank b0.b_checks)) (ptype_eqb m.pm_type King))
      (is_en_passant_move m b0))
    (negb (is_blank (N.coq_land (bit m.pm_from) b0.b_pinned)))

(** val is_legal_move : zkeys -> board -> bmove -> bool res **)

let is_legal_move k b0 mv =
  if b0.b_term
  then Ok false
  else (match mv with
        | MovePiece m ->
          let t = m.pm_type in
          let src = m.pm_from in
          let dst = m.pm_to in
          if is_blank
               (N.coq_land (N.coq_land (tmask b0 t) (cmask b0 b0.b_stm))
                 (bit src))
          then Ok false
          else bind (piece_moves_mask b0 t src) (fun mask0 ->
                 if is_blank (N.coq_land mask0 (bit dst))
                 then Ok false
                 else let is_promotion =
                        (&&) (ptype_eqb t Pawn)
                          (N.eqb (rank dst) (promotion_rank b0.b_stm))
                      in
                      let promo_fine =
                        match m.pm_promo with
                        | Some p ->
                          (match p with
                           | Pawn -> false
                           | King -> false
                           | _ -> is_promotion)
                        | None -> negb is_promotion
                      in
                      if negb promo_fine
                      then Ok false
                      else if needs_eval b0 m
                           then bind (check_mask_after k b0 m) (fun cm -> Ok
                                  (is_blank cm))
                           else Ok true)
        | CastleK ->
          bind (castling_available b0 None) (fun r -> Ok (has_kingside r))
        | CastleQ ->
          bind (castling_available b0 None) (fun r -> Ok (has_queenside r)))

(** val filter_res : ('a1 -> bool res) -> 'a1 list -> 'a1 list res **)

let rec filter_res f = function
| [] -> Ok []
| x :: r ->
  bind (f x) (fun k ->
    bind (filter_res f r) (fun r' -> Ok (if k then x :: r' else r')))

(** val flat_map_res : ('a1 -> 'a2 list res) -> 'a1 list -> 'a2 list res **)

let rec flat_map_res f = function
| [] -> Ok []
| x :: r ->
  bind (f x) (fun y -> bind (flat_map_res f r) (fun r' -> Ok (app y r')))

(** val any_res : ('a1 -> bool res) -> 'a1 list -> bool res **)

let rec any_res f = function
| [] -> Ok false
| x :: r -> bind (f x) (fun k -> if k then Ok true else any_res f r)

(** val mk_pm : ptype -> square -> square -> ptype option -> pmove **)

let mk_pm t s d pr =
  { pm_type = t; pm_from = s; pm_to = d; pm_promo = pr }

(** val legal_moves : zkeys -> board -> bmove list res **)

let legal_moves k b0 =
  let c = b0.b_stm in
  bind
    (flat_map_res (fun t ->
      flat_map_res (fun s ->
        bind (piece_moves_mask b0 t s) (fun mask0 ->
          bind
            (filter_res (fun d ->
              let m = mk_pm t s d None in
              if needs_eval b0 m
              then bind (check_mask_after k b0 m) (fun cm -> Ok (is_blank cm))
              else Ok true) (bits mask0)) (fun dests -> Ok
            (flat_map (fun d ->
              if (&&) (ptype_eqb t Pawn) (N.eqb (rank d) (promotion_rank c))
              then map (fun q -> MovePiece (mk_pm Pawn s d (Some q)))
                     (Knight :: (Bishop :: (Rook :: (Queen :: []))))
              else (MovePiece (mk_pm t s d None)) :: []) dests))))
        (bits (N.coq_land (cmask b0 c) (tmask b0 t)))) all_types) (fun pms ->
    bind (castling_available b0 (Some b0.b_checks)) (fun ca -> Ok
      (app pms
        (match ca with
         | Neither -> []
         | QueenSide -> CastleQ :: []
         | KingSide -> CastleK :: []
         | BothSides -> CastleK :: (CastleQ :: [])))))

(** val update_terminal_status : zkeys -> board -> board res **)

let update_terminal_status k b0 =
  let c = b0.b_stm in
  bind
    (any_res (fun t ->
      any_res (fun s ->
        bind (piece_moves_mask b0 t s) (fun mask0 ->
          any_res (fun d ->
            bind (check_mask_after k b0 (mk_pm t s d None)) (fun cm -> Ok
              (is_blank cm))) (bits mask0)))
        (bits (N.coq_land (cmask b0 c) (tmask b0 t)))) all_types)
    (fun found -> Ok (with_term b0 (negb found)))

type bstatus =
| BOngoing
| BCheckMated of color
| BTheoreticalDraw
| BFiftyMoves
| BStalemate

(** val is_theoretical_draw : board -> bool res **)

let is_theoretical_draw b0 =
  let w = popcount b0.m_white in
  let k = popcount b0.m_black in
  if (||) (N.ltb (Npos (XO XH)) w) (N.ltb (Npos (XO XH)) k)
  then Ok false
  else let minors = N.coq_lor b0.m_knight b0.m_bishop in
       bind
         (match w with
          | N0 -> Panic
          | Npos p ->
            (match p with
             | XI _ -> Panic
             | XO p0 ->
               (match p0 with
                | XH -> Ok (negb (is_blank (N.coq_land b0.m_white minors)))
                | _ -> Panic)
             | XH -> Ok true)) (fun wc ->
         bind
           (match k with
            | N0 -> Panic
            | Npos p ->
              (match p with
               | XI _ -> Panic
               | XO p0 ->
                 (match p0 with
                  | XH -> Ok (negb (is_blank (N.coq_land b0.m_black minors)))
                  | _ -> Panic)
               | XH -> Ok true)) (fun bc -> Ok ((&&) wc bc)))

(** val get_status : board -> bstatus res **)

let get_status b0 =
  if b0.b_term
  then Ok
         (if N.ltb N0 (popcount b0.b_checks)
          then BCheckMated b0.b_stm
          else BStalemate)
  else bind (is_theoretical_draw b0) (fun td ->
         if td
         then Ok BTheoreticalDraw
         else if N.leb (Npos (XO (XO (XI (XO (XO (XI XH))))))) b0.b_half
              then Ok BFiftyMoves
              else Ok BOngoing)

(** val update_move_number : board -> board **)

let update_move_number b0 =
  match b0.b_stm with
  | White -> b0
  | Black -> with_clocks b0 b0.b_half (N.add b0.b_full (Npos XH))

(** val update_moves_since_capture : board -> bmove -> bool -> board **)

let update_moves_since_capture b0 mv is_capture0 =
  match mv with
  | MovePiece m ->
    if (||) (ptype_eqb m.pm_type Pawn) is_capture0
    then with_clocks b0 N0 b0.b_full
    else with_clocks b0 (N.add b0.b_half (Npos XH)) b0.b_full
  | _ -> with_clocks b0 (N.add b0.b_half (Npos XH)) b0.b_full

(** val update_castling_rights : zkeys -> board -> bmove -> board **)

let update_castling_rights k b0 mv =
  let c = b0.b_stm in
  let o = opp c in
  let b1 =
    match mv with
    | MovePiece m ->
      if negb (cr_eqb (rights_of b0 o) Neither)
      then let d = m.pm_to in
           let obr = back_rank o in
           set_castling_rights k b0 o
             (cr_sub (rights_of b0 o)
               (if N.eqb d (mk_sq obr (Npos (XI (XI XH))))
                then KingSide
                else if N.eqb d (mk_sq obr N0) then QueenSide else Neither))
      else b0
    | _ -> b0
  in
  if negb (cr_eqb (rights_of b1 c) Neither)
  then set_castling_rights k b1 c
         (cr_sub (rights_of b1 c)
           (match mv with
            | MovePiece m ->
              (match m.pm_type with
               | Rook ->
                 if N.eqb m.pm_from (mk_sq (back_rank c) (Npos (XI (XI XH))))
                 then KingSide
                 else if N.eqb m.pm_from (mk_sq (back_rank c) N0)
                      then QueenSide
                      else Neither
               | King -> BothSides
               | _ -> Neither)
            | _ -> BothSides))
  else b1

(** val update_en_passant : zkeys -> board -> bmove -> board **)

let update_en_passant k b0 = function
| MovePiece m ->
  let sr = rank m.pm_from in
  let dr = rank m.pm_to in
  let diff = if N.leb sr dr then N.sub dr sr else N.sub sr dr in
  if (&&) (ptype_eqb m.pm_type Pawn) (N.eqb diff (Npos (XO XH)))
  then set_en_passant k b0 (Some
         (mk_sq (N.div (N.add sr dr) (Npos (XO XH))) (file m.pm_to)))
  else set_en_passant k b0 None
| _ -> set_en_passant k b0 None

(** val make_move_unchecked : zkeys -> board -> bmove -> board res **)

let make_move_unchecked k b0 mv =
  let is_capture0 =
    match mv with
    | MovePiece m -> is_capture_on_board m b0
    | _ -> false
  in
  bind
    (match mv with
     | MovePiece m ->
       bind (move_piece k b0 m) (fun x -> clear_square_if_en_passant k x m)
     | CastleK ->
       let r = back_rank b0.b_stm in
       bind
         (move_piece k b0
           (mk_pm King (mk_sq r (Npos (XO (XO XH))))
             (mk_sq r (Npos (XO (XI XH)))) None)) (fun x ->
         move_piece k x
           (mk_pm Rook (mk_sq r (Npos (XI (XI XH))))
             (mk_sq r (Npos (XI (XO XH)))) None))
     | CastleQ ->
       let r = back_rank b0.b_stm in
       bind
         (move_piece k b0
           (mk_pm King (mk_sq r (Npos (XO (XO XH)))) (mk_sq r (Npos (XO XH)))
             None)) (fun x ->
         move_piece k x
           (mk_pm Rook (mk_sq r N0) (mk_sq r (Npos (XI XH))) None)))
    (fun b1 ->
    let o = opp b1.b_stm in
    let b2 = update_move_number b1 in
    let b3 = update_moves_since_capture b2 mv is_capture0 in
    let b4 = update_castling_rights k b3 mv in
    let b5 = set_side_to_move k b4 o in
    let b6 = update_en_passant k b5 mv in
    bind (update_pins_and_checks b6) (fun b7 -> update_terminal_status k b7))

(** val make_move : zkeys -> board -> bmove -> board res **)

let make_move k b0 mv =
  bind (is_legal_move k b0 mv) (fun ok ->
    if ok then make_move_unchecked k b0 mv else Err EIllegalMove)

type builder = { bd_pieces : piece option list; bd_stm : color; bd_wr : 
                 cr; bd_br : cr; bd_ep : square option; bd_half : n;
                 bd_full : n }

(** val validate : zkeys -> board -> err option res **)

let validate k b0 =
  if negb (is_blank (N.coq_land b0.m_white b0.m_black))
  then Ok (Some EOverlap)
  else let pairs =
         flat_map (fun i -> map (fun j -> (i, j)) (skipn (S i) all_types))
           (seq O (S (S (S (S (S O))))))
       in
       if existsb (fun pat ->
            let (i, tj) = pat in
            negb
              (is_blank
                (N.coq_land (tmask b0 (nth i all_types Pawn)) (tmask b0 tj))))
            pairs
       then Ok (Some EOverlap)
       else if negb
                 (N.eqb
                   (fold_left (fun acc t -> N.coq_lor acc (tmask b0 t))
                     all_types N0) b0.m_all)
            then Ok (Some ESelfConsistency)
            else if negb
                      (N.eqb (popcount (N.coq_land b0.m_king b0.m_white))
                        (Npos XH))
                 then Ok (Some EKings)
                 else if negb
                           (N.eqb
                             (popcount (N.coq_land b0.m_king b0.m_black))
                             (Npos XH))
                      then Ok (Some EKings)
                      else bind
                             (update_pins_and_checks
                               (set_side_to_move k b0 (opp b0.b_stm)))
                             (fun cb ->
                             if N.ltb N0 (popcount cb.b_checks)
                             then Ok (Some EOppCheck)
                             else let c = b0.b_stm in
                                  let ep_ok0 =
                                    match b0.b_ep with
                                    | Some e ->
                                      (match c with
                                       | White ->
                                         let p = ((Npos (XI (XO XH))),
                                           (sq_down e))
                                         in
                                         let origin_sq = sq_up e in
                                         let (ep_rank, pawn_sq) = p in
                                         (&&)
                                           ((&&) (N.eqb (rank e) ep_rank)
                                             (is_empty_square b0 e))
                                           (match pawn_sq with
                                            | Ok p0 ->
                                              (match origin_sq with
                                               | Ok o ->
                                                 (&&)
                                                   (negb
                                                     (is_blank
                                                       (N.coq_land
                                                         (N.coq_land
                                                           b0.m_pawn
                                                           (cmask b0 (opp c)))
                                                         (bit p0))))
                                                   (is_empty_square b0 o)
                                               | _ -> false)
                                            | _ -> false)
                                       | Black ->
                                         let p = ((Npos (XO XH)), (sq_up e))
                                         in
                                         let origin_sq = sq_down e in
                                         let (ep_rank, pawn_sq) = p in
                                         (&&)
                                           ((&&) (N.eqb (rank e) ep_rank)
                                             (is_empty_square b0 e))
                                           (match pawn_sq with
                                            | Ok p0 ->
                                              (match origin_sq with
                                               | Ok o ->
                                                 (&&)
                                                   (negb
                                                     (is_blank
                                                       (N.coq_land
                                                         (N.coq_land
                                                           b0.m_pawn
                                                           (cmask b0 (opp c)))
                                                         (bit p0))))
                                                   (is_empty_square b0 o)
                                               | _ -> false)
                                            | _ -> false))
                                    | None -> true
                                  in
                                  if negb ep_ok0
                                  then Ok (Some EEnPassant)
                                  else bind (king_square b0 White) (fun wk ->
                                         let rights_bad = fun c0 k0 ->
                                           let rooks =
                                             N.coq_land b0.m_rook
                                               (cmask b0 c0)
                                           in
                                           let r = back_rank c0 in
                                           if N.eqb k0
                                                (mk_sq r (Npos (XO (XO XH))))
                                           then let vm =
                                                  match rights_of b0 c0 with
                                                  | Neither -> N0
                                                  | QueenSide ->
                                                    bit (mk_sq r N0)
                                                  | KingSide ->
                                                    bit
                                                      (mk_sq r (Npos (XI (XI
                                                        XH))))
                                                  | BothSides ->
                                                    N.coq_lor
                                                      (bit (mk_sq r N0))
                                                      (bit
                                                        (mk_sq r (Npos (XI
                                                          (XI XH)))))
                                                in
                                                negb
                                                  (N.eqb
                                                    (popcount
                                                      (N.coq_land rooks vm))
                                                    (popcount vm))
                                           else negb
                                                  (cr_eqb (rights_of b0 c0)
                                                    Neither)
                                         in
                                         if rights_bad White wk
                                         then Ok (Some ECastling)
                                         else bind (king_square b0 Black)
                                                (fun bk ->
                                                if rights_bad Black bk
                                                then Ok (Some ECastling)
                                                else Ok None)))

(** val try_from_builder : zkeys -> builder -> board res **)

let try_from_builder k bd =
  bind
    (fold_left (fun acc s ->
      bind acc (fun b0 ->
        match nth (N.to_nat s) bd.bd_pieces None with
        | Some pc -> put_piece k b0 pc s
        | None -> Ok b0)) squares (Ok new_board)) (fun b0 ->
    if negb (N.eqb (popcount (N.coq_land b0.m_king b0.m_white)) (Npos XH))
    then Err EKings
    else if negb
              (N.eqb (popcount (N.coq_land b0.m_king b0.m_black)) (Npos XH))
         then Err EKings
         else let b1 = set_side_to_move k b0 bd.bd_stm in
              let b2 = set_en_passant k b1 bd.bd_ep in
              let b3 = set_castling_rights k b2 White bd.bd_wr in
              let b4 = set_castling_rights k b3 Black bd.bd_br in
              let b5 = with_clocks b4 bd.bd_half bd.bd_full in
              bind (update_pins_and_checks b5) (fun b6 ->
                bind (update_terminal_status k b6) (fun b7 ->
                  bind (calc_hash k b7) (fun h ->
                    let b8 = with_hash b7 h in
                    bind (validate k b8) (fun v ->
                      match v with
                      | Some e -> Err e
                      | None -> Ok b8)))))

(** val builder_of_board : board -> builder res **)

let builder_of_board b0 =
  bind
    (fold_right (fun s acc ->
      bind acc (fun l ->
        bind (piece_type_on b0 s) (fun ot ->
          match ot with
          | Some t ->
            bind (unwrap_o (piece_color_on b0 s)) (fun c -> Ok ((Some (t,
              c)) :: l))
          | None -> Ok (None :: l)))) (Ok []) squares) (fun pcs -> Ok
    { bd_pieces = pcs; bd_stm = b0.b_stm; bd_wr = b0.b_wr; bd_br = b0.b_br;
    bd_ep = b0.b_ep; bd_half = b0.b_half; bd_full = b0.b_full })

type bytes = n list

(** val b : string -> bytes **)

let b s =
  map n_of_ascii (list_ascii_of_string s)

(** val blen : bytes -> n **)

let blen s =
  N.of_nat (length s)

(** val is_cont : n -> bool **)

let is_cont b0 =
  (&&) (N.leb (Npos (XO (XO (XO (XO (XO (XO (XO XH)))))))) b0)
    (N.ltb b0 (Npos (XO (XO (XO (XO (XO (XO (XI XH)))))))))

(** val boundary : bytes -> n -> bool **)

let boundary s i =
  (||) (N.eqb i (blen s))
    (match nth_error s (N.to_nat i) with
     | Some b0 -> negb (is_cont b0)
     | None -> false)

(** val sub0 : bytes -> n -> n -> bytes **)

let sub0 s a b0 =
  firstn (N.to_nat (N.sub b0 a)) (skipn (N.to_nat a) s)

(** val range_ok : bytes -> n -> n -> bool **)

let range_ok s a b0 =
  (&&) ((&&) ((&&) (N.leb a b0) (N.leb b0 (blen s))) (boundary s a))
    (boundary s b0)

(** val get : bytes -> n -> n -> bytes option **)

let get s a b0 =
  if range_ok s a b0 then Some (sub0 s a b0) else None

(** val usub : n -> n -> n res **)

let usub a b0 =
  if N.leb b0 a then Ok (N.sub a b0) else Panic

(** val split_on : n -> bytes -> bytes -> bytes list **)

let rec split_on c s cur =
  match s with
  | [] -> (rev cur) :: []
  | x :: r ->
    if N.eqb x c
    then (rev cur) :: (split_on c r [])
    else split_on c r (x :: cur)

(** val beq : bytes -> bytes -> bool **)

let beq a b0 =
  if list_eq_dec N.eq_dec a b0 then true else false

(** val contains : bytes -> n -> bool **)

let contains s c =
  existsb (N.eqb c) s

(** val upper : n -> n **)

let upper b0 =
  if (&&) (N.leb (Npos (XI (XO (XO (XO (XO (XI XH))))))) b0)
       (N.leb b0 (Npos (XO (XI (XO (XI (XI (XI XH))))))))
  then N.sub b0 (Npos (XO (XO (XO (XO (XO XH))))))
  else b0

(** val lower : n -> n **)

let lower b0 =
  if (&&) (N.leb (Npos (XI (XO (XO (XO (XO (XO XH))))))) b0)
       (N.leb b0 (Npos (XO (XI (XO (XI (XI (XO XH))))))))
  then N.add b0 (Npos (XO (XO (XO (XO (XO XH))))))
  else b0

(** val parse_file : bytes -> n res **)

let parse_file = function
| [] -> Err EFileName
| c :: l ->
  (match l with
   | [] ->
     if (&&) (N.leb (Npos (XI (XO (XO (XO (XO (XI XH))))))) c)
          (N.leb c (Npos (XO (XO (XO (XI (XO (XI XH))))))))
     then Ok (N.sub c (Npos (XI (XO (XO (XO (XO (XI XH))))))))
     else Err EFileName
   | _ :: _ -> Err EFileName)

(** val parse_rank : bytes -> n res **)

let parse_rank = function
| [] -> Err ERankName
| c :: l ->
  (match l with
   | [] ->
     if (&&) (N.leb (Npos (XI (XO (XO (XO (XI XH)))))) c)
          (N.leb c (Npos (XO (XO (XO (XI (XI XH)))))))
     then Ok (N.sub c (Npos (XI (XO (XO (XO (XI XH)))))))
     else Err ERankName
   | _ :: _ -> Err ERankName)

(** val print_file : n -> bytes **)

let print_file f =
  (N.add (Npos (XI (XO (XO (XO (XO (XI XH))))))) f) :: []

(** val print_rank : n -> bytes **)

let print_rank r =
  (N.add (Npos (XI (XO (XO (XO (XI XH)))))) r) :: []

(** val parse_sq : bytes -> square res **)

let parse_sq = function
| [] -> Err ESquareRepr
| f :: l ->
  (match l with
   | [] -> Err ESquareRepr
   | r :: l0 ->
     (match l0 with
      | [] ->
        if N.leb (Npos (XO (XO (XO (XO (XO (XO (XO XH)))))))) f
        then Err ESquareRepr
        else (match parse_file (f :: []) with
              | Ok fi ->
                (match parse_rank (r :: []) with
                 | Ok ri -> Ok (mk_sq ri fi)
                 | _ -> Err ESquareRepr)
              | _ -> Err ESquareRepr)
      | _ :: _ -> Err ESquareRepr))

(** val print_sq : square -> bytes **)

let print_sq s =
  (N.add (N.coq_land s (Npos (XI (XI XH)))) (Npos (XI (XO (XO (XO (XO (XI
    XH)))))))) :: ((N.add (N.shiftr s (Npos (XI XH))) (Npos (XI (XO (XO (XO
                     (XI XH))))))) :: [])

(** val parse_pt : bytes -> ptype res **)

let parse_pt = function
| [] -> Ok Pawn
| c :: l ->
  (match l with
   | [] ->
     (match upper c with
      | N0 -> Err EPieceRepr
      | Npos p ->
        (match p with
         | XI p0 ->
           (match p0 with
            | XI p1 ->
              (match p1 with
               | XO p2 ->
                 (match p2 with
                  | XI p3 ->
                    (match p3 with
                     | XO p4 ->
                       (match p4 with
                        | XO p5 ->
                          (match p5 with
                           | XH -> Ok King
                           | _ -> Err EPieceRepr)
                        | _ -> Err EPieceRepr)
                     | _ -> Err EPieceRepr)
                  | _ -> Err EPieceRepr)
               | _ -> Err EPieceRepr)
            | XO p1 ->
              (match p1 with
               | XO p2 ->
                 (match p2 with
                  | XO p3 ->
                    (match p3 with
                     | XI p4 ->
                       (match p4 with
                        | XO p5 ->
                          (match p5 with
                           | XH -> Ok Queen
                           | _ -> Err EPieceRepr)
                        | _ -> Err EPieceRepr)
                     | _ -> Err EPieceRepr)
                  | _ -> Err EPieceRepr)
               | _ -> Err EPieceRepr)
            | XH -> Err EPieceRepr)
         | XO p0 ->
           (match p0 with
            | XI p1 ->
              (match p1 with
               | XI p2 ->
                 (match p2 with
                  | XI p3 ->
                    (match p3 with
                     | XO p4 ->
                       (match p4 with
                        | XO p5 ->
                          (match p5 with
                           | XH -> Ok Knight
                           | _ -> Err EPieceRepr)
                        | _ -> Err EPieceRepr)
                     | _ -> Err EPieceRepr)
                  | _ -> Err EPieceRepr)
               | XO p2 ->
                 (match p2 with
                  | XO p3 ->
                    (match p3 with
                     | XI p4 ->
                       (match p4 with
                        | XO p5 ->
                          (match p5 with
                           | XH -> Ok Rook
                           | _ -> Err EPieceRepr)
                        | _ -> Err EPieceRepr)
                     | XO p4 ->
                       (match p4 with
                        | XO p5 ->
                          (match p5 with
                           | XH -> Ok Bishop
                           | _ -> Err EPieceRepr)
                        | _ -> Err EPieceRepr)
                     | XH -> Err EPieceRepr)
                  | _ -> Err EPieceRepr)
               | XH -> Err EPieceRepr)
            | XO p1 ->
              (match p1 with
               | XO p2 ->
                 (match p2 with
                  | XO p3 ->
                    (match p3 with
                     | XI p4 ->
                       (match p4 with
                        | XO p5 ->
                          (match p5 with
                           | XH -> Ok Pawn
                           | _ -> Err EPieceRepr)
                        | _ -> Err EPieceRepr)
                     | _ -> Err EPieceRepr)
                  | _ -> Err EPieceRepr)
               | _ -> Err EPieceRepr)
            | XH -> Err EPieceRepr)
         | XH -> Err EPieceRepr))
   | _ :: _ -> Err EPieceRepr)

(** val letter : ptype -> bytes **)

let letter = function
| Pawn ->
  b (String ((Ascii (false, false, false, false, true, false, true, false)),
    EmptyString))
| Knight ->
  b (String ((Ascii (false, true, true, true, false, false, true, false)),
    EmptyString))
| Bishop ->
  b (String ((Ascii (false, true, false, false, false, false, true, false)),
    EmptyString))
| Rook ->
  b (String ((Ascii (false, true, false, false, true, false, true, false)),
    EmptyString))
| Queen ->
  b (String ((Ascii (true, false, false, false, true, false, true, false)),
    EmptyString))
| King ->
  b (String ((Ascii (true, true, false, true, false, false, true, false)),
    EmptyString))

(** val print_color : color -> bytes **)

let print_color = function
| White ->
  b (String ((Ascii (true, true, true, false, true, true, true, false)),
    (String ((Ascii (false, false, false, true, false, true, true, false)),
    (String ((Ascii (true, false, false, true, false, true, true, false)),
    (String ((Ascii (false, false, true, false, true, true, true, false)),
    (String ((Ascii (true, false, true, false, false, true, true, false)),
    EmptyString))))))))))
| Black ->
  b (String ((Ascii (false, true, false, false, false, true, true, false)),
    (String ((Ascii (false, false, true, true, false, true, true, false)),
    (String ((Ascii (true, false, false, false, false, true, true, false)),
    (String ((Ascii (true, true, false, false, false, true, true, false)),
    (String ((Ascii (true, true, false, true, false, true, true, false)),
    EmptyString))))))))))

(** val print_cr : cr -> bytes **)

let print_cr = function
| Neither -> []
| QueenSide ->
  b (String ((Ascii (true, false, false, false, true, true, true, false)),
    EmptyString))
| KingSide ->
  b (String ((Ascii (true, true, false, true, false, true, true, false)),
    EmptyString))
| BothSides ->
  b (String ((Ascii (true, true, false, true, false, true, true, false)),
    (String ((Ascii (true, false, false, false, true, true, true, false)),
    EmptyString))))

(** val dec_fuel : nat -> n -> bytes -> bytes **)

let rec dec_fuel fuel n0 acc =
  match fuel with
  | O -> acc
  | S f ->
    let acc' =
      (N.add (Npos (XO (XO (XO (XO (XI XH))))))
        (N.modulo n0 (Npos (XO (XI (XO XH)))))) :: acc
    in
    if N.eqb (N.div n0 (Npos (XO (XI (XO XH))))) N0
    then acc'
    else dec_fuel f (N.div n0 (Npos (XO (XI (XO XH))))) acc'

(** val print_dec : n -> bytes **)

let print_dec n0 =
  dec_fuel (S (N.size_nat n0)) n0 []

(** val two64 : n **)

let two64 =
  Npos (XO (XO (XO (XO (XO (XO (XO (XO (XO (XO (XO (XO (XO (XO (XO (XO (XO
    (XO (XO (XO (XO (XO (XO (XO (XO (XO (XO (XO (XO (XO (XO (XO (XO (XO (XO
    (XO (XO (XO (XO (XO (XO (XO (XO (XO (XO (XO (XO (XO (XO (XO (XO (XO (XO
    (XO (XO (XO (XO (XO (XO (XO (XO (XO (XO (XO
    XH))))))))))))))))))))))))))))))))))))))))))))))))))))))))))))))))

(** val parse_usize : bytes -> n res **)

let parse_usize s =
  let ds =
    match s with
    | [] -> s
    | n0 :: r ->
      (match n0 with
       | N0 -> s
       | Npos p ->
         (match p with
          | XI p0 ->
            (match p0 with
             | XI p1 ->
               (match p1 with
                | XO p2 ->
                  (match p2 with
                   | XI p3 ->
                     (match p3 with
                      | XO p4 -> (match p4 with
                                  | XH -> r
                                  | _ -> s)
                      | _ -> s)
                   | _ -> s)
                | _ -> s)
             | _ -> s)
          | _ -> s))
  in
  (match ds with
   | [] -> Err EFen
   | _ :: _ ->
     fold_left (fun acc c ->
       bind acc (fun a ->
         if (&&) (N.leb (Npos (XO (XO (XO (XO (XI XH)))))) c)
              (N.leb c (Npos (XI (XO (XO (XI (XI XH)))))))
         then let v =
                N.add (N.mul a (Npos (XO (XI (XO XH)))))
                  (N.sub c (Npos (XO (XO (XO (XO (XI XH)))))))
              in
              if N.ltb v two64 then Ok v else Err EFen
         else Err EFen)) ds (Ok N0))

(** val parse_pmove : bytes -> pmove res **)

let parse_pmove v =
  let tokens = split_on (Npos (XI (XO (XI (XI (XI XH)))))) v [] in
  let t0 = hd [] tokens in
  let len = blen t0 in
  if N.ltb len (Npos (XO (XO XH)))
  then Err EMoveRepr
  else bind
         (if N.eqb len (Npos (XO (XO XH)))
          then Ok Pawn
          else (match get t0 N0 (Npos XH) with
                | Some h ->
                  (match parse_pt h with
                   | Ok p -> Ok p
                   | _ -> Err EMoveRepr)
                | None -> Err EMoveRepr)) (fun t ->
         bind (usub len (Npos (XO (XO XH)))) (fun i4 ->
           bind (usub len (Npos (XO XH))) (fun i2 ->
             bind
               (match get t0 i4 i2 with
                | Some x ->
                  (match parse_sq x with
                   | Ok q -> Ok q
                   | _ -> Err EMoveRepr)
                | None -> Err EMoveRepr) (fun a ->
               bind
                 (match get t0 i2 len with
                  | Some x ->
                    (match parse_sq x with
                     | Ok q -> Ok q
                     | _ -> Err EMoveRepr)
                  | None -> Err EMoveRepr) (fun b0 ->
                 match tokens with
                 | [] -> pmove_new t a b0 None
                 | _ :: l ->
                   (match l with
                    | [] -> pmove_new t a b0 None
                    | t1 :: _ ->
                      bind
                        (match parse_pt t1 with
                         | Ok p -> Ok p
                         | _ -> Err EMoveRepr) (fun q ->
                        pmove_new t a b0 (Some q))))))))

(** val parse_bmove : bytes -> bmove res **)

let parse_bmove v =
  if beq v
       (b (String ((Ascii (true, true, true, true, false, false, true,
         false)), (String ((Ascii (true, false, true, true, false, true,
         false, false)), (String ((Ascii (true, true, true, true, false,
         false, true, false)), (String ((Ascii (true, false, true, true,
         false, true, false, false)), (String ((Ascii (true, true, true,
         true, false, false, true, false)), EmptyString)))))))))))
  then Ok CastleQ
  else if beq v
            (b (String ((Ascii (true, true, true, true, false, false, true,
              false)), (String ((Ascii (true, false, true, true, false, true,
              false, false)), (String ((Ascii (true, true, true, true, false,
              false, true, false)), EmptyString)))))))
       then Ok CastleK
       else bind (parse_pmove v) (fun m -> Ok (MovePiece m))

(** val print_pmove : pmove -> bytes **)

let print_pmove m =
  app (match m.pm_type with
       | Pawn -> []
       | x -> letter x)
    (app (print_sq m.pm_from)
      (app (print_sq m.pm_to)
        (match m.pm_promo with
         | Some q -> (Npos (XI (XO (XI (XI (XI XH)))))) :: (letter q)
         | None -> [])))

(** val print_bmove : bmove -> bytes **)

let print_bmove = function
| MovePiece pm -> print_pmove pm
| CastleK ->
  b (String ((Ascii (true, true, true, true, false, false, true, false)),
    (String ((Ascii (true, false, true, true, false, true, false, false)),
    (String ((Ascii (true, true, true, true, false, false, true, false)),
    EmptyString))))))
| CastleQ ->
  b (String ((Ascii (true, true, true, true, false, false, true, false)),
    (String ((Ascii (true, false, true, true, false, true, false, false)),
    (String ((Ascii (true, true, true, true, false, false, true, false)),
    (String ((Ascii (true, false, true, true, false, true, false, false)),
    (String ((Ascii (true, true, true, true, false, false, true, false)),
    EmptyString))))))))))

(** val fen_piece_of : n -> piece option **)

let fen_piece_of c =
  let col =
    if (&&) (N.leb (Npos (XI (XO (XO (XO (XO (XO XH))))))) c)
         (N.leb c (Npos (XO (XI (XO (XI (XI (XO XH))))))))
    then White
    else Black
  in
  (match upper c with
   | N0 -> None
   | Npos p ->
     (match p with
      | XI p0 ->
        (match p0 with
         | XI p1 ->
           (match p1 with
            | XO p2 ->
              (match p2 with
               | XI p3 ->
                 (match p3 with
                  | XO p4 ->
                    (match p4 with
                     | XO p5 ->
                       (match p5 with
                        | XH -> Some (King, col)
                        | _ -> None)
                     | _ -> None)
                  | _ -> None)
               | _ -> None)
            | _ -> None)
         | XO p1 ->
           (match p1 with
            | XO p2 ->
              (match p2 with
               | XO p3 ->
                 (match p3 with
                  | XI p4 ->
                    (match p4 with
                     | XO p5 ->
                       (match p5 with
                        | XH -> Some (Queen, col)
                        | _ -> None)
                     | _ -> None)
                  | _ -> None)
               | _ -> None)
            | _ -> None)
         | XH -> None)
      | XO p0 ->
        (match p0 with
         | XI p1 ->
           (match p1 with
            | XI p2 ->
              (match p2 with
               | XI p3 ->
                 (match p3 with
                  | XO p4 ->
                    (match p4 with
                     | XO p5 ->
                       (match p5 with
                        | XH -> Some (Knight, col)
                        | _ -> None)
                     | _ -> None)
                  | _ -> None)
               | _ -> None)
            | XO p2 ->
              (match p2 with
               | XO p3 ->
                 (match p3 with
                  | XI p4 ->
                    (match p4 with
                     | XO p5 ->
                       (match p5 with
                        | XH -> Some (Rook, col)
                        | _ -> None)
                     | _ -> None)
                  | XO p4 ->
                    (match p4 with
                     | XO p5 ->
                       (match p5 with
                        | XH -> Some (Bishop, col)
                        | _ -> None)
                     | _ -> None)
                  | XH -> None)
               | _ -> None)
            | XH -> None)
         | XO p1 ->
           (match p1 with
            | XO p2 ->
              (match p2 with
               | XO p3 ->
                 (match p3 with
                  | XI p4 ->
                    (match p4 with
                     | XO p5 ->
                       (match p5 with
                        | XH -> Some (Pawn, col)
                        | _ -> None)
                     | _ -> None)
                  | _ -> None)
               | _ -> None)
            | _ -> None)
         | XH -> None)
      | XH -> None))

(** val is_fen_letter : n -> bool **)

let is_fen_letter c =
  match upper c with
  | N0 -> false
  | Npos p ->
    (match p with
     | XI p0 ->
       (match p0 with
        | XI p1 ->
          (match p1 with
           | XO p2 ->
             (match p2 with
              | XI p3 ->
                (match p3 with
                 | XO p4 ->
                   (match p4 with
                    | XO p5 ->
                      (match p5 with
                       | XH ->
                         (&&)
                           (N.leb (Npos (XI (XO (XO (XO (XO (XO XH))))))) c)
                           (N.leb c (Npos (XO (XI (XO (XI (XI (XI XH))))))))
                       | _ -> false)
                    | _ -> false)
                 | _ -> false)
              | _ -> false)
           | _ -> false)
        | XO p1 ->
          (match p1 with
           | XO p2 ->
             (match p2 with
              | XO p3 ->
                (match p3 with
                 | XI p4 ->
                   (match p4 with
                    | XO p5 ->
                      (match p5 with
                       | XH ->
                         (&&)
                           (N.leb (Npos (XI (XO (XO (XO (XO (XO XH))))))) c)
                           (N.leb c (Npos (XO (XI (XO (XI (XI (XI XH))))))))
                       | _ -> false)
                    | _ -> false)
                 | _ -> false)
              | _ -> false)
           | _ -> false)
        | XH -> false)
     | XO p0 ->
       (match p0 with
        | XI p1 ->
          (match p1 with
           | XI p2 ->
             (match p2 with
              | XI p3 ->
                (match p3 with
                 | XO p4 ->
                   (match p4 with
                    | XO p5 ->
                      (match p5 with
                       | XH ->
                         (&&)
                           (N.leb (Npos (XI (XO (XO (XO (XO (XO XH))))))) c)
                           (N.leb c (Npos (XO (XI (XO (XI (XI (XI XH))))))))
                       | _ -> false)
                    | _ -> false)
                 | _ -> false)
              | _ -> false)
           | XO p2 ->
             (match p2 with
              | XO p3 ->
                (match p3 with
                 | XI p4 ->
                   (match p4 with
                    | XO p5 ->
                      (match p5 with
                       | XH ->
                         (&&)
                           (N.leb (Npos (XI (XO (XO (XO (XO (XO XH))))))) c)
                           (N.leb c (Npos (XO (XI (XO (XI (XI (XI XH))))))))
                       | _ -> false)
                    | _ -> false)
                 | XO p4 ->
                   (match p4 with
                    | XO p5 ->
                      (match p5 with
                       | XH ->
                         (&&)
                           (N.leb (Npos (XI (XO (XO (XO (XO (XO XH))))))) c)
                           (N.leb c (Npos (XO (XI (XO (XI (XI (XI XH))))))))
                       | _ -> false)
                    | _ -> false)
                 | XH -> false)
              | _ -> false)
           | XH -> false)
        | XO p1 ->
          (match p1 with
           | XO p2 ->
             (match p2 with
              | XO p3 ->
                (match p3 with
                 | XI p4 ->
                   (match p4 with
                    | XO p5 ->
                      (match p5 with
                       | XH ->
                         (&&)
                           (N.leb (Npos (XI (XO (XO (XO (XO (XO XH))))))) c)
                           (N.leb c (Npos (XO (XI (XO (XI (XI (XI XH))))))))
                       | _ -> false)
                    | _ -> false)
                 | _ -> false)
              | _ -> false)
           | _ -> false)
        | XH -> false)
     | XH -> false)

(** val fen_step :
    ((n * n) * piece option list) -> n -> ((n * n) * piece option list) res **)

let fen_step st c =
  let (p, pcs) = st in
  let (r, f) = p in
  if N.eqb c (Npos (XI (XI (XI (XI (XO XH))))))
  then (match idx_down r with
        | Ok r' -> Ok ((r', N0), pcs)
        | _ -> Err EFen)
  else if (&&) (N.leb (Npos (XI (XO (XO (XO (XI XH)))))) c)
            (N.leb c (Npos (XO (XO (XO (XI (XI XH)))))))
       then (match idx8_of
                     (N.add f (N.sub c (Npos (XO (XO (XO (XO (XI XH)))))))) with
             | Ok f' -> Ok ((r, f'), pcs)
             | _ -> Ok ((r, f), pcs))
       else if is_fen_letter c
            then (match fen_piece_of c with
                  | Some pc ->
                    let pcs' = set_nth (N.to_nat (mk_sq r f)) (Some pc) pcs in
                    Ok ((r, (match idx_up f with
                             | Ok f' -> f'
                             | _ -> f)), pcs')
                  | None -> Err EFen)
            else Err EFen

(** val parse_placement : bytes -> piece option list res **)

let parse_placement s =
  bind
    (fold_left (fun acc c -> bind acc (fun a -> fen_step a c)) s (Ok (((Npos
      (XI (XI XH))), N0),
      (repeat None (S (S (S (S (S (S (S (S (S (S (S (S (S (S (S (S (S (S (S
        (S (S (S (S (S (S (S (S (S (S (S (S (S (S (S (S (S (S (S (S (S (S (S
        (S (S (S (S (S (S (S (S (S (S (S (S (S (S (S (S (S (S (S (S (S (S
        O))))))))))))))))))))))))))))))))))))))))))))))))))))))))))))))))))))
    (fun st -> Ok (snd st))

(** val cr_of_field : bytes -> n -> n -> cr **)

let cr_of_field s k q =
  if (&&) (contains s k) (contains s q)
  then BothSides
  else if contains s k
       then KingSide
       else if contains s q then QueenSide else Neither

(** val parse_fen : bytes -> builder res **)

let parse_fen v =
  match split_on (Npos (XO (XO (XO (XO (XO XH)))))) v [] with
  | [] -> Err EFen
  | pieces :: l ->
    (match l with
     | [] -> Err EFen
     | side :: l0 ->
       (match l0 with
        | [] -> Err EFen
        | castles :: l1 ->
          (match l1 with
           | [] -> Err EFen
           | ep0 :: l2 ->
             (match l2 with
              | [] -> Err EFen
              | half0 :: l3 ->
                (match l3 with
                 | [] -> Err EFen
                 | full0 :: l4 ->
                   (match l4 with
                    | [] ->
                      bind (parse_usize half0) (fun h ->
                        bind (parse_usize full0) (fun f ->
                          bind (parse_placement pieces) (fun pcs ->
                            bind
                              (if (||)
                                    (beq side
                                      (b (String ((Ascii (true, true, true,
                                        false, true, true, true, false)),
                                        EmptyString))))
                                    (beq side
                                      (b (String ((Ascii (true, true, true,
                                        false, true, false, true, false)),
                                        EmptyString))))
                               then Ok White
                               else if (||)
                                         (beq side
                                           (b (String ((Ascii (false, true,
                                             false, false, false, true, true,
                                             false)), EmptyString))))
                                         (beq side
                                           (b (String ((Ascii (false, true,
                                             false, false, false, false,
                                             true, false)), EmptyString))))
                                    then Ok Black
                                    else Err EFen) (fun c -> Ok { bd_pieces =
                              pcs; bd_stm = c; bd_wr =
                              (cr_of_field castles (Npos (XI (XI (XO (XI (XO
                                (XO XH))))))) (Npos (XI (XO (XO (XO (XI (XO
                                XH)))))))); bd_br =
                              (cr_of_field castles (Npos (XI (XI (XO (XI (XO
                                (XI XH))))))) (Npos (XI (XO (XO (XO (XI (XI
                                XH)))))))); bd_ep =
                              (match parse_sq ep0 with
                               | Ok s -> Some s
                               | _ -> None); bd_half = h; bd_full = f }))))
                    | _ :: _ -> Err EFen))))))

(** val piece_char : piece -> bytes **)

let piece_char pc =
  map (match snd pc with
       | White -> upper
       | Black -> lower) (letter (fst pc))

(** val print_rank_row :
    piece option list -> n -> (bytes * n) -> bytes * n **)

let print_rank_row pcs r st =
  let (out, empty) =
    fold_left (fun pat f ->
      let (out, empty) = pat in
      (match nth (N.to_nat (mk_sq r f)) pcs None with
       | Some pc ->
         ((app (app out (if N.eqb empty N0 then [] else print_dec empty))
            (piece_char pc)), N0)
       | None -> (out, (N.add empty (Npos XH))))) idx8 st
  in
  if N.eqb empty N0 then (out, N0) else ((app out (print_dec empty)), N0)

(** val print_placement : piece option list -> bytes **)

let print_placement pcs =
  fst
    (fold_left (fun st r ->
      let st' =
        if N.eqb r (Npos (XI (XI XH)))
        then st
        else ((app (fst st) ((Npos (XI (XI (XI (XI (XO XH)))))) :: [])),
               (snd st))
      in
      print_rank_row pcs r st') ((Npos (XI (XI XH))) :: ((Npos (XO (XI
      XH))) :: ((Npos (XI (XO XH))) :: ((Npos (XO (XO XH))) :: ((Npos (XI
      XH)) :: ((Npos (XO XH)) :: ((Npos XH) :: (N0 :: [])))))))) ([], N0))

(** val print_castles : cr -> cr -> bytes **)

let print_castles w b0 =
  match w with
  | Neither ->
    (match b0 with
     | Neither ->
       b (String ((Ascii (true, false, true, true, false, true, false,
         false)), EmptyString))
     | _ -> app (map upper (print_cr w)) (print_cr b0))
  | _ -> app (map upper (print_cr w)) (print_cr b0)

(** val print_fen : builder -> bytes **)

let print_fen bd =
  app (print_placement bd.bd_pieces)
    (app ((Npos (XO (XO (XO (XO (XO XH)))))) :: [])
      (app
        (match bd.bd_stm with
         | White ->
           b (String ((Ascii (true, true, true, false, true, true, true,
             false)), EmptyString))
         | Black ->
           b (String ((Ascii (false, true, false, false, false, true, true,
             false)), EmptyString)))
        (app ((Npos (XO (XO (XO (XO (XO XH)))))) :: [])
          (app (print_castles bd.bd_wr bd.bd_br)
            (app ((Npos (XO (XO (XO (XO (XO XH)))))) :: [])
              (app
                (match bd.bd_ep with
                 | Some s -> print_sq s
                 | None ->
                   b (String ((Ascii (true, false, true, true, false, true,
                     false, false)), EmptyString)))
                (app ((Npos (XO (XO (XO (XO (XO XH)))))) :: [])
                  (app (print_dec bd.bd_half)
                    (app ((Npos (XO (XO (XO (XO (XO XH)))))) :: [])
                      (print_dec bd.bd_full))))))))))

(** val setup_builder :
    (square * piece) list -> color -> cr -> cr -> square option -> n -> n ->
    builder **)

let setup_builder pieces stm0 wr br ep0 half0 full0 =
  { bd_pieces =
    (fold_left (fun l pat ->
      let (s, pc) = pat in set_nth (N.to_nat s) (Some pc) l) pieces
      (repeat None (S (S (S (S (S (S (S (S (S (S (S (S (S (S (S (S (S (S (S
        (S (S (S (S (S (S (S (S (S (S (S (S (S (S (S (S (S (S (S (S (S (S (S
        (S (S (S (S (S (S (S (S (S (S (S (S (S (S (S (S (S (S (S (S (S (S
        O))))))))))))))))))))))))))))))))))))))))))))))))))))))))))))))))));
    bd_stm = stm0; bd_wr = wr; bd_br = br; bd_ep = ep0; bd_half = half0;
    bd_full = full0 }

(** val from_fen : zkeys -> bytes -> board res **)

let from_fen k v =
  bind (parse_fen v) (fun bd -> try_from_builder k bd)

(** val as_fen : board -> bytes res **)

let as_fen b0 =
  bind (builder_of_board b0) (fun bd -> Ok (print_fen bd))

(** val board_setup :
    zkeys -> (square * piece) list -> color -> cr -> cr -> square option -> n
    -> n -> board res **)

let board_setup k pieces stm0 wr br ep0 half0 full0 =
  try_from_builder k (setup_builder pieces stm0 wr br ep0 half0 full0)

type amb =
| ExtraFile
| ExtraRank
| ExtraSquare
| AmbNeither

type mprops = { mp_check : bool; mp_mate : bool; mp_capture : bool;
                mp_amb : amb }

(** val get_move_ambiguity_type : zkeys -> board -> pmove -> amb res **)

let get_move_ambiguity_type k b0 m =
  bind (is_legal_move k b0 (MovePiece m)) (fun ok ->
    if negb ok
    then Err EIllegalMove
    else let t = m.pm_type in
         let src = m.pm_from in
         let dst = m.pm_to in
         (match t with
          | Pawn ->
            Ok
              (if negb (N.eqb (file src) (file dst))
               then ExtraFile
               else AmbNeither)
          | Knight ->
            let piece_moves =
              look
                (match t with
                 | Knight -> kNIGHT_T
                 | Bishop -> bISHOP_T
                 | Rook -> rOOK_T
                 | _ -> qUEEN_T) dst
            in
            let between_filter = fun x ->
              match t with
              | Knight -> true
              | _ ->
                is_blank
                  (match between x dst with
                   | Some m0 -> N.coq_land m0 b0.m_all
                   | None -> N0)
            in
            let pieces_mask = N.coq_land (tmask b0 t) (cmask b0 b0.b_stm) in
            let c1 =
              filter (fun s -> (&&) (between_filter s) (negb (N.eqb s src)))
                (bits (N.coq_land piece_moves pieces_mask))
            in
            bind
              (filter_res (fun s ->
                is_legal_move k b0 (MovePiece (mk_pm t s dst None))) c1)
              (fun cands ->
              match cands with
              | [] -> Ok AmbNeither
              | _ :: _ ->
                if forallb (fun s -> negb (N.eqb (file s) (file src))) cands
                then Ok ExtraFile
                else if forallb (fun s -> negb (N.eqb (rank s) (rank src)))
                          cands
                     then Ok ExtraRank
                     else Ok ExtraSquare)
          | Bishop ->
            let piece_moves =
              look
                (match t with
                 | Knight -> kNIGHT_T
                 | Bishop -> bISHOP_T
                 | Rook -> rOOK_T
                 | _ -> qUEEN_T) dst
            in
            let between_filter = fun x ->
              match t with
              | Knight -> true
              | _ ->
                is_blank
                  (match between x dst with
                   | Some m0 -> N.coq_land m0 b0.m_all
                   | None -> N0)
            in
            let pieces_mask = N.coq_land (tmask b0 t) (cmask b0 b0.b_stm) in
            let c1 =
              filter (fun s -> (&&) (between_filter s) (negb (N.eqb s src)))
                (bits (N.coq_land piece_moves pieces_mask))
            in
            bind
              (filter_res (fun s ->
                is_legal_move k b0 (MovePiece (mk_pm t s dst None))) c1)
              (fun cands ->
              match cands with
              | [] -> Ok AmbNeither
              | _ :: _ ->
                if forallb (fun s -> negb (N.eqb (file s) (file src))) cands
                then Ok ExtraFile
                else if forallb (fun s -> negb (N.eqb (rank s) (rank src)))
                          cands
                     then Ok ExtraRank
                     else Ok ExtraSquare)
          | Rook ->
            let piece_moves =
              look
                (match t with
                 | Knight -> kNIGHT_T
                 | Bishop -> bISHOP_T
                 | Rook -> rOOK_T
                 | _ -> qUEEN_T) dst
            in
            let between_filter = fun x ->
              match t with
              | Knight -> true
              | _ ->
                is_blank
                  (match between x dst with
                   | Some m0 -> N.coq_land m0 b0.m_all
                   | None -> N0)
            in
            let pieces_mask = N.coq_land (tmask b0 t) (cmask b0 b0.b_stm) in
            let c1 =
              filter (fun s -> (&&) (between_filter s) (negb (N.eqb s src)))
                (bits (N.coq_land piece_moves pieces_mask))
            in
            bind
              (filter_res (fun s ->
                is_legal_move k b0 (MovePiece (mk_pm t s dst None))) c1)
              (fun cands ->
              match cands with
              | [] -> Ok AmbNeither
              | _ :: _ ->
                if forallb (fun s -> negb (N.eqb (file s) (file src))) cands
                then Ok ExtraFile
                else if forallb (fun s -> negb (N.eqb (rank s) (rank src)))
                          cands
                     then Ok ExtraRank
                     else Ok ExtraSquare)
          | Queen ->
            let piece_moves =
              look
                (match t with
                 | Knight -> kNIGHT_T
                 | Bishop -> bISHOP_T
                 | Rook -> rOOK_T
                 | _ -> qUEEN_T) dst
            in
            let between_filter = fun x ->
              match t with
              | Knight -> true
              | _ ->
                is_blank
                  (match between x dst with
                   | Some m0 -> N.coq_land m0 b0.m_all
                   | None -> N0)
            in
            let pieces_mask = N.coq_land (tmask b0 t) (cmask b0 b0.b_stm) in
            let c1 =
              filter (fun s -> (&&) (between_filter s) (negb (N.eqb s src)))
                (bits (N.coq_land piece_moves pieces_mask))
            in
            bind
              (filter_res (fun s ->
                is_legal_move k b0 (MovePiece (mk_pm t s dst None))) c1)
              (fun cands ->
              match cands with
              | [] -> Ok AmbNeither
              | _ :: _ ->
                if forallb (fun s -> negb (N.eqb (file s) (file src))) cands
                then Ok ExtraFile
                else if forallb (fun s -> negb (N.eqb (rank s) (rank src)))
                          cands
                     then Ok ExtraRank
                     else Ok ExtraSquare)
          | King -> Ok AmbNeither))

(** val move_props : zkeys -> bmove -> board -> mprops res **)

let move_props k mv b0 =
  bind (make_move k b0 mv) (fun after ->
    let is_check = N.ltb N0 (popcount after.b_checks) in
    let is_mate = (&&) after.b_term is_check in
    let is_cap =
      match mv with
      | MovePiece m -> is_capture_on_board m b0
      | _ -> false
    in
    bind
      (match mv with
       | MovePiece m ->
         (match m.pm_type with
          | King -> Ok AmbNeither
          | _ -> get_move_ambiguity_type k b0 m)
       | _ -> Ok AmbNeither) (fun a -> Ok { mp_check = is_check; mp_mate =
      is_mate; mp_capture = is_cap; mp_amb = a }))

(** val san_string : bmove -> mprops -> bytes **)

let san_string mv p =
  let chk =
    if p.mp_mate
    then b (String ((Ascii (true, true, false, false, false, true, false,
           false)), EmptyString))
    else if p.mp_check
         then b (String ((Ascii (true, true, false, true, false, true, false,
                false)), EmptyString))
         else []
  in
  (match mv with
   | MovePiece m ->
     app (match m.pm_type with
          | Pawn -> []
          | x -> letter x)
       (app
         (match p.mp_amb with
          | ExtraFile -> print_file (file m.pm_from)
          | ExtraRank -> print_rank (rank m.pm_from)
          | ExtraSquare -> print_sq m.pm_from
          | AmbNeither -> [])
         (app
           (if p.mp_capture
            then b (String ((Ascii (false, false, false, true, true, true,
                   true, false)), EmptyString))
            else [])
           (app (print_sq m.pm_to)
             (app
               (match m.pm_promo with
                | Some q -> (Npos (XI (XO (XI (XI (XI XH)))))) :: (letter q)
                | None -> []) chk))))
   | CastleK ->
     app
       (b (String ((Ascii (true, true, true, true, false, false, true,
         false)), (String ((Ascii (true, false, true, true, false, true,
         false, false)), (String ((Ascii (true, true, true, true, false,
         false, true, false)), EmptyString))))))) chk
   | CastleQ ->
     app
       (b (String ((Ascii (true, true, true, true, false, false, true,
         false)), (String ((Ascii (true, false, true, true, false, true,
         false, false)), (String ((Ascii (true, true, true, true, false,
         false, true, false)), (String ((Ascii (true, false, true, true,
         false, true, false, false)), (String ((Ascii (true, true, true,
         true, false, false, true, false)), EmptyString))))))))))) chk)

(** val box_v : bytes **)

let box_v =
  (Npos (XO (XI (XO (XO (XO (XI (XI XH)))))))) :: ((Npos (XI (XO (XI (XO (XI
    (XO (XO XH)))))))) :: ((Npos (XI (XO (XO (XO (XI (XO (XO
    XH)))))))) :: []))

(** val box_h : bytes **)

let box_h =
  (Npos (XO (XI (XO (XO (XO (XI (XI XH)))))))) :: ((Npos (XI (XO (XI (XO (XI
    (XO (XO XH)))))))) :: ((Npos (XO (XO (XO (XO (XI (XO (XO
    XH)))))))) :: []))

(** val box_tl : bytes **)

let box_tl =
  (Npos (XO (XI (XO (XO (XO (XI (XI XH)))))))) :: ((Npos (XI (XO (XI (XO (XI
    (XO (XO XH)))))))) :: ((Npos (XO (XO (XI (XO (XI (XO (XO
    XH)))))))) :: []))

(** val box_tr : bytes **)

let box_tr =
  (Npos (XO (XI (XO (XO (XO (XI (XI XH)))))))) :: ((Npos (XI (XO (XI (XO (XI
    (XO (XO XH)))))))) :: ((Npos (XI (XI (XI (XO (XI (XO (XO
    XH)))))))) :: []))

(** val box_bl : bytes **)

let box_bl =
  (Npos (XO (XI (XO (XO (XO (XI (XI XH)))))))) :: ((Npos (XI (XO (XI (XO (XI
    (XO (XO XH)))))))) :: ((Npos (XO (XI (XO (XI (XI (XO (XO
    XH)))))))) :: []))

(** val box_br : bytes **)

let box_br =
  (Npos (XO (XI (XO (XO (XO (XI (XI XH)))))))) :: ((Npos (XI (XO (XI (XO (XI
    (XO (XO XH)))))))) :: ((Npos (XI (XO (XI (XI (XI (XO (XO
    XH)))))))) :: []))

(** val rep : nat -> 'a1 list -> 'a1 list **)

let rep n0 l =
  concat (repeat l n0)

(** val render_cell : board -> square -> bytes res **)

let render_cell b0 s =
  if is_empty_square b0 s
  then Ok
         (b (String ((Ascii (false, false, false, false, false, true, false,
           false)), (String ((Ascii (false, false, false, false, false, true,
           false, false)), (String ((Ascii (false, false, false, false,
           false, true, false, false)), EmptyString)))))))
  else bind (piece_type_on b0 s) (fun ot ->
         bind (unwrap_o ot) (fun t ->
           bind (unwrap_o (piece_color_on b0 s)) (fun c -> Ok
             (map (match c with
                   | White -> upper
                   | Black -> lower)
               (app
                 (b (String ((Ascii (false, false, false, false, false, true,
                   false, false)), EmptyString)))
                 (app (letter t)
                   (b (String ((Ascii (false, false, false, false, false,
                     true, false, false)), EmptyString)))))))))

(** val render : board -> n list -> n list -> bytes -> bytes res **)

let render b0 ranks files footer =
  bind
    (fold_left (fun acc r ->
      bind acc (fun a ->
        bind
          (fold_left (fun acc2 f ->
            bind acc2 (fun x ->
              bind (render_cell b0 (mk_sq r f)) (fun c -> Ok (app x c))))
            files (Ok
            (app a
              (app (print_dec (N.add r (Npos XH)))
                (app
                  (b (String ((Ascii (false, false, false, false, false,
                    true, false, false)), (String ((Ascii (false, false,
                    false, false, false, true, false, false)),
                    EmptyString))))) box_v))))) (fun row -> Ok
          (app row (app box_v ((Npos (XO (XI (XO XH)))) :: [])))))) ranks (Ok
      [])) (fun field -> Ok
    (app
      (b (String ((Ascii (false, false, false, false, false, true, false,
        false)), (String ((Ascii (false, false, false, false, false, true,
        false, false)), (String ((Ascii (false, false, false, false, false,
        true, false, false)), EmptyString)))))))
      (app (print_color b0.b_stm)
        (app
          (b (String ((Ascii (false, false, false, false, false, true, false,
            false)), (String ((Ascii (false, false, false, false, false,
            true, false, false)), EmptyString)))))
          (app (map upper (print_cr b0.b_wr))
            (app (print_cr b0.b_br)
              (app ((Npos (XO (XI (XO XH)))) :: [])
                (app
                  (b (String ((Ascii (false, false, false, false, false,
                    true, false, false)), (String ((Ascii (false, false,
                    false, false, false, true, false, false)), (String
                    ((Ascii (false, false, false, false, false, true, false,
                    false)), EmptyString)))))))
                  (app box_tl
                    (app
                      (rep (S (S (S (S (S (S (S (S (S (S (S (S (S (S (S (S (S
                        (S (S (S (S (S (S (S O)))))))))))))))))))))))) box_h)
                      (app box_tr
                        (app ((Npos (XO (XI (XO XH)))) :: [])
                          (app field
                            (app
                              (b (String ((Ascii (false, false, false, false,
                                false, true, false, false)), (String ((Ascii
                                (false, false, false, false, false, true,
                                false, false)), (String ((Ascii (false,
                                false, false, false, false, true, false,
                                false)), EmptyString)))))))
                              (app box_bl
                                (app
                                  (rep (S (S (S (S (S (S (S (S (S (S (S (S (S
                                    (S (S (S (S (S (S (S (S (S (S (S
                                    O)))))))))))))))))))))))) box_h)
                                  (app box_br
                                    (app ((Npos (XO (XI (XO XH)))) :: [])
                                      (app footer ((Npos (XO (XI (XO
                                        XH)))) :: []))))))))))))))))))))

(** val render_straight : board -> bytes res **)

let render_straight b0 =
  render b0 ((Npos (XI (XI XH))) :: ((Npos (XO (XI XH))) :: ((Npos (XI (XO
    XH))) :: ((Npos (XO (XO XH))) :: ((Npos (XI XH)) :: ((Npos (XO
    XH)) :: ((Npos XH) :: (N0 :: [])))))))) idx8
    (b (String ((Ascii (false, false, false, false, false, true, false,
      false)), (String ((Ascii (false, false, false, false, false, true,
      false, false)), (String ((Ascii (false, false, false, false, false,
      true, false, false)), (String ((Ascii (false, false, false, false,
      false, true, false, false)), (String ((Ascii (false, false, false,
      false, false, true, false, false)), (String ((Ascii (true, false,
      false, false, false, true, true, false)), (String ((Ascii (false,
      false, false, false, false, true, false, false)), (String ((Ascii
      (false, false, false, false, false, true, false, false)), (String
      ((Ascii (false, true, false, false, false, true, true, false)), (String
      ((Ascii (false, false, false, false, false, true, false, false)),
      (String ((Ascii (false, false, false, false, false, true, false,
      false)), (String ((Ascii (true, true, false, false, false, true, true,
      false)), (String ((Ascii (false, false, false, false, false, true,
      false, false)), (String ((Ascii (false, false, false, false, false,
      true, false, false)), (String ((Ascii (false, false, true, false,
      false, true, true, false)), (String ((Ascii (false, false, false,
      false, false, true, false, false)), (String ((Ascii (false, false,
      false, false, false, true, false, false)), (String ((Ascii (true,
      false, true, false, false, true, true, false)), (String ((Ascii (false,
      false, false, false, false, true, false, false)), (String ((Ascii
      (false, false, false, false, false, true, false, false)), (String
      ((Ascii (false, true, true, false, false, true, true, false)), (String
      ((Ascii (false, false, false, false, false, true, false, false)),
      (String ((Ascii (false, false, false, false, false, true, false,
      false)), (String ((Ascii (true, true, true, false, false, true, true,
      false)), (String ((Ascii (false, false, false, false, false, true,
      false, false)), (String ((Ascii (false, false, false, false, false,
      true, false, false)), (String ((Ascii (false, false, false, true,
      false, true, true, false)),
      EmptyString)))))))))))))))))))))))))))))))))))))))))))))))))))))))

(** val render_flipped : board -> bytes res **)

let render_flipped b0 =
  render b0 idx8 ((Npos (XI (XI XH))) :: ((Npos (XO (XI XH))) :: ((Npos (XI
    (XO XH))) :: ((Npos (XO (XO XH))) :: ((Npos (XI XH)) :: ((Npos (XO
    XH)) :: ((Npos XH) :: (N0 :: []))))))))
    (b (String ((Ascii (false, false, false, false, false, true, false,
      false)), (String ((Ascii (false, false, false, false, false, true,
      false, false)), (String ((Ascii (false, false, false, false, false,
      true, false, false)), (String ((Ascii (false, false, false, false,
      false, true, false, false)), (String ((Ascii (false, false, false,
      false, false, true, false, false)), (String ((Ascii (false, false,
      false, true, false, true, true, false)), (String ((Ascii (false, false,
      false, false, false, true, false, false)), (String ((Ascii (false,
      false, false, false, false, true, false, false)), (String ((Ascii
      (true, true, true, false, false, true, true, false)), (String ((Ascii
      (false, false, false, false, false, true, false, false)), (String
      ((Ascii (false, false, false, false, false, true, false, false)),
      (String ((Ascii (false, true, true, false, false, true, true, false)),
      (String ((Ascii (false, false, false, false, false, true, false,
      false)), (String ((Ascii (false, false, false, false, false, true,
      false, false)), (String ((Ascii (true, false, true, false, false, true,
      true, false)), (String ((Ascii (false, false, false, false, false,
      true, false, false)), (String ((Ascii (false, false, false, false,
      false, true, false, false)), (String ((Ascii (false, false, true,
      false, false, true, true, false)), (String ((Ascii (false, false,
      false, false, false, true, false, false)), (String ((Ascii (false,
      false, false, false, false, true, false, false)), (String ((Ascii
      (true, true, false, false, false, true, true, false)), (String ((Ascii
      (false, false, false, false, false, true, false, false)), (String
      ((Ascii (false, false, false, false, false, true, false, false)),
      (String ((Ascii (false, true, false, false, false, true, true, false)),
      (String ((Ascii (false, false, false, false, false, true, false,
      false)), (String ((Ascii (false, false, false, false, false, true,
      false, false)), (String ((Ascii (true, false, false, false, false,
      true, true, false)),
      EmptyString)))))))))))))))))))))))))))))))))))))))))))))))))))))))

(** val render_bb : bb -> bytes **)

let render_bb x =
  flat_map (fun r ->
    app
      (flat_map (fun f ->
        if N.eqb
             (N.coq_land x (bit (N.add (N.mul r (Npos (XO (XO (XO XH))))) f)))
             (bit (N.add (N.mul r (Npos (XO (XO (XO XH))))) f))
        then b (String ((Ascii (false, false, false, true, true, false, true,
               false)), (String ((Ascii (false, false, false, false, false,
               true, false, false)), EmptyString))))
        else b (String ((Ascii (false, true, true, true, false, true, false,
               false)), (String ((Ascii (false, false, false, false, false,
               true, false, false)), EmptyString))))) idx8) ((Npos (XO (XI
      (XO XH)))) :: [])) ((Npos (XI (XI XH))) :: ((Npos (XO (XI
    XH))) :: ((Npos (XI (XO XH))) :: ((Npos (XO (XO XH))) :: ((Npos (XI
    XH)) :: ((Npos (XO XH)) :: ((Npos XH) :: (N0 :: []))))))))

type action =
| MakeMove of bmove
| OfferDraw of color
| AcceptDraw
| DeclineDraw
| Resign of color

type gstatus =
| GOngoing
| GDrawOffered of color
| GCheckMated of color
| GResigned of color
| GFiftyMoves
| GTheoreticalDraw
| GRepetition
| GDrawAccepted
| GStalemate

(** val gstatus_eqb : gstatus -> gstatus -> bool **)

let gstatus_eqb a b0 =
  match a with
  | GOngoing -> (match b0 with
                 | GOngoing -> true
                 | _ -> false)
  | GDrawOffered x ->
    (match b0 with
     | GDrawOffered y -> color_eqb x y
     | _ -> false)
  | GCheckMated x ->
    (match b0 with
     | GCheckMated y -> color_eqb x y
     | _ -> false)
  | GResigned x -> (match b0 with
                    | GResigned y -> color_eqb x y
                    | _ -> false)
  | GFiftyMoves -> (match b0 with
                    | GFiftyMoves -> true
                    | _ -> false)
  | GTheoreticalDraw -> (match b0 with
                         | GTheoreticalDraw -> true
                         | _ -> false)
  | GRepetition -> (match b0 with
                    | GRepetition -> true
                    | _ -> false)
  | GDrawAccepted -> (match b0 with
                      | GDrawAccepted -> true
                      | _ -> false)
  | GStalemate -> (match b0 with
                   | GStalemate -> true
                   | _ -> false)

type rtag =
| TagOpen
| TagWhite
| TagBlack
| TagDraw

(** val print_rtag : rtag -> bytes **)

let print_rtag = function
| TagOpen ->
  b (String ((Ascii (true, true, true, true, true, true, false, false)),
    EmptyString))
| TagWhite ->
  b (String ((Ascii (true, false, false, false, true, true, false, false)),
    (String ((Ascii (true, false, true, true, false, true, false, false)),
    (String ((Ascii (false, false, false, false, true, true, false, false)),
    EmptyString))))))
| TagBlack ->
  b (String ((Ascii (false, false, false, false, true, true, false, false)),
    (String ((Ascii (true, false, true, true, false, true, false, false)),
    (String ((Ascii (true, false, false, false, true, true, false, false)),
    EmptyString))))))
| TagDraw ->
  b (String ((Ascii (true, false, false, false, true, true, false, false)),
    (String ((Ascii (true, true, true, true, false, true, false, false)),
    (String ((Ascii (false, true, false, false, true, true, false, false)),
    (String ((Ascii (true, false, true, true, false, true, false, false)),
    (String ((Ascii (true, false, false, false, true, true, false, false)),
    (String ((Ascii (true, true, true, true, false, true, false, false)),
    (String ((Ascii (false, true, false, false, true, true, false, false)),
    EmptyString))))))))))))))

(** val tag_of_status : gstatus -> rtag **)

let tag_of_status = function
| GOngoing -> TagOpen
| GDrawOffered _ -> TagOpen
| GCheckMated c -> (match c with
                    | White -> TagBlack
                    | Black -> TagWhite)
| GResigned c -> (match c with
                  | White -> TagBlack
                  | Black -> TagWhite)
| _ -> TagDraw

(** val print_gstatus : gstatus -> bytes **)

let print_gstatus = function
| GOngoing ->
  b (String ((Ascii (false, false, true, false, true, true, true, false)),
    (String ((Ascii (false, false, false, true, false, true, true, false)),
    (String ((Ascii (true, false, true, false, false, true, true, false)),
    (String ((Ascii (false, false, false, false, false, true, false, false)),
    (String ((Ascii (true, true, true, false, false, true, true, false)),
    (String ((Ascii (true, false, false, false, false, true, true, false)),
    (String ((Ascii (true, false, true, true, false, true, true, false)),
    (String ((Ascii (true, false, true, false, false, true, true, false)),
    (String ((Ascii (false, false, false, false, false, true, false, false)),
    (String ((Ascii (true, false, false, true, false, true, true, false)),
    (String ((Ascii (true, true, false, false, true, true, true, false)),
    (String ((Ascii (false, false, false, false, false, true, false, false)),
    (String ((Ascii (true, true, true, true, false, true, true, false)),
    (String ((Ascii (false, true, true, true, false, true, true, false)),
    (String ((Ascii (true, true, true, false, false, true, true, false)),
    (String ((Ascii (true, true, true, true, false, true, true, false)),
    (String ((Ascii (true, false, false, true, false, true, true, false)),
    (String ((Ascii (false, true, true, true, false, true, true, false)),
    (String ((Ascii (true, true, true, false, false, true, true, false)),
    EmptyString))))))))))))))))))))))))))))))))))))))
| GDrawOffered c ->
  app
    (b (String ((Ascii (false, false, true, false, false, true, true,
      false)), (String ((Ascii (false, true, false, false, true, true, true,
      false)), (String ((Ascii (true, false, false, false, false, true, true,
      false)), (String ((Ascii (true, true, true, false, true, true, true,
      false)), (String ((Ascii (false, false, false, false, false, true,
      false, false)), (String ((Ascii (true, true, true, true, false, true,
      true, false)), (String ((Ascii (false, true, true, false, false, true,
      true, false)), (String ((Ascii (false, true, true, false, false, true,
      true, false)), (String ((Ascii (true, false, true, false, false, true,
      true, false)), (String ((Ascii (false, true, false, false, true, true,
      true, false)), (String ((Ascii (true, false, true, false, false, true,
      true, false)), (String ((Ascii (false, false, true, false, false, true,
      true, false)), (String ((Ascii (false, false, false, false, false,
      true, false, false)), (String ((Ascii (false, true, false, false,
      false, true, true, false)), (String ((Ascii (true, false, false, true,
      true, true, true, false)), (String ((Ascii (false, false, false, false,
      false, true, false, false)),
      EmptyString))))))))))))))))))))))))))))))))) (print_color c)
| GCheckMated c ->
  app (print_color (opp c))
    (b (String ((Ascii (false, false, false, false, false, true, false,
      false)), (String ((Ascii (true, true, true, false, true, true, true,
      false)), (String ((Ascii (true, true, true, true, false, true, true,
      false)), (String ((Ascii (false, true, true, true, false, true, true,
      false)), (String ((Ascii (false, false, false, false, false, true,
      false, false)), (String ((Ascii (false, true, false, false, false,
      true, true, false)), (String ((Ascii (true, false, false, true, true,
      true, true, false)), (String ((Ascii (false, false, false, false,
      false, true, false, false)), (String ((Ascii (true, true, false, false,
      false, true, true, false)), (String ((Ascii (false, false, false, true,
      false, true, true, false)), (String ((Ascii (true, false, true, false,
      false, true, true, false)), (String ((Ascii (true, true, false, false,
      false, true, true, false)), (String ((Ascii (true, true, false, true,
      false, true, true, false)), (String ((Ascii (true, false, true, true,
      false, true, true, false)), (String ((Ascii (true, false, false, false,
      false, true, true, false)), (String ((Ascii (false, false, true, false,
      true, true, true, false)), (String ((Ascii (true, false, true, false,
      false, true, true, false)),
      EmptyString)))))))))))))))))))))))))))))))))))
| GResigned c ->
  app (print_color (opp c))
    (b (String ((Ascii (false, false, false, false, false, true, false,
      false)), (String ((Ascii (true, true, true, false, true, true, true,
      false)), (String ((Ascii (true, true, true, true, false, true, true,
      false)), (String ((Ascii (false, true, true, true, false, true, true,
      false)), (String ((Ascii (false, false, false, false, false, true,
      false, false)), (String ((Ascii (false, true, false, false, false,
      true, true, false)), (String ((Ascii (true, false, false, true, true,
      true, true, false)), (String ((Ascii (false, false, false, false,
      false, true, false, false)), (String ((Ascii (false, true, false,
      false, true, true, true, false)), (String ((Ascii (true, false, true,
      false, false, true, true, false)), (String ((Ascii (true, true, false,
      false, true, true, true, false)), (String ((Ascii (true, false, false,
      true, false, true, true, false)), (String ((Ascii (true, true, true,
      false, false, true, true, false)), (String ((Ascii (false, true, true,
      true, false, true, true, false)), (String ((Ascii (true, false, false,
      false, false, true, true, false)), (String ((Ascii (false, false, true,
      false, true, true, true, false)), (String ((Ascii (true, false, false,
      true, false, true, true, false)), (String ((Ascii (true, true, true,
      true, false, true, true, false)), (String ((Ascii (false, true, true,
      true, false, true, true, false)),
      EmptyString)))))))))))))))))))))))))))))))))))))))
| GFiftyMoves ->
  b (String ((Ascii (false, false, true, false, false, true, true, false)),
    (String ((Ascii (false, true, false, false, true, true, true, false)),
    (String ((Ascii (true, false, false, false, false, true, true, false)),
    (String ((Ascii (true, true, true, false, true, true, true, false)),
    (String ((Ascii (false, false, false, false, false, true, false, false)),
    (String ((Ascii (false, false, true, false, false, true, true, false)),
    (String ((Ascii (true, false, true, false, false, true, true, false)),
    (String ((Ascii (true, true, false, false, false, true, true, false)),
    (String ((Ascii (false, false, true, true, false, true, true, false)),
    (String ((Ascii (true, false, false, false, false, true, true, false)),
    (String ((Ascii (false, true, false, false, true, true, true, false)),
    (String ((Ascii (true, false, true, false, false, true, true, false)),
    (String ((Ascii (false, false, true, false, false, true, true, false)),
    (String ((Ascii (false, false, false, false, false, true, false, false)),
    (String ((Ascii (false, true, false, false, false, true, true, false)),
    (String ((Ascii (true, false, false, true, true, true, true, false)),
    (String ((Ascii (false, false, false, false, false, true, false, false)),
    (String ((Ascii (true, false, false, false, false, true, true, false)),
    (String ((Ascii (false, false, false, false, false, true, false, false)),
    (String ((Ascii (true, false, true, false, true, true, false, false)),
    (String ((Ascii (false, false, false, false, true, true, false, false)),
    (String ((Ascii (false, false, false, false, false, true, false, false)),
    (String ((Ascii (true, false, true, true, false, true, true, false)),
    (String ((Ascii (true, true, true, true, false, true, true, false)),
    (String ((Ascii (false, true, true, false, true, true, true, false)),
    (String ((Ascii (true, false, true, false, false, true, true, false)),
    (String ((Ascii (true, true, false, false, true, true, true, false)),
    (String ((Ascii (false, false, false, false, false, true, false, false)),
    (String ((Ascii (false, true, false, false, true, true, true, false)),
    (String ((Ascii (true, false, true, false, true, true, true, false)),
    (String ((Ascii (false, false, true, true, false, true, true, false)),
    (String ((Ascii (true, false, true, false, false, true, true, false)),
    EmptyString))))))))))))))))))))))))))))))))))))))))))))))))))))))))))))))))
| GTheoreticalDraw ->
  b (String ((Ascii (false, false, true, false, false, true, true, false)),
    (String ((Ascii (false, true, false, false, true, true, true, false)),
    (String ((Ascii (true, false, false, false, false, true, true, false)),
    (String ((Ascii (true, true, true, false, true, true, true, false)),
    (String ((Ascii (false, true, false, true, true, true, false, false)),
    (String ((Ascii (false, false, false, false, false, true, false, false)),
    (String ((Ascii (false, true, true, true, false, true, true, false)),
    (String ((Ascii (true, true, true, true, false, true, true, false)),
    (String ((Ascii (false, false, false, false, false, true, false, false)),
    (String ((Ascii (true, false, true, false, false, true, true, false)),
    (String ((Ascii (false, true, true, true, false, true, true, false)),
    (String ((Ascii (true, true, true, true, false, true, true, false)),
    (String ((Ascii (true, false, true, false, true, true, true, false)),
    (String ((Ascii (true, true, true, false, false, true, true, false)),
    (String ((Ascii (false, false, false, true, false, true, true, false)),
    (String ((Ascii (false, false, false, false, false, true, false, false)),
    (String ((Ascii (false, false, false, false, true, true, true, false)),
    (String ((Ascii (true, false, false, true, false, true, true, false)),
    (String ((Ascii (true, false, true, false, false, true, true, false)),
    (String ((Ascii (true, true, false, false, false, true, true, false)),
    (String ((Ascii (true, false, true, false, false, true, true, false)),
    (String ((Ascii (true, true, false, false, true, true, true, false)),
    EmptyString))))))))))))))))))))))))))))))))))))))))))))
| GRepetition ->
  b (String ((Ascii (false, false, true, false, false, true, true, false)),
    (String ((Ascii (false, true, false, false, true, true, true, false)),
    (String ((Ascii (true, false, false, false, false, true, true, false)),
    (String ((Ascii (true, true, true, false, true, true, true, false)),
    (String ((Ascii (false, false, false, false, false, true, false, false)),
    (String ((Ascii (false, false, true, false, false, true, true, false)),
    (String ((Ascii (true, false, true, false, false, true, true, false)),
    (String ((Ascii (true, true, false, false, false, true, true, false)),
    (String ((Ascii (false, false, true, true, false, true, true, false)),
    (String ((Ascii (true, false, false, false, false, true, true, false)),
    (String ((Ascii (false, true, false, false, true, true, true, false)),
    (String ((Ascii (true, false, true, false, false, true, true, false)),
    (String ((Ascii (false, false, true, false, false, true, true, false)),
    (String ((Ascii (false, false, false, false, false, true, false, false)),
    (String ((Ascii (false, true, false, false, false, true, true, false)),
    (String ((Ascii (true, false, false, true, true, true, true, false)),
    (String ((Ascii (false, false, false, false, false, true, false, false)),
    (String ((Ascii (true, false, true, true, false, true, true, false)),
    (String ((Ascii (true, true, true, true, false, true, true, false)),
    (String ((Ascii (false, true, true, false, true, true, true, false)),
    (String ((Ascii (true, false, true, false, false, true, true, false)),
    (String ((Ascii (true, true, false, false, true, true, true, false)),
    (String ((Ascii (false, false, false, false, false, true, false, false)),
    (String ((Ascii (false, true, false, false, true, true, true, false)),
    (String ((Ascii (true, false, true, false, false, true, true, false)),
    (String ((Ascii (false, false, false, false, true, true, true, false)),
    (String ((Ascii (true, false, true, false, false, true, true, false)),
    (String ((Ascii (false, false, true, false, true, true, true, false)),
    (String ((Ascii (true, false, false, true, false, true, true, false)),
    (String ((Ascii (false, false, true, false, true, true, true, false)),
    (String ((Ascii (true, false, false, true, false, true, true, false)),
    (String ((Ascii (true, true, true, true, false, true, true, false)),
    (String ((Ascii (false, true, true, true, false, true, true, false)),
    EmptyString))))))))))))))))))))))))))))))))))))))))))))))))))))))))))))))))))
| GDrawAccepted ->
  b (String ((Ascii (false, false, true, false, false, true, true, false)),
    (String ((Ascii (false, true, false, false, true, true, true, false)),
    (String ((Ascii (true, false, false, false, false, true, true, false)),
    (String ((Ascii (true, true, true, false, true, true, true, false)),
    (String ((Ascii (false, false, false, false, false, true, false, false)),
    (String ((Ascii (false, false, true, false, false, true, true, false)),
    (String ((Ascii (true, false, true, false, false, true, true, false)),
    (String ((Ascii (true, true, false, false, false, true, true, false)),
    (String ((Ascii (false, false, true, true, false, true, true, false)),
    (String ((Ascii (true, false, false, false, false, true, true, false)),
    (String ((Ascii (false, true, false, false, true, true, true, false)),
    (String ((Ascii (true, false, true, false, false, true, true, false)),
    (String ((Ascii (false, false, true, false, false, true, true, false)),
    (String ((Ascii (false, false, false, false, false, true, false, false)),
    (String ((Ascii (false, true, false, false, false, true, true, false)),
    (String ((Ascii (true, false, false, true, true, true, true, false)),
    (String ((Ascii (false, false, false, false, false, true, false, false)),
    (String ((Ascii (true, false, false, false, false, true, true, false)),
    (String ((Ascii (true, true, true, false, false, true, true, false)),
    (String ((Ascii (false, true, false, false, true, true, true, false)),
    (String ((Ascii (true, false, true, false, false, true, true, false)),
    (String ((Ascii (true, false, true, false, false, true, true, false)),
    (String ((Ascii (true, false, true, true, false, true, true, false)),
    (String ((Ascii (true, false, true, false, false, true, true, false)),
    (String ((Ascii (false, true, true, true, false, true, true, false)),
    (String ((Ascii (false, false, true, false, true, true, true, false)),
    EmptyString))))))))))))))))))))))))))))))))))))))))))))))))))))
| GStalemate ->
  b (String ((Ascii (true, true, false, false, true, true, true, false)),
    (String ((Ascii (false, false, true, false, true, true, true, false)),
    (String ((Ascii (true, false, false, false, false, true, true, false)),
    (String ((Ascii (false, false, true, true, false, true, true, false)),
    (String ((Ascii (true, false, true, false, false, true, true, false)),
    (String ((Ascii (true, false, true, true, false, true, true, false)),
    (String ((Ascii (true, false, false, false, false, true, true, false)),
    (String ((Ascii (false, false, true, false, true, true, true, false)),
    (String ((Ascii (true, false, true, false, false, true, true, false)),
    EmptyString))))))))))))))))))

type game = { g_pos : board; g_positions : board list; g_moves : bmove list;
              g_meta : mprops list; g_counter : (n * n) list;
              g_status : gstatus; g_tag : rtag }

(** val counter_get : (n * n) list -> n -> n **)

let counter_get m h =
  match find (fun kv -> N.eqb (fst kv) h) m with
  | Some kv -> snd kv
  | None -> N0

(** val counter_set : (n * n) list -> n -> n -> (n * n) list **)

let counter_set m h v =
  (h, v) :: (filter (fun kv -> negb (N.eqb (fst kv) h)) m)

(** val position_counter : game -> board -> n **)

let position_counter g b0 =
  counter_get g.g_counter b0.b_hash

(** val set_game_status : game -> gstatus -> game **)

let set_game_status g s =
  if gstatus_eqb s g.g_status
  then g
  else { g_pos = g.g_pos; g_positions = g.g_positions; g_moves = g.g_moves;
         g_meta = g.g_meta; g_counter = g.g_counter; g_status = s; g_tag =
         (tag_of_status s) }

(** val position_counter_increment : game -> game **)

let position_counter_increment g =
  { g_pos = g.g_pos; g_positions = g.g_positions; g_moves = g.g_moves;
    g_meta = g.g_meta; g_counter =
    (counter_set g.g_counter g.g_pos.b_hash
      (N.add (position_counter g g.g_pos) (Npos XH))); g_status = g.g_status;
    g_tag = g.g_tag }

(** val update_game_status : game -> action option -> game res **)

let update_game_status g last0 =
  bind
    (match last0 with
     | Some a ->
       (match a with
        | MakeMove _ ->
          bind (get_status g.g_pos) (fun st -> Ok
            (match st with
             | BOngoing ->
               if N.leb (Npos (XI XH)) (position_counter g g.g_pos)
               then GRepetition
               else GOngoing
             | BCheckMated c -> GCheckMated c
             | BTheoreticalDraw -> GTheoreticalDraw
             | BFiftyMoves -> GFiftyMoves
             | BStalemate -> GStalemate))
        | OfferDraw c -> Ok (GDrawOffered c)
        | AcceptDraw -> Ok GDrawAccepted
        | DeclineDraw -> Ok GOngoing
        | Resign c -> Ok (GResigned c))
     | None ->
       bind (get_status g.g_pos) (fun st -> Ok
         (match st with
          | BOngoing ->
            if N.leb (Npos (XI XH)) (position_counter g g.g_pos)
            then GRepetition
            else GOngoing
          | BCheckMated c -> GCheckMated c
          | BTheoreticalDraw -> GTheoreticalDraw
          | BFiftyMoves -> GFiftyMoves
          | BStalemate -> GStalemate))) (fun s -> Ok (set_game_status g s))

(** val game_from_board : board -> game res **)

let game_from_board b0 =
  bind
    (update_game_status { g_pos = b0; g_positions = (b0 :: []); g_moves = [];
      g_meta = []; g_counter = []; g_status = GOngoing; g_tag = TagOpen }
      None) (fun g -> Ok (position_counter_increment g))

(** val history_push : zkeys -> game -> bmove -> board -> game res **)

let history_push k g m newpos =
  bind (unwrap_o (last (map (fun x -> Some x) g.g_positions) None))
    (fun lastp ->
    bind (unwrap (move_props k m lastp)) (fun mp -> Ok { g_pos = g.g_pos;
      g_positions = (app g.g_positions (newpos :: [])); g_moves =
      (app g.g_moves (m :: [])); g_meta = (app g.g_meta (mp :: []));
      g_counter = g.g_counter; g_status = g.g_status; g_tag = g.g_tag }))

(** val with_pos : game -> board -> game **)

let with_pos g b0 =
  { g_pos = b0; g_positions = g.g_positions; g_moves = g.g_moves; g_meta =
    g.g_meta; g_counter = g.g_counter; g_status = g.g_status; g_tag =
    g.g_tag }

(** val game_step : zkeys -> game -> action -> game res **)

let game_step k g a =
  bind
    (match g.g_status with
     | GOngoing ->
       (match a with
        | MakeMove m ->
          (match make_move k g.g_pos m with
           | Ok b' ->
             history_push k (position_counter_increment (with_pos g b')) m b'
           | Err _ -> Err EIllegalAction
           | Panic -> Panic)
        | OfferDraw _ -> Ok g
        | Resign _ -> Ok g
        | _ -> Err EIllegalAction)
     | GDrawOffered _ ->
       (match a with
        | MakeMove _ -> Err EIllegalAction
        | OfferDraw _ -> Err EIllegalAction
        | _ -> Ok g)
     | _ -> Err EFinished) (fun g1 -> update_game_status g1 (Some a))

(** val get_position_on_move : game -> n -> board res **)

let get_position_on_move g i =
  match nth_error g.g_positions (N.to_nat i) with
  | Some b0 -> Ok b0
  | None -> Err EWrongMoveNumber

(** val san_list : game -> bytes list **)

let san_list g =
  map (fun pat -> let (m, p) = pat in san_string m p)
    (combine g.g_moves g.g_meta)

(** val history_string_of : bool -> bytes list -> bytes **)

let history_string_of white_starting = function
| [] -> []
| first :: rest ->
  let head =
    if white_starting
    then app
           (b (String ((Ascii (true, false, false, false, true, true, false,
             false)), (String ((Ascii (false, true, true, true, false, true,
             false, false)), EmptyString)))))
           (app first
             (b (String ((Ascii (false, false, false, false, false, true,
               false, false)), EmptyString))))
    else app
           (b (String ((Ascii (true, false, false, false, true, true, false,
             false)), (String ((Ascii (false, true, true, true, false, true,
             false, false)), (String ((Ascii (false, false, false, false,
             false, true, false, false)), (String ((Ascii (false, true, true,
             true, false, true, false, false)), (String ((Ascii (false, true,
             true, true, false, true, false, false)), (String ((Ascii (false,
             true, true, true, false, true, false, false)), (String ((Ascii
             (false, false, false, false, false, true, false, false)),
             EmptyString)))))))))))))))
           (app first
             (b (String ((Ascii (false, false, false, false, false, true,
               false, false)), EmptyString))))
  in
  fst
    (fold_left (fun pat s ->
      let (out, i) = pat in
      let numbered =
        xorb (negb (N.eqb (N.modulo i (Npos (XO XH))) N0)) white_starting
      in
      let tok =
        if numbered
        then app
               (print_dec
                 (N.div
                   (N.add (N.add i (Npos (XO XH)))
                     (if white_starting then N0 else Npos XH)) (Npos (XO XH))))
               (app
                 (b (String ((Ascii (false, true, true, true, false, true,
                   false, false)), EmptyString)))
                 (app s
                   (b (String ((Ascii (false, false, false, false, false,
                     true, false, false)), EmptyString)))))
        else app s
               (b (String ((Ascii (false, false, false, false, false, true,
                 false, false)), EmptyString)))
      in
      ((app out tok), (N.add i (Npos XH)))) rest (head, (Npos XH)))

(** val history_string : game -> bytes res **)

let history_string g =
  bind (unwrap_o (hd_error g.g_positions)) (fun p0 -> Ok
    (history_string_of (color_eqb p0.b_stm White) (san_list g)))

(** val default_tags : rtag -> bytes **)

let default_tags t =
  app
    (b (String ((Ascii (true, true, false, true, true, false, true, false)),
      (String ((Ascii (true, false, true, false, false, false, true, false)),
      (String ((Ascii (false, true, true, false, true, true, true, false)),
      (String ((Ascii (true, false, true, false, false, true, true, false)),
      (String ((Ascii (false, true, true, true, false, true, true, false)),
      (String ((Ascii (false, false, true, false, true, true, true, false)),
      (String ((Ascii (false, false, false, false, false, true, false,
      false)), (String ((Ascii (false, true, false, false, false, true,
      false, false)), (String ((Ascii (true, true, true, true, true, true,
      false, false)), (String ((Ascii (false, true, false, false, false,
      true, false, false)), (String ((Ascii (true, false, true, true, true,
      false, true, false)), EmptyString)))))))))))))))))))))))
    (app ((Npos (XO (XI (XO XH)))) :: [])
      (app
        (b (String ((Ascii (true, true, false, true, true, false, true,
          false)), (String ((Ascii (true, true, false, false, true, false,
          true, false)), (String ((Ascii (true, false, false, true, false,
          true, true, false)), (String ((Ascii (false, false, true, false,
          true, true, true, false)), (String ((Ascii (true, false, true,
          false, false, true, true, false)), (String ((Ascii (false, false,
          false, false, false, true, false, false)), (String ((Ascii (false,
          true, false, false, false, true, false, false)), (String ((Ascii
          (true, true, true, true, true, true, false, false)), (String
          ((Ascii (false, true, false, false, false, true, false, false)),
          (String ((Ascii (true, false, true, true, true, false, true,
          false)), EmptyString)))))))))))))))))))))
        (app ((Npos (XO (XI (XO XH)))) :: [])
          (app
            (b (String ((Ascii (true, true, false, true, true, false, true,
              false)), (String ((Ascii (false, false, true, false, false,
              false, true, false)), (String ((Ascii (true, false, false,
              false, false, true, true, false)), (String ((Ascii (false,
              false, true, false, true, true, true, false)), (String ((Ascii
              (true, false, true, false, false, true, true, false)), (String
              ((Ascii (false, false, false, false, false, true, false,
              false)), (String ((Ascii (false, true, false, false, false,
              true, false, false)), (String ((Ascii (true, true, true, true,
              true, true, false, false)), (String ((Ascii (false, true,
              false, false, false, true, false, false)), (String ((Ascii
              (true, false, true, true, true, false, true, false)),
              EmptyString)))))))))))))))))))))
            (app ((Npos (XO (XI (XO XH)))) :: [])
              (app
                (b (String ((Ascii (true, true, false, true, true, false,
                  true, false)), (String ((Ascii (false, true, false, false,
                  true, false, true, false)), (String ((Ascii (true, true,
                  true, true, false, true, true, false)), (String ((Ascii
                  (true, false, true, false, true, true, true, false)),
                  (String ((Ascii (false, true, true, true, false, true,
                  true, false)), (String ((Ascii (false, false, true, false,
                  false, true, true, false)), (String ((Ascii (false, false,
                  false, false, false, true, false, false)), (String ((Ascii
                  (false, true, false, false, false, true, false, false)),
                  (String ((Ascii (true, true, true, true, true, true, false,
                  false)), (String ((Ascii (false, true, false, false, false,
                  true, false, false)), (String ((Ascii (true, false, true,
                  true, true, false, true, false)),
                  EmptyString)))))))))))))))))))))))
                (app ((Npos (XO (XI (XO XH)))) :: [])
                  (app
                    (b (String ((Ascii (true, true, false, true, true, false,
                      true, false)), (String ((Ascii (true, true, true,
                      false, true, false, true, false)), (String ((Ascii
                      (false, false, false, true, false, true, true, false)),
                      (String ((Ascii (true, false, false, true, false, true,
                      true, false)), (String ((Ascii (false, false, true,
                      false, true, true, true, false)), (String ((Ascii
                      (true, false, true, false, false, true, true, false)),
                      (String ((Ascii (false, false, false, false, false,
                      true, false, false)), (String ((Ascii (false, true,
                      false, false, false, true, false, false)), (String
                      ((Ascii (false, false, false, false, true, false, true,
                      false)), (String ((Ascii (false, false, true, true,
                      false, true, true, false)), (String ((Ascii (true,
                      false, false, false, false, true, true, false)),
                      (String ((Ascii (true, false, false, true, true, true,
                      true, false)), (String ((Ascii (true, false, true,
                      false, false, true, true, false)), (String ((Ascii
                      (false, true, false, false, true, true, true, false)),
                      (String ((Ascii (false, false, false, false, false,
                      true, false, false)), (String ((Ascii (true, false,
                      false, false, true, true, false, false)), (String
                      ((Ascii (false, true, false, false, false, true, false,
                      false)), (String ((Ascii (true, false, true, true,
                      true, false, true, false)),
                      EmptyString)))))))))))))))))))))))))))))))))))))
                    (app ((Npos (XO (XI (XO XH)))) :: [])
                      (app
                        (b (String ((Ascii (true, true, false, true, true,
                          false, true, false)), (String ((Ascii (false, true,
                          false, false, false, false, true, false)), (String
                          ((Ascii (false, false, true, true, false, true,
                          true, false)), (String ((Ascii (true, false, false,
                          false, false, true, true, false)), (String ((Ascii
                          (true, true, false, false, false, true, true,
                          false)), (String ((Ascii (true, true, false, true,
                          false, true, true, false)), (String ((Ascii (false,
                          false, false, false, false, true, false, false)),
                          (String ((Ascii (false, true, false, false, false,
                          true, false, false)), (String ((Ascii (false,
                          false, false, false, true, false, true, false)),
                          (String ((Ascii (false, false, true, true, false,
                          true, true, false)), (String ((Ascii (true, false,
                          false, false, false, true, true, false)), (String
                          ((Ascii (true, false, false, true, true, true,
                          true, false)), (String ((Ascii (true, false, true,
                          false, false, true, true, false)), (String ((Ascii
                          (false, true, false, false, true, true, true,
                          false)), (String ((Ascii (false, false, false,
                          false, false, true, false, false)), (String ((Ascii
                          (false, true, false, false, true, true, false,
                          false)), (String ((Ascii (false, true, false,
                          false, false, true, false, false)), (String ((Ascii
                          (true, false, true, true, true, false, true,
                          false)),
                          EmptyString)))))))))))))))))))))))))))))))))))))
                        (app ((Npos (XO (XI (XO XH)))) :: [])
                          (app
                            (b (String ((Ascii (true, true, false, true,
                              true, false, true, false)), (String ((Ascii
                              (false, true, false, false, true, false, true,
                              false)), (String ((Ascii (true, false, true,
                              false, false, true, true, false)), (String
                              ((Ascii (true, true, false, false, true, true,
                              true, false)), (String ((Ascii (true, false,
                              true, false, true, true, true, false)), (String
                              ((Ascii (false, false, true, true, false, true,
                              true, false)), (String ((Ascii (false, false,
                              true, false, true, true, true, false)), (String
                              ((Ascii (false, false, false, false, false,
                              true, false, false)), (String ((Ascii (false,
                              true, false, false, false, true, false,
                              false)), EmptyString)))))))))))))))))))
                            (app (print_rtag t)
                              (app
                                (b (String ((Ascii (false, true, false,
                                  false, false, true, false, false)), (String
                                  ((Ascii (true, false, true, true, true,
                                  false, true, false)), EmptyString)))))
                                ((Npos (XO (XI (XO XH)))) :: [])))))))))))))))

(** val trim_end : bytes -> bytes **)

let rec trim_end = function
| [] -> []
| c :: r ->
  (match trim_end r with
   | [] -> if N.eqb c (Npos (XO (XO (XO (XO (XO XH)))))) then [] else c :: []
   | n0 :: l -> c :: (n0 :: l))

(** val as_pgn_unwrapped : game -> bytes res **)

let as_pgn_unwrapped g =
  bind (history_string g) (fun h -> Ok
    (app (default_tags g.g_tag)
      (app ((Npos (XO (XI (XO XH)))) :: [])
        (app (trim_end h)
          (app
            (b (String ((Ascii (false, false, false, false, false, true,
              false, false)), EmptyString))) (print_rtag g.g_tag))))))

(** val san_lookup : zkeys -> board -> bytes -> bmove option res **)

let san_lookup k b0 tok =
  bind (legal_moves k b0) (fun ms ->
    fold_left (fun acc m ->
      bind acc (fun a ->
        bind (unwrap (move_props k m b0)) (fun mp -> Ok
          (if beq (san_string m mp) tok then Some m else a)))) ms (Ok None))

(** val from_pgn_tokens :
    zkeys -> game -> bytes list -> rtag option -> game res **)

let from_pgn_tokens k start sans result =
  bind
    (fold_left (fun acc tok ->
      bind acc (fun g ->
        bind (san_lookup k g.g_pos tok) (fun om ->
          match om with
          | Some m -> game_step k g (MakeMove m)
          | None -> Err EPgn))) sans (Ok start)) (fun g ->
    match g.g_status with
    | GOngoing ->
      (match result with
       | Some r ->
         (match r with
          | TagOpen -> Ok g
          | TagWhite -> unwrap (game_step k g (Resign Black))
          | TagBlack -> unwrap (game_step k g (Resign White))
          | TagDraw ->
            bind (unwrap (game_step k g (OfferDraw White))) (fun g1 ->
              unwrap (game_step k g1 AcceptDraw)))
       | None -> Ok g)
    | _ -> Ok g)

(** val srank : square -> n **)

let srank s =
  N.div s (Npos (XO (XO (XO XH))))

(** val sfile : square -> n **)

let sfile s =
  N.modulo s (Npos (XO (XO (XO XH))))

(** val smk : n -> n -> square **)

let smk r f =
  N.add (N.mul (Npos (XO (XO (XO XH)))) r) f

(** val step : square -> (z * z) -> square option **)

let step s d =
  let r = Z.add (Z.of_N (srank s)) (fst d) in
  let f = Z.add (Z.of_N (sfile s)) (snd d) in
  if (&&)
       ((&&) ((&&) (Z.leb Z0 r) (Z.ltb r (Zpos (XO (XO (XO XH))))))
         (Z.leb Z0 f)) (Z.ltb f (Zpos (XO (XO (XO XH)))))
  then Some (Z.to_N (Z.add (Z.mul r (Zpos (XO (XO (XO XH))))) f))
  else None

(** val line_fuel : nat -> square -> (z * z) -> square list **)

let rec line_fuel fuel s d =
  match fuel with
  | O -> []
  | S k -> (match step s d with
            | Some t -> t :: (line_fuel k t d)
            | None -> [])

(** val line : square -> (z * z) -> square list **)

let line =
  line_fuel (S (S (S (S (S (S (S O)))))))

(** val rook_dirs : (z * z) list **)

let rook_dirs =
  ((Zpos XH), Z0) :: (((Zneg XH), Z0) :: ((Z0, (Zpos XH)) :: ((Z0, (Zneg
    XH)) :: [])))

(** val bishop_dirs : (z * z) list **)

let bishop_dirs =
  ((Zpos XH), (Zpos XH)) :: (((Zpos XH), (Zneg XH)) :: (((Zneg XH), (Zpos
    XH)) :: (((Zneg XH), (Zneg XH)) :: [])))

(** val knight_offs : (z * z) list **)

let knight_offs =
  ((Zpos XH), (Zpos (XO XH))) :: (((Zpos (XO XH)), (Zpos XH)) :: (((Zneg XH),
    (Zpos (XO XH))) :: (((Zneg (XO XH)), (Zpos XH)) :: (((Zpos XH), (Zneg (XO
    XH))) :: (((Zpos (XO XH)), (Zneg XH)) :: (((Zneg XH), (Zneg (XO
    XH))) :: (((Zneg (XO XH)), (Zneg XH)) :: [])))))))

(** val king_offs : (z * z) list **)

let king_offs =
  app rook_dirs bishop_dirs

(** val slide_dirs : ptype -> (z * z) list **)

let slide_dirs = function
| Bishop -> bishop_dirs
| Rook -> rook_dirs
| Queen -> app rook_dirs bishop_dirs
| _ -> []

(** val fwd : color -> z **)

let fwd = function
| White -> Zpos XH
| Black -> Zneg XH

(** val start_rank : color -> n **)

let start_rank = function
| White -> Npos XH
| Black -> Npos (XO (XI XH))

(** val last_rank : color -> n **)

let last_rank = function
| White -> Npos (XI (XI XH))
| Black -> N0

(** val home_rank : color -> n **)

let home_rank = function
| White -> N0
| Black -> Npos (XI (XI XH))

type pos = { placement : piece option list; stm : color; rights_w : cr;
             rights_b : cr; ep : square option; half : n; full : n }

(** val rights : pos -> color -> cr **)

let rights p = function
| White -> p.rights_w
| Black -> p.rights_b

(** val right_k : pos -> color -> bool **)

let right_k p c =
  has_kingside (rights p c)

(** val right_q : pos -> color -> bool **)

let right_q p c =
  has_queenside (rights p c)

(** val piece_at : pos -> square -> piece option **)

let piece_at p s =
  nth (N.to_nat s) p.placement None

(** val occupied : pos -> square -> bool **)

let occupied p s =
  match piece_at p s with
  | Some _ -> true
  | None -> false

(** val color_at : pos -> color -> square -> bool **)

let color_at p c s =
  match piece_at p s with
  | Some p0 -> let (_, c') = p0 in color_eqb c c'
  | None -> false

(** val take_until : (square -> bool) -> square list -> square list **)

let rec take_until f = function
| [] -> []
| u :: r -> if f u then u :: [] else u :: (take_until f r)

(** val reach : pos -> square -> (z * z) -> square list **)

let reach p s d =
  take_until (occupied p) (line s d)

(** val steps : square -> (z * z) list -> square list **)

let steps s offs =
  flat_map (fun o -> match step s o with
                     | Some t -> t :: []
                     | None -> []) offs

(** val attacks_from : pos -> square -> square list **)

let attacks_from p a =
  match piece_at p a with
  | Some p0 ->
    let (t, c) = p0 in
    (match t with
     | Pawn -> steps a (((fwd c), (Zpos XH)) :: (((fwd c), (Zneg XH)) :: []))
     | Knight -> steps a knight_offs
     | King -> steps a king_offs
     | _ -> flat_map (reach p a) (slide_dirs t))
  | None -> []

(** val attackers : pos -> color -> square -> square list **)

let attackers p c t =
  filter (fun a -> (&&) (color_at p c a) (mem t (attacks_from p a))) squares

(** val attacked : pos -> color -> square -> bool **)

let attacked p c t =
  match attackers p c t with
  | [] -> false
  | _ :: _ -> true

(** val king_sq : pos -> color -> square option **)

let king_sq p c =
  find (fun s -> opiece_eqb (piece_at p s) (Some (King, c))) squares

(** val checkers : pos -> color -> square list **)

let checkers p c =
  match king_sq p c with
  | Some k -> attackers p (opp c) k
  | None -> []

(** val in_check : pos -> color -> bool **)

let in_check p c =
  match checkers p c with
  | [] -> false
  | _ :: _ -> true

(** val pawn_dests : pos -> color -> square -> square list **)

let pawn_dests p c s =
  let f = fwd c in
  let push1 =
    match step s (f, Z0) with
    | Some t -> if occupied p t then [] else t :: []
    | None -> []
  in
  let push2 =
    if N.eqb (srank s) (start_rank c)
    then (match step s (f, Z0) with
          | Some t1 ->
            (match step s ((Z.mul (Zpos (XO XH)) f), Z0) with
             | Some t2 ->
               if (||) (occupied p t1) (occupied p t2) then [] else t2 :: []
             | None -> [])
          | None -> [])
    else []
  in
  let caps =
    filter (fun t -> (||) (color_at p (opp c) t) (osq_eqb p.ep (Some t)))
      (steps s ((f, (Zpos XH)) :: ((f, (Zneg XH)) :: [])))
  in
  app push1 (app push2 caps)

(** val pseudo_dests : pos -> square -> square list **)

let pseudo_dests p s =
  match piece_at p s with
  | Some p0 ->
    let (p1, c) = p0 in
    (match p1 with
     | Pawn -> pawn_dests p c s
     | _ -> filter (fun t -> negb (color_at p c t)) (attacks_from p s))
  | None -> []

(** val put :
    piece option list -> square -> piece option -> piece option list **)

let put pl s x =
  set_nth (N.to_nat s) x pl

(** val corner : color -> bool -> square **)

let corner c kingside =
  smk (home_rank c) (if kingside then Npos (XI (XI XH)) else N0)

(** val is_ep_capture : pos -> pmove -> bool **)

let is_ep_capture p m =
  (&&) (ptype_eqb m.pm_type Pawn) (osq_eqb p.ep (Some m.pm_to))

(** val is_capture : pos -> pmove -> bool **)

let is_capture p m =
  (||) (color_at p (opp p.stm) m.pm_to) (is_ep_capture p m)

(** val absdiff : n -> n -> n **)

let absdiff a b0 =
  if N.leb a b0 then N.sub b0 a else N.sub a b0

(** val apply_pm : pos -> pmove -> pos **)

let apply_pm p m =
  let c = p.stm in
  let s = m.pm_from in
  let d = m.pm_to in
  let placed = match m.pm_promo with
               | Some q -> q
               | None -> m.pm_type in
  let pl0 =
    if is_ep_capture p m
    then put p.placement (smk (srank s) (sfile d)) None
    else p.placement
  in
  let pl = put (put pl0 s None) d (Some (placed, c)) in
  let lose_own = fun side ->
    (||) (ptype_eqb m.pm_type King)
      ((&&) (ptype_eqb m.pm_type Rook) (N.eqb s (corner c side)))
  in
  let lose_opp = fun side ->
    (&&) (N.eqb d (corner (opp c) side))
      (opiece_eqb (piece_at p d) (Some (Rook, (opp c))))
  in
  let rk = fun x ->
    if color_eqb x c
    then (&&) (right_k p x) (negb (lose_own true))
    else (&&) (right_k p x) (negb (lose_opp true))
  in
  let rq = fun x ->
    if color_eqb x c
    then (&&) (right_q p x) (negb (lose_own false))
    else (&&) (right_q p x) (negb (lose_opp false))
  in
  { placement = pl; stm = (opp c); rights_w =
  (cr_of_bits (rk White) (rq White)); rights_b =
  (cr_of_bits (rk Black) (rq Black)); ep =
  (if (&&) (ptype_eqb m.pm_type Pawn)
        (N.eqb (absdiff (srank s) (srank d)) (Npos (XO XH)))
   then Some
          (smk (N.div (N.add (srank s) (srank d)) (Npos (XO XH))) (sfile s))
   else None); half =
  (if (||) (ptype_eqb m.pm_type Pawn) (is_capture p m)
   then N0
   else N.add p.half (Npos XH)); full =
  (match c with
   | White -> p.full
   | Black -> N.add p.full (Npos XH)) }

(** val apply_castle : pos -> bool -> pos **)

let apply_castle p kingside =
  let c = p.stm in
  let r = home_rank c in
  if kingside
  then let kt = Npos (XO (XI XH)) in
       let rf = Npos (XI (XI XH)) in
       let rt = if kingside then Npos (XI (XO XH)) else Npos (XI XH) in
       let pl =
         put
           (put
             (put (put p.placement (smk r (Npos (XO (XO XH)))) None)
               (smk r rf) None) (smk r kt) (Some (King, c))) (smk r rt) (Some
           (Rook, c))
       in
       { placement = pl; stm = (opp c); rights_w =
       (if color_eqb White c then Neither else p.rights_w); rights_b =
       (if color_eqb Black c then Neither else p.rights_b); ep = None; half =
       (N.add p.half (Npos XH)); full =
       (match c with
        | White -> p.full
        | Black -> N.add p.full (Npos XH)) }
  else let kt = Npos (XO XH) in
       let rf = N0 in
       let rt = if kingside then Npos (XI (XO XH)) else Npos (XI XH) in
       let pl =
         put
           (put
             (put (put p.placement (smk r (Npos (XO (XO XH)))) None)
               (smk r rf) None) (smk r kt) (Some (King, c))) (smk r rt) (Some
           (Rook, c))
       in
       { placement = pl; stm = (opp c); rights_w =
       (if color_eqb White c then Neither else p.rights_w); rights_b =
       (if color_eqb Black c then Neither else p.rights_b); ep = None; half =
       (N.add p.half (Npos XH)); full =
       (match c with
        | White -> p.full
        | Black -> N.add p.full (Npos XH)) }

(** val apply : pos -> bmove -> pos **)

let apply p = function
| MovePiece pm -> apply_pm p pm
| CastleK -> apply_castle p true
| CastleQ -> apply_castle p false

(** val promo_ok : pos -> pmove -> bool **)

let promo_ok p m =
  if (&&) (ptype_eqb m.pm_type Pawn) (N.eqb (srank m.pm_to) (last_rank p.stm))
  then (match m.pm_promo with
        | Some p0 -> (match p0 with
                      | Pawn -> false
                      | King -> false
                      | _ -> true)
        | None -> false)
  else (match m.pm_promo with
        | Some _ -> false
        | None -> true)

(** val castle_legal : pos -> bool -> bool **)

let castle_legal p kingside =
  let c = p.stm in
  let r = home_rank c in
  (&&)
    ((&&)
      ((&&)
        ((&&)
          ((&&) (if kingside then right_k p c else right_q p c)
            (opiece_eqb (piece_at p (smk r (Npos (XO (XO XH))))) (Some (King,
              c))))
          (opiece_eqb (piece_at p (corner c kingside)) (Some (Rook, c))))
        (forallb (fun f -> negb (occupied p (smk r f)))
          (if kingside
           then (Npos (XI (XO XH))) :: ((Npos (XO (XI XH))) :: [])
           else (Npos XH) :: ((Npos (XO XH)) :: ((Npos (XI XH)) :: [])))))
      (negb (in_check p c)))
    (forallb (fun f -> negb (attacked p (opp c) (smk r f)))
      (if kingside
       then (Npos (XI (XO XH))) :: ((Npos (XO (XI XH))) :: [])
       else (Npos (XI XH)) :: ((Npos (XO XH)) :: [])))

(** val legal : pos -> bmove -> bool **)

let legal p = function
| MovePiece pm ->
  (&&)
    ((&&)
      ((&&) (opiece_eqb (piece_at p pm.pm_from) (Some (pm.pm_type, p.stm)))
        (mem pm.pm_to (pseudo_dests p pm.pm_from))) (promo_ok p pm))
    (negb (in_check (apply_pm p pm) p.stm))
| CastleK -> castle_legal p true
| CastleQ -> castle_legal p false

(** val promos_for : pos -> ptype -> square -> ptype option list **)

let promos_for p t d =
  if (&&) (ptype_eqb t Pawn) (N.eqb (srank d) (last_rank p.stm))
  then (Some Knight) :: ((Some Bishop) :: ((Some Rook) :: ((Some
         Queen) :: [])))
  else None :: []

(** val gen : pos -> bmove list **)

let gen p =
  filter (legal p)
    (app
      (flat_map (fun s ->
        match piece_at p s with
        | Some p0 ->
          let (t, c) = p0 in
          if color_eqb c p.stm
          then flat_map (fun d ->
                 map (fun pr -> MovePiece { pm_type = t; pm_from = s; pm_to =
                   d; pm_promo = pr }) (promos_for p t d)) (pseudo_dests p s)
          else []
        | None -> []) squares) (CastleK :: (CastleQ :: [])))

type status =
| Ongoing
| CheckMated of color
| TheoreticalDraw
| FiftyMovesDraw
| Stalemate

(** val count_color : pos -> color -> nat **)

let count_color p c =
  length (filter (color_at p c) squares)

(** val minor_count : pos -> color -> nat **)

let minor_count p c =
  length
    (filter (fun s ->
      match piece_at p s with
      | Some p0 ->
        let (p1, c') = p0 in
        (match p1 with
         | Knight -> color_eqb c c'
         | Bishop -> color_eqb c c'
         | _ -> false)
      | None -> false) squares)

(** val cannot_mate : pos -> color -> bool **)

let cannot_mate p c =
  match count_color p c with
  | O -> false
  | S n0 ->
    (match n0 with
     | O -> true
     | S n1 ->
       (match n1 with
        | O -> Nat.eqb (minor_count p c) (S O)
        | S _ -> false))

(** val board_status : pos -> status **)

let board_status p =
  match gen p with
  | [] -> if in_check p p.stm then CheckMated p.stm else Stalemate
  | _ :: _ ->
    if (&&) (cannot_mate p White) (cannot_mate p Black)
    then TheoreticalDraw
    else if N.leb (Npos (XO (XO (XI (XO (XO (XI XH))))))) p.half
         then FiftyMovesDraw
         else Ongoing

(** val one_king : pos -> color -> bool **)

let one_king p c =
  Nat.eqb
    (length
      (filter (fun s -> opiece_eqb (piece_at p s) (Some (King, c))) squares))
    (S O)

(** val right_ok : pos -> color -> bool **)

let right_ok p c =
  let r = home_rank c in
  (&&)
    ((&&)
      ((||) (negb ((||) (right_k p c) (right_q p c)))
        (opiece_eqb (piece_at p (smk r (Npos (XO (XO XH))))) (Some (King, c))))
      ((||) (negb (right_k p c))
        (opiece_eqb (piece_at p (corner c true)) (Some (Rook, c)))))
    ((||) (negb (right_q p c))
      (opiece_eqb (piece_at p (corner c false)) (Some (Rook, c))))

(** val ep_ok : pos -> bool **)

let ep_ok p =
  match p.ep with
  | Some e ->
    let c = p.stm in
    let er = match c with
             | White -> Npos (XI (XO XH))
             | Black -> Npos (XO XH)
    in
    (&&)
      ((&&) ((&&) (N.eqb (srank e) er) (negb (occupied p e)))
        (opiece_eqb
          (piece_at p
            (smk
              (match c with
               | White -> Npos (XO (XO XH))
               | Black -> Npos (XI XH)) (sfile e))) (Some (Pawn, (opp c)))))
      (negb
        (occupied p
          (smk (match c with
                | White -> Npos (XO (XI XH))
                | Black -> Npos XH) (sfile e))))
  | None -> true

(** val valid : pos -> bool **)

let valid p =
  (&&)
    ((&&)
      ((&&)
        ((&&)
          ((&&)
            ((&&)
              (Nat.eqb (length p.placement) (S (S (S (S (S (S (S (S (S (S (S
                (S (S (S (S (S (S (S (S (S (S (S (S (S (S (S (S (S (S (S (S
                (S (S (S (S (S (S (S (S (S (S (S (S (S (S (S (S (S (S (S (S
                (S (S (S (S (S (S (S (S (S (S (S (S (S
                O)))))))))))))))))))))))))))))))))))))))))))))))))))))))))))))))))
              (one_king p White)) (one_king p Black))
          (negb (in_check p (opp p.stm)))) (right_ok p White))
      (right_ok p Black)) (ep_ok p)

(** val perft : nat -> pos -> n **)

let rec perft n0 p =
  match n0 with
  | O -> Npos XH
  | S k -> fold_left (fun acc m -> N.add acc (perft k (apply p m))) (gen p) N0
