
type __ = Obj.t

val xorb : bool -> bool -> bool

val negb : bool -> bool

type nat =
| O
| S of nat

val fst : ('a1 * 'a2) -> 'a1

val snd : ('a1 * 'a2) -> 'a2

val length : 'a1 list -> nat

val app : 'a1 list -> 'a1 list -> 'a1 list

type comparison =
| Eq
| Lt
| Gt

val compOpp : comparison -> comparison

val id : __ -> __

val add : nat -> nat -> nat

module Nat :
 sig
  val eqb : nat -> nat -> bool
 end

val hd : 'a1 -> 'a1 list -> 'a1

val hd_error : 'a1 list -> 'a1 option

val nth : nat -> 'a1 list -> 'a1 -> 'a1

val nth_error : 'a1 list -> nat -> 'a1 option

val last : 'a1 list -> 'a1 -> 'a1

val rev : 'a1 list -> 'a1 list

val concat : 'a1 list list -> 'a1 list

val list_eq_dec : ('a1 -> 'a1 -> bool) -> 'a1 list -> 'a1 list -> bool

val map : ('a1 -> 'a2) -> 'a1 list -> 'a2 list

val flat_map : ('a1 -> 'a2 list) -> 'a1 list -> 'a2 list

val fold_left : ('a1 -> 'a2 -> 'a1) -> 'a2 list -> 'a1 -> 'a1

val fold_right : ('a2 -> 'a1 -> 'a1) -> 'a1 -> 'a2 list -> 'a1

val existsb : ('a1 -> bool) -> 'a1 list -> bool

val forallb : ('a1 -> bool) -> 'a1 list -> bool

val filter : ('a1 -> bool) -> 'a1 list -> 'a1 list

val find : ('a1 -> bool) -> 'a1 list -> 'a1 option

val combine : 'a1 list -> 'a2 list -> ('a1 * 'a2) list

val firstn : nat -> 'a1 list -> 'a1 list

val skipn : nat -> 'a1 list -> 'a1 list

val seq : nat -> nat -> nat list

val repeat : 'a1 -> nat -> 'a1 list

type positive =
| XI of positive
| XO of positive
| XH

type n =
| N0
| Npos of positive

type z =
| Z0
| Zpos of positive
| Zneg of positive

module Pos :
 sig
  type mask =
  | IsNul
  | IsPos of positive
  | IsNeg
 end

module Coq_Pos :
 sig
  val succ : positive -> positive

  val add : positive -> positive -> positive

  val add_carry : positive -> positive -> positive

  val pred_double : positive -> positive

  type mask = Pos.mask =
  | IsNul
  | IsPos of positive
  | IsNeg

  val succ_double_mask : mask -> mask

  val double_mask : mask -> mask

  val double_pred_mask : positive -> mask

  val sub_mask : positive -> positive -> mask

  val sub_mask_carry : positive -> positive -> mask

  val mul : positive -> positive -> positive

  val iter : ('a1 -> 'a1) -> 'a1 -> positive -> 'a1

  val size_nat : positive -> nat

  val size : positive -> positive

  val compare_cont : comparison -> positive -> positive -> comparison

  val compare : positive -> positive -> comparison

  val eqb : positive -> positive -> bool

  val coq_Nsucc_double : n -> n

  val coq_Ndouble : n -> n

  val coq_lor : positive -> positive -> positive

  val coq_land : positive -> positive -> n

  val coq_lxor : positive -> positive -> n

  val shiftl : positive -> n -> positive

  val iter_op : ('a1 -> 'a1 -> 'a1) -> positive -> 'a1 -> 'a1

  val to_nat : positive -> nat

  val of_succ_nat : nat -> positive

  val eq_dec : positive -> positive -> bool
 end

module N :
 sig
  val succ_double : n -> n

  val double : n -> n

  val succ : n -> n

  val add : n -> n -> n

  val sub : n -> n -> n

  val mul : n -> n -> n

  val compare : n -> n -> comparison

  val eqb : n -> n -> bool

  val leb : n -> n -> bool

  val ltb : n -> n -> bool

  val div2 : n -> n

  val log2 : n -> n

  val size_nat : n -> nat

  val pos_div_eucl : positive -> n -> n * n

  val div_eucl : n -> n -> n * n

  val div : n -> n -> n

  val modulo : n -> n -> n

  val coq_lor : n -> n -> n

  val coq_land : n -> n -> n

  val coq_lxor : n -> n -> n

  val shiftl : n -> n -> n

  val shiftr : n -> n -> n

  val to_nat : n -> nat

  val of_nat : nat -> n

  val eq_dec : n -> n -> bool
 end

type ascii =
| Ascii of bool * bool * bool * bool * bool * bool * bool * bool

val n_of_digits : bool list -> n

val n_of_ascii : ascii -> n

module Z :
 sig
  val double : z -> z

  val succ_double : z -> z

  val pred_double : z -> z

  val pos_sub : positive -> positive -> z

  val add : z -> z -> z

  val mul : z -> z -> z

  val compare : z -> z -> comparison

  val leb : z -> z -> bool

  val ltb : z -> z -> bool

  val to_N : z -> n

  val of_N : n -> z
 end

type string =
| EmptyString
| String of ascii * string

val list_ascii_of_string : string -> ascii list

type err =
| EIllegalMove
| EIllegalAction
| EFinished
| EWrongMoveNumber
| EFen
| EOverlap
| ESelfConsistency
| EKings
| EOppCheck
| EEnPassant
| ECastling
| EMoveRepr
| EPromoPiece
| ESquareRepr
| EFileName
| ERankName
| EPieceRepr
| EIndex
| ENeg
| EPgn

type 'a res =
| Ok of 'a
| Err of err
| Panic

val bind : 'a1 res -> ('a1 -> 'a2 res) -> 'a2 res

val unwrap : 'a1 res -> 'a1 res

val unwrap_o : 'a1 option -> 'a1 res

type color =
| White
| Black

type ptype =
| Pawn
| Knight
| Bishop
| Rook
| Queen
| King

type piece = ptype * color

type square = n

val opp : color -> color

val color_eqb : color -> color -> bool

val ptype_eqb : ptype -> ptype -> bool

val piece_eqb : piece -> piece -> bool

val opiece_eqb : piece option -> piece option -> bool

val osq_eqb : square option -> square option -> bool

val optype_eqb : ptype option -> ptype option -> bool

val all_types : ptype list

val color_of_index : n -> color res

val ptype_index : ptype -> n

val ptype_of_index : n -> ptype res

val back_rank : color -> n

val promotion_rank : color -> n

val idx8_of : n -> n res

val idx_up : n -> n res

val idx_down : n -> n res

val sq_new : n -> square res

val rank : square -> n

val file : square -> n

val mk_sq : n -> n -> square

val sq_up : square -> square res

val sq_down : square -> square res

val sq_right : square -> square res

val sq_left : square -> square res

val is_light : square -> bool

val squares : square list

val idx8 : n list

type cr =
| Neither
| QueenSide
| KingSide
| BothSides

val cr_eqb : cr -> cr -> bool

val has_kingside : cr -> bool

val has_queenside : cr -> bool

val cr_of_bits : bool -> bool -> cr

val cr_add : cr -> cr -> cr

val cr_sub : cr -> cr -> cr

val cr_index : cr -> n

val cr_of_index : n -> cr res

type bb = n

val ones64 : n

val bnot : bb -> bb

val bit : square -> bb

val is_blank : bb -> bool

val ctz_pos : positive -> n

val ctz : bb -> n

val to_square : bb -> square res

val last_bit_square : bb -> square option

val first_bit_square : bb -> square option

val popc_pos : positive -> n

val popcount : bb -> n

val iter_fuel : nat -> bb -> square list

val bits : bb -> square list

val bb_from_file : n -> bb

val bb_from_rank : n -> bb

type pmove = { pm_type : ptype; pm_from : square; pm_to : square;
               pm_promo : ptype option }

type bmove =
| MovePiece of pmove
| CastleK
| CastleQ

val pmove_new : ptype -> square -> square -> ptype option -> pmove res

val pmove_eqb : pmove -> pmove -> bool

val bmove_eqb : bmove -> bmove -> bool

val mem : square -> square list -> bool

val set_nth : nat -> 'a1 -> 'a1 list -> 'a1 list

val look : bb list -> square -> bb

val kNIGHT_T : bb list

val kING_T : bb list

val rAYS_T : bb list list

val bISHOP_T : bb list

val rOOK_T : bb list

val qUEEN_T : bb list

val pAWN_PUSH_W : bb list

val pAWN_PUSH_B : bb list

val pAWN_DBL_W : bb list

val pAWN_DBL_B : bb list

val pAWN_CAP_W : bb list

val pAWN_CAP_B : bb list

val bETWEEN_ROWS : bb option list list

val rays : square -> bb list

val ray : square -> nat -> bb

val between : square -> square -> bb option

val pawn_push : color -> square -> bb

val pawn_double : color -> square -> bb

val pawn_cap : color -> square -> bb

type zkeys = { zk_piece : (color -> ptype -> square -> n);
               zk_castle : (color -> cr -> n); zk_ep : (n -> n); zk_black : 
               n }

type board = { m_pawn : bb; m_knight : bb; m_bishop : bb; m_rook : bb;
               m_queen : bb; m_king : bb; m_white : bb; m_black : bb;
               m_all : bb; b_stm : color; b_wr : cr; b_br : cr;
               b_ep : square option; b_pinned : bb; b_checks : bb;
               b_term : bool; b_half : n; b_full : n; b_hash : n }

val tmask : board -> ptype -> bb

val cmask : board -> color -> bb

val rights_of : board -> color -> cr

val with_t : board -> ptype -> (bb -> bb) -> board

val with_c : board -> color -> (bb -> bb) -> board

val with_all : board -> (bb -> bb) -> board

val with_hash : board -> n -> board

val with_stm : board -> color -> board

val with_rights : board -> color -> cr -> board

val with_ep : board -> square option -> board

val with_pc : board -> bb -> bb -> board

val with_term : board -> bool -> board

val with_clocks : board -> n -> n -> board

val new_board : board

val is_empty_square : board -> square -> bool

val b2n : bool -> n

val piece_type_on : board -> square -> ptype option res

val piece_color_on : board -> square -> color option

val piece_on : board -> square -> piece option res

val clear_square : zkeys -> board -> square -> board res

val put_piece : zkeys -> board -> piece -> square -> board res

val set_side_to_move : zkeys -> board -> color -> board

val set_castling_rights : zkeys -> board -> color -> cr -> board

val set_en_passant : zkeys -> board -> square option -> board

val calc_hash : zkeys -> board -> n res

val king_square : board -> color -> square res

val pins_and_checks : board -> square -> (bb * bb) res

val update_pins_and_checks : board -> board res

val is_under_attack : board -> square -> bool res

val castling_available : board -> bb option -> cr res

val truncate_ray : board -> square -> nat -> bb res

val truncate_rays : board -> nat list -> square -> bb res

val piece_moves_mask : board -> ptype -> square -> bb res

val is_en_passant_move : pmove -> board -> bool

val is_capture_on_board : pmove -> board -> bool

val move_piece : zkeys -> board -> pmove -> board res

val clear_square_if_en_passant : zkeys -> board -> pmove -> board res

val check_mask_after : zkeys -> board -> pmove -> bb res

val needs_eval : board -> pmove -> bool

val is_legal_move : zkeys -> board -> bmove -> bool res

val filter_res : ('a1 -> bool res) -> 'a1 list -> 'a1 list res

val flat_map_res : ('a1 -> 'a2 list res) -> 'a1 list -> 'a2 list res

val any_res : ('a1 -> bool res) -> 'a1 list -> bool res

val mk_pm : ptype -> square -> square -> ptype option -> pmove

val legal_moves : zkeys -> board -> bmove list res

val update_terminal_status : zkeys -> board -> board res

type bstatus =
| BOngoing
| BCheckMated of color
| BTheoreticalDraw
| BFiftyMoves
| BStalemate

val is_theoretical_draw : board -> bool res

val get_status : board -> bstatus res

val update_move_number : board -> board

val update_moves_since_capture : board -> bmove -> bool -> board

val update_castling_rights : zkeys -> board -> bmove -> board

val update_en_passant : zkeys -> board -> bmove -> board

val make_move_unchecked : zkeys -> board -> bmove -> board res

val make_move : zkeys -> board -> bmove -> board res

type builder = { bd_pieces : piece option list; bd_stm : color; bd_wr : 
                 cr; bd_br : cr; bd_ep : square option; bd_half : n;
                 bd_full : n }

val validate : zkeys -> board -> err option res

val try_from_builder : zkeys -> builder -> board res

val builder_of_board : board -> builder res

type bytes = n list

val b : string -> bytes

val blen : bytes -> n

val is_cont : n -> bool

val boundary : bytes -> n -> bool

val sub0 : bytes -> n -> n -> bytes

val range_ok : bytes -> n -> n -> bool

val get : bytes -> n -> n -> bytes option

val usub : n -> n -> n res

val split_on : n -> bytes -> bytes -> bytes list

val beq : bytes -> bytes -> bool

val contains : bytes -> n -> bool

val upper : n -> n

val lower : n -> n

val parse_file : bytes -> n res

val parse_rank : bytes -> n res

val print_file : n -> bytes

val print_rank : n -> bytes

val parse_sq : bytes -> square res

val print_sq : square -> bytes

val parse_pt : bytes -> ptype res

val letter : ptype -> bytes

val print_color : color -> bytes

val print_cr : cr -> bytes

val dec_fuel : nat -> n -> bytes -> bytes

val print_dec : n -> bytes

val two64 : n

val parse_usize : bytes -> n res

val parse_pmove : bytes -> pmove res

val parse_bmove : bytes -> bmove res

val print_pmove : pmove -> bytes

val print_bmove : bmove -> bytes

val fen_piece_of : n -> piece option

val is_fen_letter : n -> bool

val fen_step :
  ((n * n) * piece option list) -> n -> ((n * n) * piece option list) res

val parse_placement : bytes -> piece option list res

val cr_of_field : bytes -> n -> n -> cr

val parse_fen : bytes -> builder res

val piece_char : piece -> bytes

val print_rank_row : piece option list -> n -> (bytes * n) -> bytes * n

val print_placement : piece option list -> bytes

val print_castles : cr -> cr -> bytes

val print_fen : builder -> bytes

val setup_builder :
  (square * piece) list -> color -> cr -> cr -> square option -> n -> n ->
  builder

val from_fen : zkeys -> bytes -> board res

val as_fen : board -> bytes res

val board_setup :
  zkeys -> (square * piece) list -> color -> cr -> cr -> square option -> n
  -> n -> board res

type amb =
| ExtraFile
| ExtraRank
| ExtraSquare
| AmbNeither

type mprops = { mp_check : bool; mp_mate : bool; mp_capture : bool;
                mp_amb : amb }

val get_move_ambiguity_type : zkeys -> board -> pmove -> amb res

val move_props : zkeys -> bmove -> board -> mprops res

val san_string : bmove -> mprops -> bytes

val box_v : bytes

val box_h : bytes

val box_tl : bytes

val box_tr : bytes

val box_bl : bytes

val box_br : bytes

val rep : nat -> 'a1 list -> 'a1 list

val render_cell : board -> square -> bytes res

val render : board -> n list -> n list -> bytes -> bytes res

val render_straight : board -> bytes res

val render_flipped : board -> bytes res

val render_bb : bb -> bytes

type action =
| MakeMove of bmove
| OfferDraw of color
| AcceptDraw
| DeclineDraw
| Resign of color

type gstatus =
| GOngoing
| GDrawOffered of color
| GCheckMated of color
| GResigned of color
| GFiftyMoves
| GTheoreticalDraw
| GRepetition
| GDrawAccepted
| GStalemate

val gstatus_eqb : gstatus -> gstatus -> bool

type rtag =
| TagOpen
| TagWhite
| TagBlack
| TagDraw

val print_rtag : rtag -> bytes

val tag_of_status : gstatus -> rtag

val print_gstatus : gstatus -> bytes

type game = { g_pos : board; g_positions : board list; g_moves : bmove list;
              g_meta : mprops list; g_counter : (n * n) list;
              g_status : gstatus; g_tag : rtag }

val counter_get : (n * n) list -> n -> n

val counter_set : (n * n) list -> n -> n -> (n * n) list

val position_counter : game -> board -> n

val set_game_status : game -> gstatus -> game

val position_counter_increment : game -> game

val update_game_status : game -> action option -> game res

val game_from_board : board -> game res

val history_push : zkeys -> game -> bmove -> board -> game res

val with_pos : game -> board -> game

val game_step : zkeys -> game -> action -> game res

val get_position_on_move : game -> n -> board res

val san_list : game -> bytes list

val history_string_of : bool -> bytes list -> bytes

val history_string : game -> bytes res

val default_tags : rtag -> bytes

val trim_end : bytes -> bytes

val as_pgn_unwrapped : game -> bytes res

val san_lookup : zkeys -> board -> bytes -> bmove option res

val from_pgn_tokens : zkeys -> game -> bytes list -> rtag option -> game res

val srank : square -> n

val sfile : square -> n

val smk : n -> n -> square

val step : square -> (z * z) -> square option

val line_fuel : nat -> square -> (z * z) -> square list

val line : square -> (z * z) -> square list

val rook_dirs : (z * z) list

val bishop_dirs : (z * z) list

val knight_offs : (z * z) list

val king_offs : (z * z) list

val slide_dirs : ptype -> (z * z) list

val fwd : color -> z

val start_rank : color -> n

val last_rank : color -> n

val home_rank : color -> n

type pos = { placement : piece option list; stm : color; rights_w : cr;
             rights_b : cr; ep : square option; half : n; full : n }

val rights : pos -> color -> cr

val right_k : pos -> color -> bool

val right_q : pos -> color -> bool

val piece_at : pos -> square -> piece option

val occupied : pos -> square -> bool

val color_at : pos -> color -> square -> bool

val take_until : (square -> bool) -> square list -> square list

val reach : pos -> square -> (z * z) -> square list

val steps : square -> (z * z) list -> square list

val attacks_from : pos -> square -> square list

val attackers : pos -> color -> square -> square list

val attacked : pos -> color -> square -> bool

val king_sq : pos -> color -> square option

val checkers : pos -> color -> square list

val in_check : pos -> color -> bool

val pawn_dests : pos -> color -> square -> square list

val pseudo_dests : pos -> square -> square list

val put : piece option list -> square -> piece option -> piece option list

val corner : color -> bool -> square

val is_ep_capture : pos -> pmove -> bool

val is_capture : pos -> pmove -> bool

val absdiff : n -> n -> n

val apply_pm : pos -> pmove -> pos

val apply_castle : pos -> bool -> pos

val apply : pos -> bmove -> pos

val promo_ok : pos -> pmove -> bool

val castle_legal : pos -> bool -> bool

val legal : pos -> bmove -> bool

val promos_for : pos -> ptype -> square -> ptype option list

val gen : pos -> bmove list

type status =
| Ongoing
| CheckMated of color
| TheoreticalDraw
| FiftyMovesDraw
| Stalemate

val count_color : pos -> color -> nat

val minor_count : pos -> color -> nat

val cannot_mate : pos -> color -> bool

val board_status : pos -> status

val one_king : pos -> color -> bool

val right_ok : pos -> color -> bool

val ep_ok : pos -> bool

val valid : pos -> bool

val perft : nat -> pos -> n
