(* extract/Extract.v — extraction of the executable model and spec for the correspondence
   oracle (oracle/).  Only ExtrOcamlBasic is used: bool, option, unit, list, prod, sumbool,
   sumor map to the OCaml types and andb/orb are inlined; N, positive, Z, nat, ascii, string
   stay the extracted inductive types.  Extraction is never used to establish a theorem. *)
Require Import LC.model.Prims LC.model.Tables LC.model.Board LC.model.Text LC.model.Fen
  LC.model.San LC.model.Render LC.model.Game LC.model.Pgn LC.spec.Chess LC.spec.Sym.
Require ExtrOcamlBasic.
Extraction Language OCaml.
Extraction "../oracle/model.ml"
  Prims.squares Prims.bits Prims.popcount Prims.to_square Prims.first_bit_square Prims.last_bit_square
  Prims.bb_from_file Prims.bb_from_rank Prims.sq_up Prims.sq_down Prims.sq_left Prims.sq_right Prims.is_light
  Prims.cr_add Prims.cr_sub Prims.cr_index Prims.cr_of_index Prims.color_of_index Prims.ptype_of_index
  Prims.idx8_of Prims.idx_up Prims.idx_down Prims.sq_new Prims.rank Prims.file Prims.mk_sq Prims.bmove_eqb
  Tables.KNIGHT_T Tables.KING_T Tables.BISHOP_T Tables.ROOK_T Tables.QUEEN_T Tables.rays Tables.between
  Tables.pawn_push Tables.pawn_double Tables.pawn_cap Tables.look
  Board.try_from_builder Board.builder_of_board Board.legal_moves Board.is_legal_move Board.make_move
  Board.make_move_unchecked Board.get_status Board.is_theoretical_draw Board.castling_available
  Board.calc_hash Board.king_square Board.piece_on Board.pins_and_checks Board.piece_moves_mask
  Text.parse_bmove Text.print_bmove Text.parse_sq Text.parse_file Text.parse_rank Text.parse_pt
  Text.print_sq Text.print_dec Text.parse_usize Text.letter
  Fen.parse_fen Fen.print_fen Fen.from_fen Fen.as_fen Fen.board_setup
  San.move_props San.san_string San.get_move_ambiguity_type
  Render.render_straight Render.render_flipped Render.render_bb
  Game.game_from_board Game.game_step Game.history_string Game.as_pgn_unwrapped Game.from_pgn_tokens
  Pgn.from_pgn_text Pgn.scan_moves Pgn.moves_part Pgn.scan_result Pgn.header_result Pgn.scan_tags
  Game.default_tags Game.position_counter Game.get_position_on_move Game.print_gstatus Game.san_list Game.print_rtag
  Chess.legal Chess.gen Chess.apply Chess.valid Chess.board_status Chess.checkers Chess.in_check Chess.perft
  Chess.attackers Chess.king_sq Sym.flip Sym.mirror.
