(* oracle/driver.ml — recomputes, with the model and spec extracted from Coq, the observation
   records written by the Rust harness and reports every field on which they differ.
   usage: driver <keys.txt> <cases file> <diff file> <stats file> [spec-every] *)
open Model
type string = Stdlib.String.t

(* ---------- conversions ---------- *)
let rec pos_of_int i = if i = 1 then XH else if i land 1 = 0 then XO (pos_of_int (i / 2)) else XI (pos_of_int (i / 2))
let n_of_int i : n = if i = 0 then N0 else Npos (pos_of_int i)
let rec int_of_pos = function XH -> 1 | XO p -> 2 * int_of_pos p | XI p -> 2 * int_of_pos p + 1
let int_of_n = function N0 -> 0 | Npos p -> int_of_pos p
let n_of_int64 (x : int64) : n =
  (* unsigned *)
  let rec go i = (* bits i..63, returns positive option *)
    if i > 63 then None
    else
      let rest = go (i + 1) in
      let bit = Int64.logand (Int64.shift_right_logical x i) 1L = 1L in
      match rest, bit with
      | None, false -> None
      | None, true -> Some XH
      | Some p, false -> Some (XO p)
      | Some p, true -> Some (XI p) in
  match go 0 with None -> N0 | Some p -> Npos p
let int64_of_n (x : n) : int64 =
  let rec f = function XH -> 1L | XO q -> Int64.mul 2L (f q) | XI q -> Int64.add 1L (Int64.mul 2L (f q)) in
  match x with N0 -> 0L | Npos p -> f p
let hex_of_n x = Printf.sprintf "%016Lx" (int64_of_n x)
let n_of_hex s = n_of_int64 (Int64.of_string ("0x" ^ s))
let n_of_dec s = n_of_int64 (Int64.of_string ("0u" ^ s))
let dec_of_n x = Printf.sprintf "%Lu" (int64_of_n x)
let bytes_of_string (s : string) : n list = List.init (String.length s) (fun i -> n_of_int (Char.code s.[i]))
let string_of_bytes (l : n list) : string = String.concat "" (List.map (fun c -> String.make 1 (Char.chr (int_of_n c land 255))) l)
let unhex s = try String.init (String.length s / 2) (fun i -> Char.chr (int_of_string ("0x" ^ String.sub s (2 * i) 2))) with _ -> s
let tohex s = String.concat "" (List.init (String.length s) (fun i -> Printf.sprintf "%02x" (Char.code s.[i])))

(* ---------- keys ---------- *)
let keys : zkeys ref = ref { zk_piece = (fun _ _ _ -> N0); zk_castle = (fun _ _ -> N0); zk_ep = (fun _ -> N0); zk_black = N0 }
let load_keys file =
  let ic = open_in file in
  let line () = Array.of_list (List.map n_of_dec (List.filter (fun s -> s <> "") (String.split_on_char ' ' (input_line ic)))) in
  let ps = line () in let cs = line () in let es = line () in let bk = (line ()).(0) in
  close_in ic;
  let ci = function White -> 0 | Black -> 1 in
  let ti = function Pawn -> 0 | Knight -> 1 | Bishop -> 2 | Rook -> 3 | Queen -> 4 | King -> 5 in
  let ri = function Neither -> 0 | QueenSide -> 1 | KingSide -> 2 | BothSides -> 3 in
  keys := { zk_piece = (fun c t s -> ps.(ci c * 384 + ti t * 64 + int_of_n s));
            zk_castle = (fun c r -> cs.(ci c * 4 + ri r));
            zk_ep = (fun f -> es.(int_of_n f)); zk_black = bk }

(* ---------- descriptors ---------- *)
let piece_of_char ch : (ptype * color) option =
  if ch = '.' then None else
  let c = if Char.uppercase_ascii ch = ch then White else Black in
  let t = match Char.uppercase_ascii ch with 'P' -> Pawn | 'N' -> Knight | 'B' -> Bishop | 'R' -> Rook | 'Q' -> Queen | _ -> King in
  Some (t, c)
let char_of_piece = function
  | None -> '.'
  | Some (t, c) ->
    let l = match t with Pawn -> 'P' | Knight -> 'N' | Bishop -> 'B' | Rook -> 'R' | Queen -> 'Q' | King -> 'K' in
    if c = White then l else Char.lowercase_ascii l
let cr_of_int = function 0 -> Neither | 1 -> QueenSide | 2 -> KingSide | _ -> BothSides
let int_of_cr = function Neither -> 0 | QueenSide -> 1 | KingSide -> 2 | BothSides -> 3
let builder_of_desc (d : string) : builder =
  match String.split_on_char ',' d with
  | [pl; stm; wr; br; ep; half; full] ->
    { bd_pieces = List.init 64 (fun i -> piece_of_char pl.[i]); bd_stm = (if stm = "w" then White else Black);
      bd_wr = cr_of_int (int_of_string wr); bd_br = cr_of_int (int_of_string br);
      bd_ep = (if ep = "-" then None else Some (n_of_int (int_of_string ep)));
      bd_half = n_of_dec half; bd_full = n_of_dec full }
  | _ -> failwith ("bad descriptor " ^ d)
let pos_of_desc (d : string) : pos =
  let b = builder_of_desc d in
  { placement = b.bd_pieces; stm = b.bd_stm; rights_w = b.bd_wr; rights_b = b.bd_br; ep = b.bd_ep; half = b.bd_half; full = b.bd_full }
let desc_key d = match String.split_on_char ',' d with [pl; stm; wr; br; ep; _; _] -> String.concat "," [pl; stm; wr; br; ep] | _ -> d
let build_cache : (string, board res) Hashtbl.t = Hashtbl.create 100000
let build (d : string) : board res =
  match Hashtbl.find_opt build_cache d with
  | Some r -> r
  | None -> let r = try_from_builder !keys (builder_of_desc d) in
    if Hashtbl.length build_cache > 400000 then Hashtbl.reset build_cache;
    Hashtbl.add build_cache d r; r
let describe (b : board) : string =
  let pl = String.init 64 (fun i -> match piece_on b (n_of_int i) with Ok p -> char_of_piece p | _ -> '?') in
  String.concat "," [pl; (if b.b_stm = White then "w" else "b"); string_of_int (int_of_cr b.b_wr); string_of_int (int_of_cr b.b_br);
                     (match b.b_ep with None -> "-" | Some s -> string_of_int (int_of_n s)); dec_of_n b.b_half; dec_of_n b.b_full]
let cls = function Ok _ -> "ok" | Err _ -> "err" | Panic -> "panic"

let mv_str m = string_of_bytes (print_bmove m)
let status_str = function BOngoing -> "ongoing" | BCheckMated White -> "mated-w" | BCheckMated Black -> "mated-b"
  | BTheoreticalDraw -> "theoretical" | BFiftyMoves -> "fifty" | BStalemate -> "stalemate"
let sstatus_str = function Ongoing -> "ongoing" | CheckMated White -> "mated-w" | CheckMated Black -> "mated-b"
  | TheoreticalDraw -> "theoretical" | FiftyMovesDraw -> "fifty" | Stalemate -> "stalemate"
let gstatus_str s = let c = function White -> "w" | Black -> "b" in match s with
  | GOngoing -> "ongoing" | GDrawOffered x -> "offered-" ^ c x | GCheckMated x -> "mated-" ^ c x | GResigned x -> "resigned-" ^ c x
  | GFiftyMoves -> "fifty" | GTheoreticalDraw -> "theoretical" | GRepetition -> "repetition" | GDrawAccepted -> "accepted" | GStalemate -> "stalemate"
let res_str f = function Ok x -> f x | Err _ -> "ERR" | Panic -> "PANIC"

(* ---------- output ---------- *)
let diff_oc = ref stdout
let stats : (string, int) Hashtbl.t = Hashtbl.create 64
let bump k = Hashtbl.replace stats k (1 + (try Hashtbl.find stats k with Not_found -> 0))
let ndiff = ref 0
let nt_tab : (string, unit) Hashtbl.t = Hashtbl.create 100000
let nontrivial (key : string) = Hashtbl.replace nt_tab (Digest.to_hex (Digest.string key)) ()
let report tag id field exp got line =
  incr ndiff; bump ("diff:" ^ field);
  if !ndiff <= 20000 then Printf.fprintf !diff_oc "D|%s|%s|%s|exp=%s|got=%s|%s\n" tag id field exp got line

let fields_of (toks : string list) : (string * string) list =
  List.filter_map (fun t -> match String.index_opt t '=' with
      | Some i -> Some (String.sub t 0 i, String.sub t (i + 1) (String.length t - i - 1)) | None -> None) toks

(* ---------- B records ---------- *)
let sorted_moves (b : board) : (string * bmove) list res =
  match legal_moves !keys b with
  | Ok l -> Ok (List.sort (fun (a, _) (b, _) -> compare a b) (List.map (fun m -> (mv_str m, m)) l))
  | Err e -> Err e | Panic -> Panic
let san_of b m = match move_props !keys m b with Ok p -> string_of_bytes (san_string m p) | Err _ -> "ERR" | Panic -> "PANIC"

let universe : bmove list Lazy.t = lazy (
  let types = [Pawn; Knight; Bishop; Rook; Queen; King] in
  let promos = [None; Some Knight; Some Bishop; Some Rook; Some Queen; Some King] in
  let sqs = List.init 64 n_of_int in
  List.concat_map (fun t -> List.concat_map (fun a -> List.concat_map (fun d ->
      List.map (fun p -> MovePiece { pm_type = t; pm_from = a; pm_to = d; pm_promo = p }) promos) sqs) sqs) types
  @ [CastleK; CastleQ])

let spec_every = ref 0
let nB = ref 0

(* ---------- semantic readings of the presentation texts (what the properties say, not the model's exact bytes) ----------
   used only when the library's text differs from the model's: if the text still says what the property requires, the
   difference is a broken tie (reported under a "-shape" field), not a failing input *)
let lines_of s = String.split_on_char '\n' s
let strip_non_ascii s = String.concat "" (List.map (fun c -> if Char.code c < 128 then String.make 1 c else "") (List.init (String.length s) (String.get s)))
let no_blanks s = String.concat "" (String.split_on_char ' ' s)
let lower = String.lowercase_ascii
let contains hay needle =
  let n = String.length needle and h = String.length hay in
  let rec go i = i + n <= h && (String.sub hay i n = needle || go (i + 1)) in n = 0 || go 0
(* board rendering: a header naming side to move and rights, 8 labelled rank rows in the stated order whose 8 equal-width
   cells hold the piece letter or blanks, a legend of the files in the stated order *)
let render_says (text : string) (cell : int -> int -> char) (stm : color) (rights : string) (flipped : bool) : bool =
  let ls = List.filter (fun l -> String.trim (strip_non_ascii l) <> "") (lines_of text) in
  match ls with
  | [] -> false
  | header :: rest ->
    let hl = lower header in
    let side_ok = (match stm with White -> contains hl "white" && not (contains hl "black") | Black -> contains hl "black" && not (contains hl "white")) in
    let rights_ok = contains (no_blanks header) rights in
    let rows = List.filter (fun l -> let t = String.trim (strip_non_ascii l) in t <> "" && t.[0] >= '1' && t.[0] <= '8') rest in
    let labels = List.map (fun l -> (String.trim (strip_non_ascii l)).[0]) rows in
    let want_labels = if flipped then ['1';'2';'3';'4';'5';'6';'7';'8'] else ['8';'7';'6';'5';'4';'3';'2';'1'] in
    let row_ok l =
      let t = strip_non_ascii l in
      let i = ref 0 in while !i < String.length t && t.[!i] = ' ' do incr i done;
      let r = Char.code t.[!i] - 49 in
      (* the cells are what stands between the first and the last non-ASCII delimiter, or after the label *)
      let first_na = (let k = ref (-1) in String.iteri (fun j c -> if !k < 0 && Char.code c >= 128 then k := j) l; !k) in
      let last_na = (let k = ref (-1) in String.iteri (fun j c -> if Char.code c >= 128 then k := j) l; !k) in
      let body = if first_na >= 0 && last_na > first_na then strip_non_ascii (String.sub l first_na (last_na - first_na)) else String.sub t (!i + 1) (String.length t - !i - 1) in
      let n = String.length body in
      n > 0 && n mod 8 = 0 &&
      (let w = n / 8 in
       List.for_all (fun k -> let c = String.trim (String.sub body (k * w) w) in
                      let f = if flipped then 7 - k else k in
                      let want = cell r f in
                      if want = '.' then c = "" else c = String.make 1 want) [0;1;2;3;4;5;6;7]) in
    let legend_ok = List.exists (fun l -> no_blanks (strip_non_ascii l) = (if flipped then "hgfedcba" else "abcdefgh")) rest in
    side_ok && rights_ok && labels = want_labels && List.for_all row_ok rows && legend_ok
(* bitboard grid: 8 rows of 8 marks over a two-symbol alphabet, eighth rank on top, a-file on the left *)
let bb_grid_says (text : string) (is_set : int -> bool) : bool =
  let rows = List.filter (fun l -> l <> "") (List.map no_blanks (lines_of text)) in
  List.length rows = 8 && List.for_all (fun r -> String.length r = 8) rows &&
  (let marks = List.concat (List.mapi (fun i r -> List.init 8 (fun f -> (((7 - i) * 8 + f), r.[f]))) rows) in
   let set_marks = List.sort_uniq compare (List.filter_map (fun (s, c) -> if is_set s then Some c else None) marks)
   and clear_marks = List.sort_uniq compare (List.filter_map (fun (s, c) -> if is_set s then None else Some c) marks) in
   List.length set_marks <= 1 && List.length clear_marks <= 1 && (set_marks = [] || clear_marks = [] || set_marks <> clear_marks))
(* move list: the SAN texts in order as separate tokens; a move number (consecutive from 1) before every White move and
   before a Black first move, where it is followed by the continuation dots; dots nowhere else *)
type mtok = Num of int | Dots | Mv of string
let movelist_says (text : string) (sans : string list) (white_first : bool) : bool =
  let toks = List.filter (fun t -> t <> "") (String.split_on_char ' ' (String.concat " " (lines_of text))) in
  let items = List.concat_map (fun t ->
      let n = String.length t in
      let i = ref 0 in while !i < n && t.[!i] >= '0' && t.[!i] <= '9' do incr i done;
      let j = ref !i in while !j < n && t.[!j] = '.' do incr j done;
      if !i > 0 && !j > !i then
        (Num (int_of_string (String.sub t 0 !i)) :: (if !j - !i > 1 then [Dots] else [])) @ (if !j < n then [Mv (String.sub t !j (n - !j))] else [])
      else if !i = 0 && !j = n then [Dots]
      else [Mv t]) toks in
  let expected = List.concat (List.mapi (fun k s ->
      if white_first then (if k mod 2 = 0 then [Num (k / 2 + 1); Mv s] else [Mv s])
      else if k = 0 then [Num 1; Dots; Mv s]
      else if k mod 2 = 1 then [Num ((k + 3) / 2); Mv s] else [Mv s]) sans) in
  items = expected
let check_B line toks =
  let fs = fields_of toks in
  let get k = List.assoc_opt k fs in
  let id = match get "id" with Some x -> x | None -> "?" in
  let exp field e = match get field with
    | Some g -> if g <> e then report "B" id field e g line
    | None -> () in
  let exp_req field e = match get field with
    | Some g -> if g <> e then report "B" id field e g line
    | None -> report "B" id field e "<missing>" line in
  bump "B-records";
  (* the library's own invariant monitor must be quiet on every board the library lets exist, whatever the model thinks of it *)
  (match get "mon" with Some "ok" | None -> () | Some x -> report "B" id "mon" "ok" x line);
  (* construction from the generator's descriptor *)
  (match get "src" with
   | Some src ->
     bump "B-starts";
     let r = build src in
     exp_req "acc" (cls r); exp_req "acc2" (cls r);
     (* the property itself: construction never panics, whatever the model says *)
     (match get "acc" with Some "panic" -> report "B" id "acc-panic" "ok-or-err" "panic" line | _ -> ());
     (match get "acc2" with Some "panic" -> report "B" id "acc-panic" "ok-or-err" "panic" line | _ -> ());
     bump ("start-" ^ cls r);
     (match r with
      | Ok b -> exp "paths" "ok";
        (match get "d" with Some g -> if g <> describe b then report "B" id "d-of-src" (describe b) g line | None -> ())
      | _ -> ())
   | None -> ());
  (* transition *)
  (match get "prev", get "mv" with
   | Some p, Some mv ->
     bump "B-transitions";
     (match build p, parse_bmove (bytes_of_string mv) with
      | Ok pb, Ok m ->
        (match make_move !keys pb m with
         | Ok nb ->
           exp_req "forms" "ok";
           (match get "d" with
            | Some g -> if g <> describe nb then report "B" id "succ" (describe nb) g line
            | None -> report "B" id "succ" (describe nb) "<none>" line)
         | Err _ -> report "B" id "succ" "model-rejects-move" (match get "d" with Some g -> g | None -> "<none>") line
         | Panic -> report "B" id "succ" "model-panics" "" line)
      | r, _ -> report "B" id "prev-build" "ok" (cls r) line)
   | _ -> ());
  (* derived observables of the reported position *)
  (match get "d" with
   | None -> ()
   | Some d ->
     (match build d with
      | Ok b ->
        incr nB;
        exp "tm" (String.concat "," (List.map hex_of_n [b.m_pawn; b.m_knight; b.m_bishop; b.m_rook; b.m_queen; b.m_king]));
        exp "cm" (hex_of_n b.m_white ^ "," ^ hex_of_n b.m_black);
        exp "all" (hex_of_n b.m_all);
        exp "hash" (hex_of_n b.b_hash);
        exp "rehash" (hex_of_n b.b_hash);
        exp "pin" (hex_of_n b.b_pinned);
        exp "chk" (hex_of_n b.b_checks);
        exp "term" (if b.b_term then "1" else "0");
        exp "st" (res_str status_str (get_status b));
        exp "td" (res_str (fun x -> if x then "1" else "0") (is_theoretical_draw b));
        exp "ksq" (match king_square b White, king_square b Black with
            | Ok w, Ok k -> Printf.sprintf "%d,%d" (int_of_n w) (int_of_n k) | _ -> "PANIC");
        exp "nodup" "1"; exp "refen" "ok"; exp "resetup" "ok"; exp "rebuilder" "ok"; exp "disp" "ok";
        let ms = sorted_moves b in
        (match ms with
         | Ok ms ->
           exp "moves" (String.concat "," (List.map fst ms));
           (match get "sans" with
            | Some _ -> exp "sans" (String.concat "," (List.map (fun (_, m) -> san_of b m) ms));
              let ss = List.map (fun (_, m) -> san_of b m) ms in
              if List.length (List.sort_uniq compare ss) <> List.length ss then report "B" id "san-unique" "distinct" "collision" line
            | None -> ());
           (match get "sanill" with
            | Some v when v <> "" ->
              let probes = String.split_on_char ',' v in
              let e = List.map (fun pr ->
                  let mvt = match String.index_opt pr ':' with Some i -> String.sub pr 0 i | None -> pr in
                  let r = match parse_bmove (bytes_of_string mvt) with
                    | Ok mv -> (match move_props !keys mv b with Ok _ -> "OK" | Err _ -> "ERR" | Panic -> "PANIC")
                    | _ -> "UNPARSED" in
                  mvt ^ ":" ^ r) probes in
              exp "sanill" (String.concat "," e)
            | _ -> ());
           (* features *)
           if b.b_checks <> N0 || b.b_pinned <> N0 || b.b_ep <> None || b.b_term || b.b_wr <> Neither || b.b_br <> Neither
              || List.exists (fun (_, m) -> match m with MovePiece pm -> pm.pm_promo <> None | _ -> false) ms then nontrivial ("B" ^ d);
           if b.b_checks <> N0 then bump "feat:in-check";
           if int_of_n (popcount b.b_checks) >= 2 then bump "feat:double-check";
           if b.b_pinned <> N0 then bump "feat:pinned";
           if int_of_n (popcount b.b_pinned) >= 2 then bump "feat:two-pinned";
           if b.b_ep <> None then bump "feat:ep-square";
           if b.b_term then bump "feat:terminal";
           if List.exists (fun (_, m) -> m = CastleK || m = CastleQ) ms then bump "feat:castling-legal";
           if List.exists (fun (_, m) -> match m with MovePiece pm -> pm.pm_promo <> None | _ -> false) ms then bump "feat:promotion-legal";
           if List.exists (fun (_, m) -> match m with MovePiece pm -> pm.pm_type = Pawn && Some pm.pm_to = b.b_ep | _ -> false) ms then bump "feat:ep-legal";
           if b.b_ep <> None && not (List.exists (fun (_, m) -> match m with MovePiece pm -> pm.pm_type = Pawn && Some pm.pm_to = b.b_ep | _ -> false) ms)
           then bump "feat:ep-not-capturable";
           if b.b_wr <> Neither || b.b_br <> Neither then bump "feat:rights-held";
           if (b.b_wr <> Neither || b.b_br <> Neither) && not (List.exists (fun (_, m) -> m = CastleK || m = CastleQ) ms) then bump "feat:rights-but-no-castling"
         | _ -> exp "moves" "PANIC");
        exp "cq" (res_str (fun r -> string_of_int (int_of_cr r)) (castling_available b None));
        exp "fen" (res_str string_of_bytes (as_fen b));
        (match get "rs" with
         | Some _ ->
           let cellc r f = (match piece_on b (n_of_int (r * 8 + f)) with
               | Ok (Some (t, c)) -> let ch = (string_of_bytes (letter t)).[0] in (match c with White -> Char.uppercase_ascii ch | Black -> Char.lowercase_ascii ch)
               | _ -> '.') in
           let rights = String.uppercase_ascii (string_of_bytes (print_cr b.b_wr)) ^ string_of_bytes (print_cr b.b_br) in
           let one field flipped model =
             (match get field, model with
              | Some got, Ok m ->
                let e = tohex (string_of_bytes m) in
                if got <> e then begin
                  if got <> "PANIC" && render_says (unhex got) cellc b.b_stm rights flipped then report "B" id (field ^ "-shape") e got line
                  else report "B" id field e got line end
              | Some got, _ -> report "B" id field "model-panic" got line
              | None, _ -> ()) in
           one "rs" false (render_straight b); one "rf" true (render_flipped b)
         | None -> ());
        (match get "muni" with
         | Some _ ->
           let sqs = List.init 64 n_of_int in
           let cands = List.concat_map (fun s ->
               match piece_on b s with
               | Ok (Some (t, c)) when c = b.b_stm ->
                 List.concat_map (fun dd -> List.map (fun pr -> MovePiece { pm_type = t; pm_from = s; pm_to = dd; pm_promo = pr }) [None; Some Queen; Some Knight]) sqs
               | _ -> []) sqs @ [CastleK; CastleQ] in
           let l = List.filter (fun m -> match is_legal_move !keys b m with Ok true -> true | _ -> false) cands in
           exp "muni" (String.concat "," (List.sort compare (List.map mv_str l)));
           exp "munibad" "0"
         | None -> ());
        (match get "uni" with
         | Some _ ->
           bump "B-universe";
           let l = List.filter (fun m -> match is_legal_move !keys b m with Ok true -> true | _ -> false) (Lazy.force universe) in
           exp "uni" (String.concat "," (List.sort compare (List.map mv_str l)));
           exp "unibad" "0";
           (* the model's legality test never panics on the universe and agrees with its own generator *)
           if List.exists (fun m -> match is_legal_move !keys b m with Panic -> true | _ -> false) (Lazy.force universe)
           then report "B" id "model-uni-panic" "none" "panic" line
         | None -> ());
        (* spec cross-check: the mailbox rules against the bitboard model (what the refinement theorems claim) *)
        if !spec_every > 0 && !nB mod !spec_every = 0 then begin
          bump "spec-crosschecks";
          let p = pos_of_desc d in
          if not (valid p) then report "B" id "spec-valid" "true" "false" line;
          let sm = List.sort compare (List.map mv_str (gen p)) in
          (match ms with Ok ms -> if sm <> List.map fst ms then report "B" id "spec-moves" (String.concat "," sm) (String.concat "," (List.map fst ms)) line | _ -> ());
          (match get_status b with Ok s -> if sstatus_str (board_status p) <> status_str s then report "B" id "spec-status" (sstatus_str (board_status p)) (status_str s) line | _ -> ());
          let ck = List.fold_left (fun acc s -> Int64.logor acc (Int64.shift_left 1L (int_of_n s))) 0L (checkers p p.stm) in
          if ck <> int64_of_n b.b_checks then report "B" id "spec-checks" (Printf.sprintf "%016Lx" ck) (hex_of_n b.b_checks) line;
          (match get "prev", get "mv" with
           | Some pd, Some mv ->
             (match parse_bmove (bytes_of_string mv) with
              | Ok m -> let pp = pos_of_desc pd in
                if not (legal pp m) then report "B" id "spec-legal" "true" "false" line
                else begin
                  let np = apply pp m in
                  let nd = String.concat "," [String.init 64 (fun i -> char_of_piece (List.nth np.placement i)); (if np.stm = White then "w" else "b");
                                              string_of_int (int_of_cr np.rights_w); string_of_int (int_of_cr np.rights_b);
                                              (match np.ep with None -> "-" | Some s -> string_of_int (int_of_n s)); dec_of_n np.half; dec_of_n np.full] in
                  if nd <> d then report "B" id "spec-succ" nd d line
                end
              | _ -> ())
           | _ -> ())
        end
      | r ->
        (* the library produced / accepted a position the model's constructor rejects *)
        report "B" id "build" "ok" (cls r) line))

(* ---------- G records ---------- *)
type gnode = { g : game; std : bool; sync : bool }
let gtab : (string, gnode) Hashtbl.t = Hashtbl.create 100000
let std_desc = "RNBQKBNRPPPPPPPP................................pppppppprnbqkbnr,w,3,3,-,0,1"
let parse_action (s : string) : action option =
  let col x = if x = "w" then White else Black in
  match String.split_on_char ':' s with
  | ["m"; t] -> (match parse_bmove (bytes_of_string t) with Ok m -> Some (MakeMove m) | _ -> None)
  | ["od"; c] -> Some (OfferDraw (col c)) | ["rs"; c] -> Some (Resign (col c))
  | ["ad"] -> Some AcceptDraw | ["dd"] -> Some DeclineDraw | _ -> None
let squeeze s =
  (* normalise whitespace: every run of space / newline becomes one space *)
  let b = Buffer.create (String.length s) in
  let sp = ref false in
  String.iter (fun c -> if c = ' ' || c = '\n' || c = '\r' then sp := true else begin if !sp then Buffer.add_char b ' '; sp := false; Buffer.add_char b c end) s;
  Buffer.contents b
let amb_str = function ExtraFile -> "ExtraFile" | ExtraRank -> "ExtraRank" | ExtraSquare -> "ExtraSquare" | AmbNeither -> "Neither"
let rec last = function [] -> None | [x] -> Some x | _ :: r -> last r

let check_G line toks =
  let fs = fields_of toks in
  let get k = List.assoc_opt k fs in
  let id = match get "id" with Some x -> x | None -> "?" in
  bump "G-records";
  (* the library's own export -> import round trip needs no model: it is checked on every record that carries it, also after
     the model and the library have parted ways *)
  (match get "rt" with Some "ok" | None -> () | Some x -> report "G" id "rt" "ok" x line);
  (* likewise the other observations the library makes about itself: a rejected action changes nothing, the last recorded
     position is the current one, the game's getters agree with the board's *)
  (match get "unch" with Some "changed" -> report "G" id "unch" "ok" "changed" line | _ -> ());
  (match get "lasteq" with Some "ok" | None -> () | Some x -> report "G" id "lasteq" "ok" x line);
  (match get "getters" with Some "ok" | None -> () | Some x -> report "G" id "getters" "ok" x line);
  let node : gnode option =
    match get "parent" with
    | Some "-" ->
      let src = match get "src" with Some s -> s | None -> "" in
      (match build src with
       | Ok b -> (match game_from_board b with
           | Ok g -> (match get "res" with Some "ok" -> () | Some r -> report "G" id "res" "ok" r line | None -> ());
             Some { g; std = (src = std_desc); sync = true }
           | _ -> report "G" id "res" "model-panic" "" line; None)
       | _ -> (match get "res" with Some "noboard" -> () | Some r -> report "G" id "res" "noboard" r line | None -> ()); None)
    | Some pid ->
      (match Hashtbl.find_opt gtab pid with
       | None -> bump "G-skipped-no-parent"; None
       | Some pn when not pn.sync -> bump "G-skipped-desync"; None
       | Some pn ->
         (match get "act" with
          | None -> None
          | Some a ->
            (match parse_action a with
             | None -> report "G" id "act" "parsable" a line; None
             | Some act ->
               bump ("act:" ^ (match String.index_opt a ':' with Some i -> String.sub a 0 i | None -> a));
               let r = game_step !keys pn.g act in
               let rs = match r with Ok _ -> "ok" | Err EIllegalAction -> "illegal-action" | Err EFinished -> "finished" | Err _ -> "other" | Panic -> "panic" in
               bump ("res:" ^ rs);
               (match get "res" with Some g -> if g <> rs then report "G" id "res" rs g line | None -> ());
               (match get "unch" with Some u -> let e = (match r with Ok _ -> "na" | _ -> "ok") in if u <> e then report "G" id "unch" e u line | None -> ());
               (match r with Ok g' -> Some { pn with g = g' } | Panic -> None | Err _ -> Some pn))))
    | None -> None in
  match node with
  | None -> ()
  | Some nd ->
    let g = nd.g in
    nontrivial ("G" ^ id);
    let exp field e = match get field with Some got -> if got <> e then report "G" id field e got line | None -> () in
    (match get "gs" with
     | None -> Hashtbl.replace gtab id { nd with sync = false }
     | Some _ ->
       let dm = describe g.g_pos in
       let sync = (get "d" = Some dm) in
       if not sync then begin bump "G-desync"; report "G" id "gd" dm (match get "d" with Some x -> x | None -> "") line end;
       Hashtbl.replace gtab id { nd with sync };
       if sync then begin
         bump ("gs:" ^ gstatus_str g.g_status);
         exp "gs" (gstatus_str g.g_status);
         exp "tag" (string_of_bytes (print_rtag g.g_tag));
         exp "txt" (string_of_bytes (print_gstatus g.g_status));
         exp "bst" (res_str status_str (get_status g.g_pos));
         let np = List.length g.g_positions and nm = List.length g.g_moves in
         exp "np" (string_of_int np); exp "nm" (string_of_int nm); exp "nmeta" (string_of_int (List.length g.g_meta));
         exp "cnt" (dec_of_n (position_counter g g.g_pos));

         (match last g.g_moves, last g.g_meta with
          | Some m, Some p -> exp "last" (mv_str m);
            exp "fl" (Printf.sprintf "%d%d%d%s" (if p.mp_capture then 1 else 0) (if p.mp_check then 1 else 0) (if p.mp_mate then 1 else 0) (amb_str p.mp_amb))
          | _ -> ());
         let pom i = match get_position_on_move g (n_of_int i) with Ok _ -> "ok" | _ -> "err" in
         exp "pom" (String.concat "," [pom 0; pom (max 0 (np - 1)); pom np; pom (np + 1)]);
         (match get "hist", history_string g with
          | Some got, Ok m ->
            let e = tohex (string_of_bytes m) in
            if got <> e then begin
              let white_first = (match g.g_positions with p0 :: _ -> p0.b_stm = White | [] -> true) in
              if got <> "PANIC" && movelist_says (unhex got) (List.map string_of_bytes (san_list g)) white_first then report "G" id "hist-shape" e got line
              else report "G" id "hist" e got line end
          | Some got, _ -> report "G" id "hist" "model-panic" got line
          | None, _ -> ());
         (match get "cnts" with
          | Some got ->
            exp "cnts" (String.concat "," (List.map (fun p -> dec_of_n (position_counter g p)) g.g_positions));
            (* true occurrences, independent of any hash: count equal position keys in the reported history *)
            (match get "hl" with
             | Some hl ->
               let ds = String.split_on_char ';' hl in
               let ks = List.map desc_key ds in
               let truth = String.concat "," (List.map (fun k -> string_of_int (List.length (List.filter (fun x -> x = k) ks))) ks) in
               if truth <> got then report "G" id "cnts-true" truth got line;
               exp "hl" (String.concat ";" (List.map describe g.g_positions));
               if List.exists (fun k -> List.length (List.filter (fun x -> x = k) ks) >= 2) ks then bump "feat:history-with-repeat";
               if List.exists (fun k -> List.length (List.filter (fun x -> x = k) ks) >= 3) ks then bump "feat:history-with-threefold"
             | None -> ());
            exp "mvl" (String.concat "," (List.map mv_str g.g_moves))
          | None -> ());
         (match get "pgn" with
          | Some got ->
            bump "G-pgn";

            (match as_pgn_unwrapped g with
             | Ok p -> let e = squeeze (string_of_bytes p) and gt = squeeze (unhex got) in
               if e <> gt then report "G" id "pgn" (tohex e) (tohex gt) line
             | _ -> report "G" id "pgn" "model-panic" got line);
            (* the hypothesis of C15_text_roundtrip: the exported text is the model's unwrapped text with some blanks of the
               move list turned into line ends (header, the blank before the result and the result token untouched) *)
            (match as_pgn_unwrapped g with
             | Ok p ->
               let e = string_of_bytes p and a = unhex got in
               let hl = List.length (default_tags g.g_tag) + 1 and tl = 1 + List.length (print_rtag g.g_tag) in
               let n = String.length e in
               let ok = String.length a = n && n >= hl + tl &&
                        (let r = ref true in
                         for i = 0 to n - 1 do
                           if a.[i] <> e.[i] then begin
                             if i < hl || i >= n - tl then r := false
                             else if not ((a.[i] = ' ' || a.[i] = '\n') && (e.[i] = ' ' || e.[i] = '\n')) then r := false
                           end
                         done; !r) in
               if not ok then report "G" id "export-shape" (tohex e) got line
             | _ -> ());
            (* text level: the model's tokeniser + replay on the text the library exported reproduces the game *)
            (match from_pgn_text !keys (bytes_of_string (unhex got)) with
             | Ok (g2, tag2) ->
               let want = (match g.g_status with GDrawOffered _ -> GOngoing | s -> s) in
               if List.map mv_str g2.g_moves <> List.map mv_str g.g_moves then report "G" id "model-import" "same-moves" "differs" line
               else if g2.g_status <> want then report "G" id "model-import" (gstatus_str want) (gstatus_str g2.g_status) line
               else if List.map describe g2.g_positions <> List.map describe g.g_positions then report "G" id "model-import" "same-positions" "differs" line
               else if string_of_bytes tag2 <> string_of_bytes (print_rtag g.g_tag) then report "G" id "model-import" (string_of_bytes (print_rtag g.g_tag)) (string_of_bytes tag2) line
             | Err _ -> report "G" id "model-import" "ok" "err" line
             | Panic -> report "G" id "model-import" "ok" "panic" line);
            (* model-internal: import after tokenisation reproduces the game (what C15_tokens claims) *)
            (match build std_desc with
             | Ok sb -> (match game_from_board sb with
                 | Ok g0 ->
                   let tag = (match g.g_tag with TagOpen -> None | t -> Some t) in
                   (match from_pgn_tokens !keys g0 (san_list g) tag with
                    | Ok g2 ->
                      let want = (match g.g_status with GDrawOffered _ -> GOngoing | s -> s) in
                      if List.map mv_str g2.g_moves <> List.map mv_str g.g_moves || g2.g_status <> want
                         || List.map describe g2.g_positions <> List.map describe g.g_positions
                      then report "G" id "model-rt" "same" "differs" line
                    | _ -> report "G" id "model-rt" "ok" "err" line)
                 | _ -> ())
             | _ -> ())
          | None -> ())
       end)

(* ---------- S / F / N / M / T / P records ---------- *)
let check_S line toks =
  let fs = fields_of toks in
  let get k = List.assoc_opt k fs in
  let id = match get "id" with Some x -> x | None -> "?" in
  bump "S-records";
  let s = bytes_of_string (unhex (match get "in" with Some x -> x | None -> "")) in
  let exp field e = match get field with Some got -> if got <> e then report "S" id field e got line | None -> () in
  let mv = match parse_bmove s with
    | Ok m -> let t = print_bmove m in
      let rp = (match parse_bmove t with Ok m2 -> if bmove_eqb m m2 then "same" else "other" | Err _ -> "err" | Panic -> "panic") in
      bump "S-mv-ok"; "ok:" ^ string_of_bytes t ^ ":" ^ rp
    | Err _ -> "err" | Panic -> "panic" in
  exp "mv" mv;
  List.iter (fun k -> match get k with Some "panic" -> report "S" id (k ^ "-panic") "ok-or-err" "panic" line | _ -> ()) ["mv"; "sq"; "fl"; "rk"; "pt"];
  (let raw = unhex (match get "in" with Some x -> x | None -> "") in
   let accepted = List.exists (fun k -> match get k with Some v -> String.length v > 1 && String.sub v 0 2 = "ok" | None -> false) ["mv"; "sq"; "fl"; "rk"; "pt"] in
   if accepted || String.contains raw '=' || List.exists (fun c -> Char.code c >= 128) (List.init (String.length raw) (String.get raw)) then nontrivial ("S" ^ raw));
  let r f = function Ok x -> "ok:" ^ f x | Err _ -> "err" | Panic -> "panic" in
  let ni x = string_of_int (int_of_n x) in
  exp "sq" (r ni (parse_sq s)); exp "fl" (r ni (parse_file s)); exp "rk" (r ni (parse_rank s));
  exp "pt" (r (fun t -> string_of_int (match t with Pawn -> 0 | Knight -> 1 | Bishop -> 2 | Rook -> 3 | Queen -> 4 | King -> 5)) (parse_pt s))
let check_F line toks =
  let fs = fields_of toks in
  let get k = List.assoc_opt k fs in
  let id = match get "id" with Some x -> x | None -> "?" in
  bump "F-records";
  let s = bytes_of_string (unhex (match get "in" with Some x -> x | None -> "")) in
  let exp field e = match get field with Some got -> if got <> e then report "F" id field e got line | None -> () in
  let fen = match from_fen !keys s with
    | Ok b -> bump "F-accepted"; (match as_fen b with Ok t -> "ok:" ^ string_of_bytes t | _ -> "panic")
    | Err _ -> bump "F-rejected"; "err" | Panic -> "panic" in
  (match parse_fen s with Ok _ -> nontrivial ("F" ^ (match get "in" with Some x -> x | None -> "")) | _ -> ());
  exp "fen" fen; exp "gfen" "same";
  (match get "fen" with Some "panic" -> report "F" id "fen-panic" "ok-or-err" "panic" line | _ -> ());
  (match get "bfen" with Some "panic" -> report "F" id "fen-panic" "ok-or-err" "panic" line | _ -> ());
  exp "bfen" (match parse_fen s with Ok bd -> "ok:" ^ string_of_bytes (print_fen bd) | Err _ -> "err" | Panic -> "panic")
let check_N line toks =
  let fs = fields_of toks in
  let get k = List.assoc_opt k fs in
  let id = match get "id" with Some x -> x | None -> "?" in
  bump "N-records"; nontrivial ("N" ^ id);
  (match get "pgn" with Some "panic" -> report "N" id "pgn" "ok-or-err" "panic" line | Some x -> bump ("N-" ^ x) | None -> ());
  (match get "slow" with Some "yes" -> report "N" id "slow" "no" "yes" line | _ -> ());
  (* the model's Game::from_pgn on the same bytes: outcome, error kind, imported moves, status, position, Result tag *)
  (match get "in", get "pgn" with
   | Some inp, Some got when got <> "panic" ->
     let raw = unhex inp in
     let ascii = not (List.exists (fun c -> Char.code c >= 128) (List.init (String.length raw) (String.get raw))) in
     let exp field e = match get field with Some g -> if g <> e then report "N" id ("imp-" ^ field) e g line | None -> report "N" id ("imp-" ^ field) e "absent" line in
     (match from_pgn_text !keys (bytes_of_string raw) with
      | Panic -> report "N" id "imp" "ok-or-err" "model-panic" line
      | Err e -> bump "N-model-err";
        if got <> "err" then report "N" id "imp" "err" got line
        else exp "ek" (match e with EPgn -> "pgn" | EIllegalAction -> "illegal-action" | EFinished -> "finished" | _ -> "other")
      | Ok (g, tag) -> bump "N-model-ok"; bump ("N-imported-" ^ gstatus_str g.g_status);
        if g.g_moves <> [] then bump "N-imported-with-moves";
        if got <> "ok" then report "N" id "imp" "ok" got line
        else begin
          exp "gs" (gstatus_str g.g_status);
          exp "mvl" (String.concat "," (List.map mv_str g.g_moves));
          exp "d" (describe g.g_pos);
          exp "np" (string_of_int (List.length g.g_positions));
          if ascii then exp "tag" (tohex (string_of_bytes tag)) else bump "N-nonascii-tag-skipped"
        end)
   | _ -> ())
(* R records: the regex crate applied to the source's own patterns — compared with the model's matcher *)
let check_R line toks =
  let fs = fields_of toks in
  let get k = List.assoc_opt k fs in
  let id = match get "id" with Some x -> x | None -> "?" in
  bump "R-records";
  (match get "err" with Some e -> report "R" id "re-patterns" "found" e line | None -> ());
  (match get "in" with
   | None -> ()
   | Some inp ->
     let raw = unhex inp in
     nontrivial ("R" ^ inp);
     let s = bytes_of_string raw in
     let ascii = not (List.exists (fun c -> Char.code c >= 128) (List.init (String.length raw) (String.get raw))) in
     let exp field e = match get field with Some g -> if g <> e then report "R" id ("re-" ^ field) e g line | None -> () in
     let toks = scan_moves s in
     if toks <> [] then bump "R-with-move-token";
     exp "mv" (String.concat "," (List.map (fun t -> tohex (string_of_bytes t)) toks));
     exp "res" (match scan_result s with None -> "-" | Some t -> bump "R-with-result"; string_of_bytes (print_rtag t));
     exp "sp" (match moves_part s with None -> "none" | Some b -> bump "R-with-split"; "ok:" ^ tohex (string_of_bytes b));
     if ascii then begin
       let tg = scan_tags s O in
       if tg <> [] then bump "R-with-tag";
       exp "tg" (String.concat "," (List.map (fun (k, v) -> tohex (string_of_bytes k) ^ "=" ^ tohex (string_of_bytes v)) tg)) end)
let check_M line toks =
  let fs = fields_of toks in
  let get k = List.assoc_opt k fs in
  let id = match get "id" with Some x -> x | None -> "?" in
  bump "M-records"; nontrivial ("M" ^ (match get "d" with Some x -> x | None -> id));
  (match get "d", get "fd", get "md" with
   | Some d, Some fd, Some md ->
     let show (p : pos) = String.concat "," [String.init 64 (fun i -> char_of_piece (List.nth p.placement i)); (if p.stm = White then "w" else "b");
         string_of_int (int_of_cr p.rights_w); string_of_int (int_of_cr p.rights_b);
         (match p.ep with None -> "-" | Some s -> string_of_int (int_of_n s)); dec_of_n p.half; dec_of_n p.full] in
     let p = pos_of_desc d in
     let f = show (flip p) and m = show (mirror p) in
     if f <> fd then report "M" id "flip-image" f fd line;
     if m <> md then report "M" id "mirror-image" m md line
   | _ -> ());
  (match get "flip" with Some "ok" -> () | Some x -> report "M" id "flip" "ok" x line | None -> ());
  (match get "mirror" with Some "ok" -> bump "M-mirror" | Some "na" -> () | Some x -> report "M" id "mirror" "ok" x line | None -> ())
let check_T line toks =
  bump "T-records";
  match toks with
  | [name; idx; v] ->
    nontrivial ("T" ^ name ^ idx);
    let ix = List.map int_of_string (String.split_on_char ',' idx) in
    let s = n_of_int (List.hd ix) in
    let some x = dec_of_n x in
    let e = match name, ix with
      | "knight", _ -> some (look kNIGHT_T s) | "king", _ -> some (look kING_T s) | "bishop", _ -> some (look bISHOP_T s)
      | "rook", _ -> some (look rOOK_T s) | "queen", _ -> some (look qUEEN_T s)
      | "pawn_push_w", _ -> some (pawn_push White s) | "pawn_push_b", _ -> some (pawn_push Black s)
      | "pawn_dbl_w", _ -> some (pawn_double White s) | "pawn_dbl_b", _ -> some (pawn_double Black s)
      | "pawn_cap_w", _ -> some (pawn_cap White s) | "pawn_cap_b", _ -> some (pawn_cap Black s)
      | "ray", [_; k] -> some (List.nth (rays s) k)
      | "between", [_; j] -> (match between s (n_of_int j) with Some x -> some x | None -> "none")
      | _ -> "?" in
    if e <> v then report "T" (name ^ "[" ^ idx ^ "]") name e v line
  | _ -> ()

let res_n f = function Ok x -> "ok:" ^ f x | Err _ -> "err" | Panic -> "panic"
let ni x = string_of_int (int_of_n x)
let check_P line toks =
  bump "P-records";
  match toks with
  | f :: a :: rest ->
    let v = String.concat "|" rest in
    nontrivial ("P" ^ f ^ a);
    let ai = (try int_of_string a with _ -> -1) in
    let an = (if ai >= 0 then n_of_int ai else N0) in
    let two () = match String.split_on_char ',' a with [x; y] -> (int_of_string x, int_of_string y) | _ -> (0, 0) in
    let tstr t = string_of_bytes (letter t) in
    let e : string option = match f with
      | "sq_new" -> Some (res_n ni (sq_new an))
      | "sq_text" -> Some (string_of_bytes (print_sq an))
      | "sq_parse_text" -> Some (res_n ni (parse_sq (print_sq an)))
      | "sq_rank" -> Some (ni (rank an)) | "sq_file" -> Some (ni (file an))
      | "sq_up" -> Some (res_n ni (sq_up an)) | "sq_down" -> Some (res_n ni (sq_down an))
      | "sq_left" -> Some (res_n ni (sq_left an)) | "sq_right" -> Some (res_n ni (sq_right an))
      | "sq_light" -> Some (if is_light an then "1,0" else "0,1")
      | "sq_index" -> Some a | "sq_from_rank_file" -> Some (ni (mk_sq (rank an) (file an)))
      | "sq_offsets" -> let (x, y) = two () in Some (Printf.sprintf "%d,%d" (y / 8 - x / 8) (y mod 8 - x mod 8))
      | "file_from_index" -> Some (res_n (fun x -> ni x ^ ":" ^ String.make 1 (Char.chr (97 + int_of_n x))) (idx8_of an))
      | "rank_from_index" -> Some (res_n (fun x -> ni x ^ ":" ^ String.make 1 (Char.chr (49 + int_of_n x))) (idx8_of an))
      | "color_from_index" -> Some (res_n (fun c -> match c with White -> "0:white" | Black -> "1:black") (color_of_index an))
      | "ptype_from_index" -> Some (res_n (fun t -> a ^ ":" ^ tstr t) (ptype_of_index an))
      | "cr_from_index" -> Some (res_n (fun r -> ni (cr_index r) ^ ":" ^ (match r with Neither -> "" | QueenSide -> "q" | KingSide -> "k" | BothSides -> "kq")) (cr_of_index an))
      | "file_left" | "rank_down" -> Some (res_n ni (idx_down an))
      | "file_right" | "rank_up" -> Some (res_n ni (idx_up an))
      | "file_parse_text" -> Some (res_n ni (parse_file [n_of_int (97 + ai)]))
      | "rank_parse_text" -> Some (res_n ni (parse_rank [n_of_int (49 + ai)]))
      | "bb_from_file" -> Some (hex_of_n (bb_from_file an)) | "bb_from_rank" -> Some (hex_of_n (bb_from_rank an))
      | "color_not" -> Some (string_of_int (1 - ai))
      | "color_ranks" -> Some (if ai = 0 then "0,7" else "7,0")
      | "ptype_parse_text" -> (match ptype_of_index an with Ok t -> Some (res_n (fun t -> string_of_int (match t with Pawn -> 0 | Knight -> 1 | Bishop -> 2 | Rook -> 3 | Queen -> 4 | King -> 5)) (parse_pt (letter t))) | _ -> None)
      | "ptype_parse_lower" -> (match ptype_of_index an with Ok t -> Some (res_n (fun t -> string_of_int (match t with Pawn -> 0 | Knight -> 1 | Bishop -> 2 | Rook -> 3 | Queen -> 4 | King -> 5)) (parse_pt (bytes_of_string (String.lowercase_ascii (tstr t))))) | _ -> None)
      | "file_parse_str" | "rank_parse_str" | "sq_parse_str" | "ptype_parse_str" ->
        let s = bytes_of_string (unhex a) in
        let q f = function Ok x -> "ok:" ^ f x | Err _ -> "err" | Panic -> "panic" in
        Some (match f with
            | "file_parse_str" -> q ni (parse_file s) | "rank_parse_str" -> q ni (parse_rank s) | "sq_parse_str" -> q ni (parse_sq s)
            | _ -> q (fun t -> string_of_int (match t with Pawn -> 0 | Knight -> 1 | Bishop -> 2 | Rook -> 3 | Queen -> 4 | King -> 5)) (parse_pt s))
      | "ptype_iter" -> Some "0,1,2,3,4,5"
      | "cr_has" -> let r = cr_of_int ai in Some (Printf.sprintf "%d,%d,%d" (if has_kingside r then 1 else 0) (if has_queenside r then 1 else 0) (if r <> Neither then 1 else 0))
      | "cr_text" -> Some (match cr_of_int ai with Neither -> "" | QueenSide -> "q" | KingSide -> "k" | BothSides -> "kq")
      | "cr_add" -> let (x, y) = two () in Some (string_of_int (int_of_cr (cr_add (cr_of_int x) (cr_of_int y))))
      | "cr_sub" -> let (x, y) = two () in Some (string_of_int (int_of_cr (cr_sub (cr_of_int x) (cr_of_int y))))
      | "cr_assign" -> let (x, y) = two () in Some (Printf.sprintf "%d,%d" (int_of_cr (cr_add (cr_of_int x) (cr_of_int y))) (int_of_cr (cr_sub (cr_of_int x) (cr_of_int y))))
      | "gstatus_text" ->
        let c x = if x = "w" then White else Black in
        let st = (match String.split_on_char '-' a with
            | ["ongoing"] -> Some GOngoing | ["fifty"] -> Some GFiftyMoves | ["theoretical"] -> Some GTheoreticalDraw | ["repetition"] -> Some GRepetition
            | ["accepted"] -> Some GDrawAccepted | ["stalemate"] -> Some GStalemate
            | ["offered"; x] -> Some (GDrawOffered (c x)) | ["mated"; x] -> Some (GCheckMated (c x)) | ["resigned"; x] -> Some (GResigned (c x)) | _ -> None) in
        (match st with Some s -> Some (string_of_bytes (print_gstatus s)) | None -> None)
      | "bb" ->
        let x = n_of_hex a in
        let osq = function None -> "-" | Some s -> ni s in
        Some (String.concat "|" [String.concat "," (List.map ni (bits x)); ni (popcount x); osq (first_bit_square x); osq (last_bit_square x);
                                 (match to_square x with Ok s -> ni s | _ -> "panic"); (if x = N0 then "1" else "0")])
      | "bb_render" -> Some (tohex (string_of_bytes (render_bb (n_of_hex a))))
      | "bb_ops" -> (match String.split_on_char ',' a with
          | [x; y] -> let (x, y) = (Int64.of_string ("0x" ^ x), Int64.of_string ("0x" ^ y)) in
            Some (Printf.sprintf "%016Lx,%016Lx,%016Lx,%016Lx" (Int64.logand x y) (Int64.logor x y) (Int64.logxor x y) (Int64.lognot x))
          | _ -> None)
      | "mvtext" ->
        let m = (match String.split_on_char ',' a with
            | ["K"] -> Some CastleK | ["Q"] -> Some CastleQ
            | [t; s; d; p] ->
              let pt i = (match ptype_of_index (n_of_int (int_of_string i)) with Ok t -> t | _ -> Pawn) in
              Some (MovePiece { pm_type = pt t; pm_from = n_of_int (int_of_string s); pm_to = n_of_int (int_of_string d); pm_promo = (if p = "-" then None else Some (pt p)) })
            | _ -> None) in
        (match m with
         | Some m -> let t = print_bmove m in
           Some (string_of_bytes t ^ ":" ^ (match parse_bmove t with Ok m2 -> if bmove_eqb m m2 then "same" else "other" | Err _ -> "err" | Panic -> "panic"))
         | None -> None)
      | "pmove_new_pawn_promo" -> Some "err"
      | _ -> None in
    (match e with
     | Some e when e <> v && f = "mvtext" && (let n = String.length v in n >= 5 && String.sub v (n - 5) 5 = ":same") ->
       (* C16 fixes the round trip, not the text: the library's own round trip holds, only the text differs from the model's *)
       report "P" (f ^ "(" ^ a ^ ")") (f ^ "-shape") e v line
     | Some e when e <> v && f = "bb_render" && bb_grid_says (unhex v) (fun sq -> List.mem sq (List.map int_of_n (bits (n_of_hex a)))) ->
       report "P" (f ^ "(" ^ a ^ ")") (f ^ "-shape") e v line
     | Some e when e <> v && f = "gstatus_text" &&
                   (let lv = lower v in
                    match String.split_on_char '-' a with
                    | ["mated"; x] | ["resigned"; x] -> let win, lose = (if x = "w" then ("black", "white") else ("white", "black")) in contains lv win && not (contains lv lose)
                    | _ -> true) ->
       report "P" (f ^ "(" ^ a ^ ")") (f ^ "-shape") e v line
     | Some e -> if e <> v then report "P" (f ^ "(" ^ a ^ ")") f e v line
     | None -> bump "P-unknown"; report "P" (f ^ "(" ^ a ^ ")") f "<oracle has no such function>" v line)
  | _ -> ()

(* cross-check of the extraction: the same closed terms are evaluated by vm_compute inside Coq (vcheck writes XCheck.v) *)
let xcheck () =
  let fens = List.tl (List.tl (List.tl (Array.to_list Sys.argv))) in
  List.iter (fun f ->
    let k0 = { zk_piece = (fun c t s -> n_of_int (1 + (match c with White -> 0 | Black -> 1))); zk_castle = (fun _ _ -> n_of_int 0); zk_ep = (fun _ -> n_of_int 0); zk_black = n_of_int 5 } in
    let r = match from_fen k0 (bytes_of_string f) with
      | Ok b -> Printf.sprintf "%s %d %s %s %s" (dec_of_n b.b_hash)
                  (match legal_moves k0 b with Ok l -> List.length l | _ -> 999)
                  (dec_of_n b.b_pinned) (dec_of_n b.b_checks) (match get_status b with Ok BOngoing -> "0" | Ok (BCheckMated _) -> "1" | Ok BStalemate -> "2" | Ok _ -> "3" | _ -> "9")
      | _ -> "rejected" in
    print_endline r) fens

let () =
  load_keys Sys.argv.(1);
  if Array.length Sys.argv > 2 && Sys.argv.(2) = "--xcheck" then (xcheck (); exit 0);
  let ic = open_in Sys.argv.(2) in
  diff_oc := open_out Sys.argv.(3);
  if Array.length Sys.argv > 5 then spec_every := int_of_string Sys.argv.(5);
  (try while true do
       let line = input_line ic in
       (match String.split_on_char '|' line with
        | "B" :: toks -> check_B line toks
        | "G" :: toks -> check_G line toks
        | "S" :: toks -> check_S line toks
        | "F" :: toks -> check_F line toks
        | "N" :: toks -> check_N line toks
        | "R" :: toks -> check_R line toks
        | "X" :: toks ->
          let fs = fields_of toks in
          bump "X-records";
          report "X" (match List.assoc_opt "id" fs with Some x -> x | None -> "?") "harness-crash" "no panic outside the guarded observations"
            (match List.assoc_opt "where" fs with Some x -> x | None -> "?") line
        | "M" :: toks -> check_M line toks
        | "T" :: toks -> check_T line toks
        | "P" :: toks -> check_P line toks
        | _ -> bump "unknown-records")
     done with End_of_file -> ());
  close_out !diff_oc;
  let oc = open_out Sys.argv.(4) in
  Hashtbl.iter (fun k v -> Printf.fprintf oc "%s %d\n" k v) stats;
  Printf.fprintf oc "diffs %d\n" !ndiff;
  close_out oc;
  let st = Sys.argv.(4) in
  let ntf = (if Filename.check_suffix st ".stats" then Filename.chop_suffix st ".stats" else st) ^ ".nt" in
  let oc = open_out ntf in
  Hashtbl.iter (fun k () -> output_string oc k; output_char oc '\n') nt_tab;
  close_out oc
