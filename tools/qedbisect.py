#!/usr/bin/env python3
"""dev aid: compile every Qed-terminated prefix of a .v file in parallel and print which prefixes time out.
usage: qedbisect.py file.v [timeout-seconds]   (scratch files under /tmp/scratch, removed afterwards)"""
import re,subprocess,sys,os,shutil,time
from concurrent.futures import ThreadPoolExecutor
f=sys.argv[1]; to=int(sys.argv[2]) if len(sys.argv)>2 else 60
s=open(f).read(); d='/tmp/scratch/qb'; shutil.rmtree(d,ignore_errors=True); os.makedirs(d)
idx=[m.end() for m in re.finditer(r'\bQed\.', s)]
def closing(t):
    opened=re.findall(r'^\s*Section (\w+)\.',t,re.M); closed=re.findall(r'^\s*End (\w+)\.',t,re.M)
    return "".join(f"\nEnd {x}." for x in reversed([o for o in opened if o not in closed]))
def run(i):
    t=s[:idx[i]]; p=f'{d}/p{i:03d}.v'; open(p,'w').write(t+closing(t)+"\n")
    t0=time.time(); r=subprocess.run(['timeout',str(to),'coqc','-Q','/verif/coq','LC',p],capture_output=True,text=True)
    name=re.findall(r'(?:Lemma|Theorem|Corollary|Example|Fact)\s+(\w+)',t)[-1]
    return i,name,r.returncode,time.time()-t0,(r.stderr.strip().splitlines() or [''])[0:3]
with ThreadPoolExecutor(16) as ex:
    for i,name,rc,dt,err in ex.map(run,range(len(idx))):
        print(f'{i:3d} {name:30s} rc={rc} {dt:6.1f}s {" ".join(err) if rc not in (0,124) else ""}')
shutil.rmtree(d,ignore_errors=True)
