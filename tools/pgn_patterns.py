#!/usr/bin/env python3
"""translator: the regular expressions of Game::from_pgn, read from the Rust source, as Coq terms.

usage: pgn_patterns.py <path to src/games.rs> <output .v>

Every raw string literal of the file is collected; the four patterns are recognised by content (the move pattern
mentions O-O, the result pattern 1/2-1/2, the split pattern \\r?\\n, the tag pattern \\[ and \\w).  The move and result
patterns are parsed (classes, literals, groups, alternation, * and ? — the subset the model's matcher implements) into
the data type LC.model.Pgn.rsrc in a canonical shape (groups are transparent, sequences and alternations nest to the
right, adjacent unquantified literal bytes merge, a starred literal byte is a starred one-byte class).  The split and
tag patterns, which the model implements by direct functions, are emitted as their text with x-mode blanks and comments
removed.  coq/gen/PatternsOk.v then proves each regenerated term equal to the model's.  Anything outside the subset, a
missing or an ambiguous pattern makes the translator fail, which breaks the tie (never silently accepted)."""
import re, sys

class Unsupported(Exception): pass

def raw_literals(src):
    return [m.group(2) for m in re.finditer(r'\br(#*)"(.*?)"\1', src, flags=re.S)]

def strip_x(p):
    """remove the (?x) flag, and (outside classes) blanks and # comments"""
    if not p.startswith("(?x)"):
        return p
    p = p[4:]; out = []; i = 0; incls = False
    while i < len(p):
        c = p[i]
        if c == "\\" and i + 1 < len(p): out.append(p[i:i + 2]); i += 2; continue
        if incls:
            if c == "]": incls = False
            out.append(c); i += 1; continue
        if c == "[": incls = True; out.append(c); i += 1; continue
        if c in " \t\r\n": i += 1; continue
        if c == "#":
            while i < len(p) and p[i] != "\n": i += 1
            continue
        out.append(c); i += 1
    return "".join(out)

# ---- parser: alt := seq ('|' seq)* ; seq := item* ; item := atom ('*' | '?')? ; atom := group | class | byte
def parse(p):
    pos = 0
    def peek(): return p[pos] if pos < len(p) else None
    def alt():
        nonlocal pos
        branches = [seq()]
        while peek() == "|":
            pos += 1; branches.append(seq())
        return ("alt", branches) if len(branches) > 1 else branches[0]
    def seq():
        nonlocal pos
        items = []
        while peek() is not None and peek() not in "|)":
            a = atom()
            q = peek()
            if q in ("*", "?"):
                pos += 1
                if peek() in ("?", "+"): raise Unsupported("lazy / possessive quantifier")
                a = (("star" if q == "*" else "opt"), a)
            elif q in ("+", "{"):
                raise Unsupported("quantifier " + q)
            items.append(a)
        return ("seq", items)
    def atom():
        nonlocal pos
        c = peek()
        if c == "(":
            pos += 1
            if p.startswith("?:", pos): pos += 2
            elif peek() == "?": raise Unsupported("group flags")
            a = alt()
            if peek() != ")": raise Unsupported("unbalanced group")
            pos += 1
            return ("group", a)
        if c == "[":
            pos += 1; rs = []
            if peek() == "^": raise Unsupported("negated class")
            def cls_byte():
                nonlocal pos
                ch = peek()
                if ch == "\\":
                    pos += 1; ch = peek()
                    if ch is None or ch.isalnum(): raise Unsupported("class escape \\%s" % ch)
                pos += 1
                if ord(ch) > 127: raise Unsupported("non-ASCII class member")
                return ord(ch)
            while peek() is not None and peek() != "]":
                lo = cls_byte()
                if peek() == "-" and pos + 1 < len(p) and p[pos + 1] != "]":
                    pos += 1; hi = cls_byte()
                else: hi = lo
                rs.append((lo, hi))
            if peek() != "]": raise Unsupported("unterminated class")
            pos += 1
            return ("cls", rs)
        if c == "\\":
            pos += 1; ch = peek()
            if ch is None or ch.isalnum(): raise Unsupported("escape \\%s" % ch)
            pos += 1
            return ("byte", ord(ch))
        if c in ".^$": raise Unsupported("metacharacter " + c)
        if ord(c) > 127: raise Unsupported("non-ASCII literal")
        pos += 1
        return ("byte", ord(c))
    t = alt()
    if pos != len(p): raise Unsupported("trailing input at %d" % pos)
    return t

def canon(t):
    """canonical rsrc term as nested tuples"""
    k = t[0]
    if k == "group": return canon(t[1])
    if k == "byte": return ("SLit", [t[1]])
    if k == "cls": return ("SCls", t[1])
    if k == "opt": return ("SOpt", canon(t[1]))
    if k == "star":
        a = t[1]
        if a[0] == "cls": return ("SStar", a[1])
        if a[0] == "byte": return ("SStar", [(a[1], a[1])])
        raise Unsupported("star of a group")
    if k == "alt":
        bs = [canon(b) for b in t[1]]
        r = bs[-1]
        for b in reversed(bs[:-1]): r = ("SAlt", b, r)
        return r
    if k == "seq":
        items = []
        for it in t[1]:
            c = canon(it)
            if it[0] == "byte" and items and items[-1][0] == "SLit" and items[-1][2]:
                items[-1][1].extend(c[1])
            elif it[0] == "byte": items.append(["SLit", list(c[1]), True])
            else: items.append([c, None, False])
        out = [("SLit", i[1]) if i[0] == "SLit" else i[0] for i in items]
        if not out: raise Unsupported("empty sequence")
        r = out[-1]
        for b in reversed(out[:-1]): r = ("SSeq", b, r)
        return r
    raise Unsupported(k)

def coq(t):
    k = t[0]
    nl = lambda l: "[" + "; ".join(str(x) for x in l) + "]"
    rl = lambda l: "[" + "; ".join("(%d, %d)" % x for x in l) + "]"
    if k == "SLit": return "(SLit %s)" % nl(t[1])
    if k in ("SCls", "SStar"): return "(%s %s)" % (k, rl(t[1]))
    if k == "SOpt": return "(SOpt %s)" % coq(t[1])
    return "(%s %s %s)" % (k, coq(t[1]), coq(t[2]))

def main():
    src = open(sys.argv[1], errors="replace").read()
    lits = raw_literals(src)
    def pick(name, pred):
        c = [l for l in lits if pred(l)]
        if len(set(c)) != 1: raise Unsupported("%s pattern: %d candidates among the raw string literals of %s" % (name, len(set(c)), sys.argv[1]))
        return c[0]
    moves = pick("move", lambda l: "O-O" in l)
    result = pick("result", lambda l: "1/2-1/2" in l and "O-O" not in l)
    split = pick("split", lambda l: "\\r?\\n" in l or "\\n" in l and "{" in l)
    tag = pick("tag", lambda l: "\\[" in l and "\\w" in l)
    bl = lambda s: "[" + "; ".join(str(b) for b in s.encode()) + "]"
    out = ["(* gen/PgnPatterns.v — REGENERATED on every check by tools/pgn_patterns.py from the raw string literals of",
           "   src/games.rs: the move and result patterns as data, the split and tag patterns as text. *)",
           "Require Import LC.model.Prims LC.model.Text LC.model.Pgn.", "Open Scope N_scope.",
           "Definition gen_moves_src : rsrc := %s." % coq(canon(parse(strip_x(moves)))),
           "Definition gen_result_src : rsrc := %s." % coq(canon(parse(strip_x(result)))),
           "Definition gen_split_pattern_text : bytes := %s." % bl(strip_x(split)),
           "Definition gen_tag_pattern_text : bytes := %s." % bl(strip_x(tag)), ""]
    open(sys.argv[2], "w").write("\n".join(out))

if __name__ == "__main__":
    try:
        main()
    except Unsupported as e:
        sys.stderr.write("pgn_patterns: %s\n" % e); sys.exit(3)
