#!/usr/bin/env python3
"""writes MANIFEST.json from the table below (kept next to vcheck so the two never disagree)"""
import json, os
V = os.path.dirname(os.path.abspath(__file__))
CLAIMS = json.load(open(os.path.join(V, "claims.json")))
checks = []
for pid in sorted(CLAIMS):
    c = CLAIMS[pid]
    if c.get("not_applicable"): continue
    checks.append(dict(property_id=pid, quick_cmd="./vcheck %s quick" % pid, thorough_cmd="./vcheck %s thorough" % pid,
                       evidence_file="evidence/%s.json" % pid, replay_cmd_template="./vcheck replay {path}", engine="vcheck",
                       level_claimed=dict(category="proof", text=c["text"], design_ref=c.get("design_ref", "DESIGN.md §5 " + pid)),
                       level_note=c["note"], technique=c["technique"]))
m = dict(version=1, setup_cmd="./vcheck setup",
         hooks=dict(guard="libchess_verif",
                    enable="RUSTFLAGS=\"--cfg libchess_verif\" (set by vcheck for every build of /repo; no source hook was needed: every observation point is public API)",
                    baseline_off_cmd="cd /repo && cargo test --workspace --no-fail-fast --offline", source_commits=[], add_only=True),
         engines=[dict(name="vcheck", path="vcheck", serves_properties=[c["property_id"] for c in checks],
                       kind_free_text="Coq 8.16 development (coq/: model, spec, proofs, props) + regenerated table/key proofs + differential correspondence (Rust harness vs Coq-extracted OCaml oracle)")],
         checks=checks,
         notes="Every check rebuilds the harness against /repo's working tree, regenerates gen/ImplTables.v and gen/ZobristKeys.v from the running library and gen/PgnPatterns.v from src/games.rs, re-checks the property's Coq obligations (Print Assumptions must be closed), and runs the model/implementation correspondence. See DESIGN.md.",
         not_applicable=[dict(property_id=p, reason=CLAIMS[p]["not_applicable"]) for p in sorted(CLAIMS) if CLAIMS[p].get("not_applicable")])
json.dump(m, open(os.path.join(V, "MANIFEST.json"), "w"), indent=1)
print("MANIFEST.json: %d checks, %d not_applicable" % (len(checks), len(m["not_applicable"])))
