// harness — runs the library under /repo on generated inputs and writes canonical observation
// records, one per line, for the Coq-extracted oracle to recompute and compare.
// Nothing is written to stdout by this program (the library prints status lines there).
mod gens;
mod obs;
mod util;
use gens::*;
use libchess::*;
use obs::*;
use std::fs::File;
use std::io::{BufWriter, Write};
use std::str::FromStr;
use util::*;

fn tier_n(tier: &str, quick: usize, thorough: usize) -> usize { if tier == "thorough" { thorough } else { quick } }

// ---------------------------------------------------------------- board suite
fn suite_board(cx: &mut Ctx, tier: &str, shard: usize, nshards: usize, variant: &str) {
    let seeds: Vec<Desc> = SEED_FENS.iter().map(|f| Desc::from_fen(f)).collect();
    // corpus first: every seed, start position record + one BFS ply
    for (i, d) in seeds.iter().enumerate() {
        if i % nshards == shard { bfs(cx, d, 1, 400) }
    }
    if variant == "universe" {
        // C03: complete move universe on a small number of positions
        cx.uni_every = 1;
        let n = tier_n(tier, 96, 3000) / nshards + 1;
        let mut fam: Vec<Desc> = vec![];
        let mut frng = Rng::new(4242 + shard as u64);
        family_castling(&mut fam);
        let l = fam.len(); family_en_passant(&mut frng, l + 400, &mut fam);
        let l = fam.len(); family_promotion(&mut frng, l + 300, &mut fam);
        family_boxed(&mut frng, 200, &mut fam);
        family_ep_boxed(&mut frng, 100, &mut fam);
        family_ep_lines(&mut fam);
        for i in 0..n {
            let d = if i < seeds.len() && (i % nshards == shard) { seeds[i].clone() }
                    else if i % 3 != 0 { fam[cx.rng.below(fam.len())].clone() } else { synthetic(&mut cx.rng) };
            let id = cx.case_id();
            if let Some(b) = cx.start(&id, &d, false) {
                // and one random successor
                let ms = sorted_moves(&b);
                if !ms.is_empty() { let m = choose_move(&mut cx.rng, &b, &ms); cx.step(&id, 1, &b, &m); }
            }
        }
        return;
    }
    // G1 playouts from seeds
    let n_play = tier_n(tier, 160, 6000) / nshards + 1;
    for _ in 0..n_play {
        let d = seeds[cx.rng.below(seeds.len())].clone();
        let len = 10 + cx.rng.below(70);
        playout(cx, &d, len);
    }
    // G2 BFS
    let depth = tier_n(tier, 2, 3);
    for (i, d) in seeds.iter().enumerate() {
        if i % nshards == shard { bfs(cx, d, depth, tier_n(tier, 1500, 60000)) }
    }
    // G3 synthetic + corruptions
    let n_syn = tier_n(tier, 2500, 100000) / nshards + 1;
    for _ in 0..n_syn {
        let mut d = synthetic(&mut cx.rng);
        if cx.rng.chance(1, 3) { d = corrupt(&mut cx.rng, &d) }
        let len = cx.rng.below(7);
        playout(cx, &d, len);
    }
    // G4 families
    let mut fam: Vec<Desc> = vec![];
    family_sliders(&mut fam);
    family_castling(&mut fam);
    let mut frng = Rng::new(12345);
    let base = fam.len();
    family_en_passant(&mut frng, base + tier_n(tier, 1500, 40000), &mut fam);
    let base2 = fam.len();
    family_promotion(&mut frng, base2 + tier_n(tier, 800, 20000), &mut fam);
    let base3 = fam.len();
    family_boxed(&mut frng, tier_n(tier, 6000, 60000), &mut fam);
    let _ = base3;
    family_ep_boxed(&mut frng, tier_n(tier, 1200, 12000), &mut fam);
    let before_defects = fam.len();
    family_rights_defects(&mut fam);
    family_ep_defects(&mut fam);
    family_ep_lines(&mut fam);
    family_minor_stalemates(&mut fam);
    family_only_promotions(&mut fam);
    let n_defects = fam.len() - before_defects;
    family_crowded(&mut frng, tier_n(tier, 240, 4000), &mut fam);
    family_collinear(&mut fam);
    let stride = tier_n(tier, 6, 1);
    let off = cx.rng.below(stride);
    for (i, d) in fam.iter().enumerate() {
        if i % nshards != shard { continue }
        if (i / nshards) % stride != off && !(i >= before_defects && i < before_defects + n_defects) { continue }
        let id = cx.case_id();
        // positions with an en-passant square are, half of the time, reached by playing the double push
        if d.ep.is_some() && cx.rng.chance(1, 2) {
            if let Some((p, mt)) = predecessor_of_ep(d) {
                if let (Some(pb), Ok(m)) = (cx.start(&id, &p, false), BoardMove::from_str(&mt)) {
                    if pb.is_legal_move(&m) {
                        if let Some(nb) = cx.step(&id, 1, &pb, &m) {
                            let ms = sorted_moves(&nb);
                            if !ms.is_empty() { let m2 = choose_move(&mut cx.rng, &nb, &ms); cx.step(&id, 2, &nb, &m2); }
                        }
                        continue;
                    }
                }
            }
        }
        let id = cx.case_id();
        if let Some(b) = cx.start(&id, d, false) {
            if cx.rng.chance(1, 2) {
                let ms = sorted_moves(&b);
                if !ms.is_empty() { let m = choose_move(&mut cx.rng, &b, &ms); cx.step(&id, 1, &b, &m); }
            }
        }
    }
}

// ---------------------------------------------------------------- game suite
fn act_text(a: &Action) -> String {
    let c = |c: &Color| if *c == Color::White { "w" } else { "b" };
    match a {
        Action::MakeMove(m) => format!("m:{}", mv_text(m)),
        Action::OfferDraw(x) => format!("od:{}", c(x)),
        Action::AcceptDraw => "ad".into(),
        Action::DeclineDraw => "dd".into(),
        Action::Resign(x) => format!("rs:{}", c(x)),
    }
}
fn result_tag(g: &Game) -> String { g.get_metadata().get_value("Result".to_string()).cloned().unwrap_or_else(|| "MISSING".into()) }

#[derive(PartialEq)]
struct Snap { d: Desc, np: usize, nm: usize, cnts: Vec<usize>, st: String, tag: String, hash: u64 }
fn snap(g: &Game) -> Snap {
    let h = g.get_action_history();
    Snap {
        d: describe(&g.get_position()), np: h.get_positions().len(), nm: h.get_moves().len(),
        cnts: h.get_positions().iter().map(|p| g.get_position_counter(p)).collect(),
        st: gstatus_str(g.get_game_status()), tag: result_tag(g), hash: g.get_position().get_hash(),
    }
}

fn pgn_roundtrip(g: &Game) -> (String, String) {
    let pgn = match quiet(|| g.as_pgn()) { Ok(s) => s, Err(_) => return ("PANIC".into(), "export-panic".into()) };
    let r = match quiet(|| Game::from_pgn(&pgn)) {
        Err(_) => "import-panic".to_string(),
        Ok(Err(_)) => "import-err".to_string(),
        Ok(Ok(g2)) => {
            let (h1, h2) = (g.get_action_history(), g2.get_action_history());
            let want = match g.get_game_status() { GameStatus::DrawOffered(_) => GameStatus::Ongoing, s => s };
            if h1.get_moves() != h2.get_moves() { "moves-differ".into() }
            else if h1.get_positions().len() != h2.get_positions().len() || !h1.get_positions().iter().zip(h2.get_positions()).all(|(a, b)| all_equal(a, b)) { "positions-differ".into() }
            else if !all_equal(&g.get_position(), &g2.get_position()) { "current-differs".into() }
            else if g2.get_game_status() != want { format!("status-differs:{}", gstatus_str(g2.get_game_status())) }
            else if result_tag(g) != result_tag(&g2) { "tag-differs".into() }
            else { "ok".into() }
        }
    };
    (hex(&pgn), r)
}

// the raw string literals of src/games.rs (the patterns Game::from_pgn compiles), recognised by content like tools/pgn_patterns.py
fn source_patterns() -> Option<[String; 4]> {
    let src = std::fs::read_to_string("/repo/src/games.rs").ok()?;
    let b = src.as_bytes();
    let mut lits: Vec<String> = vec![];
    let mut i = 0;
    while i < b.len() {
        let ident_before = i > 0 && (b[i - 1].is_ascii_alphanumeric() || b[i - 1] == b'_');
        if b[i] == b'r' && !ident_before {
            let mut j = i + 1; let mut h = 0;
            while j < b.len() && b[j] == b'#' { h += 1; j += 1 }
            if j < b.len() && b[j] == b'"' {
                let start = j + 1;
                let close: Vec<u8> = std::iter::once(b'"').chain(std::iter::repeat(b'#').take(h)).collect();
                if let Some(k) = (start..=b.len().saturating_sub(close.len())).find(|&k| &b[k..k + close.len()] == &close[..]) {
                    lits.push(String::from_utf8_lossy(&b[start..k]).to_string());
                    i = k + close.len(); continue
                }
            }
        }
        i += 1;
    }
    let pick = |f: &dyn Fn(&str) -> bool| -> Option<String> {
        let mut c: Vec<&String> = lits.iter().filter(|l| f(l)).collect(); c.dedup();
        if c.len() == 1 { Some(c[0].clone()) } else { None } };
    Some([pick(&|l| l.contains("O-O"))?, pick(&|l| l.contains("1/2-1/2") && !l.contains("O-O"))?,
          pick(&|l| l.contains("\\r?\\n") || (l.contains("\\n") && l.contains("{")))?, pick(&|l| l.contains("\\[") && l.contains("\\w"))?])
}

// what the regex crate makes of a text under the four patterns of the source (tokens, first result, second piece of the split, tag pairs)
fn regex_obs(pats: &[regex::Regex; 4], s: &str) -> String {
    let mv: Vec<String> = pats[0].find_iter(s).map(|m| hex(m.as_str())).collect();
    let res = pats[1].find(s).map(|m| m.as_str().to_string()).unwrap_or_else(|| "-".into());
    let sp = pats[2].split(s).nth(1).map(|x| format!("ok:{}", hex(x))).unwrap_or_else(|| "none".into());
    let tg: Vec<String> = pats[3].captures_iter(s).map(|c| format!("{}={}", hex(&c[1]), hex(&c[2]))).collect();
    format!("mv={}|res={}|sp={}|tg={}", mv.join(","), res, sp, tg.join(","))
}

// what Game::from_pgn makes of a text: outcome, and for an accepted text the imported moves, status, result tag and position
fn pgn_import_obs(s: &str) -> (&'static str, String) {
    match quiet(|| Game::from_pgn(s)) {
        Err(_) => ("panic", String::new()),
        Ok(Err(e)) => ("err", format!("|ek={}", match e {
            errors::LibChessError::InvalidPGNString => "pgn",
            errors::LibChessError::IllegalActionDetected => "illegal-action",
            errors::LibChessError::GameIsAlreadyFinished => "finished",
            _ => "other" })),
        Ok(Ok(g)) => {
            let h = g.get_action_history();
            ("ok", format!("|gs={}|tag={}|mvl={}|d={}|np={}", gstatus_str(g.get_game_status()), hex(&result_tag(&g)),
                h.get_moves().iter().map(mv_text).collect::<Vec<_>>().join(","), describe(&g.get_position()).to_string(), h.get_positions().len()))
        }
    }
}

fn game_fields(g: &Game, fin: bool, std_start: bool) -> String {
    let mut f: Vec<String> = vec![];
    let h = g.get_action_history();
    let pos = g.get_position();
    f.push(format!("gs={}", gstatus_str(g.get_game_status())));
    f.push(format!("tag={}", result_tag(g)));
    f.push(format!("txt={}", format!("{}", g.get_game_status())));
    f.push(format!("d={}", describe(&pos).to_string()));
    f.push(format!("bst={}", match quiet(|| pos.get_status()) { Ok(s) => status_str(s), Err(_) => "PANIC" }));
    let (np, nm) = (h.get_positions().len(), h.get_moves().len());
    f.push(format!("np={}", np));
    f.push(format!("nm={}", nm));
    f.push(format!("nmeta={}", h.get_metadata().len()));
    f.push(format!("cnt={}", g.get_position_counter(&pos)));
    f.push(format!("lasteq={}", if np > 0 && all_equal(&h.get_positions()[np - 1], &pos) && all_equal(&h.get_last_position(), &pos) { "ok" } else { "differs" }));
    f.push(format!("getters={}", if g.get_legal_moves() == pos.get_legal_moves() && g.get_side_to_move() == pos.get_side_to_move()
        && g.get_move_number() == pos.get_move_number() && g.get_moves_since_capture_or_pawn_move() == pos.get_moves_since_capture_or_pawn_move()
        && g.as_fen() == pos.as_fen() { "ok" } else { "differs" }));
    if nm > 0 {
        let p = h.get_metadata()[nm - 1];
        f.push(format!("last={}", mv_text(&h.get_moves()[nm - 1])));
        f.push(format!("fl={}{}{}{}", p.is_capture as u8, p.is_check as u8, p.is_checkmate as u8, format!("{:?}", p.ambiguity_type)));
    }
    let pom = |i: usize| match h.get_position_on_move(i) { Ok(b) => if i < np && all_equal(&b, &h.get_positions()[i]) { "ok" } else { "wrong" }, Err(_) => "err" };
    f.push(format!("pom={},{},{},{}", pom(0), pom(np.saturating_sub(1)), pom(np), pom(np + 1)));
    f.push(format!("hist={}", match quiet(|| format!("{}", h)) { Ok(s) => hex(&s), Err(_) => "PANIC".into() }));
    if fin {
        f.push(format!("cnts={}", h.get_positions().iter().map(|p| g.get_position_counter(p).to_string()).collect::<Vec<_>>().join(",")));
        f.push(format!("hl={}", h.get_positions().iter().map(|p| describe(p).to_string()).collect::<Vec<_>>().join(";")));
        f.push(format!("mvl={}", h.get_moves().iter().map(mv_text).collect::<Vec<_>>().join(",")));
        if std_start {
            let (pgn, rt) = pgn_roundtrip(g);
            f.push(format!("pgn={}", pgn));
            f.push(format!("rt={}", rt));
        }
    }
    f.join("|")
}

struct GameCx<'a> { w: &'a mut dyn Write, rng: Rng, prefix: String, n: usize, std_roots: usize }
impl<'a> GameCx<'a> {
    fn node(&mut self) -> String { self.n += 1; format!("{}{}", self.prefix, self.n) }
    fn root(&mut self, d: &Desc) -> Option<(String, Game, bool)> {
        let id = self.node();
        let std_start = d.to_fen() == "rnbqkbnr/pppppppp/8/8/8/8/PPPPPPPP/RNBQKBNR w KQkq - 0 1";
        // the standard start is entered through Game::default() and through from_board alternately (the first time through default())
        let use_default = std_start && { self.std_roots += 1; self.std_roots % 2 == 1 };
        let g = if use_default { Some(Game::default()) } else {
            match d.build_setup() { Ok(Ok(b)) => quiet(|| Game::from_board(b)).ok(), _ => None }
        };
        match g {
            Some(g) => { writeln!(self.w, "G|id={}|parent=-|src={}|res=ok|{}", id, d.to_string(), game_fields(&g, true, std_start)).unwrap(); Some((id, g, std_start)) }
            None => { writeln!(self.w, "G|id={}|parent=-|src={}|res=noboard", id, d.to_string()).unwrap(); None }
        }
    }
    fn apply(&mut self, parent: &str, g: &Game, a: &Action, fin: bool, std_start: bool) -> (String, Game, bool) {
        let id = self.node();
        let mut g2 = g.clone();
        let before = snap(&g2);
        let r = quiet(|| g2.make_move(a).map(|_| ()));
        let (res, accepted) = match r {
            Ok(Ok(())) => ("ok".to_string(), true),
            Ok(Err(errors::LibChessError::IllegalActionDetected)) => ("illegal-action".into(), false),
            Ok(Err(errors::LibChessError::GameIsAlreadyFinished)) => ("finished".into(), false),
            Ok(Err(e)) => (format!("other:{:?}", e), false),
            Err(_) => ("panic".into(), false),
        };
        if res == "panic" { writeln!(self.w, "G|id={}|parent={}|act={}|res=panic", id, parent, act_text(a)).unwrap(); return (id, g.clone(), false) }
        let unch = if accepted { "na" } else if snap(&g2) == before { "ok" } else { "changed" };
        writeln!(self.w, "G|id={}|parent={}|act={}|res={}|unch={}|{}", id, parent, act_text(a), res, unch, game_fields(&g2, fin, std_start)).unwrap();
        (id, g2, accepted)
    }
}

fn alphabet(rng: &mut Rng, g: &Game, kmoves: usize) -> Vec<Action> {
    let mut v = vec![];
    let ms = sorted_moves(&g.get_position());
    if !ms.is_empty() {
        let mut idx: Vec<usize> = vec![0, ms.len() - 1];
        for _ in 2..kmoves { idx.push(rng.below(ms.len())) }
        idx.sort(); idx.dedup();
        for i in idx { v.push(Action::MakeMove(ms[i].1)) }
    }
    // one illegal move
    let bad = ["Ka1a8", "e2e5", "Nb1b3", "O-O", "O-O-O", "a7a8=K", "Qd1d8", "e7e8"];
    for t in bad.iter().cycle().skip(rng.below(8)).take(8) {
        let m = BoardMove::from_str(t).unwrap();
        if !ms.iter().any(|x| x.1 == m) { v.push(Action::MakeMove(m)); break }
    }
    v.extend([Action::OfferDraw(Color::White), Action::OfferDraw(Color::Black), Action::AcceptDraw, Action::DeclineDraw, Action::Resign(Color::White), Action::Resign(Color::Black)]);
    v
}

fn dfs(cx: &mut GameCx, id: &str, g: &Game, depth: usize, kmoves: usize, std_start: bool) {
    if depth == 0 { return }
    for a in alphabet(&mut cx.rng, g, kmoves) {
        let (nid, g2, _) = cx.apply(id, g, &a, depth == 1, std_start);
        dfs(cx, &nid, &g2, depth - 1, kmoves, std_start);
    }
}

const GAME_ROOTS: &[&str] = &[
    "rnbqkbnr/pppppppp/8/8/8/8/PPPPPPPP/RNBQKBNR w KQkq - 0 1",
    "7k/5Q2/5K2/8/8/8/8/8 w - - 0 1",          // mate in one / stalemate in one
    "k7/8/1K6/8/8/8/8/7R w - - 0 1",
    "4k3/8/8/8/8/8/4p3/4KN2 b - - 0 1",         // one capture from insufficient material
    "4k3/7p/8/8/8/8/8/R3K3 w Q - 98 60",        // fifty-move limit
    "4k3/8/8/8/8/8/8/R3K3 w Q - 99 60",
    "8/8/8/p3k3/P7/4K3/8/8 w - - 0 1",          // repetition shuffles
    "r3k2r/8/8/8/8/8/8/R3K2R b KQkq - 0 1",     // repetition with changing rights
    "4k3/8/8/8/8/8/8/4KB2 w - - 0 1",           // already drawn at the start
    "7k/8/5QK1/8/8/8/8/8 b - - 0 1",
    "4k3/8/8/3pP3/8/8/8/4K3 w - d6 0 2",        // en passant available at the start
    "rnbqkbnr/pppp1ppp/8/4p3/4P3/8/PPPP1PPP/RNBQKBNR b KQkq - 0 2", // black first, many moves
    "7k/8/8/8/8/8/8/K7 b - - 0 1",
    "5k2/8/8/8/8/8/8/4K2R w K - 0 1",            // castling gives check
    "r3k3/8/8/8/8/8/8/3K4 b q - 0 1",
    "4rkr1/4p1p1/8/8/8/8/8/4K2R w K - 0 1",      // castling gives mate
    "3k4/8/8/8/8/8/8/R3K3 w Q - 0 1",
    // a double pawn step after which the only legal reply is the en-passant capture (check / no other move): the recorded
    // mate flag, the terminal status and the continuation all hinge on that capture
    "5B2/8/5K2/7k/7p/7P/6P1/8 w - - 0 1",
    "k7/2Q5/8/8/3p4/3B4/4P3/4K3 w - - 0 1",
    "8/6p1/7p/7P/7K/5k2/8/5b2 b - - 0 1",
    "4k3/4p3/3b4/3P4/8/8/2q5/K7 b - - 0 1",
];

/// scripted openings from the standard start that create unusual material early (three knights, two or three queens
/// per side), so that random continuations meet the rarer short-notation forms
const PREFIXES: &[&str] = &[
    // a pawn capture and a bishop capture whose texts differ only in the case of the first letter (bxc3 / Bxc3, bxc6 / Bxc6)
    "d2d3 Ng8f6 Bc1d2 Nf6e4 a2a3 Ne4c3 b2c3 e7e5",
    "d2d3 Ng8f6 Bc1d2 Nf6e4 a2a3 Ne4c3 Bd2c3 e7e5",
    "Ng1f3 d7d6 Nf3e5 Bc8d7 Ne5c6 b7c6 e2e4",
    "Ng1f3 d7d6 Nf3e5 Bc8d7 Ne5c6 Bd7c6 e2e4",
    "f2f4 e7e5 f4e5 f7f5 e5f6 Ke8f7 f6g7 Bf8g7 Ng1h3 a7a6 e2e4 a6a5 Bf1e2 a5a4 O-O Kf7e8 d2d4",
    "d2d4 d7d5 Nb1c3 e7e5 Bc1f4 e5f4 Qd1d3 Ke8d7 d4d5 Kd7d6 Qd3e3 f4e3 O-O-O",
    "h2h4 g7g5 h4g5 a7a6 g5g6 b7b6 g6h7 Bc8b7 h7g8=N Nb8c6 Nb1c3 d7d6 Nc3e4 Qd8d7 Ng1f3 O-O-O Nf3e5 Kc8b8 Ne5g4 a6a5",
    "a2a4 b7b5 a4b5 h7h6 b5b6 g7g6 b6c7 Bf8g7 c7b8=Q Ng8f6 h2h4 g6g5 h4g5 O-O g5h6 a7a5 h6g7 a5a4 g7f8=Q Kg8h7",
    "h2h4 a7a5 h4h5 a5a4 h5h6 a4a3 h6g7 a3b2 g7h8=N b2a1=N Nb1c3 Nb8c6 Ng1f3 Ng8f6",
    "e2e4 d7d5 e4d5 c7c6 d5c6 Qd8c7 c6b7 Qc7c6 b7a8=Q Qc6a8 d2d4 e7e5 d4e5 f7f6 e5f6 g7f6",
    "g2g4 h7h5 g4h5 g7g6 h5g6 Bf8h6 g6g7 Bh6f4 g7h8=R f7f5 Rh1h7 e7e6 Rh7g7 Ke8f8",
];

fn random_game(cx: &mut GameCx, d: &Desc, len: usize, p_proto: u64) {
    random_game_from(cx, d, len, p_proto, None)
}

fn random_game_from(cx: &mut GameCx, d: &Desc, len: usize, p_proto: u64, prefix: Option<&str>) {
    let (mut id, mut g, std_start) = match cx.root(d) { Some(x) => x, None => return };
    if let Some(pf) = prefix {
        for t in pf.split(' ') {
            let m = match BoardMove::from_str(t) { Ok(m) => m, Err(_) => break };
            if !g.get_position().is_legal_move(&m) { break }
            let (nid, g2, _) = cx.apply(&id, &g, &Action::MakeMove(m), false, std_start);
            id = nid; g = g2;
        }
    }
    let mut seen: Vec<(Desc, BoardMove)> = vec![];
    let mut after_end = 0;
    for step in 0..len {
        let ms = sorted_moves(&g.get_position());
        let pending = matches!(g.get_game_status(), GameStatus::DrawOffered(_));
        let a = if pending && cx.rng.chance(3, 4) {
            if cx.rng.chance(2, 3) { Action::DeclineDraw } else if cx.rng.chance(3, 4) { Action::AcceptDraw } else { Action::Resign(Color::Black) }
        } else if cx.rng.chance(p_proto, 100) || ms.is_empty() {
            let al = alphabet(&mut cx.rng, &g, 2);
            al[cx.rng.below(al.len())].clone()
        } else {
            // repetition bias: prefer a move leading to a position key seen before
            let pos = g.get_position();
            let mut pick = None;
            if cx.rng.chance(1, 2) {
                for (_, m) in ms.iter() {
                    if let Ok(Ok(nb)) = quiet(|| pos.make_move(m)) {
                        let mut k = describe(&nb); k.half = 0; k.full = 0;
                        if seen.iter().any(|x| x.0 == k) && cx.rng.chance(1, 2) { pick = Some(*m); break }
                    }
                }
            }
            // a third of the time prefer a move whose short notation needs disambiguation
            if pick.is_none() && cx.rng.chance(1, 3) {
                let amb: Vec<BoardMove> = ms.iter().map(|x| x.1).filter(|m| match MovePropertiesOnBoard::new(m, &pos) {
                    Ok(p) => !matches!(p.ambiguity_type, DisplayAmbiguityType::Neither) && !matches!(m, BoardMove::MovePiece(pm) if pm.get_piece_type() == PieceType::Pawn),
                    Err(_) => false }).collect();
                if !amb.is_empty() { pick = Some(amb[cx.rng.below(amb.len())]) }
            }
            Action::MakeMove(pick.unwrap_or_else(|| {
                // prefer reversible moves so that repetitions occur
                let rev: Vec<&(String, BoardMove)> = ms.iter().filter(|x| matches!(x.1, BoardMove::MovePiece(pm) if pm.get_piece_type() != PieceType::Pawn && !pm.is_capture_on_board(&pos))).collect();
                if !rev.is_empty() && cx.rng.chance(2, 3) { rev[cx.rng.below(rev.len())].1 } else { ms[cx.rng.below(ms.len())].1 }
            }))
        };
        let finished = !matches!(g.get_game_status(), GameStatus::Ongoing | GameStatus::DrawOffered(_));
        if finished { after_end += 1 }
        let fin = step + 1 == len || after_end >= 2 || (step % 16 == 15);
        let (nid, g2, _) = cx.apply(&id, &g, &a, fin, std_start);
        let mut k = describe(&g2.get_position()); k.half = 0; k.full = 0;
        if let Action::MakeMove(m) = a { seen.push((k, m)) }
        id = nid; g = g2;
        if after_end >= 2 { break }
    }
}

/// both sides shuffle one piece back and forth so that positions recur (with whatever rights/ep state the shuffle
/// leaves), draw offers and declines interleaved
fn dance_game(cx: &mut GameCx, d: &Desc, cycles: usize, p_proto: u64, prelude_max: usize) {
    let (mut id, mut g, std_start) = match cx.root(d) { Some(x) => x, None => return };
    // a short random prelude
    for _ in 0..(if prelude_max == 0 { 0 } else { cx.rng.below(prelude_max) }) {
        let ms = sorted_moves(&g.get_position());
        if ms.is_empty() || !matches!(g.get_game_status(), GameStatus::Ongoing) { break }
        let m = ms[cx.rng.below(ms.len())].1;
        let (nid, g2, _) = cx.apply(&id, &g, &Action::MakeMove(m), false, std_start);
        id = nid; g = g2;
    }
    let rev = |b: &ChessBoard, rng: &mut Rng| -> Option<BoardMove> {
        let ms: Vec<BoardMove> = b.get_legal_moves().into_iter().filter(|m| matches!(m, BoardMove::MovePiece(pm) if pm.get_piece_type() != PieceType::Pawn && !pm.is_capture_on_board(b))).collect();
        // half of the time prefer a rook or king move while that side still holds a castling right (the shuffle then
        // revisits the placement with fewer rights, which must not count as a repetition)
        let heavy: Vec<BoardMove> = ms.iter().copied().filter(|m| matches!(m, BoardMove::MovePiece(pm) if pm.get_piece_type() == PieceType::Rook || pm.get_piece_type() == PieceType::King)).collect();
        if b.get_castle_rights(b.get_side_to_move()).has_any() && !heavy.is_empty() && rng.chance(1, 2) { return Some(heavy[rng.below(heavy.len())]) }
        if ms.is_empty() { None } else { Some(ms[rng.below(ms.len())]) }
    };
    let back = |m: &BoardMove| match m { BoardMove::MovePiece(pm) => BoardMove::MovePiece(PieceMove::new(pm.get_piece_type(), pm.get_destination_square(), pm.get_source_square(), None).unwrap()), x => *x };
    let a = match rev(&g.get_position(), &mut cx.rng) { Some(m) => m, None => return };
    let p1 = match quiet(|| g.get_position().make_move(&a)) { Ok(Ok(p)) => p, _ => return };
    let b = match rev(&p1, &mut cx.rng) { Some(m) => m, None => return };
    let cycle = [a, b, back(&a), back(&b)];
    let total = cycles * 4;
    for i in 0..total {
        if cx.rng.chance(p_proto, 100) && matches!(g.get_game_status(), GameStatus::Ongoing) {
            let c = if cx.rng.chance(1, 2) { Color::White } else { Color::Black };
            let (nid, g2, _) = cx.apply(&id, &g, &Action::OfferDraw(c), false, std_start); id = nid; g = g2;
            let (nid, g2, _) = cx.apply(&id, &g, &Action::DeclineDraw, false, std_start); id = nid; g = g2;
        }
        let fin = i + 1 == total || i % 8 == 7;
        let (nid, g2, _) = cx.apply(&id, &g, &Action::MakeMove(cycle[i % 4]), fin, std_start);
        id = nid; g = g2;
    }
    // one more action after the end
    let (_, _, _) = cx.apply(&id, &g, &Action::Resign(Color::White), true, std_start);
}

fn suite_game(w: &mut dyn Write, tier: &str, seed: u64, shard: usize, nshards: usize, variant: &str) {
    let mut cx = GameCx { w, rng: Rng::new(seed * 1000 + shard as u64), prefix: format!("g{}_", shard), n: 0, std_roots: 0 };
    let roots: Vec<Desc> = GAME_ROOTS.iter().map(|f| Desc::from_fen(f)).collect();
    if variant != "pgn" {
        let depth = tier_n(tier, 3, 4);
        for (i, d) in roots.iter().enumerate() {
            if i % nshards != shard { continue }
            if let Some((id, g, ss)) = cx.root(d) { dfs(&mut cx, &id, &g, depth, 3, ss) }
        }
        let n = tier_n(tier, 120, 4000) / nshards + 1;
        for _ in 0..n {
            let d = roots[cx.rng.below(roots.len())].clone();
            let len = 20 + cx.rng.below(180);
            random_game(&mut cx, &d, len, 6);
        }
        let n2 = tier_n(tier, 60, 2000) / nshards + 1;
        for _ in 0..n2 {
            let d = synthetic(&mut cx.rng);
            let len = 5 + cx.rng.below(60);
            random_game(&mut cx, &d, len, 10);
        }
        let n3 = tier_n(tier, 160, 4000) / nshards + 1;
        for i in 0..n3 {
            let d = if i % 2 == 0 { roots[cx.rng.below(roots.len())].clone() } else { Desc::from_fen(SEED_FENS[cx.rng.below(8)]) };
            let cycles = 2 + cx.rng.below(3);
            dance_game(&mut cx, &d, cycles, if i % 3 == 0 { 15 } else { 0 }, 6);
        }
        // scripted rook / king shuffles from positions with single-wing rights: the same placement recurs with the rights
        // gone on one side, then on both — occurrences that must not be added up
        const RIGHTS_SCRIPTS: &[(&str, &str)] = &[
            ("4k2r/8/8/8/8/8/8/4K2R w Kk - 0 1", "Rh1g1 Rh8g8 Rg1h1 Rg8h8 Rh1g1 Rh8g8 Rg1h1 Rg8h8 Rh1g1 Rh8g8 Rg1h1 Rg8h8"),
            ("r3k3/8/8/8/8/8/8/R3K3 w Qq - 0 1", "Ra1b1 Ra8b8 Rb1a1 Rb8a8 Ra1b1 Ra8b8 Rb1a1 Rb8a8 Ra1b1 Ra8b8 Rb1a1 Rb8a8"),
            ("r3k2r/8/8/8/8/8/8/R3K2R w KQkq - 0 1", "Rh1g1 Ra8b8 Rg1h1 Rb8a8 Ra1b1 Rh8g8 Rb1a1 Rg8h8 Rh1g1 Ra8b8 Rg1h1 Rb8a8"),
            ("r3k2r/8/8/8/8/8/8/R3K2R w KQkq - 0 1", "Ke1e2 Ke8e7 Ke2e1 Ke7e8 Ke1e2 Ke8e7 Ke2e1 Ke7e8 Ke1e2 Ke8e7 Ke2e1 Ke7e8"),
            ("4k2r/8/8/8/8/8/8/R3K3 w Qk - 0 1", "Ra1b1 Rh8g8 Rb1a1 Rg8h8 Ra1b1 Rh8g8 Rb1a1 Rg8h8 Ra1b1 Rh8g8 Rb1a1 Rg8h8"),
            ("r3k3/8/8/8/8/8/8/4K2R b Kq - 0 1", "Ra8b8 Rh1g1 Rb8a8 Rg1h1 Ra8b8 Rh1g1 Rb8a8 Rg1h1 Ra8b8 Rh1g1 Rb8a8 Rg1h1"),
        ];
        for (i, (fen, script)) in RIGHTS_SCRIPTS.iter().enumerate() {
            if i % nshards != shard { continue }
            random_game_from(&mut cx, &Desc::from_fen(fen), 2, 0, Some(script));
        }
        // a capture, then the same origin-destination move again onto the now empty square, reaching the same position:
        // the recorded flags and notation of the second one depend on the position it was played FROM
        const CAPTURE_LOOPS: &[(&str, &str)] = &[
            ("rnbqkbnr/pppppppp/8/8/8/8/PPPPPPPP/RNBQKBNR w KQkq - 0 1", "e2e4 e7e5 Ng1f3 Nb8c6 Nf3e5 Nc6b8 Ne5f3 Nb8c6 Nf3e5 Nc6e5"),
            ("4k3/8/8/8/8/8/r7/R3K3 w - - 0 1", "Ra1a2 Ke8d8 Ra2a1 Kd8e8 Ra1a2 Ke8d8"),
            ("r3k3/R7/8/8/8/8/8/4K3 b - - 0 1", "Ra8a7 Ke1d1 Ra7a8 Kd1e1 Ra8a7 Ke1d1"),
            ("4k3/8/8/8/8/2n5/8/1N2K3 w - - 0 1", "Nb1c3 Ke8d8 Nc3b1 Kd8e8 Nb1c3 Ke8d8"),
        ];
        // the start position itself as the repeated position, entered through Game::default() and through from_board
        if shard < 2 { for _ in 0..2 { dance_game(&mut cx, &roots[0], 3, 0, 0); } }
        for (i, (fen, script)) in CAPTURE_LOOPS.iter().enumerate() {
            if i % nshards != shard { continue }
            random_game_from(&mut cx, &Desc::from_fen(fen), 1, 0, Some(script));
        }
        // the fifty-move threshold and the third occurrence falling on the same or on neighbouring plies (precedence)
        let n4 = tier_n(tier, 48, 1200) / nshards + 1;
        for i in 0..n4 {
            let mut d = if i % 2 == 0 { roots[cx.rng.below(roots.len())].clone() } else { Desc::from_fen(SEED_FENS[cx.rng.below(8)]) };
            d.half = 89 + cx.rng.below(7) as u64;
            dance_game(&mut cx, &d, 3, 0, 0);
        }
    } else {
        // C15: games from the standard start in every ending mode
        let n = tier_n(tier, 300, 12000) / nshards + 1;
        let start = roots[0].clone();
        // castling tokens at the line-wrap limit: castling lines behind a varying number of rook-pawn moves; kept are the games
        // in whose unwrapped move list (independent of the wrapping code) a castling token does not fit on its line while
        // its part up to a hyphen would (a splitter that breaks at hyphens would cut it there)
        if shard == 0 {
            const CASTLE_LINES: [&str; 4] = [
                "e2e4 e7e5 Ng1f3 Nb8c6 Bf1c4 Bf8c5 O-O Ng8f6 d2d3 O-O Nb1c3 d7d6",
                "d2d4 d7d5 Nb1c3 Nb8c6 Bc1f4 Bc8f5 Qd1d2 Qd8d7 O-O-O O-O-O e2e3 e7e6",
                "e2e4 e7e5 Ng1f3 Nb8c6 Bf1c4 Bf8c5 d2d3 d7d6 Bc1e3 Bc8e6 Qd1d2 Qd8d7 Nb1c3 Ng8f6 O-O-O O-O",
                "d2d4 d7d5 Nb1c3 Nb8c6 Bc1f4 Bc8f5 Qd1d2 e7e6 O-O-O Ng8f6 e2e3 Bf8e7 Ng1f3 O-O",
            ];
            const W_PAD: [&str; 11] = ["a2a3", "a3a4", "b2b3", "b3b4", "h2h3", "h3h4", "g2g3", "Ng1h3", "Nh3g1", "Nb1a3", "Na3b1"];
            const B_PAD: [&str; 11] = ["a7a6", "a6a5", "b7b6", "b6b5", "h7h6", "h6h5", "g7g6", "Ng8h6", "Nh6g8", "Nb8a6", "Na6b8"];
            let straddles = |hist: &str| -> bool {
                let mut line = 0usize; let mut hit = false;
                for tok in hist.split(' ').filter(|t| !t.is_empty()) {
                    let need = if line == 0 { tok.len() } else { line + 1 + tok.len() };
                    if need <= 85 { line = need; continue }
                    if tok.contains("O-O") {
                        for (h, c) in tok.char_indices() { if c == '-' && line + 1 + h + 1 <= 85 { hit = true } }
                    }
                    line = tok.len();
                }
                hit
            };
            let mut kept = 0;
            let mut prng = Rng::new(seed * 77 + 5);
            for attempt in 0..tier_n(tier, 800, 8000) {
                if kept >= tier_n(tier, 8, 60) { break }
                let cl = CASTLE_LINES[attempt % 4];
                let mut g = Game::default();
                let mut script: Vec<String> = vec![];
                let mut ok = true;
                for ply in 0..2 * prng.below(14) {
                    let pool = if ply % 2 == 0 { &W_PAD } else { &B_PAD };
                    let legal: Vec<&str> = pool.iter().copied().filter(|t| BoardMove::from_str(t).map(|m| g.get_position().is_legal_move(&m)).unwrap_or(false)).collect();
                    if legal.is_empty() { ok = false; break }
                    let t = legal[prng.below(legal.len())];
                    if g.make_move(&Action::MakeMove(BoardMove::from_str(t).unwrap())).is_err() { ok = false; break }
                    script.push(t.to_string());
                }
                if !ok || !matches!(g.get_game_status(), GameStatus::Ongoing) { continue }
                for t in cl.split(' ') {
                    match BoardMove::from_str(t) { Ok(m) => { if g.make_move(&Action::MakeMove(m)).is_err() { ok = false; break } } Err(_) => { ok = false; break } }
                    script.push(t.to_string());
                }
                if ok && straddles(&format!("{}", g.get_action_history())) {
                    kept += 1;
                    random_game_from(&mut cx, &start, 1, 0, Some(&script.join(" ")));
                }
            }
        }
        for i in 0..n {
            let len = if i % 10 == 0 { cx.rng.below(4) } else { 2 + cx.rng.below(160) };
            // repetition games; every other one with draw offers made and declined on the way (they must not count as occurrences)
            if i % 8 == 3 { let cycles = 2 + cx.rng.below(2); dance_game(&mut cx, &start, cycles, [0, 30, 100][(i / 8 + shard) % 3], 6); continue }
            if i % 4 == 1 { let pf = PREFIXES[(i / 4 + shard) % PREFIXES.len()]; let l = 10 + cx.rng.below(60); random_game_from(&mut cx, &start, l, 2, Some(pf)); continue }
            random_game(&mut cx, &start, len, if i % 3 == 0 { 0 } else { 4 });
        }
    }
}

// ---------------------------------------------------------------- string suite
fn parse_obs(s: &str) -> String {
    let mv = match quiet(|| BoardMove::from_str(s)) {
        Ok(Ok(m)) => {
            let t = mv_text(&m);
            let rp = match quiet(|| BoardMove::from_str(&t)) { Ok(Ok(m2)) => if m2 == m { "same" } else { "other" }, Ok(Err(_)) => "err", Err(_) => "panic" };
            format!("ok:{}:{}", t, rp)
        }
        Ok(Err(_)) => "err".into(),
        Err(_) => "panic".into(),
    };
    let sq = match quiet(|| Square::from_str(s)) { Ok(Ok(x)) => format!("ok:{}", x.to_int()), Ok(Err(_)) => "err".into(), Err(_) => "panic".into() };
    let fl = match quiet(|| libchess::File::from_str(s)) { Ok(Ok(x)) => format!("ok:{}", x.to_index()), Ok(Err(_)) => "err".into(), Err(_) => "panic".into() };
    let rk = match quiet(|| Rank::from_str(s)) { Ok(Ok(x)) => format!("ok:{}", x.to_index()), Ok(Err(_)) => "err".into(), Err(_) => "panic".into() };
    let pt = match quiet(|| PieceType::from_str(s)) { Ok(Ok(x)) => format!("ok:{}", x.to_index()), Ok(Err(_)) => "err".into(), Err(_) => "panic".into() };
    format!("mv={}|sq={}|fl={}|rk={}|pt={}", mv, sq, fl, rk, pt)
}
fn fen_obs(s: &str) -> String {
    let fen = match quiet(|| ChessBoard::from_fen(s)) { Ok(Ok(b)) => format!("ok:{}", b.as_fen()), Ok(Err(_)) => "err".into(), Err(_) => "panic".into() };
    let gfen = match quiet(|| Game::from_fen(s)) { Ok(Ok(g)) => format!("ok:{}", g.as_fen()), Ok(Err(_)) => "err".into(), Err(_) => "panic".into() };
    let bfen = match quiet(|| BoardBuilder::from_str(s)) { Ok(Ok(b)) => format!("ok:{}", b), Ok(Err(_)) => "err".into(), Err(_) => "panic".into() };
    format!("fen={}|gfen={}|bfen={}", fen, if gfen == fen { "same".to_string() } else { gfen }, bfen)
}
const ALPHA: [&str; 14] = ["a", "h", "1", "8", "N", "x", "=", "Q", "K", "O", "-", "/", " ", "é"];

fn mutate(rng: &mut Rng, s: &str) -> String {
    let mut cs: Vec<char> = s.chars().collect();
    let n = 1 + rng.below(3);
    for _ in 0..n {
        if cs.is_empty() { cs.push('x'); continue }
        let i = rng.below(cs.len());
        match rng.below(7) {
            0 => { cs.remove(i); }
            1 => { let c = cs[i]; cs.insert(i, c); }
            2 => { let j = rng.below(cs.len()); cs.swap(i, j); }
            3 => { cs.insert(i, *rng.pick(&['é', '日', ' ', '/', '9', '0', '-', 'K', 'k', 'x', '=', '+', '#', '\n', '"', '['])); }
            4 => { cs[i] = *rng.pick(&['é', ' ', '/', '8', '1', 'P', 'p', 'w', 'b', '-', 'q', 'Q', 'e', '3', '6']); }
            5 => { cs.truncate(i); }
            _ => { let j = rng.below(cs.len()); let (a, b) = (i.min(j), i.max(j)); let sub: Vec<char> = cs[a..b].to_vec(); for (k, c) in sub.into_iter().enumerate() { cs.insert(a + k, c) } }
        }
    }
    cs.into_iter().collect()
}

fn suite_str(w: &mut dyn Write, tier: &str, seed: u64, shard: usize, nshards: usize, variant: &str) {
    let mut rng = Rng::new(seed * 1000 + 77 + shard as u64);
    let maxlen = tier_n(tier, 4, 5);
    let mut n = 0usize;
    if variant != "pgn" {
    // exhaustive short strings
    let mut idx: Vec<usize> = vec![];
    let mut count = 0usize;
    loop {
        if count % nshards == shard {
            let s: String = idx.iter().map(|&i| ALPHA[i]).collect();
            n += 1;
            writeln!(w, "S|id=s{}_{}|in={}|{}", shard, n, hex(&s), parse_obs(&s)).unwrap();
        }
        count += 1;
        // next index vector
        let mut k = idx.len();
        loop {
            if k == 0 { idx = vec![0; idx.len() + 1]; break }
            k -= 1;
            if idx[k] + 1 < ALPHA.len() { idx[k] += 1; for j in k + 1..idx.len() { idx[j] = 0 } break }
        }
        if idx.len() > maxlen { break }
    }
    // random longer strings over the alphabet, and mutated valid move texts
    let nr = tier_n(tier, 20000, 600000) / nshards;
    let uni = universe();
    for _ in 0..nr {
        let s: String = if rng.chance(1, 2) {
            let l = maxlen + 1 + rng.below(4);
            (0..l).map(|_| ALPHA[rng.below(ALPHA.len())]).collect()
        } else {
            let m = &uni[rng.below(uni.len())];
            let t = mv_text(m);
            if rng.chance(1, 4) { t } else { mutate(&mut rng, &t) }
        };
        n += 1;
        writeln!(w, "S|id=s{}_{}|in={}|{}", shard, n, hex(&s), parse_obs(&s)).unwrap();
    }
    // FEN: the single-defect families first (rights and en-passant defects), as harness-written FEN
    let mut defects: Vec<Desc> = vec![];
    family_rights_defects(&mut defects);
    family_ep_defects(&mut defects);
    for (i, d) in defects.iter().enumerate() {
        if i % nshards != shard { continue }
        let s = d.to_fen();
        n += 1;
        writeln!(w, "F|id=s{}_{}|in={}|{}", shard, n, hex(&s), fen_obs(&s)).unwrap();
    }
    // FEN: valid, grammar-ish and mutated
    let nf = tier_n(tier, 6000, 200000) / nshards;
    for i in 0..nf {
        let mut d = synthetic(&mut rng);
        if rng.chance(1, 4) { d = corrupt(&mut rng, &d) }
        let base = if i < SEED_FENS.len() { SEED_FENS[i].to_string() } else { d.to_fen() };
        let s = if i < SEED_FENS.len() || rng.chance(1, 3) { base } else { mutate(&mut rng, &base) };
        n += 1;
        writeln!(w, "F|id=s{}_{}|in={}|{}", shard, n, hex(&s), fen_obs(&s)).unwrap();
    }
    }
    // PGN: hand-assembled texts that exercise the tokeniser (tag pairs, blank-line split, move and result tokens)
    {
        const HEADERS: [&str; 21] = ["[\u{c9}preuve \"Open\"]\n", "[\u{e9} \"\"]\n", "[Event \"\u{e9}t\u{e9}\"]\n", "[R\u{e9}sultat \"1-0\"]\n[Result \"0-1\"]\n","[Result\x0b\"1-0\"\x0c]\n", "[Result\x1c\"1-0\"]\n", "[Result \"0-1\"]\r\n",  "", "[Event \"?\"]\n", "[Result \"1-0\"]\n", "[Result \"0-1\"]\n[Result \"?\"]\n", "[ Result \"1-0\"]\n",
            "[Result   \"1/2-1/2\"  ]\n", "[Result \"a b,c:d/e.f?-\"]\n", "[Result\"1-0\"]\n", "[Result \"1-0\" x]\n", "[Result \"\"]\n",
            "[Result\t\"0-1\"\n]\n", "[[Result \"1-0\"]]\n", "[Re_sult9 \"1-0\"][Result \"*\"]\n", "[Result \"0-1\"\n"];
        const SEPS: [&str; 10] = ["\n", "\n\n", "\r\n\r\n", "\n\r\n", "\r\n\n\n", "\n\n\n\n", "\r\r\n\n", "\n \n", "", "\n\r\r\n\n"];
        const BODIES: [&str; 30] = ["", "1.e4 e5", "1.e4 e5 1-0", "1.e4 e5 0-1", "1.e4 e5 1/2-1/2", "1. e4 e5 2. Nf3 Nc6 3. Bb5 a6", "e4e5Nf3", "1.e4\ne5\n2.Nf3",
            "1.e4 e5\n\n2.Nf3", "1.f3 e5 2.g4 Qh4# 1-0", "1.f3 e5 2.g4 Qh4#", "1.f3 e5 2.g4 Qh4+", "1.f3 e5 2.g4 Qh4", "1.f3 e5 2.g4 Qh4# 3.a3", "1.e4 e5 2.Ke2 Ke7 3.Ke1 Ke8 4.Ke2 Ke7 5.Ke1 Ke8 6.a3",
            "1-0 1.e4", "1/2-1/2", "0-1", "1.e4 1-00-1", "1.Nf3 Nf6 2.Ng1 Ng8 3.Nf3 Nf6 4.Ng1 Ng8 1-0", "1.e2e4", "1.Pe4", "1.e4xx", "1.xe4", "1.e4=Q", "1.Nbf3", "1.N1f3 e5 2.Ngf3",
            "1.e4 d5 2.exd5 Qxd5 3.Nc3 Qe5+ 4.Be2 1/2-1/2", "1.O-O", "1.e4 e5 2.Nf3 Nc6 3.Bc4 Bc5 4.O-O-O"];
        let mut i = 0usize;
        for h in HEADERS.iter() { for sp in SEPS.iter() { for b in BODIES.iter() {
            i += 1;
            if i % nshards != shard { continue }
            if tier == "quick" && (i / nshards) % 4 != (seed as usize) % 4 { continue }
            let s = format!("{}{}{}", h, sp, b);
            let (r, out) = pgn_import_obs(&s);
            n += 1;
            writeln!(w, "N|id=s{}_{}|in={}|pgn={}|slow=no{}", shard, n, hex(&s), r, out).unwrap();
        } } }
    }
    // the regex crate on the source's own patterns over token soups: is the model's matcher the crate's semantics?
    {
        const FRAGS: [&str; 60] = ["N", "B", "R", "Q", "K", "n", "k", "q", "a", "b", "c", "g", "h", "1", "2", "7", "8", "9", "0", "x", "xx", "O-O", "O-O-O", "-O", "O", "-", "=", "=Q", "=N", "=K", "=q",
            "+", "#", "+#", " ", " ", "\n", "\r\n", "\n\n", "\r", ".", "1.", "12.", "1-0", "0-1", "1/2-1/2", "1/2", "/", "[", "]", "\"", "Result", "[Result \"1-0\"]", "\t", "é", "e4", "Nf3", "exd5", "e8=Q+", "_"];
        match source_patterns().and_then(|p| { let r: Vec<regex::Regex> = p.iter().filter_map(|x| regex::Regex::new(x).ok()).collect(); if r.len() == 4 { Some([r[0].clone(), r[1].clone(), r[2].clone(), r[3].clone()]) } else { None } }) {
            None => { writeln!(w, "R|id=s{}_patterns|err=patterns-not-found", shard).unwrap(); }
            Some(pats) => {
                let nr = tier_n(tier, 4000, 400000) / nshards;
                for _ in 0..nr {
                    let k = rng.below(14);
                    let s: String = (0..k).map(|_| FRAGS[rng.below(FRAGS.len())]).collect();
                    n += 1;
                    writeln!(w, "R|id=s{}_{}|in={}|{}", shard, n, hex(&s), regex_obs(&pats, &s)).unwrap();
                }
            }
        }
    }
    // PGN: exported games, mutated
    let np = tier_n(tier, 300, 10000) / nshards;
    let mut maxms = 0u128;
    for _ in 0..np {
        let mut g = Game::default();
        let len = rng.below(60);
        for _ in 0..len {
            let ms = sorted_moves(&g.get_position());
            if ms.is_empty() || !matches!(g.get_game_status(), GameStatus::Ongoing) { break }
            let m = ms[rng.below(ms.len())].1;
            let _ = g.make_move(&Action::MakeMove(m));
        }
        if rng.chance(1, 4) && matches!(g.get_game_status(), GameStatus::Ongoing) {
            // shuffle two pieces back and forth until the game is drawn by repetition
            let pick = |b: &ChessBoard, rng: &mut Rng| -> Option<BoardMove> {
                let ms: Vec<BoardMove> = b.get_legal_moves().into_iter().filter(|m| matches!(m, BoardMove::MovePiece(pm) if pm.get_piece_type() != PieceType::Pawn && !pm.is_capture_on_board(b))).collect();
                if ms.is_empty() { None } else { Some(ms[rng.below(ms.len())]) }
            };
            let back = |m: &BoardMove| match m { BoardMove::MovePiece(pm) => BoardMove::MovePiece(PieceMove::new(pm.get_piece_type(), pm.get_destination_square(), pm.get_source_square(), None).unwrap()), x => *x };
            if let Some(a) = pick(&g.get_position(), &mut rng) {
                if let Ok(Ok(p1)) = quiet(|| g.get_position().make_move(&a)) {
                    if let Some(b) = pick(&p1, &mut rng) {
                        let cyc = [a, b, back(&a), back(&b)];
                        for i in 0..16 { if g.make_move(&Action::MakeMove(cyc[i % 4])).is_err() { break } }
                    }
                }
            }
        }
        if rng.chance(1, 3) { let _ = g.make_move(&Action::Resign(Color::White)); }
        let base = match quiet(|| g.as_pgn()) { Ok(s) => s, Err(_) => "[Event \"?\"]\n\n1.e4 e5 1-0".to_string() };
        let s = match rng.below(5) {
            0 => base,
            1 => { // another line wrapping of the same game: single blanks of the move text become line ends or back
                let cut = base.find("\n\n").map(|i| i + 2).unwrap_or(0);
                let (hd, body) = base.split_at(cut);
                let body: String = body.chars().map(|c| if c == ' ' || c == '\n' { if rng.chance(1, 3) { '\n' } else { ' ' } } else { c }).collect();
                format!("{}{}", hd, body) }
            _ => mutate(&mut rng, &base) };
        let t0 = std::time::Instant::now();
        let (r, out) = pgn_import_obs(&s);
        let ms = t0.elapsed().as_millis();
        if ms > maxms { maxms = ms }
        n += 1;
        writeln!(w, "N|id=s{}_{}|in={}|pgn={}|slow={}{}", shard, n, hex(&s), r, if ms > 5000 { "yes" } else { "no" }, out).unwrap();
    }
}

// ---------------------------------------------------------------- primitive suite
fn suite_prim(w: &mut dyn Write, tier: &str, seed: u64, shard: usize, nshards: usize, variant: &str) {
    let mut rng = Rng::new(seed * 1000 + 5 + shard as u64);
    let r = |x: Result<String, errors::LibChessError>| match x { Ok(s) => format!("ok:{}", s), Err(_) => "err".to_string() };
    let mut p = |w: &mut dyn Write, f: &str, a: String, v: String| writeln!(w, "P|{}|{}|{}", f, a, v).unwrap();
    if variant == "moves" {
        // C16: the complete move universe
        for (i, m) in universe().iter().enumerate() {
            if i % nshards != shard { continue }
            let t = mv_text(m);
            let rp = match quiet(|| BoardMove::from_str(&t)) { Ok(Ok(m2)) => if m2 == *m { "same" } else { "other" }, Ok(Err(_)) => "err", Err(_) => "panic" };
            let a = match m {
                BoardMove::MovePiece(pm) => format!("{},{},{},{}", pm.get_piece_type().to_index(), pm.get_source_square().to_int(), pm.get_destination_square().to_int(),
                    pm.get_promotion().map_or("-".to_string(), |q| q.to_index().to_string())),
                BoardMove::CastleKingSide => "K".into(),
                BoardMove::CastleQueenSide => "Q".into(),
            };
            p(w, "mvtext", a, format!("{}:{}", t, rp));
        }
        if shard == 0 { p(w, "pmove_new_pawn_promo", "-".into(), match PieceMove::new(PieceType::Pawn, sq(8), sq(16), Some(PieceType::Pawn)) { Ok(_) => "ok".into(), Err(_) => "err".into() }) }
        return;
    }
    if shard == 0 {
        for n in 0..67u8 {
            p(w, "sq_new", n.to_string(), r(Square::new(n).map(|s| s.to_int().to_string())));
        }
        for i in 0..64u8 {
            let s = sq(i);
            p(w, "sq_text", i.to_string(), format!("{}", s));
            p(w, "sq_parse_text", i.to_string(), r(Square::from_str(&format!("{}", s)).map(|x| x.to_int().to_string())));
            p(w, "sq_rank", i.to_string(), s.get_rank().to_index().to_string());
            p(w, "sq_file", i.to_string(), s.get_file().to_index().to_string());
            p(w, "sq_up", i.to_string(), r(s.up().map(|x| x.to_int().to_string())));
            p(w, "sq_down", i.to_string(), r(s.down().map(|x| x.to_int().to_string())));
            p(w, "sq_left", i.to_string(), r(s.left().map(|x| x.to_int().to_string())));
            p(w, "sq_right", i.to_string(), r(s.right().map(|x| x.to_int().to_string())));
            p(w, "sq_light", i.to_string(), format!("{},{}", s.is_light() as u8, s.is_dark() as u8));
            p(w, "sq_index", i.to_string(), s.to_index().to_string());
            p(w, "sq_from_rank_file", i.to_string(), Square::from_rank_file(s.get_rank(), s.get_file()).to_int().to_string());
            for j in [0u8, 7, 27, 36, 63, i] { let o = s.offsets_from(sq(j)); p(w, "sq_offsets", format!("{},{}", i, j), format!("{},{}", o.0, o.1)); }
        }
        for n in 0..10usize {
            p(w, "file_from_index", n.to_string(), r(libchess::File::from_index(n).map(|x| format!("{}:{}", x.to_index(), x))));
            p(w, "rank_from_index", n.to_string(), r(Rank::from_index(n).map(|x| format!("{}:{}", x.to_index(), x))));
            p(w, "color_from_index", n.to_string(), r(Color::from_index(n).map(|x| format!("{}:{}", x.to_index(), x))));
            p(w, "ptype_from_index", n.to_string(), r(PieceType::from_index(n).map(|x| format!("{}:{}", x.to_index(), x))));
            p(w, "cr_from_index", n.to_string(), r(CastlingRights::from_index(n).map(|x| format!("{}:{}", x.to_index(), x))));
        }
        for n in 0..8usize {
            let (f, k) = (libchess::File::from_index(n).unwrap(), Rank::from_index(n).unwrap());
            p(w, "file_left", n.to_string(), r(f.left().map(|x| x.to_index().to_string())));
            p(w, "file_right", n.to_string(), r(f.right().map(|x| x.to_index().to_string())));
            p(w, "rank_up", n.to_string(), r(k.up().map(|x| x.to_index().to_string())));
            p(w, "rank_down", n.to_string(), r(k.down().map(|x| x.to_index().to_string())));
            p(w, "file_parse_text", n.to_string(), r(libchess::File::from_str(&format!("{}", f)).map(|x| x.to_index().to_string())));
            p(w, "rank_parse_text", n.to_string(), r(Rank::from_str(&format!("{}", k)).map(|x| x.to_index().to_string())));
            p(w, "bb_from_file", n.to_string(), format!("{:016x}", BitBoard::from_file(f).bits()));
            p(w, "bb_from_rank", n.to_string(), format!("{:016x}", BitBoard::from_rank(k).bits()));
        }
        for n in 0..2usize {
            let c = Color::from_index(n).unwrap();
            p(w, "color_not", n.to_string(), (!c).to_index().to_string());
            p(w, "color_ranks", n.to_string(), format!("{},{}", c.get_back_rank().to_index(), c.get_promotion_rank().to_index()));
        }
        for n in 0..6usize {
            let t = PieceType::from_index(n).unwrap();
            p(w, "ptype_parse_text", n.to_string(), r(PieceType::from_str(&format!("{}", t)).map(|x| x.to_index().to_string())));
            p(w, "ptype_parse_lower", n.to_string(), r(PieceType::from_str(&format!("{}", t).to_lowercase()).map(|x| x.to_index().to_string())));
        }
        // foreign texts for the four text conversions: empty, runs of neighbouring names, upper case, blanks, digits, two-byte characters
        for t in ["", "ab", "gh", "abc", "abcdefgh", "ba", "aa", "i", "A", "H", " a", "a ", "a\n", "0", "9", "12", "78", "18", "1 ", "é", "a1", "h8", "a9", "i1", "A1", "a1b", "a1a1", "1a",
                  "é1", "aé", "P", "p", "PN", "NB", "pn", "X", "kq", "KQ", "Kk", "-", "bb", "11", "\u{430}", "e", "4", "e4", "E4"] {
            let q = |x: Result<String, errors::LibChessError>| match x { Ok(s) => format!("ok:{}", s), Err(_) => "err".to_string() };
            let g = |f: &dyn Fn() -> String| match quiet(f) { Ok(s) => s, Err(_) => "panic".to_string() };
            p(w, "file_parse_str", hex(t), g(&|| q(libchess::File::from_str(t).map(|x| x.to_index().to_string()))));
            p(w, "rank_parse_str", hex(t), g(&|| q(Rank::from_str(t).map(|x| x.to_index().to_string()))));
            p(w, "sq_parse_str", hex(t), g(&|| q(Square::from_str(t).map(|x| x.to_int().to_string()))));
            p(w, "ptype_parse_str", hex(t), g(&|| q(PieceType::from_str(t).map(|x| x.to_index().to_string()))));
        }
        p(w, "ptype_iter", "-".into(), PieceType::iter().map(|t| t.to_index().to_string()).collect::<Vec<_>>().join(","));
        for a in 0..4u8 {
            let x = cr_of(a);
            p(w, "cr_has", a.to_string(), format!("{},{},{}", x.has_kingside() as u8, x.has_queenside() as u8, x.has_any() as u8));
            p(w, "cr_text", a.to_string(), format!("{}", x));
            for b in 0..4u8 {
                let y = cr_of(b);
                p(w, "cr_add", format!("{},{}", a, b), cr_idx(x + y).to_string());
                p(w, "cr_sub", format!("{},{}", a, b), cr_idx(x - y).to_string());
                let mut z = x; z += y; let mut u = x; u -= y;
                p(w, "cr_assign", format!("{},{}", a, b), format!("{},{}", cr_idx(z), cr_idx(u)));
            }
        }
        // game status sentences (C20)
        let cs = [Color::White, Color::Black];
        let mut sts = vec![GameStatus::Ongoing, GameStatus::FiftyMovesDrawDeclared, GameStatus::TheoreticalDrawDeclared, GameStatus::RepetitionDrawDeclared, GameStatus::DrawAccepted, GameStatus::Stalemate];
        for c in cs { sts.push(GameStatus::DrawOffered(c)); sts.push(GameStatus::CheckMated(c)); sts.push(GameStatus::Resigned(c)); }
        for s in sts { p(w, "gstatus_text", gstatus_str(s), format!("{}", s)); }
    }
    // bitboards
    let mut bbs: Vec<u64> = vec![0, u64::MAX, 1, 1 << 63];
    for i in 0..64 { bbs.push(1u64 << i) }
    for i in 0..64 { for j in (i + 1)..64 { bbs.push((1u64 << i) | (1u64 << j)) } }
    let nrand = tier_n(tier, 3000, 200000);
    for _ in 0..nrand {
        let mut x = rng.next();
        match rng.below(4) { 0 => x &= rng.next(), 1 => x &= rng.next() & rng.next(), 2 => x |= rng.next(), _ => {} }
        bbs.push(x);
    }
    for (i, x) in bbs.iter().enumerate() {
        if i % nshards != shard { continue }
        let b = BitBoard::new(*x);
        let it: Vec<String> = b.map(|s| s.to_int().to_string()).collect();
        let v = format!("{}|{}|{}|{}|{}|{}", it.join(","), b.count_ones(),
            b.first_bit_square().map_or("-".to_string(), |s| s.to_int().to_string()),
            b.last_bit_square().map_or("-".to_string(), |s| s.to_int().to_string()),
            match quiet(|| b.to_square()) { Ok(s) => s.to_int().to_string(), Err(_) => "panic".into() },
            b.is_blank() as u8);
        p(w, "bb", format!("{:016x}", x), v);
        p(w, "bb_render", format!("{:016x}", x), hex(&format!("{}", b)));
        if i % 7 == 0 {
            let y = rng.next();
            let c = BitBoard::new(y);
            p(w, "bb_ops", format!("{:016x},{:016x}", x, y), format!("{:016x},{:016x},{:016x},{:016x}", (b & c).bits(), (b | c).bits(), (b ^ c).bits(), (!b).bits()));
        }
    }
}

// ---------------------------------------------------------------- symmetry suite (C19, metamorphic)
fn flip_sq(s: u8) -> u8 { (7 - s / 8) * 8 + s % 8 }
fn mirror_sq(s: u8) -> u8 { (s / 8) * 8 + (7 - s % 8) }
fn map_move(m: &BoardMove, f: fn(u8) -> u8, swap_castle: bool) -> BoardMove {
    match m {
        BoardMove::MovePiece(pm) => BoardMove::MovePiece(PieceMove::new(pm.get_piece_type(), sq(f(pm.get_source_square().to_int())), sq(f(pm.get_destination_square().to_int())), pm.get_promotion()).unwrap()),
        BoardMove::CastleKingSide => if swap_castle { BoardMove::CastleQueenSide } else { BoardMove::CastleKingSide },
        BoardMove::CastleQueenSide => if swap_castle { BoardMove::CastleKingSide } else { BoardMove::CastleQueenSide },
    }
}
fn map_bb(b: BitBoard, f: fn(u8) -> u8) -> u64 { let mut r = 0u64; for s in b { r |= 1u64 << f(s.to_int()) } r }
fn status_flip(s: BoardStatus, flip: bool) -> BoardStatus { match s { BoardStatus::CheckMated(c) if flip => BoardStatus::CheckMated(!c), x => x } }

fn sym_check(b: &ChessBoard, image: &Desc, f: fn(u8) -> u8, flipc: bool, dmap: fn(&Desc) -> Desc) -> String {
    let ib = match image.build_setup() { Ok(Ok(x)) => x, Ok(Err(_)) => return "image-rejected".into(), Err(_) => return "image-panic".into() };
    let mut bad: Vec<&str> = vec![];
    let mut m1: Vec<String> = b.get_legal_moves().iter().map(|m| mv_text(&map_move(m, f, false))).collect();
    let mut m2: Vec<String> = ib.get_legal_moves().iter().map(mv_text).collect();
    m1.sort(); m2.sort();
    if m1 != m2 { bad.push("moves") }
    if map_bb(b.get_check_mask(), f) != ib.get_check_mask().bits() { bad.push("checks") }
    if map_bb(b.get_pin_mask(), f) != ib.get_pin_mask().bits() { bad.push("pins") }
    if status_flip(b.get_status(), flipc) != ib.get_status() { bad.push("status") }
    if b.is_terminal() != ib.is_terminal() { bad.push("terminal") }
    if cr_idx(b.castling_is_available_on_board(None)) != cr_idx(ib.castling_is_available_on_board(None)) { bad.push("castle-query") }
    for m in b.get_legal_moves() {
        let im = map_move(&m, f, false);
        match (quiet(|| b.make_move(&m)), quiet(|| ib.make_move(&im))) {
            (Ok(Ok(n1)), Ok(Ok(n2))) => {
                // the move number advances after Black's moves, i.e. at the other parity in the colour-flipped game:
                // it is not part of the mirrored state and is left out of the comparison
                let (mut i1, mut i2) = (dmap(&describe(&n1)), describe(&n2));
                if flipc { i1.full = 0; i2.full = 0 }
                if i1 != i2 { bad.push("successor"); break }
                if map_bb(n1.get_check_mask(), f) != n2.get_check_mask().bits() || status_flip(n1.get_status(), flipc) != n2.get_status() { bad.push("successor-derived"); break }
            }
            _ => { bad.push("successor-failed"); break }
        }
    }
    if bad.is_empty() { "ok".into() } else { bad.join("+") }
}

fn suite_sym(w: &mut dyn Write, tier: &str, seed: u64, shard: usize, nshards: usize) {
    let mut rng = Rng::new(seed * 1000 + 99 + shard as u64);
    let seeds: Vec<Desc> = SEED_FENS.iter().map(|f| Desc::from_fen(f)).collect();
    let mut n = 0usize;
    let mut check = |w: &mut dyn Write, b: &ChessBoard| {
        n += 1;
        let d = describe(b);
        let fl = sym_check(b, &d.flipped(), flip_sq, true, |x| x.flipped());
        let mi = if d.wr == 0 && d.br == 0 { sym_check(b, &d.mirrored(), mirror_sq, false, |x| x.mirrored()) } else { "na".to_string() };
        writeln!(w, "M|id=m{}_{}|d={}|fd={}|md={}|flip={}|mirror={}", shard, n, d.to_string(), d.flipped().to_string(), d.mirrored().to_string(), fl, mi).unwrap();
    };
    let games = tier_n(tier, 120, 5000) / nshards + 1;
    for gi in 0..games {
        let d = if gi % 2 == 0 { seeds[rng.below(seeds.len())].clone() } else { let mut x = synthetic(&mut rng); if rng.chance(1, 2) { x.wr = 0; x.br = 0 } x };
        let mut b = match d.build_setup() { Ok(Ok(b)) => b, _ => continue };
        check(w, &b);
        for _ in 0..(5 + rng.below(40)) {
            let ms = sorted_moves(&b);
            if ms.is_empty() { break }
            let m = choose_move(&mut rng, &b, &ms);
            b = match quiet(|| b.make_move(&m)) { Ok(Ok(x)) => x, _ => break };
            check(w, &b);
        }
    }
    let mut fam: Vec<Desc> = vec![];
    family_castling(&mut fam);
    let mut frng = Rng::new(777);
    let l = fam.len();
    family_en_passant(&mut frng, l + tier_n(tier, 300, 6000), &mut fam);
    for (i, d) in fam.iter().enumerate() {
        if i % nshards != shard || (tier != "thorough" && (i / nshards) % 4 != 0) { continue }
        if let Ok(Ok(b)) = d.build_setup() { check(w, &b) }
    }
}

// ---------------------------------------------------------------- main
static LAST_PANIC: std::sync::Mutex<String> = std::sync::Mutex::new(String::new());
fn main() {
    // panics are expected inside `quiet`; the hook only remembers where the last one happened, so that a panic escaping
    // an observation the harness assumed total can be reported with its location
    std::panic::set_hook(Box::new(|info| {
        let loc = info.location().map(|l| format!("{}:{}", l.file(), l.line())).unwrap_or_default();
        let msg = if let Some(s) = info.payload().downcast_ref::<&str>() { s.to_string() } else if let Some(s) = info.payload().downcast_ref::<String>() { s.clone() } else { String::new() };
        if let Ok(mut g) = LAST_PANIC.lock() { *g = format!("{} {}", loc, msg.replace('|', "/").replace('\n', " ")); }
    }));
    let args: Vec<String> = std::env::args().collect();
    if args.len() >= 3 && args[1] == "dump" {
        let dir = &args[2];
        std::fs::write(format!("{}/ImplTables.v", dir), dump_tables_v()).unwrap();
        std::fs::write(format!("{}/ZobristKeys.v", dir), dump_keys_v()).unwrap();
        std::fs::write(format!("{}/keys.txt", dir), dump_keys_txt()).unwrap();
        std::fs::write(format!("{}/tables.txt", dir), dump_tables_txt()).unwrap();
        return;
    }
    if args.len() >= 3 && args[1] == "replay" {
        // replay <record-kind> ... : re-observe one input on the current tree (used by `vcheck replay`)
        let mut out = std::io::stderr();
        match args[2].as_str() {
            "desc" => {
                let d = parse_desc(&args[3]);
                let mut cx = Ctx { w: &mut out, rng: Rng::new(1), flags: F_SANS | F_REFEN, uni: vec![], uni_every: 0, nrec: 0, thin: 1, prefix: "r".into(), ncase: 0 };
                let b = cx.start("r1", &d, false);
                if let (Some(b), Some(mt)) = (b, args.get(4)) { if let Ok(m) = BoardMove::from_str(mt) { cx.step("r1", 1, &b, &m); } }
            }
            "str" => { let s = String::from_utf8(unhex(&args[3])).unwrap(); writeln!(out, "S|id=r|in={}|{}", args[3], parse_obs(&s)).unwrap(); writeln!(out, "F|id=r|in={}|{}", args[3], fen_obs(&s)).unwrap(); }
            _ => {}
        }
        return;
    }
    if args.len() < 8 || args[1] != "run" {
        eprintln!("usage: harness dump <dir> | harness run <suite> <variant> <tier> <seed> <outdir> <nshards>");
        std::process::exit(2);
    }
    let (suite, variant, tier) = (args[2].clone(), args[3].clone(), args[4].clone());
    let seed: u64 = args[5].parse().unwrap();
    let outdir = args[6].clone();
    let nshards: usize = args[7].parse().unwrap();
    let mut hs = vec![];
    for shard in 0..nshards {
        let (suite, variant, tier, outdir) = (suite.clone(), variant.clone(), tier.clone(), outdir.clone());
        hs.push(std::thread::Builder::new().stack_size(64 << 20).spawn(move || {
            let f = File::create(format!("{}/{}-{}-{}.cases", outdir, suite, variant, shard)).unwrap();
            let mut w = BufWriter::new(f);
            let body = std::panic::catch_unwind(std::panic::AssertUnwindSafe(|| { match suite.as_str() {
                "board" => {
                    let flags = match variant.as_str() { "legal" => F_MINIUNI, "san" => F_SANS, "render" => F_RENDER, "fen" => F_REFEN, "all" => F_SANS | F_RENDER | F_REFEN, _ => 0 };
                    let uni = if variant == "universe" { universe() } else { vec![] };
                    let mut cx = Ctx { w: &mut w, rng: Rng::new(seed * 1000 + shard as u64), flags, uni, uni_every: 0, nrec: 0, thin: if tier == "thorough" && variant == "legal" { 5 } else { 1 }, prefix: format!("b{}_", shard), ncase: 0 };
                    suite_board(&mut cx, &tier, shard, nshards, &variant);
                }
                "game" => suite_game(&mut w, &tier, seed, shard, nshards, &variant),
                "str" => suite_str(&mut w, &tier, seed, shard, nshards, &variant),
                "prim" => suite_prim(&mut w, &tier, seed, shard, nshards, &variant),
                "sym" => suite_sym(&mut w, &tier, seed, shard, nshards),
                _ => {}
            } }));
            if body.is_err() {
                // a library call the harness treats as total panicked: recorded as an observation of its own
                let wh = LAST_PANIC.lock().map(|g| g.clone()).unwrap_or_default();
                writeln!(w, "\nX|id=crash{}|where={}", shard, wh).unwrap();
            }
            w.flush().unwrap();
        }).unwrap());
    }
    for h in hs { h.join().unwrap() }
}

fn unhex(s: &str) -> Vec<u8> { (0..s.len() / 2).map(|i| u8::from_str_radix(&s[2 * i..2 * i + 2], 16).unwrap()).collect() }
fn parse_desc(s: &str) -> Desc {
    let t: Vec<&str> = s.split(',').collect();
    let mut d = Desc::empty();
    d.pl.copy_from_slice(t[0].as_bytes());
    d.stm = t[1].as_bytes()[0];
    d.wr = t[2].parse().unwrap();
    d.br = t[3].parse().unwrap();
    d.ep = if t[4] == "-" { None } else { Some(t[4].parse().unwrap()) };
    d.half = t[5].parse().unwrap();
    d.full = t[6].parse().unwrap();
    d
}
