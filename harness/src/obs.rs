// obs.rs — canonical observations of library values (one record line per observed value)
use crate::util::*;
use libchess::move_masks::*;
use libchess::*;

pub const F_SANS: u32 = 1;
pub const F_RENDER: u32 = 2;
pub const F_UNIVERSE: u32 = 4;
pub const F_REFEN: u32 = 8;
pub const F_MINIUNI: u32 = 16;

fn bbhex(b: BitBoard) -> String { format!("{:016x}", b.bits()) }
const TYPES: [PieceType; 6] = [PieceType::Pawn, PieceType::Knight, PieceType::Bishop, PieceType::Rook, PieceType::Queen, PieceType::King];

/// library-side monitor of the representation clauses of C06 that are stated through public getters
pub fn monitor(b: &ChessBoard) -> String {
    let mut bad: Vec<&str> = vec![];
    let (w, k) = (b.get_color_mask(Color::White), b.get_color_mask(Color::Black));
    if !(w & k).is_blank() { bad.push("colors-overlap") }
    let mut uni = BLANK;
    for i in 0..6 {
        for j in (i + 1)..6 {
            if !(b.get_piece_type_mask(TYPES[i]) & b.get_piece_type_mask(TYPES[j])).is_blank() { bad.push("types-overlap") }
        }
        uni |= b.get_piece_type_mask(TYPES[i]);
    }
    if uni != b.get_combined_mask() { bad.push("types-union") }
    if (w | k) != b.get_combined_mask() { bad.push("colors-union") }
    for c in [Color::White, Color::Black] {
        let km = b.get_piece_type_mask(PieceType::King) & b.get_color_mask(c);
        if km.count_ones() != 1 { bad.push("king-count") } else if BitBoard::from_square(b.get_king_square(c)) != km { bad.push("king-square") }
    }
    for i in 0..64u8 {
        let s = sq(i);
        let m = BitBoard::from_square(s);
        let occ = !(b.get_combined_mask() & m).is_blank();
        if b.is_empty_square(s) == occ { bad.push("is-empty") }
        let t = b.get_piece_type_on(s);
        let c = b.get_piece_color_on(s);
        let p = b.get_piece_on(s);
        if occ {
            match (t, c, p) {
                (Some(t), Some(c), Some(p)) => {
                    if (b.get_piece_type_mask(t) & m).is_blank() { bad.push("type-on") }
                    if (b.get_color_mask(c) & m).is_blank() { bad.push("color-on") }
                    if p.0 != t || p.1 != c { bad.push("piece-on") }
                }
                _ => bad.push("occupied-none"),
            }
        } else if t.is_some() || c.is_some() || p.is_some() { bad.push("empty-some") }
    }
    // every held castling right has that side's king and rook on their home squares
    for c in [Color::White, Color::Black] {
        let r = b.get_castle_rights(c);
        let rank = if c == Color::White { 0u8 } else { 7u8 };
        let own = |t: PieceType, i: u8| matches!(b.get_piece_on(sq(i)), Some(p) if p.0 == t && p.1 == c);
        if r.has_any() && !own(PieceType::King, rank * 8 + 4) { bad.push("right-without-king") }
        if r.has_kingside() && !own(PieceType::Rook, rank * 8 + 7) { bad.push("right-without-rook") }
        if r.has_queenside() && !own(PieceType::Rook, rank * 8) { bad.push("right-without-rook") }
    }
    // an en-passant square is empty, on the sixth rank of the side to move, with the just-moved enemy pawn in front of it
    // (towards the side to move) and an empty origin square behind it
    if let Some(e) = b.get_en_passant() {
        let i = e.to_int() as i32;
        let white = b.get_side_to_move() == Color::White;
        let (want_rank, pawn_at, origin) = if white { (5, i - 8, i + 8) } else { (2, i + 8, i - 8) };
        let enemy = if white { Color::Black } else { Color::White };
        if i / 8 != want_rank { bad.push("ep-rank") }
        else {
            if !b.is_empty_square(sq(i as u8)) { bad.push("ep-occupied") }
            if !matches!(b.get_piece_on(sq(pawn_at as u8)), Some(p) if p.0 == PieceType::Pawn && p.1 == enemy) { bad.push("ep-no-pawn") }
            if !b.is_empty_square(sq(origin as u8)) { bad.push("ep-origin-occupied") }
        }
    }
    bad.sort();
    bad.dedup();
    if bad.is_empty() { "ok".into() } else { bad.join("+") }
}

pub fn all_equal(a: &ChessBoard, b: &ChessBoard) -> bool {
    a == b && a.get_hash() == b.get_hash() && a.get_pin_mask() == b.get_pin_mask() && a.get_check_mask() == b.get_check_mask()
        && a.is_terminal() == b.is_terminal() && a.get_status() == b.get_status() && describe(a) == describe(b)
}

pub fn sorted_moves(b: &ChessBoard) -> Vec<(String, BoardMove)> {
    let mut v: Vec<(String, BoardMove)> = b.get_legal_moves().into_iter().map(|m| (mv_text(&m), m)).collect();
    v.sort_by(|a, b| a.0.cmp(&b.0));
    v
}

pub fn san_of(b: &ChessBoard, m: &BoardMove) -> String {
    match quiet(|| MovePropertiesOnBoard::new(m, b).map(|p| m.to_string(p))) {
        Ok(Ok(s)) => s,
        Ok(Err(_)) => "ERR".into(),
        Err(_) => "PANIC".into(),
    }
}

/// all 147,458 move values
pub fn universe() -> Vec<BoardMove> {
    let mut v = Vec::with_capacity(147458);
    let promos = [None, Some(PieceType::Knight), Some(PieceType::Bishop), Some(PieceType::Rook), Some(PieceType::Queen), Some(PieceType::King)];
    for t in TYPES {
        for a in 0..64u8 {
            for d in 0..64u8 {
                for p in promos { v.push(BoardMove::MovePiece(PieceMove::new(t, sq(a), sq(d), p).unwrap())) }
            }
        }
    }
    v.push(BoardMove::CastleKingSide);
    v.push(BoardMove::CastleQueenSide);
    v
}

/// C03 over the complete universe: the set accepted by is_legal_move, and the number of move values on which
/// some form misbehaves (panic, wrong error, board changed on rejection, forms disagree on acceptance)
pub fn universe_obs(b: &ChessBoard, uni: &[BoardMove]) -> (String, usize, String) {
    let mut legal: Vec<String> = vec![];
    let mut bad = 0usize;
    let mut first_bad = String::new();
    for m in uni {
        let r = quiet(|| b.is_legal_move(m));
        let mut this_bad = false;
        match r {
            Err(_) => this_bad = true,
            Ok(l) => {
                if l { legal.push(mv_text(m)) }
                let orig = *b;
                let mk = quiet(|| b.make_move(m));
                match mk {
                    Err(_) => this_bad = true,
                    Ok(Ok(nb)) => {
                        if !l { this_bad = true } else {
                            let mut ib = *b;
                            let r2 = quiet(|| ib.make_move_mut(m).is_ok());
                            let ub = quiet(|| unsafe { b.make_move_unchecked(m) });
                            if r2 != Ok(true) || !all_equal(&ib, &nb) || ub.map(|x| all_equal(&x, &nb)) != Ok(true) { this_bad = true }
                        }
                    }
                    Ok(Err(e)) => {
                        if l || !matches!(e, errors::LibChessError::IllegalMoveDetected) { this_bad = true }
                        let mut ib = *b;
                        let r2 = quiet(|| ib.make_move_mut(m).is_err());
                        if r2 != Ok(true) || !all_equal(&ib, &orig) { this_bad = true }
                    }
                }
                if !all_equal(b, &orig) { this_bad = true }
            }
        }
        if this_bad { bad += 1; if first_bad.is_empty() { first_bad = mv_text(m) } }
    }
    legal.sort();
    (legal.join(","), bad, first_bad)
}

/// the B-record fields of one board (without tag/id/src/prev parts)
pub fn board_fields(b: &ChessBoard, flags: u32, uni: Option<&[BoardMove]>) -> String {
    let mut f: Vec<String> = vec![];
    let d = describe(b);
    f.push(format!("d={}", d.to_string()));
    f.push(format!("tm={}", TYPES.iter().map(|t| bbhex(b.get_piece_type_mask(*t))).collect::<Vec<_>>().join(",")));
    f.push(format!("cm={},{}", bbhex(b.get_color_mask(Color::White)), bbhex(b.get_color_mask(Color::Black))));
    f.push(format!("all={}", bbhex(b.get_combined_mask())));
    f.push(format!("hash={:016x}", b.get_hash()));
    f.push(format!("rehash={:016x}", ZOBRIST_TABLES.calculate_position_hash(b)));
    f.push(format!("pin={}", bbhex(b.get_pin_mask())));
    f.push(format!("chk={}", bbhex(b.get_check_mask())));
    f.push(format!("term={}", b.is_terminal() as u8));
    f.push(format!("st={}", match quiet(|| b.get_status()) { Ok(s) => status_str(s), Err(_) => "PANIC" }));
    f.push(format!("td={}", match quiet(|| b.is_theoretical_draw_on_board()) { Ok(x) => (x as u8).to_string(), Err(_) => "PANIC".into() }));
    f.push(format!("ksq={}", match quiet(|| (b.get_king_square(Color::White).to_int(), b.get_king_square(Color::Black).to_int())) { Ok((w, k)) => format!("{},{}", w, k), Err(_) => "PANIC".into() }));
    f.push(format!("mon={}", monitor(b)));
    let moves = sorted_moves(b);
    let mut nodup = 1;
    for i in 1..moves.len() { if moves[i].0 == moves[i - 1].0 { nodup = 0 } }
    f.push(format!("moves={}", moves.iter().map(|x| x.0.clone()).collect::<Vec<_>>().join(",")));
    f.push(format!("nodup={}", nodup));
    f.push(format!("cq={}", cr_idx(b.castling_is_available_on_board(None))));
    let fen = b.as_fen();
    f.push(format!("fen={}", fen));
    if flags & F_REFEN != 0 {
        let re = match quiet(|| ChessBoard::from_fen(&fen)) {
            Ok(Ok(nb)) => if all_equal(&nb, b) && nb.get_legal_moves() == b.get_legal_moves() { "ok".to_string() } else { "differs".into() },
            Ok(Err(_)) => "err".into(),
            Err(_) => "panic".into(),
        };
        let su = match d.build_setup() {
            Ok(Ok(nb)) => if all_equal(&nb, b) { "ok".to_string() } else { "differs".into() },
            Ok(Err(_)) => "err".into(),
            Err(_) => "panic".into(),
        };
        let bb = match quiet(|| fen.parse::<BoardBuilder>().map(|x| format!("{}", x))) {
            Ok(Ok(s)) => if s == fen { "ok".to_string() } else { "differs".into() },
            Ok(Err(_)) => "err".into(),
            Err(_) => "panic".into(),
        };
        f.push(format!("refen={}", re));
        f.push(format!("resetup={}", su));
        f.push(format!("rebuilder={}", bb));
    }
    if flags & F_SANS != 0 {
        f.push(format!("sans={}", moves.iter().map(|x| san_of(b, &x.1)).collect::<Vec<_>>().join(",")));
        // asking for the notation properties of an ILLEGAL move must give an error: king steps and hops, and a few
        // displaced destinations of every own piece, that are not in the legal list
        let legal: std::collections::HashSet<String> = moves.iter().map(|x| mv_text(&x.1)).collect();
        let mut probes: Vec<String> = vec![];
        for s in b.get_color_mask(b.get_side_to_move()) {
            let t = match b.get_piece_type_on(s) { Some(t) => t, None => continue };
            let si = s.to_int() as i32;
            let ds: Vec<i32> = if t == PieceType::King { vec![1, -1, 8, -8, 7, -7, 9, -9, 2, -2, 16, -16] } else { vec![1, 8, 17, -9] };
            for dd in ds {
                let di = si + dd;
                if !(0..64).contains(&di) { continue }
                let m = BoardMove::MovePiece(PieceMove::new(t, s, sq(di as u8), None).unwrap());
                let txt = mv_text(&m);
                if legal.contains(&txt) { continue }
                let r = match quiet(|| MovePropertiesOnBoard::new(&m, b)) { Ok(Ok(_)) => "OK", Ok(Err(_)) => "ERR", Err(_) => "PANIC" };
                probes.push(format!("{}:{}", txt, r));
            }
        }
        f.push(format!("sanill={}", probes.join(",")));
    }
    if flags & F_RENDER != 0 {
        f.push(format!("rs={}", hex(&strip_ansi(&b.render_straight()))));
        f.push(format!("rf={}", hex(&strip_ansi(&b.render_flipped()))));
        f.push(format!("disp={}", if format!("{}", b) == b.render_straight() { "ok" } else { "differs" }));
    }
    if flags & F_MINIUNI != 0 {
        // C03 on the natural sub-universe: every own piece (with its true type) to every square, without promotion and
        // with promotion to queen / knight, plus both castlings; the accepted set must be the legal-move list
        let mut acc: Vec<String> = vec![];
        let mut bad = 0;
        let own = b.get_color_mask(b.get_side_to_move());
        for s in own {
            let t = match b.get_piece_type_on(s) { Some(t) => t, None => continue };
            for dd in 0..64u8 {
                for pr in [None, Some(PieceType::Queen), Some(PieceType::Knight)] {
                    let m = BoardMove::MovePiece(PieceMove::new(t, s, sq(dd), pr).unwrap());
                    match quiet(|| b.is_legal_move(&m)) { Ok(true) => acc.push(mv_text(&m)), Ok(false) => {}, Err(_) => bad += 1 }
                }
            }
        }
        for m in [BoardMove::CastleKingSide, BoardMove::CastleQueenSide] {
            match quiet(|| b.is_legal_move(&m)) { Ok(true) => acc.push(mv_text(&m)), Ok(false) => {}, Err(_) => bad += 1 }
        }
        acc.sort();
        f.push(format!("muni={}", acc.join(",")));
        f.push(format!("munibad={}", bad));
    }
    if flags & F_UNIVERSE != 0 {
        let (set, bad, fb) = universe_obs(b, uni.unwrap());
        f.push(format!("uni={}", set));
        f.push(format!("unibad={}{}", bad, if bad > 0 { format!(":{}", fb) } else { String::new() }));
    }
    f.join("|")
}

/// successor through all application forms; returns the successor and the `forms` field
pub fn apply_forms(b: &ChessBoard, m: &BoardMove) -> (Option<ChessBoard>, String) {
    let orig = *b;
    let a = quiet(|| b.make_move(m));
    let nb = match a {
        Ok(Ok(nb)) => nb,
        Ok(Err(_)) => return (None, "checked-err".into()),
        Err(_) => return (None, "checked-panic".into()),
    };
    let mut bad: Vec<&str> = vec![];
    if !all_equal(b, &orig) { bad.push("receiver-changed") }
    let mut ib = *b;
    match quiet(|| ib.make_move_mut(m).is_ok()) {
        Ok(true) => if !all_equal(&ib, &nb) { bad.push("inplace-differs") },
        _ => bad.push("inplace-failed"),
    }
    match quiet(|| unsafe { b.make_move_unchecked(m) }) {
        Ok(ub) => if !all_equal(&ub, &nb) { bad.push("unchecked-differs") },
        Err(_) => bad.push("unchecked-panic"),
    }
    let mut ub2 = *b;
    match quiet(|| { unsafe { ub2.make_move_mut_unchecked(m); } }) {
        Ok(()) => if !all_equal(&ub2, &nb) { bad.push("unchecked-mut-differs") },
        Err(_) => bad.push("unchecked-mut-panic"),
    }
    (Some(nb), if bad.is_empty() { "ok".into() } else { bad.join("+") })
}

// ---------- table and key dump ----------
pub fn dump_tables_v() -> String {
    let mut s = String::from("(* GENERATED on every run by `harness dump` from the running library: every entry of every public movement table. *)\nFrom Coq Require Import List NArith.\nImport ListNotations.\nOpen Scope N_scope.\n");
    let list = |name: &str, f: &dyn Fn(Square) -> BitBoard| -> String {
        format!("Definition {} : list N := [{}].\n", name, (0..64u8).map(|i| f(sq(i)).bits().to_string()).collect::<Vec<_>>().join(";"))
    };
    s += &list("impl_knight", &|x| KNIGHT_TABLE.get_moves(x));
    s += &list("impl_king", &|x| KING_TABLE.get_moves(x));
    s += &list("impl_bishop", &|x| BISHOP_TABLE.get_moves(x));
    s += &list("impl_rook", &|x| ROOK_TABLE.get_moves(x));
    s += &list("impl_queen", &|x| QUEEN_TABLE.get_moves(x));
    s += &list("impl_pawn_push_w", &|x| PAWN_TABLE.get_moves(x, Color::White));
    s += &list("impl_pawn_push_b", &|x| PAWN_TABLE.get_moves(x, Color::Black));
    s += &list("impl_pawn_dbl_w", &|x| PAWN_TABLE.get_double_moves(x, Color::White));
    s += &list("impl_pawn_dbl_b", &|x| PAWN_TABLE.get_double_moves(x, Color::Black));
    s += &list("impl_pawn_cap_w", &|x| PAWN_TABLE.get_captures(x, Color::White));
    s += &list("impl_pawn_cap_b", &|x| PAWN_TABLE.get_captures(x, Color::Black));
    s += &format!("Definition impl_rays : list (list N) := [{}].\n",
        (0..64u8).map(|i| format!("[{}]", RAYS_TABLE.get(sq(i)).iter().map(|b| b.bits().to_string()).collect::<Vec<_>>().join(";"))).collect::<Vec<_>>().join(";\n "));
    s += &format!("Definition impl_between : list (list (option N)) := [{}].\n",
        (0..64u8).map(|a| format!("[{}]", (0..64u8).map(|b| match BETWEEN_TABLE.get(sq(a), sq(b)) { Some(x) => format!("Some {}", x.bits()), None => "None".into() }).collect::<Vec<_>>().join(";"))).collect::<Vec<_>>().join(";\n "));
    s
}
pub fn dump_tables_txt() -> String {
    let mut s = String::new();
    let mut row = |name: &str, idx: String, v: String| s += &format!("T|{}|{}|{}\n", name, idx, v);
    for i in 0..64u8 {
        let x = sq(i);
        row("knight", i.to_string(), KNIGHT_TABLE.get_moves(x).bits().to_string());
        row("king", i.to_string(), KING_TABLE.get_moves(x).bits().to_string());
        row("bishop", i.to_string(), BISHOP_TABLE.get_moves(x).bits().to_string());
        row("rook", i.to_string(), ROOK_TABLE.get_moves(x).bits().to_string());
        row("queen", i.to_string(), QUEEN_TABLE.get_moves(x).bits().to_string());
        for (c, cn) in [(Color::White, "w"), (Color::Black, "b")] {
            row(&format!("pawn_push_{}", cn), i.to_string(), PAWN_TABLE.get_moves(x, c).bits().to_string());
            row(&format!("pawn_dbl_{}", cn), i.to_string(), PAWN_TABLE.get_double_moves(x, c).bits().to_string());
            row(&format!("pawn_cap_{}", cn), i.to_string(), PAWN_TABLE.get_captures(x, c).bits().to_string());
        }
        for (k, r) in RAYS_TABLE.get(x).iter().enumerate() { row("ray", format!("{},{}", i, k), r.bits().to_string()) }
        for j in 0..64u8 {
            row("between", format!("{},{}", i, j), match BETWEEN_TABLE.get(x, sq(j)) { Some(b) => b.bits().to_string(), None => "none".into() });
        }
    }
    s
}
pub fn keys() -> (Vec<u64>, Vec<u64>, Vec<u64>, u64) {
    let mut ps = vec![];
    for c in [Color::White, Color::Black] {
        for t in TYPES { for i in 0..64u8 { ps.push(ZOBRIST_TABLES.get_piece_square_value(Piece(t, c), sq(i))) } }
    }
    let mut cs = vec![];
    for c in [Color::White, Color::Black] { for r in 0..4u8 { cs.push(ZOBRIST_TABLES.get_castling_rights_value(cr_of(r), c)) } }
    let eps: Vec<u64> = (0..8u8).map(|f| ZOBRIST_TABLES.get_en_passant_value(sq(f))).collect();
    (ps, cs, eps, ZOBRIST_TABLES.get_black_to_move_value())
}
pub fn dump_keys_v() -> String {
    let (ps, cs, eps, bk) = keys();
    let l = |v: &Vec<u64>| v.iter().map(|x| x.to_string()).collect::<Vec<_>>().join(";");
    format!("(* GENERATED on every run by `harness dump`: the 785 Zobrist keys published by the running library.\n   piece keys: colour-major, then piece type, then square; castling keys: colour-major, then CastlingRights::to_index;\n   en-passant keys by file. *)\nFrom Coq Require Import List NArith.\nImport ListNotations.\nOpen Scope N_scope.\nDefinition impl_piece_keys : list N := [{}].\nDefinition impl_castle_keys : list N := [{}].\nDefinition impl_ep_keys : list N := [{}].\nDefinition impl_black_key : N := {}.\n", l(&ps), l(&cs), l(&eps), bk)
}
pub fn dump_keys_txt() -> String {
    let (ps, cs, eps, bk) = keys();
    let l = |v: &Vec<u64>| v.iter().map(|x| x.to_string()).collect::<Vec<_>>().join(" ");
    format!("{}\n{}\n{}\n{}\n", l(&ps), l(&cs), l(&eps), bk)
}
