// gens.rs — input generators for positions (G1 playouts, G2 BFS, G3 synthetic, G4 families)
use crate::obs::*;
use crate::util::*;
use libchess::*;
use std::collections::HashSet;
use std::io::Write;

pub struct Ctx<'a> {
    pub w: &'a mut dyn Write,
    pub rng: Rng,
    pub flags: u32,
    pub uni: Vec<BoardMove>,
    pub uni_every: usize, // universe check on every n-th record (0 = never)
    pub nrec: usize,
    pub thin: usize,
    pub prefix: String,
    pub ncase: usize,
}

impl<'a> Ctx<'a> {
    pub fn case_id(&mut self) -> String { self.ncase += 1; format!("{}{}", self.prefix, self.ncase) }
    fn rec_flags(&mut self) -> u32 {
        self.nrec += 1;
        let mut fl = self.flags;
        // the per-position sub-universe is the dominant cost: in the thorough tier (thin > 1) it is applied to every thin-th record
        if self.thin > 1 && self.nrec % self.thin != 0 { fl &= !F_MINIUNI }
        if self.uni_every > 0 && self.nrec % self.uni_every == 0 { fl | F_UNIVERSE } else { fl }
    }
    /// ply-0 record: construct from the descriptor (through the piece-list path or harness-written FEN)
    pub fn start(&mut self, id: &str, d: &Desc, via_fen: bool) -> Option<ChessBoard> {
        let r = if via_fen { d.build_fen() } else { d.build_setup() };
        let other = if via_fen { d.build_setup() } else { d.build_fen() };
        let acc = |x: &Result<Result<ChessBoard, String>, ()>| match x { Ok(Ok(_)) => "ok", Ok(Err(_)) => "err", Err(_) => "panic" };
        let head = format!("B|id={}.0|src={}|via={}|acc={}|acc2={}", id, d.to_string(), if via_fen { "fen" } else { "setup" }, acc(&r), acc(&other));
        match r {
            Ok(Ok(b)) => {
                let same = match other { Ok(Ok(o)) => if all_equal(&o, &b) { "ok" } else { "differs" }, _ => "na" };
                let fl = self.rec_flags();
                writeln!(self.w, "{}|paths={}|{}", head, same, board_fields(&b, fl, Some(&self.uni))).unwrap();
                Some(b)
            }
            _ => { writeln!(self.w, "{}", head).unwrap(); None }
        }
    }
    /// ply-k record: apply a move through all forms
    pub fn step(&mut self, id: &str, ply: usize, b: &ChessBoard, m: &BoardMove) -> Option<ChessBoard> {
        let prev = describe(b);
        let (nb, forms) = apply_forms(b, m);
        let head = format!("B|id={}.{}|prev={}|mv={}|forms={}", id, ply, prev.to_string(), mv_text(m), forms);
        match nb {
            Some(nb) => { let fl = self.rec_flags(); writeln!(self.w, "{}|{}", head, board_fields(&nb, fl, Some(&self.uni))).unwrap(); Some(nb) }
            None => { writeln!(self.w, "{}", head).unwrap(); None }
        }
    }
}

fn interesting(b: &ChessBoard, m: &BoardMove) -> bool {
    match m {
        BoardMove::MovePiece(pm) => pm.get_promotion().is_some() || pm.is_capture_on_board(b) || pm.get_piece_type() == PieceType::King || pm.get_piece_type() == PieceType::Rook,
        _ => true,
    }
}

pub fn choose_move(rng: &mut Rng, b: &ChessBoard, moves: &[(String, BoardMove)]) -> BoardMove {
    if rng.chance(1, 3) {
        let good: Vec<&(String, BoardMove)> = moves.iter().filter(|x| interesting(b, &x.1)).collect();
        if !good.is_empty() { return good[rng.below(good.len())].1 }
    }
    moves[rng.below(moves.len())].1
}

pub fn playout(cx: &mut Ctx, d: &Desc, max_plies: usize) {
    let id = cx.case_id();
    let via_fen = cx.rng.chance(1, 2);
    let mut b = match cx.start(&id, d, via_fen) { Some(b) => b, None => return };
    for ply in 1..=max_plies {
        let moves = sorted_moves(&b);
        if moves.is_empty() { break }
        let m = choose_move(&mut cx.rng, &b, &moves);
        b = match cx.step(&id, ply, &b, &m) { Some(nb) => nb, None => break };
    }
}

pub fn bfs(cx: &mut Ctx, d: &Desc, depth: usize, cap: usize) {
    let id = cx.case_id();
    let b0 = match cx.start(&id, d, false) { Some(b) => b, None => return };
    let mut seen: HashSet<Desc> = HashSet::new();
    let mut frontier = vec![b0];
    let mut n = 0usize;
    for _ in 0..depth {
        let mut next = vec![];
        for b in &frontier {
            for (_, m) in sorted_moves(b) {
                n += 1;
                if n > cap { return }
                if let Some(nb) = cx.step(&id, n, b, &m) {
                    if seen.insert(describe(&nb)) { next.push(nb) }
                }
            }
        }
        frontier = next;
    }
}

// ---------- G3: synthetic placements ----------
fn adjacent(a: usize, b: usize) -> bool {
    let (ar, af, br, bf) = ((a / 8) as i32, (a % 8) as i32, (b / 8) as i32, (b % 8) as i32);
    (ar - br).abs() <= 1 && (af - bf).abs() <= 1
}

pub fn synthetic(rng: &mut Rng) -> Desc {
    let mut d = Desc::empty();
    // kings: usually at home so that castling rights can be granted
    let wk = if rng.chance(1, 3) { 4 } else { rng.below(64) };
    let mut bk = if rng.chance(1, 3) { 60 } else { rng.below(64) };
    while bk == wk || adjacent(wk, bk) { bk = rng.below(64) }
    d.pl[wk] = b'K';
    d.pl[bk] = b'k';
    // corner rooks with some probability
    for (s, c) in [(0usize, b'R'), (7, b'R'), (56, b'r'), (63, b'r')] {
        if d.pl[s] == b'.' && rng.chance(1, 2) { d.pl[s] = c }
    }
    let n = rng.below(14);
    let heavy = rng.chance(1, 4); // many same-type pieces
    let fav = *rng.pick(b"NBRQ");
    for _ in 0..n {
        let s = rng.below(64);
        if d.pl[s] != b'.' { continue }
        let white = rng.chance(1, 2);
        let mut t = *rng.pick(b"PPPPNNBBRRQ");
        if heavy && rng.chance(2, 3) { t = fav }
        if t == b'P' && (s / 8 == 0 || s / 8 == 7) && !rng.chance(1, 10) { continue }
        d.pl[s] = if white { t } else { t.to_ascii_lowercase() };
    }
    d.stm = if rng.chance(1, 2) { b'w' } else { b'b' };
    // rights: granted when king and rook are at home (each of the combinations with equal chance)
    let grant = |d: &Desc, k: usize, kc: u8, r: usize, rc: u8| d.pl[k] == kc && d.pl[r] == rc;
    if rng.chance(3, 4) {
        d.wr = ((grant(&d, 4, b'K', 7, b'R') && rng.chance(1, 2)) as u8) * 2 + (grant(&d, 4, b'K', 0, b'R') && rng.chance(1, 2)) as u8;
        d.br = ((grant(&d, 60, b'k', 63, b'r') && rng.chance(1, 2)) as u8) * 2 + (grant(&d, 60, b'k', 56, b'r') && rng.chance(1, 2)) as u8;
    }
    // en passant, built retro-actively: a pawn of the side that just moved on its 4th rank, two empty squares behind it
    if rng.chance(1, 2) {
        let f = rng.below(8);
        let (pawn_sq, ep_sq, org_sq, pc) = if d.stm == b'w' { (32 + f, 40 + f, 48 + f, b'p') } else { (24 + f, 16 + f, 8 + f, b'P') };
        if d.pl[pawn_sq] == b'.' && d.pl[ep_sq] == b'.' && d.pl[org_sq] == b'.' {
            d.pl[pawn_sq] = pc;
            d.ep = Some(ep_sq as u8);
            // a capturer next to it, most of the time
            let cap = if d.stm == b'w' { b'P' } else { b'p' };
            for df in [-1i32, 1] {
                let nf = f as i32 + df;
                if (0..8).contains(&nf) && rng.chance(2, 3) {
                    let s = (pawn_sq as i32 - f as i32 + nf) as usize;
                    if d.pl[s] == b'.' { d.pl[s] = cap }
                }
            }
        }
    }
    d.half = *rng.pick(&[0u64, 0, 1, 5, 49, 97, 98, 99, 100, 101, 150, 1u64 << 40]);
    d.full = *rng.pick(&[1u64, 1, 2, 17, 60, 1000, 1u64 << 33]);
    d
}

/// single-defect corruption of a description
pub fn corrupt(rng: &mut Rng, d: &Desc) -> Desc {
    let mut c = d.clone();
    let find = |d: &Desc, ch: u8| (0..64).find(|&i| d.pl[i] == ch);
    match rng.below(9) {
        0 => { if let Some(i) = find(d, b'K') { c.pl[i] = b'.' } }
        1 => { if let Some(i) = find(d, b'k') { c.pl[i] = b'.' } }
        2 => { let s = rng.below(64); if c.pl[s] == b'.' { c.pl[s] = b'K' } }
        3 => { let s = rng.below(64); if c.pl[s] == b'.' { c.pl[s] = b'k' } }
        4 => { c.wr = rng.below(4) as u8; c.br = rng.below(4) as u8 }
        5 => { c.ep = Some(rng.below(64) as u8) }
        6 => { c.stm = if d.stm == b'w' { b'b' } else { b'w' } }
        7 => {
            // ep on the right rank with something wrong around it
            let f = rng.below(8);
            let e = if c.stm == b'w' { 40 + f } else { 16 + f };
            c.ep = Some(e as u8);
            match rng.below(3) {
                0 => c.pl[e] = *rng.pick(b"Nn.pP"),
                1 => { let o = if c.stm == b'w' { e + 8 } else { e - 8 }; c.pl[o] = *rng.pick(b"Nn.") }
                _ => { let p = if c.stm == b'w' { e - 8 } else { e + 8 }; c.pl[p] = *rng.pick(b"pPnN.") }
            }
        }
        _ => { let s = rng.below(64); if c.pl[s] != b'K' && c.pl[s] != b'k' { c.pl[s] = *rng.pick(PIECE_CHARS) } }
    }
    c
}

/// en-passant squares whose "victim" square holds something else than the enemy pawn (the mover's own king, another
/// own piece, nothing), with a capturer next to it whose push is blocked so that the capture is the first move tried
pub fn family_ep_defects(out: &mut Vec<Desc>) {
    for f in 0..8usize {
        for victim in [b'K', b'N', b'.', b'n', b'k'] {
            for side in [-1i32, 1] {
                let cf = f as i32 + side;
                if !(0..8).contains(&cf) { continue }
                for blocked in [true, false] {
                    let mut d = Desc::empty();
                    d.ep = Some((40 + f) as u8);
                    d.pl[32 + f] = victim;
                    d.pl[(32 + cf) as usize] = b'P';
                    if blocked { d.pl[(40 + cf) as usize] = b'p' }
                    if victim != b'K' { d.pl[0] = b'K' }
                    if victim != b'k' { d.pl[63] = b'k' }
                    out.push(d.clone());
                    out.push(d.flipped());
                }
            }
        }
    }
    // a consistent-looking pawn structure (enemy pawn in front, empty origin behind) around an en-passant square on EVERY
    // rank, for either side to move: only the sixth rank with White to move / the third with Black is valid
    for e in 8..56usize {
        for stm in [b'w', b'b'] {
            let (victim, origin, pawn) = if stm == b'w' { (e - 8, e + 8, b'p') } else { (e + 8, e - 8, b'P') };
            let mut d = Desc::empty();
            d.stm = stm;
            d.ep = Some(e as u8);
            d.pl[victim] = pawn;
            let _ = origin;
            for (k, c) in [(b'K', [0usize, 7, 56, 63]), (b'k', [63usize, 56, 7, 0])] {
                for sq in c { if d.pl[sq] == b'.' && sq != e && sq != victim && sq != origin && !(k == b'k' && (0..64).any(|x| d.pl[x] == b'K' && adjacent(x, sq))) { d.pl[sq] = k; break } }
            }
            out.push(d);
        }
    }
}

// ---------- G4: exhaustive small-material families ----------
const DIRS: [(i32, i32); 8] = [(1, 0), (-1, 0), (0, 1), (0, -1), (1, 1), (1, -1), (-1, 1), (-1, -1)];

/// king x direction x distance x slider type x blocker pattern, both colours to move
pub fn family_sliders(out: &mut Vec<Desc>) {
    for k in 0..64usize {
        for (dr, df) in DIRS {
            let mut line = vec![];
            let (mut r, mut f) = ((k / 8) as i32 + dr, (k % 8) as i32 + df);
            while (0..8).contains(&r) && (0..8).contains(&f) { line.push((r * 8 + f) as usize); r += dr; f += df }
            for dist in 1..line.len() + 1 {
                let a = line[dist - 1];
                for slider in [b'r', b'b', b'q'] {
                    // blocker patterns: none, own knight, own pawn, enemy knight, two own, own+enemy
                    let pats: Vec<Vec<u8>> = vec![vec![], vec![b'N'], vec![b'P'], vec![b'n'], vec![b'N', b'B'], vec![b'N', b'n']];
                    for pat in pats {
                        if pat.len() > dist - 1 { continue }
                        let mut d = Desc::empty();
                        d.pl[k] = b'K';
                        d.pl[a] = slider;
                        for (i, p) in pat.iter().enumerate() {
                            let s = line[if i == 0 { 0 } else { dist - 2 }];
                            if d.pl[s] != b'.' { continue }
                            if *p == b'P' && (s / 8 == 0 || s / 8 == 7) { d.pl[s] = b'N' } else { d.pl[s] = *p }
                        }
                        // black king somewhere harmless
                        let bk = (0..64).find(|&s| d.pl[s] == b'.' && !adjacent(s, k) && !line.contains(&s) && s % 8 != k % 8 && s / 8 != k / 8);
                        if let Some(bk) = bk { d.pl[bk] = b'k' } else { continue }
                        out.push(d.clone());
                        out.push(d.flipped());
                    }
                }
            }
        }
    }
}

/// crowded boards (33 to 60 men): both kings in opposite corners behind their own guards, everything else filled with
/// pawns and line pieces of either colour (no knight can reach a king, every line to a king is blocked by a guard)
pub fn family_crowded(rng: &mut Rng, n: usize, out: &mut Vec<Desc>) {
    for i in 0..n {
        let mut d = Desc::empty();
        d.pl[0] = b'K'; d.pl[1] = b'N'; d.pl[8] = b'P'; d.pl[9] = b'P';
        d.pl[63] = b'k'; d.pl[62] = b'n'; d.pl[55] = b'p'; d.pl[54] = b'p';
        let dens = 60 + 5 * (i % 8) as u64; // per cent
        for s in 0..64usize {
            if d.pl[s] != b'.' || !rng.chance(dens, 100) { continue }
            // squares from which a pawn would attack a king are left to line pieces
            let back = s / 8 == 0 || s / 8 == 7;
            let t = if back || rng.chance(1, 3) { *rng.pick(b"BRQ") } else { b'P' };
            d.pl[s] = if rng.chance(1, 2) { t } else { t.to_ascii_lowercase() };
        }
        d.stm = if i % 2 == 0 { b'w' } else { b'b' };
        out.push(d);
    }
}

/// two line pieces of one kind and colour on one line with an enemy piece strictly between them (both can capture it),
/// and the same with a free square in between as the common destination
pub fn family_collinear(out: &mut Vec<Desc>) {
    for k in 0..64usize {
        for (dr, df) in [(0i32, 1i32), (1, 0), (1, 1), (1, -1)] {
            let mut line = vec![k];
            let (mut r, mut f) = ((k / 8) as i32 + dr, (k % 8) as i32 + df);
            while (0..8).contains(&r) && (0..8).contains(&f) { line.push((r * 8 + f) as usize); r += dr; f += df }
            if line.len() < 3 { continue }
            let diag = dr != 0 && df != 0;
            for j in 1..line.len() - 1 {
                for e in j + 1..line.len() {
                    for t in if diag { [b'B', b'Q'] } else { [b'R', b'Q'] } {
                        for mid in [b'n', b'.'] {
                            let mut d = Desc::empty();
                            d.pl[line[0]] = t; d.pl[line[e]] = t; d.pl[line[j]] = mid;
                            // kings off every line through the three squares
                            let safe = |s: usize, d: &Desc| d.pl[s] == b'.' && line.iter().all(|&x| { let (a, b) = ((s / 8) as i32 - (x / 8) as i32, (s % 8) as i32 - (x % 8) as i32); a != 0 && b != 0 && a.abs() != b.abs() });
                            let wk = match (0..64).find(|&s| safe(s, &d)) { Some(x) => x, None => continue };
                            d.pl[wk] = b'K';
                            let bk = (0..64).rev().find(|&s| safe(s, &d) && !adjacent(s, wk));
                            if let Some(bk) = bk { d.pl[bk] = b'k' } else { continue }
                            out.push(d.clone());
                            out.push(d.flipped());
                        }
                    }
                }
            }
        }
    }
}

/// castling: rights x one extra piece of either colour on any square
pub fn family_castling(out: &mut Vec<Desc>) {
    for rights in 1..4u8 {
        for extra in [b'n', b'b', b'r', b'q', b'p', b'k', b'N', b'B', b'P'] {
            for s in 0..64usize {
                let mut d = Desc::empty();
                d.pl[4] = b'K';
                d.pl[0] = b'R';
                d.pl[7] = b'R';
                d.wr = rights;
                if d.pl[s] != b'.' { continue }
                if extra == b'p' && (s / 8 == 0 || s / 8 == 7) { continue }
                if extra == b'P' && (s / 8 == 0 || s / 8 == 7) { continue }
                d.pl[s] = extra;
                if extra != b'k' {
                    let bk = [60usize, 63, 56, 39, 32].into_iter().find(|&x| d.pl[x] == b'.' && x != s);
                    d.pl[bk.unwrap()] = b'k';
                } else if adjacent(s, 4) { continue }
                out.push(d.clone());
                out.push(d.flipped());
            }
        }
    }
}

/// en passant with own king and an enemy slider on lines through the two pawns
pub fn family_en_passant(rng: &mut Rng, n: usize, out: &mut Vec<Desc>) {
    let mut tries = 0;
    while out.len() < n && tries < n * 20 {
        tries += 1;
        let f = rng.below(8);
        let mut d = Desc::empty();
        d.pl[32 + f] = b'p';
        d.ep = Some((40 + f) as u8);
        let mut have = false;
        for df in [-1i32, 1] {
            let nf = f as i32 + df;
            if (0..8).contains(&nf) && rng.chance(2, 3) { d.pl[(32 + nf) as usize] = b'P'; have = true }
        }
        if !have { continue }
        let k = rng.below(64);
        if d.pl[k] != b'.' || k == 40 + f || k == 48 + f { continue }
        d.pl[k] = b'K';
        let s = rng.below(64);
        if d.pl[s] != b'.' || s == 40 + f || s == 48 + f { continue }
        d.pl[s] = *rng.pick(b"rbq");
        let bk = rng.below(64);
        if d.pl[bk] != b'.' || adjacent(bk, k) || bk == 40 + f || bk == 48 + f { continue }
        d.pl[bk] = b'k';
        if rng.chance(1, 4) { let x = rng.below(64); if d.pl[x] == b'.' && x != 40 + f && x != 48 + f { d.pl[x] = *rng.pick(b"NnBb") } }
        out.push(d.clone());
        out.push(d.flipped());
    }
}

/// en-passant captures that uncover a line through the removed pawn: the mover's king and an enemy slider stand on a
/// diagonal through the victim's square (the capturing pawn does not land on that diagonal), or on the rank of the two
/// pawns with nothing else between.  Exhaustive over files, capturing side, direction and distances; both colours.
pub fn family_ep_lines(out: &mut Vec<Desc>) {
    let on = |r: i32, f: i32| (0..8).contains(&r) && (0..8).contains(&f);
    for f in 0..8i32 {
        for df in [-1i32, 1] {
            let cf = f + df;
            if !(0..8).contains(&cf) { continue }
            let mut base = Desc::empty();
            base.pl[(32 + f) as usize] = b'p';
            base.pl[(32 + cf) as usize] = b'P';
            base.ep = Some((40 + f) as u8);
            let reserved = |sq: i32| sq == 40 + f || sq == 48 + f || sq == 32 + f || sq == 32 + cf;
            // lines through the victim's square (rank 4, file f): the four diagonals and the two rank directions
            for (dr, dc) in [(1i32, 1i32), (1, -1), (-1, 1), (-1, -1), (0, 1), (0, -1)] {
                for kd in 1..8i32 {
                    let (kr, kf) = (4 + dr * kd, f + dc * kd);
                    if !on(kr, kf) { break }
                    let ksq = kr * 8 + kf;
                    if ksq == 32 + cf && dr == 0 { continue }   // rank case: the king is beyond the capturing pawn
                    if reserved(ksq) { if dr == 0 { continue } else { break } }
                    for sd in 1..8i32 {
                        let (sr, sf) = (4 - dr * sd, f - dc * sd);
                        if !on(sr, sf) { break }
                        let ssq = sr * 8 + sf;
                        if reserved(ssq) { if dr == 0 { continue } else { break } }
                        // squares strictly between must be empty except the pawns themselves (rank case)
                        let mut blocked = false;
                        for t in 1..kd { let q = (4 + dr * t) * 8 + f + dc * t; if reserved(q) && !(dr == 0 && q == 32 + cf) { blocked = true } }
                        for t in 1..sd { let q = (4 - dr * t) * 8 + f - dc * t; if reserved(q) && !(dr == 0 && q == 32 + cf) { blocked = true } }
                        if blocked { continue }
                        for pc in if dr == 0 { &b"rq"[..] } else { &b"bq"[..] } {
                            let mut d = base.clone();
                            d.pl[ksq as usize] = b'K';
                            d.pl[ssq as usize] = *pc;
                            // a black king far from everything
                            let mut placed = false;
                            for bk in [63usize, 56, 7, 0, 59, 60, 3, 4] {
                                if d.pl[bk] == b'.' && !adjacent(bk, ksq as usize) && !reserved(bk as i32) { d.pl[bk] = b'k'; placed = true; break }
                            }
                            if !placed { continue }
                            out.push(d.clone());
                            out.push(d.flipped());
                        }
                    }
                }
            }
        }
    }
}

/// seventh-rank pawns with capture choices, pins and kings nearby
pub fn family_promotion(rng: &mut Rng, n: usize, out: &mut Vec<Desc>) {
    let mut tries = 0;
    while out.len() < n && tries < n * 20 {
        tries += 1;
        let mut d = Desc::empty();
        let f = rng.below(8);
        d.pl[48 + f] = b'P';
        for df in [-1i32, 0, 1] {
            let nf = f as i32 + df;
            if (0..8).contains(&nf) && rng.chance(1, 2) { d.pl[(56 + nf) as usize] = *rng.pick(b"nbrq") }
        }
        let k = rng.below(56);
        if d.pl[k] != b'.' { continue }
        d.pl[k] = b'K';
        let bk = rng.below(64);
        if d.pl[bk] != b'.' || adjacent(bk, k) { continue }
        d.pl[bk] = b'k';
        for _ in 0..rng.below(4) { let x = rng.below(64); if d.pl[x] == b'.' { d.pl[x] = *rng.pick(b"rbqNBRQ") } }
        out.push(d.clone());
        out.push(d.flipped());
    }
}

/// near-terminal positions: the side to move has its king plus at most two other units, the opponent a few pieces
/// that box the king in; kept when the library reports at most two legal moves.  A quarter of the samples put an
/// en-passant capture on the board (own pawn next to a just-moved enemy pawn, often with a rook or queen on that rank).
pub fn family_boxed(rng: &mut Rng, n: usize, out: &mut Vec<Desc>) {
    let mut tries = 0;
    let target = out.len() + n;
    while out.len() < target && tries < n * 400 {
        tries += 1;
        let mut d = Desc::empty();
        let k = if rng.chance(2, 3) { *rng.pick(&[0usize, 7, 56, 63, 3, 4, 24, 31, 32, 39, 59, 60, 1, 6, 8, 15, 48, 55, 57, 62]) } else { rng.below(64) };
        d.pl[k] = b'K';
        let with_ep = rng.chance(1, 4);
        if with_ep {
            let f = 1 + rng.below(6);
            let side: i32 = if rng.chance(1, 2) { 1 } else { -1 };
            let (p, c) = (32 + f, (32 + f as i32 + side) as usize);
            if d.pl[p] != b'.' || d.pl[c] != b'.' || k == 40 + f || k == 48 + f { continue }
            d.pl[p] = b'p'; d.pl[c] = b'P'; d.ep = Some((40 + f) as u8);
            if rng.chance(2, 3) { let s = 32 + rng.below(8); if d.pl[s] == b'.' { d.pl[s] = *rng.pick(b"rq") } }
        } else {
            for _ in 0..rng.below(3) {
                let s = rng.below(64);
                if d.pl[s] != b'.' { continue }
                let t = *rng.pick(b"PPNBRQ");
                if t == b'P' && (s / 8 == 0 || s / 8 == 7) { continue }
                d.pl[s] = t;
                // a blocker in front of a pawn, often
                if t == b'P' && s + 8 < 64 && d.pl[s + 8] == b'.' && rng.chance(2, 3) { d.pl[s + 8] = *rng.pick(b"pnb") }
            }
        }
        let bk = rng.below(64);
        if d.pl[bk] != b'.' || adjacent(bk, k) { continue }
        d.pl[bk] = b'k';
        for _ in 0..(1 + rng.below(3)) {
            // enemy pieces near the king
            let kr = (k / 8) as i32 + rng.below(5) as i32 - 2;
            let kf = (k % 8) as i32 + rng.below(5) as i32 - 2;
            let s = if rng.chance(2, 3) && (0..8).contains(&kr) && (0..8).contains(&kf) { (kr * 8 + kf) as usize } else { rng.below(64) };
            if d.pl[s] == b'.' && !(d.ep == Some(s as u8)) && !(d.ep.map_or(false, |e| e as usize + 8 == s)) { d.pl[s] = *rng.pick(b"qrrbnp") }
        }
        if (0..8).any(|f| d.pl[f] == b'p' || d.pl[56 + f] == b'p') { continue }
        let b = match d.build_setup() { Ok(Ok(b)) => b, _ => continue };
        if b.get_legal_moves().len() > 2 { continue }
        out.push(d.clone());
        out.push(d.flipped());
    }
}

/// terminal positions with minimal material: a lone king (optionally with one minor piece) to move against king + one
/// minor piece, exhaustive over edge squares; kept when the side to move has no legal move (stalemates that are also
/// insufficient-material positions: the precedence between the two verdicts).
pub fn family_minor_stalemates(out: &mut Vec<Desc>) {
    for k in 0..64usize {
        let (kr, kf) = (k / 8, k % 8);
        if !(kr == 0 || kr == 7 || kf == 0 || kf == 7) { continue }
        for ok in 0..64usize {
            if ok == k || adjacent(ok, k) { continue }
            let dist = std::cmp::max((ok / 8).abs_diff(kr), (ok % 8).abs_diff(kf));
            if dist > 2 { continue }
            for m in 0..64usize {
                if m == k || m == ok { continue }
                for pc in [b'B', b'N'] {
                    let mut d = Desc::empty();
                    d.stm = b'b';
                    d.pl[k] = b'k'; d.pl[ok] = b'K'; d.pl[m] = pc;
                    let b = match d.build_setup() { Ok(Ok(b)) => b, _ => continue };
                    if !b.get_legal_moves().is_empty() { continue }
                    out.push(d.clone());
                    out.push(d.flipped());
                }
            }
        }
    }
}

/// positions whose only legal moves are promotions (a king with no move, one pawn on its seventh rank), not in check and in
/// check, with and without a capture-promotion; built by hand, not filtered through the library
pub fn family_only_promotions(out: &mut Vec<Desc>) {
    for f in 2..8usize {
        for cap in [0usize, 1, 2] {
            let mut d = Desc::empty();
            d.pl[0] = b'K'; d.pl[17] = b'k'; d.pl[28] = b'b';       // Ka1, kb3, be4 (b1 covered along e4-b1)
            d.pl[48 + f] = b'P';
            if cap == 1 && f < 7 { d.pl[56 + f + 1] = b'r' }          // something to capture on the last rank
            if cap == 2 { d.pl[56 + f] = b'n'; if f < 7 { d.pl[56 + f + 1] = b'r' } else { continue } } // push blocked, capture only
            out.push(d.clone()); out.push(d.flipped()); out.push(d.mirrored()); out.push(d.flipped().mirrored());
        }
    }
    // in check, the only replies are promotions that block or capture the checker
    let mut d = Desc::from_fen("8/8/8/8/8/5K2/1p5p/R6k b - - 0 1");
    out.push(d.clone()); out.push(d.flipped()); out.push(d.mirrored());
    d = Desc::from_fen("8/8/8/8/8/5K2/2p4p/R6k b - - 0 1");
    out.push(d.clone()); out.push(d.flipped());
}

/// en-passant capture made illegal by a rank attack (king, capturer, victim and an enemy rook/queen on one rank),
/// with the king boxed in: kept when the library reports at most one legal move
pub fn family_ep_boxed(rng: &mut Rng, n: usize, out: &mut Vec<Desc>) {
    let mut tries = 0;
    let target = out.len() + n;
    while out.len() < target && tries < n * 3000 {
        tries += 1;
        let mut d = Desc::empty();
        // rank 5 (index 4): king, then capturer and victim adjacent, then the slider, in either direction
        let kf = rng.below(8) as i32;
        let dir: i32 = if rng.chance(1, 2) { 1 } else { -1 };
        let gap1 = rng.below(3) as i32;
        let a = kf + dir * (1 + gap1);
        let b = a + dir;
        let gap2 = rng.below(3) as i32;
        let sl = b + dir * (1 + gap2);
        if ![a, b, sl].iter().all(|x| (0..8).contains(x)) { continue }
        let (cap, vic) = if rng.chance(1, 2) { (a, b) } else { (b, a) };
        d.pl[(32 + kf) as usize] = b'K';
        d.pl[(32 + cap) as usize] = b'P';
        d.pl[(32 + vic) as usize] = b'p';
        d.pl[(32 + sl) as usize] = *rng.pick(b"rq");
        d.ep = Some((40 + vic) as u8);
        let k = (32 + kf) as usize;
        let bk = rng.below(64);
        if d.pl[bk] != b'.' || adjacent(bk, k) || bk == (40 + vic) as usize || bk == (48 + vic) as usize { continue }
        d.pl[bk] = b'k';
        for _ in 0..(1 + rng.below(4)) {
            let kr = 4 + rng.below(5) as i32 - 2;
            let kf2 = kf + rng.below(5) as i32 - 2;
            if !(0..8).contains(&kf2) { continue }
            let s = (kr * 8 + kf2) as usize;
            if s / 8 == 4 { continue }
            if d.pl[s] == b'.' && s != (40 + vic) as usize && s != (48 + vic) as usize { d.pl[s] = *rng.pick(b"qrbnnp") }
        }
        // a blocker in front of the capturing pawn so that its push is not available, most of the time
        let front = (40 + cap) as usize;
        if d.pl[front] == b'.' && rng.chance(3, 4) { d.pl[front] = *rng.pick(b"pnb") }
        let bd = match d.build_setup() { Ok(Ok(x)) => x, _ => continue };
        if bd.get_legal_moves().len() > 1 { continue }
        out.push(d.clone());
        out.push(d.flipped());
    }
}

/// the position before the double push that created the en-passant square of `d`, and that push
pub fn predecessor_of_ep(d: &Desc) -> Option<(Desc, String)> {
    let e = d.ep? as usize;
    let (pawn, org, pc) = if d.stm == b'w' { (e - 8, e + 8, b'p') } else { (e + 8, e - 8, b'P') };
    if d.pl[pawn] != pc || d.pl[org] != b'.' || d.pl[e] != b'.' { return None }
    let mut p = d.clone();
    p.pl[pawn] = b'.';
    p.pl[org] = pc;
    p.ep = None;
    p.stm = if d.stm == b'w' { b'b' } else { b'w' };
    if d.stm == b'w' && p.full > 1 { p.full -= 1 }
    let name = |s: usize| format!("{}{}", (b'a' + (s % 8) as u8) as char, (b'1' + (s / 8) as u8) as char);
    Some((p, format!("{}{}", name(org), name(pawn))))
}

/// castling flags with something wrong (or right) on the king's and the rook's home squares
pub fn family_rights_defects(out: &mut Vec<Desc>) {
    for rights in 1..4u8 {
        for ksq in [4usize, 3, 12] {
            for a_corner in [b'R', b'.', b'B', b'r', b'q'] {
                for h_corner in [b'R', b'.', b'N', b'r'] {
                    let mut d = Desc::empty();
                    d.pl[ksq] = b'K';
                    d.pl[0] = a_corner;
                    d.pl[7] = h_corner;
                    d.pl[60] = b'k';
                    d.wr = rights;
                    out.push(d.clone());
                    let mut e = d.clone();
                    e.stm = b'b';
                    out.push(e);
                    out.push(d.flipped());
                }
            }
        }
    }
}
