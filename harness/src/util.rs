// util.rs — PRNG, position descriptors (independent of the library's text formats),
// conversion of descriptors to library values.
use libchess::*;
use std::panic::{catch_unwind, AssertUnwindSafe};

pub struct Rng(pub u64);
impl Rng {
    pub fn new(seed: u64) -> Self { Rng(seed.wrapping_mul(0x9E3779B97F4A7C15) ^ 0xD1B54A32D192ED03) }
    pub fn next(&mut self) -> u64 {
        self.0 = self.0.wrapping_add(0x9E3779B97F4A7C15);
        let mut z = self.0;
        z = (z ^ (z >> 30)).wrapping_mul(0xBF58476D1CE4E5B9);
        z = (z ^ (z >> 27)).wrapping_mul(0x94D049BB133111EB);
        z ^ (z >> 31)
    }
    pub fn below(&mut self, n: usize) -> usize { if n == 0 { 0 } else { (self.next() % n as u64) as usize } }
    pub fn chance(&mut self, num: u64, den: u64) -> bool { self.next() % den < num }
    pub fn pick<'a, T>(&mut self, v: &'a [T]) -> &'a T { &v[self.below(v.len())] }
}

pub fn quiet<F: FnOnce() -> R, R>(f: F) -> Result<R, ()> { catch_unwind(AssertUnwindSafe(f)).map_err(|_| ()) }

pub const PIECE_CHARS: &[u8; 13] = b".PNBRQKpnbrqk";

/// A position description in the harness's own structured form.
#[derive(Clone, Debug, PartialEq, Eq, Hash)]
pub struct Desc {
    pub pl: [u8; 64], // '.', 'P'..'K', 'p'..'k'; a1 first
    pub stm: u8,      // b'w' | b'b'
    pub wr: u8,       // CastlingRights::to_index: 0 neither, 1 queen, 2 king, 3 both
    pub br: u8,
    pub ep: Option<u8>,
    pub half: u64,
    pub full: u64,
}

pub fn pt_of(ch: u8) -> PieceType {
    match ch.to_ascii_uppercase() {
        b'P' => PieceType::Pawn,
        b'N' => PieceType::Knight,
        b'B' => PieceType::Bishop,
        b'R' => PieceType::Rook,
        b'Q' => PieceType::Queen,
        _ => PieceType::King,
    }
}
pub fn pt_char(t: PieceType) -> u8 {
    match t {
        PieceType::Pawn => b'P',
        PieceType::Knight => b'N',
        PieceType::Bishop => b'B',
        PieceType::Rook => b'R',
        PieceType::Queen => b'Q',
        PieceType::King => b'K',
    }
}
pub fn piece_char(p: Piece) -> u8 {
    let c = pt_char(p.0);
    if p.1 == Color::White { c } else { c.to_ascii_lowercase() }
}
pub fn cr_of(i: u8) -> CastlingRights {
    match i {
        0 => CastlingRights::Neither,
        1 => CastlingRights::QueenSide,
        2 => CastlingRights::KingSide,
        _ => CastlingRights::BothSides,
    }
}
pub fn cr_idx(r: CastlingRights) -> u8 {
    match r {
        CastlingRights::Neither => 0,
        CastlingRights::QueenSide => 1,
        CastlingRights::KingSide => 2,
        CastlingRights::BothSides => 3,
    }
}
pub fn sq(i: u8) -> Square { Square::new(i).unwrap() }

impl Desc {
    pub fn empty() -> Desc { Desc { pl: [b'.'; 64], stm: b'w', wr: 0, br: 0, ep: None, half: 0, full: 1 } }
    pub fn to_string(&self) -> String {
        format!(
            "{},{},{},{},{},{},{}",
            std::str::from_utf8(&self.pl).unwrap(),
            self.stm as char,
            self.wr,
            self.br,
            match self.ep { Some(e) => e.to_string(), None => "-".to_string() },
            self.half,
            self.full
        )
    }
    /// parse a conventional FEN (harness-side reader used only for the committed seed list)
    pub fn from_fen(fen: &str) -> Desc {
        let t: Vec<&str> = fen.split(' ').collect();
        let mut d = Desc::empty();
        let (mut r, mut f) = (7i32, 0i32);
        for ch in t[0].bytes() {
            match ch {
                b'/' => { r -= 1; f = 0; }
                b'1'..=b'8' => f += (ch - b'0') as i32,
                _ => { d.pl[(r * 8 + f) as usize] = ch; f += 1; }
            }
        }
        d.stm = t[1].as_bytes()[0];
        let has = |c: char| t[2].contains(c);
        d.wr = (has('K') as u8) * 2 + has('Q') as u8;
        d.br = (has('k') as u8) * 2 + has('q') as u8;
        d.ep = if t[3] == "-" { None } else { let b = t[3].as_bytes(); Some((b[1] - b'1') * 8 + (b[0] - b'a')) };
        d.half = t[4].parse().unwrap();
        d.full = t[5].parse().unwrap();
        d
    }
    /// the harness's own FEN printer (standard six-field FEN)
    pub fn to_fen(&self) -> String {
        let mut s = String::new();
        for r in (0..8).rev() {
            let mut e = 0;
            for f in 0..8 {
                let c = self.pl[r * 8 + f];
                if c == b'.' { e += 1 } else { if e > 0 { s += &e.to_string(); e = 0; } s.push(c as char) }
            }
            if e > 0 { s += &e.to_string() }
            if r > 0 { s.push('/') }
        }
        let mut cs = String::new();
        if self.wr & 2 != 0 { cs.push('K') }
        if self.wr & 1 != 0 { cs.push('Q') }
        if self.br & 2 != 0 { cs.push('k') }
        if self.br & 1 != 0 { cs.push('q') }
        if cs.is_empty() { cs.push('-') }
        let ep = match self.ep {
            Some(e) => format!("{}{}", (b'a' + e % 8) as char, (b'1' + e / 8) as char),
            None => "-".to_string(),
        };
        format!("{} {} {} {} {} {}", s, self.stm as char, cs, ep, self.half, self.full)
    }
    pub fn pieces(&self) -> Vec<(Square, Piece)> {
        let mut v = vec![];
        for i in 0..64u8 {
            let c = self.pl[i as usize];
            if c != b'.' {
                let col = if c.is_ascii_uppercase() { Color::White } else { Color::Black };
                v.push((sq(i), Piece(pt_of(c), col)));
            }
        }
        v
    }
    pub fn color(&self) -> Color { if self.stm == b'w' { Color::White } else { Color::Black } }
    /// construct through the piece-list path
    pub fn build_setup(&self) -> Result<Result<ChessBoard, String>, ()> {
        quiet(|| {
            ChessBoard::setup(&self.pieces(), self.color(), cr_of(self.wr), cr_of(self.br), self.ep.map(sq), self.half as usize, self.full as usize)
                .map_err(|e| format!("{:?}", e))
        })
    }
    /// construct through FEN text written by the harness
    pub fn build_fen(&self) -> Result<Result<ChessBoard, String>, ()> {
        let f = self.to_fen();
        quiet(|| ChessBoard::from_fen(&f).map_err(|e| format!("{:?}", e)))
    }
    /// flip colours and ranks
    pub fn flipped(&self) -> Desc {
        let mut d = self.clone();
        for i in 0..64 {
            let c = self.pl[i];
            let j = (7 - i / 8) * 8 + i % 8;
            d.pl[j] = if c == b'.' { c } else if c.is_ascii_uppercase() { c.to_ascii_lowercase() } else { c.to_ascii_uppercase() };
        }
        d.stm = if self.stm == b'w' { b'b' } else { b'w' };
        d.wr = self.br;
        d.br = self.wr;
        d.ep = self.ep.map(|e| (7 - e / 8) * 8 + e % 8);
        d
    }
    /// mirror files (only meaningful without castling rights)
    pub fn mirrored(&self) -> Desc {
        let mut d = self.clone();
        for i in 0..64 { d.pl[(i / 8) * 8 + (7 - i % 8)] = self.pl[i]; }
        d.ep = self.ep.map(|e| (e / 8) * 8 + (7 - e % 8));
        d
    }
}

/// description of a library board through its public getters
pub fn describe(b: &ChessBoard) -> Desc {
    let mut d = Desc::empty();
    for i in 0..64u8 {
        d.pl[i as usize] = match b.get_piece_on(sq(i)) { Some(p) => piece_char(p), None => b'.' };
    }
    d.stm = if b.get_side_to_move() == Color::White { b'w' } else { b'b' };
    d.wr = cr_idx(b.get_castle_rights(Color::White));
    d.br = cr_idx(b.get_castle_rights(Color::Black));
    d.ep = b.get_en_passant().map(|s| s.to_int());
    d.half = b.get_moves_since_capture_or_pawn_move() as u64;
    d.full = b.get_move_number() as u64;
    d
}

pub fn hex(s: &str) -> String { s.bytes().map(|b| format!("{:02x}", b)).collect() }
pub fn hexb(s: &[u8]) -> String { s.iter().map(|b| format!("{:02x}", b)).collect() }

pub fn strip_ansi(s: &str) -> String {
    let b = s.as_bytes();
    let mut out = Vec::with_capacity(b.len());
    let mut i = 0;
    while i < b.len() {
        if b[i] == 0x1b && i + 1 < b.len() && b[i + 1] == b'[' {
            i += 2;
            while i < b.len() && !(b[i] >= 0x40 && b[i] <= 0x7e) { i += 1 }
            i += 1;
        } else { out.push(b[i]); i += 1 }
    }
    String::from_utf8(out).unwrap()
}

pub fn mv_text(m: &BoardMove) -> String { format!("{}", m) }

pub fn status_str(s: BoardStatus) -> &'static str {
    match s {
        BoardStatus::Ongoing => "ongoing",
        BoardStatus::CheckMated(Color::White) => "mated-w",
        BoardStatus::CheckMated(Color::Black) => "mated-b",
        BoardStatus::TheoreticalDrawDeclared => "theoretical",
        BoardStatus::FiftyMovesDrawDeclared => "fifty",
        BoardStatus::Stalemate => "stalemate",
    }
}
pub fn gstatus_str(s: GameStatus) -> String {
    let c = |c: Color| if c == Color::White { "w" } else { "b" };
    match s {
        GameStatus::Ongoing => "ongoing".into(),
        GameStatus::DrawOffered(x) => format!("offered-{}", c(x)),
        GameStatus::CheckMated(x) => format!("mated-{}", c(x)),
        GameStatus::Resigned(x) => format!("resigned-{}", c(x)),
        GameStatus::FiftyMovesDrawDeclared => "fifty".into(),
        GameStatus::TheoreticalDrawDeclared => "theoretical".into(),
        GameStatus::RepetitionDrawDeclared => "repetition".into(),
        GameStatus::DrawAccepted => "accepted".into(),
        GameStatus::Stalemate => "stalemate".into(),
    }
}

pub const SEED_FENS: &[&str] = &[
    "rnbqkbnr/pppppppp/8/8/8/8/PPPPPPPP/RNBQKBNR w KQkq - 0 1",
    "r3k2r/p1ppqpb1/bn2pnp1/3PN3/1p2P3/2N2Q1p/PPPBBPPP/R3K2R w KQkq - 0 1",
    "8/2p5/3p4/KP5r/1R3p1k/8/4P1P1/8 w - - 0 1",
    "r3k2r/Pppp1ppp/1b3nbN/nP6/BBP1P3/q4N2/Pp1P2PP/R2Q1RK1 w kq - 0 1",
    "rnbq1k1r/pp1Pbppp/2p5/8/2B5/8/PPP1NnPP/RNBQK2R w KQ - 1 8",
    "r4rk1/1pp1qppp/p1np1n2/2b1p1B1/2B1P1b1/P1NP1N2/1PP1QPPP/R4RK1 w - - 0 10",
    "r3k2r/8/8/8/8/8/8/R3K2R w KQkq - 0 1",
    "r3k2r/8/8/8/8/8/8/R3K2R b KQkq - 3 10",
    "4k3/8/8/3pP3/8/8/8/4K3 w - d6 0 2",
    "8/8/8/8/k2Pp2R/8/8/4K3 b - d3 0 1",
    "8/8/8/K2pP2r/8/8/8/7k w - d6 0 1",
    "4k3/P6P/8/8/8/8/p6p/4K3 w - - 0 1",
    "1n2k1n1/P6P/8/8/8/8/p6p/1N2K1N1 b - - 0 1",
    "7k/5Q2/6K1/8/8/8/8/8 b - - 0 1",
    "7k/8/5QK1/8/8/8/8/8 w - - 0 1",
    "k7/8/1K6/8/8/8/8/7R w - - 0 1",
    "4k3/8/8/8/8/8/8/4KB2 w - - 0 1",
    "4k3/8/8/8/8/8/4p3/4KN2 b - - 0 1",
    "4k3/8/8/8/8/8/8/R3K3 w Q - 97 60",
    "4k3/7p/8/8/8/8/8/R3K3 w Q - 99 60",
    "4k2r/8/8/8/8/8/8/4K3 b k - 98 60",
    "4k3/1N6/8/8/8/8/8/1N2KN2 w - - 0 1",
    "4k3/8/8/8/8/8/8/QQQ1K3 w - - 0 1",
    "R6R/8/8/8/8/8/1k6/R3K2R w KQ - 0 1",
    "3rk3/8/8/8/8/8/3B4/3K4 w - - 0 1",
    "4k3/8/8/8/1b6/8/3N4/4K3 w - - 0 1",
    "8/8/8/p3k3/P7/4K3/8/8 w - - 0 1",
    "rnbqkbnr/pppp1ppp/8/4p3/4P3/8/PPPP1PPP/RNBQKBNR w KQkq e6 0 2",
    "r1bqkb1r/pppp1ppp/2n2n2/4p2Q/2B1P3/8/PPPP1PPP/RNB1K1NR w KQkq - 4 4",
    "8/8/8/8/8/5k2/6q1/7K w - - 0 1",
    "k7/1q6/8/8/8/8/6Q1/5K2 w - - 7 1",
    "r3k2r/8/8/8/8/R7/8/R3K2R w KQkq - 0 1",
    "7k/P7/8/8/8/8/8/K7 w - - 0 1",
    "7k/8/8/8/8/8/P7/K7 w - - 0 1",
    "2r1k3/1P6/8/8/8/8/8/4K3 w - - 0 1",
    "4k3/8/8/8/8/8/1p6/R3K3 b Q - 0 1",
];
